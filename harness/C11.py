"""C11 - annotated arrays keep time base, channel labels and metadata aligned with data.
Model: coq/PData/Model.v; theorems: coq/Props/C11.v."""
import itertools
import os
from fractions import Fraction

import numpy as np
from vlib import zlit, zlist, blist, optlit, listlit

PROP = 'C11'
REQUIRES = ['PData.Model']
RULE = ('index-expression grammar on annotated arrays filled with their own flat indices: (a) every time slice with bounds in '
        '[-n-3, n+3] U {None} and step in {None,1,2,3} on a 1-D array (n=4 quick, n=4 and 6 thorough), bare, in a tuple and behind '
        'an Ellipsis on 2-D/3-D arrays; (b) every item (ints incl. out of range, slices, int lists, python-list and ndarray '
        'boolean masks of every bit pattern) on the first axis of 2-D and 3-D arrays; (c) every tuple shape of length 0..ndim+2 '
        'over {axis item, Ellipsis, newaxis} in every position with a reduced item set per axis (shapes (4,), (2,4), (1,4), '
        '(2,3,4), (3,1,4), zero-length axes; thorough: up to (3,3,6)); (c2) legal expressions: every pair of (epoch item, channel item) '
        'over 15 ints/slices/lists/masks x 7 time slices with their Ellipsis / leading-newaxis spellings on (3,2,4), (2,5) '
        '(thorough: also (2,3,6), (3,3,6), (3,6)); (d) seeded random '
        'expressions from the full grammar on shapes up to (3,3,6), s0 in {0,-5,7,-64}, three rates; (e) chains of 2-3 '
        'expressions; (f) concat along time/channel/epoch of adjacent splits, of splits with a gap/overlap/other rate/other '
        'labels/other metadata/other ndim, and of pieces obtained by real slicing; (f2) adjacent pieces along time / channel / epoch at 100 kHz '
        'and 195312.5 Hz with exactly ONE attribute of ONE piece perturbed minimally (rate by relative 1e-9, 1e-6, 1e-4 and +-0.5 Hz; s0 by +-1; '
        'one label replaced by an equal-looking one of another type; one nested metadata value; one more dimension) - must be rejected, '
        'the unperturbed pieces must restore the original; (g) arithmetic, copy, astype; (l) sole integer ndarrays (int64, intp, uint8) and '
        'lists without a 0 / with a 0 / empty / out of range on the first axis of (5,), (3,4), (4,2,3), alone and chained; integer lists and '
        'arrays on the time axis inside tuples; boolean masks (all-True, mixed, all-False, wrong length) as list / ndarray / list of '
        'np.bool_ on the first and the time axis; a 0-d ndarray rate followed by strided slices with the rate of the SOURCE read afterwards. '
        'Integer lists also as 1-D integer ndarrays inside tuples. In 7 of 9 cases the channel labels and metadata are heterogeneous '
        'Python objects (mixed ints/strings, tuples, strings, float/None/tuple mixes; metadata dicts holding them), compared with the '
        'original objects by identity or typed ==. '
        'Non-trivial: the implementation returned an annotated array whose data, labels or metadata differ from the input, '
        'or an exception. Distinct = distinct cases.')
TRUSTED = ['harness/C11.py (grammar generator; conversion of PipelineData observables to integer identifiers; the semantic '
           'oracle that expands an index expression into one selection per axis)',
           'NumPy indexing (basic, advanced, broadcasting of several index arrays, newaxis) and np.concatenate as modelled in '
           'coq/PData/Model.v np_getitem / cat2 (exercised by the correspondence, not proved)',
           'Python list indexing/slicing as modelled in coq/Common/PySlice.v']
ASSUMPTIONS = ['slice steps are None or >= 1 (the property quantifies over step >= 1)',
               'a zero-length boolean mask is only used on zero-length axes (NumPy accepts it on any axis and selects nothing; every other '
               'wrong-length mask is an IndexError - the special case is not modelled)',
               'channel labels and metadata entries are identifiers in the model; the harness maps every distinct label / metadata object '
               '(ints, strings, None, tuples, floats, dicts with nested values) to its identifier by identity or type-exact equality',
               'rates are chosen so that fs/step is exact in binary64 (36000, 45, 1757812.5); the model keeps fs as a fraction',
               'the value of s0 after a strided slice is compared model-vs-code but not judged (pinned by the existing tests)',
               'an int on the TIME axis and a newaxis that is not leading are outside the claim: compared model-vs-code only; a list / '
               'integer array / mask on the TIME axis may be refused, but when accepted the result must report the timestamps of the selected samples']

EXC = {'IndexError': 'EIndex', 'ValueError': 'EValue', 'NotImplementedError': 'ENotImpl', 'TypeError': 'ETypeKey',
       'KeyError': 'ETypeKey', 'UnboundLocalError': 'EUnbound'}
FSS = [[36000, 1], [45, 1], [3515625, 2]]
K_EPOCH_KEPT = 'getitem:3d-int-on-channel-axis-keeps-epoch-axis'
K_PAIRED = 'getitem:two-list-or-mask-indices-are-paired'
K_NPINT = 'getitem:numpy-integer-index-not-recognised'
K_PDMASK = 'getitem:annotated-array-used-as-index-skips-fixup'


# --------------------------------------------------------------------------- building inputs
def _labels(shape, cn=False):
    nd = len(shape)
    if nd == 1:
        return (None if cn else 70), {'id': 90}
    if nd == 2:
        return [70 + i for i in range(shape[0])], {'id': 90}
    return [70 + i for i in range(shape[1])], [{'id': 90 + i} for i in range(shape[0])]


# Labels / metadata are identifiers (70+i, 90+i, None = -1) in the cases, in the oracle and in the Coq model.  The arrays
# handed to psiaudio carry heterogeneous Python objects instead (palette `lab` of the case); results are mapped back
# by comparing with the ORIGINAL objects (identity, or == with equal types all the way down), never through str().
PALETTES = [
    None,                                                                       # 0: the identifiers themselves (ints)
    [1, 'ref', 2, 'x', 3, 'y', 4, 'z'],                                         # 1: ints and strings mixed
    [('A', 0), ('A', 1), ('B', 0), ('B', 1), ('C', 0), ('C', 1), ('D', 0), ('D', 1)],   # 2: tuples
    ['ch0', 'ch1', 'ch2', 'ch3', 'ch4', 'ch5', 'ch6', 'ch7'],                   # 3: strings
    [2.5, None, 'a', ('t', 2), 7, ('u',), 'b', -3],                             # 4: float, None, str, tuples, ints
    # 5-8: FALSY first label (the scalar label of 1-D arrays) and equal-looking neighbours of another type at 70+2j / 70+2j+1
    #      (pairwise unequal for Python's ==, so that psiaudio and the identifier model agree on what "the same label" is)
    [0, '0', None, '', 1, '1', (), 'None'],
    [False, 'False', None, 'x', 2, '2', ('',), 0.5],
    ['', ' ', None, 'None', 3, '3', (), 0.25],
    [0.0, '0.0', None, 'y', 4, '4', (0,), -1],
]
BAD = -999


def _same(a, b):
    if a is b:
        return True
    if type(a) is not type(b):
        return False
    if isinstance(a, (tuple, list)):
        return len(a) == len(b) and all(_same(u, v) for u, v in zip(a, b))
    if isinstance(a, dict):
        return list(a.keys()) == list(b.keys()) and all(_same(a[k], b[k]) for k in a)
    return a == b


def _lab_obj(lab, ident):
    if ident == -1:
        return None
    return ident if not lab else PALETTES[lab][(ident - 70) % 8]


def _lab_id(lab, obj):
    if not lab:
        if obj is None:
            return -1
        return obj if type(obj) is int else BAD
    for j, q in enumerate(PALETTES[lab]):
        if _same(obj, q):
            return 70 + j
    return BAD


def _md_obj(lab, ident):
    """identifiers >= 1000 denote the entry ident-1000 with ONE nested value changed"""
    if ident == -2:
        return {}
    k = ident - 1000 if ident >= 1000 else ident
    d = {'id': k} if not lab else {'id': k, 'tag': PALETTES[lab][(k - 90) % 8], 'n': [k, str(k), (k,)], 'z': 0}
    if ident >= 1000:
        d['n'] = [k] if not lab else [k, str(k), (k, 0)]
    return d


def _rate(f):
    """the rate as a rational.  The code divides the rate by the step in floating point (fs / step); the model and
    the oracle divide rationals.  A float that is the rounded value (within 4 ulp: repeated strided slices round
    more than once) of a rational with a small denominator stands for that rational; any other float for itself."""
    x = float(f)
    fr = Fraction(x)
    small = fr.limit_denominator(10 ** 7)
    if small != fr and abs(float(small) - x) <= 9e-16 * abs(x):
        return small
    return fr


def _md_id(lab, obj):
    if type(obj) is dict and not obj:
        return -2
    if isinstance(obj, dict) and type(obj.get('id')) is int:
        for ident in (obj['id'], obj['id'] + 1000):
            if _same(obj, _md_obj(lab, ident)):
                return ident
    return BAD


def _kinds(kd, d, fs, s0):
    """unusual-but-legal argument kinds: kd = {'dt': dtype, 'ro': read-only, 'lst': nested list, 'fs': 'int'|'np'|'f32',
    's0': 'np'|'float'}"""
    if kd.get('dt'):
        d = d.astype(kd['dt'])
    if kd.get('ro'):
        d.setflags(write=False)
    if kd.get('lst') and d.size:          # (an empty nested list would lose the shape)
        d = d.tolist()
    f = fs[0] / fs[1]
    if kd.get('fs') == 'int' and fs[1] == 1:
        f = int(fs[0])
    elif kd.get('fs') == 'np':
        f = np.float64(f)
    elif kd.get('fs') == 'f32' and float(np.float32(f)) == f:
        f = np.float32(f)
    elif kd.get('fs') == 'arr0':          # a 0-d ndarray (mutable: `fs /= step` would change it in place)
        f = np.array(float(f))
    if kd.get('s0') == 'np':
        s0 = np.int64(s0)
    elif kd.get('s0') == 'float':
        s0 = float(s0)
    return d, f, s0


def _mk(case):
    from psiaudio.pipeline import PipelineData
    shape = tuple(case['shape'])
    lab = case.get('lab', 0)
    d = np.arange(int(np.prod(shape)), dtype=float).reshape(shape)
    ch, md = _labels(shape, case.get('cn', False))
    ch = [_lab_obj(lab, c) for c in ch] if isinstance(ch, list) else (None if ch is None else _lab_obj(lab, ch))
    md = [_md_obj(lab, m['id']) for m in md] if isinstance(md, list) else _md_obj(lab, md['id'])
    d, f, s0 = _kinds(case.get('kd', {}), d, case['fs'], case['s0'])
    return PipelineData(d, fs=f, s0=s0, channel=ch, metadata=md)


def _mk_new(case):
    """constructor as called by users: channel / metadata omitted, given, or of the wrong length; positional or keyword"""
    from psiaudio.pipeline import PipelineData
    shape = tuple(case['shape'])
    lab = case.get('lab', 0)
    d = np.arange(int(np.prod(shape)), dtype=float).reshape(shape)
    d, f, s0 = _kinds(case.get('kd', {}), d, case['fs'], case['s0'])
    kw = {}
    if case['ch'] is not None:
        kw['channel'] = [_lab_obj(lab, c) for c in case['ch']] if isinstance(case['ch'], list) else _lab_obj(lab, case['ch'])
        if case.get('tup'):
            kw['channel'] = tuple(kw['channel'])
    if case['md'] is not None:
        kw['metadata'] = _md_obj(lab, case['md'][1]) if case['md'][0] == 'D' else [_md_obj(lab, k) for k in case['md'][1]]
    if case.get('s0_default'):
        return PipelineData(d, f, **kw)
    if case.get('positional'):
        return PipelineData(d, f, s0, kw.get('channel'), kw.get('metadata'))
    return PipelineData(d, fs=f, s0=s0, **kw)


def _mk_lit(p, lab=0):
    from psiaudio.pipeline import PipelineData
    d = np.array(p['vals'], dtype=float).reshape(p['shape'])
    if p.get('plain'):
        return d.astype(p['kd']['dt']) if p.get('kd', {}).get('dt') else d
    ch = p['ch']
    ch = [_lab_obj(lab, c) for c in ch] if isinstance(ch, list) else _lab_obj(lab, ch)
    md = _md_obj(lab, p['md'][1]) if p['md'][0] == 'D' else [_md_obj(lab, k) for k in p['md'][1]]
    d, f, s0 = _kinds(p.get('kd', {}), d, p['fs'], p['s0'])
    return PipelineData(d, fs=f, s0=s0, channel=ch, metadata=md)


def _pyitem(it, npk=None):
    """npk: 'i' ints as np.int64, 's' slice bounds as NumPy ints, 't' lists as tuples-free variants (list of np.int64)"""
    npk = npk or ''
    k = it[0]
    if k == 'i':
        return np.int64(it[1]) if 'i' in npk else it[1]
    if k == 's':
        if 's' in npk:
            return slice(*[None if v is None else np.int32(v) for v in it[1:4]])
        return slice(it[1], it[2], it[3])
    if k == 'l':
        return [np.int64(z) for z in it[1]] if 't' in npk else list(it[1])
    if k == 'a':                      # 1-D integer ndarray; it[2] = dtype name (default int).  Inside a tuple NumPy and the
        return np.array(it[1], dtype=(it[2] if len(it) > 2 else int))      # model read it as the list; sole: XArr
    if k == 'm':
        if it[2] == 'b_':             # a python list whose elements are np.bool_
            return [np.bool_(b) for b in it[1]]
        if it[2] == 'pd':             # a boolean mask that is itself an annotated array (e.g. the result of a comparison)
            from psiaudio.pipeline import PipelineData
            return PipelineData(np.array(it[1], dtype=bool), fs=1.0)
        return np.array(it[1], dtype=bool) if it[2] else [bool(b) for b in it[1]]
    if k == 'e':
        return Ellipsis
    if k == 'n':
        return np.newaxis
    raise KeyError(k)


def _pyindex(idx, npk=None):
    items = [_pyitem(i, npk) for i in idx['items']]
    return items[0] if idx['sole'] else tuple(items)


def _obs(r, lab=0):
    """observables of a result, canonicalised (labels / metadata mapped back to their identifiers)"""
    from psiaudio.pipeline import PipelineData
    if not isinstance(r, PipelineData):
        return {'scalar': int(r)}
    bad = []
    ch = r.channel
    if isinstance(ch, list):
        ids = [_lab_id(lab, c) for c in ch]
        bad += [f'channel label {c!r} is not one of the original label objects' for c, i in zip(ch, ids) if i == BAD]
        ch = ids
    else:
        i = _lab_id(lab, ch)
        if i == BAD:
            bad.append(f'channel label {ch!r} is not one of the original label objects')
        ch = i
    md = r.metadata
    if isinstance(md, dict):
        i = _md_id(lab, md)
        if i == BAD:
            bad.append(f'metadata {md!r} is not the original metadata object')
        md = ['D', i]
    elif isinstance(md, list):
        ids = [_md_id(lab, m) for m in md]
        bad += [f'metadata entry {m!r} is not one of the original entries' for m, i in zip(md, ids) if i == BAD]
        md = ['L', ids]
    else:
        raise TypeError(f'metadata of unexpected form {md!r}')
    fs = _rate(r.fs)
    n = r.shape[-1]
    t = r.t
    s0 = int(r.s0)
    if s0 != r.s0:
        raise TypeError(f's0 not an integer: {r.s0!r}')
    t_ok = bool(np.array_equal(t, np.arange(s0, s0 + n) / float(r.fs))) and len(t) == n
    return {'shape': [int(v) for v in r.shape], 'vals': [int(v) for v in np.asarray(r).ravel()],
            's0': s0, 'fs': [fs.numerator, fs.denominator], 'ch': ch, 'md': md, 't_ok': t_ok,
            'n_channels': r.n_channels, 'n_epochs': r.n_epochs, 'n_time': r.n_time, **({'bad': bad[:3]} if bad else {})}


def _catch(f):
    try:
        return f()
    except (IndexError, ValueError, NotImplementedError, TypeError, KeyError, UnboundLocalError) as e:
        name = type(e).__name__
        if name not in EXC:              # e.g. numpy AxisError (a ValueError and an IndexError)
            name = next(b.__name__ for b in (ValueError, IndexError, TypeError, KeyError) if isinstance(e, b))
        return {'exc': name, 'msg': str(e)[:120]}


def _obs_any(r, lab):
    from psiaudio.pipeline import PipelineData
    if isinstance(r, np.ndarray) and not isinstance(r, PipelineData):
        return {'plain': True, 'shape': [int(v) for v in r.shape], 'vals': [int(v) for v in r.ravel()]}
    return _obs(r, lab)


def _scribble(a):
    """the caller writes into the annotation containers of an array it owns (lists only: dict entries are shared by design)"""
    if isinstance(a.channel, list):
        a.channel.append('scribble')
        a.channel[0] = 'scribble0'
    if isinstance(a.metadata, list):
        a.metadata.append({'scribble': 1})
        a.metadata[0] = {'scribble': 0}


def _alias(src, res_, lab):
    """annotations of a result and of its source do not share containers: writing into one leaves the other alone"""
    from psiaudio.pipeline import PipelineData
    if not (isinstance(src, PipelineData) and isinstance(res_, PipelineData)) or src is res_:
        return None
    o_src, o_res = _obs(src, lab), _obs(res_, lab)
    _scribble(res_)
    if _obs(src, lab) != o_src:
        return 'writing into the channel / metadata list of the result changed the source array'
    o_res = _obs(res_, lab)
    _scribble(src)
    if _obs(res_, lab) != o_res:
        return 'writing into the channel / metadata list of the source changed the result'
    return None


def _chain(x, ixs, lab, npk, steps):
    """apply the index expressions one after the other, recording the observables of every step"""
    src = None
    for idx in ixs:
        r = _catch(lambda: x[_pyindex(idx, npk)])
        if isinstance(r, dict):
            steps.append(r)
            return None, None
        o = _obs(r, lab)
        steps.append(o)
        if 'scalar' in o:
            return None, None
        if lab and _wf(o):
            # a malformed intermediate (recorded finding) carrying e.g. a tuple or string as its single label: what
            # indexing does to that label next depends on the label's own type; the identifier model stops here
            return None, None
        src, x = x, r
    return src, x


def _do_op(x, o):
    import copy as _copy
    from psiaudio.pipeline import PipelineData
    f = {'add': lambda: x + o[1], 'radd': lambda: o[1] + x, 'mul': lambda: x * o[1], 'neg': lambda: -x,
         'abs': lambda: np.abs(x - o[1]) if len(o) > 1 else np.abs(x), 'copy': lambda: x.copy(),
         'copy2': lambda: _copy.copy(x), 'deepcopy': lambda: _copy.deepcopy(x),
         'astype': lambda: x.astype(o[1]), 'gt': lambda: x > o[1], 'rsub': lambda: o[1] - x,
         'selfadd': lambda: x + x, 'ndadd': lambda: np.full(x.shape, float(o[1])) + x,
         'iadd': lambda: _iadd(x, o[1]),
         'addnp': lambda: x + np.float64(o[1]), 'addint': lambda: x + int(o[1]), 'addnpi': lambda: x + np.int16(o[1]),
         'mulnp': lambda: np.float32(o[1]) * x, 'positive': lambda: +x, 'square': lambda: np.multiply(x, x),
         # the other operand is an annotated array with OTHER annotations: the result keeps those of the left operand
         'pdadd': lambda: x + PipelineData(np.full(x.shape, float(o[1])), fs=7.0, s0=123),
         'view': lambda: x.view(), 'fullslice': lambda: x[...] + 0}[o[0]]
    return f()


def _default_containers_shared(x):
    """annotating ONE epoch (or relabelling one channel) of a freshly constructed array must not show on another:
    the per-epoch metadata entries / channel labels the constructor supplies are independent objects"""
    md = getattr(x, 'metadata', None)
    if isinstance(md, list) and len(md) >= 2 and all(isinstance(m, dict) for m in md):
        before = [dict(m) for m in md]
        md[0]['_one_epoch_only'] = 1
        changed = [i for i in range(1, len(md)) if md[i] != before[i]]
        del md[0]['_one_epoch_only']
        if changed:
            return f'adding a metadata key to epoch 0 of a new {list(x.shape)} array also changed epochs {changed}'
    return None


def impl(case):
    from psiaudio.pipeline import concat
    k = case['k']
    lab = case.get('lab', 0)
    npk = case.get('npk')
    if k == 'get':
        x = _mk(case)
        steps = [_obs(x, lab)]
        src, r = _chain(x, case['ixs'], lab, npk, steps)
        alias = _alias(src, r, lab) if src is not None else None
        if alias is None and _rate(x.fs) != Fraction(*steps[0]['fs']):
            alias = (f'indexing changed the rate of the SOURCE array from {Fraction(*steps[0]["fs"])} to {_rate(x.fs)} '
                     f'(rate object of type {type(x.fs).__name__} shared with the result)')
        return {'steps': steps, 'alias': alias}
    if k == 'new':
        x = _catch(lambda: _mk_new(case))
        if isinstance(x, dict):
            return {'steps': [x], 'alias': None}
        steps = [_obs(x, lab)]
        src, r = _chain(x, case.get('ixs', []), lab, npk, steps)
        alias = _alias(src, r, lab) if src is not None else None
        if alias is None:
            alias = _default_containers_shared(_catch(lambda: _mk_new(case)))
        return {'steps': steps, 'alias': alias}
    if k == 'cat':
        ps = [_mk_lit(p, lab) for p in case['pieces']]
        before = [_obs_any(p, lab) for p in ps]
        arg = tuple(ps) if case.get('tuple') else ps
        r = _catch(lambda: concat(arg, axis=case['axis']) if 'axis' in case else concat(arg))
        out = r if isinstance(r, dict) and 'exc' in r else _obs_any(r, lab)
        alias = None
        if 'exc' not in out and not out.get('plain'):
            _scribble(r)
            if [_obs_any(p, lab) for p in ps] != before:
                alias = 'writing into the channel / metadata list of the concatenated array changed a piece'
        return {'out': out, 'alias': alias}
    if k == 'slicecat':
        x = _mk(case)
        ps = []
        for ixs in case['ixss']:
            y = x
            for idx in ixs:
                y = _catch(lambda: y[_pyindex(idx, npk)])
                if isinstance(y, dict):
                    return {'out': y, 'pieces': [_obs(p, lab) for p in ps], 'x': _obs(x, lab), 'slicing_failed': _show(idx)}
            ps.append(y)
        r = _catch(lambda: concat(ps, axis=case['axis']))
        return {'out': r if isinstance(r, dict) else _obs(r, lab), 'pieces': [_obs(p, lab) for p in ps], 'x': _obs(x, lab)}
    if k == 'op':
        x = _mk(case)
        r = _do_op(x, case['op'])
        steps = [_obs(r, lab)]
        alias = _alias(x, r, lab) if not case.get('ixs') else None
        if case.get('ixs'):
            src, r2 = _chain(r, case['ixs'], lab, npk, steps)
            alias = _alias(src, r2, lab) if src is not None else None
        return {'out': steps[0], 'steps': steps, 'alias': alias}
    raise KeyError(k)


def _iadd(x, k):
    y = x.copy()
    y += k
    return y


# --------------------------------------------------------------------------- Coq terms
def _lab(l):
    return f'(LMany {zlist(l)})' if isinstance(l, list) else f'(LOne {zlit(l)})'


def _md(m):
    return f'(LOne {zlit(m[1])})' if m[0] == 'D' else f'(LMany {zlist(m[1])})'


def _item(it):
    k = it[0]
    if k == 'i':
        return f'IInt {zlit(it[1])}'
    if k == 's':
        return f'ISlice {optlit(it[1], zlit)} {optlit(it[2], zlit)} {optlit(it[3], zlit)}'
    if k in 'la':
        return f'IList {zlist(it[1])}'
    if k == 'm':
        return f'IMask {blist(it[1])} {"true" if it[2] in (True, "pd") else "false"}'
    return 'IEllipsis' if k == 'e' else 'INewaxis'


def _index(idx):
    return f'{{| sole := {"true" if idx["sole"] else "false"}; items := {listlit([_item(i) for i in idx["items"]])} |}}'


def _sole_arr(idx):
    return idx['sole'] and len(idx['items']) == 1 and idx['items'][0][0] == 'a'


def _xindex(idx):
    return f'(XArr {zlist(idx["items"][0][1])})' if _sole_arr(idx) else f'(XIdx {_index(idx)})'


def _x(case):
    ch, md = _labels(case['shape'], case.get('cn', False))
    ch = [c for c in ch] if isinstance(ch, list) else (-1 if ch is None else ch)
    mdl = ['D', md['id']] if isinstance(md, dict) else ['L', [m['id'] for m in md]]
    return f'(mk {zlist(case["shape"])} {zlit(case["s0"])} {zlit(case["fs"][0])} {zlit(case["fs"][1])} {_lab(ch)} {_md(mdl)})'


def _res(o):
    if 'exc' in o:
        return f'(RErr {EXC[o["exc"]]})'
    if 'scalar' in o:
        return f'(RScalar {zlit(o["scalar"])})'
    return (f'(mkv {zlist(o["shape"])} {zlist(o["vals"])} {zlit(o["s0"])} {zlit(o["fs"][0])} {zlit(o["fs"][1])} '
            f'{_lab(o["ch"])} {_md(o["md"])})')


def _lit(p):
    return (f'(mkv {zlist(p["shape"])} {zlist(p["vals"])} {zlit(p["s0"])} {zlit(p["fs"][0])} {zlit(p["fs"][1])} '
            f'{_lab(p["ch"])} {_md(["D", p["md"][1]] if p["md"][0] == "D" else ["L", p["md"][1]])})')


DIM = {-1: 'DTime', -2: 'DChan', -3: 'DEpoch', 'time': 'DTime', 'channel': 'DChan', 'epoch': 'DEpoch'}
REP = 'false' if os.environ.get('C11_UNREPAIRED') else 'true'


def _uop(o):
    return {'add': lambda: f'(UAdd {zlit(o[1])})', 'radd': lambda: f'(UAdd {zlit(o[1])})', 'iadd': lambda: f'(UAdd {zlit(o[1])})',
            'ndadd': lambda: f'(UAdd {zlit(o[1])})', 'mul': lambda: f'(UMul {zlit(o[1])})', 'neg': lambda: 'UNeg',
            'abs': lambda: 'UAbs' if len(o) == 1 else None, 'copy': lambda: 'UCopy', 'copy2': lambda: 'UCopy',
            'deepcopy': lambda: 'UCopy', 'astype': lambda: '(UGt 0)' if o[1] == 'bool' else 'UCopy', 'gt': lambda: f'(UGt {zlit(o[1])})',
            'rsub': lambda: f'(URsub {zlit(o[1])})', 'selfadd': lambda: '(UMul 2)',
            'addnp': lambda: f'(UAdd {zlit(o[1])})', 'addint': lambda: f'(UAdd {zlit(o[1])})', 'addnpi': lambda: f'(UAdd {zlit(o[1])})',
            'mulnp': lambda: f'(UMul {zlit(o[1])})', 'positive': lambda: 'UCopy', 'pdadd': lambda: f'(UAdd {zlit(o[1])})',
            'view': lambda: 'UCopy', 'fullslice': lambda: 'UCopy'}[o[0]]()


def _optlab(l):
    return 'None' if l is None else f'(Some {_lab(l)})'


def _piece(p):
    plain = 'true' if p.get('plain') else 'false'
    if p.get('plain'):
        return f'(mk_piece true {zlist(p["shape"])} {zlist(p["vals"])} 0 1 1 (LOne 0) (LOne 0))'
    return (f'(mk_piece {plain} {zlist(p["shape"])} {zlist(p["vals"])} {zlit(p["s0"])} {zlit(p["fs"][0])} {zlit(p["fs"][1])} '
            f'{_lab(p["ch"])} {_md(p["md"])})')


def term(case, res):
    k = case['k']
    if k == 'get':
        n = len(res['steps']) - 1
        if any(_sole_arr(i) for i in case['ixs'][:n]):          # a sole integer ndarray is not an item of the index language
            ixs = listlit([_xindex(i) for i in case['ixs'][:n]])
            return f'check_getitems_x {REP} {_x(case)} {ixs} {_res(res["steps"][-1])}'
        ixs = listlit([_index(i) for i in case['ixs'][:n]])
        return f'check_getitems_gen {REP} {_x(case)} {ixs} {_res(res["steps"][-1])}'
    if k == 'new':
        n = len(res['steps']) - 1
        ixs = listlit([_index(i) for i in case.get('ixs', [])[:n]])
        nvals = int(np.prod(case['shape']))
        s0 = 0 if case.get('s0_default') else case['s0']
        md = None if case['md'] is None else (f'(Some {_md(case["md"])})')
        return (f'check_new {zlist(case["shape"])} {zlist(range(nvals))} {zlit(s0)} {zlit(case["fs"][0])} {zlit(case["fs"][1])} '
                f'{_optlab(case["ch"])} {md} {ixs} {_res(res["steps"][-1])}')
    if k == 'cat':
        if case.get('any'):
            ax = case.get('axis', -1)
            dm = f'(Some {DIM[ax]})' if (isinstance(ax, (int, str)) and not isinstance(ax, bool) and ax in DIM) else 'None'
            o = res['out']
            if o.get('plain'):
                got = f'(mkv {zlist(o["shape"])} {zlist(o["vals"])} 0 1 1 (LOne 0) (LOne 0))'
                return f'check_concat_any {dm} {listlit([_piece(p) for p in case["pieces"]])} true {got}'
            return f'check_concat_any {dm} {listlit([_piece(p) for p in case["pieces"]])} false {_res(o)}'
        return f'check_concat_lit {listlit([_lit(p) for p in case["pieces"]])} {DIM[case["axis"]]} {_res(res["out"])}'
    if k == 'slicecat':
        ixss = listlit([listlit([_index(i) for i in ixs]) for ixs in case['ixss']])
        return f'check_concat {_x(case)} {ixss} {DIM[case["axis"]]} {_res(res["out"])}'
    if k == 'op':
        if case.get('ixs'):
            n = len(res['steps']) - 1
            ixs = listlit([_index(i) for i in case['ixs'][:n]])
            return f'check_op_getitems {_x(case)} {_uop(case["op"])} {ixs} {_res(res["steps"][-1])}'
        return f'check_op {_x(case)} {_uop(case["op"])} {_res(res["out"])}'
    raise KeyError(k)


# --------------------------------------------------------------------------- the property as an oracle
def _sel_of(it, n):
    k = it[0]
    if k == 'i':
        z = it[1]
        return None if (z < -n or z >= n) else ('int', z % n)
    if k == 's':
        return ('keep', list(range(n))[slice(it[1], it[2], it[3])])
    if k in 'la':
        if any(z < -n or z >= n for z in it[1]):
            return None
        return ('keep', [z % n for z in it[1]])
    if k == 'm':
        return None if len(it[1]) != n else ('keep', [i for i, b in enumerate(it[1]) if b])
    return None


def _wf(o):
    """positional well-formedness: the counts equal the axis lengths"""
    nd = len(o['shape'])
    msgs = []
    if nd > 3:
        return [f'{nd}-D result']
    if nd >= 2:
        if not isinstance(o['ch'], list):
            msgs.append(f'{nd}-D result with {o["shape"][-2]} channels carries the single label {o["ch"]}')
        elif len(o['ch']) != o['shape'][-2]:
            msgs.append(f'{len(o["ch"])} channel labels {o["ch"]} for {o["shape"][-2]} channels')
    elif isinstance(o['ch'], list):
        msgs.append(f'1-D result carries a label list {o["ch"]}')
    if nd == 3:
        if o['md'][0] != 'L':
            msgs.append('3-D result carries a single metadata entry')
        elif len(o['md'][1]) != o['shape'][0]:
            msgs.append(f'{len(o["md"][1])} metadata entries for {o["shape"][0]} epochs')
    elif o['md'][0] != 'D':
        msgs.append(f'{nd}-D result carries a metadata list of {len(o["md"][1])} entries (n_epochs is None)')
    if not o.get('t_ok', True):
        msgs.append('.t is not (s0 + arange(n_time)) / fs')
    if 'n_time' in o:
        want = (o['shape'][-1], 1 if nd == 1 else o['shape'][-2], None if nd < 3 else o['shape'][-3])
        if (o['n_time'], o['n_channels'], o['n_epochs']) != want:
            msgs.append(f'(n_time, n_channels, n_epochs) = {(o["n_time"], o["n_channels"], o["n_epochs"])} for shape {o["shape"]}')
    return msgs


def _expected(inp, idx):
    """Semantic reading of one index expression on a well-formed input: one selection per axis.
    None: outside the claim (NumPy itself refuses it, newaxis not leading, time item not a slice, > 3-D)."""
    items = idx['items']
    shape = inp['shape']
    nd = len(shape)
    if sum(1 for i in items if i[0] == 'e') > 1:
        return None
    k = 0
    while k < len(items) and items[k][0] == 'n':
        k += 1
    rest = items[k:]
    if any(i[0] == 'n' for i in rest) or nd + k > 3:
        return None
    cons = [i for i in rest if i[0] != 'e']
    if len(cons) > nd:
        return None
    full = ['s', None, None, None]
    if any(i[0] == 'e' for i in rest):
        p = [j for j, i in enumerate(rest) if i[0] == 'e'][0]
        per = rest[:p] + [full] * (nd - len(cons)) + rest[p + 1:]
    else:
        per = rest + [full] * (nd - len(cons))
    if per[-1][0] != 's':
        return None
    for it in per:
        if it[0] == 's' and it[3] is not None and it[3] < 1:
            return None
    sels = [_sel_of(it, n) for it, n in zip(per, shape)]
    if any(s is None for s in sels):
        return None
    x = np.array(inp['vals'], dtype=np.int64).reshape(shape)
    vals = x[np.ix_(*[np.atleast_1d(np.array(s, dtype=int)) for (_, s) in sels])]
    oshape = [1] * k + [len(s) for (kind, s) in sels if kind == 'keep']
    names = ['E', 'C', 'T'][3 - nd:]
    ax = dict(zip(names, sels))
    exp = {'vals': [int(v) for v in vals.ravel()], 'shape': oshape, 'per': per,
           'nadv': sum(1 for it in per if it[0] in 'lma'), 'step': per[-1][3] or 1, 'tsel': ax['T'][1]}
    if 'C' in ax:
        kind, s = ax['C']
        exp['ch'] = inp['ch'][s] if kind == 'int' else [inp['ch'][i] for i in s]
        exp['dropC'] = kind == 'int'
    else:
        exp['ch'] = [inp['ch']] if k >= 1 else inp['ch']
        exp['dropC'] = False
    if 'E' in ax:
        kind, s = ax['E']
        exp['md'] = ['D', inp['md'][1][s]] if kind == 'int' else ['L', [inp['md'][1][i] for i in s]]
        exp['keepE'] = kind == 'keep'
    else:
        exp['md'] = ['L', [inp['md'][1]]] if nd + k == 3 else inp['md']
        exp['keepE'] = nd + k == 3
    return exp


def _time_fancy(inp, idx):
    """the expression is one NumPy reads per axis (as in _expected) except that the TIME item is a list / integer array /
    mask with nothing else advanced: returns the selected time positions, else None"""
    items = idx['items']
    shape = inp['shape']
    nd = len(shape)
    if sum(1 for i in items if i[0] == 'e') > 1:
        return None
    k = 0
    while k < len(items) and items[k][0] == 'n':
        k += 1
    rest = items[k:]
    if any(i[0] == 'n' for i in rest) or nd + k > 3:
        return None
    cons = [i for i in rest if i[0] != 'e']
    if len(cons) > nd:
        return None
    full = ['s', None, None, None]
    if any(i[0] == 'e' for i in rest):
        p = [j for j, i in enumerate(rest) if i[0] == 'e'][0]
        if any(it[0] == 'i' for it in rest[:p]):
            # an int, an Ellipsis, then the time list: the Ellipsis separates the two advanced indices even when
            # it stands for no axis at all, and NumPy moves the indexed axes to the front (time is not last)
            return None
        per = rest[:p] + [full] * (nd - len(cons)) + rest[p + 1:]
    else:
        per = rest + [full] * (nd - len(cons))
    if per[-1][0] not in 'lam' or any(it[0] in 'lam' for it in per[:-1]):
        return None
    head = per[:-1]
    while head and head[-1][0] == 'i':
        head = head[:-1]
    if any(it[0] == 'i' for it in head):
        return None         # an int separated from the time list by a slice: NumPy moves the indexed axes to the front
    if per[-1][0] == 'm' and per[-1][2] == 'pd':
        return None
    if any(it[0] == 's' and it[3] is not None and it[3] < 1 for it in per):
        return None
    sels = [_sel_of(it, n) for it, n in zip(per, shape)]
    if any(s is None for s in sels):
        return None
    return sels[-1][1]


def _judge_step(inp, idx, got, npk=None):
    """returns (message, key) or None"""
    tsel = _time_fancy(inp, idx)
    if tsel is not None and 'exc' not in got and 'scalar' not in got:
        # fancy indexing of the time axis may be refused; when it is accepted every remaining sample must keep its
        # absolute timestamp (only a selection that is one contiguous run can be described by s0 / fs at all)
        want_t = [inp['s0'] + i for i in tsel]
        got_t = list(range(got['s0'], got['s0'] + got['shape'][-1]))
        if got_t != want_t or Fraction(*got['fs']) != Fraction(*inp['fs']):
            return (f'x{inp["shape"]}[{_show(idx)}] picked the samples {tsel[:4]}.. of the time axis but reports the samples '
                    f'{got_t[:4]}.. (s0 {got["s0"]}, fs {Fraction(*got["fs"])}): timestamps are not those of the selected samples', None)
    exp = _expected(inp, idx)
    if exp is None:
        return None
    key = None
    pdmask = any(it[0] == 'm' and it[2] == 'pd' for it in idx['items'])
    npint = 'i' in (npk or '') and any(it[0] == 'i' for it in idx['items'])
    if 'exc' in got and npint and got['exc'] in ('TypeError', 'ValueError'):
        return (f'x{inp["shape"]}[{_show(idx)}] with NumPy integers as ints raised {got["exc"]} ({got["msg"]})', K_NPINT)
    if exp['nadv'] >= 2:
        key = K_PAIRED
    elif exp['keepE'] and exp['dropC']:
        key = K_EPOCH_KEPT
    what = f'x{inp["shape"]}[{_show(idx)}]'
    # a recorded finding excuses only the deviation it describes: the counts (K_EPOCH_KEPT), the pairing of the
    # selections (K_PAIRED); a wrong rate or time axis on such an expression is still a violation
    if 'exc' in got:
        return (f'{what} raised {got["exc"]} ({got["msg"]}) for an index expression NumPy accepts',
                key if key == K_PAIRED else None)
    if 'scalar' in got:
        return (f'{what} returned a scalar', None)
    core, sel = [], []
    if got['shape'] != exp['shape'] or got['vals'] != exp['vals']:
        sel.append(f'data shape {got["shape"]} instead of the per-axis selection of shape {exp["shape"]}'
                   if got['shape'] != exp['shape'] else 'data differ from the per-axis selection')
    if got['ch'] != exp['ch']:
        sel.append(f'channel labels {got["ch"]} instead of {exp["ch"]}')
    if got['md'] != exp['md']:
        sel.append(f'metadata {got["md"][1]} instead of {exp["md"][1]}')
    if Fraction(*got['fs']) != Fraction(*inp['fs']) / exp['step']:
        core.append(f'fs {Fraction(*got["fs"])} instead of {Fraction(*inp["fs"])}/{exp["step"]}')
    if exp['step'] == 1:
        # the time axis of the slice must be the slice of the time axis
        want_t = [inp['s0'] + i for i in exp['tsel']]
        got_t = list(range(got['s0'], got['s0'] + len(want_t)))
        if got_t != want_t:
            core.append(f'time axis starts at sample {got["s0"]} (samples {got_t[:3]}..) instead of {want_t[:3]}.. = slice of the time axis')
    if not got.get('t_ok', True):
        core.append('.t is not (s0 + arange(n_time)) / fs')
    core += got.get('bad', [])
    wfm = [m for m in _wf(got) if not m.startswith('.t is not')]
    if core or (sel and key != K_PAIRED):
        key = None
    if pdmask and not core and (sel or wfm) and got['shape'] == exp['shape'] and got['vals'] == exp['vals'] and key is None:
        key = K_PDMASK          # data selected, labels / metadata left as they were
    msgs = core + sel + wfm
    if msgs:
        return (f'{what}: ' + '; '.join(msgs), key)
    return None


def _show(idx):
    def one(it):
        k = it[0]
        if k == 'i':
            return str(it[1])
        if k == 's':
            return ':'.join('' if v is None else str(v) for v in it[1:4])
        if k == 'l':
            return str(it[1])
        if k == 'a':
            return f'array({it[1]}' + (f', dtype={it[2]})' if len(it) > 2 else ')')
        if k == 'm':
            if it[2] == 'b_':
                return '[' + ', '.join('np.True_' if b else 'np.False_' for b in it[1]) + ']'
            return ('PipelineData(' if it[2] == 'pd' else 'array(' if it[2] else '') + str([bool(b) for b in it[1]]) + (')' if it[2] else '')
        return '...' if k == 'e' else 'None'
    s = ', '.join(one(i) for i in idx['items'])
    return s if idx['sole'] else (s + (',' if len(idx['items']) == 1 else '') if idx['items'] else '()')


def _same_ann(a, b):
    return all(a[f] == b[f] for f in ('shape', 's0', 'fs', 'ch', 'md'))


def _judge_chain(steps, ixs, npk):
    for i, idx in enumerate(ixs):
        if i + 1 >= len(steps):
            break
        inp, got = steps[i], steps[i + 1]
        if 'shape' not in inp or _wf(inp):
            break
        j = _judge_step(inp, idx, got, npk)
        if j:
            return j
    return None


def _judge_new(case, first):
    """the constructor: defaults [None]*n_channels / {} / [{}]*n_epochs; label and metadata counts are checked"""
    shape = case['shape']
    nd = len(shape)
    bad_ch = nd > 1 and isinstance(case['ch'], list) and len(case['ch']) != shape[-2]
    bad_md = nd > 2 and case['md'] is not None and (case['md'][0] != 'L' or len(case['md'][1]) != shape[0])
    what = f'PipelineData(shape {shape}, channel={case["ch"]}, metadata={case["md"]})'
    if bad_ch or bad_md:
        return None if 'exc' in first else (f'{what} accepted a label / metadata count that differs from the axis length', None)
    if nd > 1 and case['ch'] is not None and not isinstance(case['ch'], list):
        return None                 # a scalar label for several channels: not part of the claim
    if 'exc' in first:
        return (f'{what} raised {first["exc"]}: {first["msg"]}', None)
    want_ch = case['ch'] if case['ch'] is not None else (-1 if nd == 1 else [-1] * shape[-2])
    want_md = case['md'] if case['md'] is not None else (['D', -2] if nd < 3 else ['L', [-2] * shape[0]])
    want_md = [want_md[0], want_md[1]]
    msgs = []
    if first['ch'] != want_ch:
        msgs.append(f'channel {first["ch"]} instead of {want_ch}')
    if first['md'] != want_md:
        msgs.append(f'metadata {first["md"]} instead of {want_md}')
    if first['s0'] != (0 if case.get('s0_default') else case['s0']) or Fraction(*first['fs']) != Fraction(*case['fs']):
        msgs.append(f's0 / fs {first["s0"]}, {first["fs"]}')
    if first['shape'] != list(shape) or first['vals'] != list(range(int(np.prod(shape)))):
        msgs.append('data changed')
    msgs += _wf(first) + first.get('bad', [])
    return (f'{what}: ' + '; '.join(msgs), None) if msgs else None


def _judge(case, res):
    k = case['k']
    if res.get('alias'):
        return (f'{k} {case.get("ixs", case.get("op", ""))!r}: {res["alias"]}', None)
    if k == 'get':
        return _judge_chain(res['steps'], case['ixs'], case.get('npk'))
    if k == 'new':
        j = _judge_new(case, res['steps'][0])
        return j or _judge_chain(res['steps'], case.get('ixs', []), case.get('npk'))
    if k == 'cat' and case.get('any'):
        return _judge_cat_any(case, res['out'])
    if k == 'cat':
        return _judge_cat(case['pieces'], case['axis'], res['out'], case.get('expect'))
    if k == 'slicecat':
        ps = res['pieces']
        if 'slicing_failed' in res:
            return (f'x{res["x"]["shape"]}[{res["slicing_failed"]}] raised {res["out"]["exc"]} ({res["out"]["msg"]})', None)
        if any(_wf(p) for p in ps):
            return None
        j = _judge_cat([dict(p, md=p['md']) for p in ps], case['axis'], res['out'], None)
        if j:
            return j
        if case.get('restores') and ('exc' in res['out'] or not _same_ann(res['out'], res['x']) or res['out']['vals'] != res['x']['vals']):
            return (f'concat of the adjacent pieces {[_show(i[-1]) for i in case["ixss"]]} of x{res["x"]["shape"]} does not restore it: '
                    f'{ {a: b for a, b in res["out"].items() if a != "vals"} }', None)
        return None
    if k == 'op':
        x = _obs(_mk(case), case.get('lab', 0))
        o = res['out']
        if o.get('bad'):
            return (f'{case["op"]}: ' + '; '.join(o['bad']), None)
        if not _same_ann(o, x):
            return (f'{case["op"]} changed the annotations: {[(f, x[f], o[f]) for f in ("shape", "s0", "fs", "ch", "md") if x[f] != o[f]]}', None)
        m = _wf(o)
        if m:
            return (f'{case["op"]}: ' + '; '.join(m), None)
        return _judge_chain(res.get('steps', [o]), case.get('ixs', []), case.get('npk'))


def _judge_cat_any(case, out):
    pieces = case['pieces']
    ax = case.get('axis', -1)
    valid_axis = (not isinstance(ax, bool)) and isinstance(ax, (int, str)) and ax in DIM
    plain = [bool(p.get('plain')) for p in pieces]
    if not valid_axis or not pieces or (any(plain) and not all(plain)):
        why = 'an unsupported axis' if not valid_axis else 'no pieces' if not pieces else 'plain and annotated pieces mixed'
        return None if 'exc' in out else (f'concat with {why} was not refused', None)
    if all(plain):
        arrs = [np.array(p['vals'], dtype=np.int64).reshape(p['shape']) for p in pieces]
        a = ax if isinstance(ax, int) else {'time': -1, 'channel': -2, 'epoch': -3}[ax]
        try:
            want = np.concatenate(arrs, axis=a)
        except ValueError:
            return None if 'exc' in out else ('concat of plain arrays of incompatible shapes was not refused', None)
        if 'exc' in out or not out.get('plain') or out['shape'] != list(want.shape) or out['vals'] != [int(v) for v in want.ravel()]:
            return (f'concat of plain arrays along {ax}: got { {k: v for k, v in out.items() if k != "vals"} } instead of np.concatenate', None)
        return None
    return _judge_cat(pieces, ax, out, case.get('expect'))


def _judge_cat(pieces, axis, out, expect):
    """concat of well-formed pieces: accepted iff consistent; when accepted the result is the concatenation
    with the annotations of the first piece (labels/metadata merged along their own axis)."""
    dim = DIM[axis]
    nd0 = len(pieces[0]['shape'])
    want_nd = {'DTime': nd0, 'DChan': max(nd0, 2), 'DEpoch': 3}[dim]

    problems = []
    nds = {len(p['shape']) for p in pieces}
    if len(nds) > 1:
        problems.append('pieces of different ndim')
    if len({Fraction(*p['fs']) for p in pieces}) > 1:
        problems.append('different rates')
    if dim == 'DTime':
        cur = pieces[0]['s0'] + pieces[0]['shape'][-1]
        for p in pieces[1:]:
            if p['s0'] != cur:
                problems.append(f'piece starting at {p["s0"]} where {cur} is expected (gap/overlap)')
                break
            cur += p['shape'][-1]
    if dim != 'DChan' and any(p['ch'] != pieces[0]['ch'] for p in pieces):
        problems.append('different channel labels')
    if dim != 'DEpoch' and any(p['md'] != pieces[0]['md'] for p in pieces):
        problems.append('different metadata')
    if problems:
        if 'exc' not in out:
            return (f'concat along {dim[1:].lower()} accepted inconsistent pieces ({"; ".join(problems)}): result '
                    f'{ {a: b for a, b in out.items() if a != "vals"} }', None)
        return None
    # consistent annotations: shapes must also agree off-axis for an accepted result
    arrs = [np.array(p['vals'], dtype=np.int64).reshape(p['shape']) for p in pieces]
    arrs = [a.reshape((1,) * (want_nd - a.ndim) + a.shape) for a in arrs]
    try:
        want = np.concatenate(arrs, axis=axis if isinstance(axis, int) else {'time': -1, 'channel': -2, 'epoch': -3}[axis])
    except ValueError:
        return None if 'exc' in out else ('concat accepted pieces of incompatible shapes', None)
    if 'exc' in out:
        return (f'concat along {dim[1:].lower()} of consistent adjacent pieces raised {out["exc"]}: {out["msg"]}', None)
    msgs = []
    if out['shape'] != list(want.shape) or out['vals'] != [int(v) for v in want.ravel()]:
        msgs.append('data are not the concatenation of the pieces')
    if out['s0'] != pieces[0]['s0'] or Fraction(*out['fs']) != Fraction(*pieces[0]['fs']):
        msgs.append(f's0/fs {out["s0"]}, {out["fs"]} differ from the first piece')
    p0 = pieces[0]
    if dim == 'DChan':
        wch = [c for p in pieces for c in (p['ch'] if isinstance(p['ch'], list) else [p['ch']])]
    else:
        wch = p0['ch'] if (isinstance(p0['ch'], list) or want_nd == 1) else [p0['ch']]
    if dim == 'DEpoch':
        wmd = ['L', [m for p in pieces for m in (p['md'][1] if p['md'][0] == 'L' else [p['md'][1]])]]
    else:
        wmd = p0['md']
    if out['ch'] != wch:
        msgs.append(f'channel labels {out["ch"]} instead of {wch}')
    if out['md'] != wmd:
        msgs.append(f'metadata {out["md"]} instead of {wmd}')
    msgs += _wf(out) + out.get('bad', [])
    if msgs:
        return (f'concat along {dim[1:].lower()}: ' + '; '.join(msgs), None)
    return None


def oracle(case, res):
    j = _judge(case, res)
    return j[0] if j else None


def key(case, res):
    if res is None or 'raised' in res:
        return None
    j = _judge(case, res)
    return j[1] if j else None


def nontrivial(case, res):
    if 'raised' in res:
        return True
    if case['k'] == 'new':
        return True
    if case['k'] == 'get':
        s = res['steps']
        return 'exc' in s[-1] or 'scalar' in s[-1] or not (_same_ann(s[0], s[-1]) and s[0]['vals'] == s[-1]['vals'])
    return True


KNOWN_WITNESSES = {
    K_NPINT: {'k': 'get', 'shape': [2, 5], 's0': 0, 'fs': [36000, 1], 'npk': 'i',
              'ixs': [{'sole': True, 'items': [['i', 1]]}]},
    K_PDMASK: {'k': 'get', 'shape': [3, 2, 4], 's0': 0, 'fs': [36000, 1],
               'ixs': [{'sole': True, 'items': [['m', [1, 0, 1], 'pd']]}]},
    K_EPOCH_KEPT: {'k': 'get', 'shape': [2, 3, 4], 's0': 0, 'fs': [36000, 1],
                   'ixs': [{'sole': False, 'items': [['s', None, None, None], ['i', 0]]}]},
    K_PAIRED: {'k': 'get', 'shape': [3, 2, 4], 's0': 0, 'fs': [36000, 1],
               'ixs': [{'sole': False, 'items': [['l', [0, 2]], ['l', [0]]]}]},
}


# --------------------------------------------------------------------------- generators
def _bounds(n):
    return [None] + list(range(-n - 3, n + 4))


def _axis_items_full(n):
    out = [['i', z] for z in range(-n - 1, n + 1)]
    for a in _bounds(n):
        for b in _bounds(n):
            for c in (None, 1, 2, 3):
                out.append(['s', a, b, c])
    out += [['l', []], ['l', [0]], ['l', [n - 1, 0]], ['l', [-1]], ['l', [0, 0, -1]], ['l', [n]], ['l', [-n - 1]]]
    for arr in (False, True):
        for bits in itertools.product([0, 1], repeat=n):
            if n == 0 and not arr:
                continue
            out.append(['m', list(bits), arr])
        out.append(['m', [1] * (n + 1), arr])
        if n >= 2:      # (NumPy accepts an EMPTY boolean array for any axis length: not a mask of the language)
            out.append(['m', [1] * (n - 1), arr])
    return out


def _axis_items_reduced(n, rng=None):
    r = [['i', 0], ['i', -1], ['i', n], ['s', None, None, None], ['s', 1, None, None], ['s', -n - 2, None, None],
         ['s', None, -1, 2], ['s', n + 2, None, None],
         ['l', [0]], ['l', [n - 1, 0]], ['a', [0, n - 1]], ['m', [1] + [0] * (n - 1), False], ['m', [0] * (n - 1) + [1], True],
         ['m', [1] * n, True], ['m', [0] * n, False]]
    return [it for it in r if not (it[0] == 'm' and len(it[1]) == 0 and not it[2])]


def _rand_item(n, rng, time=False):
    u = rng.random()
    if u < (0.75 if time else 0.35):
        b = _bounds(n)
        return ['s', rng.choice(b), rng.choice(b), rng.choice([None, None, 1, 1, 2, 3])]
    if u < (0.8 if time else 0.5):
        return ['i', rng.randint(-n - 1, n)]
    if u < (0.9 if time else 0.7):
        zs = [rng.randint(-n, n - 1) if n else 0 for _ in range(rng.randint(0, 3))]
        return ['a' if (zs and rng.random() < 0.35) else 'l', zs]
    L = n if rng.random() < 0.9 else n + rng.choice([-1, 1])
    L = max(L, 0)
    if L == 0 and n != 0:
        L = n + 1
    bits = [int(rng.random() < 0.6) for _ in range(L)]
    arr = rng.random() < 0.5
    if L == 0 and not arr:
        return ['l', []]
    return ['m', bits, arr]


def _rand_index(shape, rng):
    nd = len(shape)
    u = rng.random()
    if u < 0.15:
        it = _rand_item(shape[0], rng, time=(nd == 1))
        return {'sole': True, 'items': [it]}       # (a bare integer ndarray: XArr of the model)
    items = []
    naxis = rng.choice([nd, nd, nd, nd - 1, nd - 1, max(nd - 2, 0), nd + 1])
    ell = rng.random() < 0.35 and naxis <= nd
    epos = rng.randint(0, naxis) if ell else None
    # which axes do the items address?  with an ellipsis the items after it are right-aligned
    for j in range(naxis):
        if ell and j >= epos:
            ax = nd - (naxis - j)
        else:
            ax = j
        ax = min(max(ax, 0), nd - 1)
        items.append(_rand_item(shape[ax], rng, time=(ax == nd - 1)))
    if ell:
        items.insert(epos, ['e'])
    nnew = rng.choice([0, 0, 0, 1, 1, 2]) if nd < 3 else rng.choice([0, 0, 0, 0, 1])
    for _ in range(nnew):
        pos = 0 if rng.random() < 0.7 else rng.randint(0, len(items))
        items.insert(pos, ['n'])
    return {'sole': False, 'items': items}


def _get(shape, ixs, s0=0, fs=None, cn=False):
    c = {'k': 'get', 'shape': list(shape), 's0': s0, 'fs': fs or FSS[0], 'ixs': ixs}
    if cn:
        c['cn'] = True
    return c


def _structural(shape, item_sets, max_items):
    """every tuple over {axis item, Ellipsis, newaxis} of length 0..ndim+2, items drawn from item_sets[axis]"""
    nd = len(shape)
    for L in range(0, nd + 3):
        for combo in itertools.product('aen', repeat=L):
            na = combo.count('a')
            if na > min(nd + 1, max_items) or combo.count('e') > 2 or combo.count('n') > 2:
                continue
            pools, ax, after_e = [], 0, False
            for j, c in enumerate(combo):
                if c == 'a':
                    if after_e:
                        a = nd - (sum(1 for cc in combo[j:] if cc == 'a'))
                    else:
                        a = ax
                    a = min(max(a, 0), nd - 1)
                    pools.append(item_sets(shape[a]))
                    ax += 1
                elif c == 'e':
                    pools.append([['e']])
                    after_e = True
                else:
                    pools.append([['n']])
            for items in itertools.product(*pools):
                yield {'sole': False, 'items': [list(i) for i in items]}


def _split_pieces(shape, cuts, axis, s0, fs):
    """literal pieces of the iota array of `shape` cut along `axis` (negative) at `cuts`"""
    nd = len(shape)
    x = np.arange(int(np.prod(shape))).reshape(shape)
    ch, md = _labels(shape)
    ch = ch if isinstance(ch, list) else ch
    mdl = ['D', md['id']] if isinstance(md, dict) else ['L', [m['id'] for m in md]]
    out = []
    for a, b in zip(cuts[:-1], cuts[1:]):
        sl = [slice(None)] * nd
        sl[axis] = slice(a, b)
        v = x[tuple(sl)]
        p = {'shape': list(v.shape), 'vals': [int(q) for q in v.ravel()], 's0': s0 + (a if axis == -1 else 0), 'fs': fs,
             'ch': (ch[a:b] if (axis == -2 and isinstance(ch, list)) else ch),
             'md': (['L', mdl[1][a:b]] if (axis == -3 and mdl[0] == 'L') else mdl)}
        out.append(p)
    return out


def _cat_cases(tier, rng):
    quick = tier == 'quick'
    shapes = [(6,), (2, 5), (2, 2, 4)] if quick else [(6,), (7,), (2, 5), (3, 4), (1, 6), (2, 2, 4), (3, 1, 5), (2, 3, 6)]
    for shape in shapes:
        n = shape[-1]
        # every split of the time axis into <= 3 (quick) / 4 pieces, empty pieces included
        kmax = 3 if quick else 4
        for k in range(1, kmax + 1):
            for inner in itertools.combinations_with_replacement(range(0, n + 1), k - 1):
                cuts = [0] + list(inner) + [n]
                if quick and len(shape) > 1 and rng.random() < 0.5:
                    continue
                for s0 in ([0, -5] if not quick else [rng.choice([0, -5, 7])]):
                    yield {'k': 'cat', 'axis': -1, 'pieces': _split_pieces(shape, cuts, -1, s0, FSS[0]), 'expect': 'ok'}
        # perturbations of a 2/3-piece split
        for cuts in ([0, 2, n], [0, 1, 3, n]):
            base = _split_pieces(shape, cuts, -1, 3, FSS[0])
            for i in range(1, len(base)):
                for d in (-1, 1, 2):
                    ps = [dict(p) for p in base]
                    ps[i]['s0'] += d
                    yield {'k': 'cat', 'axis': -1, 'pieces': ps, 'expect': 'gap'}
                ps = [dict(p) for p in base]
                ps[i]['fs'] = FSS[1]
                yield {'k': 'cat', 'axis': -1, 'pieces': ps, 'expect': 'fs'}
                ps = [dict(p) for p in base]
                ps[i]['fs'] = [FSS[0][0] + 1, 1]
                yield {'k': 'cat', 'axis': -1, 'pieces': ps, 'expect': 'fs'}
                ps = [dict(p) for p in base]
                ps[i]['ch'] = ([c + 1 for c in ps[i]['ch']] if isinstance(ps[i]['ch'], list) else ps[i]['ch'] + 1)
                yield {'k': 'cat', 'axis': -1, 'pieces': ps, 'expect': 'ch'}
                if isinstance(ps[i]['ch'], list) and len(ps[i]['ch']) > 1:
                    ps = [dict(p) for p in base]
                    ps[i]['ch'] = list(reversed(ps[i]['ch']))
                    yield {'k': 'cat', 'axis': -1, 'pieces': ps, 'expect': 'ch'}
                ps = [dict(p) for p in base]
                ps[i]['md'] = ['D', ps[i]['md'][1] + 1] if ps[i]['md'][0] == 'D' else ['L', [m + 1 for m in ps[i]['md'][1]]]
                yield {'k': 'cat', 'axis': -1, 'pieces': ps, 'expect': 'md'}
            # swapped order = overlap then gap
            yield {'k': 'cat', 'axis': -1, 'pieces': list(reversed(base)), 'expect': 'gap'}
            # string axis name
            yield {'k': 'cat', 'axis': 'time', 'pieces': base, 'expect': 'ok'}
        # channel / epoch concatenation
        if len(shape) >= 2:
            c = shape[-2]
            for cut in range(0, c + 1):
                ps = _split_pieces(shape, [0, cut, c], -2, 2, FSS[2])
                yield {'k': 'cat', 'axis': -2, 'pieces': ps, 'expect': 'ok'}
                q = [dict(p) for p in ps]
                q[1]['fs'] = FSS[1]
                yield {'k': 'cat', 'axis': -2, 'pieces': q, 'expect': 'fs'}
                q = [dict(p) for p in ps]
                q[1]['md'] = ['D', q[1]['md'][1] + 1] if q[1]['md'][0] == 'D' else ['L', [m + 1 for m in q[1]['md'][1]]]
                yield {'k': 'cat', 'axis': 'channel', 'pieces': q, 'expect': 'md'}
                q = [dict(p) for p in ps]
                q[1]['s0'] += 1          # concat along channel does not look at s0 (not part of the claim: compared with the model only)
                yield {'k': 'cat', 'axis': -2, 'pieces': q, 'expect': 'any'}
        if len(shape) == 3:
            e = shape[0]
            for cut in range(0, e + 1):
                ps = _split_pieces(shape, [0, cut, e], -3, -4, FSS[0])
                yield {'k': 'cat', 'axis': -3, 'pieces': ps, 'expect': 'ok'}
                q = [dict(p) for p in ps]
                q[1]['ch'] = [c + 1 for c in q[1]['ch']]
                yield {'k': 'cat', 'axis': 'epoch', 'pieces': q, 'expect': 'ch'}
        # lower-dimensional pieces are promoted: 1-D/2-D pieces stacked as channels / epochs
        if len(shape) <= 2:
            ps = _split_pieces(shape, [0, shape[-1]], -1, 0, FSS[0]) * 2
            ps = [dict(p) for p in ps]
            ps[1]['md'] = ['D', 95]
            ps[1]['ch'] = ps[1]['ch'] if isinstance(ps[1]['ch'], list) else 75
            yield {'k': 'cat', 'axis': -3, 'pieces': ps, 'expect': 'any'}
            ps2 = [dict(p) for p in ps]
            ps2[1]['md'] = ps2[0]['md']
            yield {'k': 'cat', 'axis': -2, 'pieces': ps2, 'expect': 'any'}
        # different ndim
        if len(shape) == 2:
            a = _split_pieces(shape, [0, 2, shape[-1]], -1, 0, FSS[0])
            b = _split_pieces((shape[-1],), [0, 2, shape[-1]], -1, 0, FSS[0])
            yield {'k': 'cat', 'axis': -1, 'pieces': [a[0], b[1]], 'expect': 'ndim'}
            yield {'k': 'cat', 'axis': -1, 'pieces': [b[0], a[1]], 'expect': 'ndim'}
    # pieces obtained by real slicing, then concatenated ("sequences of slicing followed by concatenation")
    full = ['s', None, None, None]
    for shape in ([(6,), (2, 6), (2, 2, 5)] if quick else [(6,), (8,), (2, 6), (3, 5), (2, 2, 5), (3, 2, 6)]):
        n = shape[-1]
        for _ in range(40 if quick else 400):
            k = rng.randint(1, 4)
            inner = sorted(rng.randint(-2, n + 3) for _ in range(k - 1))
            cuts = [rng.choice([None, 0, 0, -n - 2])] + inner + [rng.choice([None, n, n + 3])]
            pre = []
            if rng.random() < 0.3 and len(shape) > 1:
                pre = [{'sole': False, 'items': [['l', [shape[0] - 1, 0]]]}] if rng.random() < 0.5 else \
                      [{'sole': False, 'items': [['m', [1] * (shape[0] - 1) + [0], True]]}]
            ixss = []
            for a, b in zip(cuts[:-1], cuts[1:]):
                ixss.append(pre + [{'sole': False, 'items': [['e'], ['s', a, b, None]]}])
            eff = [(0 if c is None else min(max(c + n if c < 0 else c, 0), n)) for c in cuts[:-1]] + \
                  [(n if cuts[-1] is None else min(max(cuts[-1], 0), n))]
            adjacent = all(a <= b for a, b in zip(eff[:-1], eff[1:])) and eff[0] == 0 and eff[-1] == n
            yield {'k': 'slicecat', 'shape': list(shape), 's0': rng.choice([0, -5, 7]), 'fs': rng.choice(FSS), 'axis': -1,
                   'ixss': ixss, 'restores': (not pre) and adjacent}
        # negative cut points: x[..., :-k], x[..., -k:]
        for kk in range(0, n + 3):
            ixss = [[{'sole': False, 'items': [['e'], ['s', None, -kk if kk else n, None]]}],
                    [{'sole': False, 'items': [['e'], ['s', -kk if kk else n, None, None]]}]]
            yield {'k': 'slicecat', 'shape': list(shape), 's0': -3, 'fs': FSS[0], 'axis': -1, 'ixss': ixss, 'restores': True}
        # strided pieces are not adjacent; gaps
        for a, b, c, d in [(0, 2, 3, n), (0, 3, 2, n), (1, 3, 3, n)]:
            ixss = [[{'sole': False, 'items': [['e'], ['s', a, b, None]]}], [{'sole': False, 'items': [['e'], ['s', c, d, None]]}]]
            yield {'k': 'slicecat', 'shape': list(shape), 's0': 4, 'fs': FSS[0], 'axis': -1, 'ixss': ixss}
        ixss = [[{'sole': False, 'items': [['e'], ['s', 0, 2, None]]}], [{'sole': False, 'items': [['e'], ['s', 2, None, 2]]}]]
        yield {'k': 'slicecat', 'shape': list(shape), 's0': 4, 'fs': FSS[0], 'axis': -1, 'ixss': ixss}
        if len(shape) >= 2:
            ixss = [[{'sole': False, 'items': [['s', 0, 1, None]]}], [{'sole': False, 'items': [['s', 1, None, None]]}]]
            yield {'k': 'slicecat', 'shape': list(shape), 's0': 4, 'fs': FSS[0], 'axis': -2 if len(shape) == 2 else -3, 'ixss': ixss,
                   'restores': True}
            ixss = [[{'sole': False, 'items': [['i', 0]]}], [{'sole': False, 'items': [['i', 1]]}]]
            yield {'k': 'slicecat', 'shape': list(shape), 's0': 4, 'fs': FSS[0], 'axis': -2 if len(shape) == 2 else -3, 'ixss': ixss}


def _exact(f):
    fr = Fraction(float(f))
    return [fr.numerator, fr.denominator]


def _promote(p):
    """the same piece with one more leading axis of length 1 (ndim mismatch)"""
    q = dict(p)
    q['shape'] = [1] + list(p['shape'])
    if len(p['shape']) == 1:
        q['ch'] = [p['ch']]
    else:
        q['md'] = ['L', [p['md'][1]]]
    return q


def _reject_cases(tier, rng):
    """adjacent equal pieces restore the original; ONE minimally perturbed attribute of ONE piece must be rejected"""
    quick = tier == 'quick'
    rates = [100000.0, 195312.5] + ([] if quick else [1000.0, 25000.0])
    labs = [5, 6, 7, 8, 1, 0]
    n_case = 0
    for shape in ([(6,), (2, 5), (2, 2, 4)] if quick else [(6,), (7,), (2, 5), (3, 4), (2, 2, 4), (3, 2, 5)]):
        nd = len(shape)
        axes = [-1] + ([-2] if nd >= 2 else []) + ([-3] if nd == 3 else [])
        for axis in axes:
            n = shape[axis]
            for cuts in ([0, n // 2, n], [0, 1, n - 1, n]):
                for f in rates:
                    n_case += 1
                    lab = labs[n_case % len(labs)]
                    s0 = [0, -5, 7][n_case % 3]
                    base = _split_pieces(shape, cuts, axis, s0, _exact(f))

                    def out(ps, expect):
                        return {'k': 'cat', 'axis': axis, 'pieces': ps, 'expect': expect, 'lab': lab}
                    yield out(base, 'ok')
                    for i in range(len(base)):
                        if quick and len(base) == 3 and i == 1 and axis != -1:
                            continue
                        # rate: relative 1e-9, 1e-6, 1e-4 and +-0.5 Hz
                        for g in (f * (1 + 1e-9), f * (1 + 1e-6), f * (1 - 1e-6), f * (1 + 1e-4), f + 0.5, f - 0.5):
                            if g == f:
                                continue
                            ps = [dict(q) for q in base]
                            ps[i]['fs'] = _exact(g)
                            yield out(ps, 'fs')
                        # one sample of gap / overlap
                        if axis == -1:
                            for d in (-1, 1):
                                ps = [dict(q) for q in base]
                                ps[i]['s0'] += d
                                yield out(ps, 'gap')
                        # one label replaced by an equal-looking one of another type (70+2j <-> 70+2j+1)
                        if axis != -2:
                            ps = [dict(q) for q in base]
                            ch = ps[i]['ch']
                            if isinstance(ch, list):
                                if ch:
                                    j = rng.randrange(len(ch))
                                    ps[i]['ch'] = ch[:j] + [70 + ((ch[j] - 70) ^ 1)] + ch[j + 1:]
                                    yield out(ps, 'ch')
                            else:
                                ps[i]['ch'] = 70 + ((ch - 70) ^ 1)
                                yield out(ps, 'ch')
                        # one metadata entry differing in one nested value
                        if axis != -3:
                            ps = [dict(q) for q in base]
                            md = ps[i]['md']
                            if md[0] == 'D':
                                ps[i]['md'] = ['D', md[1] + 1000]
                                yield out(ps, 'md')
                            elif md[1]:
                                j = rng.randrange(len(md[1]))
                                ps[i]['md'] = ['L', md[1][:j] + [md[1][j] + 1000] + md[1][j + 1:]]
                                yield out(ps, 'md')
                        # another dimensionality
                        if nd < 3:
                            ps = [dict(q) for q in base]
                            ps[i] = _promote(ps[i])
                            yield out(ps, 'ndim')
    # 1-D pieces stacked as channels / epochs (promotion with np.newaxis): falsy scalar labels must survive
    for lab in (5, 6, 7, 8, 0):
        for axis in (-2, -3):
            a = _split_pieces((5,), [0, 5], -1, 3, _exact(195312.5))[0]
            b = dict(a, vals=[v + 5 for v in a['vals']])
            if axis == -2:
                b['ch'] = a['ch'] + 1
            else:
                b['md'] = ['D', a['md'][1] + 1]
            yield {'k': 'cat', 'axis': axis, 'pieces': [a, b], 'expect': 'ok', 'lab': lab}
            for g in (195312.5 * (1 + 1e-6), 195313.0):
                yield {'k': 'cat', 'axis': axis, 'pieces': [a, dict(b, fs=_exact(g))], 'expect': 'fs', 'lab': lab}


def _audit_cases(tier, rng):
    """coverage audit of the public surface: argument kinds, constructor, results of operations re-indexed, concat as called"""
    quick = tier == 'quick'
    full = ['s', None, None, None]

    def pool(shape):
        nd, n = len(shape), shape[-1]
        t = [['s', 1, None, None], ['s', -n - 2, 3, None], ['s', None, None, 2], ['s', 2, None, 3], ['s', -2, None, None], full]
        if nd == 1:
            return [[x] for x in t] + [[['n'], t[0]], [['e'], t[4]]]
        c = shape[-2]
        citems = [['i', 0], ['i', -1], ['l', [c - 1, 0]], ['a', [0, c - 1]], ['m', [1] + [0] * (c - 1), True],
                  ['m', [0] * (c - 1) + [1], False], ['s', 1, None, None], ['s', None, None, 2]]
        if nd == 2:
            return [[ci, ti] for ci in citems for ti in t[:3]] + [[ci] for ci in citems] + [[['n'], ['l', [0]], t[1]]]
        e = shape[0]
        eitems = [['i', -1], ['l', [e - 1, 0]], ['m', [1] + [0] * (e - 1), True], ['s', 1, None, None]]
        out = [[ei] for ei in eitems] + [[full, ci, t[0]] for ci in citems if ci[0] != 'i'] + [[ei, full, t[1]] for ei in eitems]
        out += [[['i', 0], ci, t[2]] for ci in citems] + [[['e'], t[4]]]
        return out
    kds = [{'dt': 'int64'}, {'dt': 'int16'}, {'dt': 'uint8'}, {'dt': 'float32'}, {'ro': True}, {'lst': True}, {'fs': 'int'},
           {'fs': 'np'}, {'fs': 'f32'}, {'s0': 'np'}, {'s0': 'float'}, {'dt': 'int32', 'fs': 'int', 's0': 'np', 'ro': True}]
    shapes = [(5,), (2, 5), (3, 2, 4)]
    # (h) argument kinds of the constructor and of the index
    for shape in shapes:
        pl = pool(shape)
        for j, kd in enumerate(kds):
            picks = pl if not quick else [pl[(j * 5 + q * 3) % len(pl)] for q in range(5)]
            for items in picks:
                c = _get(shape, [{'sole': False, 'items': items}], s0=[-5, 0, 7][j % 3], fs=FSS[j % 3])
                c['kd'] = kd
                yield c
        for j, items in enumerate(pl):
            for npk in ('s', 't', 'st'):
                if quick and (j + len(npk)) % 3:
                    continue
                c = _get(shape, [{'sole': False, 'items': items}], s0=-5, fs=FSS[j % 3])
                c['npk'] = npk
                yield c
            # NumPy integers as ints (bare and inside a tuple), a PipelineData as boolean mask: see known_findings.txt
            if any(it[0] == 'i' for it in items) and (not quick or j % 2 == 0):
                c = _get(shape, [{'sole': len(items) == 1, 'items': items}], s0=3)
                c['npk'] = 'i'
                yield c
            if any(it[0] == 'm' for it in items) and len(shape) > 1:
                it2 = [([x[0], x[1], 'pd'] if x[0] == 'm' else x) for x in items]
                yield _get(shape, [{'sole': len(items) == 1, 'items': it2}], s0=3)
                if len(items) == 1:
                    yield _get(shape, [{'sole': True, 'items': [['m', [1] * shape[0], 'pd']]}], s0=3)
    # (i) the constructor: omitted / given / miscounted labels and metadata, positional and keyword, default s0
    for shape in [(4,), (2, 4), (1, 3), (3, 2, 4), (1, 1, 3), (0, 2, 3)]:
        nd = len(shape)
        c_ok = None if nd == 1 else [70 + i for i in range(shape[-2])]
        chs = [None, (70 if nd == 1 else c_ok)] + ([] if nd == 1 else [c_ok[:-1], c_ok + [79], []])
        m_ok = ['D', 90] if nd < 3 else ['L', [90 + i for i in range(shape[0])]]
        mds = [None, m_ok] + ([] if nd < 3 else [['L', m_ok[1][:-1]], ['L', m_ok[1] + [99]]])
        pl = pool(shape) if 0 not in shape else [[full]]
        for a, ch in enumerate(chs):
            for b, md in enumerate(mds):
                for var in range(3):
                    c = {'k': 'new', 'shape': list(shape), 's0': [-5, 3, 0][var], 'fs': FSS[(a + b) % 3], 'ch': ch, 'md': md,
                         'ixs': [{'sole': False, 'items': pl[(a * 7 + b * 3 + var) % len(pl)]}]}
                    if ch is None or md is None:
                        c['lab'] = 0            # the defaults None / {} are identifiers of their own
                    if var == 1:
                        c['positional'] = True
                    if var == 2:
                        c['s0_default'] = True
                        c['kd'] = kds[(a + b) % len(kds)]
                    yield c
    # (j) results of operations (bool / integer dtypes, NumPy-scalar operands) indexed again
    ops = [['gt', 2], ['astype', 'bool'], ['astype', 'int16'], ['astype', 'uint8'], ['astype', 'float32'], ['addnp', 3], ['addint', 2],
           ['addnpi', 4], ['mulnp', 2], ['positive'], ['pdadd', 5], ['view'], ['fullslice'], ['neg'], ['copy'], ['deepcopy']]
    for shape in shapes:
        pl = pool(shape)
        for j, o in enumerate(ops):
            yield {'k': 'op', 'shape': list(shape), 's0': [-5, 7][j % 2], 'fs': FSS[j % 3], 'op': o}
            for q in range(2 if quick else 6):
                yield {'k': 'op', 'shape': list(shape), 's0': [-5, 7][j % 2], 'fs': FSS[j % 3], 'op': o,
                       'ixs': [{'sole': False, 'items': pl[(j * 3 + q * 5) % len(pl)]}]}
    # (k) concat as called: axis names, no pieces, one piece, plain ndarrays, plain mixed with annotated, tuple of pieces, kinds
    def plain(shape, off=0, dt=None):
        q = {'plain': True, 'shape': list(shape), 'vals': [off + v for v in range(int(np.prod(shape)))]}
        if dt:
            q['kd'] = {'dt': dt}
        return q
    for shape in [(4,), (2, 3), (2, 2, 3)]:
        ann = _split_pieces(shape, [0, 1, shape[-1]], -1, -3, FSS[0])
        for ax in (0, 1, 2, -4, 'foo', 'Time', None, 1.5):
            yield {'k': 'cat', 'any': True, 'axis': ax, 'pieces': ann}
            yield {'k': 'cat', 'any': True, 'axis': ax, 'pieces': [plain(shape), plain(shape, 50)]}
        for ax in (-1, -2, -3, 'time', 'channel', 'epoch'):
            yield {'k': 'cat', 'any': True, 'axis': ax, 'pieces': []}
            yield {'k': 'cat', 'any': True, 'axis': ax, 'pieces': [plain(shape), plain(shape, 50)]}
            yield {'k': 'cat', 'any': True, 'axis': ax, 'pieces': [plain(shape, 0, 'int16'), plain(shape, 50, 'int64'), plain(shape, 99)]}
            yield {'k': 'cat', 'any': True, 'axis': ax, 'pieces': [plain(shape)]}
            yield {'k': 'cat', 'any': True, 'axis': ax, 'pieces': [plain(shape), plain(tuple(shape) + (2,))]}
            yield {'k': 'cat', 'any': True, 'axis': ax, 'pieces': [plain(shape), plain(shape[:-1] + (shape[-1] + 1,), 50)]}
            whole = _split_pieces(shape, [0, shape[-1]], -1, 2, FSS[2])
            yield {'k': 'cat', 'any': True, 'axis': ax, 'pieces': whole, 'expect': 'ok'}                    # a single annotated piece
            yield {'k': 'cat', 'any': True, 'axis': ax, 'pieces': whole, 'tuple': True, 'expect': 'ok'}
            yield {'k': 'cat', 'any': True, 'axis': ax, 'pieces': [ann[0], plain(shape)]}
            yield {'k': 'cat', 'any': True, 'axis': ax, 'pieces': [plain(shape), ann[1]]}
        yield {'k': 'cat', 'any': True, 'pieces': ann, 'expect': 'ok'}                                       # default axis
        yield {'k': 'cat', 'any': True, 'pieces': ann, 'tuple': True, 'expect': 'ok'}
        yield {'k': 'cat', 'any': True, 'pieces': [plain(shape), plain(shape, 50)]}
        # the same rate / first sample given as int, float, NumPy scalar: still the same rate
        for kd0, kd1 in [({'fs': 'int'}, {}), ({}, {'fs': 'np', 's0': 'np'}), ({'fs': 'f32'}, {'fs': 'int', 's0': 'float'}),
                         ({'dt': 'int16'}, {'dt': 'float32'}), ({'ro': True}, {'ro': True, 'lst': True})]:
            ps = [dict(ann[0], kd=kd0), dict(ann[1], kd=kd1)]
            yield {'k': 'cat', 'any': True, 'axis': -1, 'pieces': ps, 'expect': 'ok'}


def _op_cases(tier, rng):
    ops = [['add', 1], ['radd', 3], ['mul', 2], ['neg'], ['abs'], ['copy'], ['copy2'], ['deepcopy'], ['astype', 'float32'],
           ['astype', 'int64'], ['gt', 2], ['rsub', 10], ['selfadd'], ['ndadd', 5], ['iadd', 4]]
    for shape in [(5,), (2, 4), (2, 2, 3)]:
        for o in ops:
            yield {'k': 'op', 'shape': list(shape), 's0': rng.choice([0, -5, 7]), 'fs': rng.choice(FSS), 'op': o}
    yield {'k': 'op', 'shape': [4], 's0': 2, 'fs': FSS[0], 'op': ['copy'], 'cn': True}



def _idx_cases(tier, rng):
    """(l) index kinds around the two all-True-mask shortcuts (repair fix-C11idx): sole integer ndarrays (np.int64 / np.intp /
    np.uint8) and plain lists WITHOUT a 0 on the first axis of 1-D / 2-D / 3-D arrays (with a 0, empty and out of range for
    contrast), alone and in chains; integer lists / arrays on the TIME axis inside tuples; all-True and other boolean masks
    as python list / ndarray / list of np.bool_ on the first and on the time axis; a 0-d ndarray as rate followed by strided
    slices (the rate of the SOURCE array is read again afterwards)"""
    full = ['s', None, None, None]
    shapes = [(5,), (3, 4), (4, 2, 3)] + ([] if tier == 'quick' else [(2, 5), (3, 3, 6), (1, 4)])
    j = 0
    for shape in shapes:
        n, nd = shape[0], len(shape)
        zss = [[1, 2], [2, 2], [1], [-1, -2], [1, 2, 1], [n - 1], [-1], [0, 1], [2, 0], [], [n + 1], [1, n]]
        zss = [[z for z in zs if -n - 1 <= z <= n + 1] for zs in zss if n > 2 or all(abs(z) <= n + 1 for z in zs)]
        for zs in zss:
            forms = [['l', zs]] + [['a', zs, dt] for dt in ('int64', 'intp', 'uint8') if dt != 'uint8' or all(z >= 0 for z in zs)]
            for it in forms:
                j += 1
                yield _get(shape, [{'sole': True, 'items': [it]}], s0=[-5, 0, 7][j % 3], fs=FSS[j % 3])
                if it[0] == 'a' and j % 2:
                    yield _get(shape, [{'sole': False, 'items': [it]}], s0=3, fs=FSS[j % 3])
                    if nd > 1:
                        yield _get(shape, [{'sole': False, 'items': [it, ['e'], ['s', 1, None, None]]}], s0=3)
        # chains: the result of an array index indexed again by an array / a slice
        if nd > 1:
            for a, b in [([1, 2], [1]), ([2, 1, 1], [-1, -2]), ([1], [-1])]:
                for dt in ('int64', 'uint8'):
                    if dt == 'uint8' and min(a + b) < 0:
                        continue
                    yield _get(shape, [{'sole': True, 'items': [['a', a, dt]]}, {'sole': True, 'items': [['a', b, dt]]}], s0=-5)
                    yield _get(shape, [{'sole': True, 'items': [['a', a, dt]]}, {'sole': False, 'items': [['e'], ['s', 1, None, 2]]}], s0=7)
        # integer lists / arrays on the time axis
        nt = shape[-1]
        tl = [[1, 2], [1, 2, 3][:nt - 1], [2, 2], [-1], [-1, -2], [1], [nt - 1, 1], [0, 1], list(range(nt)), []]
        lead = [[]] if nd == 1 else ([[full], [['i', 0]], [['e']], [['s', 1, None, None]]] if nd == 2 else
                                     [[full, full], [['e']], [['i', 1], full], [['i', 0], ['i', 1]], [full, ['s', None, None, 2]]])
        for zs in tl:
            for pre in lead:
                for it in (['l', zs], ['a', zs, 'int64']):
                    if it[0] == 'a' and not zs:
                        continue
                    j += 1
                    yield _get(shape, [{'sole': False, 'items': pre + [it]}], s0=[-5, 0, 7][j % 3], fs=FSS[j % 3])
                    if nd < 3 and j % 3 == 0:
                        yield _get(shape, [{'sole': False, 'items': [['n']] + pre + [it]}], s0=7)
        # boolean masks: all-True and others, as python list / ndarray / list of np.bool_
        for ax_n, pre in ([(n, None)] + ([] if nd == 1 else [(nt, p) for p in lead[:3]])):
            pats = [[1] * ax_n, [1] * (ax_n - 1) + [0], [0] * ax_n, [0] + [1] * (ax_n - 1), [1] * (ax_n + 1), [1] * (ax_n - 1)]
            for bits in pats:
                for form in (False, True, 'b_'):
                    if not bits and form is not True:
                        continue
                    it = ['m', bits, form]
                    j += 1
                    if pre is None:
                        yield _get(shape, [{'sole': True, 'items': [it]}], s0=[-5, 0, 7][j % 3])
                        yield _get(shape, [{'sole': False, 'items': [it]}], s0=3)
                    else:
                        yield _get(shape, [{'sole': False, 'items': pre + [it]}], s0=[-5, 0, 7][j % 3])
        # a 0-d ndarray as rate, strided slices: the source keeps its rate
        for ixs in ([[['s', None, None, 2]]], [[['e'], ['s', 1, None, 3]]], [[['s', None, None, 2]], [['e'], ['s', None, None, 2]]],
                    [[['e'], ['s', 1, None, None]]], [[['s', None, None, 1]]]):
            for q in range(3):
                c = _get(shape, [{'sole': len(i) == 1 and i[0][0] == 's', 'items': i} for i in ixs], s0=[-5, 0, 7][q], fs=FSS[q])
                c['kd'] = {'fs': 'arr0'}
                yield c

def _cases(tier, rng):
    quick = tier == 'quick'
    full = ['s', None, None, None]
    # (a) every time slice
    for n in ([4] if quick else [4, 6]):
        for a in _bounds(n):
            for b in _bounds(n):
                for c in (None, 1, 2, 3):
                    it = ['s', a, b, c]
                    s0 = [0, -5, 7, -64][(hash((a, b, c)) if False else ((a or 0) * 7 + (b or 0) * 3 + (c or 0))) % 4]
                    yield _get((n,), [{'sole': True, 'items': [it]}], s0=s0, fs=FSS[(c or 0) % 3])
                    if c is None and (not quick or (a is None or a < 0 or a > n - 1)):
                        yield _get((2, n), [{'sole': False, 'items': [['e'], it]}], s0=s0)
                        yield _get((2, 2, n), [{'sole': False, 'items': [full, full, it]}], s0=s0)
                    if not quick:
                        yield _get((n,), [{'sole': False, 'items': [it]}], s0=s0)
                        yield _get((2, n), [{'sole': False, 'items': [full, it]}], s0=s0)
    # (b) every item on the first axis
    for shape in ([(3, 4), (3, 2, 3)] if quick else [(3, 4), (4, 3), (3, 2, 3), (3, 3, 6), (1, 4), (1, 1, 3)]):
        for it in _axis_items_full(shape[0]):
            if quick and it[0] == 's' and rng.random() < 0.8:
                continue
            yield _get(shape, [{'sole': True, 'items': [it]}], s0=-5)
            if it[0] != 's' or not quick:
                yield _get(shape, [{'sole': False, 'items': [it]}], s0=7)
                yield _get(shape, [{'sole': False, 'items': [it, ['e']]}], s0=7)
        if len(shape) == 3:
            for it in _axis_items_full(shape[1]):
                if it[0] == 's' and rng.random() < (0.9 if quick else 0.5):
                    continue
                yield _get(shape, [{'sole': False, 'items': [full, it]}], s0=0)
                yield _get(shape, [{'sole': False, 'items': [['i', 1], it]}], s0=0)
                yield _get(shape, [{'sole': False, 'items': [['e'], it, ['s', 1, None, None]]}], s0=0)
    # (c) structure: Ellipsis / newaxis / items in every position
    shapes = [(4,), (2, 4), (1, 4), (2, 3, 4), (3, 1, 4), (2, 0, 3)] if quick else \
             [(4,), (6,), (0,), (2, 4), (1, 4), (3, 6), (2, 3, 4), (3, 1, 4), (1, 1, 3), (2, 0, 3), (0, 1, 3), (3, 3, 6)]
    for shape in shapes:
        allx = list(_structural(shape, _axis_items_reduced, 4))
        if quick:
            keep = 450 if len(shape) < 3 else 700
            if len(allx) > keep:
                allx = rng.sample(allx, keep)
        elif len(allx) > 6000:
            allx = rng.sample(allx, 6000)
        for idx in allx:
            yield _get(shape, [idx], s0=rng.choice([0, -5, 7]), fs=rng.choice(FSS),
                       cn=(len(shape) == 1 and rng.random() < 0.5))
    # (c2) legal expressions: every pair (epoch item, channel item) x time slice, with the equivalent Ellipsis / newaxis spellings
    def legal(n):
        return [['i', 0], ['i', -1], full, ['s', 1, None, None], ['s', None, -1, None], ['s', None, None, 2], ['s', -n - 2, None, None],
                ['s', n + 2, None, None], ['l', [0]], ['l', [n - 1, 0]], ['l', [-1, -1, 0]], ['a', [n - 1, 0]], ['a', [0, -1, 0]],
                ['m', [1] + [0] * (n - 1), False],
                ['m', [0] * (n - 1) + [1], True], ['m', [1] * n, True], ['m', [0] * n, False]]
    tsl = [full, ['s', 1, None, None], ['s', -2, None, None], ['s', None, None, 2], ['s', 1, -1, 3], ['s', -9, 9, 1], ['s', 2, 2, None]]
    reg = []
    for shape in ([(3, 2, 4), (2, 5)] if quick else [(3, 2, 4), (2, 3, 6), (3, 3, 6), (2, 5), (3, 6)]):
        if len(shape) == 3:
            for ie in legal(shape[0]):
                for ic in legal(shape[1]):
                    for it in tsl:
                        reg.append((shape, [ie, ic, it]))
                    reg.append((shape, [ie, ic]))
                    reg.append((shape, [ie, ic, ['e']]))
                reg.append((shape, [ie, ['e'], tsl[1]]))
            for ic in legal(shape[1]):
                reg.append((shape, [['e'], ic, tsl[3]]))
        else:
            for ic in legal(shape[0]):
                for it in tsl:
                    reg.append((shape, [ic, it]))
                    reg.append((shape, [['n'], ic, it]))
                reg.append((shape, [ic]))
                reg.append((shape, [ic, ['e']]))
                reg.append((shape, [['n'], ic, ['e'], tsl[2]]))
    if quick:
        reg = rng.sample(reg, 1500)
    for shape, items in reg:
        yield _get(shape, [{'sole': False, 'items': items}], s0=rng.choice([0, -5, 7]), fs=rng.choice(FSS))
    for n in (4, 5):
        for it in tsl:
            for k in (0, 1, 2):
                yield _get((n,), [{'sole': False, 'items': [['n']] * k + [it]}], s0=-5, cn=(k == 1))
                yield _get((n,), [{'sole': False, 'items': [['n']] * k + [['e'], it]}], s0=7)
    # (d) random expressions from the full grammar
    rshapes = [(6,), (4,), (3, 6), (2, 4), (1, 5), (3, 3, 6), (2, 3, 4), (3, 1, 5), (2, 2, 0), (0, 2, 3)]
    for _ in range(900 if quick else 25000):
        shape = rng.choice(rshapes)
        yield _get(shape, [_rand_index(shape, rng)], s0=rng.choice([0, -5, 7, -64]), fs=rng.choice(FSS),
                   cn=(len(shape) == 1 and rng.random() < 0.3))
    # (e) chains
    for _ in range(350 if quick else 6000):
        shape = rng.choice(rshapes[:8])
        ixs, sh = [], list(shape)
        for _ in range(rng.randint(2, 3)):
            idx = _rand_index(tuple(sh), rng) if sh else None
            if idx is None:
                break
            ixs.append(idx)
            # follow the shape with plain numpy so that later expressions fit
            try:
                sh = list(np.zeros(sh)[_pyindex(idx)].shape)
            except Exception:
                break
            if len(sh) == 0 or len(sh) > 3:
                break
        yield _get(shape, ixs, s0=rng.choice([0, -5, 7]), fs=rng.choice(FSS))
    # pinned idioms of the existing tests on small arrays
    for ixs in ([{'sole': True, 'items': [['s', 5, None, 2]]}, {'sole': True, 'items': [['s', 10, None, 2]]}],
                [{'sole': True, 'items': [['s', 10, None, None]]}, {'sole': True, 'items': [['s', -10, None, None]]}],
                [{'sole': True, 'items': [['s', None, None, 2]]}, {'sole': True, 'items': [['s', None, None, 3]]}]):
        yield _get((40,), ixs, s0=-64)
    yield from _cat_cases(tier, rng)
    yield from _reject_cases(tier, rng)
    yield from _audit_cases(tier, rng)
    yield from _op_cases(tier, rng)
    yield from _idx_cases(tier, rng)


def _empty_mask_on_nonempty_axis(c):
    """NumPy accepts a ZERO-length boolean array as an index of an axis of any length (and selects nothing) although
    every other wrong-length mask is an IndexError; the model's NumPy layer does not reproduce that special case"""
    if c.get('k') not in ('get', 'new', 'op') or not c.get('shape'):
        return False
    for ix in c.get('ixs', []) or []:
        for it in ix.get('items', []):
            if it[0] == 'm' and len(it[1]) == 0 and all(n != 0 for n in c['shape']):
                return True
    return False


def cases(tier, rng):
    """eight of every nine cases carry heterogeneous label / metadata objects (PALETTES 1-8; 5-8 start with a FALSY label:
    0, False, '', 0.0) instead of plain ints"""
    k = 0
    for c in _cases(tier, rng):
        if _empty_mask_on_nonempty_axis(c):
            continue
        if 'lab' not in c and not c.get('cn'):
            k += 1
            c['lab'] = [0, 1, 5, 2, 6, 4, 7, 3, 8][k % 9]
        yield c


def distribution(cases_, results):
    d = {'kinds': {}, 'ndim': {}, 'outcomes': {}, 'items': {}, 'label_palette': {}}
    for c, r in zip(cases_, results):
        d['label_palette'][c.get('lab', 0)] = d['label_palette'].get(c.get('lab', 0), 0) + 1
        d['kinds'][c['k']] = d['kinds'].get(c['k'], 0) + 1
        if c['k'] == 'get':
            d['ndim'][len(c['shape'])] = d['ndim'].get(len(c['shape']), 0) + 1
            last = r['steps'][-1] if isinstance(r, dict) and 'steps' in r else {}
            o = last.get('exc', 'scalar' if 'scalar' in last else 'array')
            d['outcomes'][o] = d['outcomes'].get(o, 0) + 1
            for idx in c['ixs']:
                for it in idx['items']:
                    d['items'][it[0]] = d['items'].get(it[0], 0) + 1
        elif isinstance(r, dict) and 'out' in r:
            o = 'cat/op:' + r['out'].get('exc', 'ok')
            d['outcomes'][o] = d['outcomes'].get(o, 0) + 1
    return d


# ---- translator tie: coq/gen/PDataGen.v regenerated from the source under test (translate/pypdata2coq.py) ----
GEN = 'gen/PDataGen.v'
TRUSTED += ['translate/pypdata2coq.py (fail-closed AST translator of pipeline.normalize_index and PipelineData.__getitem__ to '
            'coq/gen/PDataGen.v, statement by statement; it pins on their exact text: `obj = super().__getitem__(s)` (NumPy\'s own '
            'indexing + __array_finalize__ - NOT translated: the modelled primitive np_super_getitem = np_getitem + finalize_chan of '
            'coq/PData/Model.v), `if not hasattr(obj, \'metadata\'): return obj` (a scalar result), `skip = object()` (the sentinel), '
            'the dead statement `obj.s0 += time_slice` after `raise NotImplementedError`, the body `return self.shape[-1]` of the '
            'property n_time, the base class np.ndarray, `all(isinstance(t, (bool, np.bool_)) and t for t in time_slice)` (the all-True '
            'test of a list on the time axis), `np.s_[x]` = x, `obj.fs / step` as the exact fraction; an if / elif chain that only binds '
            'new names raises UnboundLocalError when no branch is taken; docstrings and comments are ignored; self-tested on every '
            'run: the emitted definitions are evaluated by coqc (vm_compute) on ~390 index values / arrays against the real functions)',
            'the Python / NumPy primitives of coq/PData/TieLib.v as modelled (exercised by that self-test, not proved): the value '
            'universe pyval (int, np.integer, slice, list of ints, list of bools, 1-D integer / boolean ndarray, Ellipsis, None, the '
            'sentinel, tuples), isinstance / identity tests on it, int(), .dtype == bool, .size, .ndim (1), .all(), .tolist(), len, '
            'iteration and unpacking of tuples, slice.start / .step, int-or-None used as a number (TypeError on None), python list '
            'indexing of label / metadata lists (lab_getitem: Common/PySlice.v), np.arange(n)[list], [l[s] for s in idx], '
            'np.array(l)[list].tolist(), len of a scalar label (TypeError); labels and metadata entries are identifiers as in the model']
ASSUMPTIONS += ['translator tie: index values are those of the universe of coq/PData/TieLib.v (tuples one level deep, 1-D index arrays, no '
                'bare bool); an annotated array used as an index is outside it (known finding getitem:annotated-array-used-as-index-skips-fixup); '
                'the empty python list has two representations (list of ints / list of bools), as in the model']


TRUSTED += ['translate/pypdata2coq.py, second part: pipeline.ensure_dim and pipeline.concat on ANNOTATED pieces (gen_ensure_dim, gen_concat; tie '
            'theorems in coq/PData/ProofsTieConcat.v); pinned on their exact text: the signature and whole body of dim_axis and the call '
            '`dim, axis = dim_axis(axis)` (primitive py_dim_axis of coq/PData/TieLibConcat.v), `is_pipeline_data = [isinstance(a, PipelineData) '
            'for a in arrays]` with the two tests on it (all pieces are annotated: `not any` holds for the empty list only, where '
            'np.concatenate raises ValueError; the plain-ndarray path of concat is NOT covered by the tie), `result = np.concatenate(arrays, '
            'axis=axis)` (Model.cat_all) and `return PipelineData(result, fs=fs, s0=s0, channel=channel, metadata=metadata)` (Model.ctor_ok), '
            'the default `axis=-1`; x.shape[-1] is read as n_time; self-tested on ~190 concat calls against the real function',
            'the primitives of coq/PData/TieLibConcat.v as modelled: list_hd (l[0]), gmap (a list comprehension whose element may raise), '
            'obj_as_pd (a scalar piece is refused as in Model.all_arrays), rate_eqb (== on exact rates), eqb_lab (== on labels / metadata '
            'identifiers), labs_concat / lab_extend / lab_append (flattening label lists; a scalar where a list is iterated: TypeError as '
            'in Model.merge_labs)']
ASSUMPTIONS += ['translator tie (concat): for the epoch axis the equality is proved when the first piece has at most 3 dimensions (true of every '
                'well-formed array; a 4-D first piece is refused by ensure_dim in model and generated function alike); no hypothesis for '
                'time / channel, an unsupported axis or the empty list']


def translate(repo):
    """Regenerate coq/gen/PDataGen.v from <repo>/psiaudio/pipeline.py and self-test it.  A source the translator cannot digest, a
    generated file that does not type-check or a failed self-test raise: the driver reports a broken tie (fail closed)."""
    import random
    import sys
    import vlib
    from translate import pypdata2coq
    path = os.path.join(vlib.COQ, GEN)
    head = ('(* GENERATED on every run by harness/C11.py translate() with translate/pypdata2coq.py from\n'
            f'   {repo}/psiaudio/pipeline.py - do not edit.  Vocabulary: coq/PData/TieLib.v.  Tie theorems: coq/PData/ProofsTie.v. *)\n')
    try:
        text, info = pypdata2coq.translate(repo)
    except pypdata2coq.TranslatorGap as e:
        msg = ''.join(ch if ch.isalnum() or ch in " _.,:;()[]{}=+-*/<>'`" else ' ' for ch in str(e))
        msg = msg.replace('(*', '( *').replace('*)', '* )')[:400]
        with open(path, 'w') as f:          # deliberately ill-typed: whoever builds it sees the reason
            f.write(head + 'From Coq Require Import ZArith String.\n' + f'Definition translator_gap : Z :=\n  "{msg}"%string.\n')
        raise
    with open(path, 'w') as f:              # always rewritten: always re-checked
        f.write(head + text)
    rc, out = vlib.coq_build('gen/PDataGen.vo')
    if rc != 0:
        raise pypdata2coq.TranslatorGap('the generated file does not type-check: ' + out[-800:])
    vlib.use_repo()
    import psiaudio.pipeline as pipeline
    if os.path.realpath(pipeline.__file__) != os.path.realpath(os.path.join(repo, 'psiaudio', 'pipeline.py')):
        raise vlib.MachineryError(f'psiaudio.pipeline is {pipeline.__file__}, not the translated source under {repo}')
    terms = pypdata2coq.selftest_terms(pipeline, random.Random(7))
    try:
        failing = vlib.run_cases(PROP, ['PData.TieLib', 'PData.TieLibConcat', 'gen.PDataGen'], terms, tag='tieself')
    except vlib.MachineryError as e:
        raise pypdata2coq.TranslatorGap('self-test could not be evaluated: ' + str(e)[-600:])
    if failing:
        raise pypdata2coq.TranslatorGap(f'self-test: the generated definitions disagree with the real functions on {len(failing)} of '
                                        f'{len(terms)} inputs, first: {terms[failing[0]]}')
    info.update(gen_files=[GEN], primitives=pypdata2coq.PRIMITIVES, selftest={'evaluations': len(terms), 'failing': 0})
    return info
