"""Shared machinery of harness/C02.py, C03.py, C04.py: drives the real psiaudio signal queues and
compares every observable with the outputs of coq/Queue/Model.v (printed by coqc)."""
import numpy as np
from vlib import zlit, zlist, listlit

POLICIES = ['fifo', 'inter_keep', 'inter_nokeep', 'random', 'blocked_random', 'grouped', 'blocked_fifo']
EXACT = ('fifo', 'random', 'inter_nokeep')     # present exactly the requested number of trials


def wave_array(key, n):
    return 1000.0 * (key + 1) + np.arange(n, dtype=np.double) + 0.5


ARRAY_KINDS = ('array', 'i64', 'i16', 'f32', 'ro', 'view', 'list')     # modelled as KArray
GEN_KINDS = ('gen', 'cos2', 'gate', 'notch')                           # modelled as KGen


def mk_source(st, key, fs):
    """The object handed to append()/extend().  Kinds beyond the float64 ndarray / generator pair exist because
    the queue must present *the queued waveform* whatever its container: integer and float32 dtypes, read-only
    arrays, non-contiguous views, plain Python lists (with an explicit duration)."""
    from psiaudio import stim
    n = st['len']
    kind = st['kind']
    if kind == 'array':
        return wave_array(key, n)
    if kind == 'i64':
        return (1000 * (key + 1) + np.arange(n)).astype(np.int64)
    if kind == 'i16':
        return (1000 * (key + 1) + np.arange(n)).astype(np.int16)
    if kind == 'f32':
        return wave_array(key, n).astype(np.float32)
    if kind == 'ro':
        a = wave_array(key, n)
        a.flags.writeable = False
        return a
    if kind == 'view':
        base = np.repeat(wave_array(key, n), 2)
        base[1::2] = -1.0
        return base[::2]
    if kind == 'list':
        return [float(v) for v in wave_array(key, n)]
    if kind == 'gen':
        return _previewed(stim.FixedWaveform(fs, wave_array(key, n)), key, n)
    if kind == 'cos2':
        tone = stim.ToneFactory(fs, fs / 7.0, 1.0 + key)
        return _previewed(stim.Cos2EnvelopeFactory(fs, n / fs, (n // 4) / fs, tone), key, n)
    if kind == 'gate':
        # a PLAIN gate (not an envelope) that opens after a leading silence, over a running tone: the samples in the
        # gate depend on how far the carrier has run, i.e. on nothing but the sample index if the gate is chunk-invariant
        lead = n // 3
        tone = stim.ToneFactory(fs, fs / 9.0, 1.0 + key)
        return _previewed(stim.GateFactory(fs, lead / fs, (n - lead) / fs, tone), key, n)
    if kind == 'notch':
        # a stateful filter over seeded noise inside a gate: every trial restarts carrier AND filter
        noise = stim.BroadbandNoiseFactory(fs, 1.0 + key, seed=key + 1)
        return _previewed(stim.GateFactory(fs, 0, n / fs, stim.NotchFilterFactory(fs, fs / 8.0, 1.33, noise)), key, n)
    raise KeyError(kind)


def _previewed(factory, key, n):
    """every second generator source has been partly (or wholly) played by the caller before it is handed to the
    queue (a preview / a level check): the queue must still present the queued waveform from its first sample"""
    if (key + n) % 2 == 0:
        factory.next([1, n // 2, n, n + 2][(key + n // 2) % 4])
    return factory


def expected_wave(st, key, fs):
    src = mk_source(st, key, fs)
    if st['kind'] in ARRAY_KINDS:
        return np.asarray(src, dtype=float)
    src.reset()
    return np.asarray(src.next(st['len']), dtype=float)


def _declared_seconds(case, st, key, fs):
    """the duration (s) a notification / get_info carries: samples / fs, except that a plain gate reports
    start_time + duration as a float sum (an ulp away from samples / fs at some rates)"""
    if st['kind'] in ('gate', 'notch') and st.get('dur') is None:
        return mk_source(st, key, fs_object(case)).get_duration()
    return declared_dur(st) / fs


def declared_dur(st):
    """declared duration in samples: the `duration` keyword if the case gives one, else what the code derives"""
    d = st.get('dur')
    return st['len'] if d is None else d


def fs_object(case):
    fs = case['fs']
    kind = case.get('mk', {}).get('fs_kind', 'float')
    if kind == 'int' and float(fs).is_integer():
        return int(fs)
    if kind == 'np64':
        return np.float64(fs)
    return fs


def _delays_arg(st, fs):
    """scalar / None / list / tuple / ndarray / list iterator / generator / itertools.cycle"""
    import itertools
    d = st['delays']
    kind = st.get('dkind', 'auto')
    if d is None:
        return None
    if not isinstance(d, list):
        v = d / fs
        if kind == 'np':
            return np.float64(v)
        if kind == 'int0' and d == 0:
            return 0
        return v
    v = [x / fs for x in d]
    if kind == 'tuple':
        return tuple(v)
    if kind == 'ndarray':
        return np.array(v, dtype=float)
    if kind == 'iter':
        return iter(v)
    if kind == 'gen':
        return (x for x in v)
    if kind == 'cycle':
        return itertools.cycle(v)
    return v


def _trials_arg(st):
    t = st['trials']
    kind = st.get('tkind', 'int')
    if kind == 'np':
        return np.int64(t)
    if kind == 'float':
        return float(t)
    if kind == 'npf':
        return np.float64(t)
    return t


def mk_queue(case):
    """Builds the queue through the constructor variant the case asks for (case['mk']): class or the `queues`
    dict; fs by keyword / positionally / through set_fs(), as float / int / numpy scalar; policy options given
    explicitly, left at their defaults, positionally or as truthy non-bools; set_t0() called or skipped."""
    from psiaudio import queue as Q
    fs = case['fs']
    fso = fs_object(case)
    p = case['pol']
    mk = case.get('mk', {})
    opt = mk.get('opt', 'explicit')
    names = {'fifo': 'first-in, first-out', 'inter_keep': 'interleaved first-in, first-out',
             'inter_nokeep': 'interleaved first-in, first-out', 'random': 'random', 'blocked_random': 'blocked random',
             'grouped': 'grouped first-in, first-out', 'blocked_fifo': 'blocked first-in, first-out'}
    classes = {'fifo': Q.FIFOSignalQueue, 'inter_keep': Q.InterleavedFIFOSignalQueue,
               'inter_nokeep': Q.InterleavedFIFOSignalQueue, 'random': Q.RandomSignalQueue,
               'blocked_random': Q.BlockedRandomSignalQueue, 'grouped': Q.GroupedFIFOSignalQueue,
               'blocked_fifo': Q.BlockedFIFOSignalQueue}
    cls = Q.queues[names[p]] if mk.get('via') == 'dict' else classes[p]
    args, kw = [], {}
    if p == 'inter_keep':
        if opt == 'truthy':
            kw['keep_complete_waveforms'] = 1
        elif opt == 'pos':
            args.append(True)
        elif opt != 'default':
            kw['keep_complete_waveforms'] = True
    elif p == 'inter_nokeep':
        if opt == 'truthy':
            kw['keep_complete_waveforms'] = 0
        elif opt == 'pos':
            args.append(False)
        else:
            kw['keep_complete_waveforms'] = False
    elif p == 'blocked_random':
        seed = case.get('seed', 0)
        if opt == 'pos':
            args.append(seed)
        elif opt == 'np':
            kw['seed'] = np.int64(seed)
        elif not (opt == 'default' and seed == 0):
            kw['seed'] = seed
    elif p == 'grouped':
        if opt == 'pos':
            args.append(case['gs'])
        elif opt == 'np':
            kw['group_size'] = np.int64(case['gs'])
        else:
            kw['group_size'] = case['gs']
    how = mk.get('fs', 'ctor')
    if how == 'pos' and p in ('fifo', 'random') and not args:
        q = cls(fso)
    elif how == 'set_fs':
        q = cls(*args, **kw)
        q.set_fs(fso)
    else:
        q = cls(*args, fs=fso, **kw)
    if not (mk.get('t0') == 'skip' and case.get('t0', 0) == 0):
        q.set_t0(case.get('t0', 0) / fs)
    sources, rows = [], []
    for k, st in enumerate(case['stims']):
        src = mk_source(st, k, fs)
        sources.append(src)
        dur = st.get('dur')
        if dur is None and st['kind'] == 'list':
            dur = st['len']                  # a list has no shape: the duration must be declared
        rows.append({'source': src, 'trials': _trials_arg(st), 'delays': _delays_arg(st, fs),
                     'duration': None if dur is None else dur / fs, 'metadata': st.get('meta'),
                     'has_meta': 'meta' in st})
    keys = []
    fill = case.get('fill', 'append')

    def append(r):
        if r['duration'] is not None or r['has_meta']:
            kws = {}
            if r['delays'] is not None:
                kws['delays'] = r['delays']
            if r['duration'] is not None:
                kws['duration'] = r['duration']
            if r['has_meta']:
                kws['metadata'] = r['metadata']
            return q.append(r['source'], r['trials'], **kws)
        if r['delays'] is None:
            return q.append(r['source'], r['trials'])            # delays left at its default (None -> no gap)
        return q.append(r['source'], r['trials'], r['delays'])

    if fill == 'append':
        for r in rows:
            keys.append(append(r))
    else:
        # extend() takes parallel sequences (or scalars applied to every source); 'mixed' appends the first
        # stimulus and extends with the rest
        head = 1 if (fill == 'mixed' and len(rows) > 1) else 0
        for r in rows[:head]:
            keys.append(append(r))
        rest = rows[head:]
        if rest:
            srcs = [r['source'] for r in rest]
            tr = [r['trials'] for r in rest]
            dl = [r['delays'] for r in rest]
            uniform = (fill == 'extend_scalar' and len(set(map(repr, tr))) == 1
                       and all(not np.iterable(d) for d in dl) and len(set(map(repr, dl))) == 1)
            kws = {}
            if any(r['duration'] is not None for r in rest):
                kws['duration'] = [r['duration'] for r in rest]
            if any(r['has_meta'] for r in rest):
                kws['metadata'] = [r['metadata'] for r in rest]
            if fill == 'extend_np':
                # the parallel sequences as tuple / ndarray instead of lists
                srcs = tuple(srcs)
                tr = np.array(tr)
                if all(d is not None and not np.iterable(d) for d in dl):
                    dl = np.array(dl, dtype=float)
                else:
                    dl = tuple(dl)
                for k in list(kws):
                    kws[k] = tuple(kws[k])
            if uniform and dl[0] is None:
                keys += q.extend(srcs, tr[0], **kws)
            elif uniform:
                keys += q.extend(srcs, tr[0], dl[0], **kws)
            else:
                keys += q.extend(srcs, tr, dl, **kws)
    return q, keys, sources


def eff_delays(st, fs):
    d = st['delays']
    if d is None:
        return [0], True                                  # as_iterator(None) cycles 0
    if isinstance(d, list):
        return [int(round((x / fs) * fs)) for x in d], st.get('dkind') == 'cycle'
    return [int(round((d / fs) * fs))], True


def _jsonable(x):
    if isinstance(x, (list, tuple)):
        return [_jsonable(v) for v in x]
    if isinstance(x, dict):
        return {str(k): _jsonable(v) for k, v in x.items()}
    if isinstance(x, (np.generic,)):
        return x.item()
    return x


def _abuse_sources(case, sources):
    """what a caller may legitimately do with ITS objects after queueing them"""
    for st, src in zip(case['stims'], sources):
        n = st['len']
        if st['kind'] == 'list':
            src[:] = [-5.0] * n
        elif st['kind'] in ARRAY_KINDS:
            if src.flags.writeable:
                src[...] = -5
        elif st['kind'] == 'gen':
            if n >= 2:
                src.next(2)
            src.waveform[...] = -5.0
        elif n >= 2:
            src.next(2)


class NoAnswer(Exception):
    """the implementation did not answer within the time limit (e.g. a loop that no longer terminates)"""


def run_impl(case, limit=30):
    """Returns per op a JSON-able record of everything observable.  A history that does not finish within
    `limit` seconds escapes as NoAnswer (the driver treats an escaping exception as behaviour the model does
    not have) instead of hanging the check."""
    import signal
    import threading
    if threading.current_thread() is not threading.main_thread():
        return _run_impl(case)

    def on_alarm(signum, frame):
        raise NoAnswer(f'no result within {limit} s')
    old = signal.signal(signal.SIGALRM, on_alarm)
    signal.setitimer(signal.ITIMER_REAL, limit)
    try:
        return _run_impl(case)
    finally:
        signal.setitimer(signal.ITIMER_REAL, 0)
        signal.signal(signal.SIGALRM, old)


def _run_impl(case):
    fs = case['fs']
    T0 = case.get('t0', 0) / fs
    if case['pol'] == 'random':
        np.random.seed(case.get('seed', 0))
    q, keys, sources = mk_queue(case)
    abuse = case.get('abuse', True)
    kidx = {k: i for i, k in enumerate(keys)}
    events, decs, second = [], [], []
    live = [True]

    def ev(kind):
        def cb(info):
            if not live[0]:
                return
            if kind == 'empty':
                events.append(['empty'])
            else:
                t0 = info['t0']
                s = int(round((t0 - T0) * fs))
                events.append([kind, kidx.get(info['key'], -1), s, bool(t0 == T0 + s / fs), float(info['duration']),
                               _jsonable(info['metadata']), bool(info['decrement'])])
        return cb
    for kind in ('added', 'removed', 'empty'):
        q.connect(ev(kind), kind)
    q.connect(lambda info: live[0] and decs.append(kidx.get(info['key'], -1)), 'decrement')
    q.connect(lambda info: live[0] and second.append(kidx.get(info['key'], -1)))     # a second subscriber, default event
    from psiaudio import queue as _Q
    bystander = _Q.FIFOSignalQueue(fs=fs_object(case))
    bystander.append(np.ones(2), 1)
    by_events = []
    bystander.connect(lambda info: by_events.append(1), 'added')
    static = {}
    try:
        static['bad_event'] = None
        q.connect(lambda info: None, 'no-such-event')
        static['bad_event'] = 'connect() accepted an unknown event'
    except KeyError:
        pass
    if not any(st['kind'] == 'list' for st in case['stims']) and case['stims']:
        static['max_duration'] = float(q.get_max_duration())
    if abuse:
        _abuse_sources(case, sources)
    fso = fs_object(case)

    def status():
        ts = q.get_ts()
        s = int(round(ts * fs))
        rem = [q.remaining_trials(k) for k in keys]
        bad = None
        if not (q.fs == fso):
            bad = 'fs property differs from the rate given'
        for i, k in enumerate(keys):
            inf = q.get_info(k)
            if set(inf) != {'source', 'trials', 'requested_trials', 'delays', 'duration', 'metadata'}:
                bad = f'get_info keys {sorted(inf)}'
            elif inf['trials'] != rem[i] or inf['requested_trials'] != case['stims'][i]['trials'] \
                    or inf['duration'] != _declared_seconds(case, case['stims'][i], i, fs):
                bad = f'get_info({i}) = trials {inf["trials"]} requested {inf["requested_trials"]} duration {inf["duration"]}'
            if abuse:                      # the returned dict is the caller's
                inf['trials'] += 7
                inf['requested_trials'] += 7
                inf['duration'] = inf['duration'] * 2 + 1
                inf['metadata'] = 'scribbled'
        return {'samples': s, 'ts_exact': bool(ts == s / fs), 'empty': bool(q.is_empty()),
                'count': int(q.count_trials()), 'requested': int(q.count_requested_trials()),
                'remaining': [int(x) for x in rem], 'factories': int(q.count_factories()), 'info': bad}

    out = []
    originals = []
    for n_op, o in enumerate(case['ops']):
        del events[:], decs[:], second[:]
        if case['pol'] != 'random' and case.get('disturb', True):
            # nothing but RandomSignalQueue may depend on the global NumPy random state
            np.random.seed(1000 + n_op)
            np.random.uniform(size=3)
        if originals and case['pol'] != 'random':
            # the queue(s) this one was cloned from keep running: nothing of that may reach the clone
            # (RandomSignalQueue draws from the global NumPy generator, which original and clone share by design)
            live[0] = False
            for qo in originals:
                qo.pop_buffer(3)
            live[0] = True
        flag = o[2] if len(o) > 2 else ''
        if o[0] == 'pop':
            n = {'np': np.int64, 'np32': np.int32}.get(flag, int)(o[1])
            try:
                if flag == 'nd':
                    w = q.pop_buffer(n, False)
                elif flag == 'ndkw':
                    w = q.pop_buffer(samples=n, decrement=False)
                elif flag == 'kw':
                    w = q.pop_buffer(samples=n, decrement=True)
                else:
                    w = q.pop_buffer(n)
                rec = {'op': 'pop', 'wave': [float(v) for v in w], 'events': list(events), 'status': status(),
                       'decs': list(decs), 'second': list(second)}
                if abuse and isinstance(w, np.ndarray) and w.flags.writeable:
                    w[...] = 99.0                  # the returned buffer is the caller's
                out.append(rec)
            except (IndexError, ZeroDivisionError, KeyError, StopIteration, RuntimeError, ValueError) as e:
                out.append({'op': 'pop', 'raised': type(e).__name__, 'events': list(events)})
                break
        elif o[0] == 'pause':
            t = None if o[1] is None else T0 + o[1] / fs
            if t is not None and flag == 'np':
                t = np.float64(t)
            if t is not None and flag == 'int0' and t == 0:
                t = 0                              # falsy, but a time
            try:
                if flag == 'kw':
                    q.pause(t=t)
                elif t is None and flag == 'noarg':
                    q.pause()
                else:
                    q.pause(t)
                out.append({'op': 'pause', 'events': list(events), 'status': status()})
            except ValueError:
                # the rejection leaves a queue the caller keeps using: the history goes on
                out.append({'op': 'pause', 'raised': 'ValueError', 'events': list(events), 'status': status()})
        elif o[0] == 'resume':
            t = None if o[1] is None else T0 + o[1] / fs
            if t is not None and flag == 'np':
                t = np.float64(t)
            if t is not None and flag == 'int0' and t == 0:
                t = 0                              # falsy, but a time
            if flag == 'kw':
                q.resume(t=t)
            elif t is None and flag == 'noarg':
                q.resume()
            else:
                q.resume(t)
            out.append({'op': 'resume', 'events': list(events), 'status': status()})
        elif o[0] == 'clone':
            originals.append(q)
            q = q.clone()
            out.append({'op': 'clone', 'events': list(events), 'status': status()})
        elif o[0] == 'closest':
            k = q.get_closest_key(T0 + o[1] / fs)
            out.append({'op': 'closest', 'key': -1 if k is None else kidx[k], 'events': list(events)})
        else:
            raise KeyError(o[0])
    # listeners belong to ONE queue object: a bystander queue created beside this one must neither hear this queue's
    # notifications nor make this queue's listeners hear its own
    del events[:]
    bystander.pop_buffer(2)
    if events:
        static['crosstalk'] = f'the listeners of this queue were called by ANOTHER queue object ({events[0][0]})'
    elif len(by_events) != 1:
        static['crosstalk'] = f'another queue object received {len(by_events) - 1} notifications of this queue'
    if out:
        out[0]['static'] = static
    return out


def eff_time(case, k):
    """sample index the code derives from the time T0 + k/fs"""
    fs = case['fs']
    T0 = case.get('t0', 0) / fs
    return int(round(((T0 + k / fs) - T0) * fs))


def eff_closest(case, k):
    """largest sample index s with T0 + s/fs <= T0 + k/fs in the code's own float arithmetic (-1: none)"""
    fs = case['fs']
    T0 = case.get('t0', 0) / fs
    t = T0 + k / fs
    best = -1
    for s in range(0, max(0, int(k)) + 3):
        if T0 + s / fs <= t:
            best = s
    return best


def blocked_perms(seed, n, count=120):
    rng = np.random.RandomState(seed)
    out = []
    for _ in range(count):
        i = np.arange(n)
        rng.shuffle(i)
        out.append([int(x) for x in i])
    return out


def model_ops(case):
    """the history as Coq `xop`s (clone is the identity on the model: the clone must simply carry on)"""
    ops = []
    for o in case['ops']:
        flag = o[2] if len(o) > 2 else ''
        if o[0] == 'pop':
            ops.append(f"XPop {zlit(o[1])} {'false' if flag in ('nd', 'ndkw') else 'true'}")
        elif o[0] in ('pause', 'resume'):
            a = 'None' if o[1] is None else f'(Some {zlit(eff_time(case, o[1]))})'
            ops.append(('XPause ' if o[0] == 'pause' else 'XResume ') + a)
        elif o[0] == 'closest':
            ops.append(f'XClosest {zlit(eff_closest(case, o[1]))}')
    return ops


def plain_history(case):
    """only operations the Spec.v vocabulary (qop) can express, all with automatic decrement"""
    return all(o[0] in ('pop', 'pause', 'resume') and (len(o) < 3 or o[2] not in ('nd', 'ndkw')) for o in case['ops'])


def coq_expr(case, res, tests_fn=None):
    fs = case['fs']
    p = case['pol']
    n = len(case['stims'])
    pol = {'fifo': 'PFifo', 'inter_keep': '(PInter true)', 'inter_nokeep': '(PInter false)', 'random': 'PRandom',
           'blocked_random': 'PBlockedRandom', 'grouped': f"(PGrouped {zlit(case.get('gs', 0))})",
           'blocked_fifo': f'(PGrouped {n})'}[p]
    es = []
    for st in case['stims']:
        d, cyc = eff_delays(st, fs)
        kind = 'KArray' if st['kind'] in ARRAY_KINDS else 'KGen'
        if declared_dur(st) == st['len']:
            es.append(f"mk_entry {zlit(st['trials'])} {zlit(st['len'])} {kind} {zlist(d)} {'true' if cyc else 'false'}")
        else:
            es.append(f"mk_entry_dur {zlit(st['trials'])} {zlit(st['len'])} {kind} {zlist(d)} "
                      f"{'true' if cyc else 'false'} {zlit(declared_dur(st))}")
    choices = []
    if p == 'random':
        for r in res:
            choices += [e[1] for e in r.get('events', []) if e[0] == 'added']
    perms = blocked_perms(case.get('seed', 0), n, case.get('nperms', 120)) if p == 'blocked_random' else []
    args = (f"{pol} {listlit(['(' + e + ')' for e in es])} {zlist(choices)} "
            f"{listlit([zlist(pm) for pm in perms])}")
    tests = tests_fn(args, case) if (tests_fn and plain_history(case)) else []
    tail = (' ++ [' + '; '.join(f'(if {t} then 1 else 0)' for t in tests) + ']') if tests else ''
    return f"run_queue_x {args} {listlit(model_ops(case))}{tail}", len(tests)


def decode(mo, nst):
    pos = 0
    out = []

    def take(k=1):
        nonlocal pos
        v = mo[pos:pos + k]
        pos += k
        return v if k > 1 else v[0]

    def status():
        s, e, c, r = take(4)
        rem = list(take(nst)) if nst > 1 else ([take()] if nst == 1 else [])
        return {'samples': s, 'empty': bool(e), 'count': c, 'requested': r, 'remaining': rem, 'factories': take()}

    while pos < len(mo):
        code = take()
        if code == 2:
            out.append({'raised': True})
            break
        if code == 6:
            out.append({'closest': take()})
            continue
        ns = take()
        samples = [tuple(take(2)) for _ in range(ns)]
        ne = take()
        events = [list(take(4)) for _ in range(ne)]
        out.append({'samples': samples, 'events': events, 'status': status(), 'rejected': code == 4})
    return out


def expected_decrements(case, res):
    """'decrement' notifications (harness-side rule, pause-free histories only): the base-class decrement_key,
    which only the FIFO and random queues use, notifies when trials remain after an automatic decrement."""
    if any(o[0] in ('pause', 'resume') for o in case['ops']):
        return None
    left = [st['trials'] for st in case['stims']]
    out = []
    for r in res:
        exp = []
        for e in r.get('events', []):
            if e[0] == 'added' and e[6]:
                left[e[1]] -= 1
                if case['pol'] in ('fifo', 'random') and left[e[1]] > 0:
                    exp.append(e[1])
        out.append(exp)
    return out


def compare(case, res, mo, ntests=0):
    if ntests:
        bits = mo[-ntests:]
        mo = mo[:-ntests]
        if any(b != 1 for b in bits):
            return f'the executable form of a Props statement is false on this case (test bits {bits})'
    fs = case['fs']
    nst = len(case['stims'])
    try:
        dec = decode(mo, nst)
    except Exception as e:
        return f'cannot decode model output ({e})'
    waves = [expected_wave(st, k, fs) for k, st in enumerate(case['stims'])]
    static = res[0].get('static', {}) if res else {}
    if static.get('bad_event'):
        return static['bad_event']
    if static.get('crosstalk'):
        return static['crosstalk']
    if 'max_duration' in static:
        want = max((mk_source(st, k, fs).get_duration() if st['kind'] in GEN_KINDS else st['len'] / fs_object(case))
                   for k, st in enumerate(case['stims']))
        if static['max_duration'] != want:
            return f'get_max_duration() = {static["max_duration"]!r}, the longest source lasts {want!r}'
    # clone is the identity on the model
    pairs = [(o, r) for o, r in zip(case['ops'], res) if o[0] != 'clone']
    prev = None
    for o, r in zip(case['ops'], res):
        if o[0] == 'clone':
            if prev is not None and 'status' in prev and r['status'] != prev['status']:
                return f'clone() differs from its original: {r["status"]} vs {prev["status"]}'
            if r['events']:
                return 'clone() notified'
        elif 'status' in r:
            prev = r
    if len(dec) != len(pairs):
        return f'model produced {len(dec)} results, implementation {len(pairs)}'
    expd = expected_decrements(case, res)
    for i, (o, r) in enumerate(zip(case['ops'], res)):
        if expd is not None and 'decs' in r and r['decs'] != expd[i]:
            return f"op {i} {o}: 'decrement' notifications {r['decs']}, expected {expd[i]}"
        if 'second' in r and r['second'] != [e[1] for e in r['events'] if e[0] == 'added']:
            return f"op {i} {o}: a second 'added' subscriber saw {r['second']}"
    for i, ((o, r), d) in enumerate(zip(pairs, dec)):
        if 'raised' in r and o[0] == 'pause':
            if not d.get('rejected'):
                return f'op {i} {o}: implementation rejected the pause with {r["raised"]}, model did not'
        elif 'raised' in r:
            if not d.get('raised'):
                return f'op {i} {o}: implementation raised {r["raised"]}, model did not'
            continue
        elif d.get('raised') or d.get('rejected'):
            return f'op {i} {o}: model raises, implementation did not'
        if o[0] == 'closest':
            if r['key'] != d.get('closest'):
                return f'op {i} {o}: get_closest_key gives {r["key"]}, model {d.get("closest")}'
            continue
        want_ev = []
        for e in r['events']:
            if e[0] == 'empty':
                want_ev.append([3, 0, 0, 0])
            else:
                if not e[3]:
                    return f'op {i} {o}: notified t0 is not exactly on the sample grid'
                st = case['stims'][e[1]]
                want_dur = _declared_seconds(case, st, e[1], fs)
                if e[4] != want_dur:
                    return f'op {i} {o}: notified duration {e[4]!r} is not the declared {declared_dur(st)}/fs'
                if e[5] != _jsonable(st.get('meta')):
                    return f'op {i} {o}: notified metadata {e[5]!r} is not the queued {st.get("meta")!r}'
                if e[0] == 'added' and e[6] != (not (len(o) > 2 and o[2] in ('nd', 'ndkw'))):
                    return f'op {i} {o}: notified decrement flag {e[6]}'
                want_ev.append([1 if e[0] == 'added' else 2, e[1], e[2], declared_dur(st)])
        if want_ev != d['events']:
            return f'op {i} {o}: notifications {want_ev} vs model {d["events"]}'
        if o[0] == 'pop':
            if len(r['wave']) != len(d['samples']):
                return f'op {i} {o}: {len(r["wave"])} samples vs model {len(d["samples"])}'
            for j, (v, (k, ix)) in enumerate(zip(r['wave'], d['samples'])):
                w = 0.0 if k < 0 else float(waves[k][ix])
                if v != w:
                    return f'op {i} {o}: sample {j} is {v!r}, model says {"zero" if k < 0 else (k, ix)} = {w!r}'
        st = r['status']
        if not st['ts_exact']:
            return f'op {i} {o}: get_ts() is not samples/fs'
        if st.get('info'):
            return f'op {i} {o}: {st["info"]}'
        got = {k: st[k] for k in ('samples', 'empty', 'count', 'requested', 'remaining', 'factories')}
        if got != d['status']:
            return f'op {i} {o}: status {got} vs model {d["status"]}'
    return None


# ---------------------------------------------------------------------------
# independent reference of the presentation order (C03), used only by oracles
def reference_order(case, choices=None):
    """Key sequence each policy must produce with automatic decrement and no pause, and the
    minimal final counts."""
    p = case['pol']
    trials = [st['trials'] for st in case['stims']]
    n = len(trials)
    seq = []
    if p == 'fifo':
        for k, t in enumerate(trials):
            seq += [k] * t
    elif p in ('inter_keep', 'inter_nokeep'):
        left = list(trials)
        i = -1
        while any(x > 0 for x in left):
            i = (i + 1) % n
            if p == 'inter_nokeep' and left[i] <= 0:
                continue
            seq.append(i)
            left[i] -= 1
    elif p == 'blocked_random':
        left = list(trials)
        perms = blocked_perms(case.get('seed', 0), n)
        b = 0
        while any(x > 0 for x in left):
            for i in reversed(perms[b]):
                if not any(x > 0 for x in left):
                    break
                seq.append(i)
                left[i] -= 1
            b += 1
    elif p in ('grouped', 'blocked_fifo'):
        gs = n if p == 'blocked_fifo' else case['gs']
        left = list(trials)
        order = list(range(n))
        i = -1
        while order:
            grp = order[:gs]
            i = (i + 1) % min(gs, len(order))
            k = order[i]
            seq.append(k)
            left[k] -= 1
            if all(left[g] <= 0 for g in grp):
                order = order[len(grp):]
    elif p == 'random':
        seq = None
    return seq
