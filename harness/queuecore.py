"""Shared machinery of harness/C02.py, C03.py, C04.py: drives the real psiaudio signal queues and
compares every observable with the outputs of coq/Queue/Model.v (printed by coqc)."""
import numpy as np
from vlib import zlit, zlist, listlit

POLICIES = ['fifo', 'inter_keep', 'inter_nokeep', 'random', 'blocked_random', 'grouped', 'blocked_fifo']
EXACT = ('fifo', 'random', 'inter_nokeep')     # present exactly the requested number of trials


def wave_array(key, n):
    return 1000.0 * (key + 1) + np.arange(n, dtype=np.double) + 0.5


def mk_source(st, key, fs):
    from psiaudio import stim
    n = st['len']
    if st['kind'] == 'array':
        return wave_array(key, n)
    if st['kind'] == 'gen':
        return stim.FixedWaveform(fs, wave_array(key, n))
    if st['kind'] == 'cos2':
        tone = stim.ToneFactory(fs, fs / 7.0, 1.0 + key)
        return stim.Cos2EnvelopeFactory(fs, n / fs, (n // 4) / fs, tone)
    raise KeyError(st['kind'])


def expected_wave(st, key, fs):
    src = mk_source(st, key, fs)
    if isinstance(src, np.ndarray):
        return src
    return np.asarray(src.next(st['len']), dtype=float)


def mk_queue(case):
    from psiaudio import queue as Q
    fs = case['fs']
    p = case['pol']
    if p == 'fifo':
        q = Q.FIFOSignalQueue(fs=fs)
    elif p == 'inter_keep':
        q = Q.InterleavedFIFOSignalQueue(fs=fs, keep_complete_waveforms=True)
    elif p == 'inter_nokeep':
        q = Q.InterleavedFIFOSignalQueue(fs=fs, keep_complete_waveforms=False)
    elif p == 'random':
        q = Q.RandomSignalQueue(fs=fs)
    elif p == 'blocked_random':
        q = Q.BlockedRandomSignalQueue(seed=case.get('seed', 0), fs=fs)
    elif p == 'grouped':
        q = Q.GroupedFIFOSignalQueue(group_size=case['gs'], fs=fs)
    elif p == 'blocked_fifo':
        q = Q.BlockedFIFOSignalQueue(fs=fs)
    else:
        raise KeyError(p)
    q.set_t0(case.get('t0', 0) / fs)
    keys = []
    fill = case.get('fill', 'append')
    args = []
    for k, st in enumerate(case['stims']):
        d = st['delays']
        delays = [x / fs for x in d] if isinstance(d, list) else d / fs
        args.append((mk_source(st, k, fs), st['trials'], delays))
    if fill == 'append':
        for a in args:
            keys.append(q.append(*a))
    else:
        # extend() takes parallel sequences; 'mixed' appends the first stimulus and extends with the rest
        head = 1 if (fill == 'mixed' and len(args) > 1) else 0
        for a in args[:head]:
            keys.append(q.append(*a))
        rest = args[head:]
        if rest:
            if all(not isinstance(a[2], list) for a in rest):
                keys += q.extend([a[0] for a in rest], [a[1] for a in rest], [a[2] for a in rest])
            else:
                for a in rest:        # per-trial delay lists cannot be told apart from the parallel-sequence form
                    keys.append(q.append(*a))
    return q, keys


def eff_delays(st, fs):
    d = st['delays']
    if isinstance(d, list):
        return [int(round((x / fs) * fs)) for x in d], False
    return [int(round((d / fs) * fs))], True


def run_impl(case):
    """Returns per op a JSON-able record of everything observable."""
    fs = case['fs']
    T0 = case.get('t0', 0) / fs
    if case['pol'] == 'random':
        np.random.seed(case.get('seed', 0))
    q, keys = mk_queue(case)
    kidx = {k: i for i, k in enumerate(keys)}
    events = []

    def ev(kind):
        def cb(info):
            if kind == 'empty':
                events.append(['empty'])
            else:
                t0 = info['t0']
                s = int(round((t0 - T0) * fs))
                events.append([kind, kidx[info['key']], s, bool(t0 == T0 + s / fs), float(info['duration'])])
        return cb
    for kind in ('added', 'removed', 'empty'):
        q.connect(ev(kind), kind)

    def status():
        ts = q.get_ts()
        s = int(round(ts * fs))
        return {'samples': s, 'ts_exact': bool(ts == s / fs), 'empty': bool(q.is_empty()),
                'count': int(q.count_trials()), 'requested': int(q.count_requested_trials()),
                'remaining': [int(q.remaining_trials(k)) for k in keys]}

    out = []
    for n_op, o in enumerate(case['ops']):
        del events[:]
        if case['pol'] != 'random' and case.get('disturb', True):
            # nothing but RandomSignalQueue may depend on the global NumPy random state
            np.random.seed(1000 + n_op)
            np.random.uniform(size=3)
        if o[0] == 'pop':
            try:
                w = q.pop_buffer(o[1])
                out.append({'op': 'pop', 'wave': [float(v) for v in w], 'events': list(events), 'status': status()})
            except (IndexError, ZeroDivisionError, KeyError, StopIteration, RuntimeError, ValueError) as e:
                out.append({'op': 'pop', 'raised': type(e).__name__, 'events': list(events)})
                break
        elif o[0] == 'pause':
            t = None if o[1] is None else T0 + o[1] / fs
            try:
                q.pause(t)
                out.append({'op': 'pause', 'events': list(events), 'status': status()})
            except ValueError:
                out.append({'op': 'pause', 'raised': 'ValueError', 'events': list(events)})
                break
        elif o[0] == 'resume':
            t = None if o[1] is None else T0 + o[1] / fs
            q.resume(t)
            out.append({'op': 'resume', 'events': list(events), 'status': status()})
    return out


def eff_time(case, k):
    """sample index the code derives from the time T0 + k/fs"""
    fs = case['fs']
    T0 = case.get('t0', 0) / fs
    return int(round(((T0 + k / fs) - T0) * fs))


def blocked_perms(seed, n, count=120):
    rng = np.random.RandomState(seed)
    out = []
    for _ in range(count):
        i = np.arange(n)
        rng.shuffle(i)
        out.append([int(x) for x in i])
    return out


def coq_expr(case, res, tests_fn=None):
    fs = case['fs']
    p = case['pol']
    n = len(case['stims'])
    pol = {'fifo': 'PFifo', 'inter_keep': '(PInter true)', 'inter_nokeep': '(PInter false)', 'random': 'PRandom',
           'blocked_random': 'PBlockedRandom', 'grouped': f"(PGrouped {zlit(case.get('gs', 0))})",
           'blocked_fifo': f'(PGrouped {n})'}[p]
    es = []
    for st in case['stims']:
        d, cyc = eff_delays(st, fs)
        es.append(f"mk_entry {zlit(st['trials'])} {zlit(st['len'])} "
                  f"{'KArray' if st['kind'] == 'array' else 'KGen'} {zlist(d)} {'true' if cyc else 'false'}")
    choices = []
    if p == 'random':
        for r in res:
            choices += [e[1] for e in r.get('events', []) if e[0] == 'added']
    perms = blocked_perms(case.get('seed', 0), n) if p == 'blocked_random' else []
    ops = []
    for o in case['ops']:
        if o[0] == 'pop':
            ops.append(f'Pop {zlit(o[1])}')
        else:
            a = 'None' if o[1] is None else f'(Some {zlit(eff_time(case, o[1]))})'
            ops.append(('Pause ' if o[0] == 'pause' else 'Resume ') + a)
    args = (f"{pol} {listlit(['(' + e + ')' for e in es])} {zlist(choices)} "
            f"{listlit([zlist(pm) for pm in perms])}")
    tests = tests_fn(args, case) if tests_fn else []
    tail = (' ++ [' + '; '.join(f'(if {t} then 1 else 0)' for t in tests) + ']') if tests else ''
    return f"run_queue {args} {listlit(ops)}{tail}", len(tests)


def decode(mo, nst):
    pos = 0
    out = []

    def take(k=1):
        nonlocal pos
        v = mo[pos:pos + k]
        pos += k
        return v if k > 1 else v[0]

    def status():
        s, e, c, r = take(4)
        return {'samples': s, 'empty': bool(e), 'count': c, 'requested': r, 'remaining': list(take(nst)) if nst > 1 else [take()]}

    while pos < len(mo):
        code = take()
        if code == 2:
            out.append({'raised': True})
            break
        if code == 4:
            ne = take()
            out.append({'raised': True, 'events': [list(take(3)) for _ in range(ne)]})
            break
        ns = take()
        samples = [tuple(take(2)) for _ in range(ns)]
        ne = take()
        events = [list(take(3)) for _ in range(ne)]
        out.append({'samples': samples, 'events': events, 'status': status()})
    return out


def compare(case, res, mo, ntests=0):
    if ntests:
        bits = mo[-ntests:]
        mo = mo[:-ntests]
        if any(b != 1 for b in bits):
            return f'the executable form of a Props statement is false on this case (test bits {bits})'
    fs = case['fs']
    nst = len(case['stims'])
    try:
        dec = decode(mo, nst)
    except Exception as e:
        return f'cannot decode model output ({e})'
    waves = [expected_wave(st, k, fs) for k, st in enumerate(case['stims'])]
    if len(dec) != len(res):
        return f'model produced {len(dec)} results, implementation {len(res)}'
    for i, (o, r, d) in enumerate(zip(case['ops'], res, dec)):
        if 'raised' in r:
            if not d.get('raised'):
                return f'op {i} {o}: implementation raised {r["raised"]}, model did not'
            continue
        if d.get('raised'):
            return f'op {i} {o}: model raises, implementation did not'
        want_ev = []
        for e in r['events']:
            if e[0] == 'empty':
                want_ev.append([3, 0, 0])
            else:
                if not e[3]:
                    return f'op {i} {o}: notified t0 is not exactly on the sample grid'
                want_ev.append([1 if e[0] == 'added' else 2, e[1], e[2]])
        if want_ev != d['events']:
            return f'op {i} {o}: notifications {want_ev} vs model {d["events"]}'
        if o[0] == 'pop':
            if len(r['wave']) != len(d['samples']):
                return f'op {i} {o}: {len(r["wave"])} samples vs model {len(d["samples"])}'
            for j, (v, (k, ix)) in enumerate(zip(r['wave'], d['samples'])):
                w = 0.0 if k < 0 else float(waves[k][ix])
                if v != w:
                    return f'op {i} {o}: sample {j} is {v!r}, model says {"zero" if k < 0 else (k, ix)} = {w!r}'
        st = r['status']
        if not st['ts_exact']:
            return f'op {i} {o}: get_ts() is not samples/fs'
        got = {k: st[k] for k in ('samples', 'empty', 'count', 'requested', 'remaining')}
        if got != d['status']:
            return f'op {i} {o}: status {got} vs model {d["status"]}'
    return None


# ---------------------------------------------------------------------------
# independent reference of the presentation order (C03), used only by oracles
def reference_order(case, choices=None):
    """Key sequence each policy must produce with automatic decrement and no pause, and the
    minimal final counts."""
    p = case['pol']
    trials = [st['trials'] for st in case['stims']]
    n = len(trials)
    seq = []
    if p == 'fifo':
        for k, t in enumerate(trials):
            seq += [k] * t
    elif p in ('inter_keep', 'inter_nokeep'):
        left = list(trials)
        i = -1
        while any(x > 0 for x in left):
            i = (i + 1) % n
            if p == 'inter_nokeep' and left[i] <= 0:
                continue
            seq.append(i)
            left[i] -= 1
    elif p == 'blocked_random':
        left = list(trials)
        perms = blocked_perms(case.get('seed', 0), n)
        b = 0
        while any(x > 0 for x in left):
            for i in reversed(perms[b]):
                if not any(x > 0 for x in left):
                    break
                seq.append(i)
                left[i] -= 1
            b += 1
    elif p in ('grouped', 'blocked_fifo'):
        gs = n if p == 'blocked_fifo' else case['gs']
        left = list(trials)
        order = list(range(n))
        i = -1
        while order:
            grp = order[:gs]
            i = (i + 1) % min(gs, len(order))
            k = order[i]
            seq.append(k)
            left[k] -= 1
            if all(left[g] <= 0 for g in grp):
                order = order[len(grp):]
    elif p == 'random':
        seq = None
    return seq
