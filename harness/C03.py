"""C03 - each stimulus gets its requested trials in the policy order, then silence.  Model: coq/Queue/Model.v."""
import itertools
import numpy as np
import queuecore as qc

PROP = 'C03'
REQUIRES = ['Queue.Model', 'Queue.Spec']
RULE = ('all seven queue classes; 1..6 stimuli; every vector of trial counts in {1,2,3}^n for n <= 3 (quick) / n <= 4 (thorough) and '
        'random counts 1..5 for larger n; every group_size 1..n+1 (incl. sizes that do not divide n and sizes larger than n); '
        'keep_complete_waveforms both ways; seeds; waveform lengths 0..6; request chunkings {1 big, unit steps, random}; run to empty and '
        'well past it. Coverage-audit block: options explicit / defaulted (keep_complete_waveforms, seed) / positional / truthy non-bool / NumPy int, `queues` dict, '
        'set_fs(), int / NumPy fs, trial counts as NumPy int / float and up to 12, all source containers, delays None / off-grid / cycles, extend() with scalars / '
        'tuples / ndarrays, true unit-step chunkings, zero-size requests, several requests (NumPy sizes, keywords) after the queue ran out, clone() mid-way. '
        'Non-trivial: at least two stimuli with unequal trial counts or a group size that does not divide n.')
TRUSTED = qc.__doc__ and ['harness/queuecore.py', 'RandomState(seed).shuffle blocks recomputed by the harness (oracle: each is a permutation)']
ASSUMPTIONS = ['automatic decrement (pop_buffer default); no pause', 'trial counts >= 1']
FS = [1000.0, 195312.5]


def cases(tier, rng):
    quick = tier == 'quick'
    nmax = 3 if quick else 4
    for n in range(1, nmax + 1):
        for trials in itertools.product([1, 2, 3], repeat=n):
            for pol in qc.POLICIES:
                gss = range(1, n + 2) if pol == 'grouped' else [0]
                for gs in gss:
                    L = rng.choice([0, 1, 2, 3])
                    stims = [{'len': rng.choice([L, 2, 1]), 'trials': t, 'kind': rng.choice(['array', 'gen']),
                              'delays': rng.choice([0, 1])} for t in trials]
                    total = sum(trials) * 6 * max(n, 2) + 20
                    for ops in ([['pop', total], ['pop', 7]],
                                [['pop', rng.randint(1, 5)] for _ in range(6)] + [['pop', total], ['pop', 3]]):
                        yield {'pol': pol, 'gs': gs, 'stims': stims, 'fs': rng.choice(FS), 't0': 0, 'seed': rng.randint(0, 30), 'ops': ops, 'fill': rng.choice(['append', 'extend', 'mixed'])}
    for _ in range(150 if quick else 3000):
        n = rng.randint(2, 6)
        pol = rng.choice(qc.POLICIES)
        stims = [{'len': rng.randint(0, 6), 'trials': rng.randint(1, 5), 'kind': rng.choice(['array', 'gen', 'cos2']),
                  'delays': rng.choice([0, 0, 2])} for _ in range(n)]
        total = sum(s['trials'] for s in stims) * 9 * n + 30
        ops = [['pop', rng.randint(1, 30)] for _ in range(rng.randint(0, 5))] + [['pop', total], ['pop', 11]]
        yield {'pol': pol, 'gs': rng.randint(1, n + 1), 'stims': stims, 'fs': rng.choice(FS), 't0': rng.choice([0, 9]),
               'seed': rng.randint(0, 99), 'ops': ops, 'fill': rng.choice(['append', 'extend', 'mixed'])}
    yield from _audit_cases(quick, rng)
    # a queue to which NOTHING was appended: every class answers with silence and 'empty' (C03_no_stimuli)
    for pol in qc.POLICIES:
        for ops in ([['pop', 5], ['pop', 3]], [['pop', 0], ['pop', 1]]):
            yield {'pol': pol, 'gs': 2, 'stims': [], 'fs': rng.choice(FS), 't0': rng.choice([0, 9]), 'seed': 1,
                   'ops': ops, 'fill': 'append'}


def _audit_cases(quick, rng):
    """Options, argument kinds and twins the generators above never reached (coverage audit).  Domain as before:
    automatic decrement, trial counts >= 1, no pause."""
    def stims(n, tmax=3, kinds=('array', 'gen'), delays=(0, 1), lens=(0, 1, 2, 3)):
        return [{'len': rng.choice(lens), 'trials': rng.randint(1, tmax), 'kind': rng.choice(kinds),
                 'delays': rng.choice(delays)} for _ in range(n)]

    def finish(st):
        n = len(st)
        return sum(s['trials'] for s in st) * 8 * max(n, 2) + 30

    def base(pol, st, **kw):
        c = {'pol': pol, 'gs': rng.randint(1, len(st) + 1), 'stims': st, 'fs': rng.choice(FS), 't0': rng.choice([0, 9, -4, 2.5]),
             'seed': rng.randint(0, 30), 'fill': rng.choice(['append', 'extend', 'mixed', 'extend_np'])}
        c.update(kw)
        return c
    rep = 2 if quick else 12
    # options: explicit / default / positional / truthy non-bool / NumPy integer; `queues` dict; set_fs(); int fs
    for pol in qc.POLICIES:
        for mk in ({'opt': 'default', 'via': 'dict'}, {'opt': 'pos', 'fs': 'set_fs'}, {'opt': 'truthy', 'fs_kind': 'int'},
                   {'opt': 'np', 'fs_kind': 'np64', 't0': 'skip'}, {'fs': 'pos', 'via': 'dict'}):
            for _ in range(rep):
                st = stims(rng.randint(2, 5))
                st[0]['trials'], st[-1]['trials'] = rng.choice([(1, 3), (3, 1), (2, 3)])   # unequal: the options matter
                c = base(pol, st, mk=mk)
                if mk.get('opt') == 'default':
                    c['seed'] = 0
                if mk.get('fs_kind') == 'int':
                    c['fs'] = 1000.0
                if mk.get('t0') == 'skip':
                    c['t0'] = 0
                yield dict(c, ops=[['pop', rng.randint(1, 9)], ['pop', finish(st)], ['pop', 4]])
    # trial counts as NumPy integers / floats; larger counts; sources of every container kind; every kind of delay
    for pol in qc.POLICIES:
        for _ in range(rep):
            tk = rng.choice(['np', 'float', 'npf'])
            st = [dict(x, tkind=tk) for x in stims(rng.randint(2, 4), tmax=rng.choice([3, 12]))]
            yield dict(base(pol, st), ops=[['pop', rng.randint(1, 9), 'np'], ['pop', finish(st)], ['pop', 4]])
            st = stims(rng.randint(2, 4), kinds=('i64', 'f32', 'ro', 'view', 'list', 'cos2', 'i16'))
            yield dict(base(pol, st), ops=[['pop', rng.randint(1, 9)], ['pop', finish(st), 'kw'], ['pop', 4]])
            st = stims(rng.randint(2, 4), delays=(None, 0.0, 0.4, 1.5, 2.5))
            for x in st:
                x['dkind'] = rng.choice(['auto', 'np', 'int0'])
                if rng.random() < 0.4:
                    x['delays'] = [rng.choice([0, 1, 0.6]) for _ in range(rng.randint(1, 3))]
                    x['dkind'] = 'cycle'
            yield dict(base(pol, st), ops=[['pop', rng.randint(1, 9)], ['pop', finish(st) * 2], ['pop', 4]])
    # extend() with one scalar trial count / delay for all sources
    for pol in qc.POLICIES:
        for _ in range(rep):
            t, d = rng.randint(1, 3), rng.choice([None, 0, 1])
            st = [dict(x, trials=t, delays=d) for x in stims(rng.randint(1, 5))]
            yield dict(base(pol, st, fill='extend_scalar'), ops=[['pop', rng.randint(1, 9)], ['pop', finish(st)], ['pop', 4]])
    # chunkings: true unit steps, zero-size requests anywhere, many requests after the queue ran out
    for pol in qc.POLICIES:
        for _ in range(rep):
            st = stims(rng.randint(2, 3), tmax=2, lens=(1, 2), delays=(0, 1))
            yield dict(base(pol, st), ops=[['pop', 1]] * (finish(st) // 3) + [['pop', 0], ['pop', 1], ['pop', 2, 'np'], ['pop', 0], ['pop', 5]])
            st = stims(rng.randint(2, 5))
            ops = [['pop', rng.choice([0, 1, 2, 7])] for _ in range(5)] + [['pop', finish(st)]] + \
                  [['pop', rng.choice([0, 1, 3, 10]), rng.choice(['', 'np', 'kw'])] for _ in range(4)] + [['pop', 2]]
            yield dict(base(pol, st), ops=ops)
    # a clone taken at any moment completes the same presentation (its original running on next to it)
    for pol in qc.POLICIES:
        for _ in range(rep):
            st = stims(rng.randint(2, 4))
            pre = [['pop', rng.randint(1, 12)] for _ in range(rng.randint(0, 2))]
            yield dict(base(pol, st), ops=pre + [['clone'], ['pop', rng.randint(1, 5)], ['pop', finish(st)], ['pop', 3]])


def impl(case):
    return qc.run_impl(case)


def _tests(args, case):
    from vlib import zlist
    ns = [o[1] for o in case['ops']]
    if ns[-1] < 1:
        return [f"order_test {args} {zlist(ns)}", f"timeline_test {args} {zlist(ns)}"]
    return [f"order_test {args} {zlist(ns)}", f"timeline_test {args} {zlist(ns)}",
            f"after_empty_test {args} {zlist(ns[:-1])} {ns[-1]}"]


def expr(case, res):
    e, n = qc.coq_expr(case, res, _tests)
    case['_ntests'] = n
    return e


def agree(case, res, mo):
    return qc.compare(case, res, mo, case.get('_ntests', 0))


def nontrivial(case, res):
    tr = [s['trials'] for s in case['stims']]
    return len(tr) >= 2 and (len(set(tr)) > 1 or (case['pol'] == 'grouped' and len(tr) % max(case['gs'], 1) != 0))


def oracle(case, res):
    pol = case['pol']
    req = [s['trials'] for s in case['stims']]
    n = len(req)
    for r in res:
        if 'raised' in r:
            return f'pop_buffer raised {r["raised"]}'
    keys = [e[1] for r in res for e in r['events'] if e[0] == 'added']
    if any(not e[6] for r in res for e in r['events'] if e[0] == 'added'):
        return 'a trial was set up without automatic decrement'
    counts = [keys.count(k) for k in range(n)]
    last = [r for r in res if 'status' in r][-1]['status']
    if not last['empty']:
        return None if pol == 'random' and False else 'queue did not report empty after more than enough samples'
    # counts
    if pol in qc.EXACT:
        if counts != req:
            return f'presented {counts}, requested {req}'
    else:
        if any(c < r for c, r in zip(counts, req)):
            return f'presented {counts}, fewer than requested {req}'
        # first moment: before the last presentation some stimulus was still unsatisfied
        before = [keys[:-1].count(k) for k in range(n)]
        if keys and all(b >= r for b, r in zip(before, req)):
            return f'kept presenting after every stimulus was satisfied: {keys}'
    # order
    ref = qc.reference_order(case)
    if pol in ('fifo', 'inter_keep', 'inter_nokeep', 'blocked_random'):
        if keys != ref:
            return f'order {keys} is not the policy order {ref}'
    elif pol in ('grouped', 'blocked_fifo'):
        gs = n if pol == 'blocked_fifo' else case['gs']
        grp = [k // gs for k in keys]
        if grp != sorted(grp):
            return f'a group started before the previous one finished: {keys} (group size {gs})'
        for g in set(grp):
            members = [k for k in range(n) if k // gs == g]
            sub = [k for k in keys if k // gs == g]
            bef = [sub[:-1].count(k) for k in members]
            if all(b >= req[k] for b, k in zip(bef, members)):
                return f'group {g} kept going after all its stimuli were satisfied: {sub}'
    if pol == 'blocked_random':
        perms = qc.blocked_perms(case.get('seed', 0), n, 4)
        if any(sorted(p) != list(range(n)) for p in perms):
            return 'shuffle block is not a permutation'
    # afterwards: only zeros, nothing remaining, requested unchanged, empty notification
    if last['count'] != 0 or any(x > 0 for x in last['remaining']):
        return f'trials remain after empty: {last}'
    if last['requested'] != sum(req):
        return f'requested total changed: {last["requested"]} != {sum(req)}'
    first = next(i for i, r in enumerate(res) if 'status' in r and r['status']['empty'])
    if not [e for e in res[first]['events'] if e[0] == 'empty']:
        return 'the queue reports empty without an empty notification'
    for i in range(first + 1, len(res)):
        r, o = res[i], case['ops'][i]
        if o[0] != 'pop':
            continue
        st = r['status']
        if not st['empty'] or st['count'] != 0 or any(x > 0 for x in st['remaining']) or st['requested'] != sum(req):
            return f'after the queue reported empty, request {i}: {st}'
        if any(v != 0 for v in r['wave']) or [e for e in r['events'] if e[0] != 'empty'] or len(r['wave']) != o[1]:
            return 'output after the queue reported empty is not pure silence'
        if o[1] > 0 and not [e for e in r['events'] if e[0] == 'empty']:
            return 'no empty notification for a request made after the queue ran out'
    return None


def distribution(cases, results):
    d = {}
    for c in cases:
        k = c['pol'] + (f":gs{c['gs']}/{len(c['stims'])}" if c['pol'] == 'grouped' else '')
        d[k] = d.get(k, 0) + 1
    return d


# ====================================================================================================================
# Translator tie (appended; nothing above is changed): the same regenerated file as harness/C02.py - coq/gen/QueueStepGen.v,
# one Gallina definition per method of the generation path of psiaudio/queue.py (translate/pyqueue2coq.py) - is rebuilt
# here, so that the theorems C03_source_* of coq/Props/C03.v (coq/Queue/ProofsTieC03.v: a run of the GENERATED pop_buffer
# is the model's run, hence C03_policy_order / C03_after_empty hold of it) are re-checked against what the source says now.
import C02 as _C02

TRUSTED = list(TRUSTED) + [t for t in _C02.TRUSTED if t.startswith(('translate/pyqueue2coq.py', 'coq/Queue/TieLib.v'))]


def translate(repo):
    """regenerate coq/gen/QueueStepGen.v from the source under test (see harness/C02.py translate)"""
    return _C02.translate(repo)
