(* GENERATED on every run by harness/C11.py translate() with translate/pypdata2coq.py from
   /repo/psiaudio/pipeline.py - do not edit.  Vocabulary: coq/PData/TieLib.v.  Tie theorems: coq/PData/ProofsTie.v. *)
From PV Require Import PData.TieLib PData.TieLibConcat.
Open Scope Z_scope.

(* pipeline.normalize_index, line 18 *)
Definition gen_normalize_index (index' : pyval) (ndim' : Z) : gres (pyval) :=
if (py_is_none index')
 then GOk (PTuple ([PNone] ++ (rep_range pfull ndim')))
 else if (py_is_ellipsis index')
 then GOk (PTuple (rep_range pfull ndim'))
 else gbind (if (isinst_npinteger index')
 then gbind (py_int index') (fun tmp1 =>
let index' := tmp1 in
GOk index')
 else GOk index') (fun index' =>
if (isinst_slice index' || isinst_int index')
 then GOk (PTuple ([index'] ++ (rep_range pfull (ndim' - 1))))
 else gbind (gand (GOk (isinst_ndarray index')) (gand (gbind (py_dtype_is_bool index') (fun tmp2 =>
GOk tmp2)) (gand (gbind (py_size index') (fun tmp3 =>
GOk (negb (tmp3 =? 0)))) (gbind (py_all index') (fun tmp4 =>
GOk tmp4))))) (fun tmp5 =>
if tmp5
 then GOk (PTuple (rep_range pfull ndim'))
 else gbind (if (isinst_ndarray index')
 then gbind (py_ndim index') (fun tmp6 =>
if (tmp6 >? 1)
 then GRaise EIndex
 else gbind (py_tolist index') (fun tmp7 =>
let index' := tmp7 in
GOk index'))
 else GOk index') (fun index' =>
gbind (if (isinst_list index')
 then let index' := (PTuple [index']) in
GOk index'
 else GOk index') (fun index' =>
gbind (py_iter index') (fun tmp8 =>
let n_ellipsis' := (countb (fun i' => (py_is_ellipsis i')) tmp8) in
if (n_ellipsis' >? 1)
 then GRaise EIndex
 else gbind (py_iter index') (fun tmp9 =>
let ndim' := (ndim' + (countb (fun i' => (py_is_none i')) tmp9)) in
let norm_index' := [] in
gbind (py_iter index') (fun tmp15 =>
gbind (gfold (fun i' norm_index' =>
gbind (gand (GOk (isinst_ndarray i')) (gbind (py_ndim i') (fun tmp10 =>
GOk (tmp10 =? 1)))) (fun tmp11 =>
gbind (if tmp11
 then gbind (py_tolist i') (fun tmp12 =>
let i' := tmp12 in
GOk i')
 else GOk i') (fun i' =>
gbind (if (isinst_npinteger i')
 then gbind (py_int i') (fun tmp13 =>
let i' := tmp13 in
GOk i')
 else GOk i') (fun i' =>
gbind (if (isinst_slice i' || isinst_int i' || isinst_list i')
 then let norm_index' := (norm_index' ++ [i']) in
GOk norm_index'
 else gbind (if (py_is_none i')
 then let norm_index' := (norm_index' ++ [PNone]) in
GOk norm_index'
 else if (py_is_ellipsis i')
 then gbind (py_len index') (fun tmp14 =>
gbind (giter ((ndim' - tmp14) + 1) (fun norm_index' =>
let norm_index' := (norm_index' ++ [pfull]) in
GOk norm_index') norm_index') (fun norm_index' =>
GOk norm_index'))
 else GRaise EValue) (fun norm_index' =>
GOk norm_index')) (fun norm_index' =>
GOk norm_index'))))) tmp15 norm_index') (fun norm_index' =>
gbind (giter (ndim' - (zlen norm_index')) (fun norm_index' =>
let norm_index' := (norm_index' ++ [pfull]) in
GOk norm_index') norm_index') (fun norm_index' =>
GOk (PTuple norm_index')))))))))).

(* pipeline.PipelineData.__getitem__, line 134 *)
Definition gen_getitem (self' : pd) (s' : pyval) : gres (pyobj) :=
gbind (np_super_getitem self' s') (fun obj' =>
if (isinst_PipelineData s')
 then GOk obj'
 else match obj' with
| OScal _ => GOk obj'
| OArr obj' =>
gbind (gen_normalize_index s' (ndim self')) (fun tmp1 =>
let s' := tmp1 in
gbind (gbind (py_len s') (fun tmp2 =>
if (tmp2 =? 1)
 then let epoch_slice' := PSkip in
let channel_slice' := PSkip in
gbind (py_unpack1 s') (fun time_slice' =>
GOk (epoch_slice', channel_slice', time_slice'))
 else gbind (py_len s') (fun tmp3 =>
if (tmp3 =? 2)
 then let epoch_slice' := PSkip in
gbind (py_unpack2 s') (fun '(channel_slice', time_slice') =>
GOk (epoch_slice', channel_slice', time_slice'))
 else gbind (py_len s') (fun tmp4 =>
if (tmp4 =? 3)
 then gbind (py_unpack3 s') (fun '(epoch_slice', channel_slice', time_slice') =>
GOk (epoch_slice', channel_slice', time_slice'))
 else GRaise EUnbound)))) (fun '(epoch_slice', channel_slice', time_slice') =>
if (isinst_int time_slice')
 then GRaise ENotImpl
 else if (py_is_none time_slice')
 then GRaise EIndex
 else gbind (if (isinst_list time_slice')
 then gbind (py_all_true_bools time_slice') (fun tmp5 =>
if (negb tmp5)
 then GRaise EValue
 else GOk obj')
 else gbind (py_attr_start time_slice') (fun tmp6 =>
gbind (if (is_some tmp6)
 then gbind (py_attr_start time_slice') (fun tmp7 =>
gbind (py_optz tmp7) (fun tmp8 =>
gbind (if (tmp8 >? 0)
 then gbind (py_attr_start time_slice') (fun tmp9 =>
gbind (py_optz tmp9) (fun tmp10 =>
let obj' := set_s0 obj' (s0 obj' + (Z.min tmp10 (n_time self'))) in
GOk obj'))
 else gbind (py_attr_start time_slice') (fun tmp11 =>
gbind (py_optz tmp11) (fun tmp12 =>
gbind (if (tmp12 <? 0)
 then gbind (py_attr_start time_slice') (fun tmp13 =>
gbind (py_optz tmp13) (fun tmp14 =>
let obj' := set_s0 obj' ((s0 self') + (Z.max ((n_time self') + tmp14) 0)) in
GOk obj'))
 else GOk obj') (fun obj' =>
GOk obj')))) (fun obj' =>
GOk obj')))
 else GOk obj') (fun obj' =>
gbind (py_attr_step time_slice') (fun tmp15 =>
gbind (if (is_some tmp15)
 then gbind (py_attr_step time_slice') (fun tmp16 =>
gbind (py_optz tmp16) (fun tmp17 =>
let obj' := set_fs obj' (rate_div (pd_fs obj') tmp17) in
GOk obj'))
 else GOk obj') (fun obj' =>
GOk obj'))))) (fun obj' =>
gbind (if (py_is_none channel_slice')
 then gbind (if (negb (lab_is_list (chan obj')))
 then gbind (lab_wrap (chan obj')) (fun tmp18 =>
let obj' := set_chan obj' tmp18 in
GOk obj')
 else gbind (lab_len (chan obj')) (fun tmp19 =>
if (negb (tmp19 =? 1))
 then GRaise EValue
 else GOk obj')) (fun obj' =>
GOk obj')
 else gbind (if (negb (py_is_skip channel_slice'))
 then gbind (if (isinst_list channel_slice')
 then gbind (lab_len (chan obj')) (fun tmp20 =>
gbind (np_arange_getitem tmp20 channel_slice') (fun tmp21 =>
let index' := tmp21 in
gbind (lab_getitems (chan obj') index') (fun tmp22 =>
let obj' := set_chan obj' tmp22 in
GOk obj')))
 else if (isinst_int channel_slice' || isinst_slice channel_slice')
 then gbind (lab_getitem (chan obj') channel_slice') (fun tmp23 =>
let obj' := set_chan obj' tmp23 in
GOk obj')
 else GRaise EValue) (fun obj' =>
GOk obj')
 else GOk obj') (fun obj' =>
GOk obj')) (fun obj' =>
gbind (if (py_is_none epoch_slice')
 then gbind (if (negb (lab_is_list (meta obj')))
 then gbind (lab_wrap (meta obj')) (fun tmp24 =>
let obj' := set_meta obj' tmp24 in
GOk obj')
 else gbind (lab_len (meta obj')) (fun tmp25 =>
if (negb (tmp25 =? 1))
 then GRaise EValue
 else GOk obj')) (fun obj' =>
GOk obj')
 else gbind (if (negb (py_is_skip epoch_slice'))
 then gbind (if (isinst_list epoch_slice')
 then gbind (np_array_getitem_tolist (meta obj') epoch_slice') (fun tmp26 =>
let obj' := set_meta obj' tmp26 in
GOk obj')
 else if (isinst_int epoch_slice' || isinst_slice epoch_slice')
 then gbind (lab_getitem (meta obj') epoch_slice') (fun tmp27 =>
let obj' := set_meta obj' tmp27 in
GOk obj')
 else GRaise EValue) (fun obj' =>
GOk obj')
 else GOk obj') (fun obj' =>
GOk obj')) (fun obj' =>
GOk (OArr obj'))))))
end).

(* pipeline.ensure_dim, line 255 *)
Definition gen_ensure_dim (arrays' : list pd) (dim' : cdim) : gres (list pd) :=
gbind (list_hd arrays') (fun tmp1 =>
let ndim' := (ndim tmp1) in
gbind (if ((cdim_eqb dim' DChan) && (ndim' =? 1))
 then let s' := (PTuple [PNone; pfull]) in
GOk s'
 else gbind (if ((cdim_eqb dim' DEpoch) && (ndim' =? 1))
 then let s' := (PTuple [PNone; PNone; pfull]) in
GOk s'
 else gbind (if ((cdim_eqb dim' DEpoch) && (ndim' =? 2))
 then let s' := (PTuple [PNone; pfull; pfull]) in
GOk s'
 else let s' := pfull in
GOk s') (fun s' =>
GOk s')) (fun s' =>
GOk s')) (fun s' =>
gbind (gmap (fun a' =>
gbind (gbind (gen_getitem a' s') obj_as_pd) (fun tmp2 =>
GOk tmp2)) arrays') (fun tmp3 =>
GOk tmp3))).

(* pipeline.concat, line 286 *)
Definition gen_concat (arrays' : list pd) (axis' : pyaxis) : gres (pyobj) :=
gbind (py_dim_axis axis') (fun dim' =>
if negb (existsb (fun _ : pd => true) arrays')
 then np_concatenate_none arrays'
 else if negb (forallb (fun _ : pd => true) arrays')
 then GRaise EValue
 else gbind (gen_ensure_dim arrays' dim') (fun tmp1 =>
let arrays' := tmp1 in
gbind (list_hd arrays') (fun tmp2 =>
let base_arr' := tmp2 in
gbind (gfold (fun a' _ =>
if (negb ((ndim a') =? (ndim base_arr')))
 then GRaise EValue
 else GOk tt) (tl arrays') tt) (fun _ =>
let fs' := (pd_fs base_arr') in
gbind (gfold (fun a' _ =>
if (negb (rate_eqb (pd_fs a') (pd_fs base_arr')))
 then GRaise EValue
 else GOk tt) (tl arrays') tt) (fun _ =>
let s0' := (s0 base_arr') in
gbind (if (cdim_eqb dim' DTime)
 then gbind (list_hd arrays') (fun tmp3 =>
let current_s0' := (s0' + (n_time tmp3)) in
gbind (gfold (fun a' current_s0' =>
if (negb ((s0 a') =? current_s0'))
 then GRaise EValue
 else let current_s0' := (current_s0' + (n_time a')) in
GOk current_s0') (tl arrays') current_s0') (fun current_s0' =>
GOk tt))
 else GOk tt) (fun _ =>
gbind (if (negb (cdim_eqb dim' DChan))
 then let channel' := (chan base_arr') in
gbind (gfold (fun a' _ =>
if (negb (eqb_lab (chan a') channel'))
 then GRaise EValue
 else GOk tt) (tl arrays') tt) (fun _ =>
GOk channel')
 else gbind (labs_concat (map (fun array' => chan array') arrays')) (fun tmp4 =>
let channel' := tmp4 in
GOk channel')) (fun channel' =>
gbind (if (negb (cdim_eqb dim' DEpoch))
 then let metadata' := (meta base_arr') in
gbind (gfold (fun a' _ =>
if (negb (eqb_lab (meta a') metadata'))
 then GRaise EValue
 else GOk tt) (tl arrays') tt) (fun _ =>
GOk metadata')
 else let metadata' := LMany [] in
gbind (gfold (fun a' metadata' =>
gbind (if ((ndim a') >=? 3)
 then gbind (lab_extend metadata' (meta a')) (fun tmp5 =>
let metadata' := tmp5 in
GOk metadata')
 else gbind (lab_append metadata' (meta a')) (fun tmp6 =>
let metadata' := tmp6 in
GOk metadata')) (fun metadata' =>
GOk metadata')) arrays' metadata') (fun metadata' =>
GOk metadata')) (fun metadata' =>
gbind (np_concatenate_pd dim' arrays') (fun result' =>
pd_construct result' fs' s0' channel' metadata'))))))))).
