(* GENERATED on every run by translate/pyreject2coq.py from /repo/psiaudio/pipeline.py
   (coroutine reject_epochs, lines 1395-1457; PipelineData.n_channels / n_epochs) - do not edit.
   Vocabulary: coq/Reject/NumpyPrims.v.  Tie theorems: coq/Reject/ProofsTie.v.
   pinned expression `np.asarray(data, dtype=np.double)` -> np_asarray_double data
   pinned statement `if isinstance(valid_data, PipelineData): ...` dropped: metadata entries are identities in the model
   pinned string 'absolute value' -> MAbs
   pinned string 'amplitude' -> MPtp
*)
From Coq Require Import ZArith List Bool.
From PV Require Import Reject.Model Reject.NumpyPrims.
Import ListNotations.
Open Scope Z_scope.

(* PipelineData.n_channels, line 101 *)
Definition PipelineData_n_channels (self : pd) : M (Z) :=
bind (if ((pd_ndim self) =? 1) then ret 1 else bind (pd_shape_at self (-2)) (fun t1 =>
ret t1)) (fun t2 =>
ret t2).

(* PipelineData.n_epochs, line 105 *)
Definition PipelineData_n_epochs (self : pd) : M (option Z) :=
if ((pd_ndim self) <? 3)
then ret None
else bind (pd_shape_at self (-3)) (fun t1 =>
ret (Some t1)).

(* the set-up names of the coroutine the loop body reads: they live from one send to the next *)
Record re_state := mk_re_state { re_status_cb : bool; re_accept : option (arr3 -> Z -> arr2b); re_th_cb : thunk }.

(* reject_epochs, lines 1395-1457: the statements before `while True:` *)
Definition reject_epochs_init (reject_threshold : thr) (mode_ : option mode) (status_cb : bool) : M re_state :=
bind (if (py_str_eq mode_ MAbs)
then let accept := (fun (s : arr3) (th : Z) => (np_lt_s (np_max_last (np_abs s)) th)) in
ret (Some accept)
else bind (if (py_str_eq mode_ MPtp)
then let accept := (fun (s : arr3) (th : Z) => (np_lt_s (np_ptp_last s) th)) in
ret (Some accept)
else ret None) (fun accept =>
ret accept)) (fun accept =>
bind (if (negb (py_callable reject_threshold))
then let th_cb := (ThLambda reject_threshold) in
ret th_cb
else let th_cb := (ThSame reject_threshold) in
ret th_cb) (fun th_cb =>
ret (mk_re_state status_cb accept th_cb))).

(* one `data = (yield)` iteration: the state afterwards and what valid_target / status_cb received *)
Definition reject_epochs_step (st_ : re_state) (data : batch) : M (re_state * out) :=
let status_cb := re_status_cb st_ in
let accept := re_accept st_ in
let th_cb := re_th_cb st_ in
let sent_ : option fwd := None in
let status_ : option (list bool) := None in
bind (match data with
| BAnn data_pd =>
bind (PipelineData_n_channels data_pd) (fun t1 =>
bind (if (negb (t1 =? 1))
then raise EValue
else ret tt) (fun _ =>
bind (PipelineData_n_epochs data_pd) (fun t2 =>
bind (if (py_is_none t2)
then raise EValue
else ret tt) (fun _ =>
ret tt))))
| BPlain _ _ =>
bind (if (negb ((np_ndim data) =? 3))
then raise EValue
else bind (np_shape_at data 1) (fun t3 =>
bind (if (negb (t3 =? 1))
then raise EValue
else ret tt) (fun _ =>
ret tt))) (fun _ =>
ret tt)
end) (fun _ =>
bind (py_call0 th_cb) (fun '(t4, th_cb) =>
let th := t4 in
bind (py_bound accept) (fun t5 =>
bind (np_col0 (t5 (np_asarray_double data) th)) (fun t6 =>
let mask := t6 in
bind (py_getitem_mask data mask) (fun t7 =>
let valid_data := t7 in
let n := (py_len data) in
let n_accept := (py_len_fwd valid_data) in
bind (if (negb ((py_len_fwd valid_data) =? 0))
then let sent_ := Some valid_data in
ret sent_
else ret sent_) (fun sent_ =>
bind (if status_cb
then bind (py_call_cb status_cb mask) (fun status_ =>
ret status_)
else ret status_) (fun status_ =>
ret (mk_re_state status_cb accept th_cb, OOut sent_ (py_status status_))))))))).

(* the coroutine created with these arguments and driven by send() over the batches *)
Definition reject_epochs_run (reject_threshold : thr) (mode_ : option mode) (status_cb : bool) (bs : list batch) : M (list out) :=
bind (reject_epochs_init reject_threshold mode_ status_cb) (fun st_ =>
ret (coroutine_run reject_epochs_step (Some st_) bs)).
