(* GENERATED on every run by harness/C07.py translate() with translate/pyexpr2coq.py from
   /repo/psiaudio/util.py and /repo/psiaudio/calibration.py - do not edit.
   sens = self.get_sens(frequency); interp = self._interp(frequency); constructors: the `sensitivity` they pass on. *)
From Coq Require Import Reals.
From PV Require Import Calib.RBase.
Open Scope R_scope.

(* psiaudio/util.py:47  db *)
Definition util_db (target reference : R) : R :=
  (Rmult 20 (log10 (Rdiv target reference))).
(* psiaudio/util.py:54  dbi *)
Definition util_dbi (db reference : R) : R :=
  (Rmult (pow10 (Rdiv db 20)) reference).
(* psiaudio/util.py:83  patodb *)
Definition util_patodb (pa : R) : R :=
  (util_db pa (Rdiv 1 50000)).
(* psiaudio/util.py:59  dbtopa *)
Definition util_dbtopa (db : R) : R :=
  (util_dbi db (Rdiv 1 50000)).
(* psiaudio/calibration.py:83  BaseCalibration._get_db *)
Definition cal_get_db (sens voltage : R) : R :=
  (Rplus (util_db voltage 1) sens).
(* psiaudio/calibration.py:120  BaseCalibration.get_sf *)
Definition cal_get_sf (sens level attenuation : R) : R :=
  (pow10 (Rdiv (Rplus (Rminus level sens) attenuation) 20)).
(* psiaudio/calibration.py:132  BaseCalibration.get_attenuation *)
Definition cal_get_attenuation (sens voltage level : R) : R :=
  (Rminus (cal_get_db sens voltage) level).
(* psiaudio/calibration.py:135  BaseCalibration.get_gain *)
Definition cal_get_gain (sens level attenuation : R) : R :=
  (util_db (cal_get_sf sens level attenuation) 1).
(* psiaudio/calibration.py:235  FlatCalibration.get_sens *)
Definition flat_get_sens (sensitivity fixed_gain : R) : R :=
  (Rminus sensitivity fixed_gain).
(* psiaudio/calibration.py:332  InterpCalibration.get_sens *)
Definition interp_get_sens (interp fixed_gain : R) : R :=
  (Rminus interp fixed_gain).
(* psiaudio/calibration.py:241  FlatCalibration.get_mean_sf *)
Definition flat_get_mean_sf (sens spl attenuation : R) : R :=
  (cal_get_sf sens spl attenuation).
(* psiaudio/calibration.py:228  FlatCalibration.get_level *)
Definition flat_get_level (sens voltage : R) : R :=
  (Rmult voltage (util_dbi sens 1)).
(* psiaudio/calibration.py:152  FlatCalibration.unity *)
Definition flat_unity : R :=
  0.
(* psiaudio/calibration.py:166  FlatCalibration.from_pascals *)
Definition flat_from_pascals (magnitude vrms : R) : R :=
  (Rminus (Rminus (util_db magnitude 1) (util_db (Rdiv 1 50000) 1)) (util_db vrms 1)).
(* psiaudio/calibration.py:186  FlatCalibration.from_db *)
Definition flat_from_db (level vrms : R) : R :=
  (Rminus level (util_db vrms 1)).
(* psiaudio/calibration.py:219  FlatCalibration.from_spl *)
Definition flat_from_spl (spl vrms : R) : R :=
  (Rminus spl (util_db vrms 1)).
(* psiaudio/calibration.py:215  FlatCalibration.as_attenuation *)
Definition flat_as_attenuation (vrms : R) : R :=
  (flat_from_db 0 vrms).
(* psiaudio/calibration.py:204  FlatCalibration.from_mv_pa *)
Definition flat_from_mv_pa (mv_pa : R) : R :=
  (Rminus (util_db (Rdiv 1 (Rmult mv_pa (Rdiv 1 1000))) 1) (util_db (Rdiv 1 50000) 1)).
(* psiaudio/calibration.py:211  FlatCalibration.to_mv_pa *)
Definition flat_to_mv_pa (sensitivity : R) : R :=
  (Rdiv 1000 (util_dbi (Rplus sensitivity (util_db (Rdiv 1 50000) 1)) 1)).
(* psiaudio/calibration.py:248  BaseFrequencyCalibration.from_pascals *)
Definition freq_from_pascals (magnitude vrms : R) : R :=
  (Rminus (Rminus (util_db magnitude 1) (util_db (Rdiv 1 50000) 1)) (util_db vrms 1)).
(* psiaudio/calibration.py:268  BaseFrequencyCalibration.from_db *)
Definition freq_from_db (level vrms : R) : R :=
  (Rminus level (util_db vrms 1)).
(* psiaudio/calibration.py:289  BaseFrequencyCalibration.from_spl *)
Definition freq_from_spl (spl vrms : R) : R :=
  (freq_from_db spl vrms).
