(* GENERATED on every run by harness/C07.py translate() with translate/pyexpr2coq.py from
   /tmp/wt-C07-mut/psiaudio/util.py and /tmp/wt-C07-mut/psiaudio/calibration.py - do not edit.
   sens = self.get_sens(frequency); interp = self._interp(frequency); constructors: the `sensitivity` they pass on. *)
(* TRANSLATOR GAP (fail closed): db (line 51): call to a function that is not in the tables: `np.log2(target / reference)` *)
From Coq Require Import Reals.
Definition translator_gap_see_comment_above : R := true.
