(* GENERATED on every run by harness/C07.py translate() with translate/pyexpr2coq.py from
   /tmp/mt-18444-7113/psiaudio/util.py and /tmp/mt-18444-7113/psiaudio/calibration.py - do not edit.
   sens = self.get_sens(frequency); interp = self._interp(frequency); constructors: the `sensitivity` they pass on. *)
From Coq Require Import Reals String.
Definition translator_gap : R :=
  "self-test: emitted interp_get_sens{'interp': -84.0, 'fixed_gain': -81.0} evaluates to -84.0, the real function returns -3.0"%string.
