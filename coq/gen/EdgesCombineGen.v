(* GENERATED on every run by harness/C13.py translate() with translate/pycombine2coq.py from
   /repo/psiaudio/pipeline.py - do not edit.  Vocabulary: coq/Edges/TiePrimsCombine.v.  Tie theorems: coq/Edges/ProofsTieCombine.v. *)
From PV Require Import Common.ListX Common.PySlice Edges.Model Edges.TiePrims Edges.TiePrimsCombine.
Open Scope Z_scope.

(* pipeline.combine_events, line 444 *)
(* the body of `for ed in events[1:]:` (line 446); inr = it raises *)
Definition gen_combine_events_for1 (events_ : list events) (s0 : Z) (ed : events) : Z + exn :=
if (negb ((e_start ed) =? s0))
 then inr EAlign
 else let s0 := (e_end ed) in
rbind (py_item events_ 0) (fun t'2 =>
if (negb ((e_fs ed) =? (e_fs t'2)))
 then inr EFs
 else inl s0).
Definition gen_combine_events (events_ : list events) : events + exn :=
rbind (py_item events_ 0) (fun t'1 =>
let s0 := (e_end t'1) in
rbind (fold_res (gen_combine_events_for1 events_) (py_slice (Some 1) None events_) s0) (fun s0 =>
rbind (py_item events_ 0) (fun t'3 =>
rbind (py_item events_ (-1)) (fun t'4 =>
rbind (py_item events_ 0) (fun t'5 =>
inl (mk_events (df_concat events_) (e_start t'3) (e_end t'4) (e_fs t'5))))))).
