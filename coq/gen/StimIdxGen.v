(* GENERATED on every run by translate/pystim2coq.py (hook of harness/C01.py, harness/C09.py) from
   /tmp/mt-19285-20334/psiaudio/stim.py - do not edit.  Index bookkeeping of: envelope, GateFactory.__init__, GateFactory.next, GateFactory.n_samples_remaining, GateFactory.n_samples, GateFactory.is_complete, EnvelopeFactory.next, FixedWaveform.next, FixedWaveform.n_samples_remaining, FixedWaveform.n_samples, FixedWaveform.is_complete, SquareWaveFactory.next, _sam_envelope.
   nid = symbolic id of the node; i_env_lb / i_duration / i_rise_time / D / start_samples / duration_samples = the
   pinned float conversions; token = what the input factory hands out. *)
From Coq Require Import ZArith String.
Definition translator_gap : Z :=
  "GateFactory.next line 219: unsupported expression: `lb >= samples or ub <= 0`"%string.
