(* GENERATED on every run by translate/pystim2coq.py (hook of harness/C01.py, harness/C09.py) from
   /repo/psiaudio/stim.py - do not edit.  Index bookkeeping of: envelope, GateFactory.__init__, GateFactory.next, GateFactory.n_samples_remaining, GateFactory.n_samples, GateFactory.is_complete, EnvelopeFactory.next, FixedWaveform.next, FixedWaveform.n_samples_remaining, FixedWaveform.n_samples, FixedWaveform.is_complete, SquareWaveFactory.next, _sam_envelope, repeat, RepeatFactory.reset, Transform.next, Transform.reset.
   nid = symbolic id of the node; i_env_lb / i_duration / i_rise_time / D / start_samples / duration_samples = the
   pinned float conversions; token = what the input factory hands out. *)
From PV Require Import Common.PySlice Stim.Model.
Open Scope Z_scope.

(* 2-D NumPy primitives of repeat(), for in-range non-negative bounds with hi - lo = len v (otherwise NumPy raises):
   np.zeros((r, c)); rows[r0:, lo:hi] = v (v broadcast over the rows); rows.ravel() *)
Definition np_zeros2 {A} (z : A) (r c : Z) : list (list A) := zrepeat (zrepeat z c) r.
Definition np_set_rows {A} (r0 lo hi : Z) (v : list A) (rows : list (list A)) : list (list A) :=
  firstn (Z.to_nat r0) rows
  ++ map (fun row => firstn (Z.to_nat lo) row ++ v ++ skipn (Z.to_nat hi) row) (skipn (Z.to_nat r0) rows).
Definition np_ravel {A} (rows : list (list A)) : list A := concat rows.

Record gate_st := { gate_start_samples : Z; gate_duration_samples : Z; gate_total_samples : Z; gate_offset : Z }.
Record fixed_st := { fixed_waveform : list sample; fixed_offset : Z }.
Record xform_st := { xform_offset : Z }.
Record square_st := { square_nid : Z; square_cycle_samples : Z; square_on_samples : Z; square_offset : Z }.

Definition gen_envelope_get_i (offset i_start : Z) : Z :=
  (Z.max (offset - i_start) 0).

Definition gen_envelope_get_n (i_max offset i_start max_n : Z) : Z :=
  (np_clip (i_max - (offset - i_start)) 0 (Z.min i_max max_n)).

Definition gen_envelope (nid : Z) (i_env_lb : Z) (i_duration : Z) (i_rise_time : Z) (offset : Z) (samples : option Z) : option (list factor) :=
  let i_env_ub := (i_env_lb + i_duration) in
  let samples := match samples with Some v_ => v_ | None => (i_env_lb + i_duration) end in
  if (i_duration <? (i_rise_time * 2)) then None
  else (let ramp := (zrange (fun j => (2, nid, j)) 0 (2 * i_rise_time)) in
    let n_ss_max := (i_duration - (2 * i_rise_time)) in
    let n_null_pre := (gen_envelope_get_n i_env_lb offset 0 samples) in
    let samples := (samples - n_null_pre) in
    let i_onset := (gen_envelope_get_i offset i_env_lb) in
    let n_onset := (gen_envelope_get_n i_rise_time offset i_env_lb samples) in
    let samples := (samples - n_onset) in
    let n_ss := (gen_envelope_get_n n_ss_max offset (i_env_lb + i_rise_time) samples) in
    let samples := (samples - n_ss) in
    let i_offset := (gen_envelope_get_i offset (i_env_ub - i_rise_time)) in
    let n_offset := (gen_envelope_get_n i_rise_time offset (i_env_ub - i_rise_time) samples) in
    let samples := (samples - n_offset) in
    let n_null_post := samples in
    let env := ((zrepeat fzero n_null_pre) ++ (py_slice (Some i_onset) (Some (i_onset + n_onset)) ramp) ++ (zrepeat fone n_ss) ++ (py_slice (Some (i_rise_time + i_offset)) (Some ((i_rise_time + i_offset) + n_offset)) ramp) ++ (zrepeat fzero n_null_post)) in
    Some env).

Definition gen_gate_init (start_samples : Z) (duration_samples : Z) : gate_st :=
  let self := ({| gate_start_samples := 0; gate_duration_samples := 0; gate_total_samples := 0; gate_offset := 0 |}) in
  let self := {| gate_start_samples := start_samples; gate_duration_samples := gate_duration_samples self; gate_total_samples := gate_total_samples self; gate_offset := gate_offset self |} in
  let self := {| gate_start_samples := gate_start_samples self; gate_duration_samples := duration_samples; gate_total_samples := gate_total_samples self; gate_offset := gate_offset self |} in
  let self := {| gate_start_samples := gate_start_samples self; gate_duration_samples := gate_duration_samples self; gate_total_samples := ((gate_start_samples self) + (gate_duration_samples self)); gate_offset := gate_offset self |} in
  let self := {| gate_start_samples := gate_start_samples self; gate_duration_samples := gate_duration_samples self; gate_total_samples := gate_total_samples self; gate_offset := 0 |} in
  self.

Definition gen_gate_next (self : gate_st) (samples : Z) (token : list sample) : gate_st * list sample :=
  let samples := samples in
  let lb := ((gate_start_samples self) - (gate_offset self)) in
  let ub := (lb + (gate_duration_samples self)) in
  let token := if (lb >=? 0) then (let token := (py_set_const None (Some lb) szero token) in
    token)
  else token in
  let token := (py_set_const (Some (Z.max ub 0)) None szero token) in
  let self := {| gate_start_samples := gate_start_samples self; gate_duration_samples := gate_duration_samples self; gate_total_samples := gate_total_samples self; gate_offset := ((gate_offset self) + samples) |} in
  (self, token).

Definition gen_gate_n_samples_remaining (self : gate_st) : Z :=
  (Z.max ((gate_total_samples self) - (gate_offset self)) 0).

Definition gen_gate_n_samples (self : gate_st) : Z :=
  (gate_total_samples self).

Definition gen_gate_is_complete (self : gate_st) : bool :=
  ((gate_offset self) >=? (gate_total_samples self)).

Definition gen_env_next (nid : Z) (i_rise_time : Z) (self : gate_st) (samples : Z) (token : list sample) : option (gate_st * list sample) :=
  let samples := samples in
  match (gen_envelope nid (gate_start_samples self) (gate_duration_samples self) i_rise_time (gate_offset self) (Some samples)) with
  | None => None
  | Some env =>
  match (map2_mul env token) with
  | None => None
  | Some waveform =>
  let self := {| gate_start_samples := gate_start_samples self; gate_duration_samples := gate_duration_samples self; gate_total_samples := gate_total_samples self; gate_offset := ((gate_offset self) + samples) |} in
  Some (self, waveform)
  end
  end.

Definition gen_fixed_next (self : fixed_st) (samples : Z) : fixed_st * list sample :=
  let samples := samples in
  let waveform := (py_slice (Some (fixed_offset self)) (Some ((fixed_offset self) + samples)) (fixed_waveform self)) in
  let waveform_samples := (zlen waveform) in
  let waveform := if (waveform_samples <? samples) then (let padding := (samples - waveform_samples) in
    let pad := (zrepeat szero padding) in
    let waveform := (waveform ++ pad) in
    waveform)
  else (let waveform := waveform in
    waveform) in
  let self := {| fixed_waveform := fixed_waveform self; fixed_offset := ((fixed_offset self) + samples) |} in
  (self, waveform).

Definition gen_fixed_n_samples_remaining (self : fixed_st) : Z :=
  let remaining := ((zlen (fixed_waveform self)) - (fixed_offset self)) in
  (Z.max remaining 0).

Definition gen_fixed_n_samples (self : fixed_st) : Z :=
  (zlen (fixed_waveform self)).

Definition gen_fixed_is_complete (self : fixed_st) : bool :=
  ((fixed_offset self) >=? (zlen (fixed_waveform self))).

Fixpoint gen_square_next_loop (fuel : nat) (self : square_st) (samples : Z) (waveform : list sample) (o : Z) : list sample * Z :=
  match fuel with
  | O => (waveform, o)
  | S fuel =>
    if (o <? samples) then
      let waveform := (py_set_const (Some (Z.max o 0)) (Some (Z.max (o + (square_on_samples self)) 0)) ([(5, square_nid self, 0)]) waveform) in
      let o := (o + (square_cycle_samples self)) in
      gen_square_next_loop fuel self samples waveform o
    else (waveform, o)
  end.

Definition gen_square_next (self : square_st) (samples : Z) : square_st * list sample :=
  let samples := samples in
  let waveform := (zrepeat szero samples) in
  let o := (- ((square_offset self) mod (square_cycle_samples self))) in
  let '(waveform, o) := gen_square_next_loop (Z.to_nat samples + 2)%nat self samples waveform o in
  let self := {| square_nid := square_nid self; square_cycle_samples := square_cycle_samples self; square_on_samples := square_on_samples self; square_offset := ((square_offset self) + samples) |} in
  (self, waveform).

Definition gen_sam_envelope (nid : Z) (D : Z) (offset : Z) (samples : Z) : list factor :=
  let delay_n := (np_clip (D - offset) 0 samples) in
  let delay_n := delay_n in
  let sam_n := (samples - delay_n) in
  let sam_offset := ((offset + delay_n) - D) in
  let sam_envelope := (zrange (fun k => (4, nid, k)) sam_offset sam_n) in
  let delay_envelope := (zrepeat fone delay_n) in
  (delay_envelope ++ sam_envelope).

Definition gen_repeat (s_period : Z) (s_delay : Z) (waveform : list sample) (n : Z) (skip_n : Z) : option (list sample) :=
  let s_waveform := (zlen waveform) in
  if (s_waveform >? (s_period - s_delay)) then None
  else (let result := (np_zeros2 szero (n + skip_n) s_period) in
    let result := (np_set_rows skip_n s_delay (s_delay + s_waveform) waveform result) in
    Some (np_ravel result)).

Definition gen_repeat_reset (s_period : Z) (s_delay : Z) (n : Z) (skip_n : Z) (self : fixed_st) (waveform : list sample) : option (fixed_st) :=
  let self := {| fixed_waveform := fixed_waveform self; fixed_offset := 0 |} in
  match (gen_repeat s_period s_delay waveform n skip_n) with
  | None => None
  | Some v_ =>
  let self := {| fixed_waveform := v_; fixed_offset := fixed_offset self |} in
  Some self
  end.

Definition gen_transform_next (self : xform_st) (samples : Z) (waveform : list sample) (transformed : list sample) : xform_st * list sample :=
  let waveform := transformed in
  let self := {| xform_offset := ((xform_offset self) + (zlen waveform)) |} in
  (self, waveform).

Definition gen_transform_reset (self : xform_st) : xform_st :=
  let self := {| xform_offset := 0 |} in
  self.

