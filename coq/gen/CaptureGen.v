(* GENERATED on every run by translate/pycapture2coq.py from /repo/psiaudio/pipeline.py
   (coroutine capture_epoch, lines 631-711) - do not edit.
   int(round(e)) = e on integers (the harness hands the model the effective integers)
   pinned: `if hasattr(c, 'metadata'): ...` -> dropped
   pinned: `info = info.copy()` -> info := info
   pinned: `log.warning(m, epoch_samples, epoch_s0)` -> dropped
   pinned: `m = 'Missed samples for epoch of %d samples starting at %d'` -> dropped
   pinned: `md = info.pop('metadata', {})` -> md := info
   extract_epochs: statements at lines [809, 810, 811, 812, 824, 831, 840, 841, 842, 874, 881, 899] do not write tlb / prior_samples / buffer_samples / data: not in the slice
   pinned: `buffer_samples = round(buffer_size * fs)`
   pinned: `epoch_coroutine = capture_epoch(t0, epoch_samples, info, epochs.append, fs)` -> epoch_coroutine := (extract_epochs_new_capture t0 epoch_samples (r_rid info))
   pinned: `epoch_samples = round(total_epoch_size * fs)`
   pinned: `epoch_samples = round(total_epoch_size * fs)` -> epoch_samples := (r_n info)
   pinned: `if n_queued or n_invalid: ...`
   pinned: `if n_remove or n_pop: ...`
   pinned: `info['epoch_size'] = epoch_size if epoch_size is not None else info['duration']`
   pinned: `info['poststim_time'] = poststim_time`
   pinned: `info['prestim_time'] = prestim_time`
   pinned: `key = (info['t0'], info.get('key', None))` -> key := (r_key info)
   pinned: `key = (info['t0'], info.get('key', None))` -> key := info
   pinned: `t0 = round((info['t0'] - prestim_time) * fs)`
   pinned: `t0 = round((info['t0'] - prestim_time) * fs)` -> t0 := (r_lo info)
   pinned: `total_epoch_size = info['epoch_size'] + poststim_time + prestim_time`
   pinned: the stacking of the epochs of one send + target(merged) + epochs[:] = [] -> Model.stack_ok kind
*)
From Coq Require Import ZArith List Bool.
From PV Require Import Common.PySlice Extract.Model.
Import ListNotations.
Open Scope Z_scope.

(* what target(...) receives: the joined pieces, or the empty "missed" PipelineData (s0, metadata identity) *)
Inductive ce_out := OTarget (d : list Z) | OMissed (s0 md : Z).

(* the locals of the coroutine that live from one send to the next *)
Record ce_state := mk_ce_state { ce_epoch_s0 : Z; ce_epoch_samples : Z; ce_info : Z; ce_auto_send : bool; ce_accumulated_data : list (list Z); ce_current_s0 : Z; ce_md : Z }.

(* the statements before `while True:` *)
Definition capture_epoch_init (epoch_s0 : Z) (epoch_samples : Z) (info : Z) (auto_send : bool) : ce_state :=
  let accumulated_data := [] in
  let current_s0 := epoch_s0 in
  let info := info in
  let md := info in
  mk_ce_state epoch_s0 epoch_samples info auto_send accumulated_data current_s0 md.

Definition capture_epoch_default_auto_send : bool := false.

(* one `slb, data = (yield)` iteration: new state, what target received (if called), whether `break` was reached *)
Definition capture_epoch_step (st_ : ce_state) (slb : Z) (data : list Z) : ce_state * option ce_out * bool :=
  let epoch_s0 := ce_epoch_s0 st_ in
  let epoch_samples := ce_epoch_samples st_ in
  let info := ce_info st_ in
  let auto_send := ce_auto_send st_ in
  let accumulated_data := ce_accumulated_data st_ in
  let current_s0 := ce_current_s0 st_ in
  let md := ce_md st_ in
  let samples := (zlen data) in
  if (current_s0 <? slb) then
    let out_ := OMissed epoch_s0 md in
    (mk_ce_state epoch_s0 epoch_samples info auto_send accumulated_data current_s0 md, Some out_, true)
  else
    if (current_s0 <=? (slb + samples)) then
      let i := (current_s0 - slb) in
      let d := (Z.min epoch_samples (samples - i)) in
      let c := (py_slice (Some i) (Some (i + d)) data) in
      let accumulated_data := (accumulated_data ++ [c]) in
      let current_s0 := (current_s0 + d) in
      let epoch_samples := (epoch_samples - d) in
      if auto_send then
        let accumulated_data := (concat accumulated_data) in
        let out_ := OTarget accumulated_data in
        let accumulated_data := [] in
        if (epoch_samples =? 0%Z) then
          (mk_ce_state epoch_s0 epoch_samples info auto_send accumulated_data current_s0 md, Some out_, true)
        else
          (mk_ce_state epoch_s0 epoch_samples info auto_send accumulated_data current_s0 md, Some out_, false)
      else
        if (epoch_samples =? 0%Z) then
          let data := (concat accumulated_data) in
          let out_ := OTarget data in
          (mk_ce_state epoch_s0 epoch_samples info auto_send accumulated_data current_s0 md, Some out_, true)
        else
          (mk_ce_state epoch_s0 epoch_samples info auto_send accumulated_data current_s0 md, None, false)
    else
      (mk_ce_state epoch_s0 epoch_samples info auto_send accumulated_data current_s0 md, None, false).

(* runs of the real coroutine (NumPy int64 chunks), send by send: state of the suspended frame, what target
   received, StopIteration - checked here against the text above *)
Example real_run_0 : capture_epoch_step (mk_ce_state 4%Z 5%Z 0%Z false [] 4%Z 0%Z) 2%Z [102%Z; 103%Z; 104%Z] = ((mk_ce_state 4%Z 4%Z 0%Z false [[104%Z]] 5%Z 0%Z), None, false).
Proof. vm_compute. reflexivity. Qed.
Example real_run_1 : capture_epoch_step (mk_ce_state 4%Z 4%Z 0%Z false [[104%Z]; []] 5%Z 0%Z) 5%Z [105%Z] = ((mk_ce_state 4%Z 3%Z 0%Z false [[104%Z]; []; [105%Z]] 6%Z 0%Z), None, false).
Proof. vm_compute. reflexivity. Qed.
Example real_run_2 : let r := capture_epoch_step (mk_ce_state 4%Z 3%Z 0%Z false [[104%Z]; []; [105%Z]] 6%Z 0%Z) 6%Z [106%Z; 107%Z; 108%Z; 109%Z] in (snd (fst r), snd r) = (Some (OTarget [104%Z; 105%Z; 106%Z; 107%Z; 108%Z]), true).
Proof. vm_compute. reflexivity. Qed.
Example real_run_3 : capture_epoch_step (mk_ce_state 4%Z 5%Z 0%Z true [] 4%Z 0%Z) 2%Z [102%Z; 103%Z; 104%Z] = ((mk_ce_state 4%Z 4%Z 0%Z true [] 5%Z 0%Z), Some (OTarget [104%Z]), false).
Proof. vm_compute. reflexivity. Qed.
Example real_run_4 : let r := capture_epoch_step (mk_ce_state 4%Z 3%Z 0%Z true [] 6%Z 0%Z) 6%Z [106%Z; 107%Z; 108%Z; 109%Z] in (snd (fst r), snd r) = (Some (OTarget [106%Z; 107%Z; 108%Z]), true).
Proof. vm_compute. reflexivity. Qed.
Example real_run_5 : let r := capture_epoch_step (mk_ce_state 1%Z 2%Z 0%Z false [] 1%Z 0%Z) 5%Z [105%Z; 106%Z] in (snd (fst r), snd r) = (Some (OMissed 1%Z 0%Z), true).
Proof. vm_compute. reflexivity. Qed.
Example real_run_6 : let r := capture_epoch_step (mk_ce_state 1%Z 2%Z 0%Z true [] 1%Z 0%Z) 5%Z [105%Z; 106%Z] in (snd (fst r), snd r) = (Some (OMissed 1%Z 0%Z), true).
Proof. vm_compute. reflexivity. Qed.
Example real_run_7 : let r := capture_epoch_step (mk_ce_state 3%Z 0%Z 0%Z false [] 3%Z 0%Z) 2%Z [102%Z; 103%Z; 104%Z; 105%Z] in (snd (fst r), snd r) = (Some (OTarget []), true).
Proof. vm_compute. reflexivity. Qed.
Example real_run_8 : capture_epoch_step (mk_ce_state 3%Z 0%Z 0%Z true [] 3%Z 0%Z) 0%Z [100%Z; 101%Z] = ((mk_ce_state 3%Z 0%Z 0%Z true [] 3%Z 0%Z), None, false).
Proof. vm_compute. reflexivity. Qed.
Example real_run_9 : capture_epoch_step (mk_ce_state 4%Z 4%Z 0%Z false [[104%Z]] 5%Z 0%Z) 5%Z [] = ((mk_ce_state 4%Z 4%Z 0%Z false [[104%Z]; []] 5%Z 0%Z), None, false).
Proof. vm_compute. reflexivity. Qed.
Example real_run_10 : capture_epoch_step (mk_ce_state 4%Z 4%Z 0%Z true [] 5%Z 0%Z) 5%Z [] = ((mk_ce_state 4%Z 4%Z 0%Z true [] 5%Z 0%Z), Some (OTarget []), false).
Proof. vm_compute. reflexivity. Qed.
Example real_run_11 : capture_epoch_step (mk_ce_state 4%Z 4%Z 0%Z true [] 5%Z 0%Z) 5%Z [105%Z] = ((mk_ce_state 4%Z 3%Z 0%Z true [] 6%Z 0%Z), Some (OTarget [105%Z]), false).
Proof. vm_compute. reflexivity. Qed.
Example real_run_12 : capture_epoch_step (mk_ce_state 3%Z 0%Z 0%Z false [] 3%Z 0%Z) 0%Z [100%Z; 101%Z] = ((mk_ce_state 3%Z 0%Z 0%Z false [] 3%Z 0%Z), None, false).
Proof. vm_compute. reflexivity. Qed.
Example real_run_13 : let r := capture_epoch_step (mk_ce_state 3%Z 0%Z 0%Z true [] 3%Z 0%Z) 2%Z [102%Z; 103%Z; 104%Z; 105%Z] in (snd (fst r), snd r) = (Some (OTarget []), true).
Proof. vm_compute. reflexivity. Qed.
Example real_run_14 : let r := capture_epoch_step (mk_ce_state 0%Z 6%Z 0%Z false [] 0%Z 0%Z) 0%Z [100%Z; 101%Z; 102%Z; 103%Z; 104%Z; 105%Z] in (snd (fst r), snd r) = (Some (OTarget [100%Z; 101%Z; 102%Z; 103%Z; 104%Z; 105%Z]), true).
Proof. vm_compute. reflexivity. Qed.
Example real_run_15 : let r := capture_epoch_step (mk_ce_state 0%Z 6%Z 0%Z true [] 0%Z 0%Z) 0%Z [100%Z; 101%Z; 102%Z; 103%Z; 104%Z; 105%Z] in (snd (fst r), snd r) = (Some (OTarget [100%Z; 101%Z; 102%Z; 103%Z; 104%Z; 105%Z]), true).
Proof. vm_compute. reflexivity. Qed.
Example real_run_16 : capture_epoch_step (mk_ce_state 2%Z 3%Z 0%Z false [] 2%Z 0%Z) 0%Z [100%Z] = ((mk_ce_state 2%Z 3%Z 0%Z false [] 2%Z 0%Z), None, false).
Proof. vm_compute. reflexivity. Qed.
Example real_run_17 : let r := capture_epoch_step (mk_ce_state 2%Z 3%Z 0%Z false [] 2%Z 0%Z) 4%Z [104%Z; 105%Z; 106%Z; 107%Z; 108%Z] in (snd (fst r), snd r) = (Some (OMissed 2%Z 0%Z), true).
Proof. vm_compute. reflexivity. Qed.
Example real_run_18 : capture_epoch_step (mk_ce_state 2%Z 3%Z 0%Z true [] 2%Z 0%Z) 0%Z [100%Z] = ((mk_ce_state 2%Z 3%Z 0%Z true [] 2%Z 0%Z), None, false).
Proof. vm_compute. reflexivity. Qed.
Example real_run_19 : let r := capture_epoch_step (mk_ce_state 2%Z 3%Z 0%Z true [] 2%Z 0%Z) 4%Z [104%Z; 105%Z; 106%Z; 107%Z; 108%Z] in (snd (fst r), snd r) = (Some (OMissed 2%Z 0%Z), true).
Proof. vm_compute. reflexivity. Qed.
Example real_run_20 : capture_epoch_step (mk_ce_state 5%Z 4%Z 0%Z false [] 5%Z 0%Z) 0%Z [100%Z; 101%Z; 102%Z; 103%Z; 104%Z; 105%Z; 106%Z] = ((mk_ce_state 5%Z 2%Z 0%Z false [[105%Z; 106%Z]] 7%Z 0%Z), None, false).
Proof. vm_compute. reflexivity. Qed.
Example real_run_21 : let r := capture_epoch_step (mk_ce_state 5%Z 2%Z 0%Z false [[105%Z; 106%Z]] 7%Z 0%Z) 4%Z [104%Z; 105%Z; 106%Z; 107%Z; 108%Z; 109%Z] in (snd (fst r), snd r) = (Some (OTarget [105%Z; 106%Z; 107%Z; 108%Z]), true).
Proof. vm_compute. reflexivity. Qed.
Example real_run_22 : capture_epoch_step (mk_ce_state 5%Z 4%Z 0%Z true [] 5%Z 0%Z) 0%Z [100%Z; 101%Z; 102%Z; 103%Z; 104%Z; 105%Z; 106%Z] = ((mk_ce_state 5%Z 2%Z 0%Z true [] 7%Z 0%Z), Some (OTarget [105%Z; 106%Z]), false).
Proof. vm_compute. reflexivity. Qed.
Example real_run_23 : let r := capture_epoch_step (mk_ce_state 5%Z 2%Z 0%Z true [] 7%Z 0%Z) 4%Z [104%Z; 105%Z; 106%Z; 107%Z; 108%Z; 109%Z] in (snd (fst r), snd r) = (Some (OTarget [107%Z; 108%Z]), true).
Proof. vm_compute. reflexivity. Qed.
Example real_run_24 : capture_epoch_step (mk_ce_state 6%Z 2%Z 0%Z false [] 6%Z 0%Z) 0%Z [100%Z; 101%Z; 102%Z] = ((mk_ce_state 6%Z 2%Z 0%Z false [] 6%Z 0%Z), None, false).
Proof. vm_compute. reflexivity. Qed.
Example real_run_25 : capture_epoch_step (mk_ce_state 6%Z 2%Z 0%Z false [] 6%Z 0%Z) 3%Z [103%Z; 104%Z; 105%Z] = ((mk_ce_state 6%Z 2%Z 0%Z false [[]] 6%Z 0%Z), None, false).
Proof. vm_compute. reflexivity. Qed.
Example real_run_26 : let r := capture_epoch_step (mk_ce_state 6%Z 2%Z 0%Z false [[]] 6%Z 0%Z) 6%Z [106%Z; 107%Z; 108%Z] in (snd (fst r), snd r) = (Some (OTarget [106%Z; 107%Z]), true).
Proof. vm_compute. reflexivity. Qed.
Example real_run_27 : capture_epoch_step (mk_ce_state 6%Z 2%Z 0%Z true [] 6%Z 0%Z) 0%Z [100%Z; 101%Z; 102%Z] = ((mk_ce_state 6%Z 2%Z 0%Z true [] 6%Z 0%Z), None, false).
Proof. vm_compute. reflexivity. Qed.
Example real_run_28 : capture_epoch_step (mk_ce_state 6%Z 2%Z 0%Z true [] 6%Z 0%Z) 3%Z [103%Z; 104%Z; 105%Z] = ((mk_ce_state 6%Z 2%Z 0%Z true [] 6%Z 0%Z), Some (OTarget []), false).
Proof. vm_compute. reflexivity. Qed.
Example real_run_29 : let r := capture_epoch_step (mk_ce_state 6%Z 2%Z 0%Z true [] 6%Z 0%Z) 6%Z [106%Z; 107%Z; 108%Z] in (snd (fst r), snd r) = (Some (OTarget [106%Z; 107%Z]), true).
Proof. vm_compute. reflexivity. Qed.

(* ---- extract_epochs: look-back bookkeeping (the slice of the loop body over tlb, prior_samples) ---- *)
Definition extract_epochs_tlb0 : Z := 0%Z.
Definition extract_epochs_prior_samples0 : list (Z * list Z) := [].

(* one pass of the `while True:` at line 891: None = IndexError, else (prior_samples, `break` reached) *)
Definition extract_epochs_prune_body (tlb : Z) (prior_samples : list (Z * list Z)) (buffer_samples : Z) : option (list (Z * list Z) * bool) :=
  match prior_samples with
  | [] => None
  | oldest_samples :: _ =>
    let tub := ((fst oldest_samples) + (zlen (snd oldest_samples))) in
    if (tub <? (tlb - buffer_samples)) then
      match prior_samples with
      | [] => None
      | _ :: prior_samples =>
        Some (prior_samples, false)
      end
    else
      Some (prior_samples, true)
  end.

Fixpoint extract_epochs_prune (fuel : nat) (tlb : Z) (prior_samples : list (Z * list Z)) (buffer_samples : Z) : option (list (Z * list Z)) :=
  match fuel with
  | O => None
  | S fuel => match extract_epochs_prune_body tlb prior_samples buffer_samples with
              | None => None
              | Some (prior_samples, true) => Some prior_samples
              | Some (prior_samples, false) => extract_epochs_prune fuel tlb prior_samples buffer_samples
              end
  end.

(* what one send(data) does to tlb and prior_samples, in source order; None = the send raises IndexError there *)
Definition extract_epochs_lookback (fuel : nat) (tlb : Z) (prior_samples : list (Z * list Z)) (buffer_samples : Z) (data : list Z) : option (Z * list (Z * list Z)) :=
  let prior_samples := (prior_samples ++ [(tlb, data)]) in
  let tlb := (tlb + (zlen data)) in
  match extract_epochs_prune fuel tlb prior_samples buffer_samples with None => None | Some prior_samples =>
  Some (tlb, prior_samples) end.

(* epoch_coroutine = capture_epoch(t0, epoch_samples, info, epochs.append, fs) *)
Definition extract_epochs_new_capture (t0 : Z) (epoch_samples : Z) (info : Z) : ce_state :=
  capture_epoch_init t0 epoch_samples info capture_epoch_default_auto_send.

(* sends of the real extract_epochs: tlb, prior_samples of the suspended frame before / after *)
Example real_send_0 : extract_epochs_lookback 2 0%Z [] (-2)%Z [] = None.
Proof. vm_compute. reflexivity. Qed.
Example real_send_1 : extract_epochs_lookback 4 14%Z [(10%Z, [56%Z; 47%Z; 4%Z]); (13%Z, [77%Z])] 3%Z [95%Z; 4%Z; 94%Z; 22%Z] = Some (18%Z, [(14%Z, [95%Z; 4%Z; 94%Z; 22%Z])]).
Proof. vm_compute. reflexivity. Qed.
Example real_send_2 : extract_epochs_lookback 4 7%Z [(2%Z, [80%Z; 17%Z; 49%Z; 9%Z; 7%Z]); (7%Z, [])] 0%Z [12%Z; 86%Z; 47%Z; 76%Z] = Some (11%Z, [(7%Z, [12%Z; 86%Z; 47%Z; 76%Z])]).
Proof. vm_compute. reflexivity. Qed.
Example real_send_3 : extract_epochs_lookback 5 6%Z [(0%Z, [28%Z; 81%Z]); (2%Z, []); (2%Z, [34%Z; 81%Z; 46%Z; 38%Z])] 7%Z [47%Z; 12%Z; 97%Z; 69%Z; 53%Z] = Some (11%Z, [(2%Z, [34%Z; 81%Z; 46%Z; 38%Z]); (6%Z, [47%Z; 12%Z; 97%Z; 69%Z; 53%Z])]).
Proof. vm_compute. reflexivity. Qed.
Example real_send_4 : extract_epochs_lookback 3 6%Z [(0%Z, [25%Z; 93%Z; 52%Z; 68%Z; 69%Z; 87%Z])] 1%Z [78%Z; 87%Z; 11%Z; 54%Z; 42%Z] = Some (11%Z, [(6%Z, [78%Z; 87%Z; 11%Z; 54%Z; 42%Z])]).
Proof. vm_compute. reflexivity. Qed.
Example real_send_5 : extract_epochs_lookback 3 11%Z [(6%Z, [78%Z; 87%Z; 11%Z; 54%Z; 42%Z])] 1%Z [52%Z; 32%Z] = Some (13%Z, [(11%Z, [52%Z; 32%Z])]).
Proof. vm_compute. reflexivity. Qed.
Example real_send_6 : extract_epochs_lookback 3 13%Z [(11%Z, [52%Z; 32%Z])] 1%Z [81%Z; 37%Z; 12%Z; 5%Z; 75%Z] = Some (18%Z, [(13%Z, [81%Z; 37%Z; 12%Z; 5%Z; 75%Z])]).
Proof. vm_compute. reflexivity. Qed.
Example real_send_7 : extract_epochs_lookback 3 18%Z [(13%Z, [81%Z; 37%Z; 12%Z; 5%Z; 75%Z])] 1%Z [83%Z; 46%Z; 62%Z; 24%Z; 65%Z; 73%Z] = Some (24%Z, [(18%Z, [83%Z; 46%Z; 62%Z; 24%Z; 65%Z; 73%Z])]).
Proof. vm_compute. reflexivity. Qed.
Example real_send_8 : extract_epochs_lookback 3 3%Z [(0%Z, [76%Z; 95%Z; 50%Z])] 0%Z [11%Z; 77%Z; 85%Z; 57%Z; 57%Z; 48%Z] = Some (9%Z, [(3%Z, [11%Z; 77%Z; 85%Z; 57%Z; 57%Z; 48%Z])]).
Proof. vm_compute. reflexivity. Qed.
Example real_send_9 : extract_epochs_lookback 3 9%Z [(3%Z, [11%Z; 77%Z; 85%Z; 57%Z; 57%Z; 48%Z])] 0%Z [54%Z; 60%Z; 38%Z; 90%Z] = Some (13%Z, [(9%Z, [54%Z; 60%Z; 38%Z; 90%Z])]).
Proof. vm_compute. reflexivity. Qed.
Example real_send_10 : extract_epochs_lookback 3 3%Z [(0%Z, [92%Z; 22%Z; 2%Z])] 0%Z [46%Z; 24%Z; 32%Z; 64%Z] = Some (7%Z, [(3%Z, [46%Z; 24%Z; 32%Z; 64%Z])]).
Proof. vm_compute. reflexivity. Qed.
Example real_send_11 : extract_epochs_lookback 3 7%Z [(3%Z, [46%Z; 24%Z; 32%Z; 64%Z])] 0%Z [53%Z; 78%Z; 62%Z] = Some (10%Z, [(7%Z, [53%Z; 78%Z; 62%Z])]).
Proof. vm_compute. reflexivity. Qed.

(* ---- extract_epochs: one whole send (second batch).  Fixed glue: *)
(* what epochs.append receives from the coroutine filed under `key`, as the model's item *)
Definition ce_item (key : Z) (st : ce_state) (o : ce_out) : item :=
  match o with
  | OTarget d => {| i_key := key; i_rid := ce_md st; i_s0 := ce_epoch_s0 st; i_data := d; i_missed := false |}
  | OMissed s0 md => {| i_key := key; i_rid := md; i_s0 := s0; i_data := []; i_missed := true |}
  end.
Definition out_items (key : Z) (st : ce_state) (o : option ce_out) : list item :=
  match o with None => [] | Some x => [ce_item key st x] end.
(* D[k] = v on an insertion-ordered dict: replaced in place, else appended *)
Fixpoint dict_put {A} (k : Z) (v : A) (d : list (Z * A)) : list (Z * A) :=
  match d with [] => [(k, v)] | x :: t => if fst x =? k then (k, v) :: t else x :: dict_put k v t end.
Inductive xraise := RIndexError | RKeyError | RValueError | RDuplicate | RStack | RStop | RFuel.
Inductive xres (A : Type) := XOk (a : A) | XRaise (e : xraise).
Arguments XOk {A}. Arguments XRaise {A}.

Record xe_state := mk_xe_state { xe_tlb : Z; xe_epoch_coroutines : list (Z * ce_state); xe_prior_samples : list (Z * list Z); xe_epochs : list item; xe_empty_queue_cb : bool }.

(* the statements before `while True:`; empty_queue_cb: whether a callback was given *)
Definition extract_epochs_init (empty_queue_cb : bool) : xe_state :=
  let tlb := 0%Z in
  let epoch_coroutines := [] in
  let prior_samples := [] in
  let epochs := [] in
  mk_xe_state tlb epoch_coroutines prior_samples epochs empty_queue_cb.

(* `while removed_queue:` at line 812 *)
Fixpoint extract_epochs_drain (fuel : nat) (epoch_coroutines : list (Z * ce_state)) (removed_queue : list Z) (skip : list Z) (n_remove : Z) (n_pop : Z) : xres ((list (Z * ce_state)) * (list Z) * (list Z) * (Z) * (Z) * bool) :=
  match fuel with
  | O => XRaise RFuel
  | S fuel =>
    if is_nil removed_queue then XOk (epoch_coroutines, removed_queue, skip, n_remove, n_pop, false) else
    match (
      match removed_queue with
      | [] => XRaise RIndexError
      | info :: removed_queue =>
        let key := info in
        if (negb (has_key fst key epoch_coroutines)) then
          let n_remove := (n_remove + 1%Z) in
          let skip := (skip ++ [key]) in
          XOk (epoch_coroutines, removed_queue, skip, n_remove, n_pop, false)
        else
          if has_key fst key epoch_coroutines then
            let epoch_coroutines := del_key fst key epoch_coroutines in
            let n_pop := (n_pop + 1%Z) in
            XOk (epoch_coroutines, removed_queue, skip, n_remove, n_pop, false)
          else XRaise RKeyError
      end
    ) with
    | XRaise e_ => XRaise e_
    | XOk (epoch_coroutines, removed_queue, skip, n_remove, n_pop, _) => extract_epochs_drain fuel epoch_coroutines removed_queue skip n_remove n_pop
    end
  end.

(* `for (key, epoch_coroutine) in ...` at line 831: over the snapshot items_; true = StopIteration left the loop *)
Fixpoint extract_epochs_deliver (items_ : list (Z * ce_state)) (tlb : Z) (epoch_coroutines : list (Z * ce_state)) (epochs : list item) (data : list Z) : xres ((list (Z * ce_state)) * (list item) * bool) :=
  match items_ with
  | [] => XOk (epoch_coroutines, epochs, false)
  | (key, epoch_coroutine) :: items_ =>
    match (
      let '(co_, out_, fin_) := capture_epoch_step epoch_coroutine tlb data in
      let epochs := epochs ++ out_items key epoch_coroutine out_ in
      let epoch_coroutine := co_ in
      let epoch_coroutines := dict_put key epoch_coroutine epoch_coroutines in
      if fin_ then
        if has_key fst key epoch_coroutines then
          let epoch_coroutines := del_key fst key epoch_coroutines in
          XOk (epoch_coroutines, epochs, false)
        else XRaise RKeyError
      else
        XOk (epoch_coroutines, epochs, false)
    ) with
    | XRaise e_ => XRaise e_
    | XOk (epoch_coroutines, epochs, true) => XOk (epoch_coroutines, epochs, true)
    | XOk (epoch_coroutines, epochs, false) => extract_epochs_deliver items_ tlb epoch_coroutines epochs data
    end
  end.

(* `for prior_sample in ...` at line 866: over the snapshot items_; true = StopIteration left the loop *)
Fixpoint extract_epochs_replay (items_ : list (Z * list Z)) (epochs : list item) (key : Z) (epoch_coroutine : ce_state) : xres ((list item) * (ce_state) * bool) :=
  match items_ with
  | [] => XOk (epochs, epoch_coroutine, false)
  | prior_sample :: items_ =>
    match (
      let '(co_, out_, fin_) := capture_epoch_step epoch_coroutine (fst prior_sample) (snd prior_sample) in
      let epochs := epochs ++ out_items key epoch_coroutine out_ in
      let epoch_coroutine := co_ in
      if fin_ then
        XOk (epochs, epoch_coroutine, true)
      else
        XOk (epochs, epoch_coroutine, false)
    ) with
    | XRaise e_ => XRaise e_
    | XOk (epochs, epoch_coroutine, true) => XOk (epochs, epoch_coroutine, true)
    | XOk (epochs, epoch_coroutine, false) => extract_epochs_replay items_ epochs key epoch_coroutine
    end
  end.

(* `while queue:` at line 842 *)
Fixpoint extract_epochs_intake (fuel : nat) (epoch_coroutines : list (Z * ce_state)) (prior_samples : list (Z * list Z)) (epochs : list item) (queue : list request) (skip : list Z) (n_queued : Z) (n_invalid : Z) : xres ((list (Z * ce_state)) * (list item) * (list request) * (list Z) * (Z) * (Z) * bool) :=
  match fuel with
  | O => XRaise RFuel
  | S fuel =>
    if is_nil queue then XOk (epoch_coroutines, epochs, queue, skip, n_queued, n_invalid, false) else
    match (
      match queue with
      | [] => XRaise RIndexError
      | info :: queue =>
        let key := (r_key info) in
        if (memz key skip) then
          if memz key skip then
            let skip := remove_first key skip in
            let n_invalid := (n_invalid + 1%Z) in
            XOk (epoch_coroutines, epochs, queue, skip, n_queued, n_invalid, false)
          else XRaise RValueError
        else
          let n_queued := (n_queued + 1%Z) in
          let epoch_samples := (r_n info) in
          let t0 := (r_lo info) in
          let epoch_coroutine := (extract_epochs_new_capture t0 epoch_samples (r_rid info)) in
          match extract_epochs_replay prior_samples epochs key epoch_coroutine with
          | XRaise e_ => XRaise e_
          | XOk (epochs, epoch_coroutine, true) =>
            XOk (epoch_coroutines, epochs, queue, skip, n_queued, n_invalid, false)
          | XOk (epochs, epoch_coroutine, false) =>
            if (has_key fst key epoch_coroutines) then
              XRaise RDuplicate
            else
              let epoch_coroutines := (dict_put key epoch_coroutine epoch_coroutines) in
              XOk (epoch_coroutines, epochs, queue, skip, n_queued, n_invalid, false)
          end
      end
    ) with
    | XRaise e_ => XRaise e_
    | XOk (epoch_coroutines, epochs, queue, skip, n_queued, n_invalid, _) => extract_epochs_intake fuel epoch_coroutines prior_samples epochs queue skip n_queued n_invalid
    end
  end.

(* one send(data): the loop body from `data = (yield)` to the next yield.  queue / removed_queue: their contents;
   kind_: what the chunks are (Model.kind) - only the stacking depends on it *)
Definition extract_epochs_send (fuel : nat) (kind_ : kind) (st_ : xe_state) (buffer_samples : Z) (data : list Z) (removed_queue : list Z) (queue : list request) (source_complete : bool)
  : xres (xe_state * option (list item) * bool) :=
  let tlb := xe_tlb st_ in
  let epoch_coroutines := xe_epoch_coroutines st_ in
  let prior_samples := xe_prior_samples st_ in
  let epochs := xe_epochs st_ in
  let empty_queue_cb := xe_empty_queue_cb st_ in
  let target_arg := None in
  let cb_called := false in
  let prior_samples := (prior_samples ++ [(tlb, data)]) in
  let skip := [] in
  let n_remove := 0%Z in
  let n_pop := 0%Z in
  match extract_epochs_drain fuel epoch_coroutines removed_queue skip n_remove n_pop with
  | XRaise e_ => XRaise e_
  | XOk (epoch_coroutines, removed_queue, skip, n_remove, n_pop, true) =>
    XRaise RStop
  | XOk (epoch_coroutines, removed_queue, skip, n_remove, n_pop, false) =>
    match extract_epochs_deliver epoch_coroutines tlb epoch_coroutines epochs data with
    | XRaise e_ => XRaise e_
    | XOk (epoch_coroutines, epochs, true) =>
      XRaise RStop
    | XOk (epoch_coroutines, epochs, false) =>
      let n_queued := 0%Z in
      let n_invalid := 0%Z in
      match extract_epochs_intake fuel epoch_coroutines prior_samples epochs queue skip n_queued n_invalid with
      | XRaise e_ => XRaise e_
      | XOk (epoch_coroutines, epochs, queue, skip, n_queued, n_invalid, true) =>
        XRaise RStop
      | XOk (epoch_coroutines, epochs, queue, skip, n_queued, n_invalid, false) =>
        let tlb := (tlb + (zlen data)) in
        if (negb ((zlen epochs) =? 0%Z)) then
          if stack_ok kind_ epochs then
            let target_arg := Some epochs in
            let epochs := [] in
            match extract_epochs_prune fuel tlb prior_samples buffer_samples with
            | None => XRaise RIndexError
            | Some prior_samples =>
              if (((source_complete && ((zlen queue) =? 0%Z)) && ((zlen epoch_coroutines) =? 0%Z)) && empty_queue_cb) then
                let cb_called := true in
                let empty_queue_cb := false in
                XOk (mk_xe_state tlb epoch_coroutines prior_samples epochs empty_queue_cb, target_arg, cb_called)
              else
                XOk (mk_xe_state tlb epoch_coroutines prior_samples epochs empty_queue_cb, target_arg, cb_called)
            end
          else XRaise RStack
        else
          match extract_epochs_prune fuel tlb prior_samples buffer_samples with
          | None => XRaise RIndexError
          | Some prior_samples =>
            if (((source_complete && ((zlen queue) =? 0%Z)) && ((zlen epoch_coroutines) =? 0%Z)) && empty_queue_cb) then
              let cb_called := true in
              let empty_queue_cb := false in
              XOk (mk_xe_state tlb epoch_coroutines prior_samples epochs empty_queue_cb, target_arg, cb_called)
            else
              XOk (mk_xe_state tlb epoch_coroutines prior_samples epochs empty_queue_cb, target_arg, cb_called)
          end
      end
    end
  end.

(* whole sends of the real extract_epochs (1-D NumPy chunks): state of the suspended frames before / after,
   what target received, whether the callback was called, or the exception *)
Example real_whole_send_0 : extract_epochs_send 8 (mkkind false false) (mk_xe_state 6%Z [(1%Z, (mk_ce_state 3%Z 2%Z 2%Z false [[44%Z; 82%Z; 10%Z]; []] 6%Z 2%Z)); (3%Z, (mk_ce_state 4%Z 3%Z 4%Z false [[82%Z; 10%Z]; []] 6%Z 4%Z)); (4%Z, (mk_ce_state 9%Z 5%Z 5%Z false [] 9%Z 5%Z)); (5%Z, (mk_ce_state 11%Z 5%Z 6%Z false [] 11%Z 6%Z))] [(0%Z, [0%Z; 61%Z; 83%Z; 44%Z; 82%Z; 10%Z]); (6%Z, [])] [] false) 5%Z [70%Z] [7%Z] [mkreq 6%Z 2%Z 5%Z 7%Z; mkreq 5%Z 11%Z 5%Z 8%Z] true = XRaise RDuplicate.
Proof. vm_compute. reflexivity. Qed.
Example real_whole_send_1 : extract_epochs_send 11 (mkkind false false) (mk_xe_state 11%Z [(1%Z, (mk_ce_state 17%Z 2%Z 3%Z false [] 17%Z 3%Z)); (2%Z, (mk_ce_state 16%Z 2%Z 4%Z false [] 16%Z 4%Z))] [(0%Z, [55%Z; 35%Z]); (2%Z, []); (2%Z, [55%Z; 88%Z; 28%Z; 64%Z; 80%Z; 37%Z]); (8%Z, [89%Z; 73%Z; 75%Z])] [] true) 9%Z [33%Z; 80%Z] [4%Z] [mkreq 2%Z 16%Z 2%Z 6%Z; mkreq 4%Z 18%Z 2%Z 7%Z; mkreq 5%Z 20%Z 2%Z 8%Z] true = XRaise RDuplicate.
Proof. vm_compute. reflexivity. Qed.
Example real_whole_send_2 : extract_epochs_send 7 (mkkind false false) (mk_xe_state 10%Z [(1%Z, (mk_ce_state 14%Z 4%Z 1%Z false [] 14%Z 1%Z)); (2%Z, (mk_ce_state 12%Z 4%Z 2%Z false [] 12%Z 2%Z))] [(8%Z, [80%Z; 39%Z])] [] false) 0%Z [2%Z; 32%Z; 4%Z; 1%Z; 2%Z; 93%Z] [4%Z] [mkreq 3%Z 7%Z 4%Z 3%Z; mkreq 4%Z 11%Z 4%Z 4%Z] true = XRaise RStack.
Proof. vm_compute. reflexivity. Qed.
Example real_whole_send_3 : extract_epochs_send 6 (mkkind false false) (mk_xe_state 11%Z [(1%Z, (mk_ce_state 8%Z 4%Z 3%Z false [[]; [23%Z; 1%Z; 94%Z]] 11%Z 3%Z)); (2%Z, (mk_ce_state 8%Z 4%Z 4%Z false [[]; [23%Z; 1%Z; 94%Z]] 11%Z 4%Z)); (4%Z, (mk_ce_state 14%Z 7%Z 5%Z false [] 14%Z 5%Z))] [(8%Z, [23%Z; 1%Z; 94%Z])] [] true) 0%Z [58%Z; 46%Z] [] [mkreq 0%Z (-5)%Z 7%Z 6%Z; mkreq 2%Z 8%Z 7%Z 7%Z] true = XRaise RDuplicate.
Proof. vm_compute. reflexivity. Qed.
Example real_whole_send_4 : extract_epochs_send 8 (mkkind false false) (mk_xe_state 10%Z [] [(6%Z, [18%Z; 50%Z; 6%Z; 27%Z])] [] false) 2%Z [57%Z; 91%Z; 40%Z] [3%Z] [mkreq 0%Z (-5)%Z 4%Z 2%Z; mkreq 1%Z 6%Z 4%Z 3%Z; mkreq 2%Z 4%Z 4%Z 4%Z] true = XRaise RStack.
Proof. vm_compute. reflexivity. Qed.
Example real_whole_send_5 : extract_epochs_send 8 (mkkind false false) (mk_xe_state 10%Z [(1%Z, (mk_ce_state 11%Z 3%Z 2%Z false [] 11%Z 2%Z)); (2%Z, (mk_ce_state 11%Z 2%Z 3%Z false [] 11%Z 3%Z))] [(0%Z, [93%Z; 56%Z; 60%Z; 86%Z]); (4%Z, []); (4%Z, [96%Z; 72%Z; 42%Z; 37%Z; 35%Z; 7%Z])] [] false) 9%Z [48%Z; 77%Z; 98%Z; 29%Z; 57%Z] [0%Z] [mkreq 4%Z 11%Z 3%Z 4%Z] true = XRaise RStack.
Proof. vm_compute. reflexivity. Qed.
Example real_whole_send_6 : extract_epochs_send 7 (mkkind false false) (mk_xe_state 4%Z [] [(0%Z, [73%Z; 63%Z; 89%Z; 41%Z])] [] false) 5%Z [] [] [mkreq 0%Z 0%Z 2%Z 1%Z; mkreq 1%Z (-2)%Z 2%Z 2%Z; mkreq 2%Z (-1)%Z 3%Z 3%Z] true = XRaise RStack.
Proof. vm_compute. reflexivity. Qed.
Example real_whole_send_7 : extract_epochs_send 8 (mkkind false false) (mk_xe_state 12%Z [(1%Z, (mk_ce_state 11%Z 6%Z 2%Z false [[64%Z]] 12%Z 2%Z)); (2%Z, (mk_ce_state 15%Z 7%Z 3%Z false [] 15%Z 3%Z))] [(0%Z, [99%Z; 85%Z; 97%Z; 15%Z; 99%Z; 37%Z]); (6%Z, [94%Z; 33%Z]); (8%Z, [19%Z]); (9%Z, [32%Z; 31%Z; 64%Z])] [] false) 9%Z [57%Z] [] [mkreq 2%Z 15%Z 7%Z 5%Z] true = XRaise RDuplicate.
Proof. vm_compute. reflexivity. Qed.
Example real_whole_send_8 : extract_epochs_send 6 (mkkind false false) (mk_xe_state 0%Z [] [] [] true) 2%Z [22%Z; 57%Z; 77%Z; 33%Z; 99%Z; 99%Z] [] [mkreq 0%Z (-4)%Z 2%Z 1%Z; mkreq 1%Z 5%Z 2%Z 2%Z; mkreq 1%Z 5%Z 2%Z 3%Z] true = XRaise RDuplicate.
Proof. vm_compute. reflexivity. Qed.
Example real_whole_send_9 : extract_epochs_send 6 (mkkind false false) (mk_xe_state 21%Z [(6%Z, (mk_ce_state 22%Z 3%Z 8%Z false [] 22%Z 8%Z))] [(15%Z, [66%Z; 32%Z; 39%Z; 81%Z; 74%Z; 84%Z])] [] false) 2%Z [78%Z; 80%Z] [0%Z] [mkreq 6%Z 22%Z 3%Z 9%Z] true = XRaise RDuplicate.
Proof. vm_compute. reflexivity. Qed.
