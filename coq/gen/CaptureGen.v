(* GENERATED on every run by translate/pycapture2coq.py from /repo/psiaudio/pipeline.py
   (coroutine capture_epoch, lines 631-711) - do not edit.
   int(round(e)) = e on integers (the harness hands the model the effective integers)
   pinned: `if hasattr(c, 'metadata'): ...` -> dropped
   pinned: `info = info.copy()` -> info := info
   pinned: `log.warning(m, epoch_samples, epoch_s0)` -> dropped
   pinned: `m = 'Missed samples for epoch of %d samples starting at %d'` -> dropped
   pinned: `md = info.pop('metadata', {})` -> md := info
   extract_epochs: statements at lines [809, 810, 811, 812, 824, 831, 840, 841, 842, 874, 881, 899] do not write tlb / prior_samples / buffer_samples / data: not in the slice
   pinned: `buffer_samples = round(buffer_size * fs)`
   pinned: `epoch_samples = round(total_epoch_size * fs)`
   pinned: `info['epoch_size'] = epoch_size if epoch_size is not None else info['duration']`
   pinned: `t0 = round((info['t0'] - prestim_time) * fs)`
   pinned: `total_epoch_size = info['epoch_size'] + poststim_time + prestim_time`
*)
From Coq Require Import ZArith List Bool.
From PV Require Import Common.PySlice Extract.Model.
Import ListNotations.
Open Scope Z_scope.

(* what target(...) receives: the joined pieces, or the empty "missed" PipelineData (s0, metadata identity) *)
Inductive ce_out := OTarget (d : list Z) | OMissed (s0 md : Z).

(* the locals of the coroutine that live from one send to the next *)
Record ce_state := mk_ce_state { ce_epoch_s0 : Z; ce_epoch_samples : Z; ce_info : Z; ce_auto_send : bool; ce_accumulated_data : list (list Z); ce_current_s0 : Z; ce_md : Z }.

(* the statements before `while True:` *)
Definition capture_epoch_init (epoch_s0 : Z) (epoch_samples : Z) (info : Z) (auto_send : bool) : ce_state :=
  let accumulated_data := [] in
  let current_s0 := epoch_s0 in
  let info := info in
  let md := info in
  mk_ce_state epoch_s0 epoch_samples info auto_send accumulated_data current_s0 md.

Definition capture_epoch_default_auto_send : bool := false.

(* one `slb, data = (yield)` iteration: new state, what target received (if called), whether `break` was reached *)
Definition capture_epoch_step (st_ : ce_state) (slb : Z) (data : list Z) : ce_state * option ce_out * bool :=
  let epoch_s0 := ce_epoch_s0 st_ in
  let epoch_samples := ce_epoch_samples st_ in
  let info := ce_info st_ in
  let auto_send := ce_auto_send st_ in
  let accumulated_data := ce_accumulated_data st_ in
  let current_s0 := ce_current_s0 st_ in
  let md := ce_md st_ in
  let samples := (zlen data) in
  if (current_s0 <? slb) then
    let out_ := OMissed epoch_s0 md in
    (mk_ce_state epoch_s0 epoch_samples info auto_send accumulated_data current_s0 md, Some out_, true)
  else
    if (current_s0 <=? (slb + samples)) then
      let i := (current_s0 - slb) in
      let d := (Z.min epoch_samples (samples - i)) in
      let c := (py_slice (Some i) (Some (i + d)) data) in
      let accumulated_data := (accumulated_data ++ [c]) in
      let current_s0 := (current_s0 + d) in
      let epoch_samples := (epoch_samples - d) in
      if auto_send then
        let accumulated_data := (concat accumulated_data) in
        let out_ := OTarget accumulated_data in
        let accumulated_data := [] in
        if (epoch_samples =? 0%Z) then
          (mk_ce_state epoch_s0 epoch_samples info auto_send accumulated_data current_s0 md, Some out_, true)
        else
          (mk_ce_state epoch_s0 epoch_samples info auto_send accumulated_data current_s0 md, Some out_, false)
      else
        if (epoch_samples =? 0%Z) then
          let data := (concat accumulated_data) in
          let out_ := OTarget data in
          (mk_ce_state epoch_s0 epoch_samples info auto_send accumulated_data current_s0 md, Some out_, true)
        else
          (mk_ce_state epoch_s0 epoch_samples info auto_send accumulated_data current_s0 md, None, false)
    else
      (mk_ce_state epoch_s0 epoch_samples info auto_send accumulated_data current_s0 md, None, false).

(* runs of the real coroutine (NumPy int64 chunks), send by send: state of the suspended frame, what target
   received, StopIteration - checked here against the text above *)
Example real_run_0 : capture_epoch_step (mk_ce_state 4%Z 5%Z 0%Z false [] 4%Z 0%Z) 2%Z [102%Z; 103%Z; 104%Z] = ((mk_ce_state 4%Z 4%Z 0%Z false [[104%Z]] 5%Z 0%Z), None, false).
Proof. vm_compute. reflexivity. Qed.
Example real_run_1 : capture_epoch_step (mk_ce_state 4%Z 4%Z 0%Z false [[104%Z]; []] 5%Z 0%Z) 5%Z [105%Z] = ((mk_ce_state 4%Z 3%Z 0%Z false [[104%Z]; []; [105%Z]] 6%Z 0%Z), None, false).
Proof. vm_compute. reflexivity. Qed.
Example real_run_2 : let r := capture_epoch_step (mk_ce_state 4%Z 3%Z 0%Z false [[104%Z]; []; [105%Z]] 6%Z 0%Z) 6%Z [106%Z; 107%Z; 108%Z; 109%Z] in (snd (fst r), snd r) = (Some (OTarget [104%Z; 105%Z; 106%Z; 107%Z; 108%Z]), true).
Proof. vm_compute. reflexivity. Qed.
Example real_run_3 : capture_epoch_step (mk_ce_state 4%Z 5%Z 0%Z true [] 4%Z 0%Z) 2%Z [102%Z; 103%Z; 104%Z] = ((mk_ce_state 4%Z 4%Z 0%Z true [] 5%Z 0%Z), Some (OTarget [104%Z]), false).
Proof. vm_compute. reflexivity. Qed.
Example real_run_4 : let r := capture_epoch_step (mk_ce_state 4%Z 3%Z 0%Z true [] 6%Z 0%Z) 6%Z [106%Z; 107%Z; 108%Z; 109%Z] in (snd (fst r), snd r) = (Some (OTarget [106%Z; 107%Z; 108%Z]), true).
Proof. vm_compute. reflexivity. Qed.
Example real_run_5 : let r := capture_epoch_step (mk_ce_state 1%Z 2%Z 0%Z false [] 1%Z 0%Z) 5%Z [105%Z; 106%Z] in (snd (fst r), snd r) = (Some (OMissed 1%Z 0%Z), true).
Proof. vm_compute. reflexivity. Qed.
Example real_run_6 : let r := capture_epoch_step (mk_ce_state 1%Z 2%Z 0%Z true [] 1%Z 0%Z) 5%Z [105%Z; 106%Z] in (snd (fst r), snd r) = (Some (OMissed 1%Z 0%Z), true).
Proof. vm_compute. reflexivity. Qed.
Example real_run_7 : let r := capture_epoch_step (mk_ce_state 3%Z 0%Z 0%Z false [] 3%Z 0%Z) 2%Z [102%Z; 103%Z; 104%Z; 105%Z] in (snd (fst r), snd r) = (Some (OTarget []), true).
Proof. vm_compute. reflexivity. Qed.
Example real_run_8 : capture_epoch_step (mk_ce_state 3%Z 0%Z 0%Z true [] 3%Z 0%Z) 0%Z [100%Z; 101%Z] = ((mk_ce_state 3%Z 0%Z 0%Z true [] 3%Z 0%Z), None, false).
Proof. vm_compute. reflexivity. Qed.
Example real_run_9 : capture_epoch_step (mk_ce_state 4%Z 4%Z 0%Z false [[104%Z]] 5%Z 0%Z) 5%Z [] = ((mk_ce_state 4%Z 4%Z 0%Z false [[104%Z]; []] 5%Z 0%Z), None, false).
Proof. vm_compute. reflexivity. Qed.
Example real_run_10 : capture_epoch_step (mk_ce_state 4%Z 4%Z 0%Z true [] 5%Z 0%Z) 5%Z [] = ((mk_ce_state 4%Z 4%Z 0%Z true [] 5%Z 0%Z), Some (OTarget []), false).
Proof. vm_compute. reflexivity. Qed.
Example real_run_11 : capture_epoch_step (mk_ce_state 4%Z 4%Z 0%Z true [] 5%Z 0%Z) 5%Z [105%Z] = ((mk_ce_state 4%Z 3%Z 0%Z true [] 6%Z 0%Z), Some (OTarget [105%Z]), false).
Proof. vm_compute. reflexivity. Qed.
Example real_run_12 : capture_epoch_step (mk_ce_state 3%Z 0%Z 0%Z false [] 3%Z 0%Z) 0%Z [100%Z; 101%Z] = ((mk_ce_state 3%Z 0%Z 0%Z false [] 3%Z 0%Z), None, false).
Proof. vm_compute. reflexivity. Qed.
Example real_run_13 : let r := capture_epoch_step (mk_ce_state 3%Z 0%Z 0%Z true [] 3%Z 0%Z) 2%Z [102%Z; 103%Z; 104%Z; 105%Z] in (snd (fst r), snd r) = (Some (OTarget []), true).
Proof. vm_compute. reflexivity. Qed.
Example real_run_14 : let r := capture_epoch_step (mk_ce_state 0%Z 6%Z 0%Z false [] 0%Z 0%Z) 0%Z [100%Z; 101%Z; 102%Z; 103%Z; 104%Z; 105%Z] in (snd (fst r), snd r) = (Some (OTarget [100%Z; 101%Z; 102%Z; 103%Z; 104%Z; 105%Z]), true).
Proof. vm_compute. reflexivity. Qed.
Example real_run_15 : let r := capture_epoch_step (mk_ce_state 0%Z 6%Z 0%Z true [] 0%Z 0%Z) 0%Z [100%Z; 101%Z; 102%Z; 103%Z; 104%Z; 105%Z] in (snd (fst r), snd r) = (Some (OTarget [100%Z; 101%Z; 102%Z; 103%Z; 104%Z; 105%Z]), true).
Proof. vm_compute. reflexivity. Qed.
Example real_run_16 : capture_epoch_step (mk_ce_state 2%Z 3%Z 0%Z false [] 2%Z 0%Z) 0%Z [100%Z] = ((mk_ce_state 2%Z 3%Z 0%Z false [] 2%Z 0%Z), None, false).
Proof. vm_compute. reflexivity. Qed.
Example real_run_17 : let r := capture_epoch_step (mk_ce_state 2%Z 3%Z 0%Z false [] 2%Z 0%Z) 4%Z [104%Z; 105%Z; 106%Z; 107%Z; 108%Z] in (snd (fst r), snd r) = (Some (OMissed 2%Z 0%Z), true).
Proof. vm_compute. reflexivity. Qed.
Example real_run_18 : capture_epoch_step (mk_ce_state 2%Z 3%Z 0%Z true [] 2%Z 0%Z) 0%Z [100%Z] = ((mk_ce_state 2%Z 3%Z 0%Z true [] 2%Z 0%Z), None, false).
Proof. vm_compute. reflexivity. Qed.
Example real_run_19 : let r := capture_epoch_step (mk_ce_state 2%Z 3%Z 0%Z true [] 2%Z 0%Z) 4%Z [104%Z; 105%Z; 106%Z; 107%Z; 108%Z] in (snd (fst r), snd r) = (Some (OMissed 2%Z 0%Z), true).
Proof. vm_compute. reflexivity. Qed.
Example real_run_20 : capture_epoch_step (mk_ce_state 5%Z 4%Z 0%Z false [] 5%Z 0%Z) 0%Z [100%Z; 101%Z; 102%Z; 103%Z; 104%Z; 105%Z; 106%Z] = ((mk_ce_state 5%Z 2%Z 0%Z false [[105%Z; 106%Z]] 7%Z 0%Z), None, false).
Proof. vm_compute. reflexivity. Qed.
Example real_run_21 : let r := capture_epoch_step (mk_ce_state 5%Z 2%Z 0%Z false [[105%Z; 106%Z]] 7%Z 0%Z) 4%Z [104%Z; 105%Z; 106%Z; 107%Z; 108%Z; 109%Z] in (snd (fst r), snd r) = (Some (OTarget [105%Z; 106%Z; 107%Z; 108%Z]), true).
Proof. vm_compute. reflexivity. Qed.
Example real_run_22 : capture_epoch_step (mk_ce_state 5%Z 4%Z 0%Z true [] 5%Z 0%Z) 0%Z [100%Z; 101%Z; 102%Z; 103%Z; 104%Z; 105%Z; 106%Z] = ((mk_ce_state 5%Z 2%Z 0%Z true [] 7%Z 0%Z), Some (OTarget [105%Z; 106%Z]), false).
Proof. vm_compute. reflexivity. Qed.
Example real_run_23 : let r := capture_epoch_step (mk_ce_state 5%Z 2%Z 0%Z true [] 7%Z 0%Z) 4%Z [104%Z; 105%Z; 106%Z; 107%Z; 108%Z; 109%Z] in (snd (fst r), snd r) = (Some (OTarget [107%Z; 108%Z]), true).
Proof. vm_compute. reflexivity. Qed.
Example real_run_24 : capture_epoch_step (mk_ce_state 6%Z 2%Z 0%Z false [] 6%Z 0%Z) 0%Z [100%Z; 101%Z; 102%Z] = ((mk_ce_state 6%Z 2%Z 0%Z false [] 6%Z 0%Z), None, false).
Proof. vm_compute. reflexivity. Qed.
Example real_run_25 : capture_epoch_step (mk_ce_state 6%Z 2%Z 0%Z false [] 6%Z 0%Z) 3%Z [103%Z; 104%Z; 105%Z] = ((mk_ce_state 6%Z 2%Z 0%Z false [[]] 6%Z 0%Z), None, false).
Proof. vm_compute. reflexivity. Qed.
Example real_run_26 : let r := capture_epoch_step (mk_ce_state 6%Z 2%Z 0%Z false [[]] 6%Z 0%Z) 6%Z [106%Z; 107%Z; 108%Z] in (snd (fst r), snd r) = (Some (OTarget [106%Z; 107%Z]), true).
Proof. vm_compute. reflexivity. Qed.
Example real_run_27 : capture_epoch_step (mk_ce_state 6%Z 2%Z 0%Z true [] 6%Z 0%Z) 0%Z [100%Z; 101%Z; 102%Z] = ((mk_ce_state 6%Z 2%Z 0%Z true [] 6%Z 0%Z), None, false).
Proof. vm_compute. reflexivity. Qed.
Example real_run_28 : capture_epoch_step (mk_ce_state 6%Z 2%Z 0%Z true [] 6%Z 0%Z) 3%Z [103%Z; 104%Z; 105%Z] = ((mk_ce_state 6%Z 2%Z 0%Z true [] 6%Z 0%Z), Some (OTarget []), false).
Proof. vm_compute. reflexivity. Qed.
Example real_run_29 : let r := capture_epoch_step (mk_ce_state 6%Z 2%Z 0%Z true [] 6%Z 0%Z) 6%Z [106%Z; 107%Z; 108%Z] in (snd (fst r), snd r) = (Some (OTarget [106%Z; 107%Z]), true).
Proof. vm_compute. reflexivity. Qed.

(* ---- extract_epochs: look-back bookkeeping (the slice of the loop body over tlb, prior_samples) ---- *)
Definition extract_epochs_tlb0 : Z := 0%Z.
Definition extract_epochs_prior_samples0 : list (Z * list Z) := [].

(* one pass of the `while True:` at line 891: None = IndexError, else (prior_samples, `break` reached) *)
Definition extract_epochs_prune_body (tlb : Z) (prior_samples : list (Z * list Z)) (buffer_samples : Z) : option (list (Z * list Z) * bool) :=
  match prior_samples with
  | [] => None
  | oldest_samples :: _ =>
    let tub := ((fst oldest_samples) + (zlen (snd oldest_samples))) in
    if (tub <? (tlb - buffer_samples)) then
      match prior_samples with
      | [] => None
      | _ :: prior_samples =>
        Some (prior_samples, false)
      end
    else
      Some (prior_samples, true)
  end.

Fixpoint extract_epochs_prune (fuel : nat) (tlb : Z) (prior_samples : list (Z * list Z)) (buffer_samples : Z) : option (list (Z * list Z)) :=
  match fuel with
  | O => None
  | S fuel => match extract_epochs_prune_body tlb prior_samples buffer_samples with
              | None => None
              | Some (prior_samples, true) => Some prior_samples
              | Some (prior_samples, false) => extract_epochs_prune fuel tlb prior_samples buffer_samples
              end
  end.

(* what one send(data) does to tlb and prior_samples, in source order; None = the send raises IndexError there *)
Definition extract_epochs_lookback (fuel : nat) (tlb : Z) (prior_samples : list (Z * list Z)) (buffer_samples : Z) (data : list Z) : option (Z * list (Z * list Z)) :=
  let prior_samples := (prior_samples ++ [(tlb, data)]) in
  let tlb := (tlb + (zlen data)) in
  match extract_epochs_prune fuel tlb prior_samples buffer_samples with None => None | Some prior_samples =>
  Some (tlb, prior_samples) end.

(* epoch_coroutine = capture_epoch(t0, epoch_samples, info, epochs.append, fs) *)
Definition extract_epochs_new_capture (t0 : Z) (epoch_samples : Z) (info : Z) : ce_state :=
  capture_epoch_init t0 epoch_samples info capture_epoch_default_auto_send.

(* sends of the real extract_epochs: tlb, prior_samples of the suspended frame before / after *)
Example real_send_0 : extract_epochs_lookback 2 0%Z [] (-2)%Z [] = None.
Proof. vm_compute. reflexivity. Qed.
Example real_send_1 : extract_epochs_lookback 4 14%Z [(10%Z, [56%Z; 47%Z; 4%Z]); (13%Z, [77%Z])] 3%Z [95%Z; 4%Z; 94%Z; 22%Z] = Some (18%Z, [(14%Z, [95%Z; 4%Z; 94%Z; 22%Z])]).
Proof. vm_compute. reflexivity. Qed.
Example real_send_2 : extract_epochs_lookback 4 7%Z [(2%Z, [80%Z; 17%Z; 49%Z; 9%Z; 7%Z]); (7%Z, [])] 0%Z [12%Z; 86%Z; 47%Z; 76%Z] = Some (11%Z, [(7%Z, [12%Z; 86%Z; 47%Z; 76%Z])]).
Proof. vm_compute. reflexivity. Qed.
Example real_send_3 : extract_epochs_lookback 5 6%Z [(0%Z, [28%Z; 81%Z]); (2%Z, []); (2%Z, [34%Z; 81%Z; 46%Z; 38%Z])] 7%Z [47%Z; 12%Z; 97%Z; 69%Z; 53%Z] = Some (11%Z, [(2%Z, [34%Z; 81%Z; 46%Z; 38%Z]); (6%Z, [47%Z; 12%Z; 97%Z; 69%Z; 53%Z])]).
Proof. vm_compute. reflexivity. Qed.
Example real_send_4 : extract_epochs_lookback 3 6%Z [(0%Z, [25%Z; 93%Z; 52%Z; 68%Z; 69%Z; 87%Z])] 1%Z [78%Z; 87%Z; 11%Z; 54%Z; 42%Z] = Some (11%Z, [(6%Z, [78%Z; 87%Z; 11%Z; 54%Z; 42%Z])]).
Proof. vm_compute. reflexivity. Qed.
Example real_send_5 : extract_epochs_lookback 3 11%Z [(6%Z, [78%Z; 87%Z; 11%Z; 54%Z; 42%Z])] 1%Z [52%Z; 32%Z] = Some (13%Z, [(11%Z, [52%Z; 32%Z])]).
Proof. vm_compute. reflexivity. Qed.
Example real_send_6 : extract_epochs_lookback 3 13%Z [(11%Z, [52%Z; 32%Z])] 1%Z [81%Z; 37%Z; 12%Z; 5%Z; 75%Z] = Some (18%Z, [(13%Z, [81%Z; 37%Z; 12%Z; 5%Z; 75%Z])]).
Proof. vm_compute. reflexivity. Qed.
Example real_send_7 : extract_epochs_lookback 3 18%Z [(13%Z, [81%Z; 37%Z; 12%Z; 5%Z; 75%Z])] 1%Z [83%Z; 46%Z; 62%Z; 24%Z; 65%Z; 73%Z] = Some (24%Z, [(18%Z, [83%Z; 46%Z; 62%Z; 24%Z; 65%Z; 73%Z])]).
Proof. vm_compute. reflexivity. Qed.
Example real_send_8 : extract_epochs_lookback 3 3%Z [(0%Z, [76%Z; 95%Z; 50%Z])] 0%Z [11%Z; 77%Z; 85%Z; 57%Z; 57%Z; 48%Z] = Some (9%Z, [(3%Z, [11%Z; 77%Z; 85%Z; 57%Z; 57%Z; 48%Z])]).
Proof. vm_compute. reflexivity. Qed.
Example real_send_9 : extract_epochs_lookback 3 9%Z [(3%Z, [11%Z; 77%Z; 85%Z; 57%Z; 57%Z; 48%Z])] 0%Z [54%Z; 60%Z; 38%Z; 90%Z] = Some (13%Z, [(9%Z, [54%Z; 60%Z; 38%Z; 90%Z])]).
Proof. vm_compute. reflexivity. Qed.
Example real_send_10 : extract_epochs_lookback 3 3%Z [(0%Z, [92%Z; 22%Z; 2%Z])] 0%Z [46%Z; 24%Z; 32%Z; 64%Z] = Some (7%Z, [(3%Z, [46%Z; 24%Z; 32%Z; 64%Z])]).
Proof. vm_compute. reflexivity. Qed.
Example real_send_11 : extract_epochs_lookback 3 7%Z [(3%Z, [46%Z; 24%Z; 32%Z; 64%Z])] 0%Z [53%Z; 78%Z; 62%Z] = Some (10%Z, [(7%Z, [53%Z; 78%Z; 62%Z])]).
Proof. vm_compute. reflexivity. Qed.
