(* GENERATED on every run by harness/C13.py translate() with translate/pyedges2coq.py from
   /repo/psiaudio/pipeline.py - do not edit.  Vocabulary: coq/Edges/TiePrims.v, coq/Runs/NumpyPrims.v.  Tie theorems: coq/Edges/ProofsTie.v. *)
From PV Require Import Common.ListX Common.PySlice Runs.Model Runs.NumpyPrims Edges.Model Edges.TiePrims gen.RunsGen.
Open Scope Z_scope.

(* pipeline.Events.get_range_samples, line 384 *)
Definition gen_get_range_samples (self : events) (start : Z) (end_ : Z) : option (events) :=
if ((start <? (e_start self)) || (end_ >? (e_end self)))
 then None
 else let m := (np_and (np_ge_s (df_sample (evs self)) start) (np_lt_s (df_sample (evs self)) end_)) in
bind (np_select m (evs self)) (fun t'1 =>
Some (mk_events t'1 start end_ (e_fs self))).

(* pipeline.Events.get_latest_samples, line 408 *)
Definition gen_get_latest_samples (self : events) (lb : Z) (ub : Z) : option (events) :=
let start := (lb + (e_end self)) in
let end_ := (ub + (e_end self)) in
gen_get_range_samples self start end_.
Definition gen_get_latest_samples_default_ub : Z := 0.

(* pipeline.edges, line 1080 *)
(* the body of `for lb, ub in epochs:` (line 1146) *)
Definition gen_edges_for1 (detect_ : detect) (s0 : Z) (samples : arr) (events_ : list ev) (it_ : Z * Z) : list ev :=
let '(lb, ub) := it_ in
let events_ := if ((str_in detect_ [DRising; DBoth]) && (lb >? 0))
 then let events_ := py_append events_ (Rising, (lb + s0)) in
events_
 else events_ in
let events_ := if ((str_in detect_ [DFalling; DBoth]) && (ub <? (arr_len samples)))
 then let events_ := py_append events_ (Falling, (ub + s0)) in
events_
 else events_ in
events_.
(* the locals that live from one send to the next: prior_samples, s0, fs *)
Definition gen_edges_state : Type := (arr * Z * Z)%type.

(* the statements before the first receive (None = calling edges(..) raises) *)
Definition gen_edges_setup (min_samples : Z) : option unit :=
if (min_samples <? 1)
 then None
 else Some tt.

(* the statements between the first receive and `while True:` (they run when the first chunk arrives) *)
Definition gen_edges_start (min_samples : Z) (initial_state : bool) (fs : Z) (new_samples : arr) : gen_edges_state :=
let prior_samples := (np_tile_bool initial_state min_samples) in
match c_ann new_samples with
| Some (new_samples's0, new_samples'fs) =>
let prior_samples's0 := (new_samples's0 - min_samples) in
let prior_samples'fs := new_samples'fs in
let prior_samples := pd_new prior_samples prior_samples's0 prior_samples'fs in
let s0 := prior_samples's0 in
let fs := prior_samples'fs in
(prior_samples, s0, fs)
| None =>
let s0 := (- min_samples) in
(prior_samples, s0, fs)
end.

(* one pass of the loop: from a received chunk to the next receive; the block is what target(..) was given *)
Definition gen_edges_step (fuel : nat) (min_samples : Z) (detect_ : detect) (st_ : gen_edges_state) (new_samples : arr) : option (events * gen_edges_state) :=
let '(prior_samples, s0, fs) := st_ in
let n_samples := (arr_len new_samples) in
bind (pd_concat prior_samples new_samples) (fun t'1 =>
let samples := t'1 in
bind (gen_epochs (c_data samples)) (fun t'2 =>
bind (gen_debounce_epochs fuel t'2 min_samples) (fun t'3 =>
let epochs := t'3 in
let events_ := [] in
let events_ := fold_left (gen_edges_for1 detect_ s0 samples) epochs events_ in
let events_ := (mk_events events_ s0 (s0 + n_samples) fs) in
let out_ := events_ in
let s0 := (s0 + (arr_len new_samples)) in
let prior_samples := (pd_from (- min_samples) samples) in
Some (out_, (prior_samples, s0, fs))))).
