(* GENERATED on every run by translate/pydeterm2coq.py (hook of harness/C10.py) from
   /repo/psiaudio/stim.py - do not edit.  Array handling (view / fresh / in-place write / read-only) of: FixedWaveform.reset, FixedWaveform.next, ToneFactory.reset, ToneFactory.next, SilenceFactory.reset, SilenceFactory.next, Transform.reset, GateFactory.next, fast_cache.wrapper.
   Vocabulary: coq/Determ/TieLib.v; tied to coq/Determ/Model.v by coq/Determ/ProofsTie.v. *)
From PV Require Import Common.PySlice Determ.Model Determ.TieLib.
Open Scope Z_scope.

Record fixed_st := { fixed_waveform : view; fixed_offset : Z }.
Record car_st := { car_offset : Z }.
Record silence_st := { silence_fill_value : Z }.
Record gate_st := { gate_start_samples : Z; gate_duration_samples : Z; gate_offset : Z }.

(* FixedWaveform.reset, line 104 *)
Definition gen_fixed_reset (self : fixed_st) : fixed_st :=
  let self := {| fixed_waveform := fixed_waveform self; fixed_offset := 0 |} in
  self.

(* FixedWaveform.next, line 108 *)
Definition gen_fixed_next (h : heap) (self : fixed_st) (samples : Z) : option (fixed_st * heap * view) :=
  let samples := samples in
  let waveform := (a_slice (Some (fixed_offset self)) (Some ((fixed_offset self) + samples)) (AView (fixed_waveform self))) in
  let waveform_samples := (a_len waveform) in
  match (if (waveform_samples <? samples) then (let padding := (samples - waveform_samples) in
    let pad := (a_zeros padding) in
    let waveform := (a_concat h [waveform; pad]) in
    Some waveform)
  else (let waveform := (a_copy h waveform) in
    Some waveform)) with
  | None => None
  | Some waveform =>
  let self := {| fixed_waveform := fixed_waveform self; fixed_offset := ((fixed_offset self) + samples) |} in
  let '(h, r_) := (a_ret h waveform) in
  Some (self, h, r_)
  end.

(* ToneFactory.reset, line 1053 *)
Definition gen_tone_reset (self : car_st) : car_st :=
  let self := {| car_offset := 0 |} in
  self.

(* ToneFactory.next, line 1056 *)
Definition gen_tone_next (c : Z) (h : heap) (self : car_st) (samples : Z) : option (car_st * heap * view) :=
  let samples := samples in
  let waveform := (AFresh (zrange (car_code c) (car_offset self) samples)) in
  let self := {| car_offset := ((car_offset self) + samples) |} in
  let '(h, r_) := (a_ret h waveform) in
  Some (self, h, r_).

(* SilenceFactory.reset, line 1196 *)
Definition gen_silence_reset (self : silence_st) : silence_st :=
  self.

(* SilenceFactory.next, line 1193 *)
Definition gen_silence_next (h : heap) (self : silence_st) (samples : Z) : option (silence_st * heap * view) :=
  let '(h, r_) := (a_ret h (a_full samples (silence_fill_value self))) in
  Some (self, h, r_).

(* Transform.reset, line 168 *)
Definition gen_gate_reset {I : Type} (inner_reset : I -> I) (self : gate_st) (input_factory : I) : gate_st * I :=
  let self := {| gate_start_samples := gate_start_samples self; gate_duration_samples := gate_duration_samples self; gate_offset := 0 |} in
  let input_factory := (inner_reset input_factory) in
  (self, input_factory).

(* GateFactory.next, line 215 *)
Definition gen_gate_next {I : Type} (inner_next : heap -> Z -> option (I * heap * view)) (h : heap) (self : gate_st) (samples : Z) : option (gate_st * I * heap * view) :=
  let samples := samples in
  match (inner_next h samples) with
  | None => None
  | Some (input_factory, h, token_) =>
  let token := (AView token_) in
  let lb := ((gate_start_samples self) - (gate_offset self)) in
  let ub := (lb + (gate_duration_samples self)) in
  match (if (lb >=? 0) then (match (a_set_zero h token None (Some lb)) with
    | None => None
    | Some (h, token) =>
    Some (h, token)
    end)
  else Some (h, token)) with
  | None => None
  | Some (h, token) =>
  match (a_set_zero h token (Some (Z.max ub 0)) None) with
  | None => None
  | Some (h, token) =>
  let self := {| gate_start_samples := gate_start_samples self; gate_duration_samples := gate_duration_samples self; gate_offset := ((gate_offset self) + samples) |} in
  let '(h, r_) := (a_ret h token) in
  Some (self, input_factory, h, r_)
  end
  end
  end.

(* fast_cache.wrapper, line 22 *)
Definition gen_fast_cache_wrapper (h : heap) (cache : pycache) (args : list pyval) (kw : list (Z * Z)) (f_result : pyres) : option (heap * pycache * pyobj) :=
  let key := ((args ++ [PMarker]) ++ (py_sorted (kw_items kw))) in
  match (if (negb (cache_mem key cache)) then (let '(h, result) := (res_alloc h f_result) in
    let h := fold_left (fun h a => let h := (if (is_ndarray a) then (let h := (setflags_ro h a) in
        h)
      else h) in
      h) (if (is_tuple result) then (tuple_elems result)
    else [result]) h in
    let cache := (cache_set key result cache) in
    Some (h, cache))
  else Some (h, cache)) with
  | None => None
  | Some (h, cache) =>
  match (cache_get key cache) with
  | None => None
  | Some r_ =>
  Some (h, cache, r_)
  end
  end.

