(* GENERATED on every run by harness/C18.py translate() with translate/pyruns2coq.py from
   /repo/psiaudio/util.py - do not edit.  Vocabulary: coq/Runs/NumpyPrims.v.  Tie theorems: coq/Runs/ProofsTie.v. *)
From PV Require Import Common.ListX Runs.Model Runs.NumpyPrims.
Open Scope Z_scope.

(* util.ts, line 1084 *)
Definition gen_ts (TTL : list bool) : list Z :=
(np_flatnonzero TTL).

(* util.edge_rising, line 1088 *)
Definition gen_edge_rising (TTL : list bool) : list bool :=
(np_eq_s (np_r_cons 0 (np_diff (np_astype_i TTL))) 1).

(* util.edge_falling, line 1092 *)
Definition gen_edge_falling (TTL : list bool) : list bool :=
(np_eq_s (np_r_cons 0 (np_diff (np_astype_i TTL))) (-1)).

(* util.epochs, line 1096 *)
Definition gen_epochs (x : list bool) : option (list (Z * Z)) :=
let start := (gen_ts (gen_edge_rising x)) in
let end_ := (gen_ts (gen_edge_falling x)) in
if (((zlen end_) =? 0) && ((zlen start) =? 0))
 then bind (and_lazy ((zlen x) >? 0) (bind (np_index x 0) (fun t'1 =>
Some t'1))) (fun t'2 =>
if t'2
 then Some [(0, (zlen x))]
 else Some np_empty_0_2)
 else bind (if (((zlen end_) =? 0) && ((zlen start) =? 1))
 then let end_ := (np_r_snoc end_ (zlen x)) in
Some (end_, start)
 else bind (if (((zlen end_) =? 1) && ((zlen start) =? 0))
 then let start := (np_r_cons 0 start) in
Some start
 else Some start) (fun start =>
Some (end_, start))) (fun '(end_, start) =>
bind (np_index end_ 0) (fun t'3 =>
bind (np_index start 0) (fun t'4 =>
bind (if (t'3 <? t'4)
 then let start := (np_r_cons 0 start) in
Some start
 else Some start) (fun start =>
bind (np_index end_ (-1)) (fun t'5 =>
bind (np_index start (-1)) (fun t'6 =>
bind (if (t'5 <? t'6)
 then let end_ := (np_r_snoc end_ (zlen x)) in
Some end_
 else Some end_) (fun end_ =>
bind (np_c_ start end_) (fun t'7 =>
Some t'7)))))))).

(* util.smooth_epochs, line 1135 *)
Fixpoint gen_smooth_epochs_while2 (fuel : nat) (n : Z) (epochs : list (Z * Z)) (ub : Z) (i : Z) : option (Z * Z) :=
 match fuel with O => None | S fuel =>
bind (and_lazy (i <? n) (bind (np_index2 epochs i 0) (fun t'2 =>
Some (ub >=? t'2)))) (fun t'3 =>
if t'3
 then bind (np_index2 epochs i 1) (fun t'4 =>
let ub := t'4 in
let i := (i + 1) in
gen_smooth_epochs_while2 fuel n epochs ub i)
 else Some (ub, i))
 end.
Fixpoint gen_smooth_epochs_while1 (fuel : nat) (n : Z) (epochs : list (Z * Z)) (i : Z) (smoothed : list (Z * Z)) : option (Z * list (Z * Z)) :=
 match fuel with O => None | S fuel =>
if (i <? n)
 then bind (np_index epochs i) (fun t'1 =>
let '(lb, ub) := t'1 in
let i := (i + 1) in
bind (gen_smooth_epochs_while2 fuel n epochs ub i) (fun '(ub, i) =>
let smoothed := py_append smoothed (lb, ub) in
gen_smooth_epochs_while1 fuel n epochs i smoothed))
 else Some (i, smoothed)
 end.
Definition gen_smooth_epochs (fuel : nat) (epochs : list (Z * Z)) : option (list (Z * Z)) :=
if ((zlen epochs) =? 0)
 then Some epochs
 else let epochs := (np_array epochs) in
let epochs := np_sort_axis0 epochs in
let i := 0 in
let n := (zlen epochs) in
let smoothed := [] in
bind (gen_smooth_epochs_while1 fuel n epochs i smoothed) (fun '(i, smoothed) =>
Some (np_array smoothed)).

(* util.debounce_epochs, line 1189 *)
Definition gen_debounce_epochs (fuel : nat) (epochs : list (Z * Z)) (debounce : Z) : option (list (Z * Z)) :=
let keep := (np_ge_s (np_sub (np_col1 epochs) (np_col0 epochs)) debounce) in
bind (np_select keep epochs) (fun t'1 =>
let epochs := t'1 in
let epochs := np_col1_add epochs debounce in
bind (gen_smooth_epochs fuel epochs) (fun t'2 =>
let epochs := t'2 in
let epochs := np_col1_sub epochs debounce in
Some epochs)).
