(* GENERATED on every run by harness/C16.py translate() with translate/pyexpr2coq_ext.py from
   /repo/psiaudio/util.py - do not edit.  n = s.shape[-1]; nbins = len(csd); i = np.arange(n) (sample index);
   absr = |tone_conv|; meansq = mean(s**2); sumsq = sum(|x|**2).  Array glue: see translate/c16_spec.py. *)
From Coq Require Import Reals.
From PV Require Import Calib.RBase.
Open Scope R_scope.

(* psiaudio/util.py:47  db *)
Definition u_db (target reference : R) : R :=
  (Rmult 20 (log10 (Rdiv target reference))).
(* psiaudio/util.py:54  dbi *)
Definition u_dbi (db reference : R) : R :=
  (Rmult (pow10 (Rdiv db 20)) reference).
(* psiaudio/util.py:59  dbtopa *)
Definition u_dbtopa (db : R) : R :=
  (u_dbi db (Rdiv 1 50000)).
(* psiaudio/util.py:83  patodb *)
Definition u_patodb (pa : R) : R :=
  (u_db pa (Rdiv 1 50000)).
(* psiaudio/util.py:369  spectrum_to_band_level *)
Definition u_spectrum_to_band_level (spectrum_db n : R) : R :=
  (Rplus spectrum_db (Rmult 10 (log10 n))).
(* psiaudio/util.py:401  band_to_spectrum_level *)
Definition u_band_to_spectrum_level (band_db n : R) : R :=
  (Rminus band_db (Rmult 10 (log10 n))).
(* psiaudio/util.py:116  csd  value of `scale` *)
Definition csd_scale (n : R) : R :=
  (Rdiv (Rdiv 2 n) (sqrt 2)).
(* psiaudio/util.py:127  csd_to_signal  value of `scale` *)
Definition csd_to_signal_scale (nbins : R) : R :=
  (Rdiv (Rdiv 2 (Rmult 2 (Rminus nbins 1))) (sqrt 2)).
(* psiaudio/util.py:241  tone_conv  under detrend is not None = False, window is not None = False  re part  value of `r` *)
Definition tone_conv_re (s i fs frequency : R) : R :=
  (Rmult (Rmult 2 s) (cos (Rmult (Ropp 1) (Rmult (Rmult (Rmult 2 PI) (Rdiv i fs)) frequency)))).
(* psiaudio/util.py:241  tone_conv  under detrend is not None = False, window is not None = False  im part  value of `r` *)
Definition tone_conv_im (s i fs frequency : R) : R :=
  (Rmult (Rmult 2 s) (sin (Rmult (Ropp 1) (Rmult (Rmult (Rmult 2 PI) (Rdiv i fs)) frequency)))).
(* psiaudio/util.py:255  tone_power_conv *)
Definition tone_power_of_abs (absr : R) : R :=
  (Rdiv absr (sqrt 2)).
(* psiaudio/util.py:423  rms  under detrend = False *)
Definition rms_of_meansq (meansq : R) : R :=
  (sqrt meansq).
(* psiaudio/util.py:431  rms_rfft *)
Definition rms_rfft_of_sumsq (sumsq : R) : R :=
  (sqrt sumsq).
