(* GENERATED on every run by harness/C12.py translate() with translate/pycoro2coq.py from
   /repo/psiaudio/pipeline.py - do not edit.  One pass of each coroutine from (yield) to (yield). *)
From PV Require Import Stages.Model.
Open Scope Z_scope.

(* vocabulary of translate/pycoro2coq.py (fixed text) *)
Definition py_mod (a b : Z) : option Z := if b =? 0 then None else Some (a mod b).        (* ZeroDivisionError *)
Definition py_floordiv (a b : Z) : option Z := if b =? 0 then None else Some (a / b).
(* truth of len(x): samples of a 1-D array, channels (never 0) of a 2-D one *)
Definition py_len_true {A} (x : blk A) : bool := if two x then true else negb (zlen (dat x) =? 0).
(* PipelineData(arr, fs, s0, channel, metadata) *)
Definition new_pd {A} (x : blk A) (fsd s0 : Z) (ch : option (list Z)) (md : Z) : blk A :=
  Blk (dat x) (two x) (Some (An s0 fsd ch md)).
(* np.full(shape of `like` with last axis 1, fill_value=v): a plain array *)
Definition np_full1 {A} (like : blk A) (v : A) : blk A := Blk [v] (two like) None.
(* np.diff(x) * x.fs for annotated x: x[..., 1:] - x[..., :-1], annotations of x[..., 1:]; `* fs` is part of sub *)
Definition np_diff_fs {A} (sub : A -> A -> A) (x : blk A) : blk A :=
  let hi := getitem (Some 1) None None x in
  Blk (match dat x with [] => [] | p :: t => diff_from sub p t end) (two hi) (an hi).
(* signal.lfilter(b, a, y, zi=zf, axis=-1): (plain array of the filtered samples, final state) *)
Definition lfilter {F A} (filt : F -> A -> F * A) (zf : F) (y : blk A) : blk A * F :=
  let '(z, yf) := mapAccum filt zf (dat y) in (Blk yf (two y) None, z).
(* second batch: rms, event_rate, transform, mc_reference, iirfilter *)
Definition set_ch {A} (c : option (list Z)) (b : blk A) : blk A :=
  Blk (dat b) (two b) (option_map (fun a => An (a_s0 a) (a_fsd a) c (a_md a)) (an b)).
Definition py_last {X} (l : list X) : option X := match rev l with [] => None | x :: _ => Some x end.  (* l[-1]: IndexError *)
Definition sum_len {A} (l : list (blk A)) : Z := fold_right (fun d acc => zlen (dat d) + acc) 0 l.
(* np.mean(d ** 2, axis=-1) ** 0.5 for d reshaped to [.., n_blocks, n] (integer samples squared in double): one value per
   block (abstract agg); PipelineData.mean divides fs and the float s0 by n (s0div); a reshaped 1-D array carries the
   channel list [None] * n_blocks *)
Definition rms_value {A O} (agg : list A -> O) (s0div : Z -> Z) (n n_blocks : Z) (d : blk A) : blk O :=
  Blk (map agg (chop (Z.to_nat n_blocks) (Z.to_nat n) (dat d))) (two d)
      (option_map (fun a => An (s0div (a_s0 a)) (a_fsd a * n)
                               (if two d then a_ch a else Some (repeat 0 (Z.to_nat n_blocks))) (a_md a)) (an d)).
(* function(data) for an elementwise function / matrix @ data (one column of all channels = one sample) *)
Definition map_blk {A O} (g : A -> O) (x : blk A) : blk O := Blk (map g (dat x)) (two x) (an x).

(* ---------------- pipeline.discard (line 1007) ---------------- *)
Definition discard_gen_init {A : Type} (discard_samples : Z) : Z :=
  let to_discard := discard_samples in
  to_discard.

Definition discard_gen_step {A : Type} (discard_samples : Z) (st : Z) (chunk : blk A)
  : option (Z * list (blk A)) :=
  let to_discard := st in
  let outs : list (blk A) := [] in
  let samples := chunk in
  if (to_discard =? 0) then
    let outs := outs ++ [samples] in
    Some (to_discard, outs)
  else
    if (zlen (dat samples) <=? to_discard) then
      let to_discard := to_discard - zlen (dat samples) in
      Some (to_discard, outs)
    else
      if (zlen (dat samples) >? to_discard) then
        let samples := getitem (Some to_discard) None None samples in
        let to_discard := 0 in
        let outs := outs ++ [samples] in
        Some (to_discard, outs)
      else
        Some (to_discard, outs).

(* ---------------- pipeline.blocked (line 607) ---------------- *)
Definition blocked_gen_init {A : Type} (block_size : Z) : list (blk A) * Z :=
  let data := [] in
  let n := 0 in
  (data, n).

Fixpoint blocked_gen_loop1 {A : Type} (fuel : nat) (block_size : Z) (merged : blk A) (outs : list (blk A))
  : option (blk A * list (blk A)) :=
  if (zlen (dat merged) >=? block_size) then
    match fuel with
    | O => None (* the loop does not terminate *)
    | S fuel =>
      let block := getitem None (Some block_size) None merged in
      let outs := outs ++ [block] in
      let merged := getitem (Some block_size) None None merged in
      blocked_gen_loop1 fuel block_size (merged) (outs)
    end
  else Some (merged, outs).

Definition blocked_gen_step {A : Type} (block_size : Z) (st : list (blk A) * Z) (chunk : blk A)
  : option ((list (blk A) * Z) * list (blk A)) :=
  let '(data, n) := st in
  let outs : list (blk A) := [] in
  let d := chunk in
  let n := n + zlen (dat d) in
  let data := data ++ [d] in
  if (n >=? block_size) then
    match concat_list data with
    | None => None
    | Some merged =>
      match blocked_gen_loop1 (length (dat merged)) block_size merged outs with
      | None => None
      | Some (merged, outs) =>
        let data := [merged] in
        let n := zlen (dat merged) in
        Some ((data, n), outs)
      end
    end
  else
    Some ((data, n), outs).

(* ---------------- pipeline.downsample (line 933) ---------------- *)
Definition downsample_gen_init {A : Type} (q : Z) : option (blk A) * option Z :=
  let y_remainder : option (blk A) := None in
  let s0 : option Z := None in
  (y_remainder, s0).

Definition downsample_gen_step {A : Type} (q : Z) (st : option (blk A) * option Z) (chunk : blk A)
  : option ((option (blk A) * option Z) * list (blk A)) :=
  let '(y_remainder, s0) := st in
  let outs : list (blk A) := [] in
  match (
    match y_remainder with
    | None =>
      let y := chunk in
      Some y
    | Some y_remainder =>
      let y_new := chunk in
      match concat2 y_remainder y_new with
      | None => None
      | Some y =>
        Some y
      end
    end
  ) with
  | None => None
  | Some y =>
    let s0 := (
      match s0 with
      | None =>
        let s0 := s0_of y in
        s0
      | Some s0 =>
        s0
      end
    ) in
    match py_mod (zlen (dat y)) (q) with
    | None => None
    | Some remainder =>
      let '(y, y_remainder) := (
        if negb (remainder =? 0) then
          let y_remainder := getitem (Some (- remainder)) None None y in
          let y := getitem None (Some (- remainder)) None y in
          (y, Some y_remainder)
        else
          let y_remainder : option (blk A) := None in
          (y, y_remainder)
      ) in
      let result := getitem None None (Some q) y in
      let result := (
        match an result with
        | Some result_an =>
          let result := set_s0 s0 result in
          result
        | None =>
          result
        end
      ) in
      let s0 := s0 + zlen (dat result) in
      if py_len_true result then
        let outs := outs ++ [result] in
        Some ((y_remainder, Some s0), outs)
      else
        Some ((y_remainder, Some s0), outs)
    end
  end.

(* ---------------- pipeline.derivative (line 1249) ---------------- *)
Definition derivative_gen_body {A : Type} (sub : A -> A -> A) (init : A) (initial_state : blk A) (new_samples : blk A)
  : option (option (blk A) * list (blk A)) :=
  let outs : list (blk A) := [] in
  match concat2 initial_state new_samples with
  | None => None
  | Some samples =>
    match an samples with
    | None => None (* AttributeError: .fs *)
    | Some _ =>
      let outs := outs ++ [np_diff_fs sub samples] in
      let initial_state := getitem (Some (-1)) None None samples in
      Some (Some initial_state, outs)
    end
  end.

Definition derivative_gen_step {A : Type} (sub : A -> A -> A) (init : A) (st : option (blk A)) (chunk : blk A)
  : option (option (blk A) * list (blk A)) :=
  match st with
  | None =>
    let new_samples := chunk in
    let initial_state := np_full1 new_samples init in
    match an new_samples with
    | Some new_samples_an =>
      let initial_state := new_pd initial_state (a_fsd new_samples_an) (a_s0 new_samples_an - 1) (a_ch new_samples_an) (a_md new_samples_an) in
      derivative_gen_body sub init (initial_state) new_samples
    | None =>
      derivative_gen_body sub init (initial_state) new_samples
    end
  | Some initial_state =>
    derivative_gen_body sub init initial_state chunk
  end.

(* ---------------- pipeline.decimate (line 962) ---------------- *)
Definition decimate_gen_body {F A : Type} (filt : F -> A -> F * A) (zf0 : F) (q : Z) (s0 : Z) (zf : F) (y_remainder : option (blk A)) (y : blk A)
  : option (option (Z * F * option (blk A)) * list (blk A)) :=
  let outs : list (blk A) := [] in
  if (zlen (dat y) =? 0) then
    Some (Some (s0, zf, y_remainder), outs)
  else
    let '(y_filt, zf) := lfilter filt zf y in
    let y_filt := (
      match an y with
      | Some y_an =>
        let y_filt := new_pd y_filt (a_fsd y_an) (a_s0 y_an) (a_ch y_an) (a_md y_an) in
        y_filt
      | None =>
        y_filt
      end
    ) in
    match (
      match y_remainder with
      | Some y_remainder =>
        match concat2 y_remainder y_filt with
        | None => None
        | Some y_filt =>
          Some y_filt
        end
      | None =>
        Some y_filt
      end
    ) with
    | None => None
    | Some y_filt =>
      match py_mod (zlen (dat y_filt)) (q) with
      | None => None
      | Some remainder =>
        let '(y_filt, y_remainder) := (
          if negb (remainder =? 0) then
            let y_remainder := getitem (Some (- remainder)) None None y_filt in
            let y_filt := getitem None (Some (- remainder)) None y_filt in
            (y_filt, Some y_remainder)
          else
            let y_remainder : option (blk A) := None in
            (y_filt, y_remainder)
        ) in
        let result := getitem None None (Some q) y_filt in
        let result := (
          match an result with
          | Some result_an =>
            let result := set_s0 s0 result in
            result
          | None =>
            result
          end
        ) in
        let s0 := s0 + zlen (dat result) in
        if (zlen (dat result) >? 0) then
          let outs := outs ++ [result] in
          Some (Some (s0, zf, y_remainder), outs)
        else
          Some (Some (s0, zf, y_remainder), outs)
      end
    end.

Definition decimate_gen_step {F A : Type} (filt : F -> A -> F * A) (zf0 : F) (q : Z) (st : option (Z * F * option (blk A))) (chunk : blk A)
  : option (option (Z * F * option (blk A)) * list (blk A)) :=
  match st with
  | None =>
    let y := chunk in
    let s0 := s0_of y in
    let zf := zf0 in
    let y_remainder : option (blk A) := None in
    decimate_gen_body filt zf0 q (s0) (zf) (y_remainder) y
  | Some (s0, zf, y_remainder) =>
    decimate_gen_body filt zf0 q s0 zf y_remainder chunk
  end.

(* ---------------- pipeline.rms (line 498) ---------------- *)
Definition rms_gen_body {A O : Type} (agg : list A -> O) (s0div : Z -> Z) (s0add : Z -> Z -> Z) (n : Z) (data : list (blk A)) (samples : Z) (out_s0 : option Z)
  : option (option (list (blk A) * Z * option Z) * list (blk O)) :=
  let outs : list (blk O) := [] in
  if (samples >=? n) then
    match concat_list data with
    | None => None
    | Some data =>
      match py_floordiv (zlen (dat data)) (n) with
      | None => None
      | Some n_blocks =>
        let n_samples := (n_blocks * n) in
        let d := getitem None (Some n_samples) None data in
        let result := rms_value agg s0div n n_blocks d in
        match (
          match an result with
          | Some result_an =>
            match an data with
            | None => None (* AttributeError *)
            | Some data_an =>
              let result := set_ch (a_ch data_an) result in
              let result_an := An (a_s0 result_an) (a_fsd result_an) (a_ch data_an) (a_md result_an) in
              let out_s0 := (
                match out_s0 with
                | None =>
                  let out_s0 := a_s0 result_an in
                  out_s0
                | Some out_s0 =>
                  out_s0
                end
              ) in
              let result := set_s0 out_s0 result in
              let out_s0 := s0add out_s0 n_blocks in
              Some (Some out_s0, result)
            end
          | None =>
            Some (out_s0, result)
          end
        ) with
        | None => None
        | Some (out_s0, result) =>
          let outs := outs ++ [result] in
          let d := getitem (Some n_samples) None None data in
          let samples := zlen (dat d) in
          let data := [d] in
          Some (Some (data, samples, out_s0), outs)
        end
      end
    end
  else
    Some (Some (data, samples, out_s0), outs).

Definition rms_gen_step {A O : Type} (agg : list A -> O) (s0div : Z -> Z) (s0add : Z -> Z -> Z) (n : Z) (st : option (list (blk A) * Z * option Z)) (chunk : blk A)
  : option (option (list (blk A) * Z * option Z) * list (blk O)) :=
  match st with
  | None =>
    let data := [chunk] in
    let samples := sum_len data in
    let out_s0 : option Z := None in
    rms_gen_body agg s0div s0add n (data) (samples) (out_s0)
  | Some (data, samples, out_s0) =>
    let data := data ++ [chunk] in
    match py_last data with
    | None => None (* IndexError *)
    | Some data_last =>
      let samples := samples + zlen (dat data_last) in
      rms_gen_body agg s0div s0add n (data) (samples) (out_s0)
    end
  end.

(* ---------------- pipeline.event_rate (line 1281) ---------------- *)
Fixpoint event_rate_gen_loop1  (fuel : nat) (block_size : Z) (block_step : Z) (blocks : list events) (evts : events)
  : option (list events * events) :=
  if ((e_hi evts - e_lo evts) >? block_size) then
    match fuel with
    | O => None (* the loop does not terminate *)
    | S fuel =>
      match get_range evts (e_lo evts) (e_lo evts + block_size) with
      | None => None
      | Some block =>
        let blocks := blocks ++ [block] in
        let start := (e_lo evts + block_step) in
        let evts := trim_left evts start in
        event_rate_gen_loop1 fuel block_size block_step (blocks) (evts)
      end
    end
  else Some (blocks, evts).

Definition event_rate_gen_body  (block_size : Z) (block_step : Z) (evts : events) (s0 : Z)
  : option (option (events * Z) * list rblk) :=
  let outs : list rblk := [] in
  let blocks := [] in
  match event_rate_gen_loop1 (Z.to_nat (e_hi evts - e_lo evts)) block_size block_step blocks evts with
  | None => None
  | Some (blocks, evts) =>
    match blocks with
    | _ :: _ =>
      let rate := map (fun b => zlen (evs b)) blocks in
      let data := Rb rate s0 block_step in
      let outs := outs ++ [data] in
      let s0 := s0 + 2 * zlen rate in
      Some (Some (evts, s0), outs)
    | [] =>
      Some (Some (evts, s0), outs)
    end
  end.

Definition event_rate_gen_step  (block_size : Z) (block_step : Z) (st : option (events * Z)) (chunk : events)
  : option (option (events * Z) * list rblk) :=
  match st with
  | None =>
    let evts := chunk in
    let s0 := 2 * e_lo evts + block_size in
    event_rate_gen_body block_size block_step (evts) (s0)
  | Some (evts, s0) =>
    match combine_events evts chunk with
    | None => None
    | Some evts =>
      event_rate_gen_body block_size block_step (evts) (s0)
    end
  end.

(* ---------------- pipeline.transform (line 485) ---------------- *)
Definition transform_gen_init {A O : Type} (g : A -> O) : unit :=
  tt.

Definition transform_gen_step {A O : Type} (g : A -> O) (st : unit) (chunk : blk A)
  : option (unit * list (blk O)) :=
  let _ := st in
  let outs : list (blk O) := [] in
  let data := chunk in
  let outs := outs ++ [map_blk g data] in
  Some (tt, outs).

(* ---------------- pipeline.mc_reference (line 1340) ---------------- *)
Definition mc_reference_gen_init {A O : Type} (g : A -> O) : unit :=
  tt.

Definition mc_reference_gen_step {A O : Type} (g : A -> O) (st : unit) (chunk : blk A)
  : option (unit * list (blk O)) :=
  let _ := st in
  let outs : list (blk O) := [] in
  let data := map_blk g chunk in
  let outs := outs ++ [data] in
  Some (tt, outs).

(* ---------------- pipeline.iirfilter (line 580) ---------------- *)
Definition iirfilter_gen_body {F A : Type} (filt : F -> A -> F * A) (finit : A -> F) (zo : F) (y : blk A)
  : option (option (F) * list (blk A)) :=
  let outs : list (blk A) := [] in
  if (zlen (dat y) =? 0) then
    Some (Some zo, outs)
  else
    let '(y_filt, zo) := lfilter filt zo y in
    let y_filt := (
      match an y with
      | Some y_an =>
        let y_filt := new_pd y_filt (a_fsd y_an) (a_s0 y_an) (a_ch y_an) (a_md y_an) in
        y_filt
      | None =>
        y_filt
      end
    ) in
    let outs := outs ++ [y_filt] in
    Some (Some zo, outs).

Definition iirfilter_gen_step {F A : Type} (filt : F -> A -> F * A) (finit : A -> F) (st : option (F)) (chunk : blk A)
  : option (option (F) * list (blk A)) :=
  match st with
  | None =>
    let y := chunk in
    if (zlen (dat y) =? 0) then
      Some (None, []) (* keeps waiting *)
    else
      match dat y with
      | [] => None (* no first sample to scale the state with *)
      | y_first :: _ =>
        let zo := finit y_first in
        iirfilter_gen_body filt finit (zo) y
      end
  | Some zo =>
    iirfilter_gen_body filt finit zo chunk
  end.

(* ---------------- pipeline.auto_th (line 1177) ---------------- *)
Definition auto_th_gen_body {A T O : Type} (thr : list A -> T) (ge : T -> A -> O) (baseline_samples : Z) (auto_th : T) (data : blk A)
  : option ((option (blk A) + T) * list (blk O)) :=
  let outs : list (blk O) := [] in
  let result := map_blk (ge auto_th) data in
  let outs := outs ++ [result] in
  Some (inr auto_th, outs).

Definition auto_th_gen_spool {A T O : Type} (thr : list A -> T) (ge : T -> A -> O) (baseline_samples : Z) (data : blk A)
  : option ((option (blk A) + T) * list (blk O)) :=
  if (zlen (dat data) <? baseline_samples) then
    Some (inl (Some data), []) (* keeps spooling *)
  else
    let auto_th := thr (py_slice None (Some baseline_samples) (dat data)) in
    auto_th_gen_body thr ge baseline_samples (auto_th) data.

Definition auto_th_gen_step {A T O : Type} (thr : list A -> T) (ge : T -> A -> O) (baseline_samples : Z) (st : option (blk A) + T) (chunk : blk A)
  : option ((option (blk A) + T) * list (blk O)) :=
  match st with
  | inl None =>
    let data := chunk in
    auto_th_gen_spool thr ge baseline_samples data
  | inl (Some data) =>
    match concat2 data chunk with
    | None => None
    | Some data =>
      auto_th_gen_spool thr ge baseline_samples data
    end
  | inr auto_th =>
    auto_th_gen_body thr ge baseline_samples auto_th chunk
  end.

(* ---------------- self-test instances ---------------- *)
Definition gcheck_discard (d : Z) h s0 sizes got : bool :=
  eqb_outs (outs_of (run (discard_gen_step d) (@discard_gen_init Z d) (inputs h s0 sizes))) got.
Definition gcheck_blocked (bs : Z) h s0 sizes got : bool :=
  eqb_outs (outs_of (run (blocked_gen_step bs) (blocked_gen_init bs) (inputs h s0 sizes))) got.
Definition gcheck_downsample (q : Z) h s0 sizes got : bool :=
  eqb_outs (outs_of (run (downsample_gen_step q) (downsample_gen_init q) (inputs h s0 sizes))) got.
Definition gcheck_derivative h s0 sizes got : bool :=
  eqb_outs (outs_of (run (derivative_gen_step ssub (-1)) None (inputs h s0 sizes))) got.
Definition gcheck_decimate (q : Z) h s0 sizes got : bool :=
  eqb_outs (outs_of (run (decimate_gen_step sfilt 0 q) None (inputs h s0 sizes))) got.
Definition gcheck_rms (n : Z) h s0 sizes got : bool :=
  eqb_outs (outs_of (run (rms_gen_step (sagg n) (fun s => s / n) Z.add n) None (inputs h s0 sizes))) got.
Definition gcheck_rms_x (n : Z) h s0 sizes got : bool :=
  eqb_outs (outs_of (run (rms_gen_step (sagg n) (fun s => s) (fun t k => t + n * k) n) None (inputs h s0 sizes))) got.
Definition gcheck_event_rate (bsz stp : Z) (cs : list events) (got : option (list rblk)) : bool :=
  eqb_option (eqb_list eqb_rblk) (outs_of (run (event_rate_gen_step bsz stp) None cs)) got.
Definition gcheck_transform h s0 sizes got : bool :=
  eqb_outs (outs_of (run (transform_gen_step (fun x : Z => x)) (transform_gen_init (fun x : Z => x)) (inputs h s0 sizes))) got.
Definition gcheck_mc_reference h s0 sizes got : bool :=
  eqb_outs (outs_of (run (mc_reference_gen_step (fun x : Z => x)) (mc_reference_gen_init (fun x : Z => x)) (inputs h s0 sizes))) got.
Definition gcheck_iirfilter h s0 sizes got : bool :=
  eqb_outs (outs_of (run (iirfilter_gen_step sfilt sfinit) None (inputs h s0 sizes))) got.
Definition gcheck_auto_th (Bn : Z) (table : list Z) h s0 sizes got : bool :=
  eqb_outs (outs_of (run (auto_th_gen_step (sthr Bn) (sge table) Bn) (inl None) (inputs h s0 sizes))) got.
