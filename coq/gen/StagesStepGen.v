(* GENERATED on every run by harness/C12.py translate() with translate/pycoro2coq.py from
   /tmp/mt-1972-23675/psiaudio/pipeline.py - do not edit.  One pass of each coroutine from (yield) to (yield). *)
From Coq Require Import ZArith String.
Definition translator_gap : Z :=
  "name that is not a defined variable of a known type  line 1227 : `mode`"%string.
