(* GENERATED on every run by harness/C14.py translate() with translate/pybuffer2coq.py from
   /repo/psiaudio/buffer.py (class SignalBuffer) - do not edit.  One definition per method, statement by statement;
   record fields: cap = _buffer_samples, S = _samples, ilb = _ilb, buf = _buffer (one channel), fillv = _fill_value;
   times in sample units.  Tied to the hand-written model by coq/Buffer/ProofsTie.v. *)
From PV Require Import Common.PySlice Buffer.Model Buffer.TieLib.
Local Open Scope Z_scope.

(* samples_to_index, line 88 *)
Definition g_samples_to_index (self : bstate) (v_i : Z) : Z :=
  ((v_i - (S self)) + (cap self)).

(* get_samples_lb, line 235 *)
Definition g_get_samples_lb (self : bstate) : Z :=
  (((S self) - (cap self)) + (ilb self)).

(* get_samples_ub, line 239 *)
Definition g_get_samples_ub (self : bstate) : Z :=
  (S self).

(* __init__, line 10 *)
Definition g_init (v_buffer_samples : Z) (v_fill_value : Z) : mres :=
  let self := new_object in
  let self := set_cap self v_buffer_samples in
  let v_shape := (cap self) in
  mtry (np_full v_shape v_fill_value) self (fun r =>
  let self := set_buf self r in
  let self := set_fillv self v_fill_value in
  let self := set_S self 0%Z in
  let self := set_ilb self (cap self) in
  MOk self).

(* append_data, line 148 *)
Definition g_append_data (self : bstate) (v_data : list Z) : mres :=
  let v_samples := (zlen v_data) in
  if (v_samples =? 0%Z) then
    MOk self
  else
    if (v_samples >? (cap self)) then
      mtry (np_set_slice None None (py_slice (Some (- (cap self))) None v_data) (buf self)) self (fun r =>
      let self := set_buf self r in
      let self := set_ilb self 0%Z in
      let self := set_S self ((S self) + v_samples) in
      MOk self)
    else
      mtry (np_set_slice None (Some (- v_samples)) (py_slice (Some v_samples) None (buf self)) (buf self)) self (fun r =>
      let self := set_buf self r in
      mtry (np_set_slice (Some (- v_samples)) None v_data (buf self)) self (fun r =>
      let self := set_buf self r in
      let self := set_ilb self (Z.max 0%Z ((ilb self) - v_samples)) in
      let self := set_S self ((S self) + v_samples) in
      MOk self)).

(* _invalidate, line 172 *)
Definition g__invalidate (self : bstate) (v_i : Z) : mres :=
  if (v_i <=? (ilb self)) then
    let self := set_buf self (py_set_const None None (fillv self) (buf self)) in
    let self := set_ilb self (cap self) in
    MOk self
  else
    mtry (np_set_slice (Some (- v_i)) None (py_slice None (Some v_i) (buf self)) (buf self)) self (fun r =>
    let self := set_buf self r in
    let self := set_buf self (py_set_const None (Some (- v_i)) (fillv self) (buf self)) in
    let self := set_ilb self (((ilb self) + (cap self)) - v_i) in
    MOk self).

(* time_to_index, line 80 *)
Definition g_time_to_index (self : bstate) (v_t : Z) : Z :=
  let v_i := v_t in
  (g_samples_to_index self v_i).

(* get_range_samples, line 129 *)
Definition g_get_range_samples (self : bstate) (v_lb : option Z) (v_ub : option Z) : res (list Z) :=
  let v_lb := match v_lb with None => (g_get_samples_lb self) | Some v_lb => v_lb end in
  let v_ub := match v_ub with None => (g_get_samples_ub self) | Some v_ub => v_ub end in
  let v_ilb := (g_samples_to_index self v_lb) in
  let v_iub := (g_samples_to_index self v_ub) in
  if (v_ilb <? (ilb self)) then
    Raise EIndexError
  else
    if (v_iub >? (cap self)) then
      Raise EIndexError
    else
      Ret (py_slice (Some v_ilb) (Some v_iub) (buf self)).

(* invalidate_samples, line 188 *)
Definition g_invalidate_samples (self : bstate) (v_i : Z) : mres :=
  if (v_i >=? (S self)) then
    MOk self
  else
    let v_bi := (g_samples_to_index self v_i) in
    mseq (g__invalidate self v_bi) (fun self =>
    let v_di := ((g_get_samples_ub self) - v_i) in
    let self := set_S self ((S self) - v_di) in
    MOk self).

(* get_range_filled, line 93 *)
Definition g_get_range_filled (self : bstate) (v_lb : Z) (v_ub : Z) (v_fill_value : Z) : res (list Z) :=
  let v_ilb := v_lb in
  let v_iub := v_ub in
  let v_slb := (g_get_samples_lb self) in
  let v_sub := (g_get_samples_ub self) in
  let v_lpadding := (Z.min (Z.max (v_slb - v_ilb) 0%Z) (v_iub - v_ilb)) in
  let v_elb := (Z.min (Z.max v_slb v_ilb) v_sub) in
  let v_rpadding := (Z.min (Z.max (v_iub - v_sub) 0%Z) (v_iub - v_ilb)) in
  let v_eub := (Z.min (Z.max v_slb v_iub) v_sub) in
  rbind (g_get_range_samples self (Some v_elb) (Some v_eub)) (fun v_data =>
  (np_pad v_data v_lpadding v_rpadding v_fill_value)).

(* invalidate, line 184 *)
Definition g_invalidate (self : bstate) (v_t : Z) : mres :=
  mseq (g_invalidate_samples self v_t) (fun self =>
  MOk self).

(* get_latest, line 197 *)
Definition g_get_latest (self : bstate) (v_lb : Z) (v_ub : Z) (v_fill_value : option Z) : res (list Z) :=
  let v_lb := (v_lb + (g_get_samples_ub self)) in
  let v_ub := (v_ub + (g_get_samples_ub self)) in
  match v_fill_value with
  | None =>
    (g_get_range_samples self (Some v_lb) (Some v_ub))
  | Some v_fill_value =>
    (g_get_range_filled self v_lb v_ub v_fill_value)
  end.

(* resize, line 54 *)
Definition g_resize (self : bstate) (v_size : Z) : mres :=
  let v_old_samples := (cap self) in
  mtry (g_get_latest self (- v_size) 0%Z (Some (fillv self))) self (fun r =>
  let self := set_buf self r in
  let self := set_cap self (zlen (buf self)) in
  let v_new_samples := (cap self) in
  let self := set_ilb self (Z.max 0%Z ((ilb self) + (v_new_samples - v_old_samples))) in
  MOk self).

(* ---- self-test: what the real methods did on the real object (fs = 1) ---- *)
Example selftest_0 :
  g_init 4 7 = MOk {| cap := 4; S := 0; ilb := 4; buf := [7; 7; 7; 7]; fillv := 7 |}.
Proof. vm_compute. reflexivity. Qed.
Example selftest_1 :
  g_samples_to_index {| cap := 4; S := 15; ilb := 0; buf := [12; 13; 14; 15]; fillv := 7 |} 11 = 0.
Proof. vm_compute. reflexivity. Qed.
Example selftest_2 :
  g_time_to_index {| cap := 4; S := 15; ilb := 0; buf := [12; 13; 14; 15]; fillv := 7 |} 11 = 0.
Proof. vm_compute. reflexivity. Qed.
Example selftest_3 :
  g_get_samples_lb {| cap := 4; S := 15; ilb := 0; buf := [12; 13; 14; 15]; fillv := 7 |} = 11.
Proof. vm_compute. reflexivity. Qed.
Example selftest_4 :
  g_get_samples_ub {| cap := 4; S := 15; ilb := 0; buf := [12; 13; 14; 15]; fillv := 7 |} = 15.
Proof. vm_compute. reflexivity. Qed.
Example selftest_5 :
  g_get_range_samples {| cap := 4; S := 15; ilb := 0; buf := [12; 13; 14; 15]; fillv := 7 |} (Some 10) (Some 16) = Raise EIndexError.
Proof. vm_compute. reflexivity. Qed.
Example selftest_6 :
  g_get_range_samples {| cap := 4; S := 15; ilb := 0; buf := [12; 13; 14; 15]; fillv := 7 |} None (Some 16) = Raise EIndexError.
Proof. vm_compute. reflexivity. Qed.
Example selftest_7 :
  g_get_range_samples {| cap := 4; S := 15; ilb := 0; buf := [12; 13; 14; 15]; fillv := 7 |} (Some 10) None = Raise EIndexError.
Proof. vm_compute. reflexivity. Qed.
Example selftest_8 :
  g_get_range_samples {| cap := 4; S := 15; ilb := 0; buf := [12; 13; 14; 15]; fillv := 7 |} None None = Ret [12; 13; 14; 15].
Proof. vm_compute. reflexivity. Qed.
Example selftest_9 :
  g_get_range_filled {| cap := 4; S := 15; ilb := 0; buf := [12; 13; 14; 15]; fillv := 7 |} 10 16 9 = Ret [9; 12; 13; 14; 15; 9].
Proof. vm_compute. reflexivity. Qed.
Example selftest_10 :
  g_get_latest {| cap := 4; S := 15; ilb := 0; buf := [12; 13; 14; 15]; fillv := 7 |} (-5) 1 None = Raise EIndexError.
Proof. vm_compute. reflexivity. Qed.
Example selftest_11 :
  g_get_latest {| cap := 4; S := 15; ilb := 0; buf := [12; 13; 14; 15]; fillv := 7 |} (-5) 1 (Some 9) = Ret [9; 12; 13; 14; 15; 9].
Proof. vm_compute. reflexivity. Qed.
Example selftest_12 :
  g_append_data {| cap := 4; S := 15; ilb := 0; buf := [12; 13; 14; 15]; fillv := 7 |} [] = MOk {| cap := 4; S := 15; ilb := 0; buf := [12; 13; 14; 15]; fillv := 7 |}.
Proof. vm_compute. reflexivity. Qed.
Example selftest_13 :
  g_append_data {| cap := 4; S := 15; ilb := 0; buf := [12; 13; 14; 15]; fillv := 7 |} [500] = MOk {| cap := 4; S := 16; ilb := 0; buf := [13; 14; 15; 500]; fillv := 7 |}.
Proof. vm_compute. reflexivity. Qed.
Example selftest_14 :
  g_append_data {| cap := 4; S := 15; ilb := 0; buf := [12; 13; 14; 15]; fillv := 7 |} [500; 501; 502; 503; 504] = MOk {| cap := 4; S := 20; ilb := 0; buf := [501; 502; 503; 504]; fillv := 7 |}.
Proof. vm_compute. reflexivity. Qed.
Example selftest_15 :
  g__invalidate {| cap := 4; S := 15; ilb := 0; buf := [12; 13; 14; 15]; fillv := 7 |} 3 = MOk {| cap := 4; S := 15; ilb := 1; buf := [7; 12; 13; 14]; fillv := 7 |}.
Proof. vm_compute. reflexivity. Qed.
Example selftest_16 :
  g_invalidate_samples {| cap := 4; S := 15; ilb := 0; buf := [12; 13; 14; 15]; fillv := 7 |} 15 = MOk {| cap := 4; S := 15; ilb := 0; buf := [12; 13; 14; 15]; fillv := 7 |}.
Proof. vm_compute. reflexivity. Qed.
Example selftest_17 :
  g_invalidate {| cap := 4; S := 15; ilb := 0; buf := [12; 13; 14; 15]; fillv := 7 |} 16 = MOk {| cap := 4; S := 15; ilb := 0; buf := [12; 13; 14; 15]; fillv := 7 |}.
Proof. vm_compute. reflexivity. Qed.
Example selftest_18 :
  g_resize {| cap := 4; S := 15; ilb := 0; buf := [12; 13; 14; 15]; fillv := 7 |} 3 = MOk {| cap := 3; S := 15; ilb := 0; buf := [13; 14; 15]; fillv := 7 |}.
Proof. vm_compute. reflexivity. Qed.
Example selftest_19 :
  g_init 5 (-1) = MOk {| cap := 5; S := 0; ilb := 5; buf := [(-1); (-1); (-1); (-1); (-1)]; fillv := (-1) |}.
Proof. vm_compute. reflexivity. Qed.
Example selftest_20 :
  g_samples_to_index {| cap := 5; S := 14; ilb := 0; buf := [25; 26; 27; 28; 29]; fillv := (-1) |} 16 = 7.
Proof. vm_compute. reflexivity. Qed.
Example selftest_21 :
  g_time_to_index {| cap := 5; S := 14; ilb := 0; buf := [25; 26; 27; 28; 29]; fillv := (-1) |} 16 = 7.
Proof. vm_compute. reflexivity. Qed.
Example selftest_22 :
  g_get_samples_lb {| cap := 5; S := 14; ilb := 0; buf := [25; 26; 27; 28; 29]; fillv := (-1) |} = 9.
Proof. vm_compute. reflexivity. Qed.
Example selftest_23 :
  g_get_samples_ub {| cap := 5; S := 14; ilb := 0; buf := [25; 26; 27; 28; 29]; fillv := (-1) |} = 14.
Proof. vm_compute. reflexivity. Qed.
Example selftest_24 :
  g_get_range_samples {| cap := 5; S := 14; ilb := 0; buf := [25; 26; 27; 28; 29]; fillv := (-1) |} (Some 15) (Some 10) = Ret [].
Proof. vm_compute. reflexivity. Qed.
Example selftest_25 :
  g_get_range_samples {| cap := 5; S := 14; ilb := 0; buf := [25; 26; 27; 28; 29]; fillv := (-1) |} None (Some 10) = Ret [25].
Proof. vm_compute. reflexivity. Qed.
Example selftest_26 :
  g_get_range_samples {| cap := 5; S := 14; ilb := 0; buf := [25; 26; 27; 28; 29]; fillv := (-1) |} (Some 15) None = Ret [].
Proof. vm_compute. reflexivity. Qed.
Example selftest_27 :
  g_get_range_samples {| cap := 5; S := 14; ilb := 0; buf := [25; 26; 27; 28; 29]; fillv := (-1) |} None None = Ret [25; 26; 27; 28; 29].
Proof. vm_compute. reflexivity. Qed.
Example selftest_28 :
  g_get_range_filled {| cap := 5; S := 14; ilb := 0; buf := [25; 26; 27; 28; 29]; fillv := (-1) |} 15 10 9 = Raise EValueError.
Proof. vm_compute. reflexivity. Qed.
Example selftest_29 :
  g_get_latest {| cap := 5; S := 14; ilb := 0; buf := [25; 26; 27; 28; 29]; fillv := (-1) |} 1 (-4) None = Ret [].
Proof. vm_compute. reflexivity. Qed.
Example selftest_30 :
  g_get_latest {| cap := 5; S := 14; ilb := 0; buf := [25; 26; 27; 28; 29]; fillv := (-1) |} 1 (-4) (Some 9) = Raise EValueError.
Proof. vm_compute. reflexivity. Qed.
Example selftest_31 :
  g_append_data {| cap := 5; S := 14; ilb := 0; buf := [25; 26; 27; 28; 29]; fillv := (-1) |} [] = MOk {| cap := 5; S := 14; ilb := 0; buf := [25; 26; 27; 28; 29]; fillv := (-1) |}.
Proof. vm_compute. reflexivity. Qed.
Example selftest_32 :
  g_append_data {| cap := 5; S := 14; ilb := 0; buf := [25; 26; 27; 28; 29]; fillv := (-1) |} [500; 501; 502] = MOk {| cap := 5; S := 17; ilb := 0; buf := [28; 29; 500; 501; 502]; fillv := (-1) |}.
Proof. vm_compute. reflexivity. Qed.
Example selftest_33 :
  g_append_data {| cap := 5; S := 14; ilb := 0; buf := [25; 26; 27; 28; 29]; fillv := (-1) |} [500; 501; 502; 503; 504; 505; 506] = MOk {| cap := 5; S := 21; ilb := 0; buf := [502; 503; 504; 505; 506]; fillv := (-1) |}.
Proof. vm_compute. reflexivity. Qed.
Example selftest_34 :
  g__invalidate {| cap := 5; S := 14; ilb := 0; buf := [25; 26; 27; 28; 29]; fillv := (-1) |} (-1) = MOk {| cap := 5; S := 14; ilb := 5; buf := [(-1); (-1); (-1); (-1); (-1)]; fillv := (-1) |}.
Proof. vm_compute. reflexivity. Qed.
Example selftest_35 :
  g_invalidate_samples {| cap := 5; S := 14; ilb := 0; buf := [25; 26; 27; 28; 29]; fillv := (-1) |} 8 = MOk {| cap := 5; S := 8; ilb := 5; buf := [(-1); (-1); (-1); (-1); (-1)]; fillv := (-1) |}.
Proof. vm_compute. reflexivity. Qed.
Example selftest_36 :
  g_invalidate {| cap := 5; S := 14; ilb := 0; buf := [25; 26; 27; 28; 29]; fillv := (-1) |} 14 = MOk {| cap := 5; S := 14; ilb := 0; buf := [25; 26; 27; 28; 29]; fillv := (-1) |}.
Proof. vm_compute. reflexivity. Qed.
Example selftest_37 :
  g_resize {| cap := 5; S := 14; ilb := 0; buf := [25; 26; 27; 28; 29]; fillv := (-1) |} 11 = MOk {| cap := 11; S := 14; ilb := 6; buf := [(-1); (-1); (-1); (-1); (-1); (-1); 25; 26; 27; 28; 29]; fillv := (-1) |}.
Proof. vm_compute. reflexivity. Qed.
Example selftest_38 :
  g_init 3 0 = MOk {| cap := 3; S := 0; ilb := 3; buf := [0; 0; 0]; fillv := 0 |}.
Proof. vm_compute. reflexivity. Qed.
Example selftest_39 :
  g_samples_to_index {| cap := 1; S := (-3); ilb := 0; buf := [30]; fillv := 0 |} (-2) = 2.
Proof. vm_compute. reflexivity. Qed.
Example selftest_40 :
  g_time_to_index {| cap := 1; S := (-3); ilb := 0; buf := [30]; fillv := 0 |} (-2) = 2.
Proof. vm_compute. reflexivity. Qed.
Example selftest_41 :
  g_get_samples_lb {| cap := 1; S := (-3); ilb := 0; buf := [30]; fillv := 0 |} = (-4).
Proof. vm_compute. reflexivity. Qed.
Example selftest_42 :
  g_get_samples_ub {| cap := 1; S := (-3); ilb := 0; buf := [30]; fillv := 0 |} = (-3).
Proof. vm_compute. reflexivity. Qed.
Example selftest_43 :
  g_get_range_samples {| cap := 1; S := (-3); ilb := 0; buf := [30]; fillv := 0 |} (Some (-3)) (Some (-6)) = Ret [].
Proof. vm_compute. reflexivity. Qed.
Example selftest_44 :
  g_get_range_samples {| cap := 1; S := (-3); ilb := 0; buf := [30]; fillv := 0 |} None (Some (-6)) = Ret [].
Proof. vm_compute. reflexivity. Qed.
Example selftest_45 :
  g_get_range_samples {| cap := 1; S := (-3); ilb := 0; buf := [30]; fillv := 0 |} (Some (-3)) None = Ret [].
Proof. vm_compute. reflexivity. Qed.
Example selftest_46 :
  g_get_range_samples {| cap := 1; S := (-3); ilb := 0; buf := [30]; fillv := 0 |} None None = Ret [30].
Proof. vm_compute. reflexivity. Qed.
Example selftest_47 :
  g_get_range_filled {| cap := 1; S := (-3); ilb := 0; buf := [30]; fillv := 0 |} (-3) (-6) 9 = Raise EValueError.
Proof. vm_compute. reflexivity. Qed.
Example selftest_48 :
  g_get_latest {| cap := 1; S := (-3); ilb := 0; buf := [30]; fillv := 0 |} 0 (-3) None = Ret [].
Proof. vm_compute. reflexivity. Qed.
Example selftest_49 :
  g_get_latest {| cap := 1; S := (-3); ilb := 0; buf := [30]; fillv := 0 |} 0 (-3) (Some 9) = Raise EValueError.
Proof. vm_compute. reflexivity. Qed.
Example selftest_50 :
  g_append_data {| cap := 1; S := (-3); ilb := 0; buf := [30]; fillv := 0 |} [] = MOk {| cap := 1; S := (-3); ilb := 0; buf := [30]; fillv := 0 |}.
Proof. vm_compute. reflexivity. Qed.
Example selftest_51 :
  g_append_data {| cap := 1; S := (-3); ilb := 0; buf := [30]; fillv := 0 |} [500] = MOk {| cap := 1; S := (-2); ilb := 0; buf := [500]; fillv := 0 |}.
Proof. vm_compute. reflexivity. Qed.
Example selftest_52 :
  g_append_data {| cap := 1; S := (-3); ilb := 0; buf := [30]; fillv := 0 |} [500; 501; 502] = MOk {| cap := 1; S := 0; ilb := 0; buf := [502]; fillv := 0 |}.
Proof. vm_compute. reflexivity. Qed.
Example selftest_53 :
  g__invalidate {| cap := 1; S := (-3); ilb := 0; buf := [30]; fillv := 0 |} (-1) = MOk {| cap := 1; S := (-3); ilb := 1; buf := [0]; fillv := 0 |}.
Proof. vm_compute. reflexivity. Qed.
Example selftest_54 :
  g_invalidate_samples {| cap := 1; S := (-3); ilb := 0; buf := [30]; fillv := 0 |} (-6) = MOk {| cap := 1; S := (-6); ilb := 1; buf := [0]; fillv := 0 |}.
Proof. vm_compute. reflexivity. Qed.
Example selftest_55 :
  g_invalidate {| cap := 1; S := (-3); ilb := 0; buf := [30]; fillv := 0 |} (-1) = MOk {| cap := 1; S := (-3); ilb := 0; buf := [30]; fillv := 0 |}.
Proof. vm_compute. reflexivity. Qed.
Example selftest_56 :
  g_resize {| cap := 1; S := (-3); ilb := 0; buf := [30]; fillv := 0 |} 1 = MOk {| cap := 1; S := (-3); ilb := 0; buf := [30]; fillv := 0 |}.
Proof. vm_compute. reflexivity. Qed.
Example selftest_57 :
  g_init 2 (-1) = MOk {| cap := 2; S := 0; ilb := 2; buf := [(-1); (-1)]; fillv := (-1) |}.
Proof. vm_compute. reflexivity. Qed.
Example selftest_58 :
  g_samples_to_index {| cap := 2; S := 0; ilb := 2; buf := [(-1); (-1)]; fillv := (-1) |} 1 = 3.
Proof. vm_compute. reflexivity. Qed.
Example selftest_59 :
  g_time_to_index {| cap := 2; S := 0; ilb := 2; buf := [(-1); (-1)]; fillv := (-1) |} 1 = 3.
Proof. vm_compute. reflexivity. Qed.
Example selftest_60 :
  g_get_samples_lb {| cap := 2; S := 0; ilb := 2; buf := [(-1); (-1)]; fillv := (-1) |} = 0.
Proof. vm_compute. reflexivity. Qed.
Example selftest_61 :
  g_get_samples_ub {| cap := 2; S := 0; ilb := 2; buf := [(-1); (-1)]; fillv := (-1) |} = 0.
Proof. vm_compute. reflexivity. Qed.
Example selftest_62 :
  g_get_range_samples {| cap := 2; S := 0; ilb := 2; buf := [(-1); (-1)]; fillv := (-1) |} (Some 1) (Some 1) = Raise EIndexError.
Proof. vm_compute. reflexivity. Qed.
Example selftest_63 :
  g_get_range_samples {| cap := 2; S := 0; ilb := 2; buf := [(-1); (-1)]; fillv := (-1) |} None (Some 1) = Raise EIndexError.
Proof. vm_compute. reflexivity. Qed.
Example selftest_64 :
  g_get_range_samples {| cap := 2; S := 0; ilb := 2; buf := [(-1); (-1)]; fillv := (-1) |} (Some 1) None = Ret [].
Proof. vm_compute. reflexivity. Qed.
Example selftest_65 :
  g_get_range_samples {| cap := 2; S := 0; ilb := 2; buf := [(-1); (-1)]; fillv := (-1) |} None None = Ret [].
Proof. vm_compute. reflexivity. Qed.
Example selftest_66 :
  g_get_range_filled {| cap := 2; S := 0; ilb := 2; buf := [(-1); (-1)]; fillv := (-1) |} 1 1 9 = Ret [].
Proof. vm_compute. reflexivity. Qed.
Example selftest_67 :
  g_get_latest {| cap := 2; S := 0; ilb := 2; buf := [(-1); (-1)]; fillv := (-1) |} 1 1 None = Raise EIndexError.
Proof. vm_compute. reflexivity. Qed.
Example selftest_68 :
  g_get_latest {| cap := 2; S := 0; ilb := 2; buf := [(-1); (-1)]; fillv := (-1) |} 1 1 (Some 9) = Ret [].
Proof. vm_compute. reflexivity. Qed.
Example selftest_69 :
  g_append_data {| cap := 2; S := 0; ilb := 2; buf := [(-1); (-1)]; fillv := (-1) |} [] = MOk {| cap := 2; S := 0; ilb := 2; buf := [(-1); (-1)]; fillv := (-1) |}.
Proof. vm_compute. reflexivity. Qed.
Example selftest_70 :
  g_append_data {| cap := 2; S := 0; ilb := 2; buf := [(-1); (-1)]; fillv := (-1) |} [500] = MOk {| cap := 2; S := 1; ilb := 1; buf := [(-1); 500]; fillv := (-1) |}.
Proof. vm_compute. reflexivity. Qed.
Example selftest_71 :
  g_append_data {| cap := 2; S := 0; ilb := 2; buf := [(-1); (-1)]; fillv := (-1) |} [500; 501; 502; 503] = MOk {| cap := 2; S := 4; ilb := 0; buf := [502; 503]; fillv := (-1) |}.
Proof. vm_compute. reflexivity. Qed.
Example selftest_72 :
  g__invalidate {| cap := 2; S := 0; ilb := 2; buf := [(-1); (-1)]; fillv := (-1) |} 1 = MOk {| cap := 2; S := 0; ilb := 2; buf := [(-1); (-1)]; fillv := (-1) |}.
Proof. vm_compute. reflexivity. Qed.
Example selftest_73 :
  g_invalidate_samples {| cap := 2; S := 0; ilb := 2; buf := [(-1); (-1)]; fillv := (-1) |} (-2) = MOk {| cap := 2; S := (-2); ilb := 2; buf := [(-1); (-1)]; fillv := (-1) |}.
Proof. vm_compute. reflexivity. Qed.
Example selftest_74 :
  g_invalidate {| cap := 2; S := 0; ilb := 2; buf := [(-1); (-1)]; fillv := (-1) |} 0 = MOk {| cap := 2; S := 0; ilb := 2; buf := [(-1); (-1)]; fillv := (-1) |}.
Proof. vm_compute. reflexivity. Qed.
Example selftest_75 :
  g_resize {| cap := 2; S := 0; ilb := 2; buf := [(-1); (-1)]; fillv := (-1) |} 3 = MOk {| cap := 3; S := 0; ilb := 3; buf := [(-1); (-1); (-1)]; fillv := (-1) |}.
Proof. vm_compute. reflexivity. Qed.
Example selftest_76 :
  g_init 1 0 = MOk {| cap := 1; S := 0; ilb := 1; buf := [0]; fillv := 0 |}.
Proof. vm_compute. reflexivity. Qed.
Example selftest_77 :
  g_samples_to_index {| cap := 1; S := 0; ilb := 1; buf := [0]; fillv := 0 |} (-1) = 0.
Proof. vm_compute. reflexivity. Qed.
Example selftest_78 :
  g_time_to_index {| cap := 1; S := 0; ilb := 1; buf := [0]; fillv := 0 |} (-1) = 0.
Proof. vm_compute. reflexivity. Qed.
Example selftest_79 :
  g_get_samples_lb {| cap := 1; S := 0; ilb := 1; buf := [0]; fillv := 0 |} = 0.
Proof. vm_compute. reflexivity. Qed.
Example selftest_80 :
  g_get_samples_ub {| cap := 1; S := 0; ilb := 1; buf := [0]; fillv := 0 |} = 0.
Proof. vm_compute. reflexivity. Qed.
Example selftest_81 :
  g_get_range_samples {| cap := 1; S := 0; ilb := 1; buf := [0]; fillv := 0 |} (Some (-1)) (Some (-2)) = Raise EIndexError.
Proof. vm_compute. reflexivity. Qed.
Example selftest_82 :
  g_get_range_samples {| cap := 1; S := 0; ilb := 1; buf := [0]; fillv := 0 |} None (Some (-2)) = Ret [].
Proof. vm_compute. reflexivity. Qed.
Example selftest_83 :
  g_get_range_samples {| cap := 1; S := 0; ilb := 1; buf := [0]; fillv := 0 |} (Some (-1)) None = Raise EIndexError.
Proof. vm_compute. reflexivity. Qed.
Example selftest_84 :
  g_get_range_samples {| cap := 1; S := 0; ilb := 1; buf := [0]; fillv := 0 |} None None = Ret [].
Proof. vm_compute. reflexivity. Qed.
Example selftest_85 :
  g_get_range_filled {| cap := 1; S := 0; ilb := 1; buf := [0]; fillv := 0 |} (-1) (-2) 9 = Raise EValueError.
Proof. vm_compute. reflexivity. Qed.
Example selftest_86 :
  g_get_latest {| cap := 1; S := 0; ilb := 1; buf := [0]; fillv := 0 |} (-1) (-2) None = Raise EIndexError.
Proof. vm_compute. reflexivity. Qed.
Example selftest_87 :
  g_get_latest {| cap := 1; S := 0; ilb := 1; buf := [0]; fillv := 0 |} (-1) (-2) (Some 9) = Raise EValueError.
Proof. vm_compute. reflexivity. Qed.
Example selftest_88 :
  g_append_data {| cap := 1; S := 0; ilb := 1; buf := [0]; fillv := 0 |} [] = MOk {| cap := 1; S := 0; ilb := 1; buf := [0]; fillv := 0 |}.
Proof. vm_compute. reflexivity. Qed.
Example selftest_89 :
  g_append_data {| cap := 1; S := 0; ilb := 1; buf := [0]; fillv := 0 |} [500] = MOk {| cap := 1; S := 1; ilb := 0; buf := [500]; fillv := 0 |}.
Proof. vm_compute. reflexivity. Qed.
Example selftest_90 :
  g_append_data {| cap := 1; S := 0; ilb := 1; buf := [0]; fillv := 0 |} [500; 501; 502] = MOk {| cap := 1; S := 3; ilb := 0; buf := [502]; fillv := 0 |}.
Proof. vm_compute. reflexivity. Qed.
Example selftest_91 :
  g__invalidate {| cap := 1; S := 0; ilb := 1; buf := [0]; fillv := 0 |} 0 = MOk {| cap := 1; S := 0; ilb := 1; buf := [0]; fillv := 0 |}.
Proof. vm_compute. reflexivity. Qed.
Example selftest_92 :
  g_invalidate_samples {| cap := 1; S := 0; ilb := 1; buf := [0]; fillv := 0 |} 2 = MOk {| cap := 1; S := 0; ilb := 1; buf := [0]; fillv := 0 |}.
Proof. vm_compute. reflexivity. Qed.
Example selftest_93 :
  g_invalidate {| cap := 1; S := 0; ilb := 1; buf := [0]; fillv := 0 |} (-1) = MOk {| cap := 1; S := (-1); ilb := 1; buf := [0]; fillv := 0 |}.
Proof. vm_compute. reflexivity. Qed.
Example selftest_94 :
  g_resize {| cap := 1; S := 0; ilb := 1; buf := [0]; fillv := 0 |} 2 = MOk {| cap := 2; S := 0; ilb := 2; buf := [0; 0]; fillv := 0 |}.
Proof. vm_compute. reflexivity. Qed.
Example selftest_95 :
  g_init 5 (-1) = MOk {| cap := 5; S := 0; ilb := 5; buf := [(-1); (-1); (-1); (-1); (-1)]; fillv := (-1) |}.
Proof. vm_compute. reflexivity. Qed.
Example selftest_96 :
  g_samples_to_index {| cap := 5; S := 4; ilb := 1; buf := [(-1); 31; 32; 33; 34]; fillv := (-1) |} (-1) = 0.
Proof. vm_compute. reflexivity. Qed.
Example selftest_97 :
  g_time_to_index {| cap := 5; S := 4; ilb := 1; buf := [(-1); 31; 32; 33; 34]; fillv := (-1) |} (-1) = 0.
Proof. vm_compute. reflexivity. Qed.
Example selftest_98 :
  g_get_samples_lb {| cap := 5; S := 4; ilb := 1; buf := [(-1); 31; 32; 33; 34]; fillv := (-1) |} = 0.
Proof. vm_compute. reflexivity. Qed.
Example selftest_99 :
  g_get_samples_ub {| cap := 5; S := 4; ilb := 1; buf := [(-1); 31; 32; 33; 34]; fillv := (-1) |} = 4.
Proof. vm_compute. reflexivity. Qed.
Example selftest_100 :
  g_get_range_samples {| cap := 5; S := 4; ilb := 1; buf := [(-1); 31; 32; 33; 34]; fillv := (-1) |} (Some 4) (Some 4) = Ret [].
Proof. vm_compute. reflexivity. Qed.
Example selftest_101 :
  g_get_range_samples {| cap := 5; S := 4; ilb := 1; buf := [(-1); 31; 32; 33; 34]; fillv := (-1) |} None (Some 4) = Ret [31; 32; 33; 34].
Proof. vm_compute. reflexivity. Qed.
Example selftest_102 :
  g_get_range_samples {| cap := 5; S := 4; ilb := 1; buf := [(-1); 31; 32; 33; 34]; fillv := (-1) |} (Some 4) None = Ret [].
Proof. vm_compute. reflexivity. Qed.
Example selftest_103 :
  g_get_range_samples {| cap := 5; S := 4; ilb := 1; buf := [(-1); 31; 32; 33; 34]; fillv := (-1) |} None None = Ret [31; 32; 33; 34].
Proof. vm_compute. reflexivity. Qed.
Example selftest_104 :
  g_get_range_filled {| cap := 5; S := 4; ilb := 1; buf := [(-1); 31; 32; 33; 34]; fillv := (-1) |} 4 4 9 = Ret [].
Proof. vm_compute. reflexivity. Qed.
Example selftest_105 :
  g_get_latest {| cap := 5; S := 4; ilb := 1; buf := [(-1); 31; 32; 33; 34]; fillv := (-1) |} 0 0 None = Ret [].
Proof. vm_compute. reflexivity. Qed.
Example selftest_106 :
  g_get_latest {| cap := 5; S := 4; ilb := 1; buf := [(-1); 31; 32; 33; 34]; fillv := (-1) |} 0 0 (Some 9) = Ret [].
Proof. vm_compute. reflexivity. Qed.
Example selftest_107 :
  g_append_data {| cap := 5; S := 4; ilb := 1; buf := [(-1); 31; 32; 33; 34]; fillv := (-1) |} [] = MOk {| cap := 5; S := 4; ilb := 1; buf := [(-1); 31; 32; 33; 34]; fillv := (-1) |}.
Proof. vm_compute. reflexivity. Qed.
Example selftest_108 :
  g_append_data {| cap := 5; S := 4; ilb := 1; buf := [(-1); 31; 32; 33; 34]; fillv := (-1) |} [500] = MOk {| cap := 5; S := 5; ilb := 0; buf := [31; 32; 33; 34; 500]; fillv := (-1) |}.
Proof. vm_compute. reflexivity. Qed.
Example selftest_109 :
  g_append_data {| cap := 5; S := 4; ilb := 1; buf := [(-1); 31; 32; 33; 34]; fillv := (-1) |} [500; 501; 502; 503; 504; 505; 506] = MOk {| cap := 5; S := 11; ilb := 0; buf := [502; 503; 504; 505; 506]; fillv := (-1) |}.
Proof. vm_compute. reflexivity. Qed.
Example selftest_110 :
  g__invalidate {| cap := 5; S := 4; ilb := 1; buf := [(-1); 31; 32; 33; 34]; fillv := (-1) |} 3 = MOk {| cap := 5; S := 4; ilb := 3; buf := [(-1); (-1); (-1); 31; 32]; fillv := (-1) |}.
Proof. vm_compute. reflexivity. Qed.
Example selftest_111 :
  g_invalidate_samples {| cap := 5; S := 4; ilb := 1; buf := [(-1); 31; 32; 33; 34]; fillv := (-1) |} (-2) = MOk {| cap := 5; S := (-2); ilb := 5; buf := [(-1); (-1); (-1); (-1); (-1)]; fillv := (-1) |}.
Proof. vm_compute. reflexivity. Qed.
Example selftest_112 :
  g_invalidate {| cap := 5; S := 4; ilb := 1; buf := [(-1); 31; 32; 33; 34]; fillv := (-1) |} 1 = MOk {| cap := 5; S := 1; ilb := 4; buf := [(-1); (-1); (-1); (-1); 31]; fillv := (-1) |}.
Proof. vm_compute. reflexivity. Qed.
Example selftest_113 :
  g_resize {| cap := 5; S := 4; ilb := 1; buf := [(-1); 31; 32; 33; 34]; fillv := (-1) |} 3 = MOk {| cap := 3; S := 4; ilb := 0; buf := [32; 33; 34]; fillv := (-1) |}.
Proof. vm_compute. reflexivity. Qed.
Example selftest_114 :
  g_init 4 7 = MOk {| cap := 4; S := 0; ilb := 4; buf := [7; 7; 7; 7]; fillv := 7 |}.
Proof. vm_compute. reflexivity. Qed.
Example selftest_115 :
  g_samples_to_index {| cap := 4; S := 13; ilb := 0; buf := [44; 45; 46; 47]; fillv := 7 |} 13 = 4.
Proof. vm_compute. reflexivity. Qed.
Example selftest_116 :
  g_time_to_index {| cap := 4; S := 13; ilb := 0; buf := [44; 45; 46; 47]; fillv := 7 |} 13 = 4.
Proof. vm_compute. reflexivity. Qed.
Example selftest_117 :
  g_get_samples_lb {| cap := 4; S := 13; ilb := 0; buf := [44; 45; 46; 47]; fillv := 7 |} = 9.
Proof. vm_compute. reflexivity. Qed.
Example selftest_118 :
  g_get_samples_ub {| cap := 4; S := 13; ilb := 0; buf := [44; 45; 46; 47]; fillv := 7 |} = 13.
Proof. vm_compute. reflexivity. Qed.
Example selftest_119 :
  g_get_range_samples {| cap := 4; S := 13; ilb := 0; buf := [44; 45; 46; 47]; fillv := 7 |} (Some 8) (Some 8) = Raise EIndexError.
Proof. vm_compute. reflexivity. Qed.
Example selftest_120 :
  g_get_range_samples {| cap := 4; S := 13; ilb := 0; buf := [44; 45; 46; 47]; fillv := 7 |} None (Some 8) = Ret [44; 45; 46].
Proof. vm_compute. reflexivity. Qed.
Example selftest_121 :
  g_get_range_samples {| cap := 4; S := 13; ilb := 0; buf := [44; 45; 46; 47]; fillv := 7 |} (Some 8) None = Raise EIndexError.
Proof. vm_compute. reflexivity. Qed.
Example selftest_122 :
  g_get_range_samples {| cap := 4; S := 13; ilb := 0; buf := [44; 45; 46; 47]; fillv := 7 |} None None = Ret [44; 45; 46; 47].
Proof. vm_compute. reflexivity. Qed.
Example selftest_123 :
  g_get_range_filled {| cap := 4; S := 13; ilb := 0; buf := [44; 45; 46; 47]; fillv := 7 |} 8 8 9 = Ret [].
Proof. vm_compute. reflexivity. Qed.
Example selftest_124 :
  g_get_latest {| cap := 4; S := 13; ilb := 0; buf := [44; 45; 46; 47]; fillv := 7 |} (-5) (-5) None = Raise EIndexError.
Proof. vm_compute. reflexivity. Qed.
Example selftest_125 :
  g_get_latest {| cap := 4; S := 13; ilb := 0; buf := [44; 45; 46; 47]; fillv := 7 |} (-5) (-5) (Some 9) = Ret [].
Proof. vm_compute. reflexivity. Qed.
Example selftest_126 :
  g_append_data {| cap := 4; S := 13; ilb := 0; buf := [44; 45; 46; 47]; fillv := 7 |} [] = MOk {| cap := 4; S := 13; ilb := 0; buf := [44; 45; 46; 47]; fillv := 7 |}.
Proof. vm_compute. reflexivity. Qed.
Example selftest_127 :
  g_append_data {| cap := 4; S := 13; ilb := 0; buf := [44; 45; 46; 47]; fillv := 7 |} [500; 501] = MOk {| cap := 4; S := 15; ilb := 0; buf := [46; 47; 500; 501]; fillv := 7 |}.
Proof. vm_compute. reflexivity. Qed.
Example selftest_128 :
  g_append_data {| cap := 4; S := 13; ilb := 0; buf := [44; 45; 46; 47]; fillv := 7 |} [500; 501; 502; 503; 504] = MOk {| cap := 4; S := 18; ilb := 0; buf := [501; 502; 503; 504]; fillv := 7 |}.
Proof. vm_compute. reflexivity. Qed.
Example selftest_129 :
  g__invalidate {| cap := 4; S := 13; ilb := 0; buf := [44; 45; 46; 47]; fillv := 7 |} 3 = MOk {| cap := 4; S := 13; ilb := 1; buf := [7; 44; 45; 46]; fillv := 7 |}.
Proof. vm_compute. reflexivity. Qed.
Example selftest_130 :
  g_invalidate_samples {| cap := 4; S := 13; ilb := 0; buf := [44; 45; 46; 47]; fillv := 7 |} 12 = MOk {| cap := 4; S := 12; ilb := 1; buf := [7; 44; 45; 46]; fillv := 7 |}.
Proof. vm_compute. reflexivity. Qed.
Example selftest_131 :
  g_invalidate {| cap := 4; S := 13; ilb := 0; buf := [44; 45; 46; 47]; fillv := 7 |} 12 = MOk {| cap := 4; S := 12; ilb := 1; buf := [7; 44; 45; 46]; fillv := 7 |}.
Proof. vm_compute. reflexivity. Qed.
Example selftest_132 :
  g_resize {| cap := 4; S := 13; ilb := 0; buf := [44; 45; 46; 47]; fillv := 7 |} 8 = MOk {| cap := 8; S := 13; ilb := 4; buf := [7; 7; 7; 7; 44; 45; 46; 47]; fillv := 7 |}.
Proof. vm_compute. reflexivity. Qed.
Example selftest_133 :
  g_init 2 7 = MOk {| cap := 2; S := 0; ilb := 2; buf := [7; 7]; fillv := 7 |}.
Proof. vm_compute. reflexivity. Qed.
Example selftest_134 :
  g_samples_to_index {| cap := 2; S := (-1); ilb := 2; buf := [7; 7]; fillv := 7 |} (-2) = 1.
Proof. vm_compute. reflexivity. Qed.
Example selftest_135 :
  g_time_to_index {| cap := 2; S := (-1); ilb := 2; buf := [7; 7]; fillv := 7 |} (-2) = 1.
Proof. vm_compute. reflexivity. Qed.
Example selftest_136 :
  g_get_samples_lb {| cap := 2; S := (-1); ilb := 2; buf := [7; 7]; fillv := 7 |} = (-1).
Proof. vm_compute. reflexivity. Qed.
Example selftest_137 :
  g_get_samples_ub {| cap := 2; S := (-1); ilb := 2; buf := [7; 7]; fillv := 7 |} = (-1).
Proof. vm_compute. reflexivity. Qed.
Example selftest_138 :
  g_get_range_samples {| cap := 2; S := (-1); ilb := 2; buf := [7; 7]; fillv := 7 |} (Some (-2)) (Some 1) = Raise EIndexError.
Proof. vm_compute. reflexivity. Qed.
Example selftest_139 :
  g_get_range_samples {| cap := 2; S := (-1); ilb := 2; buf := [7; 7]; fillv := 7 |} None (Some 1) = Raise EIndexError.
Proof. vm_compute. reflexivity. Qed.
Example selftest_140 :
  g_get_range_samples {| cap := 2; S := (-1); ilb := 2; buf := [7; 7]; fillv := 7 |} (Some (-2)) None = Raise EIndexError.
Proof. vm_compute. reflexivity. Qed.
Example selftest_141 :
  g_get_range_samples {| cap := 2; S := (-1); ilb := 2; buf := [7; 7]; fillv := 7 |} None None = Ret [].
Proof. vm_compute. reflexivity. Qed.
Example selftest_142 :
  g_get_range_filled {| cap := 2; S := (-1); ilb := 2; buf := [7; 7]; fillv := 7 |} (-2) 1 9 = Ret [9; 9; 9].
Proof. vm_compute. reflexivity. Qed.
Example selftest_143 :
  g_get_latest {| cap := 2; S := (-1); ilb := 2; buf := [7; 7]; fillv := 7 |} (-1) 2 None = Raise EIndexError.
Proof. vm_compute. reflexivity. Qed.
Example selftest_144 :
  g_get_latest {| cap := 2; S := (-1); ilb := 2; buf := [7; 7]; fillv := 7 |} (-1) 2 (Some 9) = Ret [9; 9; 9].
Proof. vm_compute. reflexivity. Qed.
Example selftest_145 :
  g_append_data {| cap := 2; S := (-1); ilb := 2; buf := [7; 7]; fillv := 7 |} [] = MOk {| cap := 2; S := (-1); ilb := 2; buf := [7; 7]; fillv := 7 |}.
Proof. vm_compute. reflexivity. Qed.
Example selftest_146 :
  g_append_data {| cap := 2; S := (-1); ilb := 2; buf := [7; 7]; fillv := 7 |} [500] = MOk {| cap := 2; S := 0; ilb := 1; buf := [7; 500]; fillv := 7 |}.
Proof. vm_compute. reflexivity. Qed.
Example selftest_147 :
  g_append_data {| cap := 2; S := (-1); ilb := 2; buf := [7; 7]; fillv := 7 |} [500; 501; 502] = MOk {| cap := 2; S := 2; ilb := 0; buf := [501; 502]; fillv := 7 |}.
Proof. vm_compute. reflexivity. Qed.
Example selftest_148 :
  g__invalidate {| cap := 2; S := (-1); ilb := 2; buf := [7; 7]; fillv := 7 |} 2 = MOk {| cap := 2; S := (-1); ilb := 2; buf := [7; 7]; fillv := 7 |}.
Proof. vm_compute. reflexivity. Qed.
Example selftest_149 :
  g_invalidate_samples {| cap := 2; S := (-1); ilb := 2; buf := [7; 7]; fillv := 7 |} 0 = MOk {| cap := 2; S := (-1); ilb := 2; buf := [7; 7]; fillv := 7 |}.
Proof. vm_compute. reflexivity. Qed.
Example selftest_150 :
  g_invalidate {| cap := 2; S := (-1); ilb := 2; buf := [7; 7]; fillv := 7 |} 1 = MOk {| cap := 2; S := (-1); ilb := 2; buf := [7; 7]; fillv := 7 |}.
Proof. vm_compute. reflexivity. Qed.
Example selftest_151 :
  g_resize {| cap := 2; S := (-1); ilb := 2; buf := [7; 7]; fillv := 7 |} 1 = MOk {| cap := 1; S := (-1); ilb := 1; buf := [7]; fillv := 7 |}.
Proof. vm_compute. reflexivity. Qed.
Example selftest_152 :
  g_init 4 (-1) = MOk {| cap := 4; S := 0; ilb := 4; buf := [(-1); (-1); (-1); (-1)]; fillv := (-1) |}.
Proof. vm_compute. reflexivity. Qed.
Example selftest_153 :
  g_samples_to_index {| cap := 4; S := 0; ilb := 4; buf := [(-1); (-1); (-1); (-1)]; fillv := (-1) |} (-2) = 2.
Proof. vm_compute. reflexivity. Qed.
Example selftest_154 :
  g_time_to_index {| cap := 4; S := 0; ilb := 4; buf := [(-1); (-1); (-1); (-1)]; fillv := (-1) |} (-2) = 2.
Proof. vm_compute. reflexivity. Qed.
Example selftest_155 :
  g_get_samples_lb {| cap := 4; S := 0; ilb := 4; buf := [(-1); (-1); (-1); (-1)]; fillv := (-1) |} = 0.
Proof. vm_compute. reflexivity. Qed.
Example selftest_156 :
  g_get_samples_ub {| cap := 4; S := 0; ilb := 4; buf := [(-1); (-1); (-1); (-1)]; fillv := (-1) |} = 0.
Proof. vm_compute. reflexivity. Qed.
Example selftest_157 :
  g_get_range_samples {| cap := 4; S := 0; ilb := 4; buf := [(-1); (-1); (-1); (-1)]; fillv := (-1) |} (Some (-2)) (Some 2) = Raise EIndexError.
Proof. vm_compute. reflexivity. Qed.
Example selftest_158 :
  g_get_range_samples {| cap := 4; S := 0; ilb := 4; buf := [(-1); (-1); (-1); (-1)]; fillv := (-1) |} None (Some 2) = Raise EIndexError.
Proof. vm_compute. reflexivity. Qed.
Example selftest_159 :
  g_get_range_samples {| cap := 4; S := 0; ilb := 4; buf := [(-1); (-1); (-1); (-1)]; fillv := (-1) |} (Some (-2)) None = Raise EIndexError.
Proof. vm_compute. reflexivity. Qed.
Example selftest_160 :
  g_get_range_samples {| cap := 4; S := 0; ilb := 4; buf := [(-1); (-1); (-1); (-1)]; fillv := (-1) |} None None = Ret [].
Proof. vm_compute. reflexivity. Qed.
Example selftest_161 :
  g_get_range_filled {| cap := 4; S := 0; ilb := 4; buf := [(-1); (-1); (-1); (-1)]; fillv := (-1) |} (-2) 2 9 = Ret [9; 9; 9; 9].
Proof. vm_compute. reflexivity. Qed.
Example selftest_162 :
  g_get_latest {| cap := 4; S := 0; ilb := 4; buf := [(-1); (-1); (-1); (-1)]; fillv := (-1) |} (-2) 2 None = Raise EIndexError.
Proof. vm_compute. reflexivity. Qed.
Example selftest_163 :
  g_get_latest {| cap := 4; S := 0; ilb := 4; buf := [(-1); (-1); (-1); (-1)]; fillv := (-1) |} (-2) 2 (Some 9) = Ret [9; 9; 9; 9].
Proof. vm_compute. reflexivity. Qed.
Example selftest_164 :
  g_append_data {| cap := 4; S := 0; ilb := 4; buf := [(-1); (-1); (-1); (-1)]; fillv := (-1) |} [] = MOk {| cap := 4; S := 0; ilb := 4; buf := [(-1); (-1); (-1); (-1)]; fillv := (-1) |}.
Proof. vm_compute. reflexivity. Qed.
Example selftest_165 :
  g_append_data {| cap := 4; S := 0; ilb := 4; buf := [(-1); (-1); (-1); (-1)]; fillv := (-1) |} [500; 501] = MOk {| cap := 4; S := 2; ilb := 2; buf := [(-1); (-1); 500; 501]; fillv := (-1) |}.
Proof. vm_compute. reflexivity. Qed.
Example selftest_166 :
  g_append_data {| cap := 4; S := 0; ilb := 4; buf := [(-1); (-1); (-1); (-1)]; fillv := (-1) |} [500; 501; 502; 503; 504; 505] = MOk {| cap := 4; S := 6; ilb := 0; buf := [502; 503; 504; 505]; fillv := (-1) |}.
Proof. vm_compute. reflexivity. Qed.
Example selftest_167 :
  g__invalidate {| cap := 4; S := 0; ilb := 4; buf := [(-1); (-1); (-1); (-1)]; fillv := (-1) |} 1 = MOk {| cap := 4; S := 0; ilb := 4; buf := [(-1); (-1); (-1); (-1)]; fillv := (-1) |}.
Proof. vm_compute. reflexivity. Qed.
Example selftest_168 :
  g_invalidate_samples {| cap := 4; S := 0; ilb := 4; buf := [(-1); (-1); (-1); (-1)]; fillv := (-1) |} 1 = MOk {| cap := 4; S := 0; ilb := 4; buf := [(-1); (-1); (-1); (-1)]; fillv := (-1) |}.
Proof. vm_compute. reflexivity. Qed.
Example selftest_169 :
  g_invalidate {| cap := 4; S := 0; ilb := 4; buf := [(-1); (-1); (-1); (-1)]; fillv := (-1) |} 2 = MOk {| cap := 4; S := 0; ilb := 4; buf := [(-1); (-1); (-1); (-1)]; fillv := (-1) |}.
Proof. vm_compute. reflexivity. Qed.
Example selftest_170 :
  g_resize {| cap := 4; S := 0; ilb := 4; buf := [(-1); (-1); (-1); (-1)]; fillv := (-1) |} 8 = MOk {| cap := 8; S := 0; ilb := 8; buf := [(-1); (-1); (-1); (-1); (-1); (-1); (-1); (-1)]; fillv := (-1) |}.
Proof. vm_compute. reflexivity. Qed.
Example selftest_171 :
  g_init 3 7 = MOk {| cap := 3; S := 0; ilb := 3; buf := [7; 7; 7]; fillv := 7 |}.
Proof. vm_compute. reflexivity. Qed.
Example selftest_172 :
  g_samples_to_index {| cap := 1; S := 0; ilb := 1; buf := [7]; fillv := 7 |} (-1) = 0.
Proof. vm_compute. reflexivity. Qed.
Example selftest_173 :
  g_time_to_index {| cap := 1; S := 0; ilb := 1; buf := [7]; fillv := 7 |} (-1) = 0.
Proof. vm_compute. reflexivity. Qed.
Example selftest_174 :
  g_get_samples_lb {| cap := 1; S := 0; ilb := 1; buf := [7]; fillv := 7 |} = 0.
Proof. vm_compute. reflexivity. Qed.
Example selftest_175 :
  g_get_samples_ub {| cap := 1; S := 0; ilb := 1; buf := [7]; fillv := 7 |} = 0.
Proof. vm_compute. reflexivity. Qed.
Example selftest_176 :
  g_get_range_samples {| cap := 1; S := 0; ilb := 1; buf := [7]; fillv := 7 |} (Some (-1)) (Some 1) = Raise EIndexError.
Proof. vm_compute. reflexivity. Qed.
Example selftest_177 :
  g_get_range_samples {| cap := 1; S := 0; ilb := 1; buf := [7]; fillv := 7 |} None (Some 1) = Raise EIndexError.
Proof. vm_compute. reflexivity. Qed.
Example selftest_178 :
  g_get_range_samples {| cap := 1; S := 0; ilb := 1; buf := [7]; fillv := 7 |} (Some (-1)) None = Raise EIndexError.
Proof. vm_compute. reflexivity. Qed.
Example selftest_179 :
  g_get_range_samples {| cap := 1; S := 0; ilb := 1; buf := [7]; fillv := 7 |} None None = Ret [].
Proof. vm_compute. reflexivity. Qed.
Example selftest_180 :
  g_get_range_filled {| cap := 1; S := 0; ilb := 1; buf := [7]; fillv := 7 |} (-1) 1 9 = Ret [9; 9].
Proof. vm_compute. reflexivity. Qed.
Example selftest_181 :
  g_get_latest {| cap := 1; S := 0; ilb := 1; buf := [7]; fillv := 7 |} (-1) 1 None = Raise EIndexError.
Proof. vm_compute. reflexivity. Qed.
Example selftest_182 :
  g_get_latest {| cap := 1; S := 0; ilb := 1; buf := [7]; fillv := 7 |} (-1) 1 (Some 9) = Ret [9; 9].
Proof. vm_compute. reflexivity. Qed.
Example selftest_183 :
  g_append_data {| cap := 1; S := 0; ilb := 1; buf := [7]; fillv := 7 |} [] = MOk {| cap := 1; S := 0; ilb := 1; buf := [7]; fillv := 7 |}.
Proof. vm_compute. reflexivity. Qed.
Example selftest_184 :
  g_append_data {| cap := 1; S := 0; ilb := 1; buf := [7]; fillv := 7 |} [500] = MOk {| cap := 1; S := 1; ilb := 0; buf := [500]; fillv := 7 |}.
Proof. vm_compute. reflexivity. Qed.
Example selftest_185 :
  g_append_data {| cap := 1; S := 0; ilb := 1; buf := [7]; fillv := 7 |} [500; 501; 502] = MOk {| cap := 1; S := 3; ilb := 0; buf := [502]; fillv := 7 |}.
Proof. vm_compute. reflexivity. Qed.
Example selftest_186 :
  g__invalidate {| cap := 1; S := 0; ilb := 1; buf := [7]; fillv := 7 |} 0 = MOk {| cap := 1; S := 0; ilb := 1; buf := [7]; fillv := 7 |}.
Proof. vm_compute. reflexivity. Qed.
Example selftest_187 :
  g_invalidate_samples {| cap := 1; S := 0; ilb := 1; buf := [7]; fillv := 7 |} (-1) = MOk {| cap := 1; S := (-1); ilb := 1; buf := [7]; fillv := 7 |}.
Proof. vm_compute. reflexivity. Qed.
Example selftest_188 :
  g_invalidate {| cap := 1; S := 0; ilb := 1; buf := [7]; fillv := 7 |} (-2) = MOk {| cap := 1; S := (-2); ilb := 1; buf := [7]; fillv := 7 |}.
Proof. vm_compute. reflexivity. Qed.
Example selftest_189 :
  g_resize {| cap := 1; S := 0; ilb := 1; buf := [7]; fillv := 7 |} 1 = MOk {| cap := 1; S := 0; ilb := 1; buf := [7]; fillv := 7 |}.
Proof. vm_compute. reflexivity. Qed.
Example selftest_190 :
  g_init 3 0 = MOk {| cap := 3; S := 0; ilb := 3; buf := [0; 0; 0]; fillv := 0 |}.
Proof. vm_compute. reflexivity. Qed.
Example selftest_191 :
  g_samples_to_index {| cap := 3; S := 6; ilb := 0; buf := [51; 52; 53]; fillv := 0 |} 2 = (-1).
Proof. vm_compute. reflexivity. Qed.
Example selftest_192 :
  g_time_to_index {| cap := 3; S := 6; ilb := 0; buf := [51; 52; 53]; fillv := 0 |} 2 = (-1).
Proof. vm_compute. reflexivity. Qed.
Example selftest_193 :
  g_get_samples_lb {| cap := 3; S := 6; ilb := 0; buf := [51; 52; 53]; fillv := 0 |} = 3.
Proof. vm_compute. reflexivity. Qed.
Example selftest_194 :
  g_get_samples_ub {| cap := 3; S := 6; ilb := 0; buf := [51; 52; 53]; fillv := 0 |} = 6.
Proof. vm_compute. reflexivity. Qed.
Example selftest_195 :
  g_get_range_samples {| cap := 3; S := 6; ilb := 0; buf := [51; 52; 53]; fillv := 0 |} (Some 3) (Some 6) = Ret [51; 52; 53].
Proof. vm_compute. reflexivity. Qed.
Example selftest_196 :
  g_get_range_samples {| cap := 3; S := 6; ilb := 0; buf := [51; 52; 53]; fillv := 0 |} None (Some 6) = Ret [51; 52; 53].
Proof. vm_compute. reflexivity. Qed.
Example selftest_197 :
  g_get_range_samples {| cap := 3; S := 6; ilb := 0; buf := [51; 52; 53]; fillv := 0 |} (Some 3) None = Ret [51; 52; 53].
Proof. vm_compute. reflexivity. Qed.
Example selftest_198 :
  g_get_range_samples {| cap := 3; S := 6; ilb := 0; buf := [51; 52; 53]; fillv := 0 |} None None = Ret [51; 52; 53].
Proof. vm_compute. reflexivity. Qed.
Example selftest_199 :
  g_get_range_filled {| cap := 3; S := 6; ilb := 0; buf := [51; 52; 53]; fillv := 0 |} 3 6 9 = Ret [51; 52; 53].
Proof. vm_compute. reflexivity. Qed.
Example selftest_200 :
  g_get_latest {| cap := 3; S := 6; ilb := 0; buf := [51; 52; 53]; fillv := 0 |} (-3) 0 None = Ret [51; 52; 53].
Proof. vm_compute. reflexivity. Qed.
Example selftest_201 :
  g_get_latest {| cap := 3; S := 6; ilb := 0; buf := [51; 52; 53]; fillv := 0 |} (-3) 0 (Some 9) = Ret [51; 52; 53].
Proof. vm_compute. reflexivity. Qed.
Example selftest_202 :
  g_append_data {| cap := 3; S := 6; ilb := 0; buf := [51; 52; 53]; fillv := 0 |} [] = MOk {| cap := 3; S := 6; ilb := 0; buf := [51; 52; 53]; fillv := 0 |}.
Proof. vm_compute. reflexivity. Qed.
Example selftest_203 :
  g_append_data {| cap := 3; S := 6; ilb := 0; buf := [51; 52; 53]; fillv := 0 |} [500; 501] = MOk {| cap := 3; S := 8; ilb := 0; buf := [53; 500; 501]; fillv := 0 |}.
Proof. vm_compute. reflexivity. Qed.
Example selftest_204 :
  g_append_data {| cap := 3; S := 6; ilb := 0; buf := [51; 52; 53]; fillv := 0 |} [500; 501; 502; 503] = MOk {| cap := 3; S := 10; ilb := 0; buf := [501; 502; 503]; fillv := 0 |}.
Proof. vm_compute. reflexivity. Qed.
Example selftest_205 :
  g__invalidate {| cap := 3; S := 6; ilb := 0; buf := [51; 52; 53]; fillv := 0 |} 3 = MOk {| cap := 3; S := 6; ilb := 0; buf := [51; 52; 53]; fillv := 0 |}.
Proof. vm_compute. reflexivity. Qed.
Example selftest_206 :
  g_invalidate_samples {| cap := 3; S := 6; ilb := 0; buf := [51; 52; 53]; fillv := 0 |} 1 = MOk {| cap := 3; S := 1; ilb := 3; buf := [0; 0; 0]; fillv := 0 |}.
Proof. vm_compute. reflexivity. Qed.
Example selftest_207 :
  g_invalidate {| cap := 3; S := 6; ilb := 0; buf := [51; 52; 53]; fillv := 0 |} 1 = MOk {| cap := 3; S := 1; ilb := 3; buf := [0; 0; 0]; fillv := 0 |}.
Proof. vm_compute. reflexivity. Qed.
Example selftest_208 :
  g_resize {| cap := 3; S := 6; ilb := 0; buf := [51; 52; 53]; fillv := 0 |} 4 = MOk {| cap := 4; S := 6; ilb := 1; buf := [0; 51; 52; 53]; fillv := 0 |}.
Proof. vm_compute. reflexivity. Qed.
Example selftest_209 :
  g_init 3 7 = MOk {| cap := 3; S := 0; ilb := 3; buf := [7; 7; 7]; fillv := 7 |}.
Proof. vm_compute. reflexivity. Qed.
Example selftest_210 :
  g_samples_to_index {| cap := 1; S := 1; ilb := 0; buf := [54]; fillv := 7 |} 1 = 1.
Proof. vm_compute. reflexivity. Qed.
Example selftest_211 :
  g_time_to_index {| cap := 1; S := 1; ilb := 0; buf := [54]; fillv := 7 |} 1 = 1.
Proof. vm_compute. reflexivity. Qed.
Example selftest_212 :
  g_get_samples_lb {| cap := 1; S := 1; ilb := 0; buf := [54]; fillv := 7 |} = 0.
Proof. vm_compute. reflexivity. Qed.
Example selftest_213 :
  g_get_samples_ub {| cap := 1; S := 1; ilb := 0; buf := [54]; fillv := 7 |} = 1.
Proof. vm_compute. reflexivity. Qed.
Example selftest_214 :
  g_get_range_samples {| cap := 1; S := 1; ilb := 0; buf := [54]; fillv := 7 |} (Some (-2)) (Some 3) = Raise EIndexError.
Proof. vm_compute. reflexivity. Qed.
Example selftest_215 :
  g_get_range_samples {| cap := 1; S := 1; ilb := 0; buf := [54]; fillv := 7 |} None (Some 3) = Raise EIndexError.
Proof. vm_compute. reflexivity. Qed.
Example selftest_216 :
  g_get_range_samples {| cap := 1; S := 1; ilb := 0; buf := [54]; fillv := 7 |} (Some (-2)) None = Raise EIndexError.
Proof. vm_compute. reflexivity. Qed.
Example selftest_217 :
  g_get_range_samples {| cap := 1; S := 1; ilb := 0; buf := [54]; fillv := 7 |} None None = Ret [54].
Proof. vm_compute. reflexivity. Qed.
Example selftest_218 :
  g_get_range_filled {| cap := 1; S := 1; ilb := 0; buf := [54]; fillv := 7 |} (-2) 3 9 = Ret [9; 9; 54; 9; 9].
Proof. vm_compute. reflexivity. Qed.
Example selftest_219 :
  g_get_latest {| cap := 1; S := 1; ilb := 0; buf := [54]; fillv := 7 |} (-3) 2 None = Raise EIndexError.
Proof. vm_compute. reflexivity. Qed.
Example selftest_220 :
  g_get_latest {| cap := 1; S := 1; ilb := 0; buf := [54]; fillv := 7 |} (-3) 2 (Some 9) = Ret [9; 9; 54; 9; 9].
Proof. vm_compute. reflexivity. Qed.
Example selftest_221 :
  g_append_data {| cap := 1; S := 1; ilb := 0; buf := [54]; fillv := 7 |} [] = MOk {| cap := 1; S := 1; ilb := 0; buf := [54]; fillv := 7 |}.
Proof. vm_compute. reflexivity. Qed.
Example selftest_222 :
  g_append_data {| cap := 1; S := 1; ilb := 0; buf := [54]; fillv := 7 |} [500] = MOk {| cap := 1; S := 2; ilb := 0; buf := [500]; fillv := 7 |}.
Proof. vm_compute. reflexivity. Qed.
Example selftest_223 :
  g_append_data {| cap := 1; S := 1; ilb := 0; buf := [54]; fillv := 7 |} [500; 501] = MOk {| cap := 1; S := 3; ilb := 0; buf := [501]; fillv := 7 |}.
Proof. vm_compute. reflexivity. Qed.
Example selftest_224 :
  g__invalidate {| cap := 1; S := 1; ilb := 0; buf := [54]; fillv := 7 |} (-1) = MOk {| cap := 1; S := 1; ilb := 1; buf := [7]; fillv := 7 |}.
Proof. vm_compute. reflexivity. Qed.
Example selftest_225 :
  g_invalidate_samples {| cap := 1; S := 1; ilb := 0; buf := [54]; fillv := 7 |} 1 = MOk {| cap := 1; S := 1; ilb := 0; buf := [54]; fillv := 7 |}.
Proof. vm_compute. reflexivity. Qed.
Example selftest_226 :
  g_invalidate {| cap := 1; S := 1; ilb := 0; buf := [54]; fillv := 7 |} 2 = MOk {| cap := 1; S := 1; ilb := 0; buf := [54]; fillv := 7 |}.
Proof. vm_compute. reflexivity. Qed.
Example selftest_227 :
  g_resize {| cap := 1; S := 1; ilb := 0; buf := [54]; fillv := 7 |} 2 = MOk {| cap := 2; S := 1; ilb := 1; buf := [7; 54]; fillv := 7 |}.
Proof. vm_compute. reflexivity. Qed.
Example selftest_228 :
  g_init 1 7 = MOk {| cap := 1; S := 0; ilb := 1; buf := [7]; fillv := 7 |}.
Proof. vm_compute. reflexivity. Qed.
Example selftest_229 :
  g_samples_to_index {| cap := 1; S := (-1); ilb := 1; buf := [7]; fillv := 7 |} (-1) = 1.
Proof. vm_compute. reflexivity. Qed.
Example selftest_230 :
  g_time_to_index {| cap := 1; S := (-1); ilb := 1; buf := [7]; fillv := 7 |} (-1) = 1.
Proof. vm_compute. reflexivity. Qed.
Example selftest_231 :
  g_get_samples_lb {| cap := 1; S := (-1); ilb := 1; buf := [7]; fillv := 7 |} = (-1).
Proof. vm_compute. reflexivity. Qed.
Example selftest_232 :
  g_get_samples_ub {| cap := 1; S := (-1); ilb := 1; buf := [7]; fillv := 7 |} = (-1).
Proof. vm_compute. reflexivity. Qed.
Example selftest_233 :
  g_get_range_samples {| cap := 1; S := (-1); ilb := 1; buf := [7]; fillv := 7 |} (Some (-3)) (Some 0) = Raise EIndexError.
Proof. vm_compute. reflexivity. Qed.
Example selftest_234 :
  g_get_range_samples {| cap := 1; S := (-1); ilb := 1; buf := [7]; fillv := 7 |} None (Some 0) = Raise EIndexError.
Proof. vm_compute. reflexivity. Qed.
Example selftest_235 :
  g_get_range_samples {| cap := 1; S := (-1); ilb := 1; buf := [7]; fillv := 7 |} (Some (-3)) None = Raise EIndexError.
Proof. vm_compute. reflexivity. Qed.
Example selftest_236 :
  g_get_range_samples {| cap := 1; S := (-1); ilb := 1; buf := [7]; fillv := 7 |} None None = Ret [].
Proof. vm_compute. reflexivity. Qed.
Example selftest_237 :
  g_get_range_filled {| cap := 1; S := (-1); ilb := 1; buf := [7]; fillv := 7 |} (-3) 0 9 = Ret [9; 9; 9].
Proof. vm_compute. reflexivity. Qed.
Example selftest_238 :
  g_get_latest {| cap := 1; S := (-1); ilb := 1; buf := [7]; fillv := 7 |} (-2) 1 None = Raise EIndexError.
Proof. vm_compute. reflexivity. Qed.
Example selftest_239 :
  g_get_latest {| cap := 1; S := (-1); ilb := 1; buf := [7]; fillv := 7 |} (-2) 1 (Some 9) = Ret [9; 9; 9].
Proof. vm_compute. reflexivity. Qed.
Example selftest_240 :
  g_append_data {| cap := 1; S := (-1); ilb := 1; buf := [7]; fillv := 7 |} [] = MOk {| cap := 1; S := (-1); ilb := 1; buf := [7]; fillv := 7 |}.
Proof. vm_compute. reflexivity. Qed.
Example selftest_241 :
  g_append_data {| cap := 1; S := (-1); ilb := 1; buf := [7]; fillv := 7 |} [500] = MOk {| cap := 1; S := 0; ilb := 0; buf := [500]; fillv := 7 |}.
Proof. vm_compute. reflexivity. Qed.
Example selftest_242 :
  g_append_data {| cap := 1; S := (-1); ilb := 1; buf := [7]; fillv := 7 |} [500; 501] = MOk {| cap := 1; S := 1; ilb := 0; buf := [501]; fillv := 7 |}.
Proof. vm_compute. reflexivity. Qed.
Example selftest_243 :
  g__invalidate {| cap := 1; S := (-1); ilb := 1; buf := [7]; fillv := 7 |} 2 = MOk {| cap := 1; S := (-1); ilb := 0; buf := [7]; fillv := 7 |}.
Proof. vm_compute. reflexivity. Qed.
Example selftest_244 :
  g_invalidate_samples {| cap := 1; S := (-1); ilb := 1; buf := [7]; fillv := 7 |} 1 = MOk {| cap := 1; S := (-1); ilb := 1; buf := [7]; fillv := 7 |}.
Proof. vm_compute. reflexivity. Qed.
Example selftest_245 :
  g_invalidate {| cap := 1; S := (-1); ilb := 1; buf := [7]; fillv := 7 |} (-3) = MOk {| cap := 1; S := (-3); ilb := 1; buf := [7]; fillv := 7 |}.
Proof. vm_compute. reflexivity. Qed.
Example selftest_246 :
  g_resize {| cap := 1; S := (-1); ilb := 1; buf := [7]; fillv := 7 |} 3 = MOk {| cap := 3; S := (-1); ilb := 3; buf := [7; 7; 7]; fillv := 7 |}.
Proof. vm_compute. reflexivity. Qed.
Example selftest_247 :
  g_init 4 0 = MOk {| cap := 4; S := 0; ilb := 4; buf := [0; 0; 0; 0]; fillv := 0 |}.
Proof. vm_compute. reflexivity. Qed.
Example selftest_248 :
  g_samples_to_index {| cap := 6; S := 10; ilb := 2; buf := [0; 0; 61; 62; 63; 64]; fillv := 0 |} 10 = 6.
Proof. vm_compute. reflexivity. Qed.
Example selftest_249 :
  g_time_to_index {| cap := 6; S := 10; ilb := 2; buf := [0; 0; 61; 62; 63; 64]; fillv := 0 |} 10 = 6.
Proof. vm_compute. reflexivity. Qed.
Example selftest_250 :
  g_get_samples_lb {| cap := 6; S := 10; ilb := 2; buf := [0; 0; 61; 62; 63; 64]; fillv := 0 |} = 6.
Proof. vm_compute. reflexivity. Qed.
Example selftest_251 :
  g_get_samples_ub {| cap := 6; S := 10; ilb := 2; buf := [0; 0; 61; 62; 63; 64]; fillv := 0 |} = 10.
Proof. vm_compute. reflexivity. Qed.
Example selftest_252 :
  g_get_range_samples {| cap := 6; S := 10; ilb := 2; buf := [0; 0; 61; 62; 63; 64]; fillv := 0 |} (Some 11) (Some 11) = Raise EIndexError.
Proof. vm_compute. reflexivity. Qed.
Example selftest_253 :
  g_get_range_samples {| cap := 6; S := 10; ilb := 2; buf := [0; 0; 61; 62; 63; 64]; fillv := 0 |} None (Some 11) = Raise EIndexError.
Proof. vm_compute. reflexivity. Qed.
Example selftest_254 :
  g_get_range_samples {| cap := 6; S := 10; ilb := 2; buf := [0; 0; 61; 62; 63; 64]; fillv := 0 |} (Some 11) None = Ret [].
Proof. vm_compute. reflexivity. Qed.
Example selftest_255 :
  g_get_range_samples {| cap := 6; S := 10; ilb := 2; buf := [0; 0; 61; 62; 63; 64]; fillv := 0 |} None None = Ret [61; 62; 63; 64].
Proof. vm_compute. reflexivity. Qed.
Example selftest_256 :
  g_get_range_filled {| cap := 6; S := 10; ilb := 2; buf := [0; 0; 61; 62; 63; 64]; fillv := 0 |} 11 11 9 = Ret [].
Proof. vm_compute. reflexivity. Qed.
Example selftest_257 :
  g_get_latest {| cap := 6; S := 10; ilb := 2; buf := [0; 0; 61; 62; 63; 64]; fillv := 0 |} 1 1 None = Raise EIndexError.
Proof. vm_compute. reflexivity. Qed.
Example selftest_258 :
  g_get_latest {| cap := 6; S := 10; ilb := 2; buf := [0; 0; 61; 62; 63; 64]; fillv := 0 |} 1 1 (Some 9) = Ret [].
Proof. vm_compute. reflexivity. Qed.
Example selftest_259 :
  g_append_data {| cap := 6; S := 10; ilb := 2; buf := [0; 0; 61; 62; 63; 64]; fillv := 0 |} [] = MOk {| cap := 6; S := 10; ilb := 2; buf := [0; 0; 61; 62; 63; 64]; fillv := 0 |}.
Proof. vm_compute. reflexivity. Qed.
Example selftest_260 :
  g_append_data {| cap := 6; S := 10; ilb := 2; buf := [0; 0; 61; 62; 63; 64]; fillv := 0 |} [500; 501; 502; 503; 504] = MOk {| cap := 6; S := 15; ilb := 0; buf := [64; 500; 501; 502; 503; 504]; fillv := 0 |}.
Proof. vm_compute. reflexivity. Qed.
Example selftest_261 :
  g_append_data {| cap := 6; S := 10; ilb := 2; buf := [0; 0; 61; 62; 63; 64]; fillv := 0 |} [500; 501; 502; 503; 504; 505; 506] = MOk {| cap := 6; S := 17; ilb := 0; buf := [501; 502; 503; 504; 505; 506]; fillv := 0 |}.
Proof. vm_compute. reflexivity. Qed.
Example selftest_262 :
  g__invalidate {| cap := 6; S := 10; ilb := 2; buf := [0; 0; 61; 62; 63; 64]; fillv := 0 |} 7 = MOk {| cap := 6; S := 10; ilb := 1; buf := [0; 0; 61; 62; 63; 64]; fillv := 0 |}.
Proof. vm_compute. reflexivity. Qed.
Example selftest_263 :
  g_invalidate_samples {| cap := 6; S := 10; ilb := 2; buf := [0; 0; 61; 62; 63; 64]; fillv := 0 |} 12 = MOk {| cap := 6; S := 10; ilb := 2; buf := [0; 0; 61; 62; 63; 64]; fillv := 0 |}.
Proof. vm_compute. reflexivity. Qed.
Example selftest_264 :
  g_invalidate {| cap := 6; S := 10; ilb := 2; buf := [0; 0; 61; 62; 63; 64]; fillv := 0 |} 4 = MOk {| cap := 6; S := 4; ilb := 6; buf := [0; 0; 0; 0; 0; 0]; fillv := 0 |}.
Proof. vm_compute. reflexivity. Qed.
Example selftest_265 :
  g_resize {| cap := 6; S := 10; ilb := 2; buf := [0; 0; 61; 62; 63; 64]; fillv := 0 |} 5 = MOk {| cap := 5; S := 10; ilb := 1; buf := [0; 61; 62; 63; 64]; fillv := 0 |}.
Proof. vm_compute. reflexivity. Qed.
