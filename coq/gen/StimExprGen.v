(* GENERATED on every run by harness/C08.py translate() with translate/pyexpr2coq_ext.py from
   /repo/psiaudio/stim.py - do not edit.  sens = calibration.get_sens(frequency of the component);
   msf = calibration.get_mean_sf(...); i = np.arange(samples); u = uniform deviate; w = filtered waveform. *)
From Coq Require Import Reals.
From PV Require Import Calib.RBase gen.CalibGen.
Open Scope R_scope.

(* psiaudio/stim.py:1029  tone  under calibration is None = False *)
Definition tone_sample (sens level polarity i offset fs frequency phase : R) : R :=
  (Rmult (Rmult (Rmult polarity (cal_get_sf sens level 0)) (sqrt 2)) (cos (Rplus (Rmult (Rmult (Rmult 2 PI) (Rdiv (Rplus i offset) fs)) frequency) phase))).
(* psiaudio/stim.py:1029  tone  under calibration is None = True *)
Definition tone_sample_nocal (level polarity i offset fs frequency phase : R) : R :=
  (Rmult (Rmult (Rmult polarity level) (sqrt 2)) (cos (Rplus (Rmult (Rmult (Rmult 2 PI) (Rdiv (Rplus i offset) fs)) frequency) phase))).
(* psiaudio/stim.py:370  sam_eq_power *)
Definition sam_eq_power (depth : R) : R :=
  (sqrt (Rplus (Rminus (Rmult (Rdiv 3 8) (pow depth 2%nat)) depth) 1)).
(* psiaudio/stim.py:1075  sam_tone  under calibration is not None = True, equalize = True, depth != 1 = False, eq_power = True  component 0  value of `s` *)
Definition sam_lb_sample (sens_lb level polarity i offset fs fc fm depth phase_lb : R) : R :=
  (Rmult (Rmult (Rmult polarity (Rdiv (Rmult (cal_get_sf sens_lb level 0) (Rdiv 1 4)) (sam_eq_power depth))) (sqrt 2)) (cos (Rplus (Rmult (Rmult (Rmult 2 PI) (Rdiv (Rplus i offset) fs)) (Rplus fc (Rmult fm (Ropp 1)))) phase_lb))).
(* psiaudio/stim.py:1075  sam_tone  under calibration is not None = True, equalize = True, depth != 1 = False, eq_power = True  component 1  value of `s` *)
Definition sam_c_sample (sens_c level polarity i offset fs fc fm depth phase : R) : R :=
  (Rmult (Rmult (Rmult polarity (Rdiv (Rmult (cal_get_sf sens_c level 0) (Rdiv 1 2)) (sam_eq_power depth))) (sqrt 2)) (cos (Rplus (Rmult (Rmult (Rmult 2 PI) (Rdiv (Rplus i offset) fs)) (Rplus fc (Rmult fm 0))) phase))).
(* psiaudio/stim.py:1075  sam_tone  under calibration is not None = True, equalize = True, depth != 1 = False, eq_power = True  component 2  value of `s` *)
Definition sam_ub_sample (sens_ub level polarity i offset fs fc fm depth phase_ub : R) : R :=
  (Rmult (Rmult (Rmult polarity (Rdiv (Rmult (cal_get_sf sens_ub level 0) (Rdiv 1 4)) (sam_eq_power depth))) (sqrt 2)) (cos (Rplus (Rmult (Rmult (Rmult 2 PI) (Rdiv (Rplus i offset) fs)) (Rplus fc (Rmult fm 1))) phase_ub))).
(* psiaudio/stim.py:1075  sam_tone  under calibration is not None = True, equalize = True, depth != 1 = False, eq_power = False  component 0  value of `s` *)
Definition sam_lb_sample_noeq (sens_lb level polarity i offset fs fc fm depth phase_lb : R) : R :=
  (Rmult (Rmult (Rmult polarity (Rmult (cal_get_sf sens_lb level 0) (Rdiv 1 4))) (sqrt 2)) (cos (Rplus (Rmult (Rmult (Rmult 2 PI) (Rdiv (Rplus i offset) fs)) (Rplus fc (Rmult fm (Ropp 1)))) phase_lb))).
(* psiaudio/stim.py:1075  sam_tone  under calibration is not None = True, equalize = True, depth != 1 = False, eq_power = False  component 1  value of `s` *)
Definition sam_c_sample_noeq (sens_c level polarity i offset fs fc fm depth phase : R) : R :=
  (Rmult (Rmult (Rmult polarity (Rmult (cal_get_sf sens_c level 0) (Rdiv 1 2))) (sqrt 2)) (cos (Rplus (Rmult (Rmult (Rmult 2 PI) (Rdiv (Rplus i offset) fs)) (Rplus fc (Rmult fm 0))) phase))).
(* psiaudio/stim.py:1075  sam_tone  under calibration is not None = True, equalize = True, depth != 1 = False, eq_power = False  component 2  value of `s` *)
Definition sam_ub_sample_noeq (sens_ub level polarity i offset fs fc fm depth phase_ub : R) : R :=
  (Rmult (Rmult (Rmult polarity (Rmult (cal_get_sf sens_ub level 0) (Rdiv 1 4))) (sqrt 2)) (cos (Rplus (Rmult (Rmult (Rmult 2 PI) (Rdiv (Rplus i offset) fs)) (Rplus fc (Rmult fm 1))) phase_ub))).
(* psiaudio/stim.py:1336  ClickFactory.__init__  value of `self.waveform` *)
Definition click_sample (sens level polarity : R) : R :=
  (Rmult (Rmult polarity (cal_get_sf sens level 0)) 1).
(* psiaudio/stim.py:524  BroadbandNoiseFactory.__init__  under equalize = False, calibration is None = False  value of `self.low` *)
Definition bb_low (msf : R) : R :=
  (Rmult (Ropp (sqrt 3)) msf).
(* psiaudio/stim.py:524  BroadbandNoiseFactory.__init__  under equalize = False, calibration is None = False  value of `self.high` *)
Definition bb_high (msf : R) : R :=
  (Rmult (sqrt 3) msf).
(* psiaudio/stim.py:551  BroadbandNoiseFactory.next *)
Definition bb_sample (polarity u : R) : R :=
  (Rmult polarity u).
(* psiaudio/stim.py:638  BandlimitedNoiseFactory.__init__  under calibration is None = False  value of `self.low` *)
Definition bl_low (msf fs fl fh : R) : R :=
  (Rmult (Rmult (Ropp (sqrt 3)) (Rdiv 1 (sqrt (Rdiv (Rmult (Rminus fh fl) 2) fs)))) msf).
(* psiaudio/stim.py:638  BandlimitedNoiseFactory.__init__  under calibration is None = False  value of `self.high` *)
Definition bl_high (msf fs fl fh : R) : R :=
  (Rmult (Rmult (sqrt 3) (Rdiv 1 (sqrt (Rdiv (Rmult (Rminus fh fl) 2) fs)))) msf).
(* psiaudio/stim.py:698  BandlimitedNoiseFactory.next  under samples == 0 = False *)
Definition bl_sample (polarity w : R) : R :=
  (Rmult w polarity).
(* psiaudio/stim.py:955  ShapedNoiseFactory.__init__  under calibration is None = False  value of `self.scale` *)
Definition shaped_scale (filter_sf msf : R) : R :=
  (Rmult (Rmult (sqrt 3) filter_sf) msf).
(* psiaudio/stim.py:981  ShapedNoiseFactory.next  under samples == 0 = False *)
Definition shaped_sample (polarity w : R) : R :=
  (Rmult w polarity).
(* psiaudio/stim.py:806  BandlimitedFIRNoiseFactory.next  under samples == 0 = False *)
Definition fir_sample (polarity w : R) : R :=
  (Rmult w polarity).
