(* GENERATED on every run by harness/C08.py translate() with translate/pyexpr2coq_ext.py from
   /tmp/mut-C16/psiaudio/stim.py - do not edit.  sens = calibration.get_sens(frequency of the component);
   msf = calibration.get_mean_sf(...); i = np.arange(samples); u = uniform deviate; w = filtered waveform. *)
From Coq Require Import Reals String.
Definition translator_gap : R :=
  "tone (line 1024): call to a function that is not in the tables: `np.power(2, 0.5)`"%string.
