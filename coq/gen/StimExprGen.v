(* GENERATED on every run by harness/C08.py translate() with translate/pyexpr2coq_ext.py from
   /tmp/aud-c16c08/psiaudio/stim.py - do not edit.  sens = calibration.get_sens(frequency of the component);
   msf = calibration.get_mean_sf(...); i = np.arange(samples); u = uniform deviate; w = filtered waveform. *)
From Coq Require Import Reals String.
Definition translator_gap : R :=
  "tone (line 1024): value depends on code that is not translated (tone (line 1023): conditional expression whose test is not in the assume table: `(np.arange(samples, dtype=np.double) + offset) // fs * 1.0 if isinsta): `t`"%string.
