(* Small list/Z helpers shared by every model.  Stdlib only. *)
From Coq Require Export ZArith List Bool Lia.
Export ListNotations.
Open Scope Z_scope.

(* [zr f lo n] = [f lo; f (lo+1); ...; f (lo+n-1)] *)
Fixpoint zr {A} (f : Z -> A) (lo : Z) (n : nat) : list A :=
  match n with O => [] | S k => f lo :: zr f (lo + 1) k end.
Definition zrange {A} (f : Z -> A) (lo n : Z) : list A := zr f lo (Z.to_nat n).

Definition zlen {A} (l : list A) : Z := Z.of_nat (length l).
Definition sumZ (l : list Z) : Z := fold_right Z.add 0 l.

Fixpoint eqb_listZ (a b : list Z) : bool :=
  match a, b with
  | [], [] => true
  | x :: a', y :: b' => (x =? y) && eqb_listZ a' b'
  | _, _ => false
  end.
Definition eqb_pairZ (p q : Z * Z) : bool := (fst p =? fst q) && (snd p =? snd q).
Fixpoint eqb_list {A} (eqb : A -> A -> bool) (a b : list A) : bool :=
  match a, b with
  | [], [] => true
  | x :: a', y :: b' => eqb x y && eqb_list eqb a' b'
  | _, _ => false
  end.
Definition eqb_option {A} (eqb : A -> A -> bool) (a b : option A) : bool :=
  match a, b with
  | None, None => true
  | Some x, Some y => eqb x y
  | _, _ => false
  end.

(* indices (as Z) of failing entries of a list of checks; used by the generated cases files *)
Fixpoint failing_from (i : Z) (l : list bool) : list Z :=
  match l with
  | [] => []
  | b :: t => if b then failing_from (i + 1) t else i :: failing_from (i + 1) t
  end.
Definition failing (l : list bool) : list Z := failing_from 0 l.
