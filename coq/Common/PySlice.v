(* Python / NumPy basic slicing on lists, as CPython's PySlice_AdjustIndices does it.
   Definitions only.  Validated against Python's own slice(a,b,c).indices(n) by harness/pyslice.py. *)
From PV Require Export Common.ListX.

(* normalise one bound of a step>0 slice over a sequence of length n *)
Definition adj_bound (n : Z) (b : Z) : Z :=
  if b <? 0 then Z.max 0 (b + n) else Z.min b n.

(* x[start:stop] with unit step; None = omitted *)
Definition py_lo (n : Z) (start : option Z) : Z :=
  match start with None => 0 | Some s => adj_bound n s end.
Definition py_hi (n : Z) (stop : option Z) : Z :=
  match stop with None => n | Some s => adj_bound n s end.

Definition py_slice {A} (start stop : option Z) (l : list A) : list A :=
  let n := zlen l in
  let lo := py_lo n start in
  let hi := py_hi n stop in
  firstn (Z.to_nat (hi - lo)) (skipn (Z.to_nat lo) l).

(* number of elements selected by x[start:stop:step], step >= 1 *)
Definition py_slice_len (n : Z) (start stop : option Z) (step : Z) : Z :=
  let lo := py_lo n start in
  let hi := py_hi n stop in
  if hi <=? lo then 0 else (hi - lo - 1) / step + 1.

Fixpoint every_nth_aux {A} (k : nat) (step : nat) (l : list A) : list A :=
  match l with
  | [] => []
  | x :: t => match k with
              | O => x :: every_nth_aux (step - 1) step t
              | S k' => every_nth_aux k' step t
              end
  end.
(* x[start:stop:step], step >= 1 *)
Definition py_slice_step {A} (start stop : option Z) (step : Z) (l : list A) : list A :=
  every_nth_aux 0 (Z.to_nat step) (py_slice start stop l).

(* x[start:stop] = v (constant fill, unit step): every selected element replaced by v *)
Definition py_set_const {A} (start stop : option Z) (v : A) (l : list A) : list A :=
  let n := zlen l in
  let lo := py_lo n start in
  let hi := py_hi n stop in
  if hi <=? lo then l
  else firstn (Z.to_nat lo) l ++ repeat v (Z.to_nat (hi - lo)) ++ skipn (Z.to_nat hi) l.

(* the (start, stop) pair Python reports from slice(a, b, 1).indices(n) *)
Definition py_indices (n : Z) (start stop : option Z) : Z * Z := (py_lo n start, py_hi n stop).
