(* Proofs for C11 (annotated arrays).  Stdlib only. *)
From Coq Require Import ZArith List Bool Lia ZifyBool.
From PV Require Import PData.Model PData.Spec.
Import ListNotations.
Open Scope Z_scope.

(* ------------------------------------------------------------------ small list facts *)
Lemma zlen_nonneg {A} (l : list A) : 0 <= zlen l.
Proof. unfold zlen; lia. Qed.
Lemma zlen_nil {A} : zlen (@nil A) = 0.
Proof. reflexivity. Qed.
Lemma zlen_cons {A} (a : A) l : zlen (a :: l) = 1 + zlen l.
Proof. unfold zlen; cbn [length]; lia. Qed.
Lemma zlen_app {A} (a b : list A) : zlen (a ++ b) = zlen a + zlen b.
Proof. unfold zlen; rewrite app_length; lia. Qed.
Lemma zlen_map {A B} (f : A -> B) l : zlen (map f l) = zlen l.
Proof. unfold zlen; now rewrite map_length. Qed.
Lemma zlen_repeat {A} (a : A) n : zlen (repeat a n) = Z.of_nat n.
Proof. unfold zlen; now rewrite repeat_length. Qed.
Lemma zlen_0_nil {A} (l : list A) : zlen l = 0 -> l = [].
Proof. destruct l; [easy | rewrite zlen_cons; pose proof (zlen_nonneg l); lia]. Qed.

Lemma countb_nil {A} (f : A -> bool) : countb f [] = 0.
Proof. reflexivity. Qed.
Lemma countb_cons {A} (f : A -> bool) a l : countb f (a :: l) = (if f a then 1 else 0) + countb f l.
Proof. unfold countb; cbn [filter]; destruct (f a); [rewrite zlen_cons|]; lia. Qed.
Lemma countb_app {A} (f : A -> bool) a b : countb f (a ++ b) = countb f a + countb f b.
Proof. unfold countb; rewrite filter_app, zlen_app; lia. Qed.
Lemma countb_nonneg {A} (f : A -> bool) l : 0 <= countb f l.
Proof. apply zlen_nonneg. Qed.
Lemma countb_repeat {A} (f : A -> bool) a n : countb f (repeat a n) = if f a then Z.of_nat n else 0.
Proof.
  induction n as [|n IH]; [destruct (f a); reflexivity|].
  cbn [repeat]; rewrite countb_cons, IH; destruct (f a); lia.
Qed.
Lemma countb_0_forall {A} (f : A -> bool) l : countb f l = 0 -> forall a, In a l -> f a = false.
Proof.
  induction l as [|b l IH]; [easy|].
  rewrite countb_cons; intros H a [->|Hin].
  - destruct (f a); [pose proof (countb_nonneg f l); lia | reflexivity].
  - apply IH; [|exact Hin]. pose proof (countb_nonneg f l). destruct (f b); lia.
Qed.

(* ------------------------------------------------------------------ normalize_index = NumPy's expansion *)
Definition conv1 (it : item) : nitem :=
  match it with
  | IInt z => NInt z
  | ISlice a b c => NSlice a b c
  | IList zs => NListZ zs
  | IMask bs _ => NListB bs
  | IEllipsis => nfull
  | INewaxis => NNew
  end.

Lemma map_conv1_repeat n : map conv1 (repeat full n) = repeat nfull n.
Proof. induction n; cbn; [reflexivity | now rewrite IHn]. Qed.

Lemma conv_item_expand fill it : conv_item fill it = map conv1 (expand_item fill it).
Proof. destruct it; try reflexivity. cbn. now rewrite map_conv1_repeat. Qed.

Lemma flat_conv_expand fill its :
  flat_map (conv_item fill) its = map conv1 (flat_map (expand_item fill) its).
Proof.
  induction its as [|it its IH]; [reflexivity|].
  cbn [flat_map]. rewrite map_app, IH, conv_item_expand. reflexivity.
Qed.

Lemma flat_conv_noell fill its :
  countb is_ell its = 0 -> flat_map (conv_item fill) its = map conv1 its.
Proof.
  intros H. pose proof (countb_0_forall _ _ H) as Hn. clear H.
  induction its as [|it its IH]; [reflexivity|].
  cbn [flat_map map]. rewrite IH by (intros; apply Hn; now right).
  specialize (Hn it (or_introl eq_refl)). destruct it; try reflexivity. discriminate.
Qed.

Lemma item_kinds its :
  zlen its = countb consumes its + countb is_new its + countb is_ell its.
Proof.
  induction its as [|it its IH]; [reflexivity|].
  rewrite zlen_cons, !countb_cons, IH. destruct it; cbn [consumes is_new is_ell negb orb]; lia.
Qed.

Lemma zlen_flat_expand fill its : 0 <= fill ->
  zlen (flat_map (expand_item fill) its) = zlen its - countb is_ell its + fill * countb is_ell its.
Proof.
  intros Hf. induction its as [|it its IH]; [cbn [flat_map]; rewrite zlen_nil, countb_nil; lia|].
  cbn [flat_map]. rewrite zlen_app, IH, zlen_cons, countb_cons.
  destruct it; cbn [expand_item is_ell]; rewrite ?zlen_repeat, ?zlen_cons, ?zlen_nil; lia.
Qed.

Lemma normalize_tuple_expand nd its ex :
  np_expand nd its = Some ex -> normalize_tuple true nd its = inr (map conv1 ex).
Proof.
  unfold np_expand, normalize_tuple. intros H.
  destruct ((countb is_ell its >? 1) || (countb consumes its >? nd)) eqn:E; [discriminate|].
  apply orb_false_elim in E. destruct E as [E1 E2].
  rewrite E1. cbn [negb andb].
  pose proof (item_kinds its) as K.
  pose proof (countb_nonneg is_ell its) as Hell.
  destruct (countb is_ell its =? 0) eqn:E0.
  - injection H as <-. rewrite flat_conv_noell by lia.
    rewrite map_app, map_conv1_repeat, zlen_map. do 3 f_equal. lia.
  - injection H as <-.
    assert (Hone : countb is_ell its = 1) by lia.
    replace (nd + countb is_new its - zlen its + 1) with (nd - countb consumes its) by lia.
    rewrite flat_conv_expand, zlen_map, zlen_flat_expand by lia.
    replace (Z.to_nat _) with 0%nat by lia.
    cbn [repeat]. now rewrite app_nil_r.
Qed.

(* the bare-index forms of normalize_index agree with the one-element tuple, except for the
   `index.all()` shortcut taken for a bare all-True boolean array *)
Definition all_true_arr (ix : index) : bool :=
  sole ix && match items ix with [IMask bs true] => forallb (fun b => b) bs | _ => false end.

Lemma normalize_expand nd (ix : index) ex :
  all_true_arr ix = false -> np_expand nd (items ix) = Some ex ->
  normalize_index true ix nd = inr (map conv1 ex).
Proof.
  unfold normalize_index, all_true_arr. destruct ix as [so its]. cbn [sole items].
  destruct so; [|intros _; apply normalize_tuple_expand].
  cbn [andb]. intros Hs H.
  destruct its as [|it [|it2 its]]; try (now apply normalize_tuple_expand);
    [|destruct it as [| | |? []| |]; now apply normalize_tuple_expand].
  destruct it; try (now apply normalize_tuple_expand).
  - (* int *) revert H. unfold np_expand. cbn.
    destruct (1 >? nd) eqn:E; [discriminate|]. intros H. injection H as <-.
    cbn. now rewrite map_conv1_repeat.
  - revert H. unfold np_expand. cbn.
    destruct (1 >? nd) eqn:E; [discriminate|]. intros H. injection H as <-.
    cbn. now rewrite map_conv1_repeat.
  - (* mask *) destruct arr; [|now apply normalize_tuple_expand].
    rewrite Hs, Bool.andb_false_r. revert H. unfold np_expand, normalize_tuple. cbn.
    destruct (1 >? nd) eqn:E; [discriminate|]. intros H. injection H as <-.
    cbn. rewrite map_conv1_repeat. do 3 f_equal. lia.
  - (* ellipsis *) revert H. unfold np_expand. cbn.
    destruct (0 >? nd) eqn:E; [discriminate|]. intros H. injection H as <-.
    cbn. rewrite app_nil_r, map_conv1_repeat. do 2 f_equal. lia.
  - (* newaxis *) revert H. unfold np_expand. cbn.
    destruct (0 >? nd) eqn:E; [discriminate|]. intros H. injection H as <-.
    cbn. rewrite map_conv1_repeat. do 3 f_equal. lia.
Qed.

(* ------------------------------------------------------------------ shape of NumPy's expansion *)
Lemma strip_new_spec ex : forall k per, strip_new ex = (k, per) ->
  ex = repeat INewaxis (Z.to_nat k) ++ per /\ 0 <= k.
Proof.
  induction ex as [|it ex IH]; intros k per H.
  - cbn in H. injection H as <- <-. split; [reflexivity | lia].
  - destruct it; try (cbn in H; injection H as <- <-; split; [reflexivity | lia]).
    cbn [strip_new] in H. destruct (strip_new ex) as [k0 r] eqn:E.
    injection H as <- <-. destruct (IH _ _ eq_refl) as [-> Hk]. split; [|lia].
    replace (Z.to_nat (k0 + 1)) with (S (Z.to_nat k0)) by lia. reflexivity.
Qed.

Lemma countb_flat_expand (f : item -> bool) fill its : 0 <= fill -> f IEllipsis = false ->
  countb f (flat_map (expand_item fill) its) = countb f its + (if f full then fill else 0) * countb is_ell its.
Proof.
  intros Hf He. induction its as [|it its IH]; [cbn [flat_map]; rewrite !countb_nil; lia|].
  cbn [flat_map]. rewrite countb_app, IH, !countb_cons.
  destruct it; cbn [expand_item is_ell]; rewrite ?countb_cons, ?countb_nil, ?countb_repeat, ?He;
    destruct (f full); try lia.
Qed.

Lemma countb_ell_flat_expand fill its : countb is_ell (flat_map (expand_item fill) its) = 0.
Proof.
  induction its as [|it its IH]; [reflexivity|].
  cbn [flat_map]. rewrite countb_app, IH.
  destruct it; cbn [expand_item]; rewrite ?countb_cons, ?countb_nil, ?countb_repeat; reflexivity.
Qed.

Lemma consumes_full : consumes full = true. Proof. reflexivity. Qed.
Lemma is_ell_full : is_ell full = false. Proof. reflexivity. Qed.
Lemma consumes_new : consumes INewaxis = false. Proof. reflexivity. Qed.
Lemma is_ell_new : is_ell INewaxis = false. Proof. reflexivity. Qed.
Lemma consumes_ell : consumes IEllipsis = false. Proof. reflexivity. Qed.
Lemma is_ell_ell : is_ell IEllipsis = true. Proof. reflexivity. Qed.
Ltac kinds := rewrite ?consumes_full, ?is_ell_full, ?consumes_new, ?is_ell_new, ?consumes_ell, ?is_ell_ell.

Lemma expand_facts nd its ex : np_expand nd its = Some ex ->
  countb consumes ex = nd /\ countb is_ell ex = 0.
Proof.
  unfold np_expand. intros H.
  destruct ((countb is_ell its >? 1) || (countb consumes its >? nd)) eqn:E; [discriminate|].
  apply orb_false_elim in E. destruct E as [E1 E2]. rewrite Z.gtb_ltb in E1, E2.
  pose proof (countb_nonneg is_ell its) as Hell.
  destruct (countb is_ell its =? 0) eqn:E0; injection H as <-.
  - apply Z.eqb_eq in E0.
    rewrite !countb_app, !countb_repeat. kinds. split; lia.
  - assert (H1 : countb is_ell its = 1) by lia.
    rewrite countb_flat_expand by (reflexivity || lia). rewrite countb_ell_flat_expand. kinds.
    rewrite H1. split; lia.
Qed.

Lemma existsb_false_count {A} (f : A -> bool) l : existsb f l = false -> countb f l = 0.
Proof.
  induction l as [|a l IH]; [reflexivity|]. cbn [existsb]. rewrite countb_cons.
  destruct (f a); [discriminate|]. intros H. rewrite IH by exact H. reflexivity.
Qed.

Definition plain (it : item) : Prop := is_new it = false /\ is_ell it = false.

Lemma denotes_shape nd ix k per : denotes nd ix k per ->
  exists ex, np_expand nd (items ix) = Some ex /\ strip_new ex = (k, per) /\
    ex = repeat INewaxis (Z.to_nat k) ++ per /\ 0 <= k /\ k + nd <= 3 /\ zlen per = nd /\
    Forall plain per /\ is_slice (last per IEllipsis) = true /\ countb is_adv per <= 1.
Proof.
  intros (ex & He & Hs & Hr & Hk). exists ex.
  destruct (strip_new_spec _ _ _ Hs) as [Hex Hk0].
  destruct (expand_facts _ _ _ He) as [Hc Hell].
  unfold regular_per in Hr. apply andb_prop in Hr. destruct Hr as [Hr Hadv].
  apply andb_prop in Hr. destruct Hr as [Hnew Hsl].
  apply negb_true_iff in Hnew. pose proof (existsb_false_count _ _ Hnew) as Hn0.
  rewrite Hex in Hc, Hell. rewrite countb_app, countb_repeat in Hc, Hell.
  change (consumes INewaxis) with false in Hc. change (is_ell INewaxis) with false in Hell.
  cbv iota in Hc, Hell.
  pose proof (countb_nonneg is_ell per).
  pose proof (item_kinds per) as K.
  assert (HF : Forall plain per).
  { apply Forall_forall. intros it Hin. split.
    - eapply countb_0_forall; [exact Hn0 | exact Hin].
    - eapply countb_0_forall; [|exact Hin]. lia. }
  repeat split; try assumption; lia.
Qed.

(* ------------------------------------------------------------------ identities of full selections *)
Lemma every_nth_1 {A} (l : list A) : every_nth_aux 0 1 l = l.
Proof. induction l as [|a l IH]; [reflexivity|]. cbn. now rewrite IH. Qed.

Lemma py_slice_full {A} (l : list A) : py_slice None None l = l.
Proof.
  unfold py_slice, py_lo, py_hi. replace (Z.to_nat (zlen l - 0)) with (length l) by (unfold zlen; lia).
  cbn [Z.to_nat skipn]. apply firstn_all.
Qed.

Lemma py_slice_step_1 {A} a b (l : list A) : py_slice_step a b 1 l = py_slice a b l.
Proof. unfold py_slice_step. change (Z.to_nat 1) with 1%nat. apply every_nth_1. Qed.

Lemma py_slice_step_full {A} (l : list A) : py_slice_step None None 1 l = l.
Proof. now rewrite py_slice_step_1, py_slice_full. Qed.

Lemma take_sel_full {A} (d : A) (l : list A) : take_sel d full l = l.
Proof. apply py_slice_step_full. Qed.

Lemma mask_sel_all {A} bs (l : list A) :
  forallb (fun b => b) bs = true -> zlen bs = zlen l -> mask_sel bs l = l.
Proof.
  revert l. induction bs as [|b bs IH]; intros l Ht Hl.
  - symmetry. apply zlen_0_nil. rewrite <- Hl. reflexivity.
  - destruct l as [|x l]; [rewrite zlen_cons, zlen_nil in Hl; pose proof (zlen_nonneg bs); lia|].
    cbn [forallb] in Ht. apply andb_prop in Ht. destruct Ht as [-> Ht].
    cbn [mask_sel]. rewrite IH; [reflexivity | exact Ht | rewrite !zlen_cons in Hl; lia].
Qed.

(* ------------------------------------------------------------------ the attribute fix-up, item by item *)
Definition fixups (x : pd) (sh : list Z) (d : nest) (s : list nitem) : res :=
  match split3 s with
  | None => RErr EUnbound
  | Some (es, cs, ts) =>
    match fix_time true x ts with
    | inl e => RErr e
    | inr (s0', fsd') =>
      match fix_chan true cs (finalize_chan (chan x) sh) with
      | inl e => RErr e
      | inr ch' =>
        match fix_meta es (meta x) with
        | inl e => RErr e
        | inr md' => RArr {| shape := sh; dat := d; s0 := s0'; fsn := fsn x; fsd := fsd';
                             chan := ch'; meta := md' |}
        end
      end
    end
  end.

Lemma getitem_fixups x ix sh d s :
  np_getitem (shape x) (dat x) (items ix) = NPArr sh d ->
  normalize_index true ix (ndim x) = inr s ->
  getitem x ix = fixups x sh d s.
Proof. unfold getitem, getitem_gen, fixups. intros -> ->. reflexivity. Qed.

Lemma fix_time_slice x a b c : 0 <= n_time x ->
  fix_time true x (NSlice a b c) = inr (s0 x + py_lo (n_time x) a, fsd x * step_of c).
Proof.
  intros Hn. unfold fix_time, py_lo, adj_bound, step_of. f_equal. f_equal.
  - destruct a as [st|]; [|lia].
    rewrite Z.gtb_ltb. destruct (0 <? st) eqn:E1; destruct (st <? 0) eqn:E2; lia.
  - destruct c; lia.
Qed.

Definition axis_item (it : item) : bool := is_int it || is_slice it || is_adv it.

Lemma plain_axis_item it : plain it -> axis_item it = true.
Proof. intros [H1 H2]. destruct it; try reflexivity; discriminate. Qed.

Lemma fix_chan_sel it l : axis_item it = true -> sel_ok (zlen l) it = true ->
  fix_chan true (Some (conv1 it)) (LMany l) = inr (sel_lab it (LMany l)).
Proof.
  intros Ha Hok. destruct it; try discriminate; cbn [conv1 fix_chan sel_lab sel_ok take_sel] in *.
  - now rewrite Hok.
  - reflexivity.
  - unfold sequence_idx. now rewrite Hok.
  - now rewrite Hok.
Qed.

Lemma fix_meta_sel it l : axis_item it = true -> sel_ok (zlen l) it = true ->
  fix_meta (Some (conv1 it)) (LMany l) = inr (sel_lab it (LMany l)).
Proof.
  intros Ha Hok. destruct it; try discriminate; cbn [conv1 fix_meta sel_lab sel_ok take_sel] in *.
  - now rewrite Hok.
  - reflexivity.
  - unfold sequence_idx. now rewrite Hok.
  - now rewrite Hok.
Qed.

(* ------------------------------------------------------------------ the regular case of __getitem__ *)
Lemma np_getitem_regular sh d its ex k per d0 d' :
  np_expand (zlen sh) its = Some ex -> strip_new ex = (k, per) -> regular_per per = true ->
  k + zlen sh <= 3 -> all_ok per sh = true -> np_regular d per = Some d0 -> wrap_new k d0 = Some d' ->
  np_getitem sh d its = NPArr (repeat 1 (Z.to_nat k) ++ out_shape per sh) d'.
Proof.
  unfold np_getitem. intros -> -> -> Hk -> -> ->.
  replace (k + zlen sh <=? 3) with true by lia. reflexivity.
Qed.

Ltac wf_cases x H :=
  destruct x as [sh d xs0 xfn xfd ch md]; unfold wf in H; cbn [shape dat chan meta] in H;
  destruct sh as [|t1 [|t2 [|t3 [|t4 sh]]]]; try contradiction;
  destruct d; try contradiction; destruct ch; try contradiction; destruct md; try contradiction.

Ltac split_ok H :=
  repeat match type of H with
         | (_ && _) = true => let H1 := fresh "Hok" in apply andb_prop in H; destruct H as [H1 H]
         end.

Ltac norm_nat H :=
  change (Z.to_nat 0) with 0%nat in H; change (Z.to_nat 1) with 1%nat in H; change (Z.to_nat 2) with 2%nat in H;
  cbn [repeat app map conv1] in H.
Ltac len_contra H :=
  exfalso; rewrite ?zlen_cons, ?zlen_nil in H;
  first [ lia | match goal with ptl : list item |- _ => pose proof (zlen_nonneg ptl); lia end ].

Lemma getitem_regular_tuple x ix k per :
  all_true_arr ix = false -> wf x -> denotes (ndim x) ix k per -> valid_on (shape x) per ->
  exists d0 d', np_regular (dat x) per = Some d0 /\ wrap_new k d0 = Some d' /\
                getitem x ix = RArr (spec_result x k per d').
Proof.
  intros Hns Hwf Hd Hv.
  destruct (denotes_shape _ _ _ _ Hd) as (ex & He & Hs & Hex & Hk0 & Hk & Hlen & HF & Hsl & Hadv).
  destruct Hd as (ex0 & He0 & Hs0 & Hr & _).
  pose proof (normalize_expand _ _ _ Hns He) as Hnorm.
  assert (Hnp : forall d0 d', np_regular (dat x) per = Some d0 -> wrap_new k d0 = Some d' ->
                np_getitem (shape x) (dat x) (items ix) =
                NPArr (repeat 1 (Z.to_nat k) ++ out_shape per (shape x)) d').
  { intros d0 d' H0 H1. eapply np_getitem_regular; eauto. }
  rewrite Hex in Hnorm. clear He Hs Hex ex He0 Hs0 ex0 Hr Hns.
  unfold valid_on in Hv. unfold spec_result.
  wf_cases x Hwf; unfold ndim in *; cbn [shape dat chan meta s0 fsn fsd] in *.
  - (* 1-D *)
    change (zlen [t1]) with 1 in *.
    destruct per as [|it [|it2 ptl]]; try (len_contra Hlen).
    destruct it as [| a b c | | | |]; try discriminate Hsl.
    cbn [all_ok] in Hv. split_ok Hv.
    assert (Hk' : k = 0 \/ k = 1 \/ k = 2) by lia.
    assert (Hn : 0 <= n_time {| shape := [t1]; dat := N1 r; s0 := xs0; fsn := xfn; fsd := xfd; chan := LOne z; meta := LOne z0 |})
      by (unfold n_time; cbn; pose proof (zlen_nonneg r); lia).
    destruct Hk' as [-> | [-> | ->]]; norm_nat Hnorm;
      (eexists; eexists; split; [reflexivity|]; split; [reflexivity|]);
      (erewrite getitem_fixups; [ | cbn [shape dat]; eapply Hnp; reflexivity | exact Hnorm ]);
      unfold fixups; cbn [split3]; rewrite (fix_time_slice _ _ _ _ Hn);
      cbn [shape dat chan meta s0 fsn fsd time_item last slice_start slice_step spec_chan spec_meta
           fix_chan fix_meta wrap_lab Z.gtb Z.compare].
    + unfold finalize_chan. destruct (z =? none_id) eqn:Ez; reflexivity.
    + unfold finalize_chan. destruct (z =? none_id) eqn:Ez; cbn.
      * apply Z.eqb_eq in Ez. subst z. reflexivity.
      * reflexivity.
    + unfold finalize_chan. destruct (z =? none_id) eqn:Ez; cbn.
      * apply Z.eqb_eq in Ez. subst z. reflexivity.
      * reflexivity.
  - (* 2-D *)
    destruct Hwf as (Ht & [Hb1 Hb2] & Hl).
    change (zlen [t1; t2]) with 2 in *.
    destruct per as [|ic [|it [|it2 ptl]]]; try (len_contra Hlen).
    destruct it as [| a b0 c | | | |]; try discriminate Hsl.
    cbn [all_ok] in Hv. split_ok Hv.
    assert (Hk' : k = 0 \/ k = 1) by lia.
    assert (Hn : 0 <= n_time {| shape := [t1; t2]; dat := N2 b; s0 := xs0; fsn := xfn; fsd := xfd; chan := LMany zs; meta := LOne z |})
      by (unfold n_time; cbn; lia).
    pose proof (Forall_inv HF) as Hpic. apply plain_axis_item in Hpic.
    rewrite <- Hl in Hok.
    destruct Hk' as [-> | ->]; norm_nat Hnorm;
      destruct ic; try discriminate Hpic;
      (eexists; eexists; split; [reflexivity|]; split; [reflexivity|]);
      (erewrite getitem_fixups; [ | cbn [shape dat]; eapply Hnp; reflexivity | exact Hnorm ]);
      unfold fixups; cbn [split3]; rewrite (fix_time_slice _ _ _ _ Hn);
      cbn [shape dat chan meta s0 fsn fsd finalize_chan]; rewrite (fix_chan_sel _ _ Hpic Hok);
      reflexivity.
  - (* 3-D *)
    destruct Hwf as (Hc & Ht & He & Hrect & Hl & Hm).
    change (zlen [t1; t2; t3]) with 3 in *.
    destruct per as [|ie [|ic [|it [|it2 ptl]]]]; try (len_contra Hlen).
    destruct it as [| a b0 c | | | |]; try discriminate Hsl.
    cbn [all_ok] in Hv. split_ok Hv.
    assert (k = 0) by lia. subst k.
    assert (Hn : 0 <= n_time {| shape := [t1; t2; t3]; dat := N3 d; s0 := xs0; fsn := xfn; fsd := xfd; chan := LMany zs; meta := LMany zs0 |})
      by (unfold n_time; cbn; lia).
    pose proof (Forall_inv HF) as Hpie. pose proof (Forall_inv (Forall_inv_tail HF)) as Hpic.
    apply plain_axis_item in Hpic. apply plain_axis_item in Hpie.
    rewrite <- Hm in Hok. rewrite <- Hl in Hok0.
    norm_nat Hnorm;
      destruct ie; try discriminate Hpie; destruct ic; try discriminate Hpic;
      (eexists; eexists; split; [reflexivity|]; split; [reflexivity|]);
      (erewrite getitem_fixups; [ | cbn [shape dat]; eapply Hnp; reflexivity | exact Hnorm ]);
      unfold fixups; cbn [split3]; rewrite (fix_time_slice _ _ _ _ Hn);
      cbn [shape dat chan meta s0 fsn fsd finalize_chan]; rewrite (fix_chan_sel _ _ Hpic Hok0);
      rewrite (fix_meta_sel _ _ Hpie Hok); reflexivity.
Qed.

(* the `index.all()` shortcut for a bare all-True boolean array gives the same result as the general path *)
Lemma shortcut_same x bs :
  wf x -> forallb (fun b => b) bs = true -> zlen bs = hd 0 (shape x) ->
  getitem x {| sole := true; items := [IMask bs true] |} = getitem x {| sole := false; items := [IMask bs true] |}.
Proof.
  intros Hwf Hall Hlen.
  destruct bs as [|b0 bs0].
  { (* an empty mask is not a shortcut any more (repaired): both sides take the general path *)
    unfold getitem, getitem_gen, normalize_index. cbn [sole items forallb andb]. reflexivity. }
  set (bs := b0 :: bs0) in *.
  unfold getitem, getitem_gen. cbn [items].
  destruct (np_getitem (shape x) (dat x) [IMask bs true]) as [| v | sh' d' | sh']; try reflexivity.
  - (* array *)
    unfold normalize_index. cbn [sole items].
    replace (match bs with [] => false | _ :: _ => true end) with true by reflexivity.
    rewrite Hall. cbn [andb].
    wf_cases x Hwf; unfold ndim; cbn [shape dat chan meta s0 fsn fsd hd] in *.
    + change (zlen [t1]) with 1. change (Z.to_nat 1) with 1%nat.
      change (normalize_tuple true 1 [IMask bs true]) with (inr [NListB bs] : err + list nitem).
      cbn [repeat split3 fix_time fix_chan fix_meta finalize_chan nfull step_of s0 fsd]. rewrite Hall. reflexivity.
    + destruct Hwf as (Ht & [Hb1 Hb2] & Hl).
      change (zlen [t1; t2]) with 2. change (Z.to_nat 2) with 2%nat.
      change (normalize_tuple true 2 [IMask bs true]) with (inr [NListB bs; nfull] : err + list nitem).
      cbn [repeat split3 fix_time fix_chan fix_meta finalize_chan nfull step_of s0 fsd].
      replace (zlen bs =? zlen zs) with true by lia.
      rewrite py_slice_step_full, mask_sel_all by (assumption || lia). reflexivity.
    + destruct Hwf as (Hc & Ht & He & Hrect & Hl & Hm).
      change (zlen [t1; t2; t3]) with 3. change (Z.to_nat 3) with 3%nat.
      change (normalize_tuple true 3 [IMask bs true]) with (inr [NListB bs; nfull; nfull] : err + list nitem).
      cbn [repeat split3 fix_time fix_chan fix_meta finalize_chan nfull step_of s0 fsd].
      replace (zlen bs =? zlen zs0) with true by lia.
      rewrite !py_slice_step_full, mask_sel_all by (assumption || lia). reflexivity.
  - unfold normalize_index. cbn [sole items]. rewrite Hall.
    wf_cases x Hwf; unfold ndim; cbn [shape].
    + change (normalize_tuple true (zlen [t1]) [IMask bs true]) with (inr [NListB bs] : err + list nitem). reflexivity.
    + change (normalize_tuple true (zlen [t1; t2]) [IMask bs true]) with (inr [NListB bs; nfull] : err + list nitem). reflexivity.
    + change (normalize_tuple true (zlen [t1; t2; t3]) [IMask bs true]) with (inr [NListB bs; nfull; nfull] : err + list nitem). reflexivity.
Qed.

Theorem getitem_regular x ix k per :
  wf x -> denotes (ndim x) ix k per -> valid_on (shape x) per ->
  exists d0 d', np_regular (dat x) per = Some d0 /\ wrap_new k d0 = Some d' /\
                getitem x ix = RArr (spec_result x k per d').
Proof.
  intros Hwf Hd Hv.
  destruct (all_true_arr ix) eqn:E; [|now apply getitem_regular_tuple].
  unfold all_true_arr in E. destruct ix as [so its]. cbn [sole items] in *.
  destruct so; [|discriminate]. cbn [andb] in E.
  destruct its as [|[| | |bs [|]| |] [|? ?]]; try discriminate.
  assert (Hb : zlen bs = hd 0 (shape x)).
  { destruct Hd as (ex & He & Hs & _). cbn [items] in He. unfold np_expand in He. cbn in He.
    destruct (1 >? ndim x); [discriminate|]. injection He as <-.
    cbn in Hs. injection Hs as <- <-.
    unfold valid_on in Hv. cbn [all_ok app] in Hv.
    destruct (shape x) as [|n sh]; [discriminate|]. cbn [hd].
    apply andb_prop in Hv. destruct Hv as [Hv _]. cbn [sel_ok] in Hv. lia. }
  rewrite (shortcut_same _ _ Hwf E Hb).
  apply getitem_regular_tuple; [reflexivity | exact Hwf | exact Hd | exact Hv].
Qed.

(* ------------------------------------------------------------------ selections are sub-lists *)
Lemma every_nth_incl {A} (l : list A) : forall k s, incl (every_nth_aux k s l) l.
Proof.
  induction l as [|x l IH]; intros k s; [apply incl_refl|].
  cbn [every_nth_aux]. destruct k.
  - apply incl_cons; [now left | apply incl_tl, IH].
  - apply incl_tl, IH.
Qed.

Lemma firstn_incl {A} n (l : list A) : incl (firstn n l) l.
Proof. intros a H. rewrite <- (firstn_skipn n l). apply in_or_app. now left. Qed.
Lemma skipn_incl {A} n (l : list A) : incl (skipn n l) l.
Proof. intros a H. rewrite <- (firstn_skipn n l). apply in_or_app. now right. Qed.

Lemma py_slice_incl {A} a b (l : list A) : incl (py_slice a b l) l.
Proof. unfold py_slice. eapply incl_tran; [apply firstn_incl | apply skipn_incl]. Qed.

Lemma mask_sel_incl {A} bs (l : list A) : incl (mask_sel bs l) l.
Proof.
  revert l. induction bs as [|b bs IH]; intros l; [intros a []|].
  destruct l as [|x l]; [intros a []|]. cbn [mask_sel]. destruct b.
  - apply incl_cons; [now left | apply incl_tl, IH].
  - apply incl_tl, IH.
Qed.

Lemma py_index_In {A} (d : A) l z : idx_ok (zlen l) z = true -> In (py_index d l z) l.
Proof.
  unfold idx_ok, py_index, norm_idx. intros H. apply nth_In.
  unfold zlen in *. destruct (z <? 0) eqn:E; lia.
Qed.

Lemma take_sel_incl {A} (d : A) it l : sel_ok (zlen l) it = true -> incl (take_sel d it l) l.
Proof.
  destruct it; cbn [take_sel sel_ok]; intros H; try apply incl_refl.
  - unfold py_slice_step. eapply incl_tran; [apply every_nth_incl | apply py_slice_incl].
  - intros a Ha. apply in_map_iff in Ha. destruct Ha as (z & <- & Hz).
    apply py_index_In. rewrite forallb_forall in H. now apply H.
  - apply mask_sel_incl.
Qed.

(* ------------------------------------------------------------------ rows of a regular selection *)
Lemma rows_wrap k d d' : wrap_new k d = Some d' -> rows d' = rows d.
Proof.
  unfold wrap_new. destruct (k =? 0); [intros H; now injection H as <-|].
  destruct d; [destruct (k =? 1); [|destruct (k =? 2)] | destruct (k =? 1) |]; intros H; try discriminate;
    injection H as <-; cbn [rows concat]; rewrite ?app_nil_r; reflexivity.
Qed.

Definition wf_dat (sh : list Z) (d : nest) : Prop :=
  match sh, d with
  | [t], N1 r => zlen r = t
  | [c; t], N2 b => rect c t b
  | [e; c; t], N3 d => zlen d = e /\ Forall (rect c t) d
  | _, _ => False
  end.

Lemma wf_wf_dat x : wf x -> wf_dat (shape x) (dat x).
Proof.
  intros H. wf_cases x H; cbn [shape dat wf_dat].
  - exact H.
  - tauto.
  - tauto.
Qed.

(* a uniform view of one axis: what an item keeps of the sequence laid out along the axis (an int keeps one entry) *)
Definition axsel {A} (d : A) (it : item) (l : list A) : list A :=
  match it with IInt z => [py_index d l z] | _ => take_sel d it l end.

Lemma axsel_incl {A} (d : A) it l : sel_ok (zlen l) it = true -> incl (axsel d it l) l.
Proof.
  destruct it; try apply take_sel_incl. cbn [axsel sel_ok]. intros H a [<-|[]]. now apply py_index_In.
Qed.

Lemma concat_map_singleton {A B} (f : A -> B) l : concat (map (fun a => [f a]) l) = map f l.
Proof. induction l as [|a l IH]; [reflexivity|]. cbn. now rewrite IH. Qed.

Lemma rows_sel_c ic it blk : rows (sel_c ic it blk) = map (sel_t it) (axsel [] ic blk).
Proof. destruct ic; reflexivity. Qed.

Lemma rows_sel_e ie ic it d :
  rows (sel_e ie ic it d) = concat (map (fun blk => map (sel_t it) (axsel [] ic blk)) (axsel [] ie d)).
Proof.
  destruct ie; cbn [sel_e axsel map concat]; rewrite ?app_nil_r; try apply rows_sel_c;
    destruct ic; cbn [rows axsel map]; try reflexivity; symmetry; apply concat_map_singleton.
Qed.

Lemma rows_regular sh d per d0 :
  wf_dat sh d -> all_ok per sh = true -> np_regular d per = Some d0 ->
  Forall (fun row' => exists row, In row (rows d) /\ row' = sel_t (time_item per) row) (rows d0).
Proof.
  intros Hwf Hok Hr. apply Forall_forall. intros row' Hin.
  destruct d as [r | b | e]; destruct per as [|i1 [|i2 [|i3 [|? ?]]]]; try discriminate Hr;
    cbn [np_regular] in Hr; injection Hr as <-; cbn [time_item last];
    destruct sh as [|t1 [|t2 [|t3 [|? ?]]]]; try contradiction; cbn [wf_dat all_ok] in *; split_ok Hok.
  - cbn [rows] in *. destruct Hin as [<-|[]]. exists r. split; [now left | reflexivity].
  - destruct Hwf as [Hb1 Hb2]. rewrite <- Hb1 in Hok0.
    rewrite rows_sel_c in Hin. apply in_map_iff in Hin. destruct Hin as (row & <- & Hrow).
    exists row. split; [|reflexivity]. cbn [rows]. eapply axsel_incl; eassumption.
  - destruct Hwf as [He Hrect]. rewrite <- He in Hok0.
    rewrite rows_sel_e in Hin. apply in_concat in Hin. destruct Hin as (rs & Hrs & Hrow).
    apply in_map_iff in Hrs. destruct Hrs as (blk & <- & Hb).
    apply (axsel_incl _ _ _ Hok0) in Hb.
    apply in_map_iff in Hrow. destruct Hrow as (row & <- & Hrow).
    exists row. split; [|reflexivity]. cbn [rows]. apply in_concat. exists blk. split; [exact Hb|].
    rewrite Forall_forall in Hrect. destruct (Hrect _ Hb) as [Hz _]. rewrite <- Hz in Hok1.
    eapply axsel_incl; eassumption.
Qed.

(* ------------------------------------------------------------------ the time axis *)
Lemma zr_length {A} (f : Z -> A) n : forall lo, length (zr f lo n) = n.
Proof. induction n as [|n IH]; intros lo; cbn; [reflexivity | now rewrite IH]. Qed.

Lemma skipn_zr {A} (f : Z -> A) k : forall lo n, skipn k (zr f lo n) = zr f (lo + Z.of_nat k) (n - k).
Proof.
  induction k as [|k IH]; intros lo n.
  - cbn [skipn]. rewrite Z.add_0_r, Nat.sub_0_r. reflexivity.
  - destruct n as [|n]; [reflexivity|]. cbn [zr skipn]. rewrite IH. f_equal. lia.
Qed.

Lemma firstn_zr {A} (f : Z -> A) k : forall lo n, firstn k (zr f lo n) = zr f lo (Nat.min k n).
Proof.
  induction k as [|k IH]; intros lo n; [reflexivity|].
  destruct n as [|n]; [reflexivity|]. cbn [zr firstn Nat.min]. now rewrite IH.
Qed.

Lemma zlen_zrange {A} (f : Z -> A) lo n : 0 <= n -> zlen (zrange f lo n) = n.
Proof. intros H. unfold zlen, zrange. rewrite zr_length. lia. Qed.

Lemma adj_bound_range n b : 0 <= n -> 0 <= adj_bound n b <= n.
Proof. intros H. unfold adj_bound. destruct (b <? 0) eqn:E; lia. Qed.
Lemma py_lo_range n a : 0 <= n -> 0 <= py_lo n a <= n.
Proof. intros H. destruct a; cbn [py_lo]; [now apply adj_bound_range | lia]. Qed.
Lemma py_hi_range n a : 0 <= n -> 0 <= py_hi n a <= n.
Proof. intros H. destruct a; cbn [py_hi]; [now apply adj_bound_range | lia]. Qed.

Lemma py_slice_len_1 n a b : py_slice_len n a b 1 = Z.max 0 (py_hi n b - py_lo n a).
Proof. unfold py_slice_len. destruct (py_hi n b <=? py_lo n a) eqn:E; [lia|]. rewrite Z.div_1_r. lia. Qed.

Lemma py_slice_zrange s n a b : 0 <= n ->
  py_slice a b (zrange (fun i => i) s n) = zrange (fun i => i) (s + py_lo n a) (py_slice_len n a b 1).
Proof.
  intros Hn. unfold py_slice. rewrite zlen_zrange by exact Hn.
  pose proof (py_lo_range n a Hn). pose proof (py_hi_range n b Hn).
  unfold zrange. rewrite skipn_zr, firstn_zr, py_slice_len_1. f_equal; lia.
Qed.

Lemma time_item_last per : per <> [] -> last per IEllipsis = time_item per.
Proof.
  unfold time_item. induction per as [|a [|b t] IH]; intros H; [congruence | reflexivity |].
  change (last (a :: b :: t) IEllipsis) with (last (b :: t) IEllipsis).
  change (last (a :: b :: t) full) with (last (b :: t) full). apply IH. discriminate.
Qed.

Lemma out_shape_last per : forall sh pre, per <> [] -> length per = length sh ->
  is_int (time_item per) = false ->
  last (pre ++ out_shape per sh) 0 = sel_len (last sh 0) (time_item per).
Proof.
  induction per as [|it [|it2 t] IH]; intros sh pre Hne Hlen Hint; [congruence | |].
  - destruct sh as [|n [|? ?]]; try discriminate Hlen. cbn [time_item last] in *. cbn [out_shape].
    rewrite Hint. apply last_last.
  - destruct sh as [|n sh]; [discriminate Hlen|]. injection Hlen as Hlen.
    assert (Hl : last (n :: sh) 0 = last sh 0) by (destruct sh; [discriminate Hlen | reflexivity]).
    rewrite Hl.
    change (time_item (it :: it2 :: t)) with (time_item (it2 :: t)) in *.
    change (out_shape (it :: it2 :: t) (n :: sh)) with
      (if is_int it then out_shape (it2 :: t) sh else sel_len n it :: out_shape (it2 :: t) sh).
    destruct (is_int it).
    + apply IH; [discriminate | exact Hlen | exact Hint].
    + change (pre ++ sel_len n it :: out_shape (it2 :: t) sh) with (pre ++ [sel_len n it] ++ out_shape (it2 :: t) sh).
      rewrite app_assoc. apply IH; [discriminate | exact Hlen | exact Hint].
Qed.

Lemma zlen_length_eq {A B} (a : list A) (b : list B) : zlen a = zlen b -> length a = length b.
Proof. unfold zlen. lia. Qed.

(* facts shared by the theorems about the time item *)
Lemma regular_time_facts x ix k per r a b c :
  wf x -> denotes (ndim x) ix k per -> valid_on (shape x) per -> time_item per = ISlice a b c ->
  getitem x ix = RArr r ->
  0 <= n_time x /\ 1 <= step_of c /\
  fsn r = fsn x /\ fsd r = fsd x * step_of c /\ s0 r = s0 x + py_lo (n_time x) a /\
  n_time r = py_slice_len (n_time x) a b (step_of c) /\
  Forall (fun row' => exists row, In row (rows (dat x)) /\ row' = py_slice_step a b (step_of c) row) (rows (dat r)).
Proof.
  intros Hwf Hd Hv Hti Hget.
  destruct (getitem_regular _ _ _ _ Hwf Hd Hv) as (d0 & d' & Hr0 & Hw & Hg).
  rewrite Hg in Hget. assert (Hr : r = spec_result x k per d') by congruence. subst r. clear Hget.
  destruct (denotes_shape _ _ _ _ Hd) as (ex & _ & _ & _ & Hk0 & Hk & Hlen & HF & Hsl & _).
  assert (Hne : per <> []) by (intros ->; unfold ndim in Hlen; wf_cases x Hwf; discriminate Hlen).
  assert (Hn : 0 <= n_time x).
  { unfold n_time. wf_cases x Hwf; cbn [shape last]; [pose proof (zlen_nonneg r); lia | tauto | tauto]. }
  assert (Hstep : 1 <= step_of c).
  { unfold valid_on in Hv. clear - Hv Hti Hne Hlen. unfold ndim in Hlen. apply zlen_length_eq in Hlen.
    revert Hv Hlen. generalize (shape x). induction per as [|it [|it2 t] IH]; intros sh Hv Hlen; [congruence | |].
    - destruct sh as [|n [|? ?]]; try discriminate Hlen. cbn [time_item last] in Hti. subst it.
      cbn [all_ok sel_ok] in Hv. lia.
    - destruct sh as [|n sh]; [discriminate Hlen|]. cbn [all_ok] in Hv. apply andb_prop in Hv. destruct Hv as [_ Hv].
      apply (IH Hti) with (l := sh); [congruence | exact Hv | cbn [length] in *; lia]. }
  unfold spec_result. cbn [fsn fsd s0 dat]. rewrite Hti. cbn [slice_start slice_step].
  repeat split; try assumption.
  - unfold n_time at 1. cbn [shape]. unfold ndim in Hlen.
    rewrite out_shape_last; [rewrite Hti; reflexivity | exact Hne | now apply zlen_length_eq | now rewrite Hti].
  - rewrite (rows_wrap _ _ _ Hw).
    pose proof (rows_regular _ _ _ _ (wf_wf_dat _ Hwf) Hv Hr0) as H. rewrite Hti in H. exact H.
Qed.

Theorem time_axis_commutes x ix k per r a b c :
  wf x -> denotes (ndim x) ix k per -> valid_on (shape x) per -> time_item per = ISlice a b c ->
  step_of c = 1 -> getitem x ix = RArr r ->
  fsn r = fsn x /\ fsd r = fsd x /\ taxis r = py_slice a b (taxis x) /\
  Forall (fun row' => exists row, In row (rows (dat x)) /\ row' = py_slice a b row) (rows (dat r)).
Proof.
  intros Hwf Hd Hv Hti Hc Hget.
  destruct (regular_time_facts _ _ _ _ _ _ _ _ Hwf Hd Hv Hti Hget) as (Hn & _ & H1 & H2 & H3 & H4 & H5).
  rewrite Hc in *. repeat split.
  - exact H1.
  - lia.
  - unfold taxis. rewrite H3, H4. symmetry. now apply py_slice_zrange.
  - eapply Forall_impl; [|exact H5]. cbn beta. intros row' (row & Hin & ->). exists row. split; [exact Hin|].
    apply py_slice_step_1.
Qed.

Theorem stride_rate x ix k per r a b c :
  wf x -> denotes (ndim x) ix k per -> valid_on (shape x) per -> time_item per = ISlice a b c ->
  getitem x ix = RArr r ->
  1 <= step_of c /\ fsn r = fsn x /\ fsd r = fsd x * step_of c /\
  n_time r = py_slice_len (n_time x) a b (step_of c) /\
  Forall (fun row' => exists row, In row (rows (dat x)) /\ row' = py_slice_step a b (step_of c) row) (rows (dat r)).
Proof.
  intros Hwf Hd Hv Hti Hget.
  destruct (regular_time_facts _ _ _ _ _ _ _ _ Hwf Hd Hv Hti Hget) as (Hn & H0 & H1 & H2 & H3 & H4 & H5).
  tauto.
Qed.

(* ------------------------------------------------------------------ lengths of selections *)
Lemma zlen_every_nth {A} (l : list A) s : (1 <= s)%nat -> forall k, (k < s)%nat ->
  zlen (every_nth_aux k s l) = (zlen l - Z.of_nat k + Z.of_nat s - 1) / Z.of_nat s.
Proof.
  intros Hs. induction l as [|x l IH]; intros k Hk.
  - cbn [every_nth_aux]. rewrite zlen_nil. symmetry. apply Z.div_small. lia.
  - cbn [every_nth_aux]. destruct k as [|k].
    + rewrite !zlen_cons, IH by lia.
      replace (1 + zlen l - Z.of_nat 0 + Z.of_nat s - 1) with (zlen l + 1 * Z.of_nat s) by lia.
      rewrite Z.div_add by lia.
      replace (zlen l - Z.of_nat (s - 1) + Z.of_nat s - 1) with (zlen l) by lia. lia.
    + rewrite zlen_cons, IH by lia. f_equal. lia.
Qed.

Lemma zlen_py_slice {A} a b (l : list A) :
  zlen (py_slice a b l) = Z.max 0 (py_hi (zlen l) b - py_lo (zlen l) a).
Proof.
  unfold py_slice. pose proof (py_lo_range (zlen l) a (zlen_nonneg l)). pose proof (py_hi_range (zlen l) b (zlen_nonneg l)).
  unfold zlen in *. rewrite firstn_length, skipn_length. lia.
Qed.

Lemma zlen_py_slice_step {A} a b s (l : list A) : 1 <= s ->
  zlen (py_slice_step a b s l) = py_slice_len (zlen l) a b s.
Proof.
  intros Hs. unfold py_slice_step. rewrite zlen_every_nth by lia. rewrite zlen_py_slice.
  unfold py_slice_len. rewrite Z2Nat.id by lia.
  destruct (py_hi (zlen l) b <=? py_lo (zlen l) a) eqn:E.
  - replace (Z.max 0 _) with 0 by lia. apply Z.div_small. lia.
  - replace (Z.max 0 (py_hi (zlen l) b - py_lo (zlen l) a) - Z.of_nat 0 + s - 1)
      with (py_hi (zlen l) b - py_lo (zlen l) a - 1 + 1 * s) by lia.
    rewrite Z.div_add by lia. lia.
Qed.

Lemma zlen_mask_sel {A} bs (l : list A) : zlen bs = zlen l -> zlen (mask_sel bs l) = count_true bs.
Proof.
  revert l. induction bs as [|b bs IH]; intros l H; [reflexivity|].
  destruct l as [|x l]; [rewrite zlen_cons, zlen_nil in H; pose proof (zlen_nonneg bs); lia|].
  rewrite !zlen_cons in H. unfold count_true in *. cbn [mask_sel filter]. destruct b.
  - rewrite !zlen_cons, IH by lia. reflexivity.
  - apply IH. lia.
Qed.

Lemma zlen_take_sel {A} (d : A) it l :
  sel_ok (zlen l) it = true -> is_int it = false -> axis_item it = true ->
  zlen (take_sel d it l) = sel_len (zlen l) it.
Proof.
  destruct it; try discriminate; cbn [take_sel sel_len sel_ok]; intros Hok _ _.
  - apply zlen_py_slice_step. lia.
  - apply zlen_map.
  - apply zlen_mask_sel. lia.
Qed.

Lemma sel_len_nonneg n it : 0 <= n -> sel_ok n it = true -> is_int it = false -> axis_item it = true ->
  0 <= sel_len n it.
Proof.
  intros Hn Hok Hi Ha.
  assert (Hz : zlen (repeat 0 (Z.to_nat n)) = n) by (rewrite zlen_repeat; lia).
  rewrite <- Hz in Hok |- *. rewrite <- (zlen_take_sel 0 it _ Hok Hi Ha). apply zlen_nonneg.
Qed.

Lemma py_index_rect c t blk z : rect c t blk -> idx_ok c z = true -> zlen (py_index [] blk z) = t.
Proof.
  intros [H1 H2] Hz. rewrite Forall_forall in H2. apply H2. apply py_index_In. now rewrite H1.
Qed.

Lemma rect_sel c t blk ic it :
  rect c t blk -> sel_ok c ic = true -> is_int ic = false -> axis_item ic = true ->
  sel_ok t it = true -> is_int it = false -> axis_item it = true ->
  rect (sel_len c ic) (sel_len t it) (map (sel_t it) (take_sel [] ic blk)).
Proof.
  intros [H1 H2] Hc Hci Hca Ht Hti Hta. split.
  - rewrite zlen_map. rewrite <- H1 in Hc |- *. now apply zlen_take_sel.
  - apply Forall_forall. intros row' Hin. apply in_map_iff in Hin. destruct Hin as (row & <- & Hrow).
    rewrite <- H1 in Hc. apply (take_sel_incl _ _ _ Hc) in Hrow.
    rewrite Forall_forall in H2. specialize (H2 _ Hrow). unfold sel_t.
    rewrite <- H2 in Ht |- *. now apply zlen_take_sel.
Qed.

Lemma row_sel t row it : zlen row = t -> sel_ok t it = true -> is_int it = false -> axis_item it = true ->
  zlen (sel_t it row) = sel_len t it.
Proof. intros <- H1 H2 H3. now apply zlen_take_sel. Qed.

(* ------------------------------------------------------------------ counts equal axis lengths *)
Lemma slice_axis a b c : is_int (ISlice a b c) = false /\ axis_item (ISlice a b c) = true.
Proof. split; reflexivity. Qed.

Ltac wrap_simpl H :=
  unfold wrap_new, sel_c, sel_e in H;
  change (0 =? 0) with true in H; change (1 =? 0) with false in H; change (1 =? 1) with true in H;
  change (2 =? 0) with false in H; change (2 =? 1) with false in H; change (2 =? 2) with true in H;
  cbv beta iota in H.

Ltac simp_goal :=
  cbv beta iota delta [Z.to_nat Pos.to_nat Pos.iter_op Nat.add repeat app out_shape is_int spec_chan spec_meta
                       sel_lab wrap_lab Z.gtb Z.compare Pos.compare Pos.compare_cont].

Opaque sel_t take_sel.
Theorem counts x ix k per r :
  wf x -> denotes (ndim x) ix k per -> valid_on (shape x) per ->
  epoch_without_channel (ndim x) k per = false ->
  getitem x ix = RArr r -> wf r.
Proof.
  intros Hwf Hd Hv Hex Hget.
  destruct (getitem_regular _ _ _ _ Hwf Hd Hv) as (d0 & d' & Hr0 & Hw & Hg).
  rewrite Hg in Hget. assert (Hr : r = spec_result x k per d') by congruence. subst r. clear Hget Hg.
  destruct (denotes_shape _ _ _ _ Hd) as (ex & _ & _ & _ & Hk0 & Hk & Hlen & HF & Hsl & _). clear Hd.
  unfold valid_on in Hv. unfold spec_result, wf.
  wf_cases x Hwf; unfold ndim in *; cbn [shape dat chan meta s0 fsn fsd] in *.
  - change (zlen [t1]) with 1 in *.
    destruct per as [|it [|it2 ptl]]; try (len_contra Hlen).
    destruct it as [| a b c | | | |]; try discriminate Hsl.
    cbn [all_ok] in Hv. split_ok Hv. destruct (slice_axis a b c) as [Hi Ha].
    pose proof (row_sel _ _ _ Hwf Hok Hi Ha) as Hrow.
    pose proof (sel_len_nonneg t1 _ ltac:(pose proof (zlen_nonneg r); lia) Hok Hi Ha) as Hnn.
    cbn [np_regular] in Hr0. injection Hr0 as <-.
    assert (Hk' : k = 0 \/ k = 1 \/ k = 2) by lia.
    destruct Hk' as [-> | [-> | ->]]; wrap_simpl Hw; injection Hw as <-;
      simp_goal.
    + exact Hrow.
    + repeat split; try assumption; try reflexivity. now repeat constructor.
    + repeat split; try assumption; try reflexivity; try lia. repeat constructor; assumption.
  - destruct Hwf as (Ht & Hrect & Hl).
    change (zlen [t1; t2]) with 2 in *.
    destruct per as [|ic [|it [|it2 ptl]]]; try (len_contra Hlen).
    destruct it as [| a b0 c | | | |]; try discriminate Hsl.
    cbn [all_ok] in Hv. split_ok Hv. destruct (slice_axis a b0 c) as [Hi Ha].
    pose proof (Forall_inv HF) as Hpic. apply plain_axis_item in Hpic.
    pose proof (sel_len_nonneg t2 _ Ht Hok0 Hi Ha) as Hnn.
    cbn [np_regular] in Hr0. injection Hr0 as <-.
    assert (Hk' : k = 0 \/ k = 1) by lia.
    destruct Hk' as [-> | ->]; destruct ic; try discriminate Hpic; try discriminate Hex;
      wrap_simpl Hw; injection Hw as <-;
      simp_goal.
    all: try (apply row_sel; [eapply py_index_rect; [exact Hrect | exact Hok] | assumption | assumption | assumption]).
    all: try (split; [exact Hnn|]; split; [apply rect_sel; try assumption; reflexivity|];
              rewrite <- Hl in Hok |- *; apply zlen_take_sel; [assumption | reflexivity | reflexivity]).
    all: (split; [apply sel_len_nonneg; [rewrite <- Hl; apply zlen_nonneg | assumption | reflexivity | reflexivity]|]; split; [exact Hnn|]; split; [reflexivity|]; split;
          [apply Forall_cons; [apply rect_sel; try assumption; reflexivity | apply Forall_nil]|]; split; [|reflexivity];
          rewrite <- Hl in Hok |- *; apply zlen_take_sel; [assumption | reflexivity | reflexivity]).
  - destruct Hwf as (Hc & Ht & He & Hrect & Hl & Hm).
    change (zlen [t1; t2; t3]) with 3 in *.
    destruct per as [|ie [|ic [|it [|it2 ptl]]]]; try (len_contra Hlen).
    destruct it as [| a b0 c | | | |]; try discriminate Hsl.
    cbn [all_ok] in Hv. split_ok Hv. destruct (slice_axis a b0 c) as [Hi Ha].
    assert (k = 0) by lia. subst k.
    pose proof (Forall_inv HF) as Hpie. pose proof (Forall_inv (Forall_inv_tail HF)) as Hpic.
    apply plain_axis_item in Hpic. apply plain_axis_item in Hpie.
    pose proof (sel_len_nonneg t3 _ Ht Hok1 Hi Ha) as Hnn.
    cbn [np_regular] in Hr0. injection Hr0 as <-.
    assert (Hblk : forall z, idx_ok t1 z = true -> rect t2 t3 (py_index [] d z)).
    { intros z Hz. rewrite Forall_forall in Hrect. apply Hrect. apply py_index_In. now rewrite He. }
    assert (Hsub : forall it, sel_ok t1 it = true -> forall blk, In blk (take_sel [] it d) -> rect t2 t3 blk).
    { intros it0 H0 blk Hb. rewrite <- He in H0. apply (take_sel_incl _ _ _ H0) in Hb.
      rewrite Forall_forall in Hrect. now apply Hrect. }
    destruct ie; try discriminate Hpie; destruct ic; try discriminate Hpic; try discriminate Hex;
      wrap_simpl Hw; injection Hw as <-;
      simp_goal.
    all: try (apply row_sel; [eapply py_index_rect; [apply Hblk; exact Hok | exact Hok0] | assumption | assumption | assumption]).
    all: try (split; [exact Hnn|]; split; [apply rect_sel; try (apply Hblk; exact Hok); try assumption; reflexivity|];
              rewrite <- Hl in Hok0 |- *; apply zlen_take_sel; [assumption | reflexivity | reflexivity]).
    all: (split; [apply sel_len_nonneg; try assumption; reflexivity|]; split; [exact Hnn|]; split;
          [rewrite zlen_map; rewrite <- He in Hok |- *; apply zlen_take_sel; [assumption | reflexivity | reflexivity]|];
          split; [apply Forall_forall; intros blk' Hb'; apply in_map_iff in Hb'; destruct Hb' as (blk & <- & Hb);
                  apply rect_sel; try assumption; try reflexivity; eapply Hsub; eassumption|];
          split; [rewrite <- Hl in Hok0 |- *; apply zlen_take_sel; [assumption | reflexivity | reflexivity]|];
          rewrite <- Hm in Hok |- *; apply zlen_take_sel; [assumption | reflexivity | reflexivity]).
Qed.
Transparent sel_t take_sel.

(* ------------------------------------------------------------------ selections commute with pairing *)
Lemma combine_nil_r {A B} (l : list A) : combine l (@nil B) = [].
Proof. destruct l; reflexivity. Qed.

Lemma combine_map_r {A B C} (f : B -> C) (l1 : list A) : forall l2 : list B,
  combine l1 (map f l2) = map (fun p => (fst p, f (snd p))) (combine l1 l2).
Proof.
  induction l1 as [|a l1 IH]; intros l2; [reflexivity|].
  destruct l2 as [|b l2]; [reflexivity|]. cbn [combine map fst snd]. now rewrite IH.
Qed.

Lemma firstn_combine {A B} n : forall (a : list A) (b : list B),
  firstn n (combine a b) = combine (firstn n a) (firstn n b).
Proof.
  induction n as [|n IH]; intros a b; [reflexivity|].
  destruct a as [|x a]; [reflexivity|]. destruct b as [|y b]; [reflexivity|].
  cbn [combine firstn]. now rewrite IH.
Qed.
Lemma skipn_combine {A B} n : forall (a : list A) (b : list B),
  skipn n (combine a b) = combine (skipn n a) (skipn n b).
Proof.
  induction n as [|n IH]; intros a b; [reflexivity|].
  destruct a as [|x a]; [reflexivity|]. destruct b as [|y b]; [cbn [combine skipn]; now rewrite combine_nil_r|].
  cbn [combine skipn]. now rewrite IH.
Qed.
Lemma every_nth_combine {A B} s (a : list A) : forall (b : list B) k,
  every_nth_aux k s (combine a b) = combine (every_nth_aux k s a) (every_nth_aux k s b).
Proof.
  induction a as [|x a IH]; intros b k; [reflexivity|].
  destruct b as [|y b]; [cbn [combine every_nth_aux]; now rewrite combine_nil_r|].
  cbn [combine every_nth_aux]. destruct k; [cbn [combine]|]; now rewrite IH.
Qed.
Lemma zlen_combine {A B} (a : list A) (b : list B) : zlen a = zlen b -> zlen (combine a b) = zlen a.
Proof. unfold zlen. rewrite combine_length. lia. Qed.

Lemma py_slice_step_combine {A B} s e st (a : list A) (b : list B) : zlen a = zlen b ->
  py_slice_step s e st (combine a b) = combine (py_slice_step s e st a) (py_slice_step s e st b).
Proof.
  intros H. unfold py_slice_step, py_slice. rewrite (zlen_combine _ _ H), <- H.
  now rewrite skipn_combine, firstn_combine, every_nth_combine.
Qed.
Lemma py_index_combine {A B} (d1 : A) (d2 : B) a b z : zlen a = zlen b ->
  py_index (d1, d2) (combine a b) z = (py_index d1 a z, py_index d2 b z).
Proof.
  intros H. unfold py_index. rewrite (zlen_combine _ _ H), <- H. apply combine_nth. unfold zlen in H. lia.
Qed.
Lemma mask_sel_combine {A B} bs : forall (a : list A) (b : list B),
  mask_sel bs (combine a b) = combine (mask_sel bs a) (mask_sel bs b).
Proof.
  induction bs as [|c bs IH]; intros a b; [reflexivity|].
  destruct a as [|x a]; [reflexivity|]. destruct b as [|y b]; [cbn [combine mask_sel]; now rewrite combine_nil_r|].
  cbn [combine mask_sel]. destruct c; [cbn [combine]|]; now rewrite IH.
Qed.
Lemma take_sel_combine {A B} (d1 : A) (d2 : B) it a b : zlen a = zlen b ->
  take_sel (d1, d2) it (combine a b) = combine (take_sel d1 it a) (take_sel d2 it b).
Proof.
  intros H. destruct it; cbn [take_sel]; try reflexivity.
  - now apply py_slice_step_combine.
  - induction zs as [|z zs IH]; [reflexivity|]. cbn [map combine]. now rewrite IH, py_index_combine.
  - apply mask_sel_combine.
Qed.

(* the entries kept by an item, paired: each kept (label, block) pair is a pair of the original *)
Lemma In_sel_pairs {B C} (dB : B) (f : B -> C) it (ls : list Z) (bs : list B) lab (v : C) :
  zlen ls = zlen bs -> sel_ok (zlen ls) it = true ->
  In (lab, v) (combine (take_sel 0 it ls) (map f (take_sel dB it bs))) ->
  exists u, In (lab, u) (combine ls bs) /\ v = f u.
Proof.
  intros Hl Hok Hin. rewrite combine_map_r, <- take_sel_combine in Hin by exact Hl.
  apply in_map_iff in Hin. destruct Hin as ([l0 u] & Heq & Hin). cbn [fst snd] in Heq. injection Heq as -> <-.
  exists u. split; [|reflexivity]. eapply take_sel_incl; [|exact Hin]. now rewrite zlen_combine.
Qed.
Lemma In_index_pair {B} (dB : B) (ls : list Z) (bs : list B) z :
  zlen ls = zlen bs -> idx_ok (zlen ls) z = true -> In (py_index 0 ls z, py_index dB bs z) (combine ls bs).
Proof.
  intros Hl Hok. rewrite <- py_index_combine by exact Hl. apply py_index_In. now rewrite zlen_combine.
Qed.

(* ------------------------------------------------------------------ labels and metadata follow the data *)
Ltac simp_has :=
  cbv beta iota delta [has_row dat chan meta spec_chan spec_meta sel_lab wrap_lab Z.gtb Z.compare Pos.compare
                       Pos.compare_cont is_int time_item last].

Opaque sel_t take_sel.
Theorem annotations_follow x ix k per r :
  wf x -> denotes (ndim x) ix k per -> valid_on (shape x) per ->
  epoch_without_channel (ndim x) k per = false ->
  getitem x ix = RArr r ->
  chan r = spec_chan k per (chan x) /\ meta r = spec_meta k per (meta x) /\
  forall md ch row', has_row r md ch row' ->
    exists row, has_row x md ch row /\ row' = sel_t (time_item per) row.
Proof.
  intros Hwf Hd Hv Hex Hget.
  destruct (getitem_regular _ _ _ _ Hwf Hd Hv) as (d0 & d' & Hr0 & Hw & Hg).
  rewrite Hg in Hget. assert (Hr : r = spec_result x k per d') by congruence. subst r. clear Hget Hg.
  split; [reflexivity|]. split; [reflexivity|].
  destruct (denotes_shape _ _ _ _ Hd) as (ex & _ & _ & _ & Hk0 & Hk & Hlen & HF & Hsl & _). clear Hd.
  unfold valid_on in Hv. unfold spec_result.
  wf_cases x Hwf; unfold ndim in *; cbn [shape dat chan meta s0 fsn fsd] in *.
  - change (zlen [t1]) with 1 in *.
    destruct per as [|it [|it2 ptl]]; try (len_contra Hlen).
    destruct it as [| a b c | | | |]; try discriminate Hsl.
    cbn [np_regular] in Hr0. injection Hr0 as <-.
    assert (Hk' : k = 0 \/ k = 1 \/ k = 2) by lia.
    destruct Hk' as [-> | [-> | ->]]; wrap_simpl Hw; injection Hw as <-; simp_has; intros md ch row'.
    + intros (-> & -> & ->). eexists. split; [split; [reflexivity | split; reflexivity] | reflexivity].
    + intros (-> & [H|[]]). injection H as <- <-. eexists. split; [split; [reflexivity | split; reflexivity] | reflexivity].
    + intros (blk & [H|[]] & H2). injection H as <- <-. destruct H2 as [H|[]]. injection H as <- <-.
      eexists. split; [split; [reflexivity | split; reflexivity] | reflexivity].
  - destruct Hwf as (Ht & [Hb1 Hb2] & Hl).
    change (zlen [t1; t2]) with 2 in *.
    destruct per as [|ic [|it [|it2 ptl]]]; try (len_contra Hlen).
    destruct it as [| a b0 c | | | |]; try discriminate Hsl.
    cbn [all_ok] in Hv. split_ok Hv.
    pose proof (Forall_inv HF) as Hpic. apply plain_axis_item in Hpic.
    cbn [np_regular] in Hr0. injection Hr0 as <-.
    assert (Hzb : zlen zs = zlen b) by lia. rewrite <- Hl in Hok.
    assert (Hk' : k = 0 \/ k = 1) by lia.
    destruct Hk' as [-> | ->]; destruct ic; try discriminate Hpic; try discriminate Hex;
      wrap_simpl Hw; injection Hw as <-; simp_has; intros md ch row'.
    + intros (-> & -> & ->). eexists. split; [split; [reflexivity | apply In_index_pair; assumption] | reflexivity].
    + intros (-> & Hin). destruct (In_sel_pairs _ _ _ _ _ _ _ Hzb Hok Hin) as (row & Hrow & ->).
      exists row. split; [split; [reflexivity | exact Hrow] | reflexivity].
    + intros (-> & Hin). destruct (In_sel_pairs _ _ _ _ _ _ _ Hzb Hok Hin) as (row & Hrow & ->).
      exists row. split; [split; [reflexivity | exact Hrow] | reflexivity].
    + intros (-> & Hin). destruct (In_sel_pairs _ _ _ _ _ _ _ Hzb Hok Hin) as (row & Hrow & ->).
      exists row. split; [split; [reflexivity | exact Hrow] | reflexivity].
    + intros (blk & [H|[]] & Hin). injection H as <- <-.
      destruct (In_sel_pairs _ _ _ _ _ _ _ Hzb Hok Hin) as (row & Hrow & ->).
      exists row. split; [split; [reflexivity | exact Hrow] | reflexivity].
    + intros (blk & [H|[]] & Hin). injection H as <- <-.
      destruct (In_sel_pairs _ _ _ _ _ _ _ Hzb Hok Hin) as (row & Hrow & ->).
      exists row. split; [split; [reflexivity | exact Hrow] | reflexivity].
    + intros (blk & [H|[]] & Hin). injection H as <- <-.
      destruct (In_sel_pairs _ _ _ _ _ _ _ Hzb Hok Hin) as (row & Hrow & ->).
      exists row. split; [split; [reflexivity | exact Hrow] | reflexivity].
  - destruct Hwf as (Hc & Ht & He & Hrect & Hl & Hm).
    change (zlen [t1; t2; t3]) with 3 in *.
    destruct per as [|ie [|ic [|it [|it2 ptl]]]]; try (len_contra Hlen).
    destruct it as [| a b0 c | | | |]; try discriminate Hsl.
    cbn [all_ok] in Hv. split_ok Hv.
    assert (k = 0) by lia. subst k.
    pose proof (Forall_inv HF) as Hpie. pose proof (Forall_inv (Forall_inv_tail HF)) as Hpic.
    apply plain_axis_item in Hpic. apply plain_axis_item in Hpie.
    cbn [np_regular] in Hr0. injection Hr0 as <-.
    assert (Hzd : zlen zs0 = zlen d) by lia. rewrite <- Hm in Hok. rewrite <- Hl in Hok0.
    assert (Hzb : forall md blk, In (md, blk) (combine zs0 d) -> zlen zs = zlen blk).
    { intros md blk Hin. apply in_combine_r in Hin. rewrite Forall_forall in Hrect. destruct (Hrect _ Hin). lia. }
    destruct ie; try discriminate Hpie; destruct ic; try discriminate Hpic; try discriminate Hex;
      wrap_simpl Hw; injection Hw as <-; simp_has; intros md ch row';
      try solve [intros (blk' & Hb' & Hin); destruct (In_sel_pairs _ _ _ _ _ _ _ Hzd Hok Hb') as (blk & Hblk & ->);
                 destruct (In_sel_pairs _ _ _ _ _ _ _ (Hzb _ _ Hblk) Hok0 Hin) as (row & Hrow & ->);
                 exists row; (split; [exists blk; split; [exact Hblk | exact Hrow] | reflexivity])].
    + (* int, int *)
      intros (-> & -> & ->).
      pose proof (In_index_pair [] zs0 d z Hzd Hok) as Hblk.
      eexists. split; [exists (py_index [] d z); split; [exact Hblk | apply In_index_pair; [eapply Hzb; exact Hblk | exact Hok0]] | reflexivity].
    + intros (-> & Hin). pose proof (In_index_pair [] zs0 d z Hzd Hok) as Hblk.
      destruct (In_sel_pairs _ _ _ _ _ _ _ (Hzb _ _ Hblk) Hok0 Hin) as (row & Hrow & ->).
      exists row. split; [exists (py_index [] d z); split; [exact Hblk | exact Hrow] | reflexivity].
    + intros (-> & Hin). pose proof (In_index_pair [] zs0 d z Hzd Hok) as Hblk.
      destruct (In_sel_pairs _ _ _ _ _ _ _ (Hzb _ _ Hblk) Hok0 Hin) as (row & Hrow & ->).
      exists row. split; [exists (py_index [] d z); split; [exact Hblk | exact Hrow] | reflexivity].
    + intros (-> & Hin). pose proof (In_index_pair [] zs0 d z Hzd Hok) as Hblk.
      destruct (In_sel_pairs _ _ _ _ _ _ _ (Hzb _ _ Hblk) Hok0 Hin) as (row & Hrow & ->).
      exists row. split; [exists (py_index [] d z); split; [exact Hblk | exact Hrow] | reflexivity].
Qed.
Transparent sel_t take_sel.

(* ------------------------------------------------------------------ arithmetic, copy, astype *)
Lemma rect_map f c t b : rect c t b -> rect c t (map (map f) b).
Proof.
  intros [H1 H2]. split; [now rewrite zlen_map|].
  apply Forall_forall. intros r Hin. apply in_map_iff in Hin. destruct Hin as (r0 & <- & Hr).
  rewrite zlen_map. rewrite Forall_forall in H2. now apply H2.
Qed.

Theorem ops_keep_annotations f x :
  shape (map_data f x) = shape x /\ s0 (map_data f x) = s0 x /\ fsn (map_data f x) = fsn x /\
  fsd (map_data f x) = fsd x /\ chan (map_data f x) = chan x /\ meta (map_data f x) = meta x /\
  taxis (map_data f x) = taxis x /\ (wf x -> wf (map_data f x)).
Proof.
  repeat split. intros Hwf. unfold map_data, wf. wf_cases x Hwf; cbn [shape dat chan meta map_nest].
  - now rewrite zlen_map.
  - destruct Hwf as (Ht & Hr & Hl). split; [exact Ht|]. split; [now apply rect_map | exact Hl].
  - destruct Hwf as (Hc & Ht & He & Hrect & Hl & Hm).
    split; [exact Hc|]. split; [exact Ht|]. split; [now rewrite zlen_map|]. split; [|split; assumption].
    apply Forall_forall. intros blk Hin. apply in_map_iff in Hin. destruct Hin as (b0 & <- & Hb).
    apply rect_map. rewrite Forall_forall in Hrect. now apply Hrect.
Qed.

(* ------------------------------------------------------------------ the code before the repairs / the recorded findings *)
Definition x10 : pd := mk [10] 0 1000 1 (LOne 70) (LOne 90).
Definition x24 : pd := mk [2; 4] 0 1000 1 (LMany [70; 71]) (LOne 90).
Definition x234 : pd := mk [2; 3; 4] 0 1000 1 (LMany [70; 71; 72]) (LMany [90; 91]).
Definition x324 : pd := mk [3; 2; 4] 0 1000 1 (LMany [70; 71]) (LMany [90; 91; 92]).

Lemma wf_examples : wf x10 /\ wf x24 /\ wf x234 /\ wf x324.
Proof. unfold wf. cbn. repeat split; try lia; repeat constructor. Qed.

(* x[-20:] on 10 samples: all 10 samples come back, but the time axis is moved 10 samples back *)
Lemma time_axis_unrepaired_refuted :
  exists x a r, wf x /\ getitem_unrepaired x {| sole := true; items := [ISlice (Some a) None None] |} = RArr r /\
                taxis r <> py_slice (Some a) None (taxis x).
Proof.
  exists x10, (-20). eexists. split; [apply wf_examples|]. split; [vm_compute; reflexivity|].
  vm_compute. discriminate.
Qed.

(* a python list of booleans on the channel axis: labels [ch[True], ch[False]] *)
Lemma labels_unrepaired_refuted :
  exists x bs r, wf x /\ getitem_unrepaired x {| sole := true; items := [IMask bs false] |} = RArr r /\
                 chan r <> sel_lab (IMask bs false) (chan x) /\ ~ wf r.
Proof.
  exists x24, [true; false]. eexists. split; [apply wf_examples|]. split; [vm_compute; reflexivity|].
  split; [vm_compute; discriminate|]. unfold wf. cbn. intros (_ & _ & H). vm_compute in H. discriminate.
Qed.

(* a NumPy boolean array in a tuple position was refused *)
Lemma mask_in_tuple_unrepaired_refuted :
  exists x bs, wf x /\ getitem_unrepaired x (tuple [full; IMask bs true]) = RErr EValue /\
               exists r, getitem x (tuple [full; IMask bs true]) = RArr r /\ wf r.
Proof.
  exists x234, [true; false; true]. split; [apply wf_examples|]. split; [vm_compute; reflexivity|].
  eexists. split; [vm_compute; reflexivity|]. unfold wf. cbn. repeat split; try lia; repeat constructor.
Qed.

(* known finding: the epoch axis kept while the channel axis is dropped by an int *)
Lemma counts_refuted :
  exists x ix k per r, wf x /\ denotes (ndim x) ix k per /\ valid_on (shape x) per /\
    epoch_without_channel (ndim x) k per = true /\ getitem x ix = RArr r /\ ~ wf r.
Proof.
  exists x234, (tuple [full; IInt 0]), 0, [full; IInt 0; full]. eexists.
  split; [apply wf_examples|].
  split; [eexists; split; [vm_compute; reflexivity|]; split; [vm_compute; reflexivity|]; split;
          [reflexivity | change (ndim x234) with 3; lia]|].
  split; [reflexivity|]. split; [reflexivity|]. split; [vm_compute; reflexivity|].
  unfold wf. cbn. tauto.
Qed.

(* known finding: lists / masks on two axes are paired by NumPy *)
Lemma pairing_refuted :
  exists x ix r, wf x /\ getitem x ix = RArr r /\ ~ wf r.
Proof.
  exists x324, (tuple [IList [0; 2]; IList [0]]). eexists.
  split; [apply wf_examples|]. split; [vm_compute; reflexivity|].
  unfold wf. cbn. tauto.
Qed.

(* ------------------------------------------------------------------ x[:] and x[..., a:b] *)
Lemma py_slice_len_full n : 0 <= n -> py_slice_len n None None 1 = n.
Proof. intros H. rewrite py_slice_len_1. cbn [py_lo py_hi]. lia. Qed.

Lemma map_id_ext {A} (f : A -> A) l : (forall a, f a = a) -> map f l = l.
Proof. intros H. induction l as [|a l IH]; [reflexivity|]. cbn. now rewrite H, IH. Qed.

Lemma sel_t_full row : sel_t full row = row.
Proof. apply take_sel_full. Qed.

Definition sole_full : index := {| sole := true; items := [full] |}.

Lemma getitem_full_id p : wf p -> getitem p sole_full = RArr p.
Proof.
  intros Hwf.
  assert (Hd : denotes (ndim p) sole_full 0 (repeat full (Z.to_nat (ndim p)))).
  { unfold ndim. wf_cases p Hwf; cbn [shape]; eexists; (split; [vm_compute; reflexivity|]);
      (split; [vm_compute; reflexivity|]); (split; [reflexivity | vm_compute; discriminate]). }
  assert (Hv : valid_on (shape p) (repeat full (Z.to_nat (ndim p)))).
  { unfold ndim. wf_cases p Hwf; reflexivity. }
  destruct (getitem_regular _ _ _ _ Hwf Hd Hv) as (d0 & d' & H0 & Hw & Hg). rewrite Hg. f_equal.
  unfold spec_result, ndim in *.
  wf_cases p Hwf; cbn [shape dat chan meta s0 fsn fsd] in *.
  - change (Z.to_nat (zlen [t1])) with 1%nat in *. cbn [repeat np_regular] in *.
    injection H0 as <-. unfold wrap_new, sel_c, sel_e in Hw. cbv beta iota delta [full Z.eqb] in Hw.
    change (ISlice None None None) with full in Hw. injection Hw as <-.
    cbn [Z.to_nat app out_shape is_int full sel_len step_of time_item last slice_start slice_step spec_chan spec_meta
         Z.gtb Z.compare py_lo n_time shape].
    rewrite py_slice_len_full by (pose proof (zlen_nonneg r); lia). rewrite ?py_slice_step_full. f_equal; lia.
  - destruct Hwf as (Ht & [Hb1 Hb2] & Hl).
    change (Z.to_nat (zlen [t1; t2])) with 2%nat in *. cbn [repeat np_regular] in *.
    injection H0 as <-. unfold wrap_new, sel_c, sel_e in Hw. cbv beta iota delta [full Z.eqb] in Hw.
    change (ISlice None None None) with full in Hw. injection Hw as <-.
    cbn [Z.to_nat app out_shape is_int full sel_len step_of time_item last slice_start slice_step spec_chan spec_meta
         sel_lab Z.gtb Z.compare py_lo n_time shape].
    rewrite !py_slice_len_full by (pose proof (zlen_nonneg zs); lia).
    rewrite ?py_slice_step_full.
    rewrite (map_id_ext _ b) by (intros; apply sel_t_full). rewrite ?take_sel_full. f_equal; lia.
  - destruct Hwf as (Hc & Ht & He & Hrect & Hl & Hm).
    change (Z.to_nat (zlen [t1; t2; t3])) with 3%nat in *. cbn [repeat np_regular] in *.
    injection H0 as <-. unfold wrap_new, sel_c, sel_e in Hw. cbv beta iota delta [full Z.eqb] in Hw.
    change (ISlice None None None) with full in Hw. injection Hw as <-.
    cbn [Z.to_nat app out_shape is_int full sel_len step_of time_item last slice_start slice_step spec_chan spec_meta
         sel_lab Z.gtb Z.compare py_lo n_time shape].
    rewrite !py_slice_len_full by (pose proof (zlen_nonneg d); lia).
    rewrite ?py_slice_step_full.
    rewrite (map_id_ext _ d).
    + rewrite ?take_sel_full. f_equal; lia.
    + intros blk. change (ISlice None None None) with full. rewrite ?take_sel_full, ?py_slice_step_full.
      apply map_id_ext, sel_t_full.
Qed.

(* ------------------------------------------------------------------ concat along time: what is accepted *)
Lemma ensure_dim_time ps : Forall wf ps -> ps <> [] -> ensure_dim ps DTime = inr ps.
Proof.
  intros Hwf Hne. unfold ensure_dim. destruct ps as [|a0 ps0] eqn:E; [congruence|]. rewrite <- E in *.
  cbn [ensure_index]. clear E Hne. fold sole_full.
  induction ps as [|p ps IH]; [reflexivity|].
  cbn [map all_arrays]. rewrite (getitem_full_id p (Forall_inv Hwf)). rewrite IH by exact (Forall_inv_tail Hwf).
  reflexivity.
Qed.

Lemma eqb_listZ_eq a : forall b, eqb_listZ a b = true -> a = b.
Proof.
  induction a as [|x a IH]; intros [|y b] H; try discriminate; [reflexivity|].
  cbn [eqb_listZ] in H. apply andb_prop in H. destruct H as [H1 H2]. f_equal; [lia | now apply IH].
Qed.
Lemma eqb_listZ_refl a : eqb_listZ a a = true.
Proof. induction a as [|x a IH]; [reflexivity|]. cbn [eqb_listZ]. now rewrite Z.eqb_refl, IH. Qed.
Lemma eqb_lab_eq a b : eqb_lab a b = true -> a = b.
Proof. destruct a, b; cbn [eqb_lab]; intros H; try discriminate; f_equal; [lia | now apply eqb_listZ_eq]. Qed.
Lemma eqb_lab_refl a : eqb_lab a a = true.
Proof. destruct a; cbn [eqb_lab]; [apply Z.eqb_refl | apply eqb_listZ_refl]. Qed.

Lemma contiguous_adjacent ps : forall cur, contiguous_from cur ps = true <-> pieces_adjacent cur ps.
Proof.
  induction ps as [|p ps IH]; intros cur; cbn [contiguous_from pieces_adjacent]; [tauto|].
  rewrite andb_true_iff, IH. split; intros [H1 H2]; split; try assumption; lia.
Qed.

(* whatever concat accepts is consistent: a gap, an overlap, another rate, other channel labels, other
   metadata or another dimensionality is rejected; the result carries the annotations of the first piece *)
Theorem concat_rejects ps r :
  Forall wf ps -> concat_pd DTime ps = RArr r ->
  exists base rest, ps = base :: rest /\ consistent base rest /\
    s0 r = s0 base /\ fsn r = fsn base /\ fsd r = fsd base /\ chan r = chan base /\ meta r = meta base.
Proof.
  intros Hwf H. destruct ps as [|base rest]; [discriminate H|].
  exists base, rest. split; [reflexivity|].
  unfold concat_pd in H. rewrite ensure_dim_time in H by (assumption || discriminate).
  destruct (forallb (fun a => ndim a =? ndim base) rest) eqn:E1; [|discriminate H].
  destruct (forallb (same_fs base) rest) eqn:E2; [|discriminate H].
  destruct (contiguous_from (s0 base + n_time base) rest) eqn:E3; [|discriminate H].
  cbn [negb] in H.
  destruct (forallb (fun a => eqb_lab (chan a) (chan base)) rest) eqn:E4; [|discriminate H].
  destruct (forallb (fun a => eqb_lab (meta a) (meta base)) rest) eqn:E5; [|discriminate H].
  destruct (cat_all DTime (shape base) (dat base) rest) as [[sh d]|]; [|discriminate H].
  destruct (ctor_ok sh (chan base) (meta base)); [|discriminate H].
  injection H as <-. cbn [s0 fsn fsd chan meta].
  split; [|repeat split; reflexivity].
  split; [now apply contiguous_adjacent|].
  apply Forall_forall. intros a Ha.
  rewrite forallb_forall in E1, E2, E4, E5.
  specialize (E1 _ Ha). specialize (E2 _ Ha). specialize (E4 _ Ha). specialize (E5 _ Ha).
  unfold same_fs in E2.
  repeat split; [lia | lia | now apply eqb_lab_eq | now apply eqb_lab_eq].
Qed.

(* ------------------------------------------------------------------ concat of adjacent time pieces restores the array *)
Definition nest_map (f : list Z -> list Z) (d : nest) : nest :=
  match d with N1 r => N1 (f r) | N2 b => N2 (map f b) | N3 e => N3 (map (map f) e) end.
Definition set_time (sh : list Z) (n : Z) : list Z := removelast sh ++ [n].
Definition tslice (x : pd) (a b : Z) : pd :=
  {| shape := set_time (shape x) (b - a); dat := nest_map (py_slice (Some a) (Some b)) (dat x);
     s0 := s0 x + a; fsn := fsn x; fsd := fsd x; chan := chan x; meta := meta x |}.
Fixpoint tslices (x : pd) (o : Z) (cuts : list Z) : list pd :=
  match cuts with [] => [] | c :: t => tslice x o c :: tslices x c t end.

Lemma py_slice_len_ab n a b : 0 <= a <= b -> b <= n -> py_slice_len n (Some a) (Some b) 1 = b - a.
Proof. intros H1 H2. rewrite py_slice_len_1. cbn [py_lo py_hi]. unfold adj_bound. destruct (a <? 0) eqn:E1; destruct (b <? 0) eqn:E2; lia. Qed.
Lemma py_lo_a n a : 0 <= a <= n -> py_lo n (Some a) = a.
Proof. intros H. cbn [py_lo]. unfold adj_bound. destruct (a <? 0) eqn:E; lia. Qed.

Lemma n_time_nonneg x : wf x -> 0 <= n_time x.
Proof. intros Hwf. unfold n_time. wf_cases x Hwf; cbn [shape last]; [pose proof (zlen_nonneg r); lia | tauto | tauto]. Qed.

Lemma getitem_time_piece x a b : wf x -> 0 <= a <= b -> b <= n_time x ->
  getitem x (time_piece a b) = RArr (tslice x a b).
Proof.
  intros Hwf Hab Hb.
  set (it := ISlice (Some a) (Some b) None).
  assert (Hd : denotes (ndim x) (time_piece a b) 0 (repeat full (Z.to_nat (ndim x - 1)) ++ [it])).
  { unfold ndim. wf_cases x Hwf; cbn [shape]; eexists; (split; [vm_compute; reflexivity|]);
      (split; [vm_compute; reflexivity|]); (split; [reflexivity | vm_compute; discriminate]). }
  assert (Hv : valid_on (shape x) (repeat full (Z.to_nat (ndim x - 1)) ++ [it])).
  { unfold ndim. wf_cases x Hwf; reflexivity. }
  destruct (getitem_regular _ _ _ _ Hwf Hd Hv) as (d0 & d' & H0 & Hw & Hg). rewrite Hg. f_equal.
  pose proof (n_time_nonneg x Hwf) as Hn.
  unfold spec_result, tslice, ndim in *. unfold n_time in *.
  wf_cases x Hwf; cbn [shape dat chan meta s0 fsn fsd last] in *.
  - change (Z.to_nat (zlen [t1] - 1)) with 0%nat in *. cbn [repeat app np_regular] in *.
    injection H0 as <-. unfold wrap_new in Hw. cbn [Z.eqb] in Hw. injection Hw as <-.
    unfold it. cbn [Z.to_nat repeat app out_shape is_int sel_len step_of time_item last slice_start slice_step spec_chan spec_meta
                    Z.gtb Z.compare nest_map set_time removelast sel_t take_sel].
    rewrite py_slice_len_ab, py_lo_a, py_slice_step_1 by lia. f_equal; lia.
  - destruct Hwf as (Ht & [Hb1 Hb2] & Hl).
    change (Z.to_nat (zlen [t1; t2] - 1)) with 1%nat in *. cbn [repeat app np_regular] in *.
    injection H0 as <-. unfold wrap_new, sel_c in Hw. cbv beta iota delta [full Z.eqb] in Hw. injection Hw as <-.
    unfold it. cbn [Z.to_nat repeat app out_shape is_int full sel_len step_of time_item last slice_start slice_step spec_chan
                    spec_meta sel_lab Z.gtb Z.compare nest_map set_time removelast].
    rewrite py_slice_len_ab, py_lo_a, py_slice_len_full by (try lia; pose proof (zlen_nonneg zs); lia).
    change (ISlice None None None) with full. rewrite ?take_sel_full, ?py_slice_step_full.
    f_equal; try lia. f_equal. apply map_ext. intros row. apply py_slice_step_1.
  - destruct Hwf as (Hc & Ht & He & Hrect & Hl & Hm).
    change (Z.to_nat (zlen [t1; t2; t3] - 1)) with 2%nat in *. cbn [repeat app np_regular] in *.
    injection H0 as <-. unfold wrap_new, sel_e in Hw. cbv beta iota delta [full Z.eqb] in Hw. injection Hw as <-.
    unfold it. cbn [Z.to_nat repeat app out_shape is_int full sel_len step_of time_item last slice_start slice_step spec_chan
                    spec_meta sel_lab Z.gtb Z.compare nest_map set_time removelast].
    rewrite py_slice_len_ab, py_lo_a, !py_slice_len_full by (try lia; pose proof (zlen_nonneg d); lia).
    change (ISlice None None None) with full. rewrite ?take_sel_full, ?py_slice_step_full.
    f_equal; try lia. f_equal. apply map_ext. intros blk. rewrite ?take_sel_full, ?py_slice_step_full.
    apply map_ext. intros row. apply py_slice_step_1.
Qed.

Lemma wf_tslice x a b : wf x -> 0 <= a <= b -> b <= n_time x -> wf (tslice x a b).
Proof.
  intros Hwf Hab Hb.
  assert (Hd : denotes (ndim x) (time_piece a b) 0 (repeat full (Z.to_nat (ndim x - 1)) ++ [ISlice (Some a) (Some b) None])).
  { unfold ndim. wf_cases x Hwf; cbn [shape]; eexists; (split; [vm_compute; reflexivity|]);
      (split; [vm_compute; reflexivity|]); (split; [reflexivity | vm_compute; discriminate]). }
  assert (Hv : valid_on (shape x) (repeat full (Z.to_nat (ndim x - 1)) ++ [ISlice (Some a) (Some b) None])).
  { unfold ndim. wf_cases x Hwf; reflexivity. }
  eapply counts; [exact Hwf | exact Hd | exact Hv | | now apply getitem_time_piece].
  unfold ndim. wf_cases x Hwf; reflexivity.
Qed.

Lemma firstn_add_skipn {A} m k : forall l : list A, firstn (m + k) l = firstn m l ++ firstn k (skipn m l).
Proof.
  induction m as [|m IH]; intros l; [reflexivity|].
  destruct l as [|x l]; [cbn; now rewrite firstn_nil|]. cbn [Nat.add firstn skipn app]. now rewrite IH.
Qed.

Lemma skipn_skipn' {A} k : forall m (l : list A), skipn m (skipn k l) = skipn (k + m) l.
Proof.
  induction k as [|k IH]; intros m l; [reflexivity|].
  destruct l as [|x l]; [cbn; now rewrite skipn_nil|]. cbn [Nat.add skipn]. apply IH.
Qed.

Lemma py_slice_app (r : list Z) a b c : 0 <= a <= b -> b <= c -> c <= zlen r ->
  py_slice (Some a) (Some b) r ++ py_slice (Some b) (Some c) r = py_slice (Some a) (Some c) r.
Proof.
  intros H1 H2 H3. unfold py_slice. rewrite !py_lo_a by lia.
  assert (Hh : forall v, 0 <= v <= zlen r -> py_hi (zlen r) (Some v) = v).
  { intros v Hv. cbn [py_hi]. unfold adj_bound. destruct (v <? 0) eqn:E; lia. }
  rewrite !Hh by lia.
  replace (Z.to_nat (c - a)) with (Z.to_nat (b - a) + Z.to_nat (c - b))%nat by lia.
  rewrite firstn_add_skipn. f_equal. f_equal. rewrite skipn_skipn'. f_equal. lia.
Qed.

Lemma py_slice_whole (r : list Z) : py_slice (Some 0) (Some (zlen r)) r = r.
Proof.
  unfold py_slice. rewrite py_lo_a by (pose proof (zlen_nonneg r); lia).
  cbn [py_hi]. unfold adj_bound. pose proof (zlen_nonneg r).
  destruct (zlen r <? 0) eqn:E; [lia|]. rewrite Z.min_id. cbn [Z.to_nat skipn].
  replace (Z.to_nat (zlen r - 0)) with (length r) by (unfold zlen; lia). apply firstn_all.
Qed.

Lemma zip_app_map {A} (f g : A -> list Z) l : zip_with (@app Z) (map f l) (map g l) = map (fun r => f r ++ g r) l.
Proof. induction l as [|a l IH]; [reflexivity|]. cbn. now rewrite IH. Qed.
Lemma zip_zip_app_map (f g : list Z -> list Z) (e : list (list (list Z))) :
  zip_with (zip_with (@app Z)) (map (map f) e) (map (map g) e) = map (map (fun r => f r ++ g r)) e.
Proof. induction e as [|b e IH]; [reflexivity|]. cbn. now rewrite IH, zip_app_map. Qed.

Lemma cat2_nest_map f g d : cat2 DTime (nest_map f d) (nest_map g d) = Some (nest_map (fun r => f r ++ g r) d).
Proof. destruct d; cbn [nest_map cat2]; [reflexivity | now rewrite zip_app_map | now rewrite zip_zip_app_map]. Qed.

Lemma nest_map_ext f g d : (forall r, In r (rows d) -> f r = g r) -> nest_map f d = nest_map g d.
Proof.
  destruct d as [r | b | e]; cbn [nest_map rows]; intros H.
  - f_equal. apply H. now left.
  - f_equal. apply map_ext_in. exact H.
  - f_equal. apply map_ext_in. intros blk Hb. apply map_ext_in. intros r Hr. apply H. apply in_concat. now exists blk.
Qed.

Lemma rows_length x r : wf x -> In r (rows (dat x)) -> zlen r = n_time x.
Proof.
  intros Hwf Hin. unfold n_time. wf_cases x Hwf; cbn [shape dat rows last] in *.
  - destruct Hin as [<-|[]]. exact Hwf.
  - destruct Hwf as (_ & [_ Hb2] & _). rewrite Forall_forall in Hb2. now apply Hb2.
  - destruct Hwf as (_ & _ & _ & Hrect & _). apply in_concat in Hin. destruct Hin as (blk & Hb & Hr).
    rewrite Forall_forall in Hrect. destruct (Hrect _ Hb) as [_ H2]. rewrite Forall_forall in H2. now apply H2.
Qed.

Lemma cat_shape_time sh n1 n2 : (1 <= length sh <= 3)%nat ->
  cat_shape DTime (set_time sh n1) (set_time sh n2) = Some (set_time sh (n1 + n2)).
Proof.
  intros H. destruct sh as [|a [|b [|c [|? ?]]]]; cbn [length] in H; try lia;
    unfold cat_shape, set_time; cbn [removelast app rev axis_back cat_shape_rev eqb_listZ];
    rewrite ?Z.eqb_refl; cbn [andb length Nat.leb rev app]; reflexivity.
Qed.

Lemma shape_length x : wf x -> (1 <= length (shape x) <= 3)%nat.
Proof. intros Hwf. wf_cases x Hwf; cbn; lia. Qed.

Lemma cuts_ok_le cuts : forall o n, cuts_ok o cuts n -> o <= n.
Proof. induction cuts as [|c t IH]; intros o n H; cbn [cuts_ok] in H; [lia|]. destruct H as [H1 H2]. specialize (IH _ _ H2). lia. Qed.

Lemma cat_all_tslices x : wf x -> forall cuts o0 o, 0 <= o0 <= o -> cuts_ok o cuts (n_time x) ->
  cat_all DTime (shape (tslice x o0 o)) (dat (tslice x o0 o)) (tslices x o cuts) =
  Some (shape (tslice x o0 (n_time x)), dat (tslice x o0 (n_time x))).
Proof.
  intros Hwf. induction cuts as [|c t IH]; intros o0 o Ho Hc; cbn [cuts_ok] in Hc.
  - subst o. reflexivity.
  - destruct Hc as [Hoc Hc]. pose proof (cuts_ok_le _ _ _ Hc) as Hcn.
    cbn [tslices cat_all]. unfold tslice at 1 2 3 4. cbn [shape dat].
    rewrite cat_shape_time by (now apply shape_length). rewrite cat2_nest_map.
    replace (o - o0 + (c - o)) with (c - o0) by lia.
    rewrite (nest_map_ext _ (py_slice (Some o0) (Some c))).
    + apply (IH o0 c); [lia | exact Hc].
    + intros r Hr. apply py_slice_app; try lia. rewrite (rows_length x r Hwf Hr). lia.
Qed.

Lemma tslice_whole x : wf x -> tslice x 0 (n_time x) = x.
Proof.
  intros Hwf. unfold tslice.
  rewrite (nest_map_ext _ (fun r => r)).
  - destruct x as [sh d xs0 xfn xfd ch md]. cbn [shape dat s0 fsn fsd chan meta] in *.
    f_equal; try lia.
    + unfold set_time, n_time. cbn [shape]. rewrite Z.sub_0_r.
      assert (Hne : sh <> []) by (pose proof (shape_length _ Hwf) as H; cbn [shape] in H; destruct sh; [cbn in H; lia | discriminate]).
      symmetry. now apply app_removelast_last.
    + destruct d; cbn [nest_map]; f_equal; [now rewrite map_id | ].
      rewrite <- (map_id d) at 2. apply map_ext. intros blk. now rewrite map_id.
  - intros r Hr. rewrite <- (rows_length x r Hwf Hr). apply py_slice_whole.
Qed.

Lemma ndim_tslice x a b : wf x -> ndim (tslice x a b) = ndim x.
Proof. intros Hwf. unfold ndim, tslice, set_time. wf_cases x Hwf; reflexivity. Qed.
Lemma n_time_tslice x a b : n_time (tslice x a b) = b - a.
Proof. unfold n_time, tslice, set_time. cbn [shape]. apply last_last. Qed.

Lemma wf_ctor_ok x : wf x -> ctor_ok (shape x) (chan x) (meta x) = true.
Proof.
  intros Hwf. unfold ctor_ok. wf_cases x Hwf; cbn [shape chan meta].
  - reflexivity.
  - destruct Hwf as (_ & _ & Hl). change (zlen [t1; t2]) with 2. cbn. rewrite Hl, Z.eqb_refl. reflexivity.
  - destruct Hwf as (_ & _ & _ & _ & Hl & Hm). change (zlen [t1; t2; t3]) with 3. cbn. rewrite Hl, Hm, !Z.eqb_refl. reflexivity.
Qed.

Lemma wf_tslices x : wf x -> forall cuts o, 0 <= o -> cuts_ok o cuts (n_time x) -> Forall wf (tslices x o cuts).
Proof.
  intros Hwf. induction cuts as [|c t IH]; intros o Ho Hc; cbn [tslices]; [constructor|].
  cbn [cuts_ok] in Hc. destruct Hc as [Hoc Hc]. pose proof (cuts_ok_le _ _ _ Hc).
  constructor; [apply wf_tslice; [exact Hwf | lia | lia] | apply IH; [lia | exact Hc]].
Qed.

Lemma pieces_tslices x : wf x -> forall cuts o, 0 <= o -> cuts_ok o cuts (n_time x) ->
  all_arrays (map (getitem x) (piece_indices o cuts)) = inr (tslices x o cuts).
Proof.
  intros Hwf. induction cuts as [|c t IH]; intros o Ho Hc; [reflexivity|].
  cbn [cuts_ok] in Hc. destruct Hc as [Hoc Hc]. pose proof (cuts_ok_le _ _ _ Hc).
  cbn [piece_indices map all_arrays tslices]. rewrite getitem_time_piece by (assumption || lia).
  rewrite IH by (lia || assumption). reflexivity.
Qed.

Lemma adjacent_tslices x : forall cuts o, pieces_adjacent (s0 x + o) (tslices x o cuts).
Proof.
  induction cuts as [|c t IH]; intros o; cbn [tslices pieces_adjacent]; [exact I|].
  split; [reflexivity|]. rewrite n_time_tslice. cbn [tslice s0]. replace (s0 x + o + (c - o)) with (s0 x + c) by lia. apply IH.
Qed.

(* any split of the time axis into adjacent pieces (cut points 0 <= c1 <= ... <= cm = n_time, empty pieces
   allowed), each piece taken with x[..., a:b], concatenates back to the original array and annotations *)
Theorem concat_restores x cuts :
  wf x -> cuts <> [] -> cuts_ok 0 cuts (n_time x) ->
  exists ps, all_arrays (map (getitem x) (piece_indices 0 cuts)) = inr ps /\ Forall wf ps /\
             concat_pd DTime ps = RArr x.
Proof.
  intros Hwf Hne Hc. exists (tslices x 0 cuts).
  split; [apply pieces_tslices; [exact Hwf | lia | exact Hc]|].
  pose proof (wf_tslices x Hwf cuts 0 ltac:(lia) Hc) as Hall. split; [exact Hall|].
  destruct cuts as [|c t]; [congruence|]. cbn [cuts_ok] in Hc. destruct Hc as [H0c Hc].
  unfold concat_pd. rewrite ensure_dim_time by (exact Hall || discriminate).
  cbn [tslices].
  assert (E1 : forallb (fun a => ndim a =? ndim (tslice x 0 c)) (tslices x c t) = true).
  { apply forallb_forall. intros a Ha. rewrite ndim_tslice by exact Hwf.
    clear - Ha Hwf. revert c Ha. induction t as [|c' t IH]; intros c Ha; [contradiction|].
    cbn [tslices In] in Ha. destruct Ha as [<-|Ha]; [rewrite ndim_tslice by exact Hwf; lia | eapply IH; exact Ha]. }
  assert (E2 : forallb (same_fs (tslice x 0 c)) (tslices x c t) = true).
  { apply forallb_forall. intros a Ha. unfold same_fs.
    assert (fsn a = fsn x /\ fsd a = fsd x) as [-> ->].
    { clear - Ha. revert c Ha. induction t as [|c' t IH]; intros c Ha; [contradiction|].
      cbn [tslices In] in Ha. destruct Ha as [<-|Ha]; [split; reflexivity | eapply IH; exact Ha]. }
    cbn [tslice fsn fsd]. lia. }
  assert (E4 : forallb (fun a => eqb_lab (chan a) (chan (tslice x 0 c))) (tslices x c t) = true).
  { apply forallb_forall. intros a Ha.
    assert (chan a = chan x) as ->.
    { clear - Ha. revert c Ha. induction t as [|c' t IH]; intros c Ha; [contradiction|].
      cbn [tslices In] in Ha. destruct Ha as [<-|Ha]; [reflexivity | eapply IH; exact Ha]. }
    apply eqb_lab_refl. }
  assert (E5 : forallb (fun a => eqb_lab (meta a) (meta (tslice x 0 c))) (tslices x c t) = true).
  { apply forallb_forall. intros a Ha.
    assert (meta a = meta x) as ->.
    { clear - Ha. revert c Ha. induction t as [|c' t IH]; intros c Ha; [contradiction|].
      cbn [tslices In] in Ha. destruct Ha as [<-|Ha]; [reflexivity | eapply IH; exact Ha]. }
    apply eqb_lab_refl. }
  rewrite E1, E2, E4, E5. cbn [negb].
  assert (E3 : contiguous_from (s0 (tslice x 0 c) + n_time (tslice x 0 c)) (tslices x c t) = true).
  { apply contiguous_adjacent. rewrite n_time_tslice. cbn [tslice s0].
    replace (s0 x + 0 + (c - 0)) with (s0 x + c) by lia. apply adjacent_tslices. }
  rewrite E3. cbn [negb].
  rewrite (cat_all_tslices x Hwf t 0 c ltac:(lia) Hc).
  rewrite (tslice_whole x Hwf). cbn [tslice s0 fsn fsd chan meta]. rewrite (wf_ctor_ok x Hwf).
  f_equal. destruct x as [sh d xs0 xfn xfd ch md]; cbn [shape dat s0 fsn fsd chan meta]. f_equal. lia.
Qed.
