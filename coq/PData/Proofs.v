(* Proofs for C11 (annotated arrays).  Stdlib only. *)
From Coq Require Import ZArith List Bool Lia ZifyBool.
From PV Require Import PData.Model PData.Spec.
Import ListNotations.
Open Scope Z_scope.

(* ------------------------------------------------------------------ small list facts *)
Lemma zlen_nonneg {A} (l : list A) : 0 <= zlen l.
Proof. unfold zlen; lia. Qed.
Lemma zlen_nil {A} : zlen (@nil A) = 0.
Proof. reflexivity. Qed.
Lemma zlen_cons {A} (a : A) l : zlen (a :: l) = 1 + zlen l.
Proof. unfold zlen; cbn [length]; lia. Qed.
Lemma zlen_app {A} (a b : list A) : zlen (a ++ b) = zlen a + zlen b.
Proof. unfold zlen; rewrite app_length; lia. Qed.
Lemma zlen_map {A B} (f : A -> B) l : zlen (map f l) = zlen l.
Proof. unfold zlen; now rewrite map_length. Qed.
Lemma zlen_repeat {A} (a : A) n : zlen (repeat a n) = Z.of_nat n.
Proof. unfold zlen; now rewrite repeat_length. Qed.
Lemma zlen_0_nil {A} (l : list A) : zlen l = 0 -> l = [].
Proof. destruct l; [easy | rewrite zlen_cons; pose proof (zlen_nonneg l); lia]. Qed.

Lemma countb_nil {A} (f : A -> bool) : countb f [] = 0.
Proof. reflexivity. Qed.
Lemma countb_cons {A} (f : A -> bool) a l : countb f (a :: l) = (if f a then 1 else 0) + countb f l.
Proof. unfold countb; cbn [filter]; destruct (f a); [rewrite zlen_cons|]; lia. Qed.
Lemma countb_app {A} (f : A -> bool) a b : countb f (a ++ b) = countb f a + countb f b.
Proof. unfold countb; rewrite filter_app, zlen_app; lia. Qed.
Lemma countb_nonneg {A} (f : A -> bool) l : 0 <= countb f l.
Proof. apply zlen_nonneg. Qed.
Lemma countb_repeat {A} (f : A -> bool) a n : countb f (repeat a n) = if f a then Z.of_nat n else 0.
Proof.
  induction n as [|n IH]; [destruct (f a); reflexivity|].
  cbn [repeat]; rewrite countb_cons, IH; destruct (f a); lia.
Qed.
Lemma countb_0_forall {A} (f : A -> bool) l : countb f l = 0 -> forall a, In a l -> f a = false.
Proof.
  induction l as [|b l IH]; [easy|].
  rewrite countb_cons; intros H a [->|Hin].
  - destruct (f a); [pose proof (countb_nonneg f l); lia | reflexivity].
  - apply IH; [|exact Hin]. pose proof (countb_nonneg f l). destruct (f b); lia.
Qed.

(* ------------------------------------------------------------------ normalize_index = NumPy's expansion *)
Definition conv1 (it : item) : nitem :=
  match it with
  | IInt z => NInt z
  | ISlice a b c => NSlice a b c
  | IList zs => NListZ zs
  | IMask bs _ => NListB bs
  | IEllipsis => nfull
  | INewaxis => NNew
  end.

Lemma map_conv1_repeat n : map conv1 (repeat full n) = repeat nfull n.
Proof. induction n; cbn; [reflexivity | now rewrite IHn]. Qed.

Lemma conv_item_expand fill it : conv_item fill it = map conv1 (expand_item fill it).
Proof. destruct it; try reflexivity. cbn. now rewrite map_conv1_repeat. Qed.

Lemma flat_conv_expand fill its :
  flat_map (conv_item fill) its = map conv1 (flat_map (expand_item fill) its).
Proof.
  induction its as [|it its IH]; [reflexivity|].
  cbn [flat_map]. rewrite map_app, IH, conv_item_expand. reflexivity.
Qed.

Lemma flat_conv_noell fill its :
  countb is_ell its = 0 -> flat_map (conv_item fill) its = map conv1 its.
Proof.
  intros H. pose proof (countb_0_forall _ _ H) as Hn. clear H.
  induction its as [|it its IH]; [reflexivity|].
  cbn [flat_map map]. rewrite IH by (intros; apply Hn; now right).
  specialize (Hn it (or_introl eq_refl)). destruct it; try reflexivity. discriminate.
Qed.

Lemma item_kinds its :
  zlen its = countb consumes its + countb is_new its + countb is_ell its.
Proof.
  induction its as [|it its IH]; [reflexivity|].
  rewrite zlen_cons, !countb_cons, IH. destruct it; cbn [consumes is_new is_ell negb orb]; lia.
Qed.

Lemma zlen_flat_expand fill its : 0 <= fill ->
  zlen (flat_map (expand_item fill) its) = zlen its - countb is_ell its + fill * countb is_ell its.
Proof.
  intros Hf. induction its as [|it its IH]; [cbn [flat_map]; rewrite zlen_nil, countb_nil; lia|].
  cbn [flat_map]. rewrite zlen_app, IH, zlen_cons, countb_cons.
  destruct it; cbn [expand_item is_ell]; rewrite ?zlen_repeat, ?zlen_cons, ?zlen_nil; lia.
Qed.

Lemma normalize_tuple_expand nd its ex :
  np_expand nd its = Some ex -> normalize_tuple true nd its = inr (map conv1 ex).
Proof.
  unfold np_expand, normalize_tuple. intros H.
  destruct ((countb is_ell its >? 1) || (countb consumes its >? nd)) eqn:E; [discriminate|].
  apply orb_false_elim in E. destruct E as [E1 E2].
  rewrite E1. cbn [negb andb].
  pose proof (item_kinds its) as K.
  pose proof (countb_nonneg is_ell its) as Hell.
  destruct (countb is_ell its =? 0) eqn:E0.
  - injection H as <-. rewrite flat_conv_noell by lia.
    rewrite map_app, map_conv1_repeat, zlen_map. do 3 f_equal. lia.
  - injection H as <-.
    assert (Hone : countb is_ell its = 1) by lia.
    replace (nd + countb is_new its - zlen its + 1) with (nd - countb consumes its) by lia.
    rewrite flat_conv_expand, zlen_map, zlen_flat_expand by lia.
    replace (Z.to_nat _) with 0%nat by lia.
    cbn [repeat]. now rewrite app_nil_r.
Qed.

(* the bare-index forms of normalize_index agree with the one-element tuple, except for the
   `index.all()` shortcut taken for a bare all-True boolean array *)
Definition all_true_arr (ix : index) : bool :=
  sole ix && match items ix with [IMask bs true] => forallb (fun b => b) bs | _ => false end.

Lemma normalize_expand nd (ix : index) ex :
  all_true_arr ix = false -> np_expand nd (items ix) = Some ex ->
  normalize_index true ix nd = inr (map conv1 ex).
Proof.
  unfold normalize_index, all_true_arr. destruct ix as [so its]. cbn [sole items].
  destruct so; [|intros _; apply normalize_tuple_expand].
  cbn [andb]. intros Hs H.
  destruct its as [|it [|it2 its]]; try (now apply normalize_tuple_expand);
    [|destruct it as [| | |? []| |]; now apply normalize_tuple_expand].
  destruct it; try (now apply normalize_tuple_expand).
  - (* int *) revert H. unfold np_expand. cbn.
    destruct (1 >? nd) eqn:E; [discriminate|]. intros H. injection H as <-.
    cbn. now rewrite map_conv1_repeat.
  - revert H. unfold np_expand. cbn.
    destruct (1 >? nd) eqn:E; [discriminate|]. intros H. injection H as <-.
    cbn. now rewrite map_conv1_repeat.
  - (* mask *) destruct arr; [|now apply normalize_tuple_expand].
    rewrite Hs. revert H. unfold np_expand, normalize_tuple. cbn.
    destruct (1 >? nd) eqn:E; [discriminate|]. intros H. injection H as <-.
    cbn. rewrite map_conv1_repeat. do 3 f_equal. lia.
  - (* ellipsis *) revert H. unfold np_expand. cbn.
    destruct (0 >? nd) eqn:E; [discriminate|]. intros H. injection H as <-.
    cbn. rewrite app_nil_r, map_conv1_repeat. do 2 f_equal. lia.
  - (* newaxis *) revert H. unfold np_expand. cbn.
    destruct (0 >? nd) eqn:E; [discriminate|]. intros H. injection H as <-.
    cbn. rewrite map_conv1_repeat. do 3 f_equal. lia.
Qed.

(* ------------------------------------------------------------------ shape of NumPy's expansion *)
Lemma strip_new_spec ex : forall k per, strip_new ex = (k, per) ->
  ex = repeat INewaxis (Z.to_nat k) ++ per /\ 0 <= k.
Proof.
  induction ex as [|it ex IH]; intros k per H.
  - cbn in H. injection H as <- <-. split; [reflexivity | lia].
  - destruct it; try (cbn in H; injection H as <- <-; split; [reflexivity | lia]).
    cbn [strip_new] in H. destruct (strip_new ex) as [k0 r] eqn:E.
    injection H as <- <-. destruct (IH _ _ eq_refl) as [-> Hk]. split; [|lia].
    replace (Z.to_nat (k0 + 1)) with (S (Z.to_nat k0)) by lia. reflexivity.
Qed.

Lemma countb_flat_expand (f : item -> bool) fill its : 0 <= fill -> f IEllipsis = false ->
  countb f (flat_map (expand_item fill) its) = countb f its + (if f full then fill else 0) * countb is_ell its.
Proof.
  intros Hf He. induction its as [|it its IH]; [cbn [flat_map]; rewrite !countb_nil; lia|].
  cbn [flat_map]. rewrite countb_app, IH, !countb_cons.
  destruct it; cbn [expand_item is_ell]; rewrite ?countb_cons, ?countb_nil, ?countb_repeat, ?He;
    destruct (f full); try lia.
Qed.

Lemma countb_ell_flat_expand fill its : countb is_ell (flat_map (expand_item fill) its) = 0.
Proof.
  induction its as [|it its IH]; [reflexivity|].
  cbn [flat_map]. rewrite countb_app, IH.
  destruct it; cbn [expand_item]; rewrite ?countb_cons, ?countb_nil, ?countb_repeat; reflexivity.
Qed.

Lemma consumes_full : consumes full = true. Proof. reflexivity. Qed.
Lemma is_ell_full : is_ell full = false. Proof. reflexivity. Qed.
Lemma consumes_new : consumes INewaxis = false. Proof. reflexivity. Qed.
Lemma is_ell_new : is_ell INewaxis = false. Proof. reflexivity. Qed.
Lemma consumes_ell : consumes IEllipsis = false. Proof. reflexivity. Qed.
Lemma is_ell_ell : is_ell IEllipsis = true. Proof. reflexivity. Qed.
Ltac kinds := rewrite ?consumes_full, ?is_ell_full, ?consumes_new, ?is_ell_new, ?consumes_ell, ?is_ell_ell.

Lemma expand_facts nd its ex : np_expand nd its = Some ex ->
  countb consumes ex = nd /\ countb is_ell ex = 0.
Proof.
  unfold np_expand. intros H.
  destruct ((countb is_ell its >? 1) || (countb consumes its >? nd)) eqn:E; [discriminate|].
  apply orb_false_elim in E. destruct E as [E1 E2]. rewrite Z.gtb_ltb in E1, E2.
  pose proof (countb_nonneg is_ell its) as Hell.
  destruct (countb is_ell its =? 0) eqn:E0; injection H as <-.
  - apply Z.eqb_eq in E0.
    rewrite !countb_app, !countb_repeat. kinds. split; lia.
  - assert (H1 : countb is_ell its = 1) by lia.
    rewrite countb_flat_expand by (reflexivity || lia). rewrite countb_ell_flat_expand. kinds.
    rewrite H1. split; lia.
Qed.

Lemma existsb_false_count {A} (f : A -> bool) l : existsb f l = false -> countb f l = 0.
Proof.
  induction l as [|a l IH]; [reflexivity|]. cbn [existsb]. rewrite countb_cons.
  destruct (f a); [discriminate|]. intros H. rewrite IH by exact H. reflexivity.
Qed.

Definition plain (it : item) : Prop := is_new it = false /\ is_ell it = false.

Lemma denotes_shape nd ix k per : denotes nd ix k per ->
  exists ex, np_expand nd (items ix) = Some ex /\ strip_new ex = (k, per) /\
    ex = repeat INewaxis (Z.to_nat k) ++ per /\ 0 <= k /\ k + nd <= 3 /\ zlen per = nd /\
    Forall plain per /\ is_slice (last per IEllipsis) = true /\ countb is_adv per <= 1.
Proof.
  intros (ex & He & Hs & Hr & Hk). exists ex.
  destruct (strip_new_spec _ _ _ Hs) as [Hex Hk0].
  destruct (expand_facts _ _ _ He) as [Hc Hell].
  unfold regular_per in Hr. apply andb_prop in Hr. destruct Hr as [Hr Hadv].
  apply andb_prop in Hr. destruct Hr as [Hnew Hsl].
  apply negb_true_iff in Hnew. pose proof (existsb_false_count _ _ Hnew) as Hn0.
  rewrite Hex in Hc, Hell. rewrite countb_app, countb_repeat in Hc, Hell.
  change (consumes INewaxis) with false in Hc. change (is_ell INewaxis) with false in Hell.
  pose proof (countb_nonneg is_ell per).
  pose proof (item_kinds per) as K.
  assert (HF : Forall plain per).
  { apply Forall_forall. intros it Hin. split.
    - eapply countb_0_forall; [exact Hn0 | exact Hin].
    - eapply countb_0_forall; [|exact Hin]. lia. }
  repeat split; try assumption; lia.
Qed.
