(* TRANSLATOR TIE for C11, part 2: pipeline.ensure_dim and pipeline.concat on annotated pieces.  gen_ensure_dim and gen_concat
   of coq/gen/PDataGen.v (regenerated from psiaudio/pipeline.py on every run by translate/pypdata2coq.py) are proved equal to
   ensure_dim / concat_any / concat_pd of PData/Model.v; the C11 concat theorems are restated over gen_concat.
   Stdlib only; everything is closed under the global context. *)
From Coq Require Import ZArith List Bool Lia ZifyBool.
From PV Require Import PData.Model PData.Spec PData.Proofs PData.ProofsX PData.ProofsX2.
From PV Require Import PData.TieLib PData.TieLibConcat gen.PDataGen PData.ProofsTie.
Import ListNotations.
Open Scope Z_scope.

Definition lift_arrs (r : err + list pd) : gres (list pd) := match r with inl e => GRaise e | inr l => GOk l end.
Definition lift_c (c : cres) : gres pyobj :=
  match c with CAnn p => GOk (OArr p) | CErr e => GRaise e | CPlain _ _ => GStuck end.

(* ------------------------------------------------------------------ the loops *)
Lemma gfold_check {A} (F : A -> unit -> gres unit) (f : A -> bool) e :
  (forall a u, F a u = if negb (f a) then GRaise e else GOk tt) ->
  forall l, gfold F l tt = if forallb f l then GOk tt else GRaise e.
Proof.
  intros HF. induction l as [|a l IH]; [reflexivity|]. cbn [gfold forallb]. rewrite HF.
  destruct (f a); cbn [negb gbind andb]; [exact IH | reflexivity].
Qed.

Lemma gfold_contig {B} (F : pd -> Z -> gres Z) (k : gres B) :
  (forall a c, F a c = if negb (s0 a =? c) then GRaise EValue else GOk (c + n_time a)) ->
  forall rest cur, gbind (gfold F rest cur) (fun _ => k) = if contiguous_from cur rest then k else GRaise EValue.
Proof.
  intros HF. induction rest as [|a rest IH]; intros cur; [reflexivity|]. cbn [gfold contiguous_from]. rewrite HF.
  destruct (s0 a =? cur); cbn [negb gbind andb]; [apply IH | reflexivity].
Qed.

Lemma gfold_meta (F : pd -> lab -> gres lab) :
  (forall a m, F a m = if ndim a >=? 3 then lab_extend m (meta a) else lab_append m (meta a)) ->
  forall l acc, Forall (fun a => 3 <= ndim a) l ->
  gfold F l (LMany acc) = match merge_labs (map meta l) with Some r => GOk (LMany (acc ++ r)) | None => GRaise ETypeKey end.
Proof.
  intros HF. induction l as [|a l IH]; intros acc H; cbn [gfold map merge_labs].
  - now rewrite app_nil_r.
  - inversion H as [|? ? Ha Hl]; subst. rewrite HF. replace (ndim a >=? 3) with true by lia.
    destruct (meta a) as [z|zs]; cbn [lab_extend lab_list gbind]; [reflexivity|].
    rewrite IH by exact Hl. destruct (merge_labs (map meta l)); [now rewrite app_assoc | reflexivity].
Qed.

Lemma forallb_const_true {A} (l : list A) : forallb (fun _ => true) l = true.
Proof. induction l; [reflexivity | exact IHl]. Qed.

(* ------------------------------------------------------------------ ensure_dim *)
Lemma gmap_getitem v ix : v = emb_index ix -> forall l,
  gmap (fun a => gbind (gbind (gen_getitem a v) obj_as_pd) (fun t => GOk t)) l
  = lift_arrs (all_arrays (map (fun a => getitem a ix) l)).
Proof.
  intros ->. induction l as [|a l IH]; [reflexivity|]. cbn [gmap map all_arrays].
  rewrite gen_getitem_full_model, IH. destruct (getitem a ix) as [p|w|e]; cbn [lift_res gbind obj_as_pd]; try reflexivity.
  destruct (all_arrays (map (fun a0 => getitem a0 ix) l)); reflexivity.
Qed.

(* TIE 3: ensure_dim, for every list of annotated pieces and every dimension *)
Theorem gen_ensure_dim_tie ps dm : gen_ensure_dim ps dm = lift_arrs (ensure_dim ps dm).
Proof.
  destruct ps as [|a0 ps]; [reflexivity|]. unfold gen_ensure_dim, ensure_dim, ensure_index. cbn [list_hd gbind]. cbv zeta.
  destruct dm; cbn [cdim_eqb andb]; destruct (ndim a0 =? 1); cbn [gbind]; try destruct (ndim a0 =? 2); cbn [gbind];
    rewrite gbind_ret; apply gmap_getitem; reflexivity.
Qed.

(* ------------------------------------------------------------------ after ensure_dim(.., 'epoch') the pieces are 3-D *)
Lemma getitem_with_arr_shape x its norm r : getitem_with true x its norm = RArr r ->
  exists d, np_getitem (shape x) (dat x) its = NPArr (shape r) d.
Proof.
  unfold getitem_with. destruct (np_getitem (shape x) (dat x) its) as [|w|sh d|sh]; intros H.
  - discriminate.
  - destruct (existsb is_ell its); [|discriminate]. destruct norm as [e|s]; [discriminate|].
    destruct (split3 s) as [[[es cs] ts]|]; [|discriminate]. destruct (fix_time true x ts); discriminate.
  - destruct norm as [e|s]; [discriminate|]. destruct (split3 s) as [[[es cs] ts]|]; [|discriminate].
    destruct (fix_time true x ts) as [e|[s0' fsd']]; [discriminate|].
    destruct (fix_chan true cs (finalize_chan (chan x) sh)); [discriminate|].
    destruct (fix_meta es (meta x)); [discriminate|]. injection H as <-. now exists d.
  - destruct norm; discriminate.
Qed.

Lemma getitem_epoch_ndim p b : ndim p <= 3 -> getitem p (ensure_index (ndim p) DEpoch) = RArr b -> 3 <= ndim b.
Proof.
  intros Hn G. unfold getitem in G. rewrite getitem_gen_with in G.
  destruct (getitem_with_arr_shape _ _ _ _ G) as [d H]. clear G. unfold ndim in *.
  destruct (shape p) as [|n1 [|n2 [|n3 [|n4 sh]]]].
  - cbv in H. discriminate.
  - change (zlen [n1]) with 1 in H. cbn [ensure_index Z.eqb items tuple] in H.
    unfold np_getitem in H. cbn in H. destruct (dat p); try discriminate H. injection H as H _. now rewrite <- H.
  - change (zlen [n1; n2]) with 2 in H. cbn [ensure_index Z.eqb items tuple] in H.
    unfold np_getitem in H. cbn in H. destruct (dat p); try discriminate H.
    injection H as H _. now rewrite <- H.
  - change (zlen [n1; n2; n3]) with 3 in H. cbn [ensure_index Z.eqb items tuple] in H.
    unfold np_getitem in H. cbn in H. destruct (dat p); try discriminate H.
    injection H as H _. now rewrite <- H.
  - exfalso. rewrite !zlen_cons in Hn. pose proof (zlen_nonneg sh). lia.
Qed.

Lemma ensure_epoch_ndim p ps base rest : ndim p <= 3 ->
  ensure_dim (p :: ps) DEpoch = inr (base :: rest) -> 3 <= ndim base.
Proof.
  intros Hn. unfold ensure_dim. cbn [map all_arrays].
  destruct (getitem p (ensure_index (ndim p) DEpoch)) as [b|w|e] eqn:G; try discriminate.
  destruct (all_arrays _); [discriminate|]. intros H. injection H as <- _. now apply (getitem_epoch_ndim p).
Qed.

Lemma forallb_same_fs base rest :
  forallb (fun a => rate_eqb (pd_fs a) (pd_fs base)) rest = forallb (same_fs base) rest.
Proof.
  induction rest as [|a rest IH]; [reflexivity|]. cbn [forallb]. rewrite IH. f_equal.
  unfold rate_eqb, pd_fs, same_fs. cbn [fst snd]. apply Z.eqb_sym.
Qed.

(* the first piece has at most 3 dimensions (the model's arrays have 1 to 3); needed for the epoch axis only *)
Definition first_le3 (ps : list pd) : Prop := match ps with p :: _ => ndim p <= 3 | [] => True end.

(* TIE 4: concat on annotated pieces = the model's concat (concat_any / concat_pd): the ndim, rate, contiguity, channel
   and metadata tests with their errors, the merged labels, the result annotations; every axis value, every list *)
Theorem gen_concat_tie ps ax : (dim_of ax = Some DEpoch -> first_le3 ps) ->
  gen_concat ps ax = lift_c (concat_any (dim_of ax) (map PAnn ps)).
Proof.
  intros H3. unfold gen_concat, py_dim_axis. destruct (dim_of ax) as [dm|]; [|reflexivity]. cbn [gbind].
  destruct ps as [|p ps]; [reflexivity|].
  rewrite concat_any_annotated by discriminate.
  cbn [existsb orb negb]. rewrite forallb_const_true. cbn [negb].
  rewrite gen_ensure_dim_tie. unfold concat_pd.
  destruct (ensure_dim (p :: ps) dm) as [e|[|base rest]] eqn:ED; cbn [lift_arrs gbind list_hd cres_of lift_c]; try reflexivity.
  cbv zeta. cbn [tl].
  rewrite (gfold_check _ (fun a => ndim a =? ndim base) EValue) by (intros; reflexivity).
  destruct (forallb (fun a => ndim a =? ndim base) rest) eqn:ND; cbn [negb gbind cres_of lift_c]; [|reflexivity].
  rewrite (gfold_check _ (fun a => rate_eqb (pd_fs a) (pd_fs base)) EValue) by (intros; reflexivity).
  rewrite forallb_same_fs.
  destruct (forallb (same_fs base) rest); cbn [negb gbind cres_of lift_c]; [|reflexivity].
  (* contiguity along time *)
  assert (TM : forall B (k : gres B),
    gbind (if cdim_eqb dm DTime
           then gbind (gfold (fun a' current_s0' => if negb (s0 a' =? current_s0') then GRaise EValue
                                                    else GOk (current_s0' + n_time a')) rest (s0 base + n_time base))
                      (fun _ => GOk tt)
           else GOk tt) (fun _ => k)
    = if match dm with DTime => negb (contiguous_from (s0 base + n_time base) rest) | _ => false end
      then GRaise EValue else k).
  { intros B k. destruct dm; cbn [cdim_eqb gbind]; try reflexivity.
    rewrite (gfold_contig _ (GOk tt)) by (intros; reflexivity).
    destruct (contiguous_from (s0 base + n_time base) rest); reflexivity. }
  rewrite TM; clear TM.
  destruct (match dm with DTime => negb (contiguous_from (s0 base + n_time base) rest) | _ => false end);
    cbn [cres_of lift_c]; [reflexivity|].
  (* channel labels *)
  assert (CH : (if negb (cdim_eqb dm DChan)
                then gbind (gfold (fun a' (_ : unit) => if negb (eqb_lab (chan a') (chan base)) then GRaise EValue else GOk tt)
                                  rest tt) (fun _ => GOk (chan base))
                else gbind (labs_concat (map (fun array' => chan array') (base :: rest))) (fun t => GOk t))
               = match (match dm with
                        | DChan => match merge_labs (map chan (base :: rest)) with
                                   | Some l => inr (LMany l) | None => inl ETypeKey end
                        | _ => if forallb (fun a => eqb_lab (chan a) (chan base)) rest then inr (chan base) else inl EValue
                        end) with inl e => GRaise e | inr ch => GOk ch end).
  { destruct dm; cbn [cdim_eqb negb].
    1, 3: rewrite (gfold_check _ (fun a => eqb_lab (chan a) (chan base)) EValue) by (intros; reflexivity);
          destruct (forallb (fun a => eqb_lab (chan a) (chan base)) rest); reflexivity.
    unfold labs_concat. change (map (fun array' => chan array') (base :: rest)) with (map chan (base :: rest)).
    destruct (merge_labs (map chan (base :: rest))); reflexivity. }
  rewrite CH; clear CH.
  match goal with |- context [match ?c with inl e => GRaise e | inr ch => GOk ch end] => destruct c as [e|ch] end;
    cbn [gbind cres_of lift_c]; [reflexivity|].
  (* metadata *)
  assert (MD : (if negb (cdim_eqb dm DEpoch)
                then gbind (gfold (fun a' (_ : unit) => if negb (eqb_lab (meta a') (meta base)) then GRaise EValue else GOk tt)
                                  rest tt) (fun _ => GOk (meta base))
                else gbind (gfold (fun a' metadata' =>
                                   gbind (if ndim a' >=? 3
                                          then gbind (lab_extend metadata' (meta a')) (fun t => GOk t)
                                          else gbind (lab_append metadata' (meta a')) (fun t => GOk t)) (fun m => GOk m))
                                  (base :: rest) (LMany [])) (fun m => GOk m))
               = match (match dm with
                        | DEpoch => match merge_labs (map meta (base :: rest)) with
                                    | Some l => inr (LMany l) | None => inl ETypeKey end
                        | _ => if forallb (fun a => eqb_lab (meta a) (meta base)) rest then inr (meta base) else inl EValue
                        end) with inl e => GRaise e | inr md => GOk md end).
  { destruct dm; cbn [cdim_eqb negb].
    1, 2: rewrite (gfold_check _ (fun a => eqb_lab (meta a) (meta base)) EValue) by (intros; reflexivity);
          destruct (forallb (fun a => eqb_lab (meta a) (meta base)) rest); reflexivity.
    rewrite gbind_ret. rewrite (gfold_meta _).
    - destruct (merge_labs (map meta (base :: rest))); reflexivity.
    - intros a m. rewrite gbind_ret. destruct (ndim a >=? 3); apply gbind_ret.
    - assert (Hb : 3 <= ndim base) by (apply (ensure_epoch_ndim p ps base rest); [apply (H3 eq_refl) | exact ED]).
      constructor; [exact Hb|]. rewrite forallb_forall in ND. apply Forall_forall. intros a Ha.
      specialize (ND a Ha). lia. }
  rewrite MD; clear MD.
  match goal with |- context [match ?c with inl e => GRaise e | inr md => GOk md end] => destruct c as [e|md] end;
    cbn [gbind cres_of lift_c]; [reflexivity|].
  (* np.concatenate and the constructor *)
  unfold np_concatenate_pd, pd_construct.
  destruct (cat_all dm (shape base) (dat base) rest) as [[sh d]|]; cbn [gbind fst snd pd_fs cres_of lift_c]; [|reflexivity].
  destruct (ctor_ok sh ch md); reflexivity.
Qed.

(* along time and channel there is no hypothesis at all; the hypothesis for the epoch axis (first piece at most 3-D) holds for
   every well-formed array and is a proof convenience: a 4-D first piece is refused by ensure_dim in the model and in the
   generated function alike (gen_ensure_dim_tie), only the proof that the later metadata loop is not reached is omitted *)
Corollary gen_concat_tie_time_chan ps ax : dim_of ax <> Some DEpoch ->
  gen_concat ps ax = lift_c (concat_any (dim_of ax) (map PAnn ps)).
Proof. intros H. apply gen_concat_tie. intros E. now destruct H. Qed.
Lemma wf_first_le3 ps : Forall wf ps -> first_le3 ps.
Proof.
  destruct ps as [|p ps]; [constructor|]. intros H. inversion H as [|? ? Hp _]. cbn [first_le3].
  pose proof (shape_length p Hp). unfold ndim, zlen. lia.
Qed.
Corollary gen_concat_tie_wf ps ax : Forall wf ps -> gen_concat ps ax = lift_c (concat_any (dim_of ax) (map PAnn ps)).
Proof. intros H. apply gen_concat_tie. intros _. now apply wf_first_le3. Qed.
(* in terms of concat_pd *)
Corollary gen_concat_pd ps ax dm : dim_of ax = Some dm -> ps <> [] -> (dm = DEpoch -> first_le3 ps) ->
  gen_concat ps ax = lift_c (cres_of false (concat_pd dm ps)).
Proof.
  intros E Hn H3. rewrite gen_concat_tie; [rewrite E; now rewrite concat_any_annotated|].
  rewrite E. intros X. injection X as X. now apply H3.
Qed.
(* an unknown axis and an empty list are refused *)
Corollary gen_concat_refuses ps ax :
  (dim_of ax = None -> gen_concat ps ax = GRaise EValue) /\ (ps = [] -> gen_concat ps ax = GRaise EValue).
Proof.
  split.
  - intros E. rewrite gen_concat_tie by (rewrite E; discriminate). now rewrite E.
  - intros ->. rewrite gen_concat_tie by (intros _; exact I). destruct (dim_of ax); reflexivity.
Qed.

(* ------------------------------------------------------------------ the C11 concat theorems over the generated definitions *)
Lemma all_arrays_map rs : forall ps, all_arrays rs = inr ps -> rs = map RArr ps.
Proof.
  induction rs as [|r rs IH]; intros ps H; [cbn in H; now injection H as <-|].
  cbn [all_arrays] in H. destruct r as [p|w|e]; try discriminate.
  destruct (all_arrays rs) as [e|qs]; [discriminate|]. injection H as <-. cbn [map]. now rewrite (IH qs eq_refl).
Qed.

(* C11_concat_restores: the pieces cut by the GENERATED __getitem__ at adjacent cut points are well-formed and the GENERATED
   concat along time (axis -1 or 'time') gives the original array with its annotations back *)
Theorem source_concat_restores x cuts ax :
  wf x -> cuts <> [] -> cuts_ok 0 cuts (n_time x) -> dim_of ax = Some DTime ->
  exists ps, map (fun ix => gen_getitem x (emb_index ix)) (piece_indices 0 cuts) = map (fun p => GOk (OArr p)) ps /\
             Forall wf ps /\ gen_concat ps ax = GOk (OArr x).
Proof.
  intros Hw Hc Hk Ha. destruct (concat_restores x cuts Hw Hc Hk) as (ps & H1 & H2 & H3). exists ps.
  split; [|split; [exact H2|]].
  - apply all_arrays_map in H1. rewrite <- (map_map RArr lift_res), <- H1, map_map.
    apply map_ext. intros ix. apply gen_getitem_full_model.
  - assert (Hn : ps <> []) by (intros ->; discriminate H3).
    rewrite (gen_concat_pd ps ax DTime Ha Hn) by discriminate. now rewrite H3.
Qed.

(* C11_concat_rejects: whatever the GENERATED concat accepts along time is consistent (adjacent pieces, one rate, one
   dimensionality, equal channel labels and metadata) and carries the annotations of the first piece *)
Theorem source_concat_rejects ps r ax :
  dim_of ax = Some DTime -> Forall wf ps -> gen_concat ps ax = GOk (OArr r) ->
  exists base rest, ps = base :: rest /\ consistent base rest /\
    s0 r = s0 base /\ fsn r = fsn base /\ fsd r = fsd base /\ chan r = chan base /\ meta r = meta base.
Proof.
  intros Ha Hw H. apply concat_rejects; [exact Hw|].
  destruct ps as [|p ps]; [rewrite (proj2 (gen_concat_refuses [] ax) eq_refl) in H; discriminate|].
  rewrite (gen_concat_pd (p :: ps) ax DTime Ha) in H by discriminate.
  destruct (concat_pd DTime (p :: ps)) as [q|w|e]; cbn [cres_of lift_c] in H; try discriminate. now injection H as <-.
Qed.
(* ... in particular a gap, an overlap, another rate, other labels / metadata, another ndim are errors *)
Corollary source_concat_inconsistent ps ax base rest :
  dim_of ax = Some DTime -> Forall wf ps -> ps = base :: rest -> ~ consistent base rest ->
  exists e, gen_concat ps ax = GRaise e.
Proof.
  intros Ha Hw -> Hc. rewrite (gen_concat_pd _ ax DTime Ha) by discriminate.
  destruct (concat_pd DTime (base :: rest)) as [q|w|e] eqn:E; cbn [cres_of lift_c]; [|now eexists|now eexists].
  exfalso. destruct (concat_rejects _ _ Hw E) as (b & r & Hb & Hcons & _). injection Hb as <- <-. now apply Hc.
Qed.

Example source_concat_ex :
  let x := mk [2; 5] (-3) 1000 1 (LMany [70; 71]) (LOne 90) in
  wf x /\ cuts_ok 0 [2; 2; 5] (n_time x) /\ dim_of (AxInt (-1)) = Some DTime /\ dim_of (AxName DTime) = Some DTime /\
  (exists p q, gen_getitem x (emb_index (time_piece 0 2)) = GOk (OArr p) /\
               gen_getitem x (emb_index (time_piece 3 5)) = GOk (OArr q) /\
               gen_concat [p; q] (AxInt (-1)) = GRaise EValue) /\
  first_le3 [x] /\ gen_concat [x; x] (AxName DEpoch) = lift_c (concat_any (Some DEpoch) (map PAnn [x; x])).
Proof.
  cbn zeta. split; [unfold wf; cbn; repeat split; try lia; repeat constructor|].
  split; [cbn; lia|]. split; [reflexivity|]. split; [reflexivity|]. split.
  - eexists. eexists. split; [vm_compute; reflexivity|]. split; vm_compute; reflexivity.
  - split; [vm_compute; discriminate | vm_compute; reflexivity].
Qed.
