(* What C11 claims, stated without reference to how the code computes it. *)
From PV Require Export PData.Model.

(* ---- well-formed annotated arrays: the label / metadata counts equal the axis lengths ---- *)
Definition rect (c t : Z) (b : list (list Z)) : Prop := zlen b = c /\ Forall (fun r => zlen r = t) b.
Definition wf (x : pd) : Prop :=
  match shape x, dat x, chan x, meta x with
  | [t], N1 r, LOne _, LOne _ => zlen r = t
  | [c; t], N2 b, LMany l, LOne _ => 0 <= t /\ rect c t b /\ zlen l = c            (* len(channel) = n_channels *)
  | [e; c; t], N3 d, LMany l, LMany m =>
    0 <= c /\ 0 <= t /\ zlen d = e /\ Forall (rect c t) d /\ zlen l = c /\ zlen m = e    (* ... and len(metadata) = n_epochs *)
  | _, _, _, _ => False
  end.

(* the rows (time series) of an array, in storage order *)
Definition rows (d : nest) : list (list Z) :=
  match d with N1 r => [r] | N2 b => b | N3 e => concat e end.

(* sample numbers of the time axis: t = taxis / fs *)
Definition taxis (x : pd) : list Z := zrange (fun i => i) (s0 x) (n_time x).

(* [has_row x md ch row]: x holds the time series [row], annotated with metadata entry md and channel label ch *)
Definition has_row (x : pd) (md ch : Z) (row : list Z) : Prop :=
  match dat x, chan x, meta x with
  | N1 r, LOne c, LOne m => row = r /\ ch = c /\ md = m
  | N2 b, LMany cs, LOne m => md = m /\ In (ch, row) (combine cs b)
  | N3 d, LMany cs, LMany ms => exists blk, In (md, blk) (combine ms d) /\ In (ch, row) (combine cs blk)
  | _, _, _ => False
  end.

(* ---- what an index expression denotes on an nd-dimensional array (NumPy's reading): k leading new axes and
        one item per axis, the last one (time) a slice, at most one list/mask among them ---- *)
Definition denotes (nd : Z) (ix : index) (k : Z) (per : list item) : Prop :=
  exists ex, np_expand nd (items ix) = Some ex /\ strip_new ex = (k, per) /\
             regular_per per = true /\ k + nd <= 3.
(* every item is a legal index for its axis (otherwise NumPy raises IndexError) *)
Definition valid_on (sh : list Z) (per : list item) : Prop := all_ok per sh = true.

Definition time_item (per : list item) : item := last per full.
Definition slice_start (it : item) : option Z := match it with ISlice a _ _ => a | _ => None end.
Definition slice_stop (it : item) : option Z := match it with ISlice _ b _ => b | _ => None end.
Definition slice_step (it : item) : Z := match it with ISlice _ _ c => step_of c | _ => 1 end.

(* selecting from a label list exactly as the data are selected along the same axis *)
Definition sel_lab (it : item) (l : lab) : lab :=
  match l with
  | LMany zs => match it with IInt z => LOne (py_index 0 zs z) | _ => LMany (take_sel 0 it zs) end
  | LOne _ => l
  end.
Definition wrap_lab (l : lab) : lab := match l with LOne z => LMany [z] | _ => l end.
Definition spec_chan (k : Z) (per : list item) (ch : lab) : lab :=
  match per with
  | [_] => if k >? 0 then wrap_lab ch else ch
  | [ic; _] => sel_lab ic ch
  | [_; ic; _] => sel_lab ic ch
  | _ => ch
  end.
Definition spec_meta (k : Z) (per : list item) (md : lab) : lab :=
  match per with
  | [_] => if k >? 1 then wrap_lab md else md
  | [_; _] => if k >? 0 then wrap_lab md else md
  | [ie; _; _] => sel_lab ie md
  | _ => md
  end.

(* the result of a regular index expression: the data are NumPy's per-axis selection d', every annotation is
   selected by the same items (s0 by the clipped start of the time slice; its value after a strided slice is the
   one pinned by the existing tests) *)
Definition spec_result (x : pd) (k : Z) (per : list item) (d' : nest) : pd :=
  {| shape := repeat 1 (Z.to_nat k) ++ out_shape per (shape x); dat := d';
     s0 := s0 x + py_lo (n_time x) (slice_start (time_item per));
     fsn := fsn x; fsd := fsd x * slice_step (time_item per);
     chan := spec_chan k per (chan x); meta := spec_meta k per (meta x) |}.

(* the epoch axis survives while the channel axis is dropped by an integer: the (epoch, time) result is read
   as (channel, time) by PipelineData (known finding, see known_findings.txt) *)
Definition epoch_without_channel (nd k : Z) (per : list item) : bool :=
  match per with
  | [ic; _] => (k >? 0) && is_int ic
  | [ie; ic; _] => negb (is_int ie) && is_int ic
  | _ => false
  end.

(* adjacent cut points 0 = o_0 <= o_1 <= ... <= o_m = n of the time axis *)
Fixpoint cuts_ok (o : Z) (cuts : list Z) (n : Z) : Prop :=
  match cuts with
  | [] => o = n
  | c :: t => o <= c /\ cuts_ok c t n
  end.
Definition time_piece (a b : Z) : index := tuple [IEllipsis; ISlice (Some a) (Some b) None].
Fixpoint piece_indices (o : Z) (cuts : list Z) : list index :=
  match cuts with
  | [] => []
  | c :: t => time_piece o c :: piece_indices c t
  end.

(* consistency of time-adjacent pieces *)
Fixpoint pieces_adjacent (cur : Z) (ps : list pd) : Prop :=
  match ps with
  | [] => True
  | p :: t => s0 p = cur /\ pieces_adjacent (cur + n_time p) t
  end.

(* the consistency that concat demands of time-adjacent pieces *)
Definition consistent (base : pd) (rest : list pd) : Prop :=
  pieces_adjacent (s0 base + n_time base) rest /\
  Forall (fun a => ndim a = ndim base /\ fsn base * fsd a = fsn a * fsd base /\
                   chan a = chan base /\ meta a = meta base) rest.

