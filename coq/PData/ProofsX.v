(* C11, extension: theorems about the definitions the coverage audit added to PData/Model.v
   (pd_new = PipelineData.__new__, concat_any = pipeline.concat as called, map_data followed by indexing).
   Nothing existing is changed; helper definitions of this file are specification vocabulary only.
   Stdlib only, no axioms. *)
From Coq Require Import ZArith List Bool Lia ZifyBool.
From PV Require Import PData.Model PData.Spec PData.Proofs.
Import ListNotations.
Open Scope Z_scope.

(* ================================================================== 1. PipelineData.__new__ *)
(* a genuine ndarray of shape sh: the nesting of the data matches the shape, no negative axis length *)
Definition nd_array (sh : list Z) (d : nest) : Prop := wf_dat sh d /\ Forall (fun n => 0 <= n) sh.

(* length of the axis k-th from the right, as the constructor reads it: shape[-k] *)
Definition axis_len (sh : list Z) (k : Z) : Z := nth (Z.to_nat (zlen sh - k)) sh 0.

(* a supplied label list has the right length (None = not supplied: the constructor fills in the default) *)
Definition lab_len_ok (n : Z) (l : option lab) : bool :=
  match l with None => true | Some (LMany zs) => zlen zs =? n | Some (LOne _) => false end.
(* not a list *)
Definition lab_scalar (l : option lab) : bool := match l with Some (LMany _) => false | _ => true end.

(* the constructor's two checks: channel when ndim > 1, metadata when ndim > 2 *)
Definition new_accepts (sh : list Z) (ch md : option lab) : bool :=
  (if zlen sh >? 1 then lab_len_ok (axis_len sh 2) ch else true) &&
  (if zlen sh >? 2 then lab_len_ok (axis_len sh 3) md else true).
(* what it does NOT check: a label list on an array without channel axis, a metadata list on one without epoch axis *)
Definition new_unchecked_ok (sh : list Z) (ch md : option lab) : bool :=
  (if zlen sh >? 1 then true else lab_scalar ch) && (if zlen sh >? 2 then true else lab_scalar md).

(* the annotations the constructor stores *)
Definition new_chan (sh : list Z) (ch : option lab) : lab :=
  match ch with
  | Some c => c
  | None => if zlen sh >? 1 then LMany (repeat none_id (Z.to_nat (axis_len sh 2))) else LOne none_id
  end.
Definition new_meta (sh : list Z) (md : option lab) : lab :=
  match md with
  | Some m => m
  | None => if zlen sh >? 2 then LMany (repeat empty_md (Z.to_nat (axis_len sh 3))) else LOne empty_md
  end.

(* the constructor raises exactly when a supplied channel / metadata list has the wrong length or is a scalar where
   a list is needed - for EVERY shape, data, s0, rate *)
Theorem new_error_iff sh d s fn fd ch md :
  (exists e, pd_new sh d s fn fd ch md = RErr e) <-> new_accepts sh ch md = false.
Proof.
  unfold pd_new, new_accepts, axis_len. destruct (zlen sh >? 1) eqn:E1.
  - destruct ch as [[z|l]|]; cbn [lab_len_ok andb].
    + split; [reflexivity | intros _; eexists; reflexivity].
    + destruct (zlen l =? nth (Z.to_nat (zlen sh - 2)) sh 0) eqn:El; cbn [andb].
      * destruct (zlen sh >? 2) eqn:E2.
        -- destruct md as [[w|m]|]; cbn [lab_len_ok].
           ++ split; [reflexivity | intros _; eexists; reflexivity].
           ++ destruct (zlen m =? nth (Z.to_nat (zlen sh - 3)) sh 0);
                (split; [intros [e H]; discriminate H || reflexivity | intros H; discriminate H || (eexists; reflexivity)]).
           ++ split; [intros [e H]; discriminate H | intros H; discriminate H].
        -- split; [intros [e H]; discriminate H | intros H; discriminate H].
      * split; [reflexivity | intros _; eexists; reflexivity].
    + destruct (zlen sh >? 2) eqn:E2.
      * destruct md as [[w|m]|]; cbn [lab_len_ok].
        -- split; [reflexivity | intros _; eexists; reflexivity].
        -- destruct (zlen m =? nth (Z.to_nat (zlen sh - 3)) sh 0);
             (split; [intros [e H]; discriminate H || reflexivity | intros H; discriminate H || (eexists; reflexivity)]).
        -- split; [intros [e H]; discriminate H | intros H; discriminate H].
      * split; [intros [e H]; discriminate H | intros H; discriminate H].
  - assert (E2 : (zlen sh >? 2) = false) by lia. rewrite E2. cbn [andb].
    split; [intros [e H]; discriminate H | intros H; discriminate H].
Qed.

(* ... and otherwise it returns the array with the data, s0 and rate untouched and the supplied or default
   annotations (never a scalar) *)
Theorem new_result sh d s fn fd ch md : new_accepts sh ch md = true ->
  pd_new sh d s fn fd ch md =
  RArr {| shape := sh; dat := d; s0 := s; fsn := fn; fsd := fd; chan := new_chan sh ch; meta := new_meta sh md |}.
Proof.
  unfold pd_new, new_accepts, new_chan, new_meta, axis_len. destruct (zlen sh >? 1) eqn:E1.
  - destruct ch as [[z|l]|]; cbn [lab_len_ok andb]; try discriminate.
    + destruct (zlen l =? nth (Z.to_nat (zlen sh - 2)) sh 0) eqn:El; cbn [andb]; [|discriminate].
      destruct (zlen sh >? 2) eqn:E2.
      * destruct md as [[w|m]|]; cbn [lab_len_ok]; try discriminate.
        -- destruct (zlen m =? nth (Z.to_nat (zlen sh - 3)) sh 0); [reflexivity|discriminate].
        -- reflexivity.
      * intros _. destruct md; reflexivity.
    + destruct (zlen sh >? 2) eqn:E2.
      * destruct md as [[w|m]|]; cbn [lab_len_ok]; try discriminate.
        -- destruct (zlen m =? nth (Z.to_nat (zlen sh - 3)) sh 0); [reflexivity|discriminate].
        -- reflexivity.
      * intros _. destruct md; reflexivity.
  - assert (E2 : (zlen sh >? 2) = false) by lia. rewrite E2. intros _. destruct ch, md; reflexivity.
Qed.

Lemma new_never_scalar sh d s fn fd ch md v : pd_new sh d s fn fd ch md <> RScalar v.
Proof.
  destruct (new_accepts sh ch md) eqn:E.
  - rewrite new_result by exact E. discriminate.
  - destruct (proj2 (new_error_iff sh d s fn fd ch md) E) as [e0 Ee]. rewrite Ee. discriminate.
Qed.

Lemma zlen_repeat_nat {A} (a : A) n : 0 <= n -> zlen (repeat a (Z.to_nat n)) = n.
Proof. intros H. rewrite zlen_repeat. lia. Qed.

(* every array the constructor returns for an ndarray is inside the domain [wf] of the getitem / concat theorems
   EXCEPT when a label list was supplied for an array without channel axis or a metadata list for one without
   epoch axis (which the constructor does not look at): the exact characterisation *)
Theorem new_wellformed_partial sh d s fn fd ch md p :
  nd_array sh d -> pd_new sh d s fn fd ch md = RArr p ->
  (wf p <-> new_unchecked_ok sh ch md = true).
Proof.
  intros [Hd Hsh] H.
  destruct (new_accepts sh ch md) eqn:Ea.
  2:{ destruct (proj2 (new_error_iff sh d s fn fd ch md) Ea) as [e0 Ee]. rewrite Ee in H. discriminate. }
  rewrite (new_result sh d s fn fd ch md Ea) in H. injection H as <-.
  unfold new_accepts, new_unchecked_ok, new_chan, new_meta, axis_len in *. unfold wf. cbn [shape dat chan meta].
  destruct sh as [|a [|b [|c [|? ?]]]]; cbn [wf_dat] in Hd; try contradiction.
  - (* 1-D *) destruct d as [r| |]; try contradiction.
    change (zlen [a]) with 1 in *. change (1 >? 1) with false in *. change (1 >? 2) with false in *.
    destruct ch as [[z|l]|], md as [[w|m]|]; cbn [lab_scalar andb];
      split; intros G; try discriminate; try contradiction; try reflexivity; try exact Hd.
  - (* 2-D *) destruct d as [|bl|]; try contradiction.
    inversion Hsh as [|? ? Ha Hsh']; subst. inversion Hsh' as [|? ? Hb _]; subst.
    change (zlen [a; b]) with 2 in *. change (2 >? 1) with true in *. change (2 >? 2) with false in *.
    change (nth (Z.to_nat (2 - 2)) [a; b] 0) with a in *.
    destruct ch as [[z|l]|]; cbn [lab_len_ok andb] in Ea; try discriminate.
    + destruct md as [[w|m]|]; cbn [lab_scalar andb]; split; intros G; try discriminate; try contradiction; try reflexivity;
        (split; [exact Hb|split; [exact Hd|lia]]).
    + rewrite zlen_repeat_nat by exact Ha.
      destruct md as [[w|m]|]; cbn [lab_scalar andb]; split; intros G; try discriminate; try contradiction; try reflexivity;
        (split; [exact Hb|split; [exact Hd|reflexivity]]).
  - (* 3-D *) destruct d as [| |e]; try contradiction.
    inversion Hsh as [|? ? Ha Hsh']; subst. inversion Hsh' as [|? ? Hb Hsh'']; subst. inversion Hsh'' as [|? ? Hc _]; subst.
    change (zlen [a; b; c]) with 3 in *. change (3 >? 1) with true in *. change (3 >? 2) with true in *.
    change (nth (Z.to_nat (3 - 2)) [a; b; c] 0) with b in *. change (nth (Z.to_nat (3 - 3)) [a; b; c] 0) with a in *.
    cbn [andb]. split; [intros _; reflexivity|intros _].
    destruct Hd as [Hd1 Hd2].
    destruct ch as [[z|l]|]; cbn [lab_len_ok andb] in Ea; try discriminate.
    + destruct (zlen l =? b) eqn:El; [|discriminate]. cbn [andb] in Ea.
      destruct md as [[w|m]|]; cbn [lab_len_ok] in Ea; try discriminate.
      * repeat split; try assumption; lia.
      * rewrite zlen_repeat_nat by exact Ha. repeat split; try assumption; lia.
    + rewrite zlen_repeat_nat by exact Hb.
      destruct md as [[w|m]|]; cbn [lab_len_ok] in Ea; try discriminate.
      * repeat split; try assumption; lia.
      * rewrite zlen_repeat_nat by exact Ha. repeat split; try assumption; reflexivity.
Qed.

(* in particular: with the defaults, or with lists only where an axis exists, the result is well-formed *)
Corollary new_wellformed_defaults sh d s fn fd p :
  nd_array sh d -> pd_new sh d s fn fd None None = RArr p -> wf p.
Proof.
  intros Hd H. apply (new_wellformed_partial sh d s fn fd None None p Hd H).
  unfold new_unchecked_ok. destruct (zlen sh >? 1), (zlen sh >? 2); reflexivity.
Qed.

(* the full statement "every array a user can construct is well-formed" is FALSE of the code: a 1-D array accepts a
   channel list of any length (and a 1-D / 2-D array a metadata list): PipelineData(np.arange(3), fs=1000,
   channel=['a', 'b']) has two labels for its single channel; x[np.newaxis, :] then raises 'Too many channels' *)
Theorem new_wellformed_refuted :
  exists sh d s fn fd ch md p, nd_array sh d /\ pd_new sh d s fn fd ch md = RArr p /\ ~ wf p /\
    getitem p (tuple [INewaxis; full]) = RErr EValue.
Proof.
  exists [3], (N1 [0; 1; 2]), 0, 1000, 1, (Some (LMany [70; 71])), None.
  eexists. split; [|split; [reflexivity|split]].
  - split; [reflexivity | repeat constructor; lia].
  - unfold wf. cbn. tauto.
  - vm_compute. reflexivity.
Qed.

Example new_ex :
  nd_array [2; 3] (N2 [[0; 1; 2]; [3; 4; 5]]) /\
  new_accepts [2; 3] (Some (LMany [70; 71])) None = true /\ new_unchecked_ok [2; 3] (Some (LMany [70; 71])) None = true /\
  pd_new [2; 3] (N2 [[0; 1; 2]; [3; 4; 5]]) 5 1000 1 (Some (LMany [70; 71])) None =
    mkv [2; 3] [0; 1; 2; 3; 4; 5] 5 1000 1 (LMany [70; 71]) (LOne empty_md) /\
  pd_new [2; 3] (N2 [[0; 1; 2]; [3; 4; 5]]) 5 1000 1 (Some (LMany [70])) None = RErr EValue.
Proof.
  split; [|repeat split; vm_compute; reflexivity].
  split; [|repeat constructor; lia]. cbn [wf_dat]. unfold rect. split; [reflexivity|]. repeat constructor.
Qed.

(* ================================================================== 2. pipeline.concat as called *)
Definition anns (ps : list piece) : list pd := flat_map (fun p => match p with PAnn x => [x] | _ => [] end) ps.
(* the plain ndarray under an annotated array (np.asarray) *)
Definition forget (x : pd) : piece := PPlain (shape x) (dat x).
Definition piece_shape (p : piece) : list Z := match p with PPlain sh _ => sh | PAnn x => shape x end.
Definition piece_dat (p : piece) : nest := match p with PPlain _ d => d | PAnn x => dat x end.
Definition piece_ok (p : piece) : Prop := wf_dat (piece_shape p) (piece_dat p).

Lemma anns_map_ann ps : anns (map PAnn ps) = ps.
Proof. unfold anns. induction ps as [|p ps IH]; [reflexivity|]. cbn [map flat_map app]. now rewrite IH. Qed.
Lemma plain_map_ann ps : existsb is_plain (map PAnn ps) = false.
Proof. induction ps as [|p ps IH]; [reflexivity|]. cbn [map existsb is_plain orb]. exact IH. Qed.
Lemma no_plain_map_ann ps : existsb is_plain ps = false -> ps = map PAnn (anns ps).
Proof.
  unfold anns. induction ps as [|p ps IH]; [reflexivity|]. cbn [existsb]. intros H. apply orb_false_elim in H.
  destruct H as [H1 H2]. destruct p as [sh d|x]; [discriminate H1|]. cbn [flat_map app map]. f_equal. now apply IH.
Qed.
Lemma forallb_plain_exists ps : ps <> [] -> existsb is_plain ps = false -> forallb is_plain ps = false.
Proof.
  destruct ps as [|p ps]; [congruence|]. intros _. cbn [existsb forallb]. intros H. apply orb_false_elim in H.
  destruct H as [-> _]. reflexivity.
Qed.

(* all pieces annotated: pipeline.concat is the annotated concatenation of the existing theorems *)
Theorem concat_any_annotated dm ps : ps <> [] ->
  concat_any (Some dm) (map PAnn ps) = cres_of false (concat_pd dm ps).
Proof.
  intros Hne. unfold concat_any.
  assert (E1 : forallb is_plain (map PAnn ps) = false).
  { apply forallb_plain_exists; [destruct ps; [congruence|discriminate] | apply plain_map_ann]. }
  rewrite E1, plain_map_ann. fold (anns (map PAnn ps)). rewrite anns_map_ann.
  destruct (concat_pd dm ps); reflexivity.
Qed.

(* mixed plain / annotated pieces, an unknown axis name and an empty list of pieces are always refused *)
Theorem concat_any_refuses dm ps :
  (dm = None -> concat_any dm ps = CErr EValue) /\
  (existsb is_plain ps = true -> forallb is_plain ps = false -> concat_any dm ps = CErr EValue) /\
  (ps = [] -> concat_any dm ps = CErr EValue).
Proof.
  split; [|split].
  - intros ->. reflexivity.
  - intros H1 H2. destruct dm as [dm|]; [|reflexivity]. unfold concat_any. now rewrite H2, H1.
  - intros ->. destruct dm; reflexivity.
Qed.

(* whatever concat returns as annotated array came from annotated pieces only *)
Lemma concat_any_ann_inv dm ps r : concat_any dm ps = CAnn r ->
  exists dm0, dm = Some dm0 /\ ps = map PAnn (anns ps) /\ concat_pd dm0 (anns ps) = RArr r.
Proof.
  destruct dm as [dm|]; [|discriminate]. unfold concat_any. intros H. exists dm. split; [reflexivity|].
  destruct (forallb is_plain ps).
  - destruct ps as [|[sh d|x] rest]; try discriminate H.
    destruct (cat_shape dm sh sh); [|discriminate H]. destruct (cat_plain dm sh d rest) as [[? ?]|]; discriminate H.
  - destruct (existsb is_plain ps) eqn:E; [discriminate H|]. split; [now apply no_plain_map_ann|].
    fold (anns ps) in H. destruct (concat_pd dm (anns ps)); try discriminate H. now injection H as <-.
Qed.

(* the "rejects" theorem of Props/C11.v lifted to pipeline.concat: an annotated result means that every piece was
   annotated and the pieces are consistent (adjacent in time, same rate, labels, metadata, dimensionality) *)
Theorem concat_any_rejects ps r :
  Forall (fun p => match p with PAnn x => wf x | PPlain _ _ => True end) ps ->
  concat_any (Some DTime) ps = CAnn r ->
  exists base rest, ps = map PAnn (base :: rest) /\ consistent base rest /\
    s0 r = s0 base /\ fsn r = fsn base /\ fsd r = fsd base /\ chan r = chan base /\ meta r = meta base.
Proof.
  intros Hwf H. destruct (concat_any_ann_inv _ _ _ H) as (dm0 & Edm & Eps & Hc). injection Edm as <-.
  assert (Hwf' : Forall wf (anns ps)).
  { rewrite Eps in Hwf. rewrite Forall_forall in Hwf |- *. intros x Hx. apply (Hwf (PAnn x)). now apply in_map. }
  destruct (concat_rejects (anns ps) r Hwf' Hc) as (base & rest & E & Hcons & Hr).
  exists base, rest. rewrite <- E. split; [exact Eps|]. split; [exact Hcons|exact Hr].
Qed.

(* ---- plain pieces: np.concatenate ---- *)
Lemma cat_plain_forget dm : forall ps sh d, cat_plain dm sh d (map forget ps) = cat_all dm sh d ps.
Proof.
  induction ps as [|p ps IH]; intros sh d; [reflexivity|]. cbn [map forget cat_plain cat_all].
  destruct (cat_shape dm sh (shape p)); [|reflexivity]. destruct (cat2 dm d (dat p)); [|reflexivity]. apply IH.
Qed.
Lemma forallb_plain_forget ps : forallb is_plain (map forget ps) = true.
Proof. induction ps as [|p ps IH]; [reflexivity|]. cbn [map forget forallb is_plain andb]. exact IH. Qed.
Lemma cat_shape_self sh : (1 <= length sh <= 3)%nat -> exists s, cat_shape DTime sh sh = Some s.
Proof.
  intros H. destruct sh as [|a [|b [|c [|? ?]]]]; cbn [length] in H; try lia;
    unfold cat_shape; cbn [rev app axis_back cat_shape_rev eqb_listZ]; rewrite ?Z.eqb_refl;
    cbn [andb length Nat.leb]; eexists; reflexivity.
Qed.

(* forgetting the annotations commutes with concatenation along time: the plain arrays under annotated pieces
   concatenate to the plain array under the annotated result *)
Theorem concat_any_forget ps r :
  Forall wf ps -> concat_pd DTime ps = RArr r ->
  concat_any (Some DTime) (map forget ps) = CPlain (shape r) (dat r).
Proof.
  intros Hwf H. destruct ps as [|base rest]; [discriminate H|].
  unfold concat_pd in H. rewrite ensure_dim_time in H by (assumption || discriminate).
  destruct (forallb (fun a => ndim a =? ndim base) rest); [|discriminate H].
  destruct (forallb (same_fs base) rest); [|discriminate H].
  destruct (contiguous_from (s0 base + n_time base) rest); [|discriminate H].
  cbn [negb] in H.
  destruct (forallb (fun a => eqb_lab (chan a) (chan base)) rest); [|discriminate H].
  destruct (forallb (fun a => eqb_lab (meta a) (meta base)) rest); [|discriminate H].
  destruct (cat_all DTime (shape base) (dat base) rest) as [[sh d]|] eqn:Ec; [|discriminate H].
  destruct (ctor_ok sh (chan base) (meta base)); [|discriminate H].
  injection H as <-. cbn [shape dat].
  unfold concat_any. rewrite forallb_plain_forget. cbn [map forget].
  destruct (cat_shape_self (shape base) (shape_length base (Forall_inv Hwf))) as [s ->].
  now rewrite cat_plain_forget, Ec.
Qed.

(* the "restores" theorem of Props/C11.v lifted to pipeline.concat: ANY split of the time axis into adjacent pieces
   concatenates back to the original annotated array, and the plain arrays under the pieces to its plain array *)
Theorem concat_any_restores x cuts :
  wf x -> cuts <> [] -> cuts_ok 0 cuts (n_time x) ->
  exists ps, all_arrays (map (getitem x) (piece_indices 0 cuts)) = inr ps /\ Forall wf ps /\
             concat_any (Some DTime) (map PAnn ps) = CAnn x /\
             concat_any (Some DTime) (map forget ps) = CPlain (shape x) (dat x).
Proof.
  intros Hwf Hne Hc. destruct (concat_restores x cuts Hwf Hne Hc) as (ps & E & Hps & Hcat).
  exists ps. split; [exact E|]. split; [exact Hps|]. split.
  - rewrite concat_any_annotated; [now rewrite Hcat|]. intros ->. discriminate Hcat.
  - apply concat_any_forget; assumption.
Qed.

(* ---- what np.concatenate along time does: the shape law and the data ---- *)
Lemma zip_with_nil_r {A} (f : A -> A -> A) a : zip_with f a [] = [].
Proof. destruct a; reflexivity. Qed.
Lemma zip_with_app {A} (f : A -> A -> A) : forall a b a' b', length a = length b ->
  zip_with f (a ++ a') (b ++ b') = zip_with f a b ++ zip_with f a' b'.
Proof.
  induction a as [|x a IH]; intros [|y b] a' b' H; cbn [length] in H; try discriminate; [reflexivity|].
  cbn [app zip_with]. f_equal. apply IH. lia.
Qed.
Lemma zlen_zip_with {A} (f : A -> A -> A) : forall a b, zlen a = zlen b -> zlen (zip_with f a b) = zlen a.
Proof.
  induction a as [|x a IH]; intros [|y b] H; try reflexivity.
  - rewrite zlen_cons, zlen_nil in H. pose proof (zlen_nonneg a). lia.
  - cbn [zip_with]. rewrite !zlen_cons in *. rewrite IH; lia.
Qed.

Lemma rect_zip c t t' : forall u v, rect c t u -> rect c t' v -> rect c (t + t') (zip_with (@app Z) u v).
Proof.
  unfold rect. intros u v [H1 H2] [H3 H4]. split.
  - rewrite zlen_zip_with; lia.
  - clear H1 H3. revert v H4. induction H2 as [|r u Hr Hu IH]; intros v H4; [constructor|].
    destruct H4 as [|r' v Hr' Hv]; [constructor|]. cbn [zip_with]. constructor; [rewrite zlen_app; lia|now apply IH].
Qed.
Lemma concat_zip_rect c t t' : forall u v, Forall (rect c t) u -> Forall (rect c t') v ->
  concat (zip_with (zip_with (@app Z)) u v) = zip_with (@app Z) (concat u) (concat v).
Proof.
  induction u as [|ub u IH]; intros [|vb v] Hu Hv; cbn [zip_with concat]; try reflexivity.
  - now rewrite zip_with_nil_r.
  - inversion Hu as [|? ? [Hu1 _] Hu2]; subst. inversion Hv as [|? ? [Hv1 _] Hv2]; subst.
    rewrite zip_with_app by (apply zlen_length_eq; lia). f_equal. now apply IH.
Qed.
Lemma Forall_rect_zip c t t' : forall u v, Forall (rect c t) u -> Forall (rect c t') v ->
  Forall (rect c (t + t')) (zip_with (zip_with (@app Z)) u v).
Proof.
  induction u as [|ub u IH]; intros [|vb v] Hu Hv; cbn [zip_with]; try constructor.
  - inversion Hu; subst. inversion Hv; subst. now apply rect_zip.
  - inversion Hu; subst. inversion Hv; subst. now apply IH.
Qed.
(* one np.concatenate step along time on two well-shaped arrays *)
Lemma cat_time_step sh1 d1 sh2 d2 sh' d' :
  wf_dat sh1 d1 -> wf_dat sh2 d2 -> cat_shape DTime sh1 sh2 = Some sh' -> cat2 DTime d1 d2 = Some d' ->
  removelast sh2 = removelast sh1 /\ sh' = set_time sh1 (last sh1 0 + last sh2 0) /\ wf_dat sh' d' /\
  rows d' = zip_with (@app Z) (rows d1) (rows d2).
Proof.
  intros W1 W2 Hs Hd. unfold set_time.
  destruct sh1 as [|a1 [|b1 [|c1 [|? ?]]]]; cbn [wf_dat] in W1; try contradiction;
    destruct d1 as [r1|u1|e1]; try contradiction;
    destruct sh2 as [|a2 [|b2 [|c2 [|? ?]]]]; cbn [wf_dat] in W2; try contradiction;
    destruct d2 as [r2|u2|e2]; try contradiction; try discriminate Hd;
    unfold cat_shape in Hs; cbn [rev app axis_back cat_shape_rev eqb_listZ] in Hs.
  - (* 1-D *) cbn [length Nat.leb rev app] in Hs. injection Hs as <-. injection Hd as <-.
    cbn [removelast last app wf_dat rows zip_with].
    split; [reflexivity|split; [reflexivity|split; [rewrite zlen_app; lia|reflexivity]]].
  - (* 2-D *) destruct ((a1 =? a2) && true) eqn:E; [|discriminate Hs].
    cbn [length Nat.leb rev app] in Hs. injection Hs as <-. injection Hd as <-.
    assert (a2 = a1) by lia. subst a2.
    cbn [removelast last app wf_dat rows].
    split; [reflexivity|split; [reflexivity|split; [now apply rect_zip|reflexivity]]].
  - (* 3-D *) destruct ((b1 =? b2) && ((a1 =? a2) && true)) eqn:E; [|discriminate Hs].
    cbn [length Nat.leb rev app] in Hs. injection Hs as <-. injection Hd as <-.
    assert (a2 = a1) by lia. assert (b2 = b1) by lia. subst a2 b2.
    destruct W1 as [W1a W1b], W2 as [W2a W2b].
    cbn [removelast last app wf_dat rows].
    split; [reflexivity|split; [reflexivity|split; [split|]]].
    + rewrite zlen_zip_with; lia.
    + now apply Forall_rect_zip.
    + now apply (concat_zip_rect b1 c1 c2).
Qed.

(* total length of the time axis / the rows of the result, piece after piece *)
Fixpoint time_total (n : Z) (ps : list piece) : Z :=
  match ps with [] => n | p :: t => time_total (n + last (piece_shape p) 0) t end.
Fixpoint cat_rows (acc : list (list Z)) (ps : list piece) : list (list Z) :=
  match ps with [] => acc | p :: t => cat_rows (zip_with (@app Z) acc (rows (piece_dat p))) t end.

Lemma removelast_set_time sh n : removelast (set_time sh n) = removelast sh.
Proof. unfold set_time. apply removelast_last. Qed.
Lemma last_set_time sh n : last (set_time sh n) 0 = n.
Proof. unfold set_time. apply last_last. Qed.
Lemma set_time_set_time sh n m : set_time (set_time sh n) m = set_time sh m.
Proof. unfold set_time at 1. now rewrite removelast_set_time. Qed.

Lemma cat_plain_time_spec : forall rest sh d sh' d',
  wf_dat sh d -> Forall piece_ok rest -> cat_plain DTime sh d rest = Some (sh', d') ->
  Forall (fun p => is_plain p = true /\ removelast (piece_shape p) = removelast sh) rest /\
  sh' = set_time sh (time_total (last sh 0) rest) /\ wf_dat sh' d' /\ rows d' = cat_rows (rows d) rest.
Proof.
  induction rest as [|p rest IH]; intros sh d sh' d' W Hok H.
  - cbn [cat_plain] in H. injection H as <- <-. cbn [time_total cat_rows]. split; [constructor|].
    split; [|split; [exact W|reflexivity]].
    unfold set_time. destruct sh as [|a sh] using rev_ind; [destruct d; contradiction|].
    now rewrite removelast_last, last_last.
  - destruct p as [sh2 d2|x]; [|discriminate H]. cbn [cat_plain] in H.
    destruct (cat_shape DTime sh sh2) as [sh1|] eqn:Es; [|discriminate H].
    destruct (cat2 DTime d d2) as [d1|] eqn:Ed; [|discriminate H].
    inversion Hok as [|? ? Hp Hok']; subst. unfold piece_ok in Hp. cbn [piece_shape piece_dat] in Hp.
    destruct (cat_time_step sh d sh2 d2 sh1 d1 W Hp Es Ed) as (R1 & R2 & R3 & R4).
    destruct (IH sh1 d1 sh' d' R3 Hok' H) as (I1 & I2 & I3 & I4).
    subst sh1. rewrite removelast_set_time in I1. rewrite last_set_time, set_time_set_time in I2.
    cbn [time_total cat_rows piece_shape piece_dat]. split; [|split; [exact I2|split; [exact I3|now rewrite I4, R4]]].
    constructor; [split; [reflexivity|exact R1]|exact I1].
Qed.

(* all pieces plain: pipeline.concat is np.concatenate - whenever it returns, every piece had the shape of the first
   one except along time, the time axis of the result is the sum of the time axes, the result is well-shaped, and
   every row of the result is the concatenation of the corresponding rows of the pieces, in order *)
Theorem concat_any_plain_time sh d rest sh' d' :
  wf_dat sh d -> Forall piece_ok rest ->
  concat_any (Some DTime) (PPlain sh d :: rest) = CPlain sh' d' ->
  Forall (fun p => is_plain p = true /\ removelast (piece_shape p) = removelast sh) rest /\
  sh' = set_time sh (time_total (last sh 0) rest) /\ wf_dat sh' d' /\ rows d' = cat_rows (rows d) rest.
Proof.
  intros W Hok H. unfold concat_any in H.
  destruct (forallb is_plain (PPlain sh d :: rest)).
  - destruct (cat_shape DTime sh sh); [|discriminate H].
    destruct (cat_plain DTime sh d rest) as [[s1 d1]|] eqn:E; [|discriminate H].
    injection H as <- <-. now apply cat_plain_time_spec.
  - destruct (existsb is_plain (PPlain sh d :: rest)); [discriminate H|].
    destruct (concat_pd DTime _); discriminate H.
Qed.

(* ... and it returns whenever the shapes agree off the time axis *)
Lemma cat_time_accepts sh1 d1 sh2 d2 :
  wf_dat sh1 d1 -> wf_dat sh2 d2 -> removelast sh2 = removelast sh1 ->
  exists sh' d', cat_shape DTime sh1 sh2 = Some sh' /\ cat2 DTime d1 d2 = Some d'.
Proof.
  intros W1 W2 Hr.
  destruct sh1 as [|a1 [|b1 [|c1 [|? ?]]]]; cbn [wf_dat] in W1; try contradiction;
    destruct d1 as [r1|u1|e1]; try contradiction;
    destruct sh2 as [|a2 [|b2 [|c2 [|? ?]]]]; cbn [wf_dat] in W2; try contradiction;
    destruct d2 as [r2|u2|e2]; try contradiction; cbn [removelast] in Hr; try discriminate Hr;
    unfold cat_shape; cbn [rev app axis_back cat_shape_rev eqb_listZ cat2].
  - cbn [length Nat.leb]. eexists. eexists. split; reflexivity.
  - injection Hr as ->. rewrite Z.eqb_refl. cbn [andb length Nat.leb]. eexists. eexists. split; reflexivity.
  - injection Hr as -> ->. rewrite !Z.eqb_refl. cbn [andb length Nat.leb]. eexists. eexists. split; reflexivity.
Qed.

Theorem concat_any_plain_time_accepts : forall rest sh d,
  wf_dat sh d -> Forall piece_ok rest ->
  Forall (fun p => is_plain p = true /\ removelast (piece_shape p) = removelast sh) rest ->
  exists sh' d', concat_any (Some DTime) (PPlain sh d :: rest) = CPlain sh' d'.
Proof.
  intros rest sh d W Hok Hsh.
  assert (Hall : forallb is_plain (PPlain sh d :: rest) = true).
  { cbn [forallb is_plain andb]. apply forallb_forall. intros p Hp. rewrite Forall_forall in Hsh. now apply Hsh. }
  unfold concat_any. rewrite Hall.
  destruct (cat_time_accepts sh d sh d W W eq_refl) as (s0' & _ & -> & _).
  assert (G : exists sh' d', cat_plain DTime sh d rest = Some (sh', d')).
  { clear Hall s0'. revert sh d W Hsh. induction rest as [|p rest IH]; intros sh d W Hsh.
    - eexists. eexists. reflexivity.
    - inversion Hok as [|? ? Hp Hok']; subst. inversion Hsh as [|? ? [Hp1 Hp2] Hsh']; subst.
      destruct p as [sh2 d2|x]; [|discriminate Hp1]. cbn [piece_shape] in Hp2. unfold piece_ok in Hp.
      cbn [piece_shape piece_dat] in Hp.
      destruct (cat_time_accepts sh d sh2 d2 W Hp Hp2) as (sh1 & d1 & Es & Ed).
      cbn [cat_plain]. rewrite Es, Ed.
      destruct (cat_time_step sh d sh2 d2 sh1 d1 W Hp Es Ed) as (_ & R2 & R3 & _).
      apply (IH Hok' sh1 d1 R3). subst sh1. rewrite removelast_set_time. exact Hsh'. }
  destruct G as (sh' & d' & ->). eexists. eexists. reflexivity.
Qed.

Example concat_any_ex :
  let a := PPlain [2; 2] (N2 [[0; 1]; [2; 3]]) in
  let b := PPlain [2; 1] (N2 [[4]; [5]]) in
  wf_dat [2; 2] (N2 [[0; 1]; [2; 3]]) /\ Forall piece_ok [b] /\
  concat_any (Some DTime) [a; b] = CPlain [2; 3] (N2 [[0; 1; 4]; [2; 3; 5]]) /\
  concat_any (Some DTime) [a; PAnn (mk [2; 1] 0 1000 1 (LMany [70; 71]) (LOne 90))] = CErr EValue /\
  concat_any None [a; b] = CErr EValue.
Proof.
  cbn zeta. split; [|split; [|repeat split; vm_compute; reflexivity]].
  - cbn [wf_dat]. split; [reflexivity|repeat constructor].
  - constructor; [|constructor]. unfold piece_ok. cbn [piece_shape piece_dat wf_dat]. split; [reflexivity|repeat constructor].
Qed.

(* ================================================================== 3. elementwise operations commute with indexing *)
Definition map_res (f : Z -> Z) (r : res) : res :=
  match r with RArr p => RArr (map_data f p) | RScalar v => RScalar (f v) | RErr e => RErr e end.
Definition map_np (f : Z -> Z) (r : npres) : npres :=
  match r with NPErr => NPErr | NPScalar v => NPScalar (f v) | NPArr sh d => NPArr sh (map_nest f d) | NPBig sh => NPBig sh end.

(* NumPy reads the index expression on an nd-dimensional array per axis (the class of Spec.denotes), or refuses it *)
Definition regular_its (nd : Z) (its : list item) : bool :=
  match np_expand nd its with
  | Some ex => let '(k, per) := strip_new ex in regular_per per && (k + nd <=? 3)
  | None => true
  end.
(* every expression of a chain is read per axis by the array it is applied to *)
Fixpoint regular_chain (rep : bool) (x : pd) (ixs : list index) : bool :=
  match ixs with
  | [] => true
  | ix :: t => regular_its (ndim x) (items ix) &&
               match getitem_gen rep x ix with RArr y => regular_chain rep y t | _ => true end
  end.

Lemma denotes_regular nd ix k per : denotes nd ix k per -> regular_its nd (items ix) = true.
Proof.
  intros (ex & E1 & E2 & E3 & E4). unfold regular_its. rewrite E1, E2, E3. cbn [andb]. lia.
Qed.

(* ---- selections commute with map ---- *)
Lemma every_nth_map {A B} (g : A -> B) s : forall l k, every_nth_aux k s (map g l) = map g (every_nth_aux k s l).
Proof. induction l as [|x l IH]; intros k; [reflexivity|]. cbn [map every_nth_aux]. destruct k; cbn [map]; now rewrite IH. Qed.
Lemma py_slice_map {A B} (g : A -> B) a b l : py_slice a b (map g l) = map g (py_slice a b l).
Proof. unfold py_slice. rewrite zlen_map. now rewrite skipn_map, firstn_map. Qed.
Lemma py_slice_step_map {A B} (g : A -> B) a b s l : py_slice_step a b s (map g l) = map g (py_slice_step a b s l).
Proof. unfold py_slice_step. now rewrite py_slice_map, every_nth_map. Qed.
Lemma mask_sel_map {A B} (g : A -> B) : forall bs l, mask_sel bs (map g l) = map g (mask_sel bs l).
Proof.
  induction bs as [|b bs IH]; intros [|x l]; try reflexivity. cbn [map mask_sel]. destruct b; cbn [map]; now rewrite IH.
Qed.
Lemma py_index_map {A B} (g : A -> B) d l z : py_index (g d) (map g l) z = g (py_index d l z).
Proof. unfold py_index. rewrite zlen_map. apply map_nth. Qed.
Lemma take_sel_map {A B} (g : A -> B) d it l : take_sel (g d) it (map g l) = map g (take_sel d it l).
Proof.
  destruct it; cbn [take_sel]; try reflexivity.
  - apply py_slice_step_map.
  - rewrite map_map. apply map_ext. intros z. apply py_index_map.
  - apply mask_sel_map.
Qed.

Section MapCommutes.
Variable f : Z -> Z.

Lemma sel_t_map it row : f 0 = 0 \/ is_slice it = true -> sel_t it (map f row) = map f (sel_t it row).
Proof.
  unfold sel_t. intros [H|H].
  - rewrite <- H at 1. apply take_sel_map.
  - destruct it; try discriminate H. cbn [take_sel]. apply py_slice_step_map.
Qed.

Lemma py_index_rows (blk : list (list Z)) z : py_index [] (map (map f) blk) z = map f (py_index [] blk z).
Proof. change (@nil Z) with (map f []) at 1. apply py_index_map. Qed.
Lemma py_index_blks (e : list (list (list Z))) z : py_index [] (map (map (map f)) e) z = map (map f) (py_index [] e z).
Proof. change (@nil (list Z)) with (map (map f) []) at 1. apply py_index_map. Qed.
Lemma take_sel_rows it (blk : list (list Z)) : take_sel [] it (map (map f) blk) = map (map f) (take_sel [] it blk).
Proof. change (@nil Z) with (map f []) at 1. apply take_sel_map. Qed.
Lemma take_sel_blks it (e : list (list (list Z))) : take_sel [] it (map (map (map f)) e) = map (map (map f)) (take_sel [] it e).
Proof. change (@nil (list Z)) with (map (map f) []) at 1. apply take_sel_map. Qed.

Lemma sel_c_map ic it blk : f 0 = 0 \/ is_slice it = true ->
  sel_c ic it (map (map f) blk) = map_nest f (sel_c ic it blk).
Proof.
  intros H. assert (G : N2 (map (sel_t it) (take_sel [] ic (map (map f) blk))) =
                        map_nest f (N2 (map (sel_t it) (take_sel [] ic blk)))).
  { cbn [map_nest]. rewrite take_sel_rows, !map_map. f_equal. apply map_ext. intros r. now apply sel_t_map. }
  destruct ic; cbn [sel_c]; try exact G.
  rewrite py_index_rows. cbn [map_nest]. f_equal. now apply sel_t_map.
Qed.

Lemma sel_e_map ie ic it e : f 0 = 0 \/ is_slice it = true ->
  sel_e ie ic it (map (map (map f)) e) = map_nest f (sel_e ie ic it e).
Proof.
  intros H.
  assert (G : (let blks := take_sel [] ie (map (map (map f)) e) in
               match ic with
               | IInt z => N2 (map (fun blk => sel_t it (py_index [] blk z)) blks)
               | _ => N3 (map (fun blk => map (sel_t it) (take_sel [] ic blk)) blks)
               end) =
              map_nest f (let blks := take_sel [] ie e in
                          match ic with
                          | IInt z => N2 (map (fun blk => sel_t it (py_index [] blk z)) blks)
                          | _ => N3 (map (fun blk => map (sel_t it) (take_sel [] ic blk)) blks)
                          end)).
  { cbn zeta. rewrite take_sel_blks.
    assert (G3 : N3 (map (fun blk => map (sel_t it) (take_sel [] ic blk)) (map (map (map f)) (take_sel [] ie e))) =
                 map_nest f (N3 (map (fun blk => map (sel_t it) (take_sel [] ic blk)) (take_sel [] ie e)))).
    { cbn [map_nest]. rewrite !map_map. f_equal. apply map_ext. intros blk.
      rewrite take_sel_rows, !map_map. apply map_ext. intros r. now apply sel_t_map. }
    destruct ic; try exact G3.
    cbn [map_nest]. rewrite !map_map. f_equal. apply map_ext. intros blk. rewrite py_index_rows. now apply sel_t_map. }
  destruct ie; cbn [sel_e]; try exact G.
  rewrite py_index_blks. now apply sel_c_map.
Qed.

Lemma np_regular_map d per : f 0 = 0 \/ is_slice (last per IEllipsis) = true ->
  np_regular (map_nest f d) per = option_map (map_nest f) (np_regular d per).
Proof.
  intros H. destruct d as [r|b|e]; cbn [map_nest np_regular].
  - destruct per as [|it [|? ?]]; try reflexivity. cbn [option_map map_nest last] in *. do 2 f_equal. now apply sel_t_map.
  - destruct per as [|ic [|it [|? ?]]]; try reflexivity. cbn [option_map last] in *. f_equal. now apply sel_c_map.
  - destruct per as [|ie [|ic [|it [|? ?]]]]; try reflexivity. cbn [option_map last] in *. f_equal. now apply sel_e_map.
Qed.

Lemma wrap_new_map k d : wrap_new k (map_nest f d) = option_map (map_nest f) (wrap_new k d).
Proof.
  unfold wrap_new. destruct (k =? 0); [reflexivity|].
  destruct d; cbn [map_nest]; [destruct (k =? 1); [|destruct (k =? 2)] | destruct (k =? 1) |]; reflexivity.
Qed.

Lemma flat_map_nest d : flat (map_nest f d) = map f (flat d).
Proof. destruct d; cbn [flat map_nest]; [reflexivity | now rewrite concat_map | now rewrite !concat_map]. Qed.

Lemma chunks_map {A B} (g : A -> B) n : forall k l, chunks k n (map g l) = map (map g) (chunks k n l).
Proof. induction k as [|k IH]; intros l; [reflexivity|]. cbn [chunks map]. now rewrite firstn_map, skipn_map, IH. Qed.

Lemma renest_map sh vals : f 0 = 0 -> renest sh (map f vals) = map_np f (renest sh vals).
Proof.
  intros H0. destruct sh as [|a [|b [|c [|? ?]]]]; cbn [renest map_np map_nest]; try reflexivity.
  - destruct vals; cbn [map hd]; now rewrite ?H0.
  - now rewrite chunks_map.
  - rewrite chunks_map, !map_map. do 2 f_equal. apply map_ext. intros l. apply chunks_map.
Qed.

Lemma gather_map (fl offs : list Z) : f 0 = 0 ->
  map (fun o => nth (Z.to_nat o) (map f fl) 0) offs = map f (map (fun o => nth (Z.to_nat o) fl 0) offs).
Proof. intros H0. rewrite map_map. apply map_ext. intros o. rewrite <- H0 at 1. apply map_nth. Qed.

Lemma np_general_map sh d orig its : f 0 = 0 ->
  np_general sh (map_nest f d) orig its = map_np f (np_general sh d orig its).
Proof.
  intros H0. unfold np_general. destruct (gsels its sh (strides sh)) as [gs|]; [|reflexivity].
  cbn zeta. rewrite flat_map_nest.
  assert (G : forall base gens,
    renest (map zlen gens) (map (fun o => nth (Z.to_nat o) (map f (flat d)) 0) (cart base gens)) =
    map_np f (renest (map zlen gens) (map (fun o => nth (Z.to_nat o) (flat d) 0) (cart base gens)))).
  { intros base gens. rewrite gather_map by exact H0. now apply renest_map. }
  destruct (existsb g_is_arr gs); [|apply G].
  destruct (bcast (adv_lens gs)) as [B|]; [|reflexivity].
  destruct ((B =? 0) || lists_ok its sh); [|reflexivity].
  destruct (adjacent_items 0 orig); apply G.
Qed.

Lemma np_getitem_map sh d its : f 0 = 0 \/ regular_its (zlen sh) its = true ->
  np_getitem sh (map_nest f d) its = map_np f (np_getitem sh d its).
Proof.
  intros H. unfold np_getitem, regular_its in *. destruct (np_expand (zlen sh) its) as [ex|]; [|reflexivity].
  destruct (strip_new ex) as [k per].
  destruct (regular_per per && (k + zlen sh <=? 3)) eqn:E.
  - assert (Hs : f 0 = 0 \/ is_slice (last per IEllipsis) = true).
    { destruct H as [H|_]; [now left|right]. unfold regular_per in E. apply andb_prop in E. destruct E as [E _].
      apply andb_prop in E. destruct E as [E _]. apply andb_prop in E. now destruct E as [_ E]. }
    destruct (all_ok per sh); [|reflexivity]. rewrite np_regular_map by exact Hs.
    destruct (np_regular d per) as [r|]; [|reflexivity]. cbn [option_map]. rewrite wrap_new_map.
    destruct (wrap_new k r); reflexivity.
  - destruct H as [H|H]; [|discriminate H]. now apply np_general_map.
Qed.

(* one index expression: x[ix] after an elementwise operation = the operation after x[ix] - data, shape, s0, rate,
   labels, metadata, scalars and every raised error alike *)
Lemma getitem_gen_map rep x ix : f 0 = 0 \/ regular_its (ndim x) (items ix) = true ->
  getitem_gen rep (map_data f x) ix = map_res f (getitem_gen rep x ix).
Proof.
  intros H. unfold getitem_gen. change (shape (map_data f x)) with (shape x).
  change (dat (map_data f x)) with (map_nest f (dat x)). change (ndim (map_data f x)) with (ndim x).
  change (chan (map_data f x)) with (chan x). change (meta (map_data f x)) with (meta x).
  rewrite np_getitem_map by exact H.
  destruct (np_getitem (shape x) (dat x) (items ix)) as [|v|sh d|sh]; cbn [map_np].
  - reflexivity.
  - destruct (existsb is_ell (items ix)); [|reflexivity].
    destruct (normalize_index rep ix (ndim x)) as [e|s]; [reflexivity|].
    destruct (split3 s) as [[[es cs] ts]|]; [|reflexivity].
    change (fix_time rep (map_data f x) ts) with (fix_time rep x ts). destruct (fix_time rep x ts); reflexivity.
  - destruct (normalize_index rep ix (ndim x)) as [e|s]; [reflexivity|].
    destruct (split3 s) as [[[es cs] ts]|]; [|reflexivity].
    change (fix_time rep (map_data f x) ts) with (fix_time rep x ts).
    destruct (fix_time rep x ts) as [e|[s0' fsd']]; [reflexivity|].
    destruct (fix_chan rep cs (finalize_chan (chan x) sh)); [reflexivity|].
    destruct (fix_meta es (meta x)); reflexivity.
  - destruct (normalize_index rep ix (ndim x)); reflexivity.
Qed.

(* chains of index expressions *)
Theorem getitems_map rep : forall ixs x, f 0 = 0 \/ regular_chain rep x ixs = true ->
  getitems rep (map_data f x) ixs = map_res f (getitems rep x ixs).
Proof.
  induction ixs as [|ix t IH]; intros x H; [reflexivity|].
  cbn [getitems]. rewrite getitem_gen_map.
  - destruct (getitem_gen rep x ix) as [y|v|e] eqn:E; cbn [map_res]; try reflexivity.
    apply IH. destruct H as [H|H]; [now left|right]. cbn [regular_chain] in H. rewrite E in H.
    apply andb_prop in H. now destruct H.
  - destruct H as [H|H]; [now left|right]. cbn [regular_chain] in H. apply andb_prop in H. now destruct H.
Qed.
End MapCommutes.

(* the elementwise operations of the audit's check_op_getitems (scalar arithmetic, unary functions, copy / astype,
   comparison): on the class of index expressions of the C11 getitem theorems they ALL commute with indexing ... *)
Theorem op_getitems_commute rep o x ixs : regular_chain rep x ixs = true ->
  getitems rep (map_data (uop_fun o) x) ixs = map_res (uop_fun o) (getitems rep x ixs).
Proof. intros H. apply getitems_map. now right. Qed.

(* ... and those that map 0 to 0 (x * k, -x, abs(x), copy, astype) commute with EVERY index expression of the
   language - paired lists / masks on several axes, results of more than 3 dimensions, scalars and errors included -
   on every array, well-formed or not *)
Definition zero_preserving (o : uop) : bool :=
  match o with UMul _ | UNeg | UAbs | UCopy => true | _ => false end.
Theorem op_getitems_commute_any rep o x ixs : zero_preserving o = true ->
  getitems rep (map_data (uop_fun o) x) ixs = map_res (uop_fun o) (getitems rep x ixs).
Proof.
  intros H. apply getitems_map. left. destruct o; try discriminate H; cbn [uop_fun]; lia.
Qed.

(* one expression of the class [denotes], stated with the vocabulary of Props/C11.v *)
Corollary op_getitem_commute f x ix k per : denotes (ndim x) ix k per ->
  getitem (map_data f x) ix = map_res f (getitem x ix).
Proof. intros H. apply getitem_gen_map. right. eapply denotes_regular; exact H. Qed.

(* consequently the annotations of (op x)[ixs] are those of x[ixs], and each element is the image of the element
   at the same place *)
Corollary op_preserves_annotation rep o x ixs r : regular_chain rep x ixs = true ->
  getitems rep (map_data (uop_fun o) x) ixs = RArr r ->
  exists r0, getitems rep x ixs = RArr r0 /\ shape r = shape r0 /\ s0 r = s0 r0 /\ fsn r = fsn r0 /\ fsd r = fsd r0 /\
             chan r = chan r0 /\ meta r = meta r0 /\ dat r = map_nest (uop_fun o) (dat r0).
Proof.
  intros Hc H. rewrite op_getitems_commute in H by exact Hc.
  destruct (getitems rep x ixs) as [r0|v|e]; cbn [map_res] in H; try discriminate H.
  injection H as <-. exists r0. repeat split; reflexivity.
Qed.

(* for an operation that does not fix 0 the commutation on index expressions OUTSIDE the per-axis class needs the
   array to be well-formed: on an ill-formed record the model's gather reads its default element *)
Theorem op_getitems_illformed_refuted :
  exists x ix, regular_its (ndim x) (items ix) = false /\ ~ wf x /\
    getitem (map_data (uop_fun (UAdd 5)) x) ix <> map_res (uop_fun (UAdd 5)) (getitem x ix).
Proof.
  (* (witness changed with fix-C11idx: x[[2]] on a 1-D record is now refused before the data are looked at) *)
  exists {| shape := [2; 3]; dat := N2 [[1]]; s0 := 0; fsn := 1000; fsd := 1; chan := LMany [70; 71]; meta := LOne 90 |},
         (tuple [IInt 1; IInt 2]).
  split; [vm_compute; reflexivity|]. split; [|vm_compute; discriminate].
  unfold wf, rect. cbn. intros (_ & (H & _) & _). discriminate H.
Qed.

Example op_getitems_ex :
  let x := mk [2; 3; 4] (-3) 1000 1 (LMany [70; 71; 72]) (LMany [90; 91]) in
  let ixs := [tuple [IMask [true; false] true; ISlice (Some 1) None None; ISlice (Some (-9)) None (Some 2)];
              tuple [IInt 0; IEllipsis; ISlice (Some 1) None None]] in
  wf x /\ regular_chain true x ixs = true /\
  getitems true (map_data (uop_fun (URsub 100)) x) ixs = mkv [2; 1] [94; 90] (-2) 1000 2 (LMany [71; 72]) (LOne 90).
Proof.
  cbn zeta. split; [|split; vm_compute; reflexivity].
  unfold wf. cbn. repeat split; try lia; repeat constructor.
Qed.
