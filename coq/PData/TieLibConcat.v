(* Vocabulary of the translator tie for pipeline.concat / ensure_dim (C11), in addition to PData/TieLib.v.  Definitions only.
   Pieces are ANNOTATED arrays (records pd); the plain-ndarray path of concat (np.concatenate on the caller's arrays) is not
   translated.  np.concatenate on the data and the constructor PipelineData(..) are the modelled primitives cat_all /
   ctor_ok of PData/Model.v. *)
From PV Require Export PData.TieLib.

(* the `axis` argument: 'time' / 'channel' / 'epoch', an int, anything else *)
Inductive pyaxis := AxName (d : cdim) | AxInt (z : Z) | AxOther.
Definition dim_of (a : pyaxis) : option cdim :=
  match a with
  | AxName d => Some d
  | AxInt z => if z =? -1 then Some DTime else if z =? -2 then Some DChan else if z =? -3 then Some DEpoch else None
  | AxOther => None
  end.
(* dim_axis(axis) (its text is pinned): the dimension name, or ValueError('Axis not supported') *)
Definition py_dim_axis (a : pyaxis) : gres cdim := match dim_of a with Some d => GOk d | None => GRaise EValue end.
Definition cdim_eqb (a b : cdim) : bool :=
  match a, b with DTime, DTime | DChan, DChan | DEpoch, DEpoch => true | _, _ => false end.

Fixpoint gmap {A B} (f : A -> gres B) (l : list A) : gres (list B) :=
  match l with [] => GOk [] | a :: t => gbind (f a) (fun b => gbind (gmap f t) (fun bs => GOk (b :: bs))) end.
Definition list_hd {A} (l : list A) : gres A := match l with a :: _ => GOk a | [] => GRaise EIndex end.   (* l[0] *)
(* an element of [a[s] for a in arrays] used as an annotated array; a scalar is refused as in the model (all_arrays) *)
Definition obj_as_pd (o : pyobj) : gres pd := match o with OArr p => GOk p | OScal _ => GRaise ETypeKey end.

Definition rate_eqb (a b : Z * Z) : bool := fst a * snd b =? fst b * snd a.          (* a.fs == b.fs, exactly *)
(* [c for array in arrays for c in array.channel]; iterating a scalar label: TypeError (as modelled: merge_labs) *)
Definition labs_concat (ls : list lab) : gres lab :=
  match merge_labs ls with Some l => GOk (LMany l) | None => GRaise ETypeKey end.
(* metadata.extend(l) / metadata.append(l) on the list under construction *)
Definition lab_extend (acc l : lab) : gres lab :=
  match acc, l with
  | LMany xs, LMany ys => GOk (LMany (xs ++ ys))
  | LMany _, LOne _ => GRaise ETypeKey
  | _, _ => GStuck
  end.
Definition lab_append (acc l : lab) : gres lab :=
  match acc, l with LMany xs, LOne z => GOk (LMany (xs ++ [z])) | _, _ => GStuck end.
(* np.concatenate([]): ValueError; with pieces it is np_concatenate_pd below *)
Definition np_concatenate_none (l : list pd) : gres pyobj := match l with [] => GRaise EValue | _ => GStuck end.
(* result = np.concatenate(arrays, axis=axis): shape and data (Model.cat_all); differing dimensions: ValueError *)
Definition np_concatenate_pd (dm : cdim) (l : list pd) : gres (list Z * nest) :=
  match l with
  | base :: rest => match cat_all dm (shape base) (dat base) rest with Some r => GOk r | None => GRaise EValue end
  | [] => GRaise EValue
  end.
(* PipelineData(result, fs=fs, s0=s0, channel=channel, metadata=metadata): the two length checks (Model.ctor_ok) *)
Definition pd_construct (r : list Z * nest) (fs : Z * Z) (s : Z) (ch md : lab) : gres pyobj :=
  if ctor_ok (fst r) ch md
  then GOk (OArr {| shape := fst r; dat := snd r; s0 := s; fsn := fst fs; fsd := snd fs; chan := ch; meta := md |})
  else GRaise EValue.

(* the annotated arrays of a list of results (literals of the self-test) *)
Definition pds (rs : list res) : list pd := flat_map (fun r => match r with RArr p => [p] | _ => [] end) rs.
