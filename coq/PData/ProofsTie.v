(* TRANSLATOR TIE for C11.  coq/gen/PDataGen.v is regenerated from psiaudio/pipeline.py on every run by
   translate/pypdata2coq.py (statement by statement, over the value universe and primitives of PData/TieLib.v).
   Here the generated definitions are proved EQUAL to the hand-written model of PData/Model.v the C11 theorems are
   about.  Stdlib only; everything is closed under the global context. *)
From Coq Require Import ZArith List Bool Lia ZifyBool.
From PV Require Import PData.Model PData.Spec PData.Proofs PData.ProofsX PData.ProofsX2 PData.TieLib gen.PDataGen.
Import ListNotations.
Open Scope Z_scope.

(* ------------------------------------------------------------------ the monad and the loops *)
Lemma gbind_ret A (r : gres A) : gbind r (fun a => GOk a) = r.
Proof. destruct r; reflexivity. Qed.

Lemma giter_append (v : pyval) n : forall l, giter n (fun l => GOk (l ++ [v])) l = GOk (l ++ rep_range v n).
Proof.
  unfold giter, rep_range. induction (Z.to_nat n) as [|k IH]; intros l; cbn [repeat gfold gbind].
  - now rewrite app_nil_r.
  - rewrite IH, <- app_assoc. reflexivity.
Qed.

Lemma map_emb_repeat n : map emb_n (repeat nfull n) = repeat pfull n.
Proof. induction n; cbn [repeat map]; [reflexivity | now rewrite IHn]. Qed.

(* ------------------------------------------------------------------ normalize_index *)
Definition normalize_x (i : xindex) (nd : Z) : err + list nitem :=
  match i with XIdx ix => normalize_index true ix nd | XArr zs => normalize_int_array true zs nd end.
Definition lift_norm (r : err + list nitem) : gres pyval :=
  match r with inl e => GRaise e | inr s => GOk (PTuple (map emb_n s)) end.

Ltac gen_red :=
  unfold gen_normalize_index;
  cbn beta iota zeta delta [gbind gand py_is_none py_is_ellipsis py_is_skip isinst_int isinst_npinteger
                            isinst_slice isinst_list isinst_ndarray py_int py_dtype_is_bool py_size py_ndim py_all py_tolist
                            py_iter py_len orb andb negb].

Lemma countb_ell_abs vs : forallb item_val vs = true -> countb (fun i => py_is_ellipsis i) vs = countb is_ell (map abs_item vs).
Proof.
  induction vs as [|v vs IH]; intros H; [reflexivity|]. cbn [forallb] in H. apply andb_prop in H. destruct H as [Hv H].
  cbn [map]. rewrite !countb_cons, IH by exact H. destruct v; try discriminate; reflexivity.
Qed.

Lemma countb_none_abs vs : forallb item_val vs = true -> countb (fun i => py_is_none i) vs = countb is_new (map abs_item vs).
Proof.
  induction vs as [|v vs IH]; intros H; [reflexivity|]. cbn [forallb] in H. apply andb_prop in H. destruct H as [Hv H].
  cbn [map]. rewrite !countb_cons, IH by exact H. destruct v; try discriminate; reflexivity.
Qed.

(* the loop `for i in index` with a body that appends what conv_item says *)
Lemma gfold_conv (f : pyval -> list pyval -> gres (list pyval)) fill :
  (forall i acc, item_val i = true -> f i acc = GOk (acc ++ map emb_n (conv_item fill (abs_item i)))) ->
  forall vs acc, forallb item_val vs = true ->
  gfold f vs acc = GOk (acc ++ map emb_n (flat_map (conv_item fill) (map abs_item vs))).
Proof.
  intros Hf. induction vs as [|v vs IH]; intros acc H; cbn [gfold map flat_map].
  - now rewrite app_nil_r.
  - cbn [forallb] in H. apply andb_prop in H. destruct H as [Hv H].
    rewrite Hf by exact Hv. cbn [gbind]. rewrite IH by exact H. rewrite map_app, app_assoc. reflexivity.
Qed.

Lemma gen_normalize_tuple vs nd : forallb item_val vs = true ->
  gen_normalize_index (PTuple vs) nd = lift_norm (normalize_tuple true nd (map abs_item vs)).
Proof.
  intros H. gen_red. unfold normalize_tuple.
  rewrite (countb_ell_abs vs H), (countb_none_abs vs H). cbn [negb andb].
  destruct (countb is_ell (map abs_item vs) >? 1); [reflexivity|].
  set (nd' := nd + countb is_new (map abs_item vs)).
  match goal with |- context [gfold ?f vs []] =>
    rewrite (gfold_conv f (nd' - zlen (map abs_item vs) + 1)) end; [|clear H|exact H].
  - cbn [gbind app]. rewrite (giter_append pfull). cbn [lift_norm]. rewrite map_app, map_emb_repeat, !zlen_map.
    reflexivity.
  - intros i acc Hi. rewrite zlen_map.
    destruct i; try discriminate Hi; gen_red; cbn [abs_item conv_item map]; try reflexivity.
    rewrite (giter_append pfull). cbn [gbind]. rewrite map_emb_repeat. reflexivity.
Qed.

(* a bare list / 1-D ndarray goes through `.tolist()` and `(np.s_[index],)`: the same statements as for the 1-tuple *)
Lemma gen_normalize_wrap v nd : isinst_list v = true -> gen_normalize_index v nd = gen_normalize_index (PTuple [v]) nd.
Proof. destruct v; try discriminate; intros _; reflexivity. Qed.

(* TIE 1: normalize_index, for EVERY index value: bare int / np.integer / slice / list of ints / list of bools /
   boolean ndarray / integer ndarray / Ellipsis / None, and every tuple of them; every ndim (also 0 and negative) *)
Theorem gen_normalize_index_tie v nd : idx_val v = true ->
  gen_normalize_index v nd = lift_norm (normalize_x (abs_x v) nd).
Proof.
  intros Hv. destruct v; try discriminate Hv.
  - (* int *) gen_red. cbn [lift_norm normalize_x abs_x abs_item normalize_index sole items map emb_n app].
    rewrite map_emb_repeat. reflexivity.
  - (* np.integer *) gen_red. cbn [lift_norm normalize_x abs_x abs_item normalize_index sole items map emb_n app].
    rewrite map_emb_repeat. reflexivity.
  - (* slice *) gen_red. cbn [lift_norm normalize_x abs_x abs_item normalize_index sole items map emb_n app].
    rewrite map_emb_repeat. reflexivity.
  - (* list of ints *) rewrite gen_normalize_wrap, gen_normalize_tuple by reflexivity. reflexivity.
  - (* list of bools *) rewrite gen_normalize_wrap, gen_normalize_tuple by reflexivity. reflexivity.
  - (* integer ndarray: not a mask, whatever it holds *)
    transitivity (gen_normalize_index (PTuple [PListZ zs]) nd); [reflexivity|].
    rewrite gen_normalize_tuple by reflexivity. reflexivity.
  - (* boolean ndarray: all-True and not empty, or a mask like the list *)
    cbn [lift_norm normalize_x abs_x abs_item normalize_index sole items].
    destruct bs as [|b bs].
    + transitivity (gen_normalize_index (PTuple [PListB []]) nd); [reflexivity|].
      rewrite gen_normalize_tuple by reflexivity. reflexivity.
    + destruct (forallb (fun b => b) (b :: bs)) eqn:E.
      * gen_red. rewrite E. cbn [andb lift_norm]. rewrite zlen_cons.
        replace (1 + zlen bs =? 0) with false by (pose proof (zlen_nonneg bs); lia). cbn [negb].
        rewrite map_emb_repeat. reflexivity.
      * cbn [andb]. transitivity (gen_normalize_index (PTuple [PListB (b :: bs)]) nd).
        { gen_red. rewrite E. rewrite zlen_cons.
          replace (1 + zlen bs =? 0) with false by (pose proof (zlen_nonneg bs); lia). reflexivity. }
        rewrite gen_normalize_tuple by reflexivity. reflexivity.
  - (* Ellipsis *) gen_red. cbn [lift_norm normalize_x abs_x abs_item normalize_index sole items]. now rewrite map_emb_repeat.
  - (* None *) gen_red. cbn [lift_norm normalize_x abs_x abs_item normalize_index sole items map emb_n app].
    now rewrite map_emb_repeat.
  - (* tuple *) cbn [idx_val] in Hv. rewrite gen_normalize_tuple by exact Hv. reflexivity.
Qed.

(* the value is needed to be an index value: the sentinel / a nested tuple inside a tuple is refused by the code
   ('Unrecognized index type') while its reading [abs_item] is arbitrary *)
Lemma gen_normalize_index_tie_refuted :
  exists v nd, idx_val v = false /\ gen_normalize_index v nd <> lift_norm (normalize_x (abs_x v) nd).
Proof. exists (PTuple [PTuple []]), 1. split; [reflexivity|]. vm_compute. discriminate. Qed.

Example gen_normalize_index_ex :
  idx_val (PTuple [PNone; PEllipsis; PNpInt 2; PArrB [true; false]]) = true /\
  gen_normalize_index (PTuple [PNone; PEllipsis; PNpInt 2; PArrB [true; false]]) 3
  = GOk (PTuple [PNone; pfull; PInt 2; PListB [true; false]]).
Proof. split; reflexivity. Qed.

(* the model's own index expressions, written as values *)
Lemma abs_emb_item it : abs_item (emb_item it) = it.
Proof. destruct it as [| | |bs [|]| |]; reflexivity. Qed.
Lemma item_val_emb it : item_val (emb_item it) = true.
Proof. destruct it as [| | |bs [|]| |]; reflexivity. Qed.
Lemma map_abs_emb its : map abs_item (map emb_item its) = its.
Proof. induction its as [|it its IH]; [reflexivity|]. cbn [map]. now rewrite abs_emb_item, IH. Qed.
Lemma forallb_item_val_emb its : forallb item_val (map emb_item its) = true.
Proof. induction its as [|it its IH]; [reflexivity|]. cbn [map forallb]. now rewrite item_val_emb, IH. Qed.
Lemma idx_val_emb ix : idx_val (emb_index ix) = true.
Proof.
  unfold emb_index. destruct (sole ix); [|apply forallb_item_val_emb].
  destruct (items ix) as [|it [|it2 its]]; [reflexivity| |apply forallb_item_val_emb].
  destruct it as [| | |bs [|]| |]; reflexivity.
Qed.
Lemma normalize_emb ix nd : normalize_x (abs_x (emb_index ix)) nd = normalize_index true ix nd.
Proof.
  destruct ix as [[|] its]; unfold emb_index; cbn [sole items].
  - destruct its as [|it [|it2 its]].
    + reflexivity.
    + destruct it as [| | |bs [|]| |]; reflexivity.
    + cbn [abs_x normalize_x]. rewrite map_abs_emb. destruct it as [| | |bs [|]| |]; reflexivity.
  - cbn [abs_x normalize_x]. rewrite map_abs_emb. reflexivity.
Qed.
Theorem gen_normalize_index_model ix nd :
  gen_normalize_index (emb_index ix) nd = lift_norm (normalize_index true ix nd).
Proof. rewrite gen_normalize_index_tie by apply idx_val_emb. now rewrite normalize_emb. Qed.

(* ------------------------------------------------------------------ PipelineData.__getitem__ *)
Definition lift_res (r : res) : gres pyobj :=
  match r with RArr p => GOk (OArr p) | RScalar v => GOk (OScal v) | RErr e => GRaise e end.
Definition emb_o (o : option nitem) : pyval := match o with None => PSkip | Some t => emb_n t end.

Lemma getitem_x_with x v :
  getitem_x true x (abs_x v) = getitem_with true x (abs_items v) (normalize_x (abs_x v) (ndim x)).
Proof. destruct v; reflexivity. Qed.

(* list lemmas for the two selections written with np.arange: by integer lists and by masks *)
Lemma norm_idx_idem n z : idx_ok n z = true -> norm_idx n (norm_idx n z) = norm_idx n z /\ idx_ok n (norm_idx n z) = true.
Proof. unfold idx_ok, norm_idx. intros H. destruct (z <? 0) eqn:E; [destruct (z + n <? 0) eqn:E2|rewrite E]; lia. Qed.

Lemma arange_list_ok n zs : forallb (idx_ok n) zs = true -> forallb (idx_ok n) (map (norm_idx n) zs) = true.
Proof.
  induction zs as [|z zs IH]; [reflexivity|]. cbn [forallb map]. intros H. apply andb_prop in H. destruct H as [Hz H].
  rewrite (proj2 (norm_idx_idem n z Hz)), IH by exact H. reflexivity.
Qed.
Lemma arange_list_sel (l : list Z) zs : forallb (idx_ok (zlen l)) zs = true ->
  map (py_index 0 l) (map (norm_idx (zlen l)) zs) = map (py_index 0 l) zs.
Proof.
  induction zs as [|z zs IH]; [reflexivity|]. cbn [forallb map]. intros H. apply andb_prop in H. destruct H as [Hz H].
  rewrite IH by exact H. f_equal. unfold py_index. now rewrite (proj1 (norm_idx_idem _ z Hz)).
Qed.

Lemma py_index_app_r (pre l : list Z) k : 0 <= k -> py_index 0 (pre ++ l) (zlen pre + k) = nth (Z.to_nat k) l 0.
Proof.
  intros Hk. unfold py_index, norm_idx. pose proof (zlen_nonneg pre).
  replace (zlen pre + k <? 0) with false by lia.
  replace (Z.to_nat (zlen pre + k)) with (length pre + Z.to_nat k)%nat by (unfold zlen in *; lia).
  now rewrite app_nth2_plus.
Qed.
Lemma arange_mask bs : forall (l pre : list Z), length bs = length l ->
  forallb (idx_ok (zlen (pre ++ l))) (nonzero_from (zlen pre) bs) = true /\
  map (py_index 0 (pre ++ l)) (nonzero_from (zlen pre) bs) = mask_sel bs l.
Proof.
  induction bs as [|b bs IH]; intros l pre Hl; [split; reflexivity|].
  destruct l as [|a l]; [discriminate Hl|]. injection Hl as Hl.
  specialize (IH l (pre ++ [a]) Hl).
  replace (zlen (pre ++ [a])) with (zlen pre + 1) in IH by (rewrite zlen_app; reflexivity).
  rewrite <- app_assoc in IH. cbn [app] in IH. destruct IH as [IH1 IH2].
  cbn [nonzero_from mask_sel]. destruct b; [|split; assumption].
  cbn [forallb map]. rewrite IH1, IH2. split.
  - rewrite andb_true_r. unfold idx_ok. rewrite zlen_app, zlen_cons.
    pose proof (zlen_nonneg pre). pose proof (zlen_nonneg l). lia.
  - f_equal. replace (zlen pre) with (zlen pre + 0) by lia. rewrite py_index_app_r by lia. reflexivity.
Qed.
Lemma arange_mask0 bs (l : list Z) : zlen bs = zlen l ->
  forallb (idx_ok (zlen l)) (nonzero_from 0 bs) = true /\ map (py_index 0 l) (nonzero_from 0 bs) = mask_sel bs l.
Proof. intros H. apply (arange_mask bs l []). unfold zlen in H. lia. Qed.

Lemma set_chan_same o : set_chan o (chan o) = o. Proof. destruct o; reflexivity. Qed.
Lemma set_meta_same o : set_meta o (meta o) = o. Proof. destruct o; reflexivity. Qed.

Ltac blk_red :=
  unfold sequence_idx;
  cbn [gbind gand py_is_none py_is_skip py_is_ellipsis isinst_int isinst_slice isinst_list emb_o emb_n lab_is_list lab_wrap
       lab_len lab_getitem np_arange_getitem lab_getitems np_array_getitem_tolist py_all_true_bools py_attr_start
       py_attr_step py_optz is_some negb orb andb set_chan set_meta set_s0 set_fs pd_fs rate_div chan meta s0 fsn fsd shape dat
       fst snd fix_chan fix_meta fix_time lift_many sequence_idx finalized n_time].

(* TIE 2: __getitem__ when NumPy returns an array of 1 to 3 dimensions (the only case in which the model returns an
   annotated array): the generated fix-up = the model's fix_time / fix_chan / fix_meta, every raise included *)
Theorem gen_getitem_arr x v sh d : idx_val v = true ->
  np_getitem (shape x) (dat x) (abs_items v) = NPArr sh d ->
  gen_getitem x v = lift_res (getitem_x true x (abs_x v)).
Proof.
  intros Hv Hnp. rewrite getitem_x_with. unfold gen_getitem, np_super_getitem, getitem_with. rewrite Hnp.
  cbn [gbind isinst_PipelineData]. rewrite gen_normalize_index_tie by exact Hv.
  destruct (normalize_x (abs_x v) (ndim x)) as [e|sn]; cbn [lift_norm gbind lift_res]; [reflexivity|].
  (* len(s) == 1 / 2 / 3: split3 *)
  match goal with |- gbind ?CH _ = _ =>
    assert (HCH : CH = match split3 sn with None => GRaise EUnbound
                                       | Some (es, cs, ts) => GOk (emb_o es, emb_o cs, emb_n ts) end) end.
  { destruct sn as [|t [|c [|e [|e2 sn]]]]; try reflexivity.
    cbn [py_len map gbind]. rewrite !zlen_cons. pose proof (zlen_nonneg (map emb_n sn)).
    replace (1 + (1 + (1 + (1 + zlen (map emb_n sn)))) =? 1) with false by lia.
    replace (1 + (1 + (1 + (1 + zlen (map emb_n sn)))) =? 2) with false by lia.
    replace (1 + (1 + (1 + (1 + zlen (map emb_n sn)))) =? 3) with false by lia. reflexivity. }
  rewrite HCH; clear HCH. destruct (split3 sn) as [[[es cs] ts]|]; cbn [gbind lift_res]; [|reflexivity].
  (* the channel and the metadata block, for any object they are applied to *)
  match goal with |- (if _ then _ else if _ then _ else gbind _ ?K) = _ => set (Kf := K) end.
  assert (HK : forall o, Kf o = match fix_chan true cs (chan o) with
                                | inl e => GRaise e
                                | inr ch' => match fix_meta es (meta o) with
                                             | inl e => GRaise e
                                             | inr md' => GOk (OArr (set_meta (set_chan o ch') md'))
                                             end
                                end).
  { intros o. subst Kf. cbv beta.
    match goal with |- gbind ?C ?K2 = _ =>
      assert (HK2 : forall o, K2 o = match fix_meta es (meta o) with
                                     | inl e => GRaise e | inr md' => GOk (OArr (set_meta o md')) end);
      [|assert (HC : C = match fix_chan true cs (chan o) with inl e => GRaise e | inr ch' => GOk (set_chan o ch') end)] end.
    - clear. intros o. cbv beta.
      destruct es as [[z|a b c|zs|bs|]|]; blk_red.
      + destruct (meta o) as [m|l] eqn:E; blk_red; [reflexivity|]. destruct (idx_ok (zlen l) z); blk_red; reflexivity.
      + destruct (meta o) as [m|l] eqn:E; reflexivity.
      + destruct (meta o) as [m|l] eqn:E; blk_red; [reflexivity|]. destruct (forallb (idx_ok (zlen l)) zs); blk_red; reflexivity.
      + destruct (meta o) as [m|l] eqn:E; blk_red; [reflexivity|]. destruct (zlen bs =? zlen l); blk_red; reflexivity.
      + destruct (meta o) as [m|l] eqn:E; blk_red; [reflexivity|].
        destruct (zlen l =? 1); blk_red; [|reflexivity]. now rewrite <- E, set_meta_same.
      + now rewrite set_meta_same.
    - clear HK2. destruct cs as [[z|a b c|zs|bs|]|]; blk_red.
      + destruct (chan o) as [m|l] eqn:E; blk_red; [reflexivity|]. destruct (idx_ok (zlen l) z); blk_red; reflexivity.
      + destruct (chan o) as [m|l] eqn:E; reflexivity.
      + destruct (chan o) as [m|l] eqn:E; blk_red; [reflexivity|].
        destruct (forallb (idx_ok (zlen l)) zs) eqn:F; blk_red; [|reflexivity].
        rewrite arange_list_ok, arange_list_sel by exact F. reflexivity.
      + destruct (chan o) as [m|l] eqn:E; blk_red; [reflexivity|].
        destruct (zlen bs =? zlen l) eqn:F; blk_red; [|reflexivity].
        destruct (arange_mask0 bs l) as [F1 F2]; [lia|]. rewrite F1, F2. reflexivity.
      + destruct (chan o) as [m|l] eqn:E; blk_red; [reflexivity|].
        destruct (zlen l =? 1); blk_red; [|reflexivity]. now rewrite <- E, set_chan_same.
      + now rewrite set_chan_same.
    - rewrite HC. destruct (fix_chan true cs (chan o)) as [e|ch']; cbn [gbind]; [reflexivity|]. exact (HK2 (set_chan o ch')). }
  clearbody Kf.
  (* the time block *)
  assert (FIN : forall o, chan o = finalize_chan (chan x) sh -> meta o = meta x ->
                Kf o = lift_res match fix_chan true cs (finalize_chan (chan x) sh) with
                                | inl e => RErr e
                                | inr ch' => match fix_meta es (meta x) with
                                             | inl e => RErr e
                                             | inr md' => RArr (set_meta (set_chan o ch') md')
                                             end
                                end).
  { intros o Hc Hm. rewrite HK, Hc, Hm. destruct (fix_chan true cs (finalize_chan (chan x) sh)); [reflexivity|].
    destruct (fix_meta es (meta x)); reflexivity. }
  clear HK.
  destruct ts as [z|a b c|zs|bs|]; blk_red; try reflexivity.
  - (* slice *)
    destruct a as [st|]; blk_red.
    + destruct (st >? 0); blk_red; [|destruct (st <? 0); blk_red].
      all: destruct c as [k|]; blk_red; rewrite FIN by reflexivity; reflexivity.
    + destruct c as [k|]; blk_red; rewrite FIN by reflexivity; reflexivity.
  - destruct (zlen zs =? 0); blk_red; [|reflexivity]. rewrite FIN by reflexivity. reflexivity.
  - destruct (forallb (fun b => b) bs); blk_red; [|reflexivity]. rewrite FIN by reflexivity. reflexivity.
Qed.

(* NumPy refuses the index / returns a scalar (no Ellipsis: a genuine scalar without annotations) *)
Theorem gen_getitem_err x v : np_getitem (shape x) (dat x) (abs_items v) = NPErr ->
  gen_getitem x v = lift_res (getitem_x true x (abs_x v)).
Proof.
  intros Hnp. rewrite getitem_x_with. unfold gen_getitem, np_super_getitem, getitem_with. rewrite Hnp. reflexivity.
Qed.
Theorem gen_getitem_scalar x v w : np_getitem (shape x) (dat x) (abs_items v) = NPScalar w ->
  existsb is_ell (abs_items v) = false ->
  gen_getitem x v = lift_res (getitem_x true x (abs_x v)).
Proof.
  intros Hnp He. rewrite getitem_x_with. unfold gen_getitem, np_super_getitem, getitem_with. rewrite Hnp, He. reflexivity.
Qed.

(* the class of NumPy results the tie is proved for: an error, a genuine scalar, an array of 1 to 3 dimensions.
   Outside it (a 0-d array produced with an Ellipsis, a result above 3-D) the model returns an error in every case; those
   two classes are treated further down (gen_getitem_0d, gen_getitem_big, gen_getitem_full) *)
Definition np_plain (r : npres) (its : list item) : bool :=
  match r with NPErr => true | NPArr _ _ => true | NPScalar _ => negb (existsb is_ell its) | NPBig _ => false end.
Theorem gen_getitem_tie x v : idx_val v = true ->
  np_plain (np_getitem (shape x) (dat x) (abs_items v)) (abs_items v) = true ->
  gen_getitem x v = lift_res (getitem_x true x (abs_x v)).
Proof.
  intros Hv Hp. destruct (np_getitem (shape x) (dat x) (abs_items v)) as [|w|sh d|sh] eqn:E; cbn [np_plain] in Hp.
  - now apply gen_getitem_err.
  - apply (gen_getitem_scalar x v w E). now destruct (existsb is_ell (abs_items v)).
  - now apply (gen_getitem_arr x v sh d).
  - discriminate.
Qed.

(* whenever the model returns an annotated array, NumPy's result is in that class *)
Lemma getitem_with_arr_class x its norm r : getitem_with true x its norm = RArr r ->
  exists sh d, np_getitem (shape x) (dat x) its = NPArr sh d.
Proof.
  unfold getitem_with. destruct (np_getitem (shape x) (dat x) its) as [|w|sh d|sh]; intros H.
  - discriminate.
  - destruct (existsb is_ell its); [|discriminate]. destruct norm as [e|s]; [discriminate|].
    destruct (split3 s) as [[[es cs] ts]|]; [|discriminate]. destruct (fix_time true x ts); discriminate.
  - now exists sh, d.
  - destruct norm; discriminate.
Qed.

(* COROLLARY: every annotated array the model returns is returned by the generated __getitem__, for every index value *)
Theorem gen_getitem_returns x v r : idx_val v = true ->
  getitem_x true x (abs_x v) = RArr r -> gen_getitem x v = GOk (OArr r).
Proof.
  intros Hv H. pose proof H as H'. rewrite getitem_x_with in H'.
  destruct (getitem_with_arr_class _ _ _ _ H') as (sh & d & Hnp).
  rewrite (gen_getitem_arr x v sh d Hv Hnp), H. reflexivity.
Qed.

(* ... and for the index expressions of the model's grammar *)
Lemma abs_x_emb x ix : getitem_x true x (abs_x (emb_index ix)) = getitem x ix.
Proof.
  rewrite getitem_x_with. unfold getitem. rewrite getitem_gen_with, normalize_emb. f_equal.
  destruct ix as [[|] its]; unfold emb_index; cbn [sole items abs_items].
  - destruct its as [|it [|it2 its]]; [reflexivity| |apply map_abs_emb].
    destruct it as [| | |bs [|]| |]; reflexivity.
  - apply map_abs_emb.
Qed.
Theorem gen_getitem_model x ix r : getitem x ix = RArr r -> gen_getitem x (emb_index ix) = GOk (OArr r).
Proof. intros H. apply gen_getitem_returns; [apply idx_val_emb | now rewrite abs_x_emb]. Qed.

(* C11_getitem_regular over the definitions regenerated from the source *)
Theorem source_getitem_regular x ix k per :
  wf x -> denotes (ndim x) ix k per -> valid_on (shape x) per ->
  exists d0 d', np_regular (dat x) per = Some d0 /\ wrap_new k d0 = Some d' /\
                gen_getitem x (emb_index ix) = GOk (OArr (spec_result x k per d')).
Proof.
  intros Hw Hd Hv. destruct (getitem_regular x ix k per Hw Hd Hv) as (d0 & d' & H1 & H2 & H3).
  exists d0, d'. split; [exact H1|]. split; [exact H2|]. now apply gen_getitem_model.
Qed.

(* under the hypotheses of the C11 theorems the generated function returns exactly what the model returns *)
Lemma source_regular_inv x ix k per r :
  wf x -> denotes (ndim x) ix k per -> valid_on (shape x) per ->
  gen_getitem x (emb_index ix) = GOk (OArr r) -> getitem x ix = RArr r.
Proof.
  intros Hw Hd Hv H. destruct (source_getitem_regular x ix k per Hw Hd Hv) as (d0 & d' & _ & _ & H3).
  destruct (getitem_regular x ix k per Hw Hd Hv) as (e0 & e' & _ & _ & H4).
  rewrite H3 in H. injection H as <-. rewrite H4. f_equal.
  destruct (source_getitem_regular x ix k per Hw Hd Hv) as (f0 & f' & _ & _ & H5).
  rewrite (gen_getitem_model x ix _ H4) in H3. now injection H3 as <-.
Qed.

Theorem source_time_axis_commutes x ix k per r a b c :
  wf x -> denotes (ndim x) ix k per -> valid_on (shape x) per -> time_item per = ISlice a b c ->
  step_of c = 1 -> gen_getitem x (emb_index ix) = GOk (OArr r) ->
  fsn r = fsn x /\ fsd r = fsd x /\ taxis r = py_slice a b (taxis x) /\
  Forall (fun row' => exists row, In row (rows (dat x)) /\ row' = py_slice a b row) (rows (dat r)).
Proof. intros Hw Hd Hv Ht Hs H. apply (time_axis_commutes x ix k per r a b c); auto. eapply source_regular_inv; eauto. Qed.

Theorem source_stride_rate x ix k per r a b c :
  wf x -> denotes (ndim x) ix k per -> valid_on (shape x) per -> time_item per = ISlice a b c ->
  gen_getitem x (emb_index ix) = GOk (OArr r) ->
  1 <= step_of c /\ fsn r = fsn x /\ fsd r = fsd x * step_of c /\
  n_time r = py_slice_len (n_time x) a b (step_of c) /\
  Forall (fun row' => exists row, In row (rows (dat x)) /\ row' = py_slice_step a b (step_of c) row) (rows (dat r)).
Proof. intros Hw Hd Hv Ht H. apply (stride_rate x ix k per r a b c); auto. eapply source_regular_inv; eauto. Qed.

Theorem source_labels_metadata_follow x ix k per r :
  wf x -> denotes (ndim x) ix k per -> valid_on (shape x) per ->
  epoch_without_channel (ndim x) k per = false ->
  gen_getitem x (emb_index ix) = GOk (OArr r) ->
  chan r = spec_chan k per (chan x) /\ meta r = spec_meta k per (meta x) /\
  forall md ch row', has_row r md ch row' ->
    exists row, has_row x md ch row /\ row' = sel_t (time_item per) row.
Proof. intros Hw Hd Hv He H. apply (annotations_follow x ix k per r); auto. eapply source_regular_inv; eauto. Qed.

Theorem source_counts x ix k per r :
  wf x -> denotes (ndim x) ix k per -> valid_on (shape x) per ->
  epoch_without_channel (ndim x) k per = false ->
  gen_getitem x (emb_index ix) = GOk (OArr r) -> wf r.
Proof. intros Hw Hd Hv He H. apply (counts x ix k per r); auto. eapply source_regular_inv; eauto. Qed.

(* the hypotheses are satisfiable: x[np.newaxis, ..., -20:] on a 1-D array of 10 samples starting at sample 5 *)
Example source_ex :
  let x := mk [10] 5 1000 1 (LOne 70) (LOne 90) in
  let v := PTuple [PNone; PEllipsis; PSlice (Some (-20)) None None] in
  idx_val v = true /\ np_plain (np_getitem (shape x) (dat x) (abs_items v)) (abs_items v) = true /\
  res_of (gen_getitem x v) = Some (mkv [1; 10] [0; 1; 2; 3; 4; 5; 6; 7; 8; 9] 5 1000 1 (LMany [70]) (LOne 90)).
Proof. cbn zeta. split; [reflexivity|]. split; vm_compute; reflexivity. Qed.


(* ------------------------------------------------------------------ the two remaining classes of NumPy results: a 0-d array
   (all axes indexed by ints, with an Ellipsis) and a result above 3-D.  Facts about the model only. *)
Definition x_items (i : xindex) : list item := match i with XIdx ix => items ix | XArr zs => [IList zs] end.

Lemma normalize_x_expand i nd ex s :
  np_expand nd (x_items i) = Some ex -> normalize_x i nd = inr s ->
  s = map conv1 ex \/ (exists bs, In (IMask bs true) ex) /\ zlen s = zlen ex.
Proof.
  intros He Hn. destruct i as [ix|zs]; cbn [x_items normalize_x] in *.
  - destruct (all_true_arr ix) eqn:A.
    + right. unfold all_true_arr in A. destruct ix as [so its]. cbn [sole items] in *.
      destruct so; [|discriminate]. cbn [andb] in A.
      destruct its as [|[| | |bs [|]| |] [|it2 its]]; try discriminate.
      unfold normalize_index in Hn. cbn [sole items] in Hn. rewrite A in Hn.
      revert He. unfold np_expand. cbn. destruct (1 >? nd) eqn:E; [discriminate|]. intros He. injection He as <-.
      split; [exists bs; now left|].
      destruct bs as [|b bs].
      * cbn [andb] in Hn. unfold normalize_tuple in Hn. cbn in Hn. injection Hn as <-.
        rewrite ?zlen_app, ?zlen_cons, ?zlen_repeat, ?zlen_nil. lia.
      * cbn [andb] in Hn. injection Hn as <-. rewrite zlen_cons, !zlen_repeat. lia.
    + left. rewrite (normalize_expand nd ix ex A He) in Hn. now injection Hn as <-.
  - left. unfold normalize_int_array in Hn. cbn [negb andb] in Hn.
    rewrite (normalize_tuple_expand nd _ ex He) in Hn. now injection Hn as <-.
Qed.

Lemma gsels_kinds its : forall sh st gs, gsels its sh st = Some gs ->
  length gs = length its /\
  (Forall (fun g => match g with GInt _ => True | _ => False end) gs -> Forall (fun it => exists z, it = IInt z) its).
Proof.
  induction its as [|it its IH]; intros sh st gs H.
  - cbn in H. destruct sh; [|discriminate]. injection H as <-. split; [reflexivity | constructor].
  - assert (Hnew : it = INewaxis \/ it <> INewaxis) by (destruct it; (now left) || (right; discriminate)).
    destruct Hnew as [->|Hn].
    + cbn in H. destruct (gsels its sh st) as [gs'|] eqn:E; [|discriminate]. injection H as <-.
      destruct (IH _ _ _ E) as [L _]. split; [cbn; now rewrite L|]. intros F. inversion F as [|? ? F1 _]. destruct F1.
    + assert (H' : match sh, st with
                   | n :: sh', s :: st' =>
                     if (match it with IList _ => true | _ => sel_ok n it end) then
                       option_map (cons (match it with
                                         | IInt z => GInt (norm_idx n z * s)
                                         | ISlice a b c => GRange (map (fun i => i * s) (slice_idx n a b (step_of c)))
                                         | IList zs => GAdv (map (fun z => norm_idx n z * s) zs)
                                         | IMask bs _ => GAdv (map (fun i => i * s) (nonzero_from 0 bs))
                                         | _ => GNew
                                         end)) (gsels its sh' st')
                     else None
                   | _, _ => None
                   end = Some gs) by (destruct it; try exact H; now destruct Hn).
      clear H. destruct sh as [|n sh']; [discriminate|]. destruct st as [|s st']; [discriminate|].
      destruct (match it with IList _ => true | _ => sel_ok n it end); [|discriminate].
      destruct (gsels its sh' st') as [gs'|] eqn:E; [|discriminate]. cbn [option_map] in H'. injection H' as <-.
      destruct (IH _ _ _ E) as [L K]. split; [cbn; now rewrite L|].
      intros F. inversion F as [|? ? F1 F2]. subst. constructor; [|now apply K].
      destruct it; try destruct F1. now eexists.
Qed.

Lemma len_basic gs : (length (flat_map basic_gen gs) <= length gs)%nat /\
  (existsb g_is_arr gs = true -> (S (length (flat_map basic_gen gs)) <= length gs)%nat).
Proof.
  induction gs as [|g gs [IH1 IH2]]; [split; [reflexivity | discriminate]|].
  cbn [flat_map existsb length]. rewrite app_length. split.
  - destruct g; cbn; lia.
  - intros H. destruct g; cbn in *; try (specialize (IH2 H)); lia.
Qed.
Lemma len_inplace grp gs : forall p, (length (inplace_gens grp p gs) <= length gs)%nat.
Proof.
  induction gs as [|g gs IH]; intros p; [reflexivity|]. cbn [inplace_gens length].
  destruct (g_is_adv g) eqn:A.
  - destruct p; cbn [length]; [specialize (IH true) | specialize (IH true)]; lia.
  - rewrite app_length. specialize (IH p). destruct g; cbn in *; try discriminate; lia.
Qed.
Lemma inplace_nonempty grp gs : existsb g_is_adv gs = true -> inplace_gens grp false gs <> [].
Proof.
  induction gs as [|g gs IH]; [discriminate|]. cbn [existsb inplace_gens]. destruct (g_is_adv g); [discriminate|].
  cbn [orb]. intros H E. apply app_eq_nil in E. now apply (IH H).
Qed.
Lemma basic_nil_ints gs : existsb g_is_arr gs = false -> flat_map basic_gen gs = [] ->
  Forall (fun g => match g with GInt _ => True | _ => False end) gs.
Proof.
  induction gs as [|g gs IH]; [constructor|]. cbn [existsb flat_map]. intros H E.
  apply orb_false_elim in H. destruct H as [H1 H2]. apply app_eq_nil in E. destruct E as [E1 E2].
  constructor; [|now apply IH]. destruct g; cbn in *; try discriminate; exact I.
Qed.
Lemma renest_big l vals sh : renest l vals = NPBig sh -> (4 <= length l)%nat.
Proof. destruct l as [|a [|b [|c [|e l]]]]; cbn; try discriminate. lia. Qed.
Lemma renest_scalar l vals w : renest l vals = NPScalar w -> l = [].
Proof. destruct l as [|a [|b [|c [|e l]]]]; cbn; try discriminate. reflexivity. Qed.
Lemma arr_adv gs : existsb g_is_arr gs = true -> existsb g_is_adv gs = true.
Proof.
  induction gs as [|g gs IH]; [discriminate|]. cbn [existsb]. destruct g; cbn; auto.
Qed.

(* a result above 3-D: the normalised index has more than 3 entries *)
Lemma np_big_long sh d i s sh' :
  np_getitem sh d (x_items i) = NPBig sh' -> normalize_x i (zlen sh) = inr s -> 3 < zlen s.
Proof.
  unfold np_getitem. destruct (np_expand (zlen sh) (x_items i)) as [ex|] eqn:He; [|discriminate].
  destruct (strip_new ex) as [k per]. intros H Hn.
  assert (Hg : np_general sh d (x_items i) ex = NPBig sh').
  { destruct (regular_per per && (k + zlen sh <=? 3)); [|exact H].
    destruct (all_ok per sh); [|discriminate]. destruct (np_regular d per); [|discriminate].
    destruct (wrap_new k n); discriminate. }
  clear H. unfold np_general in Hg. destruct (gsels ex sh (strides sh)) as [gs|] eqn:G; [|discriminate].
  destruct (gsels_kinds _ _ _ _ G) as [L _].
  assert (Hlen : zlen s = zlen ex).
  { destruct (normalize_x_expand i _ ex s He Hn) as [->|[_ E]]; [apply zlen_map | exact E]. }
  assert (4 <= length gs)%nat; [|unfold zlen in *; lia].
  destruct (existsb g_is_arr gs) eqn:A.
  - destruct (bcast (adv_lens gs)) as [B|]; [|discriminate].
    destruct ((B =? 0) || lists_ok ex sh); [|discriminate].
    destruct (adjacent_items 0 (x_items i)); apply renest_big in Hg; rewrite map_length in Hg.
    + pose proof (len_inplace (group_offs gs B) gs false). lia.
    + cbn [length] in Hg. pose proof (proj2 (len_basic gs) A). lia.
  - apply renest_big in Hg. rewrite map_length in Hg. pose proof (proj1 (len_basic gs)). lia.
Qed.

(* a scalar / 0-d result: every entry of the normalised index is an int *)
Lemma np_scalar_ints sh d i s w :
  np_getitem sh d (x_items i) = NPScalar w -> normalize_x i (zlen sh) = inr s ->
  Forall (fun t => exists z, t = NInt z) s.
Proof.
  unfold np_getitem. destruct (np_expand (zlen sh) (x_items i)) as [ex|] eqn:He; [|discriminate].
  destruct (strip_new ex) as [k per]. intros H Hn.
  assert (Hg : np_general sh d (x_items i) ex = NPScalar w).
  { destruct (regular_per per && (k + zlen sh <=? 3)); [|exact H].
    destruct (all_ok per sh); [|discriminate]. destruct (np_regular d per); [|discriminate].
    destruct (wrap_new k n); discriminate. }
  clear H. unfold np_general in Hg. destruct (gsels ex sh (strides sh)) as [gs|] eqn:G; [|discriminate].
  destruct (gsels_kinds _ _ _ _ G) as [_ K].
  assert (Hints : Forall (fun it => exists z, it = IInt z) ex).
  { apply K. destruct (existsb g_is_arr gs) eqn:A.
    - exfalso. destruct (bcast (adv_lens gs)) as [B|]; [|discriminate].
      destruct ((B =? 0) || lists_ok ex sh); [|discriminate].
      destruct (adjacent_items 0 (x_items i)); apply renest_scalar in Hg; apply map_eq_nil in Hg.
      + now apply (inplace_nonempty _ _ (arr_adv _ A)) in Hg.
      + discriminate.
    - apply renest_scalar in Hg. apply map_eq_nil in Hg. now apply basic_nil_ints. }
  destruct (normalize_x_expand i _ ex s He Hn) as [->|[[bs Hin] _]].
  - clear - Hints. induction Hints as [|it ex [z ->] _ IH]; cbn [map]; constructor; [now exists z | exact IH].
  - exfalso. rewrite Forall_forall in Hints. destruct (Hints _ Hin) as [z Hz]. discriminate.
Qed.

Lemma x_items_abs v : x_items (abs_x v) = abs_items v.
Proof. destruct v; reflexivity. Qed.

(* TIE 2, the remaining classes: a result above 3-D (the names epoch_slice / channel_slice / time_slice stay unbound) and a
   0-d array (the time item is an int: NotImplementedError) - an error in the model and in the generated function alike *)
Theorem gen_getitem_big x v sh' : idx_val v = true ->
  np_getitem (shape x) (dat x) (abs_items v) = NPBig sh' ->
  gen_getitem x v = lift_res (getitem_x true x (abs_x v)).
Proof.
  intros Hv Hnp. rewrite getitem_x_with. unfold gen_getitem, np_super_getitem, getitem_with. rewrite Hnp.
  cbn [gbind isinst_PipelineData]. rewrite gen_normalize_index_tie by exact Hv.
  destruct (normalize_x (abs_x v) (ndim x)) as [e|sn] eqn:En; cbn [lift_norm gbind lift_res]; [reflexivity|].
  assert (L : 3 < zlen sn).
  { apply (np_big_long (shape x) (dat x) (abs_x v) sn sh'); [now rewrite x_items_abs | exact En]. }
  destruct sn as [|t [|c [|e [|e2 sn]]]]; try (vm_compute in L; discriminate L).
  cbn [py_len map gbind]. rewrite !zlen_cons. pose proof (zlen_nonneg (map emb_n sn)).
  replace (1 + (1 + (1 + (1 + zlen (map emb_n sn)))) =? 1) with false by lia.
  replace (1 + (1 + (1 + (1 + zlen (map emb_n sn)))) =? 2) with false by lia.
  replace (1 + (1 + (1 + (1 + zlen (map emb_n sn)))) =? 3) with false by lia. reflexivity.
Qed.

Theorem gen_getitem_0d x v w : idx_val v = true ->
  np_getitem (shape x) (dat x) (abs_items v) = NPScalar w -> existsb is_ell (abs_items v) = true ->
  gen_getitem x v = lift_res (getitem_x true x (abs_x v)).
Proof.
  intros Hv Hnp He. rewrite getitem_x_with. unfold gen_getitem, np_super_getitem, getitem_with. rewrite Hnp, He.
  cbn [gbind isinst_PipelineData]. rewrite gen_normalize_index_tie by exact Hv.
  destruct (normalize_x (abs_x v) (ndim x)) as [e|sn] eqn:En; cbn [lift_norm gbind lift_res]; [reflexivity|].
  assert (F : Forall (fun t => exists z, t = NInt z) sn).
  { apply (np_scalar_ints (shape x) (dat x) (abs_x v) sn w); [now rewrite x_items_abs | exact En]. }
  destruct sn as [|t [|c [|e [|e2 sn]]]].
  - reflexivity.
  - inversion F as [|? ? [z ->] _]. reflexivity.
  - inversion F as [|? ? _ F2]. inversion F2 as [|? ? [z ->] _]. reflexivity.
  - inversion F as [|? ? _ F2]. inversion F2 as [|? ? _ F3]. inversion F3 as [|? ? [z ->] _]. reflexivity.
  - cbn [py_len map gbind split3]. rewrite !zlen_cons. pose proof (zlen_nonneg (map emb_n sn)).
    replace (1 + (1 + (1 + (1 + zlen (map emb_n sn)))) =? 1) with false by lia.
    replace (1 + (1 + (1 + (1 + zlen (map emb_n sn)))) =? 2) with false by lia.
    replace (1 + (1 + (1 + (1 + zlen (map emb_n sn)))) =? 3) with false by lia. reflexivity.
Qed.

(* TIE 2, complete: on every array and every index value the generated __getitem__ is the model's getitem -
   data as NumPy selects them, s0, rate, channel labels, metadata, scalar results and every raised error *)
Theorem gen_getitem_full x v : idx_val v = true -> gen_getitem x v = lift_res (getitem_x true x (abs_x v)).
Proof.
  intros Hv. destruct (np_getitem (shape x) (dat x) (abs_items v)) as [|w|sh d|sh] eqn:E.
  - now apply gen_getitem_err.
  - destruct (existsb is_ell (abs_items v)) eqn:L; [now apply (gen_getitem_0d x v w) | now apply (gen_getitem_scalar x v w)].
  - now apply (gen_getitem_arr x v sh d).
  - now apply (gen_getitem_big x v sh).
Qed.
Theorem gen_getitem_full_model x ix : gen_getitem x (emb_index ix) = lift_res (getitem x ix).
Proof. rewrite gen_getitem_full by apply idx_val_emb. now rewrite abs_x_emb. Qed.
(* in particular the generated function never leaves the translated fragment *)
Corollary gen_getitem_not_stuck x v : idx_val v = true -> gen_getitem x v <> GStuck.
Proof. intros Hv. rewrite gen_getitem_full by exact Hv. destruct (getitem_x true x (abs_x v)); discriminate. Qed.
(* a chain of index expressions *)
Fixpoint gen_getitems (x : pd) (vs : list pyval) : gres pyobj :=
  match vs with
  | [] => GOk (OArr x)
  | v :: t => match gen_getitem x v with GOk (OArr y) => gen_getitems y t | r => r end
  end.
Theorem gen_getitems_model : forall ixs x, gen_getitems x (map emb_index ixs) = lift_res (getitems true x ixs).
Proof.
  induction ixs as [|ix ixs IH]; intros x; [reflexivity|]. cbn [map gen_getitems getitems].
  rewrite gen_getitem_full_model. fold (getitem x ix). destruct (getitem x ix); cbn [lift_res]; [apply IH|reflexivity|reflexivity].
Qed.
