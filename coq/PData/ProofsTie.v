(* TRANSLATOR TIE for C11.  coq/gen/PDataGen.v is regenerated from psiaudio/pipeline.py on every run by
   translate/pypdata2coq.py (statement by statement, over the value universe and primitives of PData/TieLib.v).
   Here the generated definitions are proved EQUAL to the hand-written model of PData/Model.v the C11 theorems are
   about.  Stdlib only; everything is closed under the global context. *)
From Coq Require Import ZArith List Bool Lia ZifyBool.
From PV Require Import PData.Model PData.Spec PData.Proofs PData.ProofsX PData.ProofsX2 PData.TieLib gen.PDataGen.
Import ListNotations.
Open Scope Z_scope.

(* ------------------------------------------------------------------ the monad and the loops *)
Lemma gbind_ret A (r : gres A) : gbind r (fun a => GOk a) = r.
Proof. destruct r; reflexivity. Qed.

Lemma giter_append (v : pyval) n : forall l, giter n (fun l => GOk (l ++ [v])) l = GOk (l ++ rep_range v n).
Proof.
  unfold giter, rep_range. induction (Z.to_nat n) as [|k IH]; intros l; cbn [repeat gfold gbind].
  - now rewrite app_nil_r.
  - rewrite IH, <- app_assoc. reflexivity.
Qed.

Lemma map_emb_repeat n : map emb_n (repeat nfull n) = repeat pfull n.
Proof. induction n; cbn [repeat map]; [reflexivity | now rewrite IHn]. Qed.

(* ------------------------------------------------------------------ normalize_index *)
Definition normalize_x (i : xindex) (nd : Z) : err + list nitem :=
  match i with XIdx ix => normalize_index true ix nd | XArr zs => normalize_int_array true zs nd end.
Definition lift_norm (r : err + list nitem) : gres pyval :=
  match r with inl e => GRaise e | inr s => GOk (PTuple (map emb_n s)) end.

Ltac gen_red :=
  unfold gen_normalize_index;
  cbn beta iota zeta delta [gbind gand py_is_none py_is_ellipsis py_is_skip isinst_int isinst_npinteger
                            isinst_slice isinst_list isinst_ndarray py_int py_dtype_is_bool py_size py_ndim py_all py_tolist
                            py_iter py_len orb andb negb].

Lemma countb_ell_abs vs : forallb item_val vs = true -> countb (fun i => py_is_ellipsis i) vs = countb is_ell (map abs_item vs).
Proof.
  induction vs as [|v vs IH]; intros H; [reflexivity|]. cbn [forallb] in H. apply andb_prop in H. destruct H as [Hv H].
  cbn [map]. rewrite !countb_cons, IH by exact H. destruct v; try discriminate; reflexivity.
Qed.

Lemma countb_none_abs vs : forallb item_val vs = true -> countb (fun i => py_is_none i) vs = countb is_new (map abs_item vs).
Proof.
  induction vs as [|v vs IH]; intros H; [reflexivity|]. cbn [forallb] in H. apply andb_prop in H. destruct H as [Hv H].
  cbn [map]. rewrite !countb_cons, IH by exact H. destruct v; try discriminate; reflexivity.
Qed.

(* the loop `for i in index` with a body that appends what conv_item says *)
Lemma gfold_conv (f : pyval -> list pyval -> gres (list pyval)) fill :
  (forall i acc, item_val i = true -> f i acc = GOk (acc ++ map emb_n (conv_item fill (abs_item i)))) ->
  forall vs acc, forallb item_val vs = true ->
  gfold f vs acc = GOk (acc ++ map emb_n (flat_map (conv_item fill) (map abs_item vs))).
Proof.
  intros Hf. induction vs as [|v vs IH]; intros acc H; cbn [gfold map flat_map].
  - now rewrite app_nil_r.
  - cbn [forallb] in H. apply andb_prop in H. destruct H as [Hv H].
    rewrite Hf by exact Hv. cbn [gbind]. rewrite IH by exact H. rewrite map_app, app_assoc. reflexivity.
Qed.

Lemma gen_normalize_tuple vs nd : forallb item_val vs = true ->
  gen_normalize_index (PTuple vs) nd = lift_norm (normalize_tuple true nd (map abs_item vs)).
Proof.
  intros H. gen_red. unfold normalize_tuple.
  rewrite (countb_ell_abs vs H), (countb_none_abs vs H). cbn [negb andb].
  destruct (countb is_ell (map abs_item vs) >? 1); [reflexivity|].
  set (nd' := nd + countb is_new (map abs_item vs)).
  match goal with |- context [gfold ?f vs []] =>
    rewrite (gfold_conv f (nd' - zlen (map abs_item vs) + 1)) end; [|clear H|exact H].
  - cbn [gbind app]. rewrite (giter_append pfull). cbn [lift_norm]. rewrite map_app, map_emb_repeat, !zlen_map.
    reflexivity.
  - intros i acc Hi. rewrite zlen_map.
    destruct i; try discriminate Hi; gen_red; cbn [abs_item conv_item map]; try reflexivity.
    rewrite (giter_append pfull). cbn [gbind]. rewrite map_emb_repeat. reflexivity.
Qed.

(* a bare list / 1-D ndarray goes through `.tolist()` and `(np.s_[index],)`: the same statements as for the 1-tuple *)
Lemma gen_normalize_wrap v nd : isinst_list v = true -> gen_normalize_index v nd = gen_normalize_index (PTuple [v]) nd.
Proof. destruct v; try discriminate; intros _; reflexivity. Qed.

(* TIE 1: normalize_index, for EVERY index value: bare int / np.integer / slice / list of ints / list of bools /
   boolean ndarray / integer ndarray / Ellipsis / None, and every tuple of them; every ndim (also 0 and negative) *)
Theorem gen_normalize_index_tie v nd : idx_val v = true ->
  gen_normalize_index v nd = lift_norm (normalize_x (abs_x v) nd).
Proof.
  intros Hv. destruct v; try discriminate Hv.
  - (* int *) gen_red. cbn [lift_norm normalize_x abs_x abs_item normalize_index sole items map emb_n app].
    rewrite map_emb_repeat. reflexivity.
  - (* np.integer *) gen_red. cbn [lift_norm normalize_x abs_x abs_item normalize_index sole items map emb_n app].
    rewrite map_emb_repeat. reflexivity.
  - (* slice *) gen_red. cbn [lift_norm normalize_x abs_x abs_item normalize_index sole items map emb_n app].
    rewrite map_emb_repeat. reflexivity.
  - (* list of ints *) rewrite gen_normalize_wrap, gen_normalize_tuple by reflexivity. reflexivity.
  - (* list of bools *) rewrite gen_normalize_wrap, gen_normalize_tuple by reflexivity. reflexivity.
  - (* integer ndarray: not a mask, whatever it holds *)
    transitivity (gen_normalize_index (PTuple [PListZ zs]) nd); [reflexivity|].
    rewrite gen_normalize_tuple by reflexivity. reflexivity.
  - (* boolean ndarray: all-True and not empty, or a mask like the list *)
    cbn [lift_norm normalize_x abs_x abs_item normalize_index sole items].
    destruct bs as [|b bs].
    + transitivity (gen_normalize_index (PTuple [PListB []]) nd); [reflexivity|].
      rewrite gen_normalize_tuple by reflexivity. reflexivity.
    + destruct (forallb (fun b => b) (b :: bs)) eqn:E.
      * gen_red. rewrite E. cbn [andb lift_norm]. rewrite zlen_cons.
        replace (1 + zlen bs =? 0) with false by (pose proof (zlen_nonneg bs); lia). cbn [negb].
        rewrite map_emb_repeat. reflexivity.
      * cbn [andb]. transitivity (gen_normalize_index (PTuple [PListB (b :: bs)]) nd).
        { gen_red. rewrite E. rewrite zlen_cons.
          replace (1 + zlen bs =? 0) with false by (pose proof (zlen_nonneg bs); lia). reflexivity. }
        rewrite gen_normalize_tuple by reflexivity. reflexivity.
  - (* Ellipsis *) gen_red. cbn [lift_norm normalize_x abs_x abs_item normalize_index sole items]. now rewrite map_emb_repeat.
  - (* None *) gen_red. cbn [lift_norm normalize_x abs_x abs_item normalize_index sole items map emb_n app].
    now rewrite map_emb_repeat.
  - (* tuple *) cbn [idx_val] in Hv. rewrite gen_normalize_tuple by exact Hv. reflexivity.
Qed.

(* the value is needed to be an index value: the sentinel / a nested tuple inside a tuple is refused by the code
   ('Unrecognized index type') while its reading [abs_item] is arbitrary *)
Lemma gen_normalize_index_tie_refuted :
  exists v nd, idx_val v = false /\ gen_normalize_index v nd <> lift_norm (normalize_x (abs_x v) nd).
Proof. exists (PTuple [PTuple []]), 1. split; [reflexivity|]. vm_compute. discriminate. Qed.

Example gen_normalize_index_ex :
  idx_val (PTuple [PNone; PEllipsis; PNpInt 2; PArrB [true; false]]) = true /\
  gen_normalize_index (PTuple [PNone; PEllipsis; PNpInt 2; PArrB [true; false]]) 3
  = GOk (PTuple [PNone; pfull; PInt 2; PListB [true; false]]).
Proof. split; reflexivity. Qed.

(* the model's own index expressions, written as values *)
Lemma abs_emb_item it : abs_item (emb_item it) = it.
Proof. destruct it as [| | |bs [|]| |]; reflexivity. Qed.
Lemma item_val_emb it : item_val (emb_item it) = true.
Proof. destruct it as [| | |bs [|]| |]; reflexivity. Qed.
Lemma map_abs_emb its : map abs_item (map emb_item its) = its.
Proof. induction its as [|it its IH]; [reflexivity|]. cbn [map]. now rewrite abs_emb_item, IH. Qed.
Lemma forallb_item_val_emb its : forallb item_val (map emb_item its) = true.
Proof. induction its as [|it its IH]; [reflexivity|]. cbn [map forallb]. now rewrite item_val_emb, IH. Qed.
Lemma idx_val_emb ix : idx_val (emb_index ix) = true.
Proof.
  unfold emb_index. destruct (sole ix); [|apply forallb_item_val_emb].
  destruct (items ix) as [|it [|it2 its]]; [reflexivity| |apply forallb_item_val_emb].
  destruct it as [| | |bs [|]| |]; reflexivity.
Qed.
Lemma normalize_emb ix nd : normalize_x (abs_x (emb_index ix)) nd = normalize_index true ix nd.
Proof.
  destruct ix as [[|] its]; unfold emb_index; cbn [sole items].
  - destruct its as [|it [|it2 its]].
    + reflexivity.
    + destruct it as [| | |bs [|]| |]; reflexivity.
    + cbn [abs_x normalize_x]. rewrite map_abs_emb. destruct it as [| | |bs [|]| |]; reflexivity.
  - cbn [abs_x normalize_x]. rewrite map_abs_emb. reflexivity.
Qed.
Theorem gen_normalize_index_model ix nd :
  gen_normalize_index (emb_index ix) nd = lift_norm (normalize_index true ix nd).
Proof. rewrite gen_normalize_index_tie by apply idx_val_emb. now rewrite normalize_emb. Qed.

(* ------------------------------------------------------------------ PipelineData.__getitem__ *)
Definition lift_res (r : res) : gres pyobj :=
  match r with RArr p => GOk (OArr p) | RScalar v => GOk (OScal v) | RErr e => GRaise e end.
Definition emb_o (o : option nitem) : pyval := match o with None => PSkip | Some t => emb_n t end.

Lemma getitem_x_with x v :
  getitem_x true x (abs_x v) = getitem_with true x (abs_items v) (normalize_x (abs_x v) (ndim x)).
Proof. destruct v; reflexivity. Qed.

(* list lemmas for the two selections written with np.arange: by integer lists and by masks *)
Lemma norm_idx_idem n z : idx_ok n z = true -> norm_idx n (norm_idx n z) = norm_idx n z /\ idx_ok n (norm_idx n z) = true.
Proof. unfold idx_ok, norm_idx. intros H. destruct (z <? 0) eqn:E; [destruct (z + n <? 0) eqn:E2|rewrite E]; lia. Qed.

Lemma arange_list_ok n zs : forallb (idx_ok n) zs = true -> forallb (idx_ok n) (map (norm_idx n) zs) = true.
Proof.
  induction zs as [|z zs IH]; [reflexivity|]. cbn [forallb map]. intros H. apply andb_prop in H. destruct H as [Hz H].
  rewrite (proj2 (norm_idx_idem n z Hz)), IH by exact H. reflexivity.
Qed.
Lemma arange_list_sel (l : list Z) zs : forallb (idx_ok (zlen l)) zs = true ->
  map (py_index 0 l) (map (norm_idx (zlen l)) zs) = map (py_index 0 l) zs.
Proof.
  induction zs as [|z zs IH]; [reflexivity|]. cbn [forallb map]. intros H. apply andb_prop in H. destruct H as [Hz H].
  rewrite IH by exact H. f_equal. unfold py_index. now rewrite (proj1 (norm_idx_idem _ z Hz)).
Qed.

Lemma py_index_app_r (pre l : list Z) k : 0 <= k -> py_index 0 (pre ++ l) (zlen pre + k) = nth (Z.to_nat k) l 0.
Proof.
  intros Hk. unfold py_index, norm_idx. pose proof (zlen_nonneg pre).
  replace (zlen pre + k <? 0) with false by lia.
  replace (Z.to_nat (zlen pre + k)) with (length pre + Z.to_nat k)%nat by (unfold zlen in *; lia).
  now rewrite app_nth2_plus.
Qed.
Lemma arange_mask bs : forall (l pre : list Z), length bs = length l ->
  forallb (idx_ok (zlen (pre ++ l))) (nonzero_from (zlen pre) bs) = true /\
  map (py_index 0 (pre ++ l)) (nonzero_from (zlen pre) bs) = mask_sel bs l.
Proof.
  induction bs as [|b bs IH]; intros l pre Hl; [split; reflexivity|].
  destruct l as [|a l]; [discriminate Hl|]. injection Hl as Hl.
  specialize (IH l (pre ++ [a]) Hl).
  replace (zlen (pre ++ [a])) with (zlen pre + 1) in IH by (rewrite zlen_app; reflexivity).
  rewrite <- app_assoc in IH. cbn [app] in IH. destruct IH as [IH1 IH2].
  cbn [nonzero_from mask_sel]. destruct b; [|split; assumption].
  cbn [forallb map]. rewrite IH1, IH2. split.
  - rewrite andb_true_r. unfold idx_ok. rewrite zlen_app, zlen_cons.
    pose proof (zlen_nonneg pre). pose proof (zlen_nonneg l). lia.
  - f_equal. replace (zlen pre) with (zlen pre + 0) by lia. rewrite py_index_app_r by lia. reflexivity.
Qed.
Lemma arange_mask0 bs (l : list Z) : zlen bs = zlen l ->
  forallb (idx_ok (zlen l)) (nonzero_from 0 bs) = true /\ map (py_index 0 l) (nonzero_from 0 bs) = mask_sel bs l.
Proof. intros H. apply (arange_mask bs l []). unfold zlen in H. lia. Qed.

Lemma set_chan_same o : set_chan o (chan o) = o. Proof. destruct o; reflexivity. Qed.
Lemma set_meta_same o : set_meta o (meta o) = o. Proof. destruct o; reflexivity. Qed.

Ltac blk_red :=
  unfold sequence_idx;
  cbn [gbind gand py_is_none py_is_skip py_is_ellipsis isinst_int isinst_slice isinst_list emb_o emb_n lab_is_list lab_wrap
       lab_len lab_getitem np_arange_getitem lab_getitems np_array_getitem_tolist py_all_true_bools py_attr_start
       py_attr_step py_optz is_some negb orb andb set_chan set_meta set_s0 set_fs pd_fs rate_div chan meta s0 fsn fsd shape dat
       fst snd fix_chan fix_meta fix_time lift_many sequence_idx finalized n_time].

(* TIE 2: __getitem__ when NumPy returns an array of 1 to 3 dimensions (the only case in which the model returns an
   annotated array): the generated fix-up = the model's fix_time / fix_chan / fix_meta, every raise included *)
Theorem gen_getitem_arr x v sh d : idx_val v = true ->
  np_getitem (shape x) (dat x) (abs_items v) = NPArr sh d ->
  gen_getitem x v = lift_res (getitem_x true x (abs_x v)).
Proof.
  intros Hv Hnp. rewrite getitem_x_with. unfold gen_getitem, np_super_getitem, getitem_with. rewrite Hnp.
  cbn [gbind isinst_PipelineData]. rewrite gen_normalize_index_tie by exact Hv.
  destruct (normalize_x (abs_x v) (ndim x)) as [e|sn]; cbn [lift_norm gbind lift_res]; [reflexivity|].
  (* len(s) == 1 / 2 / 3: split3 *)
  match goal with |- gbind ?CH _ = _ =>
    assert (HCH : CH = match split3 sn with None => GRaise EUnbound
                                       | Some (es, cs, ts) => GOk (emb_o es, emb_o cs, emb_n ts) end) end.
  { destruct sn as [|t [|c [|e [|e2 sn]]]]; try reflexivity.
    cbn [py_len map gbind]. rewrite !zlen_cons. pose proof (zlen_nonneg (map emb_n sn)).
    replace (1 + (1 + (1 + (1 + zlen (map emb_n sn)))) =? 1) with false by lia.
    replace (1 + (1 + (1 + (1 + zlen (map emb_n sn)))) =? 2) with false by lia.
    replace (1 + (1 + (1 + (1 + zlen (map emb_n sn)))) =? 3) with false by lia. reflexivity. }
  rewrite HCH; clear HCH. destruct (split3 sn) as [[[es cs] ts]|]; cbn [gbind lift_res]; [|reflexivity].
  (* the channel and the metadata block, for any object they are applied to *)
  match goal with |- (if _ then _ else if _ then _ else gbind _ ?K) = _ => set (Kf := K) end.
  assert (HK : forall o, Kf o = match fix_chan true cs (chan o) with
                                | inl e => GRaise e
                                | inr ch' => match fix_meta es (meta o) with
                                             | inl e => GRaise e
                                             | inr md' => GOk (OArr (set_meta (set_chan o ch') md'))
                                             end
                                end).
  { intros o. subst Kf. cbv beta.
    match goal with |- gbind ?C ?K2 = _ =>
      assert (HK2 : forall o, K2 o = match fix_meta es (meta o) with
                                     | inl e => GRaise e | inr md' => GOk (OArr (set_meta o md')) end);
      [|assert (HC : C = match fix_chan true cs (chan o) with inl e => GRaise e | inr ch' => GOk (set_chan o ch') end)] end.
    - clear. intros o. cbv beta.
      destruct es as [[z|a b c|zs|bs|]|]; blk_red.
      + destruct (meta o) as [m|l] eqn:E; blk_red; [reflexivity|]. destruct (idx_ok (zlen l) z); blk_red; reflexivity.
      + destruct (meta o) as [m|l] eqn:E; reflexivity.
      + destruct (meta o) as [m|l] eqn:E; blk_red; [reflexivity|]. destruct (forallb (idx_ok (zlen l)) zs); blk_red; reflexivity.
      + destruct (meta o) as [m|l] eqn:E; blk_red; [reflexivity|]. destruct (zlen bs =? zlen l); blk_red; reflexivity.
      + destruct (meta o) as [m|l] eqn:E; blk_red; [reflexivity|].
        destruct (zlen l =? 1); blk_red; [|reflexivity]. now rewrite <- E, set_meta_same.
      + now rewrite set_meta_same.
    - clear HK2. destruct cs as [[z|a b c|zs|bs|]|]; blk_red.
      + destruct (chan o) as [m|l] eqn:E; blk_red; [reflexivity|]. destruct (idx_ok (zlen l) z); blk_red; reflexivity.
      + destruct (chan o) as [m|l] eqn:E; reflexivity.
      + destruct (chan o) as [m|l] eqn:E; blk_red; [reflexivity|].
        destruct (forallb (idx_ok (zlen l)) zs) eqn:F; blk_red; [|reflexivity].
        rewrite arange_list_ok, arange_list_sel by exact F. reflexivity.
      + destruct (chan o) as [m|l] eqn:E; blk_red; [reflexivity|].
        destruct (zlen bs =? zlen l) eqn:F; blk_red; [|reflexivity].
        destruct (arange_mask0 bs l) as [F1 F2]; [lia|]. rewrite F1, F2. reflexivity.
      + destruct (chan o) as [m|l] eqn:E; blk_red; [reflexivity|].
        destruct (zlen l =? 1); blk_red; [|reflexivity]. now rewrite <- E, set_chan_same.
      + now rewrite set_chan_same.
    - rewrite HC. destruct (fix_chan true cs (chan o)) as [e|ch']; cbn [gbind]; [reflexivity|]. exact (HK2 (set_chan o ch')). }
  clearbody Kf.
  (* the time block *)
  assert (FIN : forall o, chan o = finalize_chan (chan x) sh -> meta o = meta x ->
                Kf o = lift_res match fix_chan true cs (finalize_chan (chan x) sh) with
                                | inl e => RErr e
                                | inr ch' => match fix_meta es (meta x) with
                                             | inl e => RErr e
                                             | inr md' => RArr (set_meta (set_chan o ch') md')
                                             end
                                end).
  { intros o Hc Hm. rewrite HK, Hc, Hm. destruct (fix_chan true cs (finalize_chan (chan x) sh)); [reflexivity|].
    destruct (fix_meta es (meta x)); reflexivity. }
  clear HK.
  destruct ts as [z|a b c|zs|bs|]; blk_red; try reflexivity.
  - (* slice *)
    destruct a as [st|]; blk_red.
    + destruct (st >? 0); blk_red; [|destruct (st <? 0); blk_red].
      all: destruct c as [k|]; blk_red; rewrite FIN by reflexivity; reflexivity.
    + destruct c as [k|]; blk_red; rewrite FIN by reflexivity; reflexivity.
  - destruct (zlen zs =? 0); blk_red; [|reflexivity]. rewrite FIN by reflexivity. reflexivity.
  - destruct (forallb (fun b => b) bs); blk_red; [|reflexivity]. rewrite FIN by reflexivity. reflexivity.
Qed.

(* NumPy refuses the index / returns a scalar (no Ellipsis: a genuine scalar without annotations) *)
Theorem gen_getitem_err x v : np_getitem (shape x) (dat x) (abs_items v) = NPErr ->
  gen_getitem x v = lift_res (getitem_x true x (abs_x v)).
Proof.
  intros Hnp. rewrite getitem_x_with. unfold gen_getitem, np_super_getitem, getitem_with. rewrite Hnp. reflexivity.
Qed.
Theorem gen_getitem_scalar x v w : np_getitem (shape x) (dat x) (abs_items v) = NPScalar w ->
  existsb is_ell (abs_items v) = false ->
  gen_getitem x v = lift_res (getitem_x true x (abs_x v)).
Proof.
  intros Hnp He. rewrite getitem_x_with. unfold gen_getitem, np_super_getitem, getitem_with. rewrite Hnp, He. reflexivity.
Qed.

(* the class of NumPy results the tie is proved for: an error, a genuine scalar, an array of 1 to 3 dimensions.
   Outside it (a 0-d array produced with an Ellipsis, a result above 3-D) the model returns an error in every case and
   so does the implementation (differential testing); the equality is not proved there *)
Definition np_plain (r : npres) (its : list item) : bool :=
  match r with NPErr => true | NPArr _ _ => true | NPScalar _ => negb (existsb is_ell its) | NPBig _ => false end.
Theorem gen_getitem_tie x v : idx_val v = true ->
  np_plain (np_getitem (shape x) (dat x) (abs_items v)) (abs_items v) = true ->
  gen_getitem x v = lift_res (getitem_x true x (abs_x v)).
Proof.
  intros Hv Hp. destruct (np_getitem (shape x) (dat x) (abs_items v)) as [|w|sh d|sh] eqn:E; cbn [np_plain] in Hp.
  - now apply gen_getitem_err.
  - apply (gen_getitem_scalar x v w E). now destruct (existsb is_ell (abs_items v)).
  - now apply (gen_getitem_arr x v sh d).
  - discriminate.
Qed.

(* whenever the model returns an annotated array, NumPy's result is in that class *)
Lemma getitem_with_arr_class x its norm r : getitem_with true x its norm = RArr r ->
  exists sh d, np_getitem (shape x) (dat x) its = NPArr sh d.
Proof.
  unfold getitem_with. destruct (np_getitem (shape x) (dat x) its) as [|w|sh d|sh]; intros H.
  - discriminate.
  - destruct (existsb is_ell its); [|discriminate]. destruct norm as [e|s]; [discriminate|].
    destruct (split3 s) as [[[es cs] ts]|]; [|discriminate]. destruct (fix_time true x ts); discriminate.
  - now exists sh, d.
  - destruct norm; discriminate.
Qed.

(* COROLLARY: every annotated array the model returns is returned by the generated __getitem__, for every index value *)
Theorem gen_getitem_returns x v r : idx_val v = true ->
  getitem_x true x (abs_x v) = RArr r -> gen_getitem x v = GOk (OArr r).
Proof.
  intros Hv H. pose proof H as H'. rewrite getitem_x_with in H'.
  destruct (getitem_with_arr_class _ _ _ _ H') as (sh & d & Hnp).
  rewrite (gen_getitem_arr x v sh d Hv Hnp), H. reflexivity.
Qed.

(* ... and for the index expressions of the model's grammar *)
Lemma abs_x_emb x ix : getitem_x true x (abs_x (emb_index ix)) = getitem x ix.
Proof.
  rewrite getitem_x_with. unfold getitem. rewrite getitem_gen_with, normalize_emb. f_equal.
  destruct ix as [[|] its]; unfold emb_index; cbn [sole items abs_items].
  - destruct its as [|it [|it2 its]]; [reflexivity| |apply map_abs_emb].
    destruct it as [| | |bs [|]| |]; reflexivity.
  - apply map_abs_emb.
Qed.
Theorem gen_getitem_model x ix r : getitem x ix = RArr r -> gen_getitem x (emb_index ix) = GOk (OArr r).
Proof. intros H. apply gen_getitem_returns; [apply idx_val_emb | now rewrite abs_x_emb]. Qed.

(* C11_getitem_regular over the definitions regenerated from the source *)
Theorem source_getitem_regular x ix k per :
  wf x -> denotes (ndim x) ix k per -> valid_on (shape x) per ->
  exists d0 d', np_regular (dat x) per = Some d0 /\ wrap_new k d0 = Some d' /\
                gen_getitem x (emb_index ix) = GOk (OArr (spec_result x k per d')).
Proof.
  intros Hw Hd Hv. destruct (getitem_regular x ix k per Hw Hd Hv) as (d0 & d' & H1 & H2 & H3).
  exists d0, d'. split; [exact H1|]. split; [exact H2|]. now apply gen_getitem_model.
Qed.

(* under the hypotheses of the C11 theorems the generated function returns exactly what the model returns *)
Lemma source_regular_inv x ix k per r :
  wf x -> denotes (ndim x) ix k per -> valid_on (shape x) per ->
  gen_getitem x (emb_index ix) = GOk (OArr r) -> getitem x ix = RArr r.
Proof.
  intros Hw Hd Hv H. destruct (source_getitem_regular x ix k per Hw Hd Hv) as (d0 & d' & _ & _ & H3).
  destruct (getitem_regular x ix k per Hw Hd Hv) as (e0 & e' & _ & _ & H4).
  rewrite H3 in H. injection H as <-. rewrite H4. f_equal.
  destruct (source_getitem_regular x ix k per Hw Hd Hv) as (f0 & f' & _ & _ & H5).
  rewrite (gen_getitem_model x ix _ H4) in H3. now injection H3 as <-.
Qed.

Theorem source_time_axis_commutes x ix k per r a b c :
  wf x -> denotes (ndim x) ix k per -> valid_on (shape x) per -> time_item per = ISlice a b c ->
  step_of c = 1 -> gen_getitem x (emb_index ix) = GOk (OArr r) ->
  fsn r = fsn x /\ fsd r = fsd x /\ taxis r = py_slice a b (taxis x) /\
  Forall (fun row' => exists row, In row (rows (dat x)) /\ row' = py_slice a b row) (rows (dat r)).
Proof. intros Hw Hd Hv Ht Hs H. apply (time_axis_commutes x ix k per r a b c); auto. eapply source_regular_inv; eauto. Qed.

Theorem source_stride_rate x ix k per r a b c :
  wf x -> denotes (ndim x) ix k per -> valid_on (shape x) per -> time_item per = ISlice a b c ->
  gen_getitem x (emb_index ix) = GOk (OArr r) ->
  1 <= step_of c /\ fsn r = fsn x /\ fsd r = fsd x * step_of c /\
  n_time r = py_slice_len (n_time x) a b (step_of c) /\
  Forall (fun row' => exists row, In row (rows (dat x)) /\ row' = py_slice_step a b (step_of c) row) (rows (dat r)).
Proof. intros Hw Hd Hv Ht H. apply (stride_rate x ix k per r a b c); auto. eapply source_regular_inv; eauto. Qed.

Theorem source_labels_metadata_follow x ix k per r :
  wf x -> denotes (ndim x) ix k per -> valid_on (shape x) per ->
  epoch_without_channel (ndim x) k per = false ->
  gen_getitem x (emb_index ix) = GOk (OArr r) ->
  chan r = spec_chan k per (chan x) /\ meta r = spec_meta k per (meta x) /\
  forall md ch row', has_row r md ch row' ->
    exists row, has_row x md ch row /\ row' = sel_t (time_item per) row.
Proof. intros Hw Hd Hv He H. apply (annotations_follow x ix k per r); auto. eapply source_regular_inv; eauto. Qed.

Theorem source_counts x ix k per r :
  wf x -> denotes (ndim x) ix k per -> valid_on (shape x) per ->
  epoch_without_channel (ndim x) k per = false ->
  gen_getitem x (emb_index ix) = GOk (OArr r) -> wf r.
Proof. intros Hw Hd Hv He H. apply (counts x ix k per r); auto. eapply source_regular_inv; eauto. Qed.

(* the hypotheses are satisfiable: x[np.newaxis, ..., -20:] on a 1-D array of 10 samples starting at sample 5 *)
Example source_ex :
  let x := mk [10] 5 1000 1 (LOne 70) (LOne 90) in
  let v := PTuple [PNone; PEllipsis; PSlice (Some (-20)) None None] in
  idx_val v = true /\ np_plain (np_getitem (shape x) (dat x) (abs_items v)) (abs_items v) = true /\
  res_of (gen_getitem x v) = Some (mkv [1; 10] [0; 1; 2; 3; 4; 5; 6; 7; 8; 9] 5 1000 1 (LMany [70]) (LOne 90)).
Proof. cbn zeta. split; [reflexivity|]. split; vm_compute; reflexivity. Qed.
