(* Vocabulary of the TRANSLATOR TIE for C11 (translate/pypdata2coq.py -> coq/gen/PDataGen.v).  Definitions only.

   The generated definitions are written over a small universe of Python values [pyval] - every index value the C11
   grammar can produce, plus NumPy integer scalars and 1-D integer ndarrays - and over the model's own annotation record
   [pd] (PData/Model.v).  One definition per Python / NumPy primitive the translated statements use.  A primitive applied
   outside the operands it is defined on yields GStuck ("outside the translated fragment"): the tie theorems show that
   the generated functions never get stuck on index values.  Raised exceptions are values (GRaise e, e of Model.err).

   NumPy's own indexing of the data (super().__getitem__) is NOT translated: it is the modelled primitive np_getitem of
   PData/Model.v, wrapped here as np_super_getitem together with __array_finalize__ (finalize_chan). *)
From PV Require Export PData.Model.

Inductive pyval :=
| PInt (z : Z)                       (* python int *)
| PNpInt (z : Z)                     (* np.integer scalar *)
| PSlice (a b c : option Z)          (* slice(a, b, c) *)
| PListZ (zs : list Z)               (* python list of ints *)
| PListB (bs : list bool)            (* python list of bool / np.bool_ *)
| PArrZ (zs : list Z)                (* 1-D integer ndarray *)
| PArrB (bs : list bool)             (* 1-D ndarray of dtype bool *)
| PEllipsis
| PNone                              (* None = np.newaxis *)
| PSkip                              (* the sentinel `skip = object()` of __getitem__ *)
| PTuple (vs : list pyval).

Inductive gres (A : Type) := GOk (a : A) | GRaise (e : err) | GStuck.
Arguments GOk {A} a.
Arguments GRaise {A} e.
Arguments GStuck {A}.
Definition gbind {A B} (r : gres A) (f : A -> gres B) : gres B :=
  match r with GOk a => f a | GRaise e => GRaise e | GStuck => GStuck end.
(* `a and b` in a test: b is not evaluated (cannot raise) when a is false *)
Definition gand (a b : gres bool) : gres bool := match a with GOk true => b | r => r end.
Fixpoint gfold {A S} (f : A -> S -> gres S) (l : list A) (s : S) : gres S :=
  match l with [] => GOk s | a :: t => gbind (f a s) (gfold f t) end.
(* for _ in range(n): body *)
Definition giter {S} (n : Z) (f : S -> gres S) (s : S) : gres S := gfold (fun _ : unit => f) (repeat tt (Z.to_nat n)) s.
(* [c for _ in range(n)] *)
Definition rep_range {A} (c : A) (n : Z) : list A := repeat c (Z.to_nat n).

Definition pfull : pyval := PSlice None None None.       (* slice(None) *)

(* ---- identity tests with singletons, isinstance *)
Definition py_is_none (v : pyval) : bool := match v with PNone => true | _ => false end.
Definition py_is_ellipsis (v : pyval) : bool := match v with PEllipsis => true | _ => false end.
Definition py_is_skip (v : pyval) : bool := match v with PSkip => true | _ => false end.
Definition isinst_int (v : pyval) : bool := match v with PInt _ => true | _ => false end.
Definition isinst_npinteger (v : pyval) : bool := match v with PNpInt _ => true | _ => false end.
Definition isinst_slice (v : pyval) : bool := match v with PSlice _ _ _ => true | _ => false end.
Definition isinst_list (v : pyval) : bool := match v with PListZ _ | PListB _ => true | _ => false end.
Definition isinst_ndarray (v : pyval) : bool := match v with PArrZ _ | PArrB _ => true | _ => false end.
Definition isinst_PipelineData (v : pyval) : bool := false.   (* no value of the universe is an annotated array *)
Definition is_some {A} (o : option A) : bool := match o with Some _ => true | None => false end.

(* ---- operations on index values *)
Definition py_int (v : pyval) : gres pyval :=
  match v with PInt z | PNpInt z => GOk (PInt z) | _ => GStuck end.
Definition py_dtype_is_bool (v : pyval) : gres bool :=       (* v.dtype == bool *)
  match v with PArrB _ => GOk true | PArrZ _ => GOk false | _ => GStuck end.
Definition py_size (v : pyval) : gres Z :=
  match v with PArrB bs => GOk (zlen bs) | PArrZ zs => GOk (zlen zs) | _ => GStuck end.
Definition py_ndim (v : pyval) : gres Z :=                   (* the ndarrays of the universe are 1-D *)
  match v with PArrB _ | PArrZ _ => GOk 1 | _ => GStuck end.
Definition py_all (v : pyval) : gres bool :=                 (* v.all() *)
  match v with PArrB bs => GOk (forallb (fun b => b) bs) | PArrZ zs => GOk (all_nonzero zs) | _ => GStuck end.
Definition py_tolist (v : pyval) : gres pyval :=
  match v with PArrB bs => GOk (PListB bs) | PArrZ zs => GOk (PListZ zs) | _ => GStuck end.
Definition py_iter (v : pyval) : gres (list pyval) :=        (* for i in v: only tuples are iterated *)
  match v with PTuple vs => GOk vs | _ => GStuck end.
Definition py_len (v : pyval) : gres Z :=
  match v with PTuple vs => GOk (zlen vs) | PListZ zs => GOk (zlen zs) | PListB bs => GOk (zlen bs) | _ => GStuck end.
Definition py_unpack1 (v : pyval) : gres pyval :=            (* (a,) = v *)
  match v with PTuple [a] => GOk a | PTuple _ => GRaise EValue | _ => GStuck end.
Definition py_unpack2 (v : pyval) : gres (pyval * pyval) :=
  match v with PTuple [a; b] => GOk (a, b) | PTuple _ => GRaise EValue | _ => GStuck end.
Definition py_unpack3 (v : pyval) : gres (pyval * pyval * pyval) :=
  match v with PTuple [a; b; c] => GOk (a, b, c) | PTuple _ => GRaise EValue | _ => GStuck end.
Definition py_attr_start (v : pyval) : gres (option Z) := match v with PSlice a _ _ => GOk a | _ => GStuck end.
Definition py_attr_step (v : pyval) : gres (option Z) := match v with PSlice _ _ c => GOk c | _ => GStuck end.
(* an int-or-None used as a number: None > 0, min(None, n), fs / None raise TypeError *)
Definition py_optz (o : option Z) : gres Z := match o with Some z => GOk z | None => GRaise ETypeKey end.
(* all(isinstance(t, (bool, np.bool_)) and t for t in v): a list of ints passes only when it is empty *)
Definition py_all_true_bools (v : pyval) : gres bool :=
  match v with PListB bs => GOk (forallb (fun b => b) bs) | PListZ zs => GOk (zlen zs =? 0) | _ => GStuck end.

(* ---- the annotated array: attributes *)
Inductive pyobj := OArr (p : pd) | OScal (v : Z).
Definition set_s0 (p : pd) (v : Z) : pd :=
  {| shape := shape p; dat := dat p; s0 := v; fsn := fsn p; fsd := fsd p; chan := chan p; meta := meta p |}.
Definition pd_fs (p : pd) : Z * Z := (fsn p, fsd p).
Definition rate_div (r : Z * Z) (k : Z) : Z * Z := (fst r, snd r * k).     (* fs / k, exactly *)
Definition set_fs (p : pd) (r : Z * Z) : pd :=
  {| shape := shape p; dat := dat p; s0 := s0 p; fsn := fst r; fsd := snd r; chan := chan p; meta := meta p |}.
Definition set_chan (p : pd) (l : lab) : pd :=
  {| shape := shape p; dat := dat p; s0 := s0 p; fsn := fsn p; fsd := fsd p; chan := l; meta := meta p |}.
Definition set_meta (p : pd) (l : lab) : pd :=
  {| shape := shape p; dat := dat p; s0 := s0 p; fsn := fsn p; fsd := fsd p; chan := chan p; meta := l |}.

(* ---- channel labels / metadata: a scalar or a python list (as modelled: identifiers) *)
Definition lab_is_list (l : lab) : bool := match l with LMany _ => true | LOne _ => false end.
Definition lab_wrap (l : lab) : gres lab :=                   (* [l]; a list of lists is outside the universe *)
  match l with LOne z => GOk (LMany [z]) | LMany _ => GStuck end.
Definition lab_len (l : lab) : gres Z :=                      (* len(scalar): TypeError *)
  match l with LMany zs => GOk (zlen zs) | LOne _ => GRaise ETypeKey end.
(* np.arange(n)[v], v a python list of ints or of bools *)
Definition np_arange_getitem (n : Z) (v : pyval) : gres (list Z) :=
  match v with
  | PListZ zs => if forallb (idx_ok n) zs then GOk (map (norm_idx n) zs) else GRaise EIndex
  | PListB bs => if zlen bs =? n then GOk (nonzero_from 0 bs) else GRaise EIndex
  | _ => GStuck
  end.
(* [l[s] for s in idx] *)
Definition lab_getitems (l : lab) (idx : list Z) : gres lab :=
  match l with
  | LMany zs => if forallb (idx_ok (zlen zs)) idx then GOk (LMany (map (py_index 0 zs) idx)) else GRaise EIndex
  | LOne _ => match idx with [] => GOk (LMany []) | _ => GRaise ETypeKey end
  end.
(* l[v], v an int or a slice: python list indexing (Common/PySlice.v); a scalar label / a metadata dict: TypeError / KeyError *)
Definition lab_getitem (l : lab) (v : pyval) : gres lab :=
  match l, v with
  | LMany zs, PInt z => if idx_ok (zlen zs) z then GOk (LOne (py_index 0 zs z)) else GRaise EIndex
  | LMany zs, PSlice a b c => GOk (LMany (py_slice_step a b (step_of c) zs))
  | LOne _, PInt _ | LOne _, PSlice _ _ _ => GRaise ETypeKey
  | _, _ => GStuck
  end.
(* np.array(l)[v].tolist(), v a python list of ints or of bools; np.array(dict)[list]: IndexError *)
Definition np_array_getitem_tolist (l : lab) (v : pyval) : gres lab :=
  match l, v with
  | LMany zs, PListZ ix => if forallb (idx_ok (zlen zs)) ix then GOk (LMany (map (py_index 0 zs) ix)) else GRaise EIndex
  | LMany zs, PListB bs => if zlen bs =? zlen zs then GOk (LMany (mask_sel bs zs)) else GRaise EIndex
  | LOne _, PListZ _ | LOne _, PListB _ => GRaise EIndex
  | _, _ => GStuck
  end.

(* ---- how an index value is read by the model (PData/Model.v: item / index / xindex) *)
Definition abs_item (v : pyval) : item :=
  match v with
  | PInt z | PNpInt z => IInt z
  | PSlice a b c => ISlice a b c
  | PListZ zs | PArrZ zs => IList zs
  | PListB bs => IMask bs false
  | PArrB bs => IMask bs true
  | PEllipsis => IEllipsis
  | PNone => INewaxis
  | PSkip | PTuple _ => IEllipsis            (* not index components: excluded by idx_val *)
  end.
Definition abs_items (v : pyval) : list item :=
  match v with PTuple vs => map abs_item vs | _ => [abs_item v] end.
Definition abs_x (v : pyval) : xindex :=
  match v with
  | PTuple vs => XIdx {| sole := false; items := map abs_item vs |}
  | PArrZ zs => XArr zs
  | _ => XIdx {| sole := true; items := [abs_item v] |}
  end.
(* the index values: anything but the sentinel, tuples one level deep *)
Definition item_val (v : pyval) : bool := match v with PSkip | PTuple _ => false | _ => true end.
Definition idx_val (v : pyval) : bool :=
  match v with PSkip => false | PTuple vs => forallb item_val vs | _ => true end.
(* ... and how the model's index expressions are written as values *)
Definition emb_item (it : item) : pyval :=
  match it with
  | IInt z => PInt z
  | ISlice a b c => PSlice a b c
  | IList zs => PListZ zs
  | IMask bs true => PArrB bs
  | IMask bs false => PListB bs
  | IEllipsis => PEllipsis
  | INewaxis => PNone
  end.
Definition emb_index (ix : index) : pyval :=
  if sole ix then match items ix with [it] => emb_item it | its => PTuple (map emb_item its) end
  else PTuple (map emb_item (items ix)).
Definition emb_n (t : nitem) : pyval :=
  match t with
  | NInt z => PInt z
  | NSlice a b c => PSlice a b c
  | NListZ zs => PListZ zs
  | NListB bs => PListB bs
  | NNew => PNone
  end.

(* ---- ndarray.__getitem__ on the data + __array_finalize__ (the modelled NumPy primitive; not translated) *)
Definition finalized (x : pd) (sh : list Z) (d : nest) : pd :=
  {| shape := sh; dat := d; s0 := s0 x; fsn := fsn x; fsd := fsd x; chan := finalize_chan (chan x) sh; meta := meta x |}.
Definition np_super_getitem (x : pd) (s : pyval) : gres pyobj :=
  match np_getitem (shape x) (dat x) (abs_items s) with
  | NPErr => GRaise EIndex
  | NPScalar v => if existsb is_ell (abs_items s) then GOk (OArr (finalized x [] (N1 [v])))    (* a 0-d annotated array *)
                  else GOk (OScal v)
  | NPArr sh d => GOk (OArr (finalized x sh d))
  | NPBig sh => GOk (OArr (finalized x sh (N1 [])))        (* above 3-D: the data are not modelled *)
  end.

(* ---- comparison for the self-test *)
Definition eqb_optZ := eqb_option Z.eqb.
Fixpoint eqb_listB (a b : list bool) : bool :=
  match a, b with [], [] => true | x :: a', y :: b' => Bool.eqb x y && eqb_listB a' b' | _, _ => false end.
Definition eqb_flat (a b : pyval) : bool :=
  match a, b with
  | PInt x, PInt y | PNpInt x, PNpInt y => x =? y
  | PSlice a1 b1 c1, PSlice a2 b2 c2 => eqb_optZ a1 a2 && eqb_optZ b1 b2 && eqb_optZ c1 c2
  | PListZ x, PListZ y | PArrZ x, PArrZ y => eqb_listZ x y
  | PListB x, PListB y | PArrB x, PArrB y => eqb_listB x y
  | PEllipsis, PEllipsis | PNone, PNone | PSkip, PSkip => true
  | PListZ [], PListB [] | PListB [], PListZ [] => true       (* the empty python list has both representations *)
  | _, _ => false
  end.
Definition eqb_pyval (a b : pyval) : bool :=
  match a, b with PTuple x, PTuple y => eqb_list eqb_flat x y | _, _ => eqb_flat a b end.
Definition eqb_gres {A} (eqb : A -> A -> bool) (a b : gres A) : bool :=
  match a, b with GOk x, GOk y => eqb x y | GRaise e, GRaise f => eqb_err e f | _, _ => false end.
(* what the caller of __getitem__ sees, in the model's result type (a 0-d array reads as its element) *)
Definition res_of (r : gres pyobj) : option res :=
  match r with
  | GOk (OScal v) => Some (RScalar v)
  | GOk (OArr p) => Some (match shape p with [] => RScalar (hd 0 (flat (dat p))) | _ => RArr p end)
  | GRaise e => Some (RErr e)
  | GStuck => None
  end.
Definition check_gen_getitem (r : gres pyobj) (got : res) : bool :=
  match res_of r with Some m => eqb_res m got | None => false end.
