(* C11, second extension: the repair "integer index arrays and lists are not mistaken for all-True masks"
   (psiaudio branch fix-C11idx).  Model: fix_time (list on the time axis) and normalize_int_array / getitem_int_array
   (a sole integer ndarray) in PData/Model.v, `rep = true` the repaired code, `rep = false` the code before.
   Stdlib only, no axioms. *)
From Coq Require Import ZArith List Bool Lia ZifyBool.
From PV Require Import PData.Model PData.Spec PData.Proofs.
Import ListNotations.
Open Scope Z_scope.

(* getitem_with is the body of getitem_gen *)
Lemma getitem_gen_with rep x ix :
  getitem_gen rep x ix = getitem_with rep x (items ix) (normalize_index rep ix (ndim x)).
Proof. reflexivity. Qed.

Definition sole_list (zs : list Z) : index := {| sole := true; items := [IList zs] |}.
Definition as_index (i : xindex) : index := match i with XIdx ix => ix | XArr zs => sole_list zs end.

(* ================================================================== a sole integer ndarray is the python list *)
(* repaired code: x[np.array(zs)] (any integer dtype, with or without a 0, empty or not) IS x[zs] with the python list -
   data, s0, rate, labels, metadata and every error - on every array, hence every theorem about list indices
   (C11_getitem_regular, C11_labels_metadata_follow, C11_counts_partial, ...) covers integer arrays *)
Theorem int_array_is_list x zs : getitem_int_array true x zs = getitem x (sole_list zs).
Proof. reflexivity. Qed.

Theorem int_arrays_are_lists : forall ixs x, getitems_x true x ixs = getitems true x (map as_index ixs).
Proof.
  induction ixs as [|i t IH]; intros x; [reflexivity|]. cbn [getitems_x getitems map].
  assert (E : getitem_x true x i = getitem_gen true x (as_index i)) by (destruct i; reflexivity).
  rewrite E. destruct (getitem_gen true x (as_index i)); try reflexivity. apply IH.
Qed.

Corollary int_array_regular x zs k per :
  wf x -> denotes (ndim x) (sole_list zs) k per -> valid_on (shape x) per ->
  exists d0 d', np_regular (dat x) per = Some d0 /\ wrap_new k d0 = Some d' /\
                getitem_int_array true x zs = RArr (spec_result x k per d').
Proof. intros Hwf Hd Hv. rewrite int_array_is_list. now apply getitem_regular. Qed.

(* spelled out for the first axis of 2-D and 3-D arrays: the array selects channel labels (2-D) / metadata entries
   (3-D) exactly like the list, in the order and with the repetitions of zs; the time base is untouched and the
   counts equal the axis lengths *)
Lemma denotes_sole_list_2 zs : denotes 2 (sole_list zs) 0 [IList zs; full].
Proof. exists [IList zs; full]. repeat split; vm_compute; congruence. Qed.
Lemma denotes_sole_list_3 zs : denotes 3 (sole_list zs) 0 [IList zs; full; full].
Proof. exists [IList zs; full; full]. repeat split; vm_compute; congruence. Qed.

Lemma all_ok_fulls n : forall sh, Forall (fun v => 0 <= v) sh -> length sh = n -> all_ok (repeat full n) sh = true.
Proof.
  induction n as [|n IH]; intros [|v sh] H E; try discriminate; [reflexivity|].
  cbn [repeat all_ok sel_ok full step_of]. inversion H; subst. rewrite IH; [reflexivity|assumption|]. cbn [length] in E. lia.
Qed.

Theorem int_array_selects x zs :
  wf x -> 2 <= ndim x -> forallb (idx_ok (hd 0 (shape x))) zs = true ->
  exists r, getitem_int_array true x zs = RArr r /\ wf r /\
    s0 r = s0 x /\ fsn r = fsn x /\ fsd r = fsd x /\ n_time r = n_time x /\ hd 0 (shape r) = zlen zs /\
    (ndim x = 2 -> chan r = sel_lab (IList zs) (chan x) /\ meta r = meta x) /\
    (ndim x = 3 -> meta r = sel_lab (IList zs) (meta x) /\ chan r = chan x).
Proof.
  intros Hwf Hnd Hok. pose proof Hwf as Hwf0.
  wf_cases x Hwf; unfold ndim in *; cbn [shape hd] in *; try (change (zlen [t1]) with 1 in Hnd; lia).
  - (* 2-D *)
    destruct Hwf as (Ht & [Hb1 Hb2] & Hl).
    match type of Hwf0 with wf ?X =>
      assert (Hv : valid_on (shape X) [IList zs; full])
        by (unfold valid_on; cbn [shape all_ok sel_ok full step_of]; rewrite Hok; reflexivity);
      destruct (int_array_regular X zs 0 _ Hwf0 (denotes_sole_list_2 zs) Hv) as (d0 & d' & E1 & E2 & E3);
      eexists; split; [exact E3|]; split;
        [apply (counts X (sole_list zs) 0 [IList zs; full]);
           [exact Hwf0 | apply denotes_sole_list_2 | exact Hv | reflexivity | rewrite <- int_array_is_list; exact E3]|]
    end.
    cbn [spec_result s0 fsn fsd shape chan meta n_time last out_shape is_int sel_len repeat app Z.to_nat hd
         time_item slice_start slice_step full step_of spec_chan spec_meta py_lo].
    rewrite py_slice_len_full by exact Ht.
    repeat split; try reflexivity; try lia; match goal with H : zlen _ = _ |- _ => discriminate H end.
  - (* 3-D *)
    destruct Hwf as (Hc & Ht & He & Hrect & Hl & Hm).
    match type of Hwf0 with wf ?X =>
      assert (Hv : valid_on (shape X) [IList zs; full; full])
        by (unfold valid_on; cbn [shape all_ok sel_ok full step_of]; rewrite Hok; reflexivity);
      destruct (int_array_regular X zs 0 _ Hwf0 (denotes_sole_list_3 zs) Hv) as (d0 & d' & E1 & E2 & E3);
      eexists; split; [exact E3|]; split;
        [apply (counts X (sole_list zs) 0 [IList zs; full; full]);
           [exact Hwf0 | apply denotes_sole_list_3 | exact Hv | reflexivity | rewrite <- int_array_is_list; exact E3]|]
    end.
    cbn [spec_result s0 fsn fsd shape chan meta n_time last out_shape is_int sel_len repeat app Z.to_nat hd
         time_item slice_start slice_step full step_of spec_chan spec_meta py_lo sel_lab take_sel].
    rewrite !py_slice_len_full by assumption. rewrite ?py_slice_step_full.
    repeat split; try reflexivity; try lia; match goal with H : zlen _ = _ |- _ => discriminate H end.
Qed.

(* the code before the repair: x3[np.array([1, 2])] on 3 epochs selects 2 epochs and keeps all 3 metadata entries *)
Theorem index_array_unrepaired_refuted :
  exists x zs r, wf x /\ forallb (idx_ok (hd 0 (shape x))) zs = true /\
    getitem_int_array false x zs = RArr r /\ hd 0 (shape r) = 2 /\ meta r = meta x /\ meta x = LMany [90; 91; 92] /\ ~ wf r /\
    exists r', getitem_int_array true x zs = RArr r' /\ meta r' = LMany [91; 92] /\ wf r'.
Proof.
  exists x324, [1; 2]. eexists. split; [apply wf_examples|]. split; [reflexivity|].
  split; [vm_compute; reflexivity|]. split; [reflexivity|]. split; [reflexivity|]. split; [reflexivity|]. split.
  - unfold wf. cbn. intros (_ & _ & _ & _ & _ & H). discriminate H.
  - eexists. split; [vm_compute; reflexivity|]. split; [reflexivity|].
    unfold wf. cbn. unfold rect. cbn. repeat split; try lia; repeat constructor.
Qed.

(* ================================================================== a list on the time axis *)
Definition all_true (bs : list bool) : bool := forallb (fun b => b) bs.

(* the fix-up accepts a list on the time axis iff it is an all-True mask (a list of ints only when it is empty: the
   empty selection), and then leaves s0 and the rate as they are *)
Theorem fix_time_list x :
  (forall zs r, fix_time true x (NListZ zs) = inr r <-> zs = [] /\ r = (s0 x, fsd x)) /\
  (forall bs r, fix_time true x (NListB bs) = inr r <-> all_true bs = true /\ r = (s0 x, fsd x)) /\
  (forall zs, zs <> [] -> fix_time true x (NListZ zs) = inl EValue) /\
  (forall bs, all_true bs = false -> fix_time true x (NListB bs) = inl EValue).
Proof.
  unfold all_true. cbn [fix_time]. split; [|split; [|split]].
  - intros zs r. destruct zs as [|z zs].
    + cbn. split; [intros H; injection H as <-; auto | intros [_ ->]; reflexivity].
    + replace (zlen (z :: zs) =? 0) with false by (rewrite zlen_cons; pose proof (zlen_nonneg zs); lia).
      split; [discriminate | intros [H _]; discriminate H].
  - intros bs r. destruct (forallb (fun b => b) bs).
    + split; [intros H; injection H as <-; auto | intros [_ ->]; reflexivity].
    + split; [discriminate | intros [H _]; discriminate H].
  - intros zs Hne. destruct zs as [|z zs]; [congruence|].
    replace (zlen (z :: zs) =? 0) with false by (rewrite zlen_cons; pose proof (zlen_nonneg zs); lia). reflexivity.
  - intros bs ->. reflexivity.
Qed.

Definition nlist (t : nitem) : bool := match t with NListZ _ | NListB _ => true | _ => false end.
Definition mask_only (t : nitem) : Prop :=
  match t with NListZ zs => zs = [] | NListB bs => all_true bs = true | _ => True end.

(* whole index expressions (every expression of the language, every array): whenever the normalised index has a list
   in the time position and __getitem__ returns an array, the list was an all-True mask (or empty) and the result
   has the s0 and the rate of x *)
Theorem time_list_mask_only x ix s es cs t r :
  normalize_index true ix (ndim x) = inr s -> split3 s = Some (es, cs, t) -> nlist t = true ->
  getitem x ix = RArr r ->
  mask_only t /\ s0 r = s0 x /\ fsn r = fsn x /\ fsd r = fsd x.
Proof.
  intros Hn Hs Hl H. unfold getitem, getitem_gen in H. rewrite Hn, Hs in H.
  destruct (np_getitem (shape x) (dat x) (items ix)) as [|v|sh d|sh]; try discriminate H.
  - destruct (existsb is_ell (items ix)); [|discriminate H]. destruct (fix_time true x t); discriminate H.
  - destruct (fix_time true x t) as [e|[s0' fsd']] eqn:Ef; [discriminate H|].
    destruct (fix_chan true cs (finalize_chan (chan x) sh)); [discriminate H|].
    destruct (fix_meta es (meta x)); [discriminate H|]. injection H as <-. cbn [s0 fsn fsd].
    destruct (fix_time_list x) as (F1 & F2 & _ & _).
    destruct t; try discriminate Hl; cbn [mask_only].
    + apply F1 in Ef. destruct Ef as [-> E]. injection E as -> ->. auto.
    + apply F2 in Ef. destruct Ef as [Hb E]. injection E as -> ->. auto.
Qed.

(* the code before the repair: x1[[1, 2, 3]] picks samples 1, 2, 3 but keeps s0 - the time axis of the result is not
   the selection of the time axis; the repaired code refuses it *)
Theorem time_list_unrepaired_refuted :
  exists x zs r, wf x /\ getitem_unrepaired x (sole_list zs) = RArr r /\ s0 r = s0 x /\
    flat (dat r) = [1; 2; 3] /\ taxis r <> map (fun i => s0 x + i) zs /\
    getitem x (sole_list zs) = RErr EValue.
Proof.
  exists x10, [1; 2; 3]. eexists. split; [apply wf_examples|].
  split; [vm_compute; reflexivity|]. split; [reflexivity|]. split; [reflexivity|].
  split; [vm_compute; discriminate | vm_compute; reflexivity].
Qed.

(* the hypotheses are satisfiable: an all-True list mask on the time axis of a 2-D array is accepted and changes nothing;
   an integer list in the same place is refused *)
Example time_list_ex :
  let x := mk [2; 3] 5 1000 1 (LMany [70; 71]) (LOne 90) in
  let ix := tuple [full; IMask [true; true; true] false] in
  wf x /\ normalize_index true ix (ndim x) = inr [nfull; NListB [true; true; true]] /\
  getitem x ix = RArr x /\ getitem x (tuple [full; IList [1; 2]]) = RErr EValue /\
  getitem_int_array true x [1; 1] = mkv [2; 3] [3; 4; 5; 3; 4; 5] 5 1000 1 (LMany [71; 71]) (LOne 90).
Proof.
  cbn zeta. split; [|repeat split; vm_compute; reflexivity].
  unfold wf. cbn. unfold rect. cbn. repeat split; try lia; repeat constructor.
Qed.
