(* Model of psiaudio.pipeline: normalize_index, PipelineData.__getitem__ / __array_finalize__,
   ensure_dim and concat.  Definitions only; proofs in PData/Proofs.v.

   An annotated array is a record
     shape        1..3 dimensions (epoch, channel, time right-aligned; zero-length axes allowed)
     dat          the samples, nested by axis (N1 row | N2 rows | N3 blocks of rows); sample values are
                  integers (the harness uses the ORIGINAL flat index of each sample, so data movement is
                  tracked exactly)
     s0           index of the first sample
     fsn / fsd    sampling rate as a fraction, so that `fs /= step` is exact
     chan, meta   channel labels / metadata as identifiers: a scalar (LOne) or a list (LMany)

   Two layers:
   * NumPy's own indexing (np_getitem): data movement and result shape.  NumPy is an oracle of the environment;
     its model is tied to NumPy by the correspondence check only.
   * the psiaudio code on top of it: normalize_index and the attribute fix-up of __getitem__, as written,
     including every raise.  `rep = true` describes the code after the three `fix:` commits of branch fix-C11 and
     the commit "integer index arrays and lists are not mistaken for all-True masks" (fix-C11idx: fix_time on a
     list, normalize_int_array at the end of this file), `rep = false` the code before all of them. *)
From PV Require Export Common.PySlice.

(* ------------------------------------------------------------------ index language *)
Inductive item :=
| IInt (z : Z)
| ISlice (a b c : option Z)            (* start, stop, step (None or >= 1) *)
| IList (zs : list Z)                  (* python list of ints *)
| IMask (bs : list bool) (arr : bool)  (* boolean mask: numpy ndarray (arr = true) or python list of bool *)
| IEllipsis
| INewaxis.

(* x[i] (sole = true, exactly one item, passed bare) or x[i, j, ...] (a tuple, possibly empty) *)
Record index := { sole : bool; items : list item }.

Inductive err := EIndex | EValue | ENotImpl | ETypeKey (* TypeError or KeyError *) | EUnbound.

Inductive lab := LOne (z : Z) | LMany (zs : list Z).
Definition none_id : Z := -1.           (* the label None *)

Inductive nest :=
| N1 (r : list Z)
| N2 (b : list (list Z))
| N3 (d : list (list (list Z))).

Record pd := { shape : list Z; dat : nest; s0 : Z; fsn : Z; fsd : Z; chan : lab; meta : lab }.

Inductive res := RArr (p : pd) | RScalar (v : Z) | RErr (e : err).

Definition ndim (x : pd) : Z := zlen (shape x).
Definition n_time (x : pd) : Z := last (shape x) 0.

Definition full : item := ISlice None None None.
Definition step_of (c : option Z) : Z := match c with None => 1 | Some k => k end.

(* ------------------------------------------------------------------ selecting from a python/numpy sequence *)
Definition norm_idx (n z : Z) : Z := if z <? 0 then z + n else z.
Definition idx_ok (n z : Z) : bool := (- n <=? z) && (z <? n).
Definition py_index {A} (d : A) (l : list A) (z : Z) : A := nth (Z.to_nat (norm_idx (zlen l) z)) l d.

Fixpoint mask_sel {A} (bs : list bool) (l : list A) : list A :=
  match bs, l with
  | b :: bs', x :: l' => if b then x :: mask_sel bs' l' else mask_sel bs' l'
  | _, _ => []
  end.
Definition count_true (bs : list bool) : Z := zlen (filter (fun b => b) bs).

(* is item [it] a legal index for an axis of length n (NumPy raises IndexError otherwise) *)
Definition sel_ok (n : Z) (it : item) : bool :=
  match it with
  | IInt z => idx_ok n z
  | ISlice _ _ c => 1 <=? step_of c
  | IList zs => forallb (idx_ok n) zs
  | IMask bs _ => zlen bs =? n
  | _ => false
  end.
(* what an item selects from a sequence laid out along its axis (ints are handled by py_index) *)
Definition take_sel {A} (d : A) (it : item) (l : list A) : list A :=
  match it with
  | ISlice a b c => py_slice_step a b (step_of c) l
  | IList zs => map (py_index d l) zs
  | IMask bs _ => mask_sel bs l
  | _ => l
  end.
Definition sel_len (n : Z) (it : item) : Z :=
  match it with
  | ISlice a b c => py_slice_len n a b (step_of c)
  | IList zs => zlen zs
  | IMask bs _ => count_true bs
  | _ => 0
  end.
Definition is_int (it : item) : bool := match it with IInt _ => true | _ => false end.
Definition is_adv (it : item) : bool := match it with IList _ | IMask _ _ => true | _ => false end.
Definition is_new (it : item) : bool := match it with INewaxis => true | _ => false end.
Definition is_ell (it : item) : bool := match it with IEllipsis => true | _ => false end.
Definition is_slice (it : item) : bool := match it with ISlice _ _ _ => true | _ => false end.
Definition countb {A} (f : A -> bool) (l : list A) : Z := zlen (filter f l).

(* ------------------------------------------------------------------ NumPy: expanding the index *)
Definition consumes (it : item) : bool := negb (is_new it || is_ell it).
Definition expand_item (fill : Z) (it : item) : list item :=
  match it with IEllipsis => repeat full (Z.to_nat fill) | _ => [it] end.
(* every axis gets its item; newaxis items stay where they are.  None: IndexError *)
Definition np_expand (nd : Z) (its : list item) : option (list item) :=
  let used := countb consumes its in
  if (countb is_ell its >? 1) || (used >? nd) then None
  else if countb is_ell its =? 0 then Some (its ++ repeat full (Z.to_nat (nd - used)))
  else Some (flat_map (expand_item (nd - used)) its).

(* ------------------------------------------------------------------ NumPy: the regular (outer-product) case *)
(* leading newaxis items, then one item per axis, the last one (time) a slice, at most one list/mask *)
Fixpoint strip_new (its : list item) : Z * list item :=
  match its with
  | INewaxis :: t => let '(k, r) := strip_new t in (k + 1, r)
  | _ => (0, its)
  end.
Definition regular_per (per : list item) : bool :=
  negb (existsb is_new per) && is_slice (last per IEllipsis) && (countb is_adv per <=? 1).

Definition sel_t (it : item) (row : list Z) : list Z := take_sel 0 it row.
Definition sel_c (ic it : item) (blk : list (list Z)) : nest :=
  match ic with
  | IInt z => N1 (sel_t it (py_index [] blk z))
  | _ => N2 (map (sel_t it) (take_sel [] ic blk))
  end.
Definition sel_e (ie ic it : item) (d : list (list (list Z))) : nest :=
  match ie with
  | IInt z => sel_c ic it (py_index [] d z)
  | _ => let blks := take_sel [] ie d in
         match ic with
         | IInt z => N2 (map (fun blk => sel_t it (py_index [] blk z)) blks)
         | _ => N3 (map (fun blk => map (sel_t it) (take_sel [] ic blk)) blks)
         end
  end.
Definition wrap_new (k : Z) (d : nest) : option nest :=
  if k =? 0 then Some d
  else match d with
       | N1 r => if k =? 1 then Some (N2 [r]) else if k =? 2 then Some (N3 [[r]]) else None
       | N2 b => if k =? 1 then Some (N3 [b]) else None
       | N3 _ => None
       end.
Fixpoint out_shape (per : list item) (sh : list Z) : list Z :=
  match per, sh with
  | it :: per', n :: sh' => if is_int it then out_shape per' sh' else sel_len n it :: out_shape per' sh'
  | _, _ => []
  end.
Fixpoint all_ok (per : list item) (sh : list Z) : bool :=
  match per, sh with
  | [], [] => true
  | it :: per', n :: sh' => sel_ok n it && all_ok per' sh'
  | _, _ => false
  end.
Definition np_regular (d : nest) (per : list item) : option nest :=
  match d, per with
  | N1 r, [it] => Some (N1 (sel_t it r))
  | N2 b, [ic; it] => Some (sel_c ic it b)
  | N3 e, [ie; ic; it] => Some (sel_e ie ic it e)
  | _, _ => None
  end.

(* ------------------------------------------------------------------ NumPy: the general case on the flat layout *)
Fixpoint strides (sh : list Z) : list Z :=
  match sh with [] => [] | _ :: t => fold_right Z.mul 1 t :: strides t end.
Definition flat (d : nest) : list Z :=
  match d with N1 r => r | N2 b => concat b | N3 e => concat (concat e) end.

Fixpoint nonzero_from (i : Z) (bs : list bool) : list Z :=
  match bs with
  | [] => []
  | b :: t => if b then i :: nonzero_from (i + 1) t else nonzero_from (i + 1) t
  end.
Definition slice_idx (n : Z) (a b : option Z) (step : Z) : list Z :=
  let lo := py_lo n a in zrange (fun k => lo + k * step) 0 (py_slice_len n a b step).

(* per index item: the offsets (index * stride) it contributes *)
Inductive gsel := GInt (off : Z) | GRange (offs : list Z) | GAdv (offs : list Z) | GNew.
Fixpoint gsels (its : list item) (sh st : list Z) : option (list gsel) :=
  match its with
  | [] => match sh with [] => Some [] | _ => None end
  | INewaxis :: t => option_map (cons GNew) (gsels t sh st)
  | it :: t =>
    match sh, st with
    | n :: sh', s :: st' =>
      if (match it with IList _ => true | _ => sel_ok n it end) then
        let g := match it with
                 | IInt z => GInt (norm_idx n z * s)
                 | ISlice a b c => GRange (map (fun i => i * s) (slice_idx n a b (step_of c)))
                 | IList zs => GAdv (map (fun z => norm_idx n z * s) zs)
                 | IMask bs _ => GAdv (map (fun i => i * s) (nonzero_from 0 bs))
                 | _ => GNew
                 end in
        option_map (cons g) (gsels t sh' st')
      else None
    | _, _ => None
    end
  end.
(* bounds of integer lists; NumPy checks them only when the broadcast index is not empty *)
Fixpoint lists_ok (its : list item) (sh : list Z) : bool :=
  match its with
  | [] => true
  | INewaxis :: t => lists_ok t sh
  | it :: t => match sh with
               | n :: sh' => (match it with IList zs => forallb (idx_ok n) zs | _ => true end) && lists_ok t sh'
               | [] => true
               end
  end.
Definition g_is_arr (g : gsel) : bool := match g with GAdv _ => true | _ => false end.
Definition g_is_adv (g : gsel) : bool := match g with GAdv _ | GInt _ => true | _ => false end.
(* are the advanced items (ints included) next to each other in the index as written?  A slice, a newaxis or an
   Ellipsis (even one that stands for no axis at all) between them separates them.  state 0: before, 1: inside, 2: after *)
Fixpoint adjacent_items (st : Z) (its : list item) : bool :=
  match its with
  | [] => true
  | it :: t => if is_int it || is_adv it then (if st =? 2 then false else adjacent_items 1 t)
               else adjacent_items (if st =? 1 then 2 else st) t
  end.
Definition adv_lens (gs : list gsel) : list Z :=
  flat_map (fun g => match g with GAdv o => [zlen o] | _ => [] end) gs.
(* broadcast length of the index arrays; None: shape mismatch (IndexError) *)
Definition bcast (lens : list Z) : option Z :=
  match filter (fun l => negb (l =? 1)) lens with
  | [] => Some 1
  | h :: t => if forallb (Z.eqb h) t then Some h else None
  end.
Definition bget (o : list Z) (k : Z) : Z :=
  if zlen o =? 1 then hd 0 o else nth (Z.to_nat k) o 0.
Definition group_offs (gs : list gsel) (B : Z) : list Z :=
  zrange (fun k => sumZ (flat_map (fun g => match g with
                                             | GAdv o => [bget o k] | GInt off => [off] | _ => [] end) gs)) 0 B.
Definition basic_gen (g : gsel) : list (list Z) :=
  match g with GRange o => [o] | GNew => [[0]] | _ => [] end.
Fixpoint inplace_gens (grp : list Z) (placed : bool) (gs : list gsel) : list (list Z) :=
  match gs with
  | [] => []
  | g :: t => if g_is_adv g then (if placed then inplace_gens grp true t else grp :: inplace_gens grp true t)
              else basic_gen g ++ inplace_gens grp placed t
  end.
Definition cart (base : Z) (gens : list (list Z)) : list Z :=
  fold_right (fun g acc => flat_map (fun o => map (Z.add o) acc) g) [base] gens.
Fixpoint chunks {A} (k n : nat) (l : list A) : list (list A) :=
  match k with O => [] | S k' => firstn n l :: chunks k' n (skipn n l) end.

Inductive npres := NPErr | NPScalar (v : Z) | NPArr (sh : list Z) (d : nest) | NPBig (sh : list Z) (* > 3-D *).

Definition renest (sh : list Z) (vals : list Z) : npres :=
  match sh with
  | [] => NPScalar (hd 0 vals)
  | [_] => NPArr sh (N1 vals)
  | [a; b] => NPArr sh (N2 (chunks (Z.to_nat a) (Z.to_nat b) vals))
  | [a; b; c] => NPArr sh (N3 (map (chunks (Z.to_nat b) (Z.to_nat c))
                                   (chunks (Z.to_nat a) (Z.to_nat (b * c)) vals)))
  | _ => NPBig sh
  end.
Definition np_general (sh : list Z) (d : nest) (orig its : list item) : npres :=
  match gsels its sh (strides sh) with
  | None => NPErr
  | Some gs =>
    let fl := flat d in
    let go (base : Z) (gens : list (list Z)) :=
        renest (map zlen gens) (map (fun o => nth (Z.to_nat o) fl 0) (cart base gens)) in
    if existsb g_is_arr gs then
      match bcast (adv_lens gs) with
      | None => NPErr
      | Some B =>
        if (B =? 0) || lists_ok its sh then
          let grp := group_offs gs B in
          if adjacent_items 0 orig then go 0 (inplace_gens grp false gs)
          else go 0 (grp :: flat_map basic_gen gs)
        else NPErr
      end
    else go (sumZ (flat_map (fun g => match g with GInt o => [o] | _ => [] end) gs)) (flat_map basic_gen gs)
  end.

(* ndarray.__getitem__ on the data alone *)
Definition np_getitem (sh : list Z) (d : nest) (its : list item) : npres :=
  match np_expand (zlen sh) its with
  | None => NPErr
  | Some ex =>
    let '(k, per) := strip_new ex in
    if regular_per per && (k + zlen sh <=? 3) then
      if all_ok per sh then
        match np_regular d per with
        | Some r => match wrap_new k r with
                    | Some r' => NPArr (repeat 1 (Z.to_nat k) ++ out_shape per sh) r'
                    | None => NPErr
                    end
        | None => NPErr
        end
      else NPErr
    else np_general sh d its ex
  end.

(* ------------------------------------------------------------------ psiaudio: normalize_index *)
Inductive nitem :=
| NInt (z : Z)
| NSlice (a b c : option Z)
| NListZ (zs : list Z)
| NListB (bs : list bool)
| NNew.
Definition nfull : nitem := NSlice None None None.

Definition is_arrmask (it : item) : bool := match it with IMask _ true => true | _ => false end.
(* the loop body of normalize_index; [fill] = ndim - len(index) + 1 *)
Definition conv_item (fill : Z) (it : item) : list nitem :=
  match it with
  | IInt z => [NInt z]
  | ISlice a b c => [NSlice a b c]
  | IList zs => [NListZ zs]
  | IMask bs _ => [NListB bs]          (* python list of bool; an ndarray is converted with .tolist() (repaired code) *)
  | IEllipsis => repeat nfull (Z.to_nat fill)
  | INewaxis => [NNew]
  end.
Definition normalize_tuple (rep : bool) (nd : Z) (its : list item) : err + list nitem :=
  if countb is_ell its >? 1 then inl EIndex
  else if negb rep && existsb is_arrmask its then inl EValue     (* 'Unrecognized index type' *)
  else
    let nd' := nd + countb is_new its in
    let norm := flat_map (conv_item (nd' - zlen its + 1)) its in
    inr (norm ++ repeat nfull (Z.to_nat (nd' - zlen norm))).
Definition normalize_index (rep : bool) (ix : index) (nd : Z) : err + list nitem :=
  if sole ix then
    match items ix with
    | [INewaxis] => inr (NNew :: repeat nfull (Z.to_nat nd))
    | [IEllipsis] => inr (repeat nfull (Z.to_nat nd))
    | [IInt z] => inr (NInt z :: repeat nfull (Z.to_nat (nd - 1)))
    | [ISlice a b c] => inr (NSlice a b c :: repeat nfull (Z.to_nat (nd - 1)))
    | [IMask bs true] =>
      (* index.all(); repaired: `index.size and index.all()` - an EMPTY mask is vacuously all-True but selects nothing *)
      if (if rep then match bs with [] => false | _ => true end else true) && forallb (fun b => b) bs
      then inr (repeat nfull (Z.to_nat nd))
      else normalize_tuple rep nd [IMask bs false]                           (* index.tolist() *)
    | its => normalize_tuple rep nd its
    end
  else normalize_tuple rep nd (items ix).

(* ------------------------------------------------------------------ psiaudio: the attribute fix-up *)
(* epoch_slice, channel_slice, time_slice; None = skip *)
Definition split3 (s : list nitem) : option (option nitem * option nitem * nitem) :=
  match s with
  | [t] => Some (None, None, t)
  | [c; t] => Some (None, Some c, t)
  | [e; c; t] => Some (Some e, Some c, t)
  | _ => None
  end.

(* __array_finalize__: annotations are copied; a None channel on a result with ndim > 1 becomes [None]*shape[-2] *)
Definition finalize_chan (ch : lab) (sh : list Z) : lab :=
  match ch with
  | LOne z => if (z =? none_id) && (zlen sh >? 1)
              then LMany (repeat none_id (Z.to_nat (nth (Z.to_nat (zlen sh - 2)) sh 0))) else ch
  | _ => ch
  end.

Definition all_nonzero (zs : list Z) : bool := forallb (fun z => negb (z =? 0)) zs.

(* returns (s0, fsd) of the result *)
Definition fix_time (rep : bool) (x : pd) (t : nitem) : err + (Z * Z) :=
  match t with
  | NInt _ => inl ENotImpl
  | NNew => inl EIndex
  | NListZ zs =>
    (* a python list on the time axis.  Repaired (fix-C11idx): only an all-True mask leaves the time axis as it is -
       `all(isinstance(t, (bool, np.bool_)) and t for t in time_slice)`: a list of ints passes only when empty.
       Before: `np.all(time_slice)` took a list of non-zero ints for an all-True mask. *)
    if (if rep then zlen zs =? 0 else all_nonzero zs) then inr (s0 x, fsd x) else inl EValue
  | NListB bs => if forallb (fun b => b) bs then inr (s0 x, fsd x) else inl EValue
  | NSlice a _ c =>
    let n := n_time x in
    let s0' := match a with
               | None => s0 x
               | Some st => if st >? 0 then s0 x + (if rep then Z.min st n else st)
                            else if st <? 0 then s0 x + (if rep then Z.max (n + st) 0 else n + st)
                            else s0 x
               end in
    inr (s0', match c with None => fsd x | Some k => fsd x * k end)
  end.

Definition sequence_idx (l : list Z) (zs : list Z) : err + list Z :=
  if forallb (idx_ok (zlen l)) zs then inr (map (py_index 0 l) zs) else inl EIndex.

Definition lift_many (r : err + list Z) : err + lab :=
  match r with inl e => inl e | inr v => inr (LMany v) end.

Definition fix_chan (rep : bool) (c : option nitem) (ch : lab) : err + lab :=
  match c with
  | None => inr ch
  | Some NNew => match ch with
                 | LMany l => if zlen l =? 1 then inr ch else inl EValue
                 | LOne z => inr (LMany [z])
                 end
  | Some (NListZ zs) =>
    match ch with
    | LMany l => lift_many (sequence_idx l zs)
    | LOne _ => if negb rep && (zlen zs =? 0) then inr (LMany []) else inl ETypeKey
    end
  | Some (NListB bs) =>
    match ch with
    | LMany l =>
      if rep then (if zlen bs =? zlen l then inr (LMany (mask_sel bs l)) else inl EIndex)
      else lift_many (sequence_idx l (map (fun b : bool => if b then 1 else 0) bs))
    | LOne _ => if negb rep && (zlen bs =? 0) then inr (LMany []) else inl ETypeKey
    end
  | Some (NInt z) =>
    match ch with
    | LMany l => if idx_ok (zlen l) z then inr (LOne (py_index 0 l z)) else inl EIndex
    | LOne _ => inl ETypeKey
    end
  | Some (NSlice a b c) =>
    match ch with
    | LMany l => inr (LMany (py_slice_step a b (step_of c) l))
    | LOne _ => inl ETypeKey
    end
  end.

Definition fix_meta (e : option nitem) (md : lab) : err + lab :=
  match e with
  | None => inr md
  | Some NNew => match md with
                 | LMany l => if zlen l =? 1 then inr md else inl EValue
                 | LOne z => inr (LMany [z])
                 end
  | Some (NListZ zs) =>
    match md with
    | LMany l => lift_many (sequence_idx l zs)
    | LOne _ => inl EIndex                      (* np.array(dict)[list]: too many indices *)
    end
  | Some (NListB bs) =>
    match md with
    | LMany l => if zlen bs =? zlen l then inr (LMany (mask_sel bs l)) else inl EIndex
    | LOne _ => inl EIndex
    end
  | Some (NInt z) =>
    match md with
    | LMany l => if idx_ok (zlen l) z then inr (LOne (py_index 0 l z)) else inl EIndex
    | LOne _ => inl ETypeKey                    (* dict[int]: KeyError *)
    end
  | Some (NSlice a b c) =>
    match md with
    | LMany l => inr (LMany (py_slice_step a b (step_of c) l))
    | LOne _ => inl ETypeKey                    (* dict[slice]: KeyError (TypeError before python 3.12) *)
    end
  end.

(* PipelineData.__getitem__ *)
Definition getitem_gen (rep : bool) (x : pd) (ix : index) : res :=
  match np_getitem (shape x) (dat x) (items ix) with
  | NPErr => RErr EIndex
  | NPScalar v =>
    if existsb is_ell (items ix) then
      (* with an Ellipsis NumPy returns a 0-d array, not a scalar, and the fix-up runs: the time item is an int *)
      match normalize_index rep ix (ndim x) with
      | inl e => RErr e
      | inr s => match split3 s with
                 | None => RErr EUnbound
                 | Some (_, _, ts) => match fix_time rep x ts with inl e => RErr e | inr _ => RScalar v end
                 end
      end
    else RScalar v
  | NPBig sh =>
    match normalize_index rep ix (ndim x) with
    | inl e => RErr e
    | inr _ => RErr EUnbound
    end
  | NPArr sh d =>
    match normalize_index rep ix (ndim x) with
    | inl e => RErr e
    | inr s =>
      match split3 s with
      | None => RErr EUnbound
      | Some (es, cs, ts) =>
        match fix_time rep x ts with
        | inl e => RErr e
        | inr (s0', fsd') =>
          match fix_chan rep cs (finalize_chan (chan x) sh) with
          | inl e => RErr e
          | inr ch' =>
            match fix_meta es (meta x) with
            | inl e => RErr e
            | inr md' => RArr {| shape := sh; dat := d; s0 := s0'; fsn := fsn x; fsd := fsd';
                                 chan := ch'; meta := md' |}
            end
          end
        end
      end
    end
  end.
Definition getitem := getitem_gen true.
Definition getitem_unrepaired := getitem_gen false.

(* arithmetic with a scalar, unary ufuncs, copy, astype: __array_finalize__ copies every annotation *)
Definition map_nest (f : Z -> Z) (d : nest) : nest :=
  match d with
  | N1 r => N1 (map f r)
  | N2 b => N2 (map (map f) b)
  | N3 e => N3 (map (map (map f)) e)
  end.
Definition map_data (f : Z -> Z) (x : pd) : pd :=
  {| shape := shape x; dat := map_nest f (dat x); s0 := s0 x; fsn := fsn x; fsd := fsd x;
     chan := chan x; meta := meta x |}.

(* ------------------------------------------------------------------ ensure_dim and concat *)
Inductive cdim := DTime | DChan | DEpoch.
Definition tuple (its : list item) : index := {| sole := false; items := its |}.
Definition ensure_index (nd : Z) (dm : cdim) : index :=
  match dm with
  | DChan => if nd =? 1 then tuple [INewaxis; full] else {| sole := true; items := [full] |}
  | DEpoch => if nd =? 1 then tuple [INewaxis; INewaxis; full]
              else if nd =? 2 then tuple [INewaxis; full; full]
              else {| sole := true; items := [full] |}
  | DTime => {| sole := true; items := [full] |}
  end.
Fixpoint all_arrays (rs : list res) : err + list pd :=
  match rs with
  | [] => inr []
  | RArr p :: t => match all_arrays t with inl e => inl e | inr ps => inr (p :: ps) end
  | RErr e :: _ => inl e
  | RScalar _ :: _ => inl ETypeKey
  end.
Definition ensure_dim (arrs : list pd) (dm : cdim) : err + list pd :=
  match arrs with
  | [] => inl EIndex
  | a0 :: _ => all_arrays (map (fun a => getitem a (ensure_index (ndim a0) dm)) arrs)
  end.

Definition eqb_lab (a b : lab) : bool :=
  match a, b with
  | LOne x, LOne y => x =? y
  | LMany x, LMany y => eqb_listZ x y
  | _, _ => false
  end.
(* a.s0 == current_s0 for every later piece *)
Fixpoint contiguous_from (cur : Z) (ps : list pd) : bool :=
  match ps with
  | [] => true
  | p :: t => (s0 p =? cur) && contiguous_from (cur + n_time p) t
  end.
Definition same_fs (a b : pd) : bool := fsn a * fsd b =? fsn b * fsd a.

Fixpoint zip_with {A} (f : A -> A -> A) (a b : list A) : list A :=
  match a, b with
  | x :: a', y :: b' => f x y :: zip_with f a' b'
  | _, _ => []
  end.
(* np.concatenate of two arrays along the axis; shapes were checked before *)
Definition cat2 (dm : cdim) (a b : nest) : option nest :=
  match dm, a, b with
  | DTime, N1 r, N1 r' => Some (N1 (r ++ r'))
  | DTime, N2 u, N2 v => Some (N2 (zip_with (@app Z) u v))
  | DTime, N3 u, N3 v => Some (N3 (zip_with (zip_with (@app Z)) u v))
  | DChan, N2 u, N2 v => Some (N2 (u ++ v))
  | DChan, N3 u, N3 v => Some (N3 (zip_with (@app (list Z)) u v))
  | DEpoch, N3 u, N3 v => Some (N3 (u ++ v))
  | _, _, _ => None
  end.
(* position of the concatenation axis counted from the right: 0 time, 1 channel, 2 epoch *)
Definition axis_back (dm : cdim) : nat := match dm with DTime => 0 | DChan => 1 | DEpoch => 2 end.
(* shapes agree except on the axis; result: shape with the axis lengths added *)
Fixpoint cat_shape_rev (k : nat) (a b : list Z) : option (list Z) :=
  match a, b with
  | [], [] => match k with O => None | _ => Some [] end     (* axis must exist *)
  | x :: a', y :: b' =>
    match k with
    | O => if eqb_listZ a' b' then Some ((x + y) :: a') else None
    | S k' => if x =? y then option_map (cons x) (cat_shape_rev k' a' b') else None
    end
  | _, _ => None
  end.
Definition cat_shape (dm : cdim) (a b : list Z) : option (list Z) :=
  match cat_shape_rev (axis_back dm) (rev a) (rev b) with
  | Some r => if (length r <=? axis_back dm)%nat then None else Some (rev r)
  | None => None
  end.
Fixpoint cat_all (dm : cdim) (sh : list Z) (d : nest) (ps : list pd) : option (list Z * nest) :=
  match ps with
  | [] => Some (sh, d)
  | p :: t => match cat_shape dm sh (shape p), cat2 dm d (dat p) with
              | Some sh', Some d' => cat_all dm sh' d' t
              | _, _ => None
              end
  end.

Definition lab_list (l : lab) : option (list Z) := match l with LMany zs => Some zs | LOne _ => None end.
Fixpoint merge_labs (ls : list lab) : option (list Z) :=
  match ls with
  | [] => Some []
  | l :: t => match lab_list l, merge_labs t with
              | Some a, Some b => Some (a ++ b)
              | _, _ => None
              end
  end.
(* PipelineData.__new__: label / metadata counts must match the shape *)
Definition ctor_ok (sh : list Z) (ch md : lab) : bool :=
  let nd := zlen sh in
  (if nd >? 1 then match ch with
                   | LMany l => zlen l =? nth (Z.to_nat (nd - 2)) sh 0
                   | LOne z => false          (* len(scalar) raises TypeError; never reached from concat of well-formed pieces *)
                   end else true) &&
  (if nd >? 2 then match md with
                   | LMany l => zlen l =? nth (Z.to_nat (nd - 3)) sh 0
                   | LOne _ => false
                   end else true).

Definition concat_pd (dm : cdim) (arrs : list pd) : res :=
  match ensure_dim arrs dm with
  | inl e => RErr e
  | inr [] => RErr EIndex
  | inr (base :: rest) =>
    if negb (forallb (fun a => ndim a =? ndim base) rest) then RErr EValue
    else if negb (forallb (same_fs base) rest) then RErr EValue
    else if (match dm with DTime => negb (contiguous_from (s0 base + n_time base) rest) | _ => false end)
    then RErr EValue
    else
      let chk := match dm with
                 | DChan => match merge_labs (map chan (base :: rest)) with
                            | Some l => inr (LMany l) | None => inl ETypeKey end
                 | _ => if forallb (fun a => eqb_lab (chan a) (chan base)) rest then inr (chan base)
                        else inl EValue
                 end in
      match chk with
      | inl e => RErr e
      | inr ch =>
        let mdk := match dm with
                   | DEpoch => match merge_labs (map meta (base :: rest)) with
                               | Some l => inr (LMany l) | None => inl ETypeKey end
                   | _ => if forallb (fun a => eqb_lab (meta a) (meta base)) rest then inr (meta base)
                          else inl EValue
                   end in
        match mdk with
        | inl e => RErr e
        | inr md =>
          match cat_all dm (shape base) (dat base) rest with
          | None => RErr EValue                                   (* np.concatenate: dimensions differ *)
          | Some (sh, d) =>
            if ctor_ok sh ch md then
              RArr {| shape := sh; dat := d; s0 := s0 base; fsn := fsn base; fsd := fsd base;
                      chan := ch; meta := md |}
            else RErr EValue
          end
        end
      end
  end.

(* ------------------------------------------------------------------ comparison used by the generated case files *)
Definition eqb_err (a b : err) : bool :=
  match a, b with
  | EIndex, EIndex | EValue, EValue | ENotImpl, ENotImpl | ETypeKey, ETypeKey | EUnbound, EUnbound => true
  | _, _ => false
  end.
Definition eqb_pd (a b : pd) : bool :=
  eqb_listZ (shape a) (shape b) && eqb_listZ (flat (dat a)) (flat (dat b)) && (s0 a =? s0 b) &&
  (fsn a * fsd b =? fsn b * fsd a) && eqb_lab (chan a) (chan b) && eqb_lab (meta a) (meta b).
Definition eqb_res (a b : res) : bool :=
  match a, b with
  | RArr p, RArr q => eqb_pd p q
  | RScalar v, RScalar w => v =? w
  | RErr e, RErr f => eqb_err e f
  | _, _ => false
  end.

(* an array filled with its own flat indices 0, 1, 2, ... *)
Definition iota_nest (sh : list Z) : nest :=
  match sh with
  | [a] => N1 (zrange (fun i => i) 0 a)
  | [a; b] => N2 (chunks (Z.to_nat a) (Z.to_nat b) (zrange (fun i => i) 0 (a * b)))
  | [a; b; c] => N3 (map (chunks (Z.to_nat b) (Z.to_nat c))
                         (chunks (Z.to_nat a) (Z.to_nat (b * c)) (zrange (fun i => i) 0 (a * b * c))))
  | _ => N1 []
  end.
Definition mk (sh : list Z) (s0 fsn fsd : Z) (ch md : lab) : pd :=
  {| shape := sh; dat := iota_nest sh; s0 := s0; fsn := fsn; fsd := fsd; chan := ch; meta := md |}.
Definition mkv (sh : list Z) (vals : list Z) (s0 fsn fsd : Z) (ch md : lab) : res :=
  match renest sh vals with
  | NPArr _ d => RArr {| shape := sh; dat := d; s0 := s0; fsn := fsn; fsd := fsd; chan := ch; meta := md |}
  | _ => RErr EUnbound
  end.

(* a chain of index expressions applied one after the other *)
Fixpoint getitems (rep : bool) (x : pd) (ixs : list index) : res :=
  match ixs with
  | [] => RArr x
  | ix :: t => match getitem_gen rep x ix with
               | RArr y => getitems rep y t
               | r => r
               end
  end.
Definition check_getitems (x : pd) (ixs : list index) (got : res) : bool :=
  eqb_res (getitems true x ixs) got.
(* slice into pieces, then concatenate them *)
Definition pieces (x : pd) (ixss : list (list index)) : err + list pd :=
  all_arrays (map (getitems true x) ixss).
Definition check_concat (x : pd) (ixss : list (list index)) (dm : cdim) (got : res) : bool :=
  match pieces x ixss with
  | inl _ => false
  | inr ps => eqb_res (concat_pd dm ps) got
  end.

(* the same checks against the code before the repairs (used only when the harness is pointed at an unrepaired tree
   for diagnosis; never by ./check) *)
Definition check_getitems_gen (rep : bool) (x : pd) (ixs : list index) (got : res) : bool :=
  eqb_res (getitems rep x ixs) got.

(* literal pieces *)
Definition check_concat_lit (ps : list res) (dm : cdim) (got : res) : bool :=
  match all_arrays ps with
  | inl _ => false
  | inr l => eqb_res (concat_pd dm l) got
  end.

(* arithmetic / copy / astype glue: the result carries the annotations of the annotated operand *)
Inductive uop := UAdd (k : Z) | UMul (k : Z) | UNeg | UAbs | UCopy | UGt (k : Z) | URsub (k : Z).
Definition uop_fun (o : uop) (v : Z) : Z :=
  match o with
  | UAdd k => v + k
  | UMul k => v * k
  | UNeg => - v
  | UAbs => Z.abs v
  | UCopy => v
  | UGt k => if v >? k then 1 else 0
  | URsub k => k - v
  end.
Definition check_op (x : pd) (o : uop) (got : res) : bool := eqb_res (RArr (map_data (uop_fun o) x)) got.

(* ================================================================== added by the harness coverage audit (definitions only;
   nothing above is changed) *)

(* PipelineData.__new__: defaults for channel / metadata and the two length checks.  empty_md is the identifier of {} *)
Definition empty_md : Z := -2.
Definition pd_new (sh : list Z) (d : nest) (s0 fsn fsd : Z) (ch md : option lab) : res :=
  let nd := zlen sh in
  let dim (k : Z) := nth (Z.to_nat (nd - k)) sh 0 in
  let chk : err + lab :=
      if nd >? 1 then
        match ch with
        | None => inr (LMany (repeat none_id (Z.to_nat (dim 2))))
        | Some (LMany l) => if zlen l =? dim 2 then inr (LMany l) else inl EValue
        | Some (LOne _) => inl ETypeKey                      (* len(scalar) *)
        end
      else inr (match ch with None => LOne none_id | Some c => c end) in
  match chk with
  | inl e => RErr e
  | inr ch' =>
    let mdk : err + lab :=
        if nd >? 2 then
          match md with
          | None => inr (LMany (repeat empty_md (Z.to_nat (dim 3))))
          | Some (LMany l) => if zlen l =? dim 3 then inr (LMany l) else inl EValue
          | Some (LOne _) => inl EValue
          end
        else inr (match md with None => LOne empty_md | Some m => m end) in
    match mdk with
    | inl e => RErr e
    | inr md' => RArr {| shape := sh; dat := d; s0 := s0; fsn := fsn; fsd := fsd; chan := ch'; meta := md' |}
    end
  end.
Definition check_new (sh vals : list Z) (s0 fsn fsd : Z) (ch md : option lab) (ixs : list index) (got : res) : bool :=
  match renest sh vals with
  | NPArr _ d => match pd_new sh d s0 fsn fsd ch md with
                 | RArr p => eqb_res (getitems true p ixs) got
                 | r => eqb_res r got
                 end
  | _ => false
  end.

(* an operation, then index expressions on its result (bool / integer dtypes, results of arithmetic) *)
Definition check_op_getitems (x : pd) (o : uop) (ixs : list index) (got : res) : bool :=
  eqb_res (getitems true (map_data (uop_fun o) x) ixs) got.

(* pipeline.concat as called: axis name check first, then plain ndarrays / mixed / annotated pieces *)
Inductive piece := PPlain (sh : list Z) (d : nest) | PAnn (p : pd).
Inductive cres := CPlain (sh : list Z) (d : nest) | CAnn (p : pd) | CErr (e : err).
Definition is_plain (p : piece) : bool := match p with PPlain _ _ => true | PAnn _ => false end.
Fixpoint cat_plain (dm : cdim) (sh : list Z) (d : nest) (ps : list piece) : option (list Z * nest) :=
  match ps with
  | [] => Some (sh, d)
  | PPlain sh2 d2 :: t => match cat_shape dm sh sh2, cat2 dm d d2 with
                          | Some sh', Some d' => cat_plain dm sh' d' t
                          | _, _ => None
                          end
  | PAnn _ :: _ => None
  end.
Definition concat_any (dm : option cdim) (ps : list piece) : cres :=
  match dm with
  | None => CErr EValue                                     (* dim_axis: 'Axis not supported' *)
  | Some dm =>
    if forallb is_plain ps then
      match ps with
      | PPlain sh d :: rest =>
        (* np.concatenate; a single piece must still have the axis *)
        match cat_shape dm sh sh with
        | None => CErr EValue
        | Some _ => match cat_plain dm sh d rest with Some (sh', d') => CPlain sh' d' | None => CErr EValue end
        end
      | _ => CErr EValue                                    (* need at least one array to concatenate *)
      end
    else if existsb is_plain ps then CErr EValue            (* 'Cannot concatenate pipeline and non-pipeline data' *)
    else match concat_pd dm (flat_map (fun p => match p with PAnn x => [x] | _ => [] end) ps) with
         | RArr r => CAnn r
         | RErr e => CErr e
         | RScalar _ => CErr ETypeKey
         end
  end.
Definition mk_piece (plain : bool) (sh vals : list Z) (s0 fsn fsd : Z) (ch md : lab) : piece :=
  match renest sh vals with
  | NPArr _ d => if plain then PPlain sh d
                 else PAnn {| shape := sh; dat := d; s0 := s0; fsn := fsn; fsd := fsd; chan := ch; meta := md |}
  | _ => PPlain sh (N1 vals)
  end.
Definition eqb_cres (a b : cres) : bool :=
  match a, b with
  | CPlain s d, CPlain s' d' => eqb_listZ s s' && eqb_listZ (flat d) (flat d')
  | CAnn p, CAnn q => eqb_pd p q
  | CErr e, CErr f => eqb_err e f
  | _, _ => false
  end.
Definition cres_of (plain : bool) (r : res) : cres :=
  match r with
  | RArr p => if plain then CPlain (shape p) (dat p) else CAnn p
  | RErr e => CErr e
  | RScalar _ => CErr ETypeKey
  end.
Definition check_concat_any (dm : option cdim) (ps : list piece) (got_plain : bool) (got : res) : bool :=
  eqb_cres (concat_any dm ps) (cres_of got_plain got).

(* ================================================================== added with the repair "integer index arrays and lists are not
   mistaken for all-True masks" (fix-C11idx).  A SOLE 1-D integer ndarray x[np.array(zs)] (any integer dtype) is not an
   item of the index language above (inside a tuple NumPy and normalize_index read it as the list zs: IList).
   NumPy reads the sole array as the list zs as well.  normalize_index: repaired, the shortcut
   `isinstance(index, np.ndarray) and index.dtype == bool and index.all()` does not apply and the array goes through
   `.tolist()` like the python list x[[..]]; before the repair `index.all()` alone took ANY array without a 0 (the empty
   one included) for an all-True mask: the data were selected by NumPy, the annotations not at all. *)
Definition normalize_int_array (rep : bool) (zs : list Z) (nd : Z) : err + list nitem :=
  if negb rep && all_nonzero zs then inr (repeat nfull (Z.to_nat nd))
  else normalize_tuple rep nd [IList zs].

(* PipelineData.__getitem__ with the result of normalize_index given: the body of getitem_gen
   (getitem_gen rep x ix = getitem_with rep x (items ix) (normalize_index rep ix (ndim x)) by computation: ProofsX2.v) *)
Definition getitem_with (rep : bool) (x : pd) (its : list item) (norm : err + list nitem) : res :=
  match np_getitem (shape x) (dat x) its with
  | NPErr => RErr EIndex
  | NPScalar v =>
    if existsb is_ell its then
      match norm with
      | inl e => RErr e
      | inr s => match split3 s with
                 | None => RErr EUnbound
                 | Some (_, _, ts) => match fix_time rep x ts with inl e => RErr e | inr _ => RScalar v end
                 end
      end
    else RScalar v
  | NPBig sh =>
    match norm with
    | inl e => RErr e
    | inr _ => RErr EUnbound
    end
  | NPArr sh d =>
    match norm with
    | inl e => RErr e
    | inr s =>
      match split3 s with
      | None => RErr EUnbound
      | Some (es, cs, ts) =>
        match fix_time rep x ts with
        | inl e => RErr e
        | inr (s0', fsd') =>
          match fix_chan rep cs (finalize_chan (chan x) sh) with
          | inl e => RErr e
          | inr ch' =>
            match fix_meta es (meta x) with
            | inl e => RErr e
            | inr md' => RArr {| shape := sh; dat := d; s0 := s0'; fsn := fsn x; fsd := fsd';
                                 chan := ch'; meta := md' |}
            end
          end
        end
      end
    end
  end.
Definition getitem_int_array (rep : bool) (x : pd) (zs : list Z) : res :=
  getitem_with rep x [IList zs] (normalize_int_array rep zs (ndim x)).

(* an index expression of the language, or a sole integer ndarray *)
Inductive xindex := XIdx (ix : index) | XArr (zs : list Z).
Definition getitem_x (rep : bool) (x : pd) (i : xindex) : res :=
  match i with XIdx ix => getitem_gen rep x ix | XArr zs => getitem_int_array rep x zs end.
Fixpoint getitems_x (rep : bool) (x : pd) (ixs : list xindex) : res :=
  match ixs with
  | [] => RArr x
  | i :: t => match getitem_x rep x i with
              | RArr y => getitems_x rep y t
              | r => r
              end
  end.
Definition check_getitems_x (rep : bool) (x : pd) (ixs : list xindex) (got : res) : bool :=
  eqb_res (getitems_x rep x ixs) got.
