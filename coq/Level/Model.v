(* C08 - executable (Q) checks of the two-run relations on samples the implementation returned (binary64 values are
   dyadic rationals, so these are exact computations):  polarity flip = exact negation;  level + 20 dB = ten times every
   sample to round-off;  same number of samples.  Evaluated by vm_compute in the generated correspondence files. *)
From Coq Require Import QArith Qabs.
From PV Require Export Common.ListX.
Open Scope Q_scope.

(* a binary64 value n * 2^e *)
Definition dy (n e : Z) : Q :=
  if (0 <=? e)%Z then inject_Z (n * 2 ^ e) else Qmake n (Z.to_pos (2 ^ (- e))).

(* every pair (y, y') has y' = - y exactly *)
Definition check_negated (l : list (Q * Q)) : bool := forallb (fun p => Qeq_bool (snd p) (- fst p)) l.

(* every pair (y, y') has |y' - 10 y| <= |10 y| / tolinv  (tolinv = 10^12 for round-off of binary64 arithmetic) *)
Definition check_times10 (tolinv : Z) (peak : Q) (l : list (Q * Q)) : bool :=
  forallb (fun p => Qle_bool (Qabs (snd p - 10 * fst p) * inject_Z tolinv) (10 * peak)) l.

(* lengths of the two runs agree *)
Definition check_len (n1 n2 : Z) : bool := (n1 =? n2)%Z.

(* ---------------------------------------------------------------- facts (axiom-free) *)
Lemma check_negated_spec l : check_negated l = true -> forall y y', In (y, y') l -> y' == - y.
Proof.
  unfold check_negated. rewrite forallb_forall. intros H y y' Hin. specialize (H _ Hin). now apply Qeq_bool_iff in H.
Qed.
