(* C08 - scipy.signal.lfilter(b, a, x, zi) as the sample-sequential recurrence it documents (transposed direct form II,
   a[0] = 1):   y = b0 x + z0;   z_i' = b_{i+1} x - a_{i+1} y + z_{i+1}   (the last state has no successor).
   Used to state what the filtered noises inherit: the output is jointly linear in (input, initial state), so it scales
   with the level and flips with the polarity exactly when the initial state does - in particular from rest.
   NotchFilterFactory started from lfilter_zi(b, a), a fixed non-zero state: its output was NOT linear in the level
   (`notch_unrepaired_refuted`); the repaired factory starts at rest.  The recurrence itself is a trusted primitive
   (DESIGN section 5); coefficients, order and input are arbitrary. *)
From Coq Require Import Reals Lra List.
Import ListNotations.
Open Scope R_scope.

Definition scale (c : R) (l : list R) : list R := map (fun v => c * v) l.

(* new state from the tails of b and a (coefficients 1..), the old state, the input sample and the output sample *)
Fixpoint new_state (bs as_ zs : list R) (x y : R) : list R :=
  match zs with
  | [] => []
  | _ :: zs' =>
      (hd 0 bs * x - hd 0 as_ * y + hd 0 zs') :: new_state (tl bs) (tl as_) zs' x y
  end.

(* one sample: (output, new state) *)
Definition step (b a z : list R) (x : R) : R * list R :=
  let y := hd 0 b * x + hd 0 z in (y, new_state (tl b) (tl a) z x y).

(* the whole input: (outputs, final state) *)
Fixpoint lfilter (b a : list R) (x z : list R) : list R * list R :=
  match x with
  | [] => ([], z)
  | x0 :: xs => let '(y, z') := step b a z x0 in let '(ys, zf) := lfilter b a xs z' in (y :: ys, zf)
  end.

Lemma hd_scale c l : hd 0 (scale c l) = c * hd 0 l.
Proof. destruct l; simpl; ring. Qed.

Lemma tl_scale c l : tl (scale c l) = scale c (tl l).
Proof. destruct l; reflexivity. Qed.

Lemma new_state_scale c bs as_ zs x y :
  new_state bs as_ (scale c zs) (c * x) (c * y) = scale c (new_state bs as_ zs x y).
Proof.
  revert bs as_. induction zs as [|z zs IH]; intros bs as_. reflexivity.
  cbn [scale map new_state]. fold (scale c zs). rewrite hd_scale, IH. cbn [scale map]. f_equal. ring.
Qed.

(* joint homogeneity in the input and the initial state *)
Lemma lfilter_scale c b a x z :
  lfilter b a (scale c x) (scale c z) = (scale c (fst (lfilter b a x z)), scale c (snd (lfilter b a x z))).
Proof.
  revert z. induction x as [|x0 xs IH]; intros z. reflexivity.
  cbn [scale map lfilter]. fold (scale c xs). unfold step. rewrite hd_scale.
  replace (hd 0 b * (c * x0) + c * hd 0 z) with (c * (hd 0 b * x0 + hd 0 z)) by ring.
  rewrite new_state_scale, IH.
  destruct (lfilter b a xs (new_state (tl b) (tl a) z x0 (hd 0 b * x0 + hd 0 z))) as [ys zf]. reflexivity.
Qed.

Definition rest (n : nat) : list R := repeat 0 n.

Lemma scale_rest c n : scale c (rest n) = rest n.
Proof. induction n as [|n IH]. reflexivity. cbn [rest repeat scale map]. fold (rest n) (scale c (rest n)). rewrite IH. f_equal. ring. Qed.

(* from rest the output is homogeneous in the input: level + d dB (c = 10^(d/20)) and polarity (c = -1) pass through *)
Lemma lfilter_rest_scale c b a x n :
  fst (lfilter b a (scale c x) (rest n)) = scale c (fst (lfilter b a x (rest n))).
Proof. rewrite <- (scale_rest c n) at 1. rewrite lfilter_scale. reflexivity. Qed.

(* homogeneity in the numerator: taps and initial state that both scale with the level (BandlimitedFIRNoiseFactory:
   taps = firwin2(gain = sf), zi = lfilter_zi(taps)) give an output that scales *)
Lemma new_state_scale_b c bs as_ zs x y :
  new_state (scale c bs) as_ (scale c zs) x (c * y) = scale c (new_state bs as_ zs x y).
Proof.
  revert bs as_. induction zs as [|z zs IH]; intros bs as_. reflexivity.
  cbn [scale map new_state]. fold (scale c zs). rewrite !hd_scale, tl_scale, IH. cbn [scale map]. f_equal. ring.
Qed.

Lemma lfilter_scale_b c b a x z :
  lfilter (scale c b) a x (scale c z) = (scale c (fst (lfilter b a x z)), scale c (snd (lfilter b a x z))).
Proof.
  revert z. induction x as [|x0 xs IH]; intros z. reflexivity.
  cbn [lfilter]. unfold step. rewrite !hd_scale, tl_scale.
  replace (c * hd 0 b * x0 + c * hd 0 z) with (c * (hd 0 b * x0 + hd 0 z)) by ring.
  rewrite new_state_scale_b, IH.
  destruct (lfilter b a xs (new_state (tl b) (tl a) z x0 (hd 0 b * x0 + hd 0 z))) as [ys zf]. reflexivity.
Qed.

(* NotchFilterFactory: the filtered carrier.  Repaired: the filter starts at rest.  Unrepaired: it started from the
   fixed state zi = lfilter_zi(b, a), whatever the level or polarity of the carrier. *)
Definition notch_output (b a : list R) (carrier : list R) : list R := fst (lfilter b a carrier (rest (length a - 1))).
Definition notch_output_unrepaired (b a zi : list R) (carrier : list R) : list R := fst (lfilter b a carrier zi).

Lemma notch_linear c b a carrier : notch_output b a (scale c carrier) = scale c (notch_output b a carrier).
Proof. apply lfilter_rest_scale. Qed.

(* first-order section, silent carrier, state 1, level factor 2: the output stays 1 instead of doubling *)
Lemma notch_unrepaired_refuted :
  exists b a zi carrier c,
    notch_output_unrepaired b a zi (scale c carrier) <> scale c (notch_output_unrepaired b a zi carrier).
Proof.
  exists [1; 0], [1; 0], [1], [0], 2. unfold notch_output_unrepaired. cbn.
  intros H. injection H as H. lra.
Qed.

Lemma filtered_linear c b a x z n :
  lfilter b a (scale c x) (scale c z) = (scale c (fst (lfilter b a x z)), scale c (snd (lfilter b a x z))) /\
  fst (lfilter b a (scale c x) (rest n)) = scale c (fst (lfilter b a x (rest n))) /\
  lfilter (scale c b) a x (scale c z) = (scale c (fst (lfilter b a x z)), scale c (snd (lfilter b a x z))) /\
  notch_output b a (scale c x) = scale c (notch_output b a x).
Proof. split. apply lfilter_scale. split. apply lfilter_rest_scale. split. apply lfilter_scale_b. apply notch_linear. Qed.
