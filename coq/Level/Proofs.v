(* C08 - proofs about the generated stimulus expressions (gen/StimExprGen.v). *)
From Coq Require Import Reals Lra Lia ZArith List.
From PV Require Import Calib.RBase gen.CalibGen Calib.Laws gen.StimExprGen Spectrum.TrigSum Level.Spec.
Open Scope R_scope.

Ltac unfs := unfold sam_sample, sam_sample_noeq, tone_sample, tone_sample_nocal, sam_lb_sample, sam_c_sample, sam_ub_sample,
  sam_lb_sample_noeq, sam_c_sample_noeq, sam_ub_sample_noeq, click_sample, bb_noise, bl_noise_input,
  shaped_noise_input, uniform, bb_sample, bb_low, bb_high, bl_low, bl_high, bl_sample, shaped_scale, shaped_sample,
  fir_sample in *.

(* ---------------------------------------------------------------- the scale factor is multiplicative in the level *)
Lemma dbi_gain d : util_dbi d 1 = gain d.
Proof. unfold util_dbi, gain. ring. Qed.

Lemma sf_gain s L d a : cal_get_sf s (L + d) a = gain d * cal_get_sf s L a.
Proof. rewrite level_offset, dbi_gain. reflexivity. Qed.

Lemma gain_pos d : 0 < gain d.
Proof. apply pow10_pos. Qed.

Lemma gain_20 : gain 20 = 10.
Proof. unfold gain. replace (20 / 20) with 1 by field. apply pow10_1. Qed.

Lemma gain_0 : gain 0 = 1.
Proof. unfold gain. replace (0 / 20) with 0 by field. apply pow10_0. Qed.

Lemma mean_sf_gain ss L d a : mean_sf ss (L + d) a = gain d * mean_sf ss L a.
Proof.
  unfold mean_sf, rmean. rewrite !map_length.
  rewrite (rsum_scale (gain d) _ (fun s => cal_get_sf s L a)). unfold Rdiv. ring.
  intros s. apply sf_gain.
Qed.

Lemma flat_mean_sf_gain s L d a : flat_get_mean_sf s (L + d) a = gain d * flat_get_mean_sf s L a.
Proof. unfold flat_get_mean_sf. apply sf_gain. Qed.

(* ---------------------------------------------------------------- level linearity, stimulus by stimulus *)
Lemma level_linear_tone s L d pol i off fs f ph :
  tone_sample s (L + d) pol i off fs f ph = gain d * tone_sample s L pol i off fs f ph.
Proof. unfs. rewrite sf_gain. ring. Qed.

(* without a calibration the level IS the RMS amplitude: the waveform is homogeneous in it *)
Lemma level_linear_tone_nocal c L pol i off fs f ph :
  tone_sample_nocal (c * L) pol i off fs f ph = c * tone_sample_nocal L pol i off fs f ph.
Proof. unfs. ring. Qed.

Lemma level_linear_sam sl sc su L d pol i off fs fc fm depth pl pc pu :
  sam_lb_sample sl (L + d) pol i off fs fc fm depth pl = gain d * sam_lb_sample sl L pol i off fs fc fm depth pl /\
  sam_c_sample sc (L + d) pol i off fs fc fm depth pc = gain d * sam_c_sample sc L pol i off fs fc fm depth pc /\
  sam_ub_sample su (L + d) pol i off fs fc fm depth pu = gain d * sam_ub_sample su L pol i off fs fc fm depth pu /\
  sam_sample sl sc su (L + d) pol i off fs fc fm depth pl pc pu
    = gain d * sam_sample sl sc su L pol i off fs fc fm depth pl pc pu /\
  sam_sample_noeq sl sc su (L + d) pol i off fs fc fm depth pl pc pu
    = gain d * sam_sample_noeq sl sc su L pol i off fs fc fm depth pl pc pu.
Proof. unfs. rewrite !sf_gain. unfold Rdiv. repeat split; ring. Qed.

Lemma level_linear_click s L d pol : click_sample s (L + d) pol = gain d * click_sample s L pol.
Proof. unfs. rewrite sf_gain. ring. Qed.

(* noise: the bounds of the uniform generator scale, hence every sample drawn with the same deviate r scales;
   msf is get_mean_sf: Calib/Laws.mean_sf for table calibrations, flat_get_mean_sf for FlatCalibration *)
Lemma level_linear_noise_msf c msf pol r fs fl fh fsf :
  bb_low (c * msf) = c * bb_low msf /\ bb_high (c * msf) = c * bb_high msf /\
  bb_noise (c * msf) pol r = c * bb_noise msf pol r /\
  bl_low (c * msf) fs fl fh = c * bl_low msf fs fl fh /\ bl_high (c * msf) fs fl fh = c * bl_high msf fs fl fh /\
  bl_noise_input (c * msf) fs fl fh r = c * bl_noise_input msf fs fl fh r /\
  shaped_scale fsf (c * msf) = c * shaped_scale fsf msf /\
  shaped_noise_input fsf (c * msf) r = c * shaped_noise_input fsf msf r.
Proof. unfs. unfold Rdiv. repeat split; ring. Qed.

Lemma level_linear_noise ss s L d pol r fs fl fh fsf :
  bb_noise (mean_sf ss (L + d) 0) pol r = gain d * bb_noise (mean_sf ss L 0) pol r /\
  bb_noise (flat_get_mean_sf s (L + d) 0) pol r = gain d * bb_noise (flat_get_mean_sf s L 0) pol r /\
  bl_noise_input (mean_sf ss (L + d) 0) fs fl fh r = gain d * bl_noise_input (mean_sf ss L 0) fs fl fh r /\
  bl_noise_input (flat_get_mean_sf s (L + d) 0) fs fl fh r = gain d * bl_noise_input (flat_get_mean_sf s L 0) fs fl fh r /\
  shaped_noise_input fsf (mean_sf ss (L + d) 0) r = gain d * shaped_noise_input fsf (mean_sf ss L 0) r /\
  shaped_noise_input fsf (flat_get_mean_sf s (L + d) 0) r = gain d * shaped_noise_input fsf (flat_get_mean_sf s L 0) r.
Proof.
  rewrite mean_sf_gain, flat_mean_sf_gain.
  destruct (level_linear_noise_msf (gain d) (mean_sf ss L 0) pol r fs fl fh fsf) as (_ & _ & A1 & _ & _ & A2 & _ & A3).
  destruct (level_linear_noise_msf (gain d) (flat_get_mean_sf s L 0) pol r fs fl fh fsf) as (_ & _ & B1 & _ & _ & B2 & _ & B3).
  repeat split; assumption.
Qed.

(* the generator's range is symmetric, so that the noise has no DC offset at any level *)
Lemma noise_bounds_symmetric msf fs fl fh :
  bb_low msf = - bb_high msf /\ bl_low msf fs fl fh = - bl_high msf fs fl fh.
Proof. unfs. unfold Rdiv. split; ring. Qed.

(* ---------------------------------------------------------------- polarity *)
Lemma polarity_all s sl sc su L pol i off fs f ph fc fm depth pl pc pu msf r w :
  tone_sample s L (- pol) i off fs f ph = - tone_sample s L pol i off fs f ph /\
  tone_sample_nocal L (- pol) i off fs f ph = - tone_sample_nocal L pol i off fs f ph /\
  sam_sample sl sc su L (- pol) i off fs fc fm depth pl pc pu = - sam_sample sl sc su L pol i off fs fc fm depth pl pc pu /\
  sam_sample_noeq sl sc su L (- pol) i off fs fc fm depth pl pc pu
    = - sam_sample_noeq sl sc su L pol i off fs fc fm depth pl pc pu /\
  click_sample s L (- pol) = - click_sample s L pol /\
  bb_noise msf (- pol) r = - bb_noise msf pol r /\
  bl_sample (- pol) w = - bl_sample pol w /\
  shaped_sample (- pol) w = - shaped_sample pol w /\
  fir_sample (- pol) w = - fir_sample pol w.
Proof. unfs. unfold Rdiv. repeat split; ring. Qed.

(* polarity +1 leaves the prototype untouched *)
Lemma polarity_one s L i off fs f ph msf r w :
  tone_sample s L 1 i off fs f ph = cal_get_sf s L 0 * sqrt 2 * cos (2 * PI * ((i + off) / fs) * f + ph) /\
  click_sample s L 1 = cal_get_sf s L 0 /\
  bb_noise msf 1 r = uniform (bb_low msf) (bb_high msf) r /\
  bl_sample 1 w = w /\ shaped_sample 1 w = w /\ fir_sample 1 w = w.
Proof. unfs. repeat split; ring. Qed.

(* ---------------------------------------------------------------- RMS over whole cycles *)
Lemma sqrt2_sq : sqrt 2 * sqrt 2 = 2.
Proof. apply sqrt_sqrt. lra. Qed.

(* a sample taken at index n (+ offset) at frequency j fs / N sits on the integer-frequency grid *)
Lemma cos_grid (n : nat) off fs N (j : Z) ph : fs <> 0 -> (0 < N)%nat ->
  cos (2 * PI * ((INR n + off) / fs) * (IZR j * fs / INR N) + ph)
  = cos (INR n * ang N j + (off * ang N j + ph)).
Proof.
  intros Hfs HN. pose proof (INR_pos N HN). f_equal. unfold ang. field. lra.
Qed.

(* sum of squares of a cos(n ang j + q) over a period when 2j is not a multiple of N *)
Lemma cos_sq_sum a N j q : (0 < N)%nat -> delta N (j + j) = 0 ->
  rsumN (fun n => a * cos (INR n * ang N j + q) * (a * cos (INR n * ang N j + q))) N = a * a * INR N / 2.
Proof.
  intros HN Hd.
  rewrite (rsumN_ext _ (fun n => (a * a) * (cos (INR n * ang N j + q) * cos (INR n * ang N j + q)))) by (intros; ring).
  rewrite rsumN_scal, cos_cos_sum by assumption. rewrite Hd, Z.sub_diag, delta_0.
  replace (q - q) with 0 by ring. rewrite cos_0. field.
Qed.

(* cross term of two different integer frequencies *)
Lemma cos_cross_sum a b N j m p q : (0 < N)%nat -> delta N (j + m) = 0 -> delta N (j - m) = 0 ->
  rsumN (fun n => a * cos (INR n * ang N j + p) * (b * cos (INR n * ang N m + q))) N = 0.
Proof.
  intros HN H1 H2.
  rewrite (rsumN_ext _ (fun n => (a * b) * (cos (INR n * ang N j + p) * cos (INR n * ang N m + q)))) by (intros; ring).
  rewrite rsumN_scal, cos_cos_sum by assumption. rewrite H1, H2. field.
Qed.

Lemma pol_sq pol : is_polarity pol -> pol * pol = 1.
Proof. intros [-> | ->]; ring. Qed.

(* TONE: over a whole number k of cycles (0 < 2k < N, f = k fs / N, any offset, any phase) the RMS of the tone is the
   calibration's scale factor, and reading it back through the same calibration gives the requested level *)
Lemma tone_msq s L pol off fs N k ph : is_polarity pol -> fs <> 0 -> (0 < 2 * k < N)%nat ->
  msq (fun n => tone_sample s L pol (INR n) off fs (INR k * fs / INR N) ph) N = cal_get_sf s L 0 * cal_get_sf s L 0.
Proof.
  intros Hp Hfs Hk. assert (HN : (0 < N)%nat) by lia. pose proof (INR_pos N HN) as HNp.
  unfold msq, tone_sample. set (sf := cal_get_sf s L 0).
  rewrite (rsumN_ext _ (fun n => (pol * sf * sqrt 2) * cos (INR n * ang N (Z.of_nat k) + (off * ang N (Z.of_nat k) + ph)) *
                                 ((pol * sf * sqrt 2) * cos (INR n * ang N (Z.of_nat k) + (off * ang N (Z.of_nat k) + ph))))).
  - rewrite cos_sq_sum by (try assumption; apply delta_small; lia).
    replace (pol * sf * sqrt 2 * (pol * sf * sqrt 2)) with ((pol * pol) * (sqrt 2 * sqrt 2) * (sf * sf)) by ring.
    rewrite pol_sq, sqrt2_sq by assumption. field. lra.
  - intros n _. rewrite (INR_IZR_INZ k), cos_grid by assumption. reflexivity.
Qed.

Lemma tone_rms s L pol off fs N k ph : is_polarity pol -> fs <> 0 -> (0 < 2 * k < N)%nat ->
  wrms (fun n => tone_sample s L pol (INR n) off fs (INR k * fs / INR N) ph) N = cal_get_sf s L 0 /\
  cal_get_db s (wrms (fun n => tone_sample s L pol (INR n) off fs (INR k * fs / INR N) ph) N) = L.
Proof.
  intros Hp Hfs Hk. assert (E : wrms (fun n => tone_sample s L pol (INR n) off fs (INR k * fs / INR N) ph) N = cal_get_sf s L 0).
  { unfold wrms. rewrite tone_msq by assumption. apply sqrt_square. pose proof (get_sf_pos s L 0). lra. }
  split. exact E. rewrite E. apply roundtrip.
Qed.

(* without calibration: RMS = |level| *)
Lemma tone_nocal_rms L pol off fs N k ph : is_polarity pol -> fs <> 0 -> (0 < 2 * k < N)%nat -> 0 <= L ->
  wrms (fun n => tone_sample_nocal L pol (INR n) off fs (INR k * fs / INR N) ph) N = L.
Proof.
  intros Hp Hfs Hk HL. assert (HN : (0 < N)%nat) by lia. pose proof (INR_pos N HN) as HNp.
  unfold wrms, msq, tone_sample_nocal.
  rewrite (rsumN_ext _ (fun n => (pol * L * sqrt 2) * cos (INR n * ang N (Z.of_nat k) + (off * ang N (Z.of_nat k) + ph)) *
                                 ((pol * L * sqrt 2) * cos (INR n * ang N (Z.of_nat k) + (off * ang N (Z.of_nat k) + ph))))).
  - rewrite cos_sq_sum by (try assumption; apply delta_small; lia).
    replace (pol * L * sqrt 2 * (pol * L * sqrt 2) * INR N / 2 / INR N) with ((pol * pol) * (sqrt 2 * sqrt 2) * (L * L) / 2)
      by (field; lra).
    rewrite pol_sq, sqrt2_sq by assumption. replace (1 * 2 * (L * L) / 2) with (L * L) by field. now apply sqrt_square.
  - intros n _. rewrite (INR_IZR_INZ k), cos_grid by assumption. reflexivity.
Qed.

(* CLICK: every sample of the rectangular click has magnitude get_sf(0 Hz, level); so has its RMS over its duration,
   and that reads back as the level *)
Lemma click_level s L pol : is_polarity pol ->
  Rabs (click_sample s L pol) = cal_get_sf s L 0 /\ cal_get_db s (Rabs (click_sample s L pol)) = L /\
  forall N, (0 < N)%nat -> wrms (fun _ => click_sample s L pol) N = cal_get_sf s L 0.
Proof.
  intros Hp. pose proof (get_sf_pos s L 0) as Hsf.
  assert (E : Rabs (click_sample s L pol) = cal_get_sf s L 0).
  { unfold click_sample. destruct Hp as [-> | ->].
    - rewrite Rabs_right; lra.
    - rewrite Rabs_left; lra. }
  split. exact E. split. rewrite E. apply roundtrip.
  intros N HN. pose proof (INR_pos N HN). unfold wrms, msq. rewrite rsumN_const.
  replace (INR N * (click_sample s L pol * click_sample s L pol) / INR N) with (Rsqr (click_sample s L pol))
    by (unfold Rsqr; field; lra).
  rewrite sqrt_Rsqr_abs. exact E.
Qed.

(* ---------------------------------------------------------------- SAM tone (depth 1): component amplitudes *)
Lemma sam_eq_power_1 : sam_eq_power 1 * sam_eq_power 1 = 3 / 8 /\ 0 < sam_eq_power 1.
Proof.
  unfold sam_eq_power. replace (3 / 8 * 1 ^ 2 - 1 + 1) with (3 / 8) by field. split.
  apply sqrt_sqrt. lra. apply sqrt_lt_R0. lra.
Qed.

(* sum of three cosines at pairwise different integer frequencies: the powers add *)
Lemma three_cos_msq a b c N j1 j2 j3 q1 q2 q3 : (0 < N)%nat ->
  delta N (j1 + j1) = 0 -> delta N (j2 + j2) = 0 -> delta N (j3 + j3) = 0 ->
  delta N (j1 + j2) = 0 -> delta N (j1 - j2) = 0 -> delta N (j1 + j3) = 0 -> delta N (j1 - j3) = 0 ->
  delta N (j2 + j3) = 0 -> delta N (j2 - j3) = 0 ->
  msq (fun n => a * cos (INR n * ang N j1 + q1) + b * cos (INR n * ang N j2 + q2) + c * cos (INR n * ang N j3 + q3)) N
  = (a * a + b * b + c * c) / 2.
Proof.
  intros HN D1 D2 D3 D12 D12' D13 D13' D23 D23'. pose proof (INR_pos N HN) as HNp. unfold msq.
  set (u := fun n => a * cos (INR n * ang N j1 + q1)).
  set (v := fun n => b * cos (INR n * ang N j2 + q2)).
  set (w := fun n => c * cos (INR n * ang N j3 + q3)).
  rewrite (rsumN_ext _ (fun n => u n * u n + v n * v n + w n * w n + 2 * (u n * v n) + 2 * (u n * w n) + 2 * (v n * w n)))
    by (intros; unfold u, v, w; ring).
  rewrite !rsumN_plus, !rsumN_scal. unfold u, v, w.
  rewrite !cos_sq_sum by assumption.
  rewrite (cos_cross_sum a b N j1 j2), (cos_cross_sum a c N j1 j3), (cos_cross_sum b c N j2 j3) by assumption.
  field. lra.
Qed.

Section Sam.
  Variables (sl sc su L pol off fs pl pc pu : R) (N kc km : nat).
  Hypothesis Hp : is_polarity pol.
  Hypothesis Hfs : fs <> 0.
  Hypothesis Hkm : (0 < km < kc)%nat.
  Hypothesis Hkc : (2 * (kc + km) < N)%nat.

  Let fc := INR kc * fs / INR N.
  Let fm := INR km * fs / INR N.
  Let jl := (Z.of_nat kc - Z.of_nat km)%Z.
  Let jc := Z.of_nat kc.
  Let ju := (Z.of_nat kc + Z.of_nat km)%Z.
  Let E := sam_eq_power 1.

  Lemma HN_sam : (0 < N)%nat. Proof. lia. Qed.

  (* each component is a cosine on the integer-frequency grid with the amplitude sqrt2 * sf_j * weight / E *)
  Lemma sam_lb_grid n : sam_lb_sample sl L pol (INR n) off fs fc fm 1 pl
    = pol * (cal_get_sf sl L 0 * (1 / 4) / E) * sqrt 2 * cos (INR n * ang N jl + (off * ang N jl + pl)).
  Proof.
    pose proof (INR_pos N HN_sam). unfold sam_lb_sample. f_equal. f_equal.
    unfold ang, fc, fm, jl. rewrite minus_IZR, <- !INR_IZR_INZ. field. lra.
  Qed.
  Lemma sam_c_grid n : sam_c_sample sc L pol (INR n) off fs fc fm 1 pc
    = pol * (cal_get_sf sc L 0 * (1 / 2) / E) * sqrt 2 * cos (INR n * ang N jc + (off * ang N jc + pc)).
  Proof.
    pose proof (INR_pos N HN_sam). unfold sam_c_sample. f_equal. f_equal.
    unfold ang, fc, fm, jc. rewrite <- !INR_IZR_INZ. field. lra.
  Qed.
  Lemma sam_ub_grid n : sam_ub_sample su L pol (INR n) off fs fc fm 1 pu
    = pol * (cal_get_sf su L 0 * (1 / 4) / E) * sqrt 2 * cos (INR n * ang N ju + (off * ang N ju + pu)).
  Proof.
    pose proof (INR_pos N HN_sam). unfold sam_ub_sample. f_equal. f_equal.
    unfold ang, fc, fm, ju. rewrite plus_IZR, <- !INR_IZR_INZ. field. lra.
  Qed.

  Lemma comp_rms a j q : 0 <= a -> delta N (j + j) = 0 ->
    wrms (fun n => pol * a * sqrt 2 * cos (INR n * ang N j + q)) N = a.
  Proof.
    intros Ha Hd. pose proof (INR_pos N HN_sam). unfold wrms, msq. rewrite cos_sq_sum by (try assumption; apply HN_sam).
    replace (pol * a * sqrt 2 * (pol * a * sqrt 2) * INR N / 2 / INR N) with ((pol * pol) * (sqrt 2 * sqrt 2) * (a * a) / 2)
      by (field; lra).
    rewrite pol_sq, sqrt2_sq by assumption. replace (1 * 2 * (a * a) / 2) with (a * a) by field. now apply sqrt_square.
  Qed.

  Lemma weight_nonneg s w : 0 <= w -> 0 <= cal_get_sf s L 0 * w / E.
  Proof.
    intros Hw. destruct sam_eq_power_1 as [_ HE]. fold E in HE. pose proof (get_sf_pos s L 0).
    apply Rmult_le_pos. apply Rmult_le_pos; lra. apply Rlt_le, Rinv_0_lt_compat. exact HE.
  Qed.

  (* RMS of each component over a whole number of cycles of all three *)
  Lemma sam_component_rms :
    wrms (fun n => sam_lb_sample sl L pol (INR n) off fs fc fm 1 pl) N = cal_get_sf sl L 0 * (1 / 4) / E /\
    wrms (fun n => sam_c_sample sc L pol (INR n) off fs fc fm 1 pc) N = cal_get_sf sc L 0 * (1 / 2) / E /\
    wrms (fun n => sam_ub_sample su L pol (INR n) off fs fc fm 1 pu) N = cal_get_sf su L 0 * (1 / 4) / E.
  Proof.
    repeat split.
    - unfold wrms, msq. rewrite (rsumN_ext _ (fun n => pol * (cal_get_sf sl L 0 * (1 / 4) / E) * sqrt 2 * cos (INR n * ang N jl + (off * ang N jl + pl)) * (pol * (cal_get_sf sl L 0 * (1 / 4) / E) * sqrt 2 * cos (INR n * ang N jl + (off * ang N jl + pl))))) by (intros; rewrite sam_lb_grid; reflexivity).
      apply (comp_rms _ jl). apply weight_nonneg; lra. apply delta_small. unfold jl. lia.
    - unfold wrms, msq. rewrite (rsumN_ext _ (fun n => pol * (cal_get_sf sc L 0 * (1 / 2) / E) * sqrt 2 * cos (INR n * ang N jc + (off * ang N jc + pc)) * (pol * (cal_get_sf sc L 0 * (1 / 2) / E) * sqrt 2 * cos (INR n * ang N jc + (off * ang N jc + pc))))) by (intros; rewrite sam_c_grid; reflexivity).
      apply (comp_rms _ jc). apply weight_nonneg; lra. apply delta_small. unfold jc. lia.
    - unfold wrms, msq. rewrite (rsumN_ext _ (fun n => pol * (cal_get_sf su L 0 * (1 / 4) / E) * sqrt 2 * cos (INR n * ang N ju + (off * ang N ju + pu)) * (pol * (cal_get_sf su L 0 * (1 / 4) / E) * sqrt 2 * cos (INR n * ang N ju + (off * ang N ju + pu))))) by (intros; rewrite sam_ub_grid; reflexivity).
      apply (comp_rms _ ju). apply weight_nonneg; lra. apply delta_small. unfold ju. lia.
  Qed.

  (* the powers of the three components add *)
  Lemma sam_total_msq :
    msq (fun n => sam_sample sl sc su L pol (INR n) off fs fc fm 1 pl pc pu) N
    = (cal_get_sf sl L 0 * cal_get_sf sl L 0 / 16 + cal_get_sf sc L 0 * cal_get_sf sc L 0 / 4
       + cal_get_sf su L 0 * cal_get_sf su L 0 / 16) / (3 / 8).
  Proof.
    destruct sam_eq_power_1 as [HE2 HE]. fold E in HE, HE2.
    unfold msq. rewrite (rsumN_ext _ (fun n =>
       (fun n => (pol * (cal_get_sf sl L 0 * (1 / 4) / E) * sqrt 2) * cos (INR n * ang N jl + (off * ang N jl + pl))
               + (pol * (cal_get_sf sc L 0 * (1 / 2) / E) * sqrt 2) * cos (INR n * ang N jc + (off * ang N jc + pc))
               + (pol * (cal_get_sf su L 0 * (1 / 4) / E) * sqrt 2) * cos (INR n * ang N ju + (off * ang N ju + pu))) n *
       (fun n => (pol * (cal_get_sf sl L 0 * (1 / 4) / E) * sqrt 2) * cos (INR n * ang N jl + (off * ang N jl + pl))
               + (pol * (cal_get_sf sc L 0 * (1 / 2) / E) * sqrt 2) * cos (INR n * ang N jc + (off * ang N jc + pc))
               + (pol * (cal_get_sf su L 0 * (1 / 4) / E) * sqrt 2) * cos (INR n * ang N ju + (off * ang N ju + pu))) n))
      by (intros; unfold sam_sample; rewrite sam_lb_grid, sam_c_grid, sam_ub_grid; reflexivity).
    fold (msq (fun n => (pol * (cal_get_sf sl L 0 * (1 / 4) / E) * sqrt 2) * cos (INR n * ang N jl + (off * ang N jl + pl))
               + (pol * (cal_get_sf sc L 0 * (1 / 2) / E) * sqrt 2) * cos (INR n * ang N jc + (off * ang N jc + pc))
               + (pol * (cal_get_sf su L 0 * (1 / 4) / E) * sqrt 2) * cos (INR n * ang N ju + (off * ang N ju + pu))) N).
    rewrite three_cos_msq; try apply HN_sam;
      try (apply delta_small; unfold jl, jc, ju; lia); try (apply delta_small_neg; unfold jl, jc, ju; lia).
    set (a := cal_get_sf sl L 0). set (b := cal_get_sf sc L 0). set (c := cal_get_sf su L 0).
    replace ((pol * (a * (1 / 4) / E) * sqrt 2 * (pol * (a * (1 / 4) / E) * sqrt 2) +
              pol * (b * (1 / 2) / E) * sqrt 2 * (pol * (b * (1 / 2) / E) * sqrt 2) +
              pol * (c * (1 / 4) / E) * sqrt 2 * (pol * (c * (1 / 4) / E) * sqrt 2)) / 2)
      with ((pol * pol) * (sqrt 2 * sqrt 2) * (a * a / 16 + b * b / 4 + c * c / 16) / (E * E) / 2) by (field; lra).
    rewrite pol_sq, sqrt2_sq, HE2 by assumption. field.
  Qed.
End Sam.

(* with equal sensitivities at the three frequencies (e.g. a flat calibration) the equal-power SAM tone has the RMS of the
   unmodulated tone: the scale factor; and it reads back as the requested level *)
Lemma sam_rms s L pol off fs pl pc pu N kc km : is_polarity pol -> fs <> 0 -> (0 < km < kc)%nat -> (2 * (kc + km) < N)%nat ->
  wrms (fun n => sam_sample s s s L pol (INR n) off fs (INR kc * fs / INR N) (INR km * fs / INR N) 1 pl pc pu) N
    = cal_get_sf s L 0 /\
  cal_get_db s (wrms (fun n => sam_sample s s s L pol (INR n) off fs (INR kc * fs / INR N) (INR km * fs / INR N) 1 pl pc pu) N) = L.
Proof.
  intros Hp Hfs Hkm Hkc.
  assert (E : wrms (fun n => sam_sample s s s L pol (INR n) off fs (INR kc * fs / INR N) (INR km * fs / INR N) 1 pl pc pu) N
              = cal_get_sf s L 0).
  { unfold wrms. rewrite sam_total_msq by assumption. set (a := cal_get_sf s L 0).
    replace ((a * a / 16 + a * a / 4 + a * a / 16) / (3 / 8)) with (a * a) by field.
    apply sqrt_square. pose proof (get_sf_pos s L 0). unfold a. lra. }
  split. exact E. rewrite E. apply roundtrip.
Qed.

Lemma sam_components sl sc su L pol off fs pl pc pu N kc km :
  is_polarity pol -> fs <> 0 -> (0 < km < kc)%nat -> (2 * (kc + km) < N)%nat ->
  let fc := INR kc * fs / INR N in let fm := INR km * fs / INR N in
  (wrms (fun n => sam_lb_sample sl L pol (INR n) off fs fc fm 1 pl) N = cal_get_sf sl L 0 * (1 / 4) / sam_eq_power 1 /\
   wrms (fun n => sam_c_sample sc L pol (INR n) off fs fc fm 1 pc) N = cal_get_sf sc L 0 * (1 / 2) / sam_eq_power 1 /\
   wrms (fun n => sam_ub_sample su L pol (INR n) off fs fc fm 1 pu) N = cal_get_sf su L 0 * (1 / 4) / sam_eq_power 1) /\
  msq (fun n => sam_sample sl sc su L pol (INR n) off fs fc fm 1 pl pc pu) N
    = (cal_get_sf sl L 0 * cal_get_sf sl L 0 / 16 + cal_get_sf sc L 0 * cal_get_sf sc L 0 / 4
       + cal_get_sf su L 0 * cal_get_sf su L 0 / 16) / (3 / 8).
Proof.
  intros Hp Hfs Hkm Hkc fc fm. split.
  apply sam_component_rms; assumption. apply sam_total_msq; assumption.
Qed.

(* ---------------------------------------------------------------- bundles stated in Props/C08.v *)
Lemma noise_bounds c msf pol r fs fl fh fsf :
  (bb_low (c * msf) = c * bb_low msf /\ bb_high (c * msf) = c * bb_high msf /\
   bb_noise (c * msf) pol r = c * bb_noise msf pol r /\
   bl_low (c * msf) fs fl fh = c * bl_low msf fs fl fh /\ bl_high (c * msf) fs fl fh = c * bl_high msf fs fl fh /\
   bl_noise_input (c * msf) fs fl fh r = c * bl_noise_input msf fs fl fh r /\
   shaped_scale fsf (c * msf) = c * shaped_scale fsf msf /\
   shaped_noise_input fsf (c * msf) r = c * shaped_noise_input fsf msf r) /\
  (bb_low msf = - bb_high msf /\ bl_low msf fs fl fh = - bl_high msf fs fl fh).
Proof. split. apply level_linear_noise_msf. apply noise_bounds_symmetric. Qed.

Lemma gain_facts : gain 0 = 1 /\ gain 20 = 10 /\ forall d, 0 < gain d.
Proof. exact (conj gain_0 (conj gain_20 gain_pos)). Qed.
