(* C08 - definitions the level theorems are stated with.  The stimulus expressions themselves are NOT written here:
   tone_sample, sam_*_sample, click_sample, bb_low/high/sample, bl_low/high/sample, shaped_scale/sample, fir_sample
   come from gen/StimExprGen.v and cal_get_sf, cal_get_db, flat_get_mean_sf from gen/CalibGen.v, both regenerated from
   the source on every run. *)
From Coq Require Import Reals Lra List.
From PV Require Import Calib.RBase gen.CalibGen Calib.Laws gen.StimExprGen Spectrum.TrigSum.
Open Scope R_scope.

(* mean square and RMS of the first N samples of a waveform (util.rms without detrending) *)
Definition msq (w : nat -> R) (N : nat) : R := rsumN (fun n => w n * w n) N / INR N.
Definition wrms (w : nat -> R) (N : nat) : R := sqrt (msq w N).

(* a polarity is +1 or -1 *)
Definition is_polarity (pol : R) : Prop := pol = 1 \/ pol = -1.

(* the SAM tone is the sum of its three components (np.sum(s, axis=0) in sam_tone) *)
Definition sam_sample (sl sc su level pol i off fs fc fm depth pl pc pu : R) : R :=
  sam_lb_sample sl level pol i off fs fc fm depth pl + sam_c_sample sc level pol i off fs fc fm depth pc
  + sam_ub_sample su level pol i off fs fc fm depth pu.
Definition sam_sample_noeq (sl sc su level pol i off fs fc fm depth pl pc pu : R) : R :=
  sam_lb_sample_noeq sl level pol i off fs fc fm depth pl + sam_c_sample_noeq sc level pol i off fs fc fm depth pc
  + sam_ub_sample_noeq su level pol i off fs fc fm depth pu.

(* RandomState.uniform(low, high): low + (high - low) * r for the generator's deviate r in [0, 1)
   (numpy's documented definition; which r the Mersenne Twister produces is outside the model) *)
Definition uniform (low high r : R) : R := low + (high - low) * r.

(* the samples the noise factories hand to their filter / return, as functions of the calibration's mean scale factor *)
Definition bb_noise (msf pol r : R) : R := bb_sample pol (uniform (bb_low msf) (bb_high msf) r).
Definition bl_noise_input (msf fs fl fh r : R) : R := uniform (bl_low msf fs fl fh) (bl_high msf fs fl fh) r.
Definition shaped_noise_input (filter_sf msf r : R) : R :=
  uniform (- shaped_scale filter_sf msf) (shaped_scale filter_sf msf) r.

(* level +d dB multiplies by this factor *)
Definition gain (d : R) : R := pow10 (d / 20).
