(* C15 - the lock discipline holds for the table regenerated from the source under test. *)
From Coq Require Import String ZArith List Bool.
From PV Require Import Conc.Sched Conc.Lang gen.BufferLockGen.
Import ListNotations.

Lemma current_source_well_locked : well_locked generated_methods = true.
Proof.
  first [ vm_compute; reflexivity
        | let r := eval vm_compute in (failing_ops generated_methods) in
          fail 1 "C15_current_source does not hold: well_locked generated_methods = false; operations with a shared access outside their single outermost lock region:" r ].
Qed.

(* the helpers read two mutable fields under no lock of their own: they are NOT atomic when called
   directly, which is why they are outside the property's operation set (checked only when present) *)
Lemma helpers_not_operations :
  forallb (fun n => negb (mem n (op_names generated_methods))) helper_names = true.
Proof. vm_compute. reflexivity. Qed.
