(* C15 - the lock-structure table emitted by translate/pylocks2coq.py and its meaning.

   The translator emits, for every method of class SignalBuffer, its statement list [code]: for each
   statement the self._x fields it reads and writes and the self.<method> calls it makes, with the
   `with self._lock:` blocks and the if/else structure kept.  [prog_of] turns an operation (method
   name) into the program tree run by the machine of Sched.v: calls are inlined, a statement with n
   calls becomes n+1 atomic parts with the callee bodies in between, `return`/`raise`/any exception
   leave every enclosing `with` block through its release.  [well_locked] is the lock discipline of
   Sched.v checked on those very trees, for every operation of the property's operation set. *)
From Coq Require Import Ascii ZArith List Bool Arith.
From Coq Require Export String.
From PV Require Import Conc.Sched.
Import ListNotations.
Open Scope string_scope.

Inductive skind := KPlain | KReturn | KRaise.

Inductive code :=
| SStmt (line : Z) (reads writes calls : list string) (k : skind)
| SIf (line : Z) (reads writes calls : list string) (thn els : list code)
| SWith (line : Z) (body : list code)            (* with self._lock: *)
| SOpaque (line : Z) (why : string).              (* the translator could not classify this statement *)

Record method := mkM { m_name : string; m_body : list code }.

(* one atomic part of one source statement *)
Record action := mkA { a_line : Z; a_part : nat; a_reads : list string; a_writes : list string }.

Definition mem (x : string) (l : list string) : bool := existsb (String.eqb x) l.

Fixpoint find_method (tbl : list method) (name : string) : option (list code) :=
  match tbl with
  | [] => None
  | m :: t => if String.eqb (m_name m) name then Some (m_body m) else find_method t name
  end.

(* ---- fields ---- *)
Fixpoint writes_c (c : code) : list string :=
  match c with
  | SStmt _ _ w _ _ => w
  | SIf _ _ w _ a b => w ++ flat_map writes_c a ++ flat_map writes_c b
  | SWith _ b => flat_map writes_c b
  | SOpaque _ _ => []
  end.
Definition writes_of (cs : list code) : list string := flat_map writes_c cs.
Fixpoint reads_c (c : code) : list string :=
  match c with
  | SStmt _ r _ _ _ => r
  | SIf _ r _ _ a b => r ++ flat_map reads_c a ++ flat_map reads_c b
  | SWith _ b => "_lock" :: flat_map reads_c b
  | SOpaque _ _ => []
  end.
Definition reads_of (cs : list code) : list string := flat_map reads_c cs.
Fixpoint calls_c (c : code) : list string :=
  match c with
  | SStmt _ _ _ cl _ => cl
  | SIf _ _ _ cl a b => cl ++ flat_map calls_c a ++ flat_map calls_c b
  | SWith _ b => flat_map calls_c b
  | SOpaque _ _ => []
  end.
Definition calls_of (cs : list code) : list string := flat_map calls_c cs.
Fixpoint opaque_c (c : code) : bool :=
  match c with
  | SStmt _ _ _ _ _ => false
  | SIf _ _ _ _ a b => existsb opaque_c a || existsb opaque_c b
  | SWith _ b => existsb opaque_c b
  | SOpaque _ _ => true
  end.
Definition has_opaque (cs : list code) : bool := existsb opaque_c cs.

(* A mutable shared field is COMPUTED: any self._x assigned in a method other than __init__. *)
Definition mutable_fields (tbl : list method) : list string :=
  flat_map (fun m => if String.eqb (m_name m) "__init__" then [] else writes_of (m_body m)) tbl.

Definition touches_in (mut : list string) (a : action) : bool :=
  existsb (fun f => mem f mut) (a_reads a ++ a_writes a).

(* ---- from statement lists to program trees ---- *)
Section Den.
  Variable tbl : list method.
  Notation prog := (prog action).

  (* parts of one statement: part; call m1; part; call m2; ...; last part built by [final] *)
  Fixpoint den_calls (callf : string -> prog -> prog -> prog) (ln : Z) (r w : list string)
           (calls : list string) (part : nat) (final : action -> prog) (kx : prog) : prog :=
    match calls with
    | [] => final (mkA ln part r w)
    | m :: ms => Step (mkA ln part r w) (callf m (den_calls callf ln r w ms (S part) final kx) kx) kx
    end.

  (* k: after the statement; kr: after `return`; kx: after an exception *)
  Fixpoint den (fuel : nat) (stack : list string) : code -> prog -> prog -> prog -> prog :=
    let callf : string -> prog -> prog -> prog :=
      fun m k kx =>
        match fuel with
        | O => Bad
        | S f => if mem m stack then Bad else
                 match find_method tbl m with
                 | None => Bad
                 | Some body => fold_right (fun c k' => den f (m :: stack) c k' k kx) k body
                 end
        end in
    fix den_code (c : code) (k kr kx : prog) : prog :=
      match c with
      | SStmt ln r w calls kd =>
          den_calls callf ln r w calls 0
            (fun a => match kd with
                      | KPlain => Step a k kx
                      | KReturn => Step a kr kx
                      | KRaise => Step a kx kx
                      end) kx
      | SIf ln r w calls t e =>
          den_calls callf ln r w calls 0
            (fun a => If a (fold_right (fun c' k' => den_code c' k' kr kx) k t)
                           (fold_right (fun c' k' => den_code c' k' kr kx) k e) kx) kx
      | SWith ln body =>
          Step (mkA ln 0 ["_lock"] [])
               (Acq (fold_right (fun c' k' => den_code c' k' (Rel kr) (Rel kx)) (Rel k) body)) kx
      | SOpaque _ _ => Bad
      end.

  Definition den_list (fuel : nat) (stack : list string) (cs : list code) (kn kr kx : prog) : prog :=
    fold_right (fun c k' => den fuel stack c k' kr kx) kn cs.

  Definition prog_of (name : string) : prog :=
    match find_method tbl name with
    | Some body => den_list (S (List.length tbl)) [name] body Done Done Done
    | None => Bad
    end.
End Den.

(* ---- the property's operation set ---- *)
Definition writer_ops := ["append_data"; "invalidate"; "invalidate_samples"; "resize"].
Definition reader_ops := ["get_latest"; "get_range"; "get_range_filled"; "get_range_samples";
                          "get_samples_lb"; "get_samples_ub"; "get_time_lb"; "get_time_ub"].
(* helpers that read two mutable fields with no lock of their own; not operations of the property when
   called directly (they are checked wherever an operation calls them) *)
Definition helper_names := ["time_to_index"; "samples_to_index"].

Definition is_private (name : string) : bool :=
  match name with
  | String "_"%char (String "_"%char _) => String.eqb name "__init__"   (* other dunder methods are operations *)
  | String "_"%char _ => true
  | _ => false
  end.

(* every listed operation, plus every other public method (a new method is an operation) *)
Definition op_names (tbl : list method) : list string :=
  writer_ops ++ reader_ops ++
  filter (fun n => negb (is_private n) && negb (mem n helper_names) && negb (mem n (writer_ops ++ reader_ops)))
         (map m_name tbl).

Definition op_ok (tbl : list method) (name : string) : bool :=
  disc action (touches_in (mutable_fields tbl)) MB (prog_of tbl name).

Definition well_locked (tbl : list method) : bool :=
  forallb (op_ok tbl) (op_names tbl).

Definition failing_ops (tbl : list method) : list string :=
  filter (fun n => negb (op_ok tbl n)) (op_names tbl).

(* ---- checks used by the generated correspondence cases (harness/C15.py) ---- *)
Definition subset (a b : list string) : bool := forallb (fun x => mem x b) a.
Definition seteq (a b : list string) : bool := subset a b && subset b a.

(* the table's own (not transitive) field/call sets of one method equal the independently obtained ones *)
Definition check_method (tbl : list method) (name : string) (touched stores calls : list string) : bool :=
  match find_method tbl name with
  | None => false
  | Some body =>
      negb (has_opaque body) &&
      seteq (reads_of body ++ writes_of body) touched &&
      subset stores (writes_of body) &&
      seteq (calls_of body) calls
  end.

(* what was observed at run time inside the method's own frame is covered by the table *)
Definition check_observed (tbl : list method) (name : string) (rd wr calls : list string) : bool :=
  match find_method tbl name with
  | None => false
  | Some body =>
      subset rd (reads_of body ++ writes_of body) && subset wr (writes_of body) && subset calls (calls_of body)
  end.

Definition check_mutable (tbl : list method) (expected : list string) : bool :=
  seteq (mutable_fields tbl) expected.

Fixpoint psize (p : prog action) : nat :=
  match p with
  | Done | Bad => 1
  | Acq k | Rel k => S (psize k)
  | Step _ a b => S (psize a + psize b)
  | If _ a b c => S (psize a + psize b + psize c)
  end.

(* as [check_method], for tables whose field sets also contain accesses made through local aliases of fields
   ([extra]: the fields the translator reports as reached only through aliases in this method): everything the
   bytecode names is in the table, and the table has nothing beyond bytecode + aliases *)
Definition check_method2 (tbl : list method) (name : string) (touched extra stores calls : list string) : bool :=
  match find_method tbl name with
  | None => false
  | Some body =>
      negb (has_opaque body) &&
      subset touched (reads_of body ++ writes_of body) &&
      subset (reads_of body ++ writes_of body) (touched ++ extra) &&
      subset stores (writes_of body) &&
      seteq (calls_of body) calls
  end.
