(* C15 - a small concurrent semantics with one re-entrant lock.

   Threads (any number, indexed by nat) each run a LIST of operations.  An operation is a finite
   tree [prog] of atomic actions (one per source statement / statement part), lock acquisitions and
   releases.  An action transforms the thread-local state and the shared store; which successor of
   the node is taken (fall through / other branch / exception) is decided by the thread-local state
   after the action.  The scheduler relation [step] lets ANY enabled thread move at every step, so
   the reflexive-transitive closure [steps] contains all interleavings with any number of
   pre-emptions.  A thread that wants the lock while another thread owns it is not enabled.

   What an action does ([sem], [branch]) is abstract (Section variables). *)
From Coq Require Import List Bool Arith Lia.
Import ListNotations.

Inductive choice := CNorm | CAlt | CExc.

(* Program trees over an action alphabet. *)
Inductive prog (Act : Type) :=
| Done                                   (* operation finished *)
| Bad                                    (* something the translator could not classify: stuck, never accepted *)
| Acq (k : prog Act)                     (* with self._lock: __enter__ *)
| Rel (k : prog Act)                     (* ... __exit__ *)
| Step (a : Act) (kn kx : prog Act)      (* atomic action; normal successor / exceptional successor *)
| If (a : Act) (kt ke kx : prog Act).    (* atomic test; then / else / exception *)
Arguments Done {Act}.
Arguments Bad {Act}.
Arguments Acq {Act} k.
Arguments Rel {Act} k.
Arguments Step {Act} a kn kx.
Arguments If {Act} a kt ke kx.

(* Lock discipline of one operation ("two phases"): MB = before its critical section, MI d = inside
   (nesting depth d+1), MA = after it.  Outside the critical section only actions that do not touch
   a mutable shared field are allowed; the critical section is entered at most once. *)
Inductive mode := MB | MI (d : nat) | MA.

Section Disc.
  Variable Act : Type.
  Variable touches : Act -> bool.

  Definition act_ok (m : mode) (a : Act) : bool :=
    match m with MI _ => true | _ => negb (touches a) end.

  Fixpoint disc (m : mode) (p : prog Act) : bool :=
    match p with
    | Done => match m with MI _ => false | _ => true end
    | Bad => false
    | Acq k => match m with MB => disc (MI 0) k | MI d => disc (MI (S d)) k | MA => false end
    | Rel k => match m with MI 0 => disc MA k | MI (S d) => disc (MI d) k | _ => false end
    | Step a kn kx => act_ok m a && disc m kn && disc m kx
    | If a kt ke kx => act_ok m a && disc m kt && disc m ke && disc m kx
    end.
End Disc.

Section Machine.
  Variable Act Local Store : Type.
  Variable sem : Act -> Local -> Store -> Local * Store.
  Variable branch : Act -> Local -> choice.

  Notation prog := (prog Act).

  Definition sel2 (a : Act) (l' : Local) (kn kx : prog) : prog :=
    match branch a l' with CExc => kx | _ => kn end.
  Definition sel3 (a : Act) (l' : Local) (kt ke kx : prog) : prog :=
    match branch a l' with CNorm => kt | CAlt => ke | CExc => kx end.

  (* Running (the rest of) an operation alone, to its end. *)
  Fixpoint exec (p : prog) (l : Local) (s : Store) : Local * Store :=
    match p with
    | Done => (l, s)
    | Bad => (l, s)
    | Acq k => exec k l s
    | Rel k => exec k l s
    | Step a kn kx =>
        let ls := sem a l s in
        match branch a (fst ls) with
        | CExc => exec kx (fst ls) (snd ls)
        | _ => exec kn (fst ls) (snd ls)
        end
    | If a kt ke kx =>
        let ls := sem a l s in
        match branch a (fst ls) with
        | CNorm => exec kt (fst ls) (snd ls)
        | CAlt => exec ke (fst ls) (snd ls)
        | CExc => exec kx (fst ls) (snd ls)
        end
    end.

  (* ---------------- interleaved machine ---------------- *)
  Record thread := mkT {
    loc : Local;            (* thread-local state: arguments, temporaries, results so far *)
    acqd : bool;            (* ghost: the current operation has taken the lock at some point *)
    todo : list prog        (* head = rest of the current operation; tail = operations still to run *)
  }.
  Record config := mkC {
    store : Store;                  (* the mutable shared fields *)
    lock : option (nat * nat);      (* owner, nesting depth - 1 *)
    thr : nat -> thread
  }.
  Definition upd {T} (f : nat -> T) (i : nat) (t : T) : nat -> T :=
    fun j => if Nat.eqb j i then t else f j.

  (* [step c o c']: one thread moves.  o = Some i marks the "commit point" of thread i's current
     operation: its outermost lock acquisition, or - for an operation that finishes without ever
     taking the lock - its completion. *)
  Inductive step : config -> option nat -> config -> Prop :=
  | st_pop : forall c i l b rest,
      thr c i = mkT l b (Done :: rest) ->
      step c (if b then None else Some i)
           (mkC (store c) (lock c) (upd (thr c) i (mkT l false rest)))
  | st_acq_free : forall c i l b k rest,
      thr c i = mkT l b (Acq k :: rest) -> lock c = None ->
      step c (Some i) (mkC (store c) (Some (i, 0)) (upd (thr c) i (mkT l true (k :: rest))))
  | st_acq_re : forall c i l b k rest d,
      thr c i = mkT l b (Acq k :: rest) -> lock c = Some (i, d) ->
      step c None (mkC (store c) (Some (i, S d)) (upd (thr c) i (mkT l b (k :: rest))))
  | st_rel_last : forall c i l b k rest,
      thr c i = mkT l b (Rel k :: rest) -> lock c = Some (i, 0) ->
      step c None (mkC (store c) None (upd (thr c) i (mkT l b (k :: rest))))
  | st_rel_re : forall c i l b k rest d,
      thr c i = mkT l b (Rel k :: rest) -> lock c = Some (i, S d) ->
      step c None (mkC (store c) (Some (i, d)) (upd (thr c) i (mkT l b (k :: rest))))
  | st_step : forall c i l b a kn kx rest,
      thr c i = mkT l b (Step a kn kx :: rest) ->
      step c None (mkC (snd (sem a l (store c))) (lock c)
                       (upd (thr c) i (mkT (fst (sem a l (store c))) b
                                           (sel2 a (fst (sem a l (store c))) kn kx :: rest))))
  | st_if : forall c i l b a kt ke kx rest,
      thr c i = mkT l b (If a kt ke kx :: rest) ->
      step c None (mkC (snd (sem a l (store c))) (lock c)
                       (upd (thr c) i (mkT (fst (sem a l (store c))) b
                                           (sel3 a (fst (sem a l (store c))) kt ke kx :: rest)))).

  Definition lab (o : option nat) : list nat := match o with Some i => [i] | None => [] end.

  (* all schedules: any enabled thread at every step; the list is the order of commit points *)
  Inductive steps : config -> list nat -> config -> Prop :=
  | steps_refl : forall c, steps c [] c
  | steps_snoc : forall c0 ls c o c', steps c0 ls c -> step c o c' -> steps c0 (ls ++ lab o) c'.

  Definition final (c : config) : Prop := forall i, todo (thr c i) = [].

  (* ---------------- serial machine: whole operations, one at a time ---------------- *)
  Definition sconfig : Type := Store * (nat -> Local * list prog).

  Inductive sstep : sconfig -> nat -> sconfig -> Prop :=
  | ss_op : forall s th i l op rest,
      th i = (l, op :: rest) ->
      sstep (s, th) i (snd (exec op l s), upd th i (fst (exec op l s), rest)).

  Inductive ssteps : sconfig -> list nat -> sconfig -> Prop :=
  | ssteps_refl : forall c, ssteps c [] c
  | ssteps_snoc : forall c0 ls c i c', ssteps c0 ls c -> sstep c i c' -> ssteps c0 (ls ++ [i]) c'.

  Definition serial_of (c : config) : sconfig :=
    (store c, fun i => (loc (thr c i), todo (thr c i))).
End Machine.

Arguments mkT {Act Local} loc acqd todo.
Arguments loc {Act Local} t.
Arguments acqd {Act Local} t.
Arguments todo {Act Local} t.
Arguments mkC {Act Local Store} store lock thr.
Arguments store {Act Local Store} c.
Arguments lock {Act Local Store} c.
Arguments thr {Act Local Store} c i.
Arguments upd {T} f i t j.
