(* C15 - the lock discipline is needed: an undisciplined writer (two store updates under no lock) and a
   correctly locked reader have a complete schedule whose outcome no serial execution produces.
   (Shows that the semantics of Sched.v does exhibit torn reads; the theorem of Serial.v is not vacuous.) *)
From Coq Require Import List Bool Arith Lia.
From PV Require Import Conc.Sched.
Import ListNotations.

Module Torn.
  Definition Act := nat.                       (* 0, 1: the writer's two updates; 2: the reader's read *)
  Definition Local := list nat.
  Definition Store := nat.
  Definition touches (a : Act) : bool := true.
  Definition sem (a : Act) (l : Local) (s : Store) : Local * Store :=
    match a with 2 => (s :: l, s) | _ => (l, S s) end.
  Definition branch (a : Act) (l : Local) : choice := CNorm.

  Definition W : prog Act := Step 0 (Step 1 Done Done) Done.            (* no lock *)
  Definition R : prog Act := Acq (Step 2 (Rel Done) (Rel Done)).         (* read under the lock *)

  Definition th0 (i : nat) : thread Act Local :=
    match i with 0 => mkT [] false [W] | 1 => mkT [] false [R] | _ => mkT [] false [] end.
  Definition c0 : config Act Local Store := mkC 0 None th0.

  Lemma writer_undisciplined : disc Act touches MB W = false /\ disc Act touches MB R = true.
  Proof. split; reflexivity. Qed.

  Notation step := (step Act Local Store sem branch).
  Notation steps := (steps Act Local Store sem branch).
  Notation ssteps := (ssteps Act Local Store sem branch).

  (* W: first update | R: acquire, read, release, done | W: second update, done *)
  Definition th_end (i : nat) : thread Act Local :=
    match i with 1 => mkT [1] false [] | _ => mkT [] false [] end.

  Lemma torn_schedule : exists ls c, steps c0 ls c /\ final Act Local Store c /\
    store c = 2 /\ loc (thr c 1) = [1] /\ loc (thr c 0) = [].
  Proof.
    eexists. eexists. split.
    - eapply steps_snoc. eapply steps_snoc. eapply steps_snoc. eapply steps_snoc.
      eapply steps_snoc. eapply steps_snoc. eapply steps_snoc. apply steps_refl.
      + apply (st_step _ _ _ sem branch c0 0 [] false 0 (Step 1 Done Done) Done []). reflexivity.
      + eapply (st_acq_free _ _ _ sem branch _ 1); reflexivity.
      + eapply (st_step _ _ _ sem branch _ 1); reflexivity.
      + eapply (st_rel_last _ _ _ sem branch _ 1); reflexivity.
      + eapply (st_pop _ _ _ sem branch _ 1); reflexivity.
      + eapply (st_step _ _ _ sem branch _ 0); reflexivity.
      + eapply (st_pop _ _ _ sem branch _ 0); reflexivity.
    - split; [|split; [|split]].
      + intro i. destruct i as [|[|i]]; reflexivity.
      + reflexivity.
      + reflexivity.
      + reflexivity.
  Qed.

  (* every configuration of the serial machine reachable from the start *)
  Definition sreach (sc : sconfig Act Local Store) : Prop :=
    (forall i, 2 <= i -> snd sc i = ([], [])) /\
    (   (fst sc = 0 /\ snd sc 0 = ([], [W]) /\ snd sc 1 = ([], [R]))
     \/ (fst sc = 2 /\ snd sc 0 = ([], [])  /\ snd sc 1 = ([], [R]))
     \/ (fst sc = 0 /\ snd sc 0 = ([], [W]) /\ snd sc 1 = ([0], []))
     \/ (fst sc = 2 /\ snd sc 0 = ([], [])  /\ snd sc 1 = ([2], []))
     \/ (fst sc = 2 /\ snd sc 0 = ([], [])  /\ snd sc 1 = ([0], []))).

  Lemma sreach_step : forall sc i sc', sreach sc -> sstep Act Local Store sem branch sc i sc' -> sreach sc'.
  Proof.
    intros sc i sc' [Hrest H] St. inversion St as [s th j l op rest E]; subst. cbn [fst snd] in *.
    assert (Hi : i = 0 \/ i = 1).
    { destruct i as [|[|i]]; auto. rewrite Hrest in E by lia. discriminate. }
    split.
    - intros k Hk. cbn [snd]. unfold upd. cbv beta. destruct (Nat.eqb k i) eqn:Ek.
      + apply Nat.eqb_eq in Ek. lia.
      + apply Hrest. exact Hk.
    - destruct Hi; subst i; unfold upd; cbn [Nat.eqb];
        destruct H as [[Hs [H0 H1]]|[[Hs [H0 H1]]|[[Hs [H0 H1]]|[[Hs [H0 H1]]|[Hs [H0 H1]]]]]];
        rewrite ?H0, ?H1 in E; inversion E; subst; cbn; rewrite ?H0, ?H1; tauto.
  Qed.

  Lemma sreach_steps : forall sc ls sc', ssteps sc ls sc' -> sreach sc -> sreach sc'.
  Proof.
    induction 1 as [c|c1 ls c2 i c3 S IH St]; intro H; [exact H|].
    eapply sreach_step; [apply IH; exact H|exact St].
  Qed.

  Theorem torn_not_serial : exists ls c,
    steps c0 ls c /\ final Act Local Store c /\
    ~ exists ls' thS, ssteps (serial_of Act Local Store c0) ls' (store c, thS)
                      /\ forall i, thS i = (loc (thr c i), []).
  Proof.
    destruct torn_schedule as [ls [c [S [F [Es [E1 E0]]]]]].
    exists ls, c. split; [exact S|split; [exact F|]].
    intros [ls' [thS [SS HT]]].
    assert (I : sreach (serial_of Act Local Store c0)).
    { split; [intros i Hi; destruct i as [|[|i]]; [lia|lia|reflexivity]|]. left. repeat split. }
    pose proof (sreach_steps _ _ _ SS I) as [_ H]. cbn [fst snd] in H.
    pose proof (HT 1) as T1. rewrite E1 in T1.
    destruct H as [[_ [_ H1]]|[[_ [_ H1]]|[[_ [_ H1]]|[[_ [_ H1]]|[_ [_ H1]]]]]];
      rewrite H1 in T1; discriminate.
  Qed.
End Torn.

Lemma discipline_needed :
  disc Torn.Act Torn.touches MB Torn.W = false /\ disc Torn.Act Torn.touches MB Torn.R = true /\
  exists ls c,
    steps Torn.Act Torn.Local Torn.Store Torn.sem Torn.branch Torn.c0 ls c /\
    final Torn.Act Torn.Local Torn.Store c /\
    ~ exists ls' thS,
        ssteps Torn.Act Torn.Local Torn.Store Torn.sem Torn.branch
               (serial_of Torn.Act Torn.Local Torn.Store Torn.c0) ls' (store c, thS)
        /\ forall i, thS i = (loc (thr c i), []).
Proof.
  split; [exact (proj1 Torn.writer_undisciplined)|].
  split; [exact (proj2 Torn.writer_undisciplined)|].
  exact Torn.torn_not_serial.
Qed.
