(* C15 - the general theorem stated for operations denoted by a lock-structure table. *)
From Coq Require Import String ZArith List Bool.
From PV Require Import Conc.Sched Conc.Serial Conc.Lang.
Import ListNotations.

Section Tie.
  Variable tbl : list method.
  Variable Local Store : Type.
  (* what each atomic statement part does to the thread-local state and to the store of mutable
     shared fields, and which successor is taken afterwards: abstract *)
  Variable sem : action -> Local -> Store -> Local * Store.
  Variable branch : action -> Local -> choice.

  Definition tbl_touches : action -> bool := touches_in (mutable_fields tbl).

  (* The store holds the mutable shared fields; a statement part whose declared field sets do not
     meet them neither changes the store nor depends on it. *)
  Definition footprint_ok : Prop :=
    (forall a, tbl_touches a = false -> forall l s, snd (sem a l s) = s) /\
    (forall a, tbl_touches a = false -> forall l s s', fst (sem a l s) = fst (sem a l s')).

  (* initially the lock is free and every thread is about to run a list of operations of the set *)
  Definition ops_init (c0 : config action Local Store) : Prop :=
    lock c0 = None /\
    forall i, acqd (thr c0 i) = false /\
              Forall (fun p => exists n, In n (op_names tbl) /\ p = prog_of tbl n) (todo (thr c0 i)).

  Lemma op_good : well_locked tbl = true -> forall n, In n (op_names tbl) ->
    disc action tbl_touches MB (prog_of tbl n) = true.
  Proof.
    unfold well_locked. intros W n I. rewrite forallb_forall in W. exact (W n I).
  Qed.

  Theorem serializable_table :
    well_locked tbl = true -> footprint_ok ->
    forall c0 ls c,
      ops_init c0 ->
      steps action Local Store sem branch c0 ls c ->
      final action Local Store c ->
      exists thS,
        ssteps action Local Store sem branch (serial_of action Local Store c0) ls (store c, thS)
        /\ (forall i, thS i = (loc (thr c i), [])) /\ lock c = None.
  Proof.
    intros W [FS FL] c0 ls c [L0 T0] S F.
    apply (serializable action Local Store tbl_touches sem branch FS FL c0 ls c); auto.
    split; [exact L0|]. intro i. destruct (T0 i) as [A G]. split; [exact A|].
    rewrite Forall_forall in *. intros p Ip. destruct (G p Ip) as [n [In_ E]]. subst p.
    apply op_good; assumption.
  Qed.
End Tie.

(* ---- the hypotheses are satisfiable: a concrete instance ---- *)
Module Instance.
  Definition Local := list nat.
  Definition Store := nat.
  (* a touching action bumps a version counter and logs the version it saw; others do nothing *)
  Definition sem (mut : list string) (a : action) (l : Local) (s : Store) : Local * Store :=
    if touches_in mut a then (s :: l, S s) else (l, s).
  Definition branch (a : action) (l : Local) : choice := CNorm.

  Lemma footprint : forall tbl, footprint_ok tbl Local Store (sem (mutable_fields tbl)).
  Proof.
    intro tbl. unfold footprint_ok, tbl_touches, sem. split; intros a H; rewrite H; reflexivity.
  Qed.

  Definition two_threads (tbl : list method) (w r : string) : config action Local Store :=
    mkC 0 None (fun i => match i with
                         | 0 => mkT [] false [prog_of tbl w]
                         | 1 => mkT [] false [prog_of tbl r]
                         | _ => mkT [] false []
                         end).

  Lemma two_threads_init : forall tbl w r, In w (op_names tbl) -> In r (op_names tbl) ->
    ops_init tbl Local Store (two_threads tbl w r).
  Proof.
    intros tbl w r Iw Ir. split; [reflexivity|]. intro i. split.
    - destruct i as [|[|i]]; reflexivity.
    - destruct i as [|[|i]]; cbn [two_threads thr todo].
      + apply Forall_cons; [exists w; split; [exact Iw|reflexivity]|apply Forall_nil].
      + apply Forall_cons; [exists r; split; [exact Ir|reflexivity]|apply Forall_nil].
      + apply Forall_nil.
  Qed.
End Instance.
