(* C15 - serializability of disciplined operations under one re-entrant lock.

   If every operation of every thread obeys the lock discipline [disc MB] (actions touching a mutable
   shared field only inside its single outermost lock region), then every complete schedule of the
   interleaved machine ends in the same store and the same thread-local states (results) as the
   serial execution of whole operations in the order of their commit points (outermost acquisitions).

   Proof: forward simulation.  The serial configuration related to an interleaved configuration has
   every operation that already passed its commit point run to completion and every operation that
   has not rolled back to its start. *)
From Coq Require Import List Bool Arith Lia.
From PV Require Import Conc.Sched.
Import ListNotations.

Section Serial.
  Variable Act Local Store : Type.
  Variable touches : Act -> bool.
  Variable sem : Act -> Local -> Store -> Local * Store.
  Variable branch : Act -> Local -> choice.

  (* An action that does not touch a mutable shared field neither changes the store nor depends on it. *)
  Hypothesis free_store : forall a, touches a = false -> forall l s, snd (sem a l s) = s.
  Hypothesis free_local : forall a, touches a = false -> forall l s s', fst (sem a l s) = fst (sem a l s').

  Notation prog := (prog Act).
  Notation disc := (disc Act touches).
  Notation exec := (exec Act Local Store sem branch).
  Notation thread := (thread Act Local).
  Notation config := (config Act Local Store).
  Notation sconfig := (sconfig Act Local Store).
  Notation step := (step Act Local Store sem branch).
  Notation steps := (steps Act Local Store sem branch).
  Notation sstep := (sstep Act Local Store sem branch).
  Notation ssteps := (ssteps Act Local Store sem branch).
  Notation sel2 := (sel2 Act Local branch).
  Notation sel3 := (sel3 Act Local branch).

  (* ---- operations after their critical section: local, store-independent ---- *)
  Lemma exec_after : forall p, disc MA p = true ->
    forall l s, snd (exec p l s) = s /\ forall s', fst (exec p l s) = fst (exec p l s').
  Proof.
    induction p as [| |k IH|k IH|a kn IHn kx IHx|a kt IHt ke IHe kx IHx]; cbn [Sched.disc]; intros D l s.
    - cbn. split; reflexivity.
    - discriminate.
    - discriminate.
    - discriminate.
    - apply andb_prop in D. destruct D as [D Dx]. apply andb_prop in D. destruct D as [Da Dn].
      cbn in Da. apply negb_true_iff in Da.
      cbn [Sched.exec].
      split.
      + rewrite (free_store a Da l s).
        destruct (branch a (fst (sem a l s))); [apply IHn|apply IHn|apply IHx]; assumption.
      + intro s'. rewrite (free_store a Da l s), (free_store a Da l s'), (free_local a Da l s' s).
        destruct (branch a (fst (sem a l s))); [apply IHn|apply IHn|apply IHx]; assumption.
    - apply andb_prop in D. destruct D as [D Dx]. apply andb_prop in D. destruct D as [D De].
      apply andb_prop in D. destruct D as [Da Dt].
      cbn in Da. apply negb_true_iff in Da.
      cbn [Sched.exec].
      split.
      + rewrite (free_store a Da l s).
        destruct (branch a (fst (sem a l s))); [apply IHt|apply IHe|apply IHx]; assumption.
      + intro s'. rewrite (free_store a Da l s), (free_store a Da l s'), (free_local a Da l s' s).
        destruct (branch a (fst (sem a l s))); [apply IHt|apply IHe|apply IHx]; assumption.
  Qed.

  (* ---- the part of an operation before its commit point: only free actions ---- *)
  Inductive pre_free (op : prog) (l0 : Local) : prog -> Local -> Prop :=
  | pf_refl : pre_free op l0 op l0
  | pf_step : forall a kn kx l s, pre_free op l0 (Step a kn kx) l -> touches a = false ->
      pre_free op l0 (sel2 a (fst (sem a l s)) kn kx) (fst (sem a l s))
  | pf_if : forall a kt ke kx l s, pre_free op l0 (If a kt ke kx) l -> touches a = false ->
      pre_free op l0 (sel3 a (fst (sem a l s)) kt ke kx) (fst (sem a l s)).

  Lemma pre_free_exec : forall op l0 cur l, pre_free op l0 cur l -> forall s, exec op l0 s = exec cur l s.
  Proof.
    induction 1 as [|a kn kx l s0 P IH F|a kt ke kx l s0 P IH F]; intro s.
    - reflexivity.
    - rewrite IH. cbn [Sched.exec].
      rewrite (free_store a F l s), (free_local a F l s0 s).
      unfold Sched.sel2. destruct (branch a (fst (sem a l s))); reflexivity.
    - rewrite IH. cbn [Sched.exec].
      rewrite (free_store a F l s), (free_local a F l s0 s).
      unfold Sched.sel3. destruct (branch a (fst (sem a l s))); reflexivity.
  Qed.

  (* ---- the simulation relation ---- *)
  Definition notheld (c : config) (i : nat) : Prop := forall d, lock c <> Some (i, d).
  Definition good (p : prog) : Prop := disc MB p = true.

  Inductive tinv (c : config) (i : nat) : thread -> Local * list prog -> Prop :=
  | ti_fin : forall l, notheld c i -> tinv c i (mkT l false []) (l, [])
  | ti_before : forall l0 l op cur rest,
      notheld c i -> pre_free op l0 cur l -> disc MB cur = true -> Forall good rest ->
      tinv c i (mkT l false (cur :: rest)) (l0, op :: rest)
  | ti_in : forall l cur rest d lS,
      lock c = Some (i, d) -> disc (MI d) cur = true -> Forall good rest ->
      fst (exec cur l (store c)) = lS ->
      tinv c i (mkT l true (cur :: rest)) (lS, rest)
  | ti_after : forall l cur rest lS,
      notheld c i -> disc MA cur = true -> Forall good rest ->
      fst (exec cur l (store c)) = lS ->
      tinv c i (mkT l true (cur :: rest)) (lS, rest).

  Definition sinv (c : config) (sS : Store) : Prop :=
    match lock c with
    | None => sS = store c
    | Some (i, _) =>
        match todo (thr c i) with
        | cur :: _ => sS = snd (exec cur (loc (thr c i)) (store c))
        | [] => False
        end
    end.

  Definition Inv (c : config) (sc : sconfig) : Prop :=
    sinv c (fst sc) /\ forall i, tinv c i (thr c i) (snd sc i).

  Lemma tinv_frame : forall c c' j t sj,
    tinv c j t sj ->
    (forall d, lock c' = Some (j, d) <-> lock c = Some (j, d)) ->
    (store c' = store c \/ notheld c j) ->
    tinv c' j t sj.
  Proof.
    intros c c' j t sj T HL HS.
    assert (NH : notheld c j -> notheld c' j).
    { intros N d E. apply (N d). apply HL. exact E. }
    destruct T as [l N|l0 l op cur rest N P D G|l cur rest d lS L D G E|l cur rest lS N D G E].
    - apply ti_fin. auto.
    - apply ti_before; auto.
    - apply ti_in with d; auto.
      + apply HL. exact L.
      + destruct HS as [HS|HS]; [rewrite HS; exact E|]. exfalso. exact (HS d L).
    - apply ti_after; auto.
      rewrite <- E. apply (exec_after cur D).
  Qed.

  Lemma inv_build : forall (c : config) i t' s' lk' sS' thS',
    sinv (mkC s' lk' (upd (thr c) i t')) sS' ->
    tinv (mkC s' lk' (upd (thr c) i t')) i t' (thS' i) ->
    (forall j, j <> i -> tinv (mkC s' lk' (upd (thr c) i t')) j (thr c j) (thS' j)) ->
    Inv (mkC s' lk' (upd (thr c) i t')) (sS', thS').
  Proof.
    intros c i t' s' lk' sS' thS' HS HI HO. split; [exact HS|].
    intro j. cbn [thr snd]. unfold upd at 2.
    destruct (Nat.eqb j i) eqn:E.
    - apply Nat.eqb_eq in E. subst j. exact HI.
    - apply Nat.eqb_neq in E. apply HO. exact E.
  Qed.

  Lemma others : forall (c : config) (thS : nat -> Local * list prog) i s' lk' t',
    (forall j, tinv c j (thr c j) (thS j)) ->
    (forall j d, j <> i -> (lk' = Some (j, d) <-> lock c = Some (j, d))) ->
    (s' = store c \/ exists d, lock c = Some (i, d)) ->
    forall j, j <> i -> tinv (mkC s' lk' (upd (thr c) i t')) j (thr c j) (thS j).
  Proof.
    intros c thS i s' lk' t' HT HL HS j NE.
    apply tinv_frame with c; [apply HT| |].
    - intro d. cbn [lock]. apply HL. exact NE.
    - cbn [store]. destruct HS as [HS|[d HS]]; [left; exact HS|right].
      intros d' E. rewrite HS in E. inversion E. congruence.
  Qed.

  Lemma upd_same : forall T (f : nat -> T) i t, upd f i t i = t.
  Proof. intros. unfold upd. rewrite Nat.eqb_refl. reflexivity. Qed.
  Lemma upd_other : forall T (f : nat -> T) i t j, j <> i -> upd f i t j = f j.
  Proof. intros. unfold upd. apply Nat.eqb_neq in H. rewrite H. reflexivity. Qed.

  Lemma good_next : forall (c : config) i l rest, notheld c i -> Forall good rest ->
    tinv c i (mkT l false rest) (l, rest).
  Proof.
    intros c i l rest N G. destruct rest as [|op rest'].
    - apply ti_fin. exact N.
    - inversion G; subst. apply ti_before; auto. apply pf_refl.
  Qed.

  Lemma sinv_other : forall (c : config) i t' sS, sinv c sS -> notheld c i ->
    sinv (mkC (store c) (lock c) (upd (thr c) i t')) sS.
  Proof.
    intros c i t' sS HS N. unfold sinv in *. cbn [lock store thr].
    destruct (lock c) as [[j d]|] eqn:L; [|exact HS].
    assert (j <> i) by (intro; subst; exact (N d L)).
    rewrite upd_other by assumption. exact HS.
  Qed.

  Lemma sinv_in : forall (c : config) i d d' l b cur rest l' b' cur' s' sS,
    lock c = Some (i, d) -> thr c i = mkT l b (cur :: rest) -> sinv c sS ->
    snd (exec cur' l' s') = snd (exec cur l (store c)) ->
    sinv (mkC s' (Some (i, d')) (upd (thr c) i (mkT l' b' (cur' :: rest)))) sS.
  Proof.
    intros c i d d' l b cur rest l' b' cur' s' sS L T HS E. unfold sinv in *.
    rewrite L, T in HS. cbn [lock store thr todo loc] in *. rewrite upd_same. cbn [todo loc].
    rewrite E. exact HS.
  Qed.

  Lemma lock_iff_same : forall (c : config) i j (d : nat), j <> i ->
    (lock c = Some (j, d) <-> lock c = Some (j, d)).
  Proof. intros; tauto. Qed.

  (* ---- one interleaved step = zero or one serial operation ---- *)
  Lemma sim_pop : forall (c : config) i l b rest sS thS,
    Inv c (sS, thS) -> thr c i = mkT l b (Done :: rest) ->
    exists sc', match (if b then None else Some i) with
                | None => sc' = (sS, thS) | Some k => sstep (sS, thS) k sc' end
      /\ Inv (mkC (store c) (lock c) (upd (thr c) i (mkT l false rest))) sc'.
  Proof.
    intros c i l b rest sS thS [HS HT] H. cbn [fst snd] in *.
    pose proof (HT i) as Hi. rewrite H in Hi.
    inversion Hi as [|l0 l1 op cur rest1 N P D G Ea Eb|l1 cur rest1 d lS L D G E Ea Eb|l1 cur rest1 lS N D G E Ea Eb]; subst.
    - (* before: the operation never took the lock; it commits now *)
      exists (snd (exec op l0 sS), upd thS i (fst (exec op l0 sS), rest)). split.
      + apply ss_op. symmetry. assumption.
      + rewrite (pre_free_exec _ _ _ _ P sS). cbn [Sched.exec fst snd].
        apply inv_build.
        * apply sinv_other; assumption.
        * rewrite upd_same. apply good_next; [|assumption]. intros d. cbn [lock]. apply N.
        * intros j NE. rewrite upd_other by assumption.
          apply others; auto. intros; tauto.
    - cbn in D. discriminate.
    - exists (sS, thS). split; [reflexivity|].
      cbn [Sched.exec fst] in Eb.
      apply inv_build.
      + apply sinv_other; assumption.
      + rewrite <- Eb. apply good_next; [|assumption]. intros d. cbn [lock]. apply N.
      + intros j NE. apply others; auto. intros; tauto.
  Qed.

  Lemma lock_iff_owner : forall (lk lk' : option (nat * nat)) i j d,
    (forall k e, lk = Some (k, e) -> k = i) -> (forall k e, lk' = Some (k, e) -> k = i) -> j <> i ->
    (lk' = Some (j, d) <-> lk = Some (j, d)).
  Proof.
    intros lk lk' i j d H H' NE. split; intro E; exfalso; apply NE.
    - apply (H' _ _ E).
    - apply (H _ _ E).
  Qed.

  Lemma sim_acq_free : forall (c : config) i l b k rest sS thS,
    Inv c (sS, thS) -> thr c i = mkT l b (Acq k :: rest) -> lock c = None ->
    exists sc', sstep (sS, thS) i sc'
      /\ Inv (mkC (store c) (Some (i, 0)) (upd (thr c) i (mkT l true (k :: rest)))) sc'.
  Proof.
    intros c i l b k rest sS thS [HS HT] H L. cbn [fst snd] in *.
    pose proof (HT i) as Hi. rewrite H in Hi.
    unfold sinv in HS. rewrite L in HS. subst sS.
    inversion Hi as [|l0 l1 op cur rest1 N P D G Ea Eb|l1 cur rest1 d lS L' D G E Ea Eb|l1 cur rest1 lS N D G E Ea Eb]; subst.
    - exists (snd (exec op l0 (store c)), upd thS i (fst (exec op l0 (store c)), rest)). split.
      + apply ss_op. symmetry. assumption.
      + rewrite (pre_free_exec _ _ _ _ P (store c)). cbn [Sched.exec].
        apply inv_build.
        * unfold sinv. cbn [lock store thr]. rewrite upd_same. cbn [todo loc]. reflexivity.
        * rewrite upd_same. apply ti_in with 0; auto.
        * intros j NE. rewrite upd_other by assumption.
          apply others; auto.
          intros j0 d0 NE0. apply lock_iff_owner with i; auto.
          -- intros k0 e E0. rewrite L in E0. discriminate.
          -- intros k0 e E0. inversion E0. reflexivity.
    - rewrite L in L'. discriminate.
    - cbn in D. discriminate.
  Qed.

  Lemma sim_in_lock : forall (c : config) i l b cur cur' rest d d' sS thS,
    Inv c (sS, thS) -> thr c i = mkT l b (cur :: rest) -> lock c = Some (i, d) ->
    (forall l0 s0, exec cur l0 s0 = exec cur' l0 s0) ->
    (disc (MI d) cur = true -> disc (MI d') cur' = true) ->
    Inv (mkC (store c) (Some (i, d')) (upd (thr c) i (mkT l b (cur' :: rest)))) (sS, thS).
  Proof.
    intros c i l b cur cur' rest d d' sS thS [HS HT] H L EX DI. cbn [fst snd] in *.
    pose proof (HT i) as Hi. rewrite H in Hi.
    inversion Hi as [|l0 l1 op cur0 rest1 N P D G Ea Eb|l1 cur0 rest1 d0 lS L' D G E Ea Eb|l1 cur0 rest1 lS N D G E Ea Eb]; subst.
    - exfalso. exact (N d L).
    - rewrite L in L'. inversion L'; subst d0.
      apply inv_build.
      + apply sinv_in with d l true cur; auto. rewrite EX. reflexivity.
      + rewrite <- Eb. apply ti_in with d'; auto. cbn [store]. rewrite EX. reflexivity.
      + intros j NE. apply others; auto.
        intros j0 e NE0. apply lock_iff_owner with i; auto.
        * intros k0 e0 E0. rewrite L in E0. inversion E0. reflexivity.
        * intros k0 e0 E0. inversion E0. reflexivity.
    - exfalso. exact (N d L).
  Qed.

  Lemma sim_rel_last : forall (c : config) i l b k rest sS thS,
    Inv c (sS, thS) -> thr c i = mkT l b (Rel k :: rest) -> lock c = Some (i, 0) ->
    Inv (mkC (store c) None (upd (thr c) i (mkT l b (k :: rest)))) (sS, thS).
  Proof.
    intros c i l b k rest sS thS [HS HT] H L. cbn [fst snd] in *.
    pose proof (HT i) as Hi. rewrite H in Hi.
    inversion Hi as [|l0 l1 op cur0 rest1 N P D G Ea Eb|l1 cur0 rest1 d0 lS L' D G E Ea Eb|l1 cur0 rest1 lS N D G E Ea Eb]; subst.
    - exfalso. exact (N 0 L).
    - rewrite L in L'. inversion L'; subst d0. cbn [Sched.disc] in D.
      apply inv_build.
      + unfold sinv in *. rewrite L, H in HS. cbn [lock store todo loc Sched.exec] in *.
        rewrite HS. apply (exec_after k D).
      + rewrite <- Eb. apply ti_after; auto. intros d. cbn [lock]. discriminate.
      + intros j NE. apply others; auto.
        intros j0 e NE0. apply lock_iff_owner with i; auto.
        * intros k0 e0 E0. rewrite L in E0. inversion E0. reflexivity.
        * intros k0 e0 E0. discriminate.
    - exfalso. exact (N 0 L).
  Qed.

  Lemma sim_act : forall (c : config) i l b a cur (nxt : Local -> prog) rest sS thS,
    Inv c (sS, thS) -> thr c i = mkT l b (cur :: rest) ->
    (forall s, exec cur l s = exec (nxt (fst (sem a l s))) (fst (sem a l s)) (snd (sem a l s))) ->
    (forall m, disc m cur = true -> act_ok Act touches m a = true /\ forall l1, disc m (nxt l1) = true) ->
    (touches a = false -> forall op l0 s, pre_free op l0 cur l ->
       pre_free op l0 (nxt (fst (sem a l s))) (fst (sem a l s))) ->
    Inv (mkC (snd (sem a l (store c))) (lock c)
             (upd (thr c) i (mkT (fst (sem a l (store c))) b (nxt (fst (sem a l (store c))) :: rest))))
        (sS, thS).
  Proof.
    intros c i l b a cur nxt rest sS thS [HS HT] H EX DI PF. cbn [fst snd] in *.
    pose proof (HT i) as Hi. rewrite H in Hi.
    inversion Hi as [|l0 l1 op cur0 rest1 N P D G Ea Eb|l1 cur0 rest1 d0 lS L D G E Ea Eb|l1 cur0 rest1 lS N D G E Ea Eb]; subst.
    - (* before the critical section: a free action *)
      destruct (DI _ D) as [OK DN]. cbn in OK. apply negb_true_iff in OK.
      rewrite (free_store a OK l (store c)).
      apply inv_build.
      + apply sinv_other; assumption.
      + rewrite <- Eb. apply ti_before; auto.
      + intros j NE. apply others; auto. intros; tauto.
    - (* inside: the owner moves; nobody else depends on the store *)
      destruct (DI _ D) as [OK DN].
      rewrite L.
      apply inv_build.
      + apply sinv_in with d0 l true cur; auto. rewrite (EX (store c)). reflexivity.
      + rewrite <- Eb. apply ti_in with d0; auto. cbn [store]. rewrite (EX (store c)). reflexivity.
      + intros j NE. apply others; auto.
        * intros j0 e NE0. rewrite L. tauto.
        * right. exists d0. exact L.
    - (* after the critical section: a free action *)
      destruct (DI _ D) as [OK DN]. cbn in OK. apply negb_true_iff in OK.
      rewrite (free_store a OK l (store c)).
      apply inv_build.
      + apply sinv_other; assumption.
      + rewrite <- Eb. apply ti_after; auto.
        cbn [store]. rewrite (EX (store c)). rewrite (free_store a OK l (store c)). reflexivity.
      + intros j NE. apply others; auto. intros; tauto.
  Qed.

  Lemma sim : forall c o c' sS thS, Inv c (sS, thS) -> step c o c' ->
    exists sc', match o with None => sc' = (sS, thS) | Some k => sstep (sS, thS) k sc' end /\ Inv c' sc'.
  Proof.
    intros c o c' sS thS HI HSt.
    destruct HSt as [c i l b rest H|c i l b k rest H L|c i l b k rest d H L|c i l b k rest H L
                     |c i l b k rest d H L|c i l b a kn kx rest H|c i l b a kt ke kx rest H].
    - apply sim_pop; assumption.
    - apply sim_acq_free with b; assumption.
    - exists (sS, thS). split; [reflexivity|].
      apply sim_in_lock with (Acq k) d; auto.
    - exists (sS, thS). split; [reflexivity|].
      apply sim_rel_last; assumption.
    - exists (sS, thS). split; [reflexivity|].
      apply sim_in_lock with (Rel k) (S d); auto.
    - exists (sS, thS). split; [reflexivity|].
      apply (sim_act c i l b a (Step a kn kx) (fun l1 => sel2 a l1 kn kx)); auto.
      + intro s. cbn [Sched.exec]. unfold Sched.sel2. destruct (branch a (fst (sem a l s))); reflexivity.
      + intros m D. cbn [Sched.disc] in D.
        apply andb_prop in D. destruct D as [D Dx]. apply andb_prop in D. destruct D as [Da Dn].
        split; [exact Da|]. intro l1. unfold Sched.sel2. destruct (branch a l1); assumption.
      + intros F op l0 s P. apply pf_step; assumption.
    - exists (sS, thS). split; [reflexivity|].
      apply (sim_act c i l b a (If a kt ke kx) (fun l1 => sel3 a l1 kt ke kx)); auto.
      + intro s. cbn [Sched.exec]. unfold Sched.sel3. destruct (branch a (fst (sem a l s))); reflexivity.
      + intros m D. cbn [Sched.disc] in D.
        apply andb_prop in D. destruct D as [D Dx]. apply andb_prop in D. destruct D as [D De].
        apply andb_prop in D. destruct D as [Da Dt].
        split; [exact Da|]. intro l1. unfold Sched.sel3. destruct (branch a l1); assumption.
      + intros F op l0 s P. apply pf_if; assumption.
  Qed.

  (* ---- whole schedules ---- *)
  Definition init_ok (c : config) : Prop :=
    lock c = None /\ forall i, acqd (thr c i) = false /\ Forall good (todo (thr c i)).

  Lemma inv_init : forall c, init_ok c -> Inv c (serial_of Act Local Store c).
  Proof.
    intros c [L H]. split.
    - unfold sinv, serial_of. cbn [fst]. rewrite L. reflexivity.
    - intro i. unfold serial_of. cbn [snd].
      destruct (H i) as [B G]. destruct (thr c i) as [l b td]. cbn [acqd todo loc] in *. subst b.
      apply good_next; [|exact G]. intros d. rewrite L. discriminate.
  Qed.

  Lemma sim_steps : forall c0 ls c, steps c0 ls c ->
    forall sc0, Inv c0 sc0 -> exists sc, ssteps sc0 ls sc /\ Inv c sc.
  Proof.
    induction 1 as [c|c0 ls c o c' S IH St]; intros sc0 I0.
    - exists sc0. split; [apply ssteps_refl|exact I0].
    - destruct (IH sc0 I0) as [[sS thS] [SS I]].
      destruct (sim c o c' sS thS I St) as [sc' [M I']].
      exists sc'. split; [|exact I'].
      destruct o as [k|]; cbn [lab].
      + eapply ssteps_snoc; eassumption.
      + rewrite app_nil_r. subst sc'. exact SS.
  Qed.

  Lemma inv_final : forall c sS thS, Inv c (sS, thS) -> final Act Local Store c ->
    sS = store c /\ lock c = None /\ forall i, thS i = (loc (thr c i), []).
  Proof.
    intros c sS thS [HS HT] F. cbn [fst snd] in *.
    assert (LN : lock c = None).
    { unfold sinv in HS. destruct (lock c) as [[i d]|]; [|reflexivity].
      rewrite (F i) in HS. contradiction. }
    split; [|split].
    - unfold sinv in HS. rewrite LN in HS. exact HS.
    - exact LN.
    - intro i. pose proof (HT i) as Hi. pose proof (F i) as Fi.
      destruct (thr c i) as [l b td]. cbn [todo loc] in *. subst td.
      inversion Hi; subst. reflexivity.
  Qed.

  (* Every complete schedule (all interleavings, any number of pre-emptions) of disciplined
     operations ends in the store and the thread-local states (results) of the serial execution of
     whole operations in the order [ls] of their commit points. *)
  Theorem serializable : forall c0 ls c,
    init_ok c0 -> steps c0 ls c -> final Act Local Store c ->
    exists thS, ssteps (serial_of Act Local Store c0) ls (store c, thS)
                /\ (forall i, thS i = (loc (thr c i), [])) /\ lock c = None.
  Proof.
    intros c0 ls c I0 S F.
    destruct (sim_steps c0 ls c S _ (inv_init c0 I0)) as [[sS thS] [SS I]].
    destruct (inv_final c sS thS I F) as [E [L T]]. subst sS.
    exists thS. split; [exact SS|split; assumption].
  Qed.

  (* At every reachable configuration, reads made inside a critical section see a store that is the
     result of whole operations only: the store outside critical sections is a serial store. *)
  Theorem quiescent_store_serial : forall c0 ls c,
    init_ok c0 -> steps c0 ls c -> lock c = None ->
    exists thS, ssteps (serial_of Act Local Store c0) ls (store c, thS).
  Proof.
    intros c0 ls c I0 S L.
    destruct (sim_steps c0 ls c S _ (inv_init c0 I0)) as [[sS thS] [SS [HS _]]].
    cbn [fst] in HS. unfold sinv in HS. rewrite L in HS. subst sS.
    exists thS. exact SS.
  Qed.
End Serial.
