(* The small NumPy / pandas / PipelineData vocabulary used by the coroutine psiaudio.pipeline.edges and by
   Events.get_range_samples / get_latest_samples, one Gallina definition per primitive (on top of the vocabulary of
   Runs/NumpyPrims.v).  coq/gen/EdgesGen.v (regenerated from the source by translate/pyedges2coq.py on every run) is
   written in this vocabulary only.  Definitions only; they are MODELLED, not verified: the translator's self-test
   evaluates the generated definitions (hence these primitives) against the real coroutine / methods on every run.

   An array value is the model's `chunk` record: the samples (1-D, boolean) and, for a PipelineData, its (s0, fs);
   channel and metadata are not represented (harness assumption: they agree between chunks). *)
From PV Require Export Common.PySlice Runs.NumpyPrims Edges.Model.

Definition arr := chunk.
Definition mk_arr (data : list bool) (ann : option (Z * Z)) : arr := {| c_ann := ann; c_data := data |}.

(* np.tile(v, n).astype('bool') for a scalar v: a plain array of n copies (n <= 0: empty) *)
Definition np_tile_bool (v : bool) (n : Z) : arr := mk_arr (repeat v (Z.to_nat n)) None.

(* x.shape[-1] *)
Definition arr_len (x : arr) : Z := zlen (c_data x).

(* PipelineData(x, s0=.., fs=.., channel=.., metadata=..) *)
Definition pd_new (x : arr) (s0 fs : Z) : arr := mk_arr (c_data x) (Some (s0, fs)).

(* pipeline.concat((a, b), axis=-1): two plain arrays -> np.concatenate; a plain and an annotated one -> ValueError;
   two annotated ones: different fs -> ValueError, b.s0 != a.s0 + a.shape[-1] -> ValueError, else fs, s0 of a *)
Definition pd_concat (a b : arr) : option arr :=
  match c_ann a, c_ann b with
  | None, None => Some (mk_arr (c_data a ++ c_data b) None)
  | Some (s0, fs), Some (bs0, bfs) =>
    if negb (bfs =? fs) then None
    else if negb (bs0 =? s0 + arr_len a) then None
    else Some (mk_arr (c_data a ++ c_data b) (Some (s0, fs)))
  | _, _ => None
  end.

(* x[..., k:] : the samples are the Python slice; PipelineData.__getitem__ moves s0 by min(k, n) for k > 0,
   to s0 + max(n + k, 0) for k < 0 *)
Definition pd_from (k : Z) (x : arr) : arr :=
  let n := arr_len x in
  mk_arr (py_slice (Some k) None (c_data x))
         (match c_ann x with
          | None => None
          | Some (s0, fs) =>
            Some (if k >? 0 then s0 + Z.min k n else if k <? 0 then s0 + Z.max (n + k) 0 else s0, fs)
          end).

(* detect == 'rising' etc.: DOther stands for any other string and equals none of the literals *)
Definition detect_eqb (x lit : detect) : bool :=
  match x, lit with
  | DRising, DRising | DFalling, DFalling | DBoth, DBoth => true
  | _, _ => false
  end.
(* x in (a, b, ...) *)
Definition str_in (x : detect) (lits : list detect) : bool := existsb (detect_eqb x) lits.

(* Events(events, start, end, fs): see the pinned text of Events.__init__ in translate/pyedges2coq.py *)
Definition mk_events (e : list ev) (start end_ fs : Z) : events :=
  {| evs := e; e_start := start; e_end := end_; e_fs := fs |}.

(* df['sample'] of the events frame; array < scalar; mask & mask (equal lengths by construction in the callers) *)
Definition df_sample (l : list ev) : list Z := map snd l.
Definition np_lt_s (l : list Z) (c : Z) : list bool := map (fun v => v <? c) l.
Definition np_and (a b : list bool) : list bool := map (fun p => fst p && snd p) (combine a b).

(* comparison helpers of the self-test terms *)
Fixpoint eqb_bits (a b : list bool) : bool :=
  match a, b with
  | [], [] => true
  | x :: a', y :: b' => Bool.eqb x y && eqb_bits a' b'
  | _, _ => false
  end.
Definition eqb_arr (a b : arr) : bool := eqb_bits (c_data a) (c_data b) && eqb_option eqb_pairZ (c_ann a) (c_ann b).
