(* C13, extension: where the events of an emitted block lie (no run-length precondition needed),
   events at or after their block's end, merged prefixes, whole-span range queries.
   Nothing in Model.v / Spec.v / ProofsBasic.v / ProofsMain.v is changed. *)
From Coq Require Import ZArith List Bool Lia ZifyBool.
From PV Require Import Runs.Model Runs.Spec Runs.Proofs Edges.Model Edges.Spec Edges.ProofsBasic
  Edges.ProofsMain Edges.SpecX.
Import ListNotations.
Open Scope Z_scope.

(* ------------------------------------------------------------------ *)
(* 1. the debounced runs of ANY array                                   *)
(* ------------------------------------------------------------------ *)
(* joining only re-pairs starts and ends of its input *)
Lemma join_members : forall d t lb ub s e, In (s, e) (join d lb ub t) ->
  (s = lb \/ exists e', In (s, e') t) /\ (e = ub \/ exists s', In (s', e) t).
Proof.
  intros d. induction t as [|[s1 e1] t IH]; intros lb ub s e H.
  - cbn in H. destruct H as [H|[]]. inversion H; subst. split; left; reflexivity.
  - cbn [join] in H. destruct (s1 - ub <=? d).
    + apply IH in H. destruct H as [H1 H2]. split.
      * destruct H1 as [H1|[e' H1]]; [left; exact H1|right; exists e'; right; exact H1].
      * destruct H2 as [H2|[s' H2]]; [right; exists s1; left; subst e; reflexivity|
                                       right; exists s'; right; exact H2].
    + destruct H as [H|H].
      * inversion H; subst. split; left; reflexivity.
      * apply IH in H. destruct H as [H1 H2]. split.
        -- destruct H1 as [H1|[e' H1]]; [right; exists e1; left; subst s; reflexivity|
                                         right; exists e'; right; exact H1].
        -- destruct H2 as [H2|[s' H2]]; [right; exists s1; left; subst e; reflexivity|
                                         right; exists s'; right; exact H2].
Qed.

(* every debounced run of w lies inside w and is at least m long - for every array w *)
Lemma debounce_bounds : forall m w s e, 0 <= m -> In (s, e) (debounce_model m (runs w)) ->
  0 <= s /\ s + m <= e /\ e <= zlen w.
Proof.
  intros m w s e Hm H. rewrite debounce_is_spec in H by (try lia; apply runs_separated).
  pose proof (debounce_result m (runs w) Hm (runs_separated w)) as (_ & R2 & _).
  specialize (R2 s e H).
  unfold debounce_spec in H.
  set (F := filter _ (runs w)) in H.
  assert (Hsub : forall p, In p F -> In p (runs w)).
  { unfold F. intros p Hp. apply filter_In in Hp. apply Hp. }
  destruct F as [|[s1 e1] t]; [destruct H|].
  apply join_members in H. destruct H as [H1 H2].
  assert (A : exists e', In (s, e') (runs w)).
  { destruct H1 as [->|[e' H1]]; [exists e1; apply Hsub; left; reflexivity|
                                   exists e'; apply Hsub; right; exact H1]. }
  assert (B : exists s', In (s', e) (runs w)).
  { destruct H2 as [->|[s' H2]]; [exists s1; apply Hsub; left; reflexivity|
                                   exists s'; apply Hsub; right; exact H2]. }
  destruct A as [e' A]. destruct B as [s' B].
  apply runs_are_maximal in A. apply runs_are_maximal in B.
  destruct A as (A1 & _). destruct B as (_ & B2 & _). lia.
Qed.

(* the events of one step, in window coordinates: for every array w *)
Lemma step_events_window : forall d m s0 w l k a, 0 <= m ->
  step_events d m s0 w = Some l -> In (k, a) l ->
  match k with
  | Rising => s0 < a <= s0 + zlen w - m
  | Falling => s0 + m <= a < s0 + zlen w
  end.
Proof.
  intros d m s0 w l k a Hm H Hin. unfold step_events in H. rewrite epochs_are_runs in H.
  inversion H; subst l; clear H.
  apply in_flat_map in Hin. destruct Hin as ([s e] & H1 & H2).
  apply debounce_bounds in H1; [|exact Hm]. apply epoch_events_In in H2.
  destruct H2 as [(-> & _ & Hs & ->)|(-> & _ & He & ->)]; lia.
Qed.

Lemma step_window : forall d m st c E st', 1 <= m -> zlen (st_prior st) = m ->
  step d m st c = Some (E, st') ->
  zlen (st_prior st') = m /\ forall e, In e (evs E) -> ev_window m E e.
Proof.
  intros d m st c E st' Hm Hp H. unfold step in H.
  destruct (joinable st c); [|discriminate].
  destruct (step_events d m (st_s0 st) (st_prior st ++ c_data c)) as [l|] eqn:Hs; [|discriminate].
  inversion H; subst E st'; clear H. cbn [st_prior evs].
  pose proof (zlen_nonneg _ (c_data c)) as Hn.
  assert (Hw : zlen (st_prior st ++ c_data c) = m + zlen (c_data c)) by (rewrite zlen_app; lia).
  split.
  - rewrite py_tail by lia. rewrite zlen_skipn by (unfold zlen in *; lia). lia.
  - intros [k a] He. pose proof (step_events_window d m _ _ _ _ _ ltac:(lia) Hs He) as W.
    rewrite Hw in W. unfold ev_window. cbn [fst snd e_start e_end]. destruct k; lia.
Qed.

Lemma run_from_window : forall d m, 1 <= m -> forall cs st bs s,
  zlen (st_prior st) = m -> run_from d m st cs = (bs, s) ->
  forall E e, In E bs -> In e (evs E) -> ev_window m E e.
Proof.
  intros d m Hm. induction cs as [|c t IH]; intros st bs s Hp H E e HE He.
  - cbn in H. inversion H; subst. destruct HE.
  - cbn [run_from] in H. destruct (step d m st c) as [[E1 st']|] eqn:Hs.
    + destruct (run_from d m st' t) as [bs' s'] eqn:Hr. inversion H; subst bs s; clear H.
      destruct (step_window _ _ _ _ _ _ Hm Hp Hs) as [Hp' W].
      destruct HE as [<-|HE]; [apply W; exact He|]. eapply IH; eassumption.
    + inversion H; subst. destruct HE.
Qed.

(* blocks are only emitted for m >= 1 *)
Lemma blocks_m_pos : forall d m init fs cs bs s, run_edges d m init fs cs = (bs, s) -> bs <> [] -> 1 <= m.
Proof.
  intros d m init fs cs bs s H Hne. unfold run_edges in H.
  destruct (m <? 1) eqn:Em; [inversion H; subst; congruence|lia].
Qed.

Lemma events_window : forall d m init fs cs bs s, run_edges d m init fs cs = (bs, s) ->
  forall E e, In E bs -> In e (evs E) -> ev_window m E e.
Proof.
  intros d m init fs cs bs s H E e HE He. unfold run_edges in H.
  destruct (m <? 1) eqn:Em; [inversion H; subst; destruct HE|].
  destruct cs as [|c t]; [inversion H; subst; destruct HE|].
  eapply (run_from_window d m ltac:(lia)); [|exact H|exact HE|exact He].
  unfold start. destruct (c_ann c) as [[a b]|]; cbn [st_prior]; rewrite zlen_repeat; lia.
Qed.

(* C13_events_not_before_block: for EVERY input (no run-length precondition, any chunk list, also a run
   that stops on an error) and every emitted block: rising events lie in (start, end], falling events in
   [start + m, end + m); so no event lies at or before its block's start, and none m or more past its end *)
Lemma events_not_before_block : forall d m init fs cs bs s, run_edges d m init fs cs = (bs, s) ->
  forall E e, In E bs -> In e (evs E) ->
    1 <= m /\
    match fst e with
    | Rising => e_start E < snd e <= e_end E
    | Falling => e_start E + m <= snd e < e_end E + m
    end /\
    e_start E < snd e < e_end E + m.
Proof.
  intros d m init fs cs bs s H E e HE He.
  assert (Hm : 1 <= m).
  { eapply blocks_m_pos; [exact H|]. intros ->. destruct HE. }
  pose proof (events_window _ _ _ _ _ _ _ H E e HE He) as W.
  split; [exact Hm|]. split; [exact W|]. unfold ev_window in W. destruct (fst e); lia.
Qed.

Lemma event_lb : forall d m init fs cs bs s, run_edges d m init fs cs = (bs, s) ->
  forall E e, In E bs -> In e (evs E) -> e_start E < snd e.
Proof.
  intros d m init fs cs bs s H E e HE He.
  destruct (events_not_before_block _ _ _ _ _ _ _ H E e HE He) as (_ & _ & K). lia.
Qed.

(* all four bounds are attained (on a stream meeting the run-length precondition) *)
Lemma event_window_sharp :
  exists m init cs bs,
    clean m init (stream cs) = true /\ input_ok 0 cs /\ run_edges DBoth m init 1000 cs = (bs, Ok) /\
    (exists E, In E bs /\ In (Rising, e_start E + 1) (evs E)) /\
    (exists E, In E bs /\ In (Rising, e_end E) (evs E)) /\
    (exists E, In E bs /\ In (Falling, e_start E + m) (evs E)) /\
    (exists E, In E bs /\ In (Falling, e_end E + m - 1) (evs E)).
Proof.
  exists 2, false,
    [plain [false; false; false; true]; plain [true; true; true; false]; plain [false; false; true; true];
     plain [true]; plain [false; false; false]].
  eexists.
  split; [reflexivity|]. split; [left; cbn; repeat split|].
  split; [vm_compute; reflexivity|].
  split; [eexists; split; [right; left; reflexivity|vm_compute; auto]|].
  split; [eexists; split; [right; right; left; reflexivity|vm_compute; auto]|].
  split; [eexists; split; [right; right; right; right; left; reflexivity|vm_compute; auto]|].
  eexists; split; [right; left; reflexivity|vm_compute; auto].
Qed.

(* ------------------------------------------------------------------ *)
(* 2. "every event lies inside its block's [start, end)" is false       *)
(* ------------------------------------------------------------------ *)
(* x = 0^5 1^4 0^4 1^5 0^6, debounce 3, initial state low (all runs longer than 3):
   chunk sizes (8, 16):  block [-3, 5) holds (rising, 5)   - sample = block end
   chunk sizes (10, 14): block [-3, 7) holds (falling, 9)  - sample = block end + m - 1 *)
Definition x_wit : list bool :=
  repeat false 5 ++ repeat true 4 ++ repeat false 4 ++ repeat true 5 ++ repeat false 6.

Lemma events_in_span_refuted :
  exists m init x cs1 cs2 bs1 bs2 E1 E2,
    clean m init x = true /\ stream cs1 = x /\ stream cs2 = x /\ input_ok 0 cs1 /\ input_ok 0 cs2 /\
    run_edges DBoth m init 1000 cs1 = (bs1, Ok) /\ In E1 bs1 /\ In (Rising, e_end E1) (evs E1) /\
    run_edges DBoth m init 1000 cs2 = (bs2, Ok) /\ In E2 bs2 /\ In (Falling, e_end E2 + m - 1) (evs E2) /\
    ~ contained E1 /\ ~ contained E2.
Proof.
  exists 3, false, x_wit,
    [plain (firstn 8 x_wit); plain (skipn 8 x_wit)],
    [plain (firstn 10 x_wit); plain (skipn 10 x_wit)].
  exists [{| evs := [(Rising, 5)]; e_start := -3; e_end := 5; e_fs := 1000 |};
          {| evs := [(Falling, 9); (Rising, 13); (Falling, 18)]; e_start := 5; e_end := 21; e_fs := 1000 |}],
         [{| evs := [(Rising, 5); (Falling, 9)]; e_start := -3; e_end := 7; e_fs := 1000 |};
          {| evs := [(Rising, 13); (Falling, 18)]; e_start := 7; e_end := 21; e_fs := 1000 |}],
         {| evs := [(Rising, 5)]; e_start := -3; e_end := 5; e_fs := 1000 |},
         {| evs := [(Rising, 5); (Falling, 9)]; e_start := -3; e_end := 7; e_fs := 1000 |}.
  split; [vm_compute; reflexivity|]. split; [vm_compute; reflexivity|]. split; [vm_compute; reflexivity|].
  split; [left; cbn; repeat split|]. split; [left; cbn; repeat split|].
  split; [vm_compute; reflexivity|]. split; [left; reflexivity|]. split; [left; reflexivity|].
  split; [vm_compute; reflexivity|]. split; [left; reflexivity|]. split; [right; left; reflexivity|].
  split; intros H.
  - specialize (H (Rising, 5) (or_introl eq_refl)). cbn in H. lia.
  - specialize (H (Falling, 9) (or_intror (or_introl eq_refl))). cbn in H. lia.
Qed.

(* ------------------------------------------------------------------ *)
(* 3. an event at or after its block's end lies in a NEXT block's span  *)
(* ------------------------------------------------------------------ *)
Lemma last_cons_ev : forall (l : list events) x d, last (x :: l) d = last l x.
Proof.
  induction l as [|y l IH]; intros x d; [reflexivity|].
  change (last (x :: y :: l) d) with (last (y :: l) d). rewrite (IH y d), (IH y x). reflexivity.
Qed.

Lemma chain_last_ge : forall l D, chain (e_end D) l -> e_end D <= e_end (last l D).
Proof.
  induction l as [|E1 t IH]; intros D Hc; [cbn; lia|].
  destruct Hc as (C1 & C2 & C3). rewrite last_cons_ev. specialize (IH E1 C3). lia.
Qed.

(* a chain of blocks covers every sample between its start and its last end *)
Lemma chain_covers : forall bs D a, chain (e_end D) bs -> e_end D <= a < e_end (last bs D) ->
  exists E', In E' bs /\ e_start E' <= a < e_end E'.
Proof.
  induction bs as [|E1 t IH]; intros D a Hc Ha.
  - cbn in Ha. lia.
  - destruct Hc as (C1 & C2 & C3). rewrite last_cons_ev in Ha.
    destruct (Z_lt_dec a (e_end E1)) as [L|L].
    + exists E1. split; [left; reflexivity|lia].
    + destruct (IH E1 a C3) as (E' & I1 & I2); [lia|].
      exists E'. split; [right; exact I1|exact I2].
Qed.

Lemma chain_split : forall pre E post s, chain s (pre ++ E :: post) ->
  chain (e_end E) post /\ s <= e_start E /\ e_start E <= e_end E.
Proof.
  induction pre as [|P pre IH]; intros E post s Hc.
  - destruct Hc as (C1 & C2 & C3). split; [exact C3|lia].
  - destruct Hc as (C1 & C2 & C3). destruct (IH E post _ C3) as (I1 & I2 & I3).
    split; [exact I1|lia].
Qed.

(* C13_ahead_events_are_next_block: an event of block E that is not below E's end is less than m samples
   past it (a rising one exactly AT the end), hence inside the span of one of the blocks emitted AFTER E as
   soon as these reach past it - at the latest once they cover m more samples.  Every input. *)
Lemma ahead_events_next_block : forall d m init fs cs pre E post s k a,
  run_edges d m init fs cs = (pre ++ E :: post, s) -> In (k, a) (evs E) -> ahead E (k, a) ->
  a < e_end E + m /\ (k = Rising -> a = e_end E) /\
  (a < e_end (last post E) -> exists E', In E' post /\ e_start E' <= a < e_end E') /\
  (e_end E + m <= e_end (last post E) -> exists E', In E' post /\ e_start E' <= a < e_end E').
Proof.
  intros d m init fs cs pre E post s k a H He Ha. unfold ahead in Ha. cbn [snd] in Ha.
  assert (HE : In E (pre ++ E :: post)) by (apply in_or_app; right; left; reflexivity).
  pose proof (events_window _ _ _ _ _ _ _ H E (k, a) HE He) as W.
  unfold ev_window in W. cbn [fst snd] in W.
  pose proof (blocks_chain _ _ _ _ _ _ _ H) as Hc. apply chain_split in Hc. destruct Hc as (Hc & _ & _).
  assert (Hlt : a < e_end E + m).
  { destruct k; [|lia]. assert (1 <= m); [|lia]. eapply blocks_m_pos; [exact H|]. intros K. rewrite K in HE. destruct HE. }
  assert (Hcov : a < e_end (last post E) -> exists E', In E' post /\ e_start E' <= a < e_end E').
  { intros Hl. apply (chain_covers post E a Hc). lia. }
  split; [exact Hlt|]. split; [intros ->; lia|]. split; [exact Hcov|].
  intros Hm. apply Hcov. lia.
Qed.

(* non-vacuity: the rising event of the first block of the witness above lies in the second block's span *)
Example ahead_ex :
  let E := {| evs := [(Rising, 5)]; e_start := -3; e_end := 5; e_fs := 1000 |} in
  let E2 := {| evs := [(Falling, 9); (Rising, 13); (Falling, 18)]; e_start := 5; e_end := 21; e_fs := 1000 |} in
  run_edges DBoth 3 false 1000 [plain (firstn 8 x_wit); plain (skipn 8 x_wit)] = ([] ++ E :: [E2], Ok) /\
  In (Rising, 5) (evs E) /\ ahead E (Rising, 5) /\ e_end E + 3 <= e_end (last [E2] E).
Proof.
  cbn zeta. split; [vm_compute; reflexivity|]. split; [left; reflexivity|].
  split; [unfold ahead; cbn; lia|cbn; lia].
Qed.

(* ------------------------------------------------------------------ *)
(* merged runs of consecutive blocks                                    *)
(* ------------------------------------------------------------------ *)
Lemma chain_bounds : forall l s B D, chain s l -> In B l ->
  s <= e_start B /\ e_end B <= e_end (last l D).
Proof.
  induction l as [|E1 t IH]; intros s B D Hc HB; [destruct HB|].
  destruct Hc as (C1 & C2 & C3). rewrite last_cons_ev. destruct HB as [<-|HB].
  - split; [lia|]. apply chain_last_ge. exact C3.
  - destruct (IH (e_end E1) B E1 C3 HB) as [I1 I2]. split; [lia|exact I2].
Qed.

Lemma chain_app_l : forall a b s, chain s (a ++ b) -> chain s a.
Proof.
  induction a as [|x a IH]; intros b s H; [exact I|].
  destruct H as (C1 & C2 & C3). cbn [chain]. split; [exact C1|]. split; [exact C2|].
  eapply IH. exact C3.
Qed.

Lemma chain_app_r : forall a b s, chain s (a ++ b) -> exists s', s <= s' /\ chain s' b.
Proof.
  induction a as [|x a IH]; intros b s H; [exists s; split; [lia|exact H]|].
  destruct H as (C1 & C2 & C3). destruct (IH b _ C3) as (s' & I1 & I2).
  exists s'. split; [lia|exact I2].
Qed.

Lemma merged_window : forall m l s M, chain s l ->
  (forall E e, In E l -> In e (evs E) -> ev_window m E e) ->
  combine_events l = COk M ->
  e_start M = s /\ forall e, In e (evs M) -> ev_window m M e.
Proof.
  intros m l s M Hc Hw HM.
  destruct (combine_result _ _ HM) as (_ & _ & R3 & R4 & R5 & _).
  destruct l as [|E0 t]; [discriminate|].
  assert (Hs : e_start M = s).
  { rewrite R4. cbn [hd]. destruct Hc as (C1 & _). exact C1. }
  split; [exact Hs|]. intros e He. apply R3 in He. destruct He as (B & HB & He).
  pose proof (Hw B e HB He) as W.
  destruct (chain_bounds _ _ B M Hc HB) as [B1 B2]. rewrite <- R5 in B2.
  unfold ev_window in *. destruct (fst e); lia.
Qed.

(* C13_merged_segment_in_span: in the merge of ANY run of consecutive emitted blocks the events obey the
   window of the merged block: rising in (start, end], falling in [start + m, end + m) *)
Lemma merged_segment_in_span : forall d m init fs cs pre seg post s M,
  run_edges d m init fs cs = (pre ++ seg ++ post, s) -> combine_events seg = COk M ->
  first_index cs - m <= e_start M /\
  forall e, In e (evs M) ->
    match fst e with
    | Rising => e_start M < snd e <= e_end M
    | Falling => e_start M + m <= snd e < e_end M + m
    end /\ e_start M < snd e < e_end M + m.
Proof.
  intros d m init fs cs pre seg post s M H HM.
  pose proof (blocks_chain _ _ _ _ _ _ _ H) as Hc.
  apply chain_app_r in Hc. destruct Hc as (s' & Hs' & Hc). apply chain_app_l in Hc.
  assert (Hne : seg <> []) by (intros ->; discriminate).
  assert (Hm : 1 <= m).
  { eapply blocks_m_pos; [exact H|]. intros K. apply app_eq_nil in K. destruct K as [_ K].
    apply app_eq_nil in K. destruct K as [K _]. contradiction. }
  destruct (merged_window m seg s' M Hc) as [M1 M2]; [|exact HM|].
  - intros E e HE He. eapply events_window; [exact H| |exact He].
    apply in_or_app. right. apply in_or_app. left. exact HE.
  - split; [lia|]. intros e He. specialize (M2 e He). split; [exact M2|].
    unfold ev_window in M2. destruct (fst e); lia.
Qed.

(* C13_merged_prefix_in_span: the merge of the first kk blocks spans [first - m, end of block kk) and every
   event lies in (start, end + m): after its start, less than m past its end *)
Lemma merged_prefix_in_span : forall d m init fs cs bs s kk M,
  run_edges d m init fs cs = (bs, s) -> combine_events (firstn kk bs) = COk M ->
  e_start M = first_index cs - m /\ e_end M = e_end (last (firstn kk bs) M) /\
  forall e, In e (evs M) ->
    match fst e with
    | Rising => e_start M < snd e <= e_end M
    | Falling => e_start M + m <= snd e < e_end M + m
    end /\ e_start M < snd e < e_end M + m.
Proof.
  intros d m init fs cs bs s kk M H HM.
  assert (H' : run_edges d m init fs cs = ([] ++ firstn kk bs ++ skipn kk bs, s))
    by (cbn [app]; rewrite firstn_skipn; exact H).
  destruct (merged_segment_in_span _ _ _ _ _ _ _ _ _ _ H' HM) as [_ W].
  pose proof (blocks_chain _ _ _ _ _ _ _ H) as Hc.
  rewrite <- (firstn_skipn kk bs) in Hc. apply chain_app_l in Hc.
  destruct (combine_result _ _ HM) as (_ & _ & _ & R4 & R5 & _).
  split; [|split; [exact R5|exact W]].
  destruct (firstn kk bs) as [|E0 t]; [discriminate|].
  rewrite R4. cbn [hd]. destruct Hc as (C1 & _). exact C1.
Qed.

Example merged_prefix_ex :
  let cs := [plain (firstn 10 x_wit); plain (skipn 10 x_wit)] in
  exists M, combine_events (firstn 1 (fst (run_edges DBoth 3 false 1000 cs))) = COk M /\
            e_end M = 7 /\ In (Falling, 9) (evs M).
Proof. cbn zeta. eexists. split; [vm_compute; reflexivity|]. split; [reflexivity|right; left; reflexivity]. Qed.

(* ------------------------------------------------------------------ *)
(* 4. whole-span range queries                                          *)
(* ------------------------------------------------------------------ *)
(* C13_range_query_whole_span_partial: the query over the span of an emitted block answers with exactly
   the block's events below its end: the events at or after the end are omitted, and the block is
   returned whole exactly when it has none *)
Lemma range_whole_span_partial : forall d m init fs cs bs s E,
  run_edges d m init fs cs = (bs, s) -> In E bs ->
  exists R, get_range_samples E (e_start E) (e_end E) = Some R /\
    e_start R = e_start E /\ e_end R = e_end E /\ e_fs R = e_fs E /\
    evs R = filter (below_end E) (evs E) /\
    (forall e, In e (evs R) <-> In e (evs E) /\ snd e < e_end E) /\
    (forall e, In e (evs E) -> ahead E e -> ~ In e (evs R)) /\
    (R = E <-> forall e, In e (evs E) -> snd e < e_end E).
Proof.
  intros d m init fs cs bs s E H HE.
  assert (Hlb : forall e, In e (evs E) -> e_start E <= snd e).
  { intros e He. pose proof (event_lb _ _ _ _ _ _ _ H E e HE He). lia. }
  assert (F : filter (in_range (e_start E) (e_end E)) (evs E) = filter (below_end E) (evs E)).
  { apply filter_ext_in. intros e He. specialize (Hlb e He). unfold in_range, below_end.
    destruct (e_start E <=? snd e) eqn:K; [reflexivity|lia]. }
  rewrite range_accepts by lia. eexists. split; [reflexivity|]. cbn [evs e_start e_end e_fs].
  split; [reflexivity|]. split; [reflexivity|]. split; [reflexivity|]. split; [exact F|].
  assert (Hin : forall e, In e (filter (in_range (e_start E) (e_end E)) (evs E)) <->
                          In e (evs E) /\ snd e < e_end E).
  { intros e. rewrite F, filter_In. unfold below_end. split; intros [A B]; (split; [exact A|lia]). }
  split; [exact Hin|]. split.
  - intros e He Ha Hr. apply Hin in Hr. unfold ahead in Ha. lia.
  - split.
    + intros Heq e He. apply (f_equal evs) in Heq. cbn [evs] in Heq.
      rewrite <- Heq in He. apply Hin in He. apply He.
    + intros Hall. destruct E as [l a b f]. cbn [evs e_start e_end e_fs] in *. f_equal.
      apply filter_all. intros x Hx. apply in_range_iff. specialize (Hall x Hx). specialize (Hlb x Hx). lia.
Qed.

(* the natural claim "the query over a block's span returns the block" is false for emitted blocks:
   here it returns no event at all although the block holds one *)
Lemma range_whole_span_refuted :
  exists m init cs bs E R,
    clean m init (stream cs) = true /\ input_ok 0 cs /\ run_edges DBoth m init 1000 cs = (bs, Ok) /\
    In E bs /\ get_range_samples E (e_start E) (e_end E) = Some R /\ R <> E /\
    evs E = [(Rising, 5)] /\ evs R = [].
Proof.
  exists 3, false, [plain (firstn 8 x_wit); plain (skipn 8 x_wit)].
  eexists. eexists. eexists.
  split; [vm_compute; reflexivity|]. split; [left; cbn; repeat split|].
  split; [vm_compute; reflexivity|]. split; [left; reflexivity|].
  split; [vm_compute; reflexivity|]. split; [discriminate|]. split; reflexivity.
Qed.

(* --- the merge of ALL blocks --- *)
Lemma confirmed_settled : forall m init x, confirmed m init x = true -> settled m init x = true.
Proof.
  intros m init x H. unfold confirmed, settled in *. rewrite forallb_forall in *.
  intros e He. specialize (H e He). lia.
Qed.

Lemma spans_last_end : forall ns s (bs : list events) D, map span bs = spans s ns -> e_end D = s ->
  e_end (last bs D) = s + sumZ ns.
Proof.
  induction ns as [|n t IH]; intros s bs D H HD.
  - destruct bs; [|discriminate]. cbn. lia.
  - destruct bs as [|E1 bt]; [discriminate|]. cbn [map spans] in H. injection H as H1 H2 H3.
    rewrite last_cons_ev. rewrite (IH (s + n) bt E1 H3 H2). cbn [sumZ fold_right].
    unfold sumZ. lia.
Qed.

Lemma spans_length : forall ns s, length (spans s ns) = length ns.
Proof. induction ns as [|n t IH]; intros s; [reflexivity|]. cbn [spans length]. rewrite IH. reflexivity. Qed.

Lemma stream_len : forall cs, zlen (stream cs) = sumZ (map clen cs).
Proof.
  induction cs as [|c t IH]; [reflexivity|].
  rewrite stream_cons, zlen_app, IH. cbn [map sumZ fold_right]. unfold sumZ, clen. lia.
Qed.

Lemma input_first_index : forall first c t, input_ok first (c :: t) -> first_index (c :: t) = first.
Proof.
  intros first c t [[-> [Ha _]]|[f [Ha _]]]; unfold first_index; rewrite Ha; reflexivity.
Qed.

(* C13_merged_all_whole_span: when every transition of the stream is followed by MORE than m samples
   (`confirmed`), the merge of all blocks spans [first - m, first - m + length), holds exactly the wanted
   transitions of the stream, all inside its span, and the whole-span query returns it unchanged *)
Lemma merged_all_whole_span : forall d m init fs_arg cs first,
  1 <= m -> cs <> [] -> input_ok first cs ->
  clean m init (stream cs) = true -> confirmed m init (stream cs) = true ->
  exists bs M, run_edges d m init fs_arg cs = (bs, Ok) /\ combine_events bs = COk M /\
    evs M = filter (wanted d) (transitions init first (stream cs)) /\
    e_start M = first - m /\ e_end M = first - m + zlen (stream cs) /\
    contained M /\ get_range_samples M (e_start M) (e_end M) = Some M.
Proof.
  intros d m init fs_arg cs first Hm Hne Hin Hcl Hcf.
  destruct (all_transitions_when_settled d m init fs_arg cs first Hm Hin Hcl (confirmed_settled _ _ _ Hcf))
    as (bs & R & Ev).
  destruct (blocks_tile _ _ _ _ _ _ _ R) as (T1 & _ & T3). specialize (T3 eq_refl).
  assert (Hbne : bs <> []) by (intros ->; destruct cs; [congruence|discriminate]).
  destruct (edges_blocks_combine _ _ _ _ _ _ _ R Hbne) as (M & HM & EM).
  exists bs, M. split; [exact R|]. split; [exact HM|]. rewrite Ev in EM. split; [exact EM|].
  destruct (combine_result _ _ HM) as (_ & _ & _ & R4 & R5 & _).
  pose proof (blocks_chain _ _ _ _ _ _ _ R) as Hc.
  assert (Hfi : first_index cs = first) by (destruct cs as [|c t]; [congruence|apply input_first_index; exact Hin]).
  rewrite Hfi in *.
  assert (Hst : e_start M = first - m).
  { rewrite R4. destruct bs as [|E0 t]; [congruence|]. cbn [hd]. destruct Hc as (C1 & _). exact C1. }
  assert (Hen : e_end M = first - m + zlen (stream cs)).
  { rewrite R5. rewrite T3, <- (map_length clen cs), <- (spans_length (map clen cs) (first - m)), firstn_all in T1.
    destruct bs as [|E0 t]; [congruence|].
    set (D0 := {| evs := []; e_start := first - m; e_end := first - m; e_fs := 0 |}).
    rewrite (last_indep t E0 M D0).
    rewrite (spans_last_end _ _ _ D0 T1 eq_refl). rewrite stream_len. reflexivity. }
  split; [exact Hst|]. split; [exact Hen|].
  assert (HC : contained M).
  { intros e He. rewrite EM in He. apply filter_In in He. destruct He as [He _].
    replace first with (0 + first) in He by lia. rewrite transitions_shift in He.
    apply in_map_iff in He. destruct He as ([k p] & <- & Hp).
    pose proof (transitions_lb _ _ _ _ Hp) as Hlb.
    unfold confirmed in Hcf. rewrite forallb_forall in Hcf. specialize (Hcf _ Hp).
    cbn [fst snd] in *. lia. }
  split; [exact HC|apply range_whole; exact HC].
Qed.

Example merged_all_ex :
  let cs := [plain [false; true]; plain [true; true; false]; plain []; plain [false; false]] in
  1 <= 2 /\ cs <> [] /\ input_ok 0 cs /\ clean 2 false (stream cs) = true /\
  confirmed 2 false (stream cs) = true.
Proof.
  cbn zeta. split; [lia|]. split; [discriminate|]. split; [left; cbn; repeat split|].
  split; vm_compute; reflexivity.
Qed.

(* `settled` (every edge followed by at least m samples: nothing pending, all transitions reported) is NOT
   enough: the last event then sits exactly at the end of the merged span and the whole-span query on the
   merge of all blocks omits it.  0 0 1 1 1, debounce 3: merged span [-3, 2), event (rising, 2). *)
Lemma merged_all_settled_refuted :
  exists m init cs bs M R,
    1 <= m /\ input_ok 0 cs /\ clean m init (stream cs) = true /\ settled m init (stream cs) = true /\
    run_edges DBoth m init 1000 cs = (bs, Ok) /\ combine_events bs = COk M /\
    evs M = transitions init 0 (stream cs) /\
    get_range_samples M (e_start M) (e_end M) = Some R /\ R <> M /\
    evs M = [(Rising, e_end M)] /\ evs R = [].
Proof.
  exists 3, false, [plain [false; false]; plain [true; true; true]].
  eexists. eexists. eexists.
  split; [lia|]. split; [left; cbn; repeat split|].
  split; [vm_compute; reflexivity|]. split; [vm_compute; reflexivity|].
  split; [vm_compute; reflexivity|]. split; [vm_compute; reflexivity|].
  split; [vm_compute; reflexivity|]. split; [vm_compute; reflexivity|].
  split; [discriminate|]. split; reflexivity.
Qed.
