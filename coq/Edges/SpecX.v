(* C13, extension: WHERE the events of an emitted block can lie.  Vocabulary only (no proofs here).
   pipeline.edges emits Events(events, s0, s0 + n) whose span is delayed by min_samples against the input,
   while a falling edge is reported as soon as its sample arrives and a rising edge as soon as min_samples
   high samples have arrived: an event can lie AT OR AFTER the end of the block that carries it. *)
From PV Require Export Edges.Spec.

(* the window of a block E for debounce length m:
   a rising event lies in (start, end], a falling event in [start + m, end + m) *)
Definition ev_window (m : Z) (E : events) (e : ev) : Prop :=
  match fst e with
  | Rising => e_start E < snd e <= e_end E
  | Falling => e_start E + m <= snd e < e_end E + m
  end.

(* the event lies at or after the end of the block that carries it *)
Definition ahead (E : events) (e : ev) : Prop := e_end E <= snd e.

(* every transition of the stream is followed by MORE than m samples of input, itself included
   (compare `settled`: at least m).  This is what it takes for the merge of all blocks to contain
   its last event. *)
Definition confirmed (m : Z) (init : bool) (x : list bool) : bool :=
  forallb (fun e => snd e + m <? zlen x) (transitions init 0 x).

(* the events of a block below its end *)
Definition below_end (E : events) (e : ev) : bool := snd e <? e_end E.
