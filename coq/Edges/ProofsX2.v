(* C13, extension 2: the sampling rate is an opaque label.  The model carries a rate (the fs argument for plain
   input, the annotation of PipelineData chunks, the fs field of every block) but only ever COMPARES rates for
   equality (pipeline.concat, combine_events).  So renaming the rates by any injective map - e.g. to the label the
   harness uses for "no rate" (fs None) - renames the fs field of the blocks and changes nothing else, and the fs
   argument never influences events, spans or the error status at all. *)
From Coq Require Import ZArith List Bool Lia ZifyBool.
From PV Require Import Runs.Model Runs.Spec Edges.Model Edges.Spec.
Import ListNotations.
Open Scope Z_scope.

Definition set_fs (g : Z -> Z) (E : events) : events :=
  {| evs := evs E; e_start := e_start E; e_end := e_end E; e_fs := g (e_fs E) |}.
Definition relabel (g : Z -> Z) (c : chunk) : chunk :=
  {| c_ann := option_map (fun p => (fst p, g (snd p))) (c_ann c); c_data := c_data c |}.
Definition relabel_st (g : Z -> Z) (st : estate) : estate :=
  {| st_prior := st_prior st; st_s0 := st_s0 st; st_fs := g (st_fs st); st_ann := st_ann st |}.
(* everything of a block but its rate *)
Definition shape (E : events) : list ev * Z * Z := (evs E, e_start E, e_end E).
Definition injective (g : Z -> Z) : Prop := forall a b, g a = g b -> a = b.

Lemma joinable_relabel : forall g st c, injective g ->
  joinable (relabel_st g st) (relabel g c) = joinable st c.
Proof.
  intros g st c Hg. unfold joinable, relabel, relabel_st. cbn [c_ann st_ann st_fs st_s0 st_prior].
  destruct (c_ann c) as [[cs0 cfs]|]; cbn [option_map fst snd]; [|reflexivity].
  replace (g cfs =? g (st_fs st)) with (cfs =? st_fs st); [reflexivity|].
  destruct (cfs =? st_fs st) eqn:E.
  - apply Z.eqb_eq in E. subst cfs. symmetry. apply Z.eqb_refl.
  - symmetry. apply Z.eqb_neq. intros K. apply Hg in K. apply Z.eqb_neq in E. contradiction.
Qed.

Lemma step_relabel : forall g d m st c, injective g ->
  step d m (relabel_st g st) (relabel g c) =
  option_map (fun p => (set_fs g (fst p), relabel_st g (snd p))) (step d m st c).
Proof.
  intros g d m st c Hg. unfold step. rewrite (joinable_relabel g st c Hg).
  destruct (joinable st c); [|reflexivity].
  cbn [relabel_st relabel st_prior st_s0 st_fs st_ann c_data].
  destruct (step_events d m (st_s0 st) (st_prior st ++ c_data c)); reflexivity.
Qed.

Lemma run_from_relabel : forall g d m, injective g -> forall cs st,
  run_from d m (relabel_st g st) (map (relabel g) cs) =
  (map (set_fs g) (fst (run_from d m st cs)), snd (run_from d m st cs)).
Proof.
  intros g d m Hg. induction cs as [|c t IH]; intros st; [reflexivity|].
  cbn [map run_from]. rewrite (step_relabel g d m st c Hg).
  destruct (step d m st c) as [[E st']|]; cbn [option_map fst snd]; [|reflexivity].
  rewrite IH. destruct (run_from d m st' t) as [bs s]. reflexivity.
Qed.

Lemma start_relabel : forall g m init fs c,
  start m init (g fs) (relabel g c) = relabel_st g (start m init fs c).
Proof.
  intros g m init fs c. unfold start, relabel, relabel_st. cbn [c_ann].
  destruct (c_ann c) as [[cs0 cfs]|]; reflexivity.
Qed.

(* C13_rate_relabel: renaming all rates (argument and annotations) by an injective map renames the fs field
   of the emitted blocks; events, spans, number of blocks and the error status are unchanged *)
Lemma rate_relabel : forall g, injective g -> forall d m init fs cs,
  run_edges d m init (g fs) (map (relabel g) cs) =
  (map (set_fs g) (fst (run_edges d m init fs cs)), snd (run_edges d m init fs cs)).
Proof.
  intros g Hg d m init fs cs. unfold run_edges. destruct (m <? 1); [reflexivity|].
  destruct cs as [|c t]; [reflexivity|].
  change (map (relabel g) (c :: t)) with (relabel g c :: map (relabel g) t) at 1.
  cbv iota beta. rewrite start_relabel. apply (run_from_relabel g d m Hg (c :: t)).
Qed.

(* the fs ARGUMENT: states that differ in st_fs only, not annotated *)
Definition with_fs (f : Z) (st : estate) : estate :=
  {| st_prior := st_prior st; st_s0 := st_s0 st; st_fs := f; st_ann := st_ann st |}.

Lemma run_from_plain_fs : forall d m f cs st, st_ann st = false ->
  map shape (fst (run_from d m (with_fs f st) cs)) = map shape (fst (run_from d m st cs)) /\
  snd (run_from d m (with_fs f st) cs) = snd (run_from d m st cs).
Proof.
  intros d m f. induction cs as [|c t IH]; intros st Ha; [split; reflexivity|].
  cbn [run_from]. unfold step.
  assert (J : joinable (with_fs f st) c = joinable st c).
  { unfold joinable, with_fs. cbn [st_ann st_fs st_s0 st_prior]. rewrite Ha.
    destruct (c_ann c) as [[cs0 cfs]|]; reflexivity. }
  rewrite J. destruct (joinable st c); [|split; reflexivity].
  cbn [with_fs st_prior st_s0 st_fs st_ann].
  destruct (step_events d m (st_s0 st) (st_prior st ++ c_data c)) as [l|]; [|split; reflexivity].
  set (st' := {| st_prior := py_slice (Some (- m)) None (st_prior st ++ c_data c);
                 st_s0 := st_s0 st + zlen (c_data c); st_fs := st_fs st; st_ann := st_ann st |}).
  change {| st_prior := py_slice (Some (- m)) None (st_prior st ++ c_data c);
            st_s0 := st_s0 st + zlen (c_data c); st_fs := f; st_ann := st_ann st |} with (with_fs f st').
  destruct (IH st' Ha) as [I1 I2].
  destruct (run_from d m (with_fs f st') t) as [b1 s1]. destruct (run_from d m st' t) as [b2 s2].
  cbn [fst snd map] in *. split; [|exact I2]. f_equal. exact I1.
Qed.

Lemma fs_arg_irrelevant : forall d m init fs1 fs2 cs,
  map shape (fst (run_edges d m init fs1 cs)) = map shape (fst (run_edges d m init fs2 cs)) /\
  snd (run_edges d m init fs1 cs) = snd (run_edges d m init fs2 cs).
Proof.
  intros d m init fs1 fs2 cs. unfold run_edges. destruct (m <? 1); [split; reflexivity|].
  destruct cs as [|c t]; [split; reflexivity|].
  unfold start. destruct (c_ann c) as [[cs0 cfs]|] eqn:A; [split; reflexivity|].
  set (st := {| st_prior := repeat init (Z.to_nat m); st_s0 := - m; st_fs := fs2; st_ann := false |}).
  change {| st_prior := repeat init (Z.to_nat m); st_s0 := - m; st_fs := fs1; st_ann := false |} with (with_fs fs1 st).
  apply run_from_plain_fs. reflexivity.
Qed.

Lemma shape_set_fs : forall g bs, map shape (map (set_fs g) bs) = map shape bs.
Proof. intros g bs. rewrite map_map. apply map_ext. intros E. reflexivity. Qed.

(* C13_rate_irrelevant: events, spans, number of blocks and error status do not depend on the rates at all:
   the run with the rates renamed by ANY injective map and ANY fs argument yields the same blocks up to
   their fs field *)
Lemma rate_irrelevant : forall g, injective g -> forall d m init fs1 fs2 cs,
  map shape (fst (run_edges d m init fs2 (map (relabel g) cs))) = map shape (fst (run_edges d m init fs1 cs)) /\
  snd (run_edges d m init fs2 (map (relabel g) cs)) = snd (run_edges d m init fs1 cs).
Proof.
  intros g Hg d m init fs1 fs2 cs.
  destruct (fs_arg_irrelevant d m init fs2 (g fs1) (map (relabel g) cs)) as [A1 A2].
  rewrite A1, A2, (rate_relabel g Hg). cbn [fst snd]. split; [apply shape_set_fs|reflexivity].
Qed.

(* non-vacuity: every translation is injective - in particular any single rate can be renamed to any other,
   e.g. to the label -1 the harness uses for "no rate" *)
Example injective_ex : forall f1 f2, injective (fun x => x + (f2 - f1)) /\ (fun x => x + (f2 - f1)) f1 = f2.
Proof. intros f1 f2. split; [intros a b H; lia|lia]. Qed.

(* injectivity is needed for the error status: merging two different rates into one makes a mixed-rate
   input acceptable *)
Lemma rate_relabel_noninjective_refuted :
  exists g cs, ~ injective g /\
    snd (run_edges DBoth 1 false 0 (map (relabel g) cs)) <> snd (run_edges DBoth 1 false 0 cs).
Proof.
  exists (fun _ => 0), [{| c_ann := Some (0, 1000); c_data := [true] |}; {| c_ann := Some (1, 2000); c_data := [true] |}].
  split; [intros H; specialize (H 0 1 eq_refl); discriminate|]. vm_compute. discriminate.
Qed.
