(* Declarative side of C13: transitions of a binary stream, the run-length precondition,
   when a transition is due, well-formed input, block spans.  No proofs here. *)
From PV Require Export Edges.Model Runs.Spec.

(* transitions of the stream x whose first sample has absolute index i, relative to the
   level `prev` before it: a rising event at the first high sample and a falling event at the
   first low sample of every run, left to right *)
Fixpoint transitions (prev : bool) (i : Z) (x : list bool) : list ev :=
  match x with
  | [] => []
  | b :: t =>
    (if negb prev && b then [(Rising, i)] else if prev && negb b then [(Falling, i)] else [])
      ++ transitions b (i + 1) t
  end.

(* run-length precondition, as a boolean on the stream: every run that has ENDED is longer than m.
   The initial state counts as a settled run (its counter starts above m), so the stream may leave
   it at its very first sample; the last (still open) run may have any length. *)
Fixpoint clean_aux (m : Z) (prev : bool) (cnt : Z) (x : list bool) : bool :=
  match x with
  | [] => true
  | b :: t =>
    if Bool.eqb b prev then clean_aux m prev (cnt + 1) t
    else (m <? cnt) && clean_aux m b 1 t
  end.
Definition clean (m : Z) (init : bool) (x : list bool) : bool := clean_aux m init (m + 1) x.

(* the stream has settled: its last m samples are equal (so its last run is at least m long,
   or it never left the initial state) *)
Definition settled (m : Z) (init : bool) (x : list bool) : bool :=
  forallb (fun e => snd e + m <=? zlen x) (transitions init 0 x).

(* the detect argument *)
Definition wanted (d : detect) (e : ev) : bool :=
  match fst e with Rising => rising_on d | Falling => falling_on d end.

(* a transition is due once the input has reached absolute sample T (exclusive):
   a falling edge as soon as its sample has arrived, a rising edge once m samples of the
   new run (itself included) have arrived, i.e. after at most m - 1 further samples *)
Definition due_by (m T : Z) (e : ev) : bool :=
  match fst e with
  | Rising => snd e + m <=? T
  | Falling => snd e <? T
  end.

(* input on which pipeline.concat never raises: all chunks plain (first index 0), or all
   annotated with one rate and contiguous sample numbers starting at `first` *)
Fixpoint chunks_ok (fs : option Z) (pos : Z) (cs : list chunk) : Prop :=
  match cs with
  | [] => True
  | c :: t => c_ann c = option_map (fun f => (pos, f)) fs /\ chunks_ok fs (pos + zlen (c_data c)) t
  end.
Definition input_ok (first : Z) (cs : list chunk) : Prop :=
  (first = 0 /\ chunks_ok None 0 cs) \/ (exists fs, chunks_ok (Some fs) first cs).

Definition stream (cs : list chunk) : list bool := concat (map c_data cs).

(* spans [s, s + n1), [s + n1, s + n1 + n2), ... of consecutive chunks *)
Fixpoint spans (s : Z) (ns : list Z) : list (Z * Z) :=
  match ns with
  | [] => []
  | n :: t => (s, s + n) :: spans (s + n) t
  end.
Definition span (E : events) : Z * Z := (e_start E, e_end E).

(* index of the first sample of the input: s0 of the first annotated chunk, 0 for plain input *)
Definition first_index (cs : list chunk) : Z :=
  match cs with
  | c :: _ => match c_ann c with Some (s, _) => s | None => 0 end
  | [] => 0
  end.

(* positional vocabulary used by the step characterisation *)
Definition is_rising (k : kind) : bool := match k with Rising => true | Falling => false end.

(* the list u has an edge of kind k at position p (p >= 1: the sample before is inside u) *)
Definition edge_at (u : list bool) (p : Z) (k : kind) : Prop :=
  1 <= p < zlen u /\ bit u p = is_rising k /\ bit u (p - 1) = negb (is_rising k).

(* the run-length precondition on positions: after a change at i the level stays for more than m samples *)
Definition wclean (m : Z) (u : list bool) : Prop :=
  forall i j, 1 <= i -> i < j < zlen u -> bit u (i - 1) <> bit u i -> bit u j <> bit u i -> m < j - i.

(* strictly increasing sample numbers *)
Fixpoint inc (l : list ev) : Prop :=
  match l with
  | [] => True
  | e :: t => (forall e', In e' t -> snd e < snd e') /\ inc t
  end.

(* every event of a block lies inside the block's span *)
Definition contained (E : events) : Prop := forall e, In e (evs E) -> e_start E <= snd e < e_end E.
