(* Vocabulary of coq/gen/EdgesCombineGen.v (pipeline.combine_events, regenerated from the source by
   translate/pycombine2coq.py on every run): a function that can raise DIFFERENT exceptions returns `A + exn`
   (inl = returns, inr = raises).  Definitions only; modelled, not verified - the translator's self-test evaluates the
   generated definition (hence these primitives) against the real function on every run. *)
From PV Require Export Edges.TiePrims.

(* IndexError; the two pinned ValueErrors of combine_events ("not aligned", "different sampling rates") *)
Inductive exn := EIndex | EAlign | EFs.

Definition rbind {A B} (r : A + exn) (f : A -> B + exn) : B + exn :=
  match r with inl a => f a | inr e => inr e end.

(* l[i] on a Python list / tuple: negative i counts from the end, out of range raises IndexError *)
Definition py_item {A} (l : list A) (i : Z) : A + exn :=
  match np_index l i with Some a => inl a | None => inr EIndex end.

(* for x in l: acc = body(acc, x), where the body may raise (the loop stops there) *)
Fixpoint fold_res {A S} (f : S -> A -> S + exn) (l : list A) (acc : S) : S + exn :=
  match l with
  | [] => inl acc
  | x :: t => rbind (f acc x) (fold_res f t)
  end.

(* pd.concat(ed.events for ed in l) on a non-empty list: the rows of all frames, in order *)
Definition df_concat (l : list events) : list ev := concat (map evs l).

(* what the harness observes of a call: the merged block, or which exception *)
Definition to_combined (r : events + exn) : combined :=
  match r with inl E => COk E | inr EIndex => CEmpty | inr EAlign => CAlign | inr EFs => CFs end.
