(* C13: block tiling, Events range queries, merging.  (The all-chunkings theorem is in ProofsMain.v.) *)
From Coq Require Import ZArith List Bool Lia ZifyBool.
From PV Require Import Runs.Model Runs.Spec Runs.Proofs Edges.Model Edges.Spec.
Import ListNotations.
Open Scope Z_scope.

(* ------------------------------------------------------------------ *)
(* one block per chunk; the blocks tile the timeline                    *)
(* ------------------------------------------------------------------ *)
Definition clen (c : chunk) : Z := zlen (c_data c).

Lemma step_shape : forall d m st c E st', step d m st c = Some (E, st') ->
  e_start E = st_s0 st /\ e_end E = st_s0 st + clen c /\ e_fs E = st_fs st /\
  st_s0 st' = st_s0 st + clen c /\ st_fs st' = st_fs st /\ st_ann st' = st_ann st.
Proof.
  intros d m st c E st' H. unfold step in H.
  destruct (joinable st c); [|discriminate].
  destruct (step_events d m (st_s0 st) (st_prior st ++ c_data c)); [|discriminate].
  inversion H; subst. cbn. unfold clen. repeat split; reflexivity.
Qed.

Lemma run_from_spans : forall d m cs st bs s, run_from d m st cs = (bs, s) ->
  map span bs = firstn (length bs) (spans (st_s0 st) (map clen cs)) /\
  (length bs <= length cs)%nat /\ (s = Ok -> length bs = length cs) /\
  Forall (fun E => e_fs E = st_fs st) bs.
Proof.
  intros d m. induction cs as [|c t IH]; intros st bs s H.
  - cbn in H. inversion H; subst. cbn. repeat split; auto.
  - cbn [run_from] in H. destruct (step d m st c) as [[E st']|] eqn:Hs.
    + destruct (run_from d m st' t) as [bs' s'] eqn:Hr. inversion H; subst.
      destruct (step_shape _ _ _ _ _ _ Hs) as (H1 & H2 & H3 & H4 & H5 & H6).
      destruct (IH st' bs' s Hr) as (I1 & I2 & I3 & I4).
      cbn [map length firstn spans]. split; [|split; [|split]].
      * unfold span at 1. rewrite H1, H2. f_equal. rewrite I1, H4. reflexivity.
      * lia.
      * intros Hk. rewrite (I3 Hk). reflexivity.
      * constructor; [exact H3|]. rewrite H5 in I4. exact I4.
    + inversion H; subst. cbn. repeat split; auto; try lia. discriminate.
Qed.

Lemma start_s0 : forall m init fs c t, st_s0 (start m init fs c) = first_index (c :: t) - m.
Proof.
  intros m init fs c t. unfold start, first_index. destruct (c_ann c) as [[s f]|]; cbn; lia.
Qed.

(* C13_blocks_tile *)
Lemma blocks_tile : forall d m init fs cs bs s, run_edges d m init fs cs = (bs, s) ->
  map span bs = firstn (length bs) (spans (first_index cs - m) (map clen cs)) /\
  (length bs <= length cs)%nat /\ (s = Ok -> length bs = length cs).
Proof.
  intros d m init fs cs bs s H. unfold run_edges in H.
  destruct (m <? 1).
  - inversion H; subst. cbn. repeat split; auto; try lia. discriminate.
  - destruct cs as [|c t].
    + inversion H; subst. cbn. repeat split; auto.
    + destruct (run_from_spans _ _ _ _ _ _ H) as (H1 & H2 & H3 & _).
      rewrite (start_s0 m init fs c t) in H1. repeat split; assumption.
Qed.

(* the same fact as a chain: every block starts where the previous one ended *)
Fixpoint chain (s : Z) (bs : list events) : Prop :=
  match bs with
  | [] => True
  | E :: t => e_start E = s /\ e_start E <= e_end E /\ chain (e_end E) t
  end.

Lemma spans_chain : forall ns bs s, (forall n, In n ns -> 0 <= n) ->
  map span bs = firstn (length bs) (spans s ns) -> chain s bs.
Proof.
  induction ns as [|n t IH]; intros bs s Hn H.
  - destruct bs; [exact I|]. cbn in H. discriminate.
  - destruct bs as [|E bs]; [exact I|]. cbn [map length firstn spans] in H.
    unfold span at 1 in H. injection H as H1 H2 H3. cbn [chain].
    specialize (Hn n (or_introl eq_refl)) as Hn0.
    split; [exact H1|]. split; [lia|].
    rewrite H2. apply IH; [intros k Hk; apply Hn; right; exact Hk|exact H3].
Qed.

Lemma blocks_chain : forall d m init fs cs bs s, run_edges d m init fs cs = (bs, s) ->
  chain (first_index cs - m) bs.
Proof.
  intros d m init fs cs bs s H. destruct (blocks_tile _ _ _ _ _ _ _ H) as (H1 & _).
  apply (spans_chain (map clen cs)); [|exact H1].
  intros n Hn. apply in_map_iff in Hn. destruct Hn as (c & Hc & _). subst n.
  unfold clen, zlen. lia.
Qed.

(* ------------------------------------------------------------------ *)
(* Events: range queries                                                *)
(* ------------------------------------------------------------------ *)
Lemma in_range_iff : forall a b e, in_range a b e = true <-> a <= snd e < b.
Proof. intros a b e. unfold in_range. lia. Qed.


Definition ev_dec (x y : ev) : {x = y} + {x <> y}.
Proof. decide equality; [apply Z.eq_dec|decide equality]. Defined.

Lemma count_filter : forall (f : ev -> bool) l e,
  count_occ ev_dec (filter f l) e = if f e then count_occ ev_dec l e else 0%nat.
Proof.
  intros f. induction l as [|x t IH]; intros e.
  - cbn. destruct (f e); reflexivity.
  - cbn [filter]. destruct (f x) eqn:Fx.
    + cbn [count_occ]. destruct (ev_dec x e) as [->|Hne].
      * rewrite Fx, IH, Fx. reflexivity.
      * rewrite IH. reflexivity.
    + rewrite IH. cbn [count_occ]. destruct (ev_dec x e) as [->|Hne].
      * rewrite Fx. reflexivity.
      * reflexivity.
Qed.

Lemma range_query : forall E a b,
  match get_range_samples E a b with
  | Some R => e_start E <= a /\ b <= e_end E /\
              e_start R = a /\ e_end R = b /\ e_fs R = e_fs E /\
              evs R = filter (in_range a b) (evs E) /\
              (forall e, In e (evs R) <-> In e (evs E) /\ a <= snd e < b) /\
              (forall e, count_occ ev_dec (evs R) e =
                         if in_range a b e then count_occ ev_dec (evs E) e else 0%nat)
  | None => a < e_start E \/ e_end E < b
  end.
Proof.
  intros E a b. unfold get_range_samples.
  destruct ((a <? e_start E) || (b >? e_end E)) eqn:T.
  - lia.
  - cbn [evs e_start e_end e_fs].
    split; [lia|]. split; [lia|]. split; [reflexivity|]. split; [reflexivity|].
    split; [reflexivity|]. split; [reflexivity|]. split.
    + intros e. rewrite filter_In, in_range_iff. reflexivity.
    + intros e. apply count_filter.
Qed.

Lemma range_accepts : forall E a b, e_start E <= a -> b <= e_end E ->
  get_range_samples E a b =
  Some {| evs := filter (in_range a b) (evs E); e_start := a; e_end := b; e_fs := e_fs E |}.
Proof.
  intros E a b H1 H2. unfold get_range_samples.
  destruct ((a <? e_start E) || (b >? e_end E)) eqn:T; [lia|reflexivity].
Qed.

Lemma latest_is_range : forall E lb ub,
  get_latest_samples E lb ub = get_range_samples E (e_end E + lb) (e_end E + ub).
Proof. intros. unfold get_latest_samples. f_equal; lia. Qed.

(* a range query answers with a block that contains its events *)
Lemma range_contained : forall E a b R, get_range_samples E a b = Some R -> contained R.
Proof.
  intros E a b R H. pose proof (range_query E a b) as Q. rewrite H in Q.
  destruct Q as (_ & _ & Q1 & Q2 & _ & _ & Q3 & _).
  intros e He. rewrite Q1, Q2. apply Q3 in He. apply He.
Qed.

(* querying the whole span of a block whose events lie inside it returns the block *)
Lemma filter_all : forall (f : ev -> bool) l, (forall e, In e l -> f e = true) -> filter f l = l.
Proof.
  intros f. induction l as [|x t IH]; intros H; [reflexivity|].
  cbn. rewrite (H x (or_introl eq_refl)). f_equal. apply IH. intros e He. apply H. right. exact He.
Qed.

Lemma range_whole : forall E, contained E ->
  get_range_samples E (e_start E) (e_end E) = Some E.
Proof.
  intros E HC. rewrite range_accepts by lia. f_equal. destruct E as [l s e f]. cbn in *.
  f_equal. apply filter_all. intros x Hx. apply in_range_iff. apply (HC x Hx).
Qed.

(* ------------------------------------------------------------------ *)
(* merging                                                              *)
(* ------------------------------------------------------------------ *)
Fixpoint adjacent (l : list events) : Prop :=
  match l with
  | E1 :: ((E2 :: _) as t) => e_end E1 = e_start E2 /\ adjacent t
  | _ => True
  end.
Definition same_fs (l : list events) : Prop :=
  match l with [] => True | E0 :: t => Forall (fun E => e_fs E = e_fs E0) t end.

Lemma combine_check_none : forall t fs0 s0,
  combine_check fs0 s0 t = None <->
  (Forall (fun E => e_fs E = fs0) t /\
   match t with [] => True | E :: _ => s0 = e_start E /\ adjacent t end).
Proof.
  induction t as [|E t IH]; intros fs0 s0.
  - cbn. split; auto.
  - cbn [combine_check].
    destruct (e_start E =? s0) eqn:A; cbn [negb].
    + destruct (e_fs E =? fs0) eqn:F; cbn [negb].
      * rewrite IH. split.
        -- intros [H1 H2]. split; [constructor; [lia|exact H1]|]. split; [lia|].
           destruct t as [|E2 t']; [exact I|]. cbn [adjacent]. exact H2.
        -- intros [H1 [H2 H3]]. inversion H1; subst. split; [assumption|].
           destruct t as [|E2 t']; [exact I|]. cbn [adjacent] in H3. exact H3.
      * split; [discriminate|]. intros [H1 _]. inversion H1; subst. lia.
    + split; [discriminate|]. intros [_ [H2 _]]. lia.
Qed.

Fixpoint sum_counts (e : ev) (l : list events) : nat :=
  match l with [] => 0%nat | E :: t => (count_occ ev_dec (evs E) e + sum_counts e t)%nat end.

Lemma count_concat : forall l e, count_occ ev_dec (concat (map evs l)) e = sum_counts e l.
Proof.
  induction l as [|E t IH]; intros e; [reflexivity|].
  cbn [map concat sum_counts]. rewrite count_occ_app, IH. reflexivity.
Qed.

(* C13_combine: merging succeeds exactly on a non-empty list of adjacent blocks with one rate, and
   then the result spans first start .. last end and its events are the concatenation (each event
   occurs as often as in all the blocks together: nothing lost, nothing duplicated) *)
Lemma combine_ok : forall l,
  (l <> [] /\ adjacent l /\ same_fs l) <->
  exists E, combine_events l = COk E.
Proof.
  intros l. destruct l as [|E0 t].
  - cbn. split; [intros [H _]; congruence|intros [E H]; discriminate].
  - cbn [combine_events same_fs].
    destruct (combine_check (e_fs E0) (e_end E0) t) as [c|] eqn:C.
    + split.
      * intros (_ & A & F). exfalso.
        assert (combine_check (e_fs E0) (e_end E0) t = None) as K; [|congruence].
        apply combine_check_none. split; [exact F|].
        destruct t as [|E2 t']; [exact I|]. cbn [adjacent] in A. exact A.
      * intros [E H]. exfalso.
        assert (exists fs s, combine_check fs s t = Some c /\ c = COk E) as K
            by (exists (e_fs E0), (e_end E0); split; [exact C|exact H]).
        clear - K. destruct K as (fs & s & K1 & K2). subst c. revert fs s K1.
        induction t as [|E1 t IH]; intros fs s K; [discriminate|].
        cbn [combine_check] in K.
        destruct (negb (e_start E1 =? s)); [discriminate|].
        destruct (negb (e_fs E1 =? fs)); [discriminate|]. eapply IH. exact K.
    + apply combine_check_none in C. destruct C as [C1 C2]. split.
      * intros _. eexists. reflexivity.
      * intros _. split; [discriminate|]. split; [|exact C1].
        destruct t as [|E2 t']; [exact I|]. cbn [adjacent]. exact C2.
Qed.

Lemma last_indep : forall (l : list events) x d1 d2, last (x :: l) d1 = last (x :: l) d2.
Proof.
  induction l as [|y l IH]; intros x d1 d2; [reflexivity|].
  change (last (x :: y :: l) d1) with (last (y :: l) d1).
  change (last (x :: y :: l) d2) with (last (y :: l) d2). apply IH.
Qed.

Lemma combine_result : forall l E, combine_events l = COk E ->
  evs E = concat (map evs l) /\
  (forall e, count_occ ev_dec (evs E) e = sum_counts e l) /\
  (forall e, In e (evs E) <-> exists B, In B l /\ In e (evs B)) /\
  e_start E = e_start (hd E l) /\ e_end E = e_end (last l E) /\ e_fs E = e_fs (hd E l).
Proof.
  intros l E H. destruct l as [|E0 t]; [discriminate|].
  cbn [combine_events] in H.
  destruct (combine_check (e_fs E0) (e_end E0) t) as [c|] eqn:C.
  - subst c. exfalso. clear - C. revert C. generalize (e_fs E0), (e_end E0).
    induction t as [|E1 t IH]; intros fs s K; [discriminate|].
    cbn [combine_check] in K.
    destruct (negb (e_start E1 =? s)); [discriminate|].
    destruct (negb (e_fs E1 =? fs)); [discriminate|]. eapply IH. exact K.
  - inversion H; subst E; clear H. cbn [evs e_start e_end e_fs hd].
    split; [reflexivity|]. split; [intros e; exact (count_concat (E0 :: t) e)|]. split; [|split; [reflexivity|split; [|reflexivity]]].
    + intros e. change (evs E0 ++ concat (map evs t)) with (concat (map evs (E0 :: t))). rewrite in_concat. split.
      * intros (x & Hx & He). apply in_map_iff in Hx. destruct Hx as (B & <- & HB). exists B. split; assumption.
      * intros (B & HB & He). exists (evs B). split; [apply in_map; exact HB|exact He].
    + unfold last_end. destruct t as [|E1 t']; [reflexivity|].
      change (last (E0 :: E1 :: t') ?d) with (last (E1 :: t') d).
      f_equal. apply last_indep.
Qed.

(* merged adjacent blocks whose events lie inside their spans: the span query on the merged block
   gives each block back *)
Lemma chain_adjacent : forall bs s, chain s bs -> adjacent bs.
Proof.
  induction bs as [|E t IH]; intros s H; [exact I|].
  destruct t as [|E2 t']; [exact I|]. cbn [chain] in H. destruct H as (_ & _ & H2).
  cbn [adjacent]. split; [symmetry; apply H2|]. apply (IH (e_end E)). exact H2.
Qed.

(* the blocks emitted by edges can always be merged *)
Lemma edges_blocks_combine : forall d m init fs cs bs s, run_edges d m init fs cs = (bs, s) ->
  bs <> [] -> exists E, combine_events bs = COk E /\ evs E = concat (map evs bs).
Proof.
  intros d m init fs cs bs s H Hne.
  assert (A : adjacent bs) by (eapply chain_adjacent; eapply blocks_chain; exact H).
  assert (F : same_fs bs).
  { unfold run_edges in H. destruct (m <? 1); [inversion H; subst; congruence|].
    destruct cs as [|c t]; [inversion H; subst; congruence|].
    destruct (run_from_spans _ _ _ _ _ _ H) as (_ & _ & _ & F).
    destruct bs as [|E0 bt]; [exact I|]. cbn [same_fs]. inversion F; subst.
    eapply Forall_impl; [|exact H3]. cbn. intros a Ha. congruence. }
  destruct (proj1 (combine_ok bs) (conj Hne (conj A F))) as [E HE].
  exists E. split; [exact HE|]. apply (combine_result _ _ HE).
Qed.
