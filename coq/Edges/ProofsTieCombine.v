(* TRANSLATOR TIE for C13, second part: pipeline.combine_events.  coq/gen/EdgesCombineGen.v is regenerated from
   psiaudio/pipeline.py on every run by translate/pycombine2coq.py (vocabulary: Edges/TiePrimsCombine.v; a function that
   raises different exceptions has type `events + exn`).  Here the generated definition is proved EQUAL to
   Edges/Model.combine_events - for EVERY list of blocks, no hypothesis: the merged block (events of all blocks in order,
   start of the first, end of the last, rate of the first) or the same exception (IndexError on the empty list, the
   "not aligned" / "different sampling rates" ValueErrors, whichever the loop meets first).
   Stdlib only; everything is closed under the global context. *)
From Coq Require Import ZArith List Bool Lia ZifyBool.
From PV Require Import Runs.Model Runs.Proofs Runs.NumpyPrims Runs.ProofsTie.
From PV Require Import Edges.Model Edges.Spec Edges.ProofsBasic Edges.ProofsMain Edges.TiePrims Edges.TiePrimsCombine.
From PV Require Import gen.EdgesGen Edges.ProofsTie gen.EdgesCombineGen.
Import ListNotations.
Open Scope Z_scope.

(* ------------------------------------------------------------------ *)
(* the primitives on concrete shapes                                   *)
(* ------------------------------------------------------------------ *)
Lemma py_item_nil : forall A i, @py_item A [] i = inr EIndex.
Proof.
  intros A i. unfold py_item, np_index. change (zlen (@nil A)) with 0.
  destruct ((0 <=? i) && (i <? 0)) eqn:E1; [lia|]. destruct ((- 0 <=? i) && (i <? 0)) eqn:E2; [lia|]. reflexivity.
Qed.

Lemma py_item_0 : forall A (a : A) l, py_item (a :: l) 0 = inl a.
Proof. intros A a l. unfold py_item. rewrite np_index_0. reflexivity. Qed.

Lemma last_cons_gen : forall A (l : list A) a b, last (b :: l) a = last l b.
Proof.
  induction l as [|c l IH]; intros a b; [reflexivity|].
  change (last (b :: c :: l) a) with (last (c :: l) a). rewrite (IH a c), (IH b c). reflexivity.
Qed.

Lemma nth_error_last_gen : forall A (l : list A) a, nth_error (a :: l) (length l) = Some (last l a).
Proof.
  induction l as [|b l IH]; intros a; [reflexivity|].
  change (nth_error (a :: b :: l) (length (b :: l))) with (nth_error (b :: l) (length l)). rewrite IH, last_cons_gen.
  reflexivity.
Qed.

Lemma py_item_m1 : forall A (a : A) l, py_item (a :: l) (-1) = inl (last l a).
Proof.
  intros A a l. unfold py_item, np_index. rewrite zlen_cons. pose proof (zlen_nonneg _ l).
  replace ((0 <=? -1) && (-1 <? 1 + zlen l)) with false by lia.
  replace ((- (1 + zlen l) <=? -1) && (-1 <? 0)) with true by lia.
  replace (Z.to_nat (1 + zlen l + -1)) with (length l) by (unfold zlen; lia).
  rewrite nth_error_last_gen. reflexivity.
Qed.

Lemma py_slice_1 : forall A (a : A) l, py_slice (Some 1) None (a :: l) = l.
Proof.
  intros A a l. unfold py_slice, py_lo, py_hi, adj_bound. rewrite zlen_cons. pose proof (zlen_nonneg _ l).
  change (1 <? 0) with false. cbv iota. replace (Z.min 1 (1 + zlen l)) with 1 by lia.
  change (Z.to_nat 1) with 1%nat. cbn [skipn]. apply firstn_all2. unfold zlen. lia.
Qed.

(* ------------------------------------------------------------------ *)
(* the checking loop                                                   *)
(* ------------------------------------------------------------------ *)
Lemma for1_combine_tie : forall E0 L t s0,
  match fold_res (gen_combine_events_for1 (E0 :: L)) t s0 with
  | inl _ => combine_check (e_fs E0) s0 t = None
  | inr e => combine_check (e_fs E0) s0 t = Some (to_combined (inr e))
  end.
Proof.
  intros E0 L. induction t as [|E1 t IH]; intros s0; [reflexivity|].
  cbn [fold_res combine_check]. unfold gen_combine_events_for1 at 1.
  destruct (negb (e_start E1 =? s0)); [reflexivity|].
  cbv zeta. rewrite py_item_0. cbn [rbind].
  destruct (negb (e_fs E1 =? e_fs E0)); [reflexivity|]. cbn [rbind]. apply IH.
Qed.

(* ------------------------------------------------------------------ *)
(* TIE: generated combine_events = model combine_events                *)
(* ------------------------------------------------------------------ *)
Theorem combine_tie : forall l, to_combined (gen_combine_events l) = combine_events l.
Proof.
  intros [|E0 t]; unfold gen_combine_events.
  - rewrite py_item_nil. reflexivity.
  - rewrite py_item_0, py_item_m1, py_slice_1. cbn [rbind]. cbv zeta.
    pose proof (for1_combine_tie E0 t t (e_end E0)) as H. cbn [combine_events].
    destruct (fold_res (gen_combine_events_for1 (E0 :: t)) t (e_end E0)) as [s|e]; rewrite H; [|destruct e; reflexivity].
    cbn [rbind to_combined]. reflexivity.
Qed.

Lemma to_combined_ok : forall r E, to_combined r = COk E <-> r = inl E.
Proof.
  intros [E'|[]] E; cbn; split; intros H; try discriminate; inversion H; reflexivity.
Qed.

(* ------------------------------------------------------------------ *)
(* the C13 merging theorems, transported to the generated definition   *)
(* ------------------------------------------------------------------ *)
Theorem source_combine : forall l,
  ((l <> [] /\ adjacent l /\ same_fs l) <-> exists E, gen_combine_events l = inl E) /\
  (l = [] <-> gen_combine_events l = inr EIndex).
Proof.
  intros l. split.
  - rewrite combine_ok. split; intros [E H]; exists E.
    + apply to_combined_ok. rewrite combine_tie. exact H.
    + rewrite <- combine_tie, H. reflexivity.
  - split.
    + intros ->. reflexivity.
    + intros H. pose proof (combine_tie l) as T. rewrite H in T. cbn in T.
      destruct l as [|E0 t]; [reflexivity|]. cbn [combine_events] in T.
      destruct (combine_check (e_fs E0) (e_end E0) t) as [c|] eqn:C; [|discriminate]. subst c. exfalso.
      clear - C. revert C. generalize (e_fs E0), (e_end E0).
      induction t as [|E1 t IH]; intros fs s K; [discriminate|]. cbn [combine_check] in K.
      destruct (negb (e_start E1 =? s)); [discriminate|]. destruct (negb (e_fs E1 =? fs)); [discriminate|]. eapply IH. exact K.
Qed.

Theorem source_combine_result : forall l E, gen_combine_events l = inl E ->
  evs E = concat (map evs l) /\
  (forall e, count_occ ev_dec (evs E) e = sum_counts e l) /\
  (forall e, In e (evs E) <-> exists B, In B l /\ In e (evs B)) /\
  e_start E = e_start (hd E l) /\ e_end E = e_end (last l E) /\ e_fs E = e_fs (hd E l).
Proof. intros l E H. apply combine_result. rewrite <- combine_tie, H. reflexivity. Qed.

(* the blocks the GENERATED edges coroutine emits are always merged by the GENERATED combine_events *)
Theorem source_edges_blocks_combine : forall fuel d m init fs cs bs s, enough fuel m cs ->
  source_run_edges fuel d m init fs cs = (bs, s) -> bs <> [] ->
  exists E, gen_combine_events bs = inl E /\ evs E = concat (map evs bs).
Proof.
  intros fuel d m init fs cs bs s Hf H Hne. rewrite run_edges_tie in H by exact Hf.
  destruct (edges_blocks_combine _ _ _ _ _ _ _ H Hne) as (E & HE & Hev).
  exists E. split; [|exact Hev]. apply to_combined_ok. rewrite combine_tie. exact HE.
Qed.

(* non-vacuity; and the three ways to fail *)
Example tie_ex_combine :
  let B1 := {| evs := [(Rising, 3)]; e_start := 0; e_end := 5; e_fs := 1000 |} in
  let B2 := {| evs := [(Falling, 6)]; e_start := 5; e_end := 9; e_fs := 1000 |} in
  ([B1; B2] <> [] /\ adjacent [B1; B2] /\ same_fs [B1; B2]) /\
  gen_combine_events [B1; B2] = inl {| evs := [(Rising, 3); (Falling, 6)]; e_start := 0; e_end := 9; e_fs := 1000 |} /\
  gen_combine_events [] = inr EIndex /\
  gen_combine_events [B2; B1] = inr EAlign /\
  gen_combine_events [B1; {| evs := []; e_start := 5; e_end := 9; e_fs := 25 |}] = inr EFs.
Proof. cbn zeta. split; [split; [discriminate|split; cbn; auto]|]. repeat split; vm_compute; reflexivity. Qed.
