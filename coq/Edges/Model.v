(* Model of psiaudio.pipeline: the `edges` coroutine, the `Events` container
   (get_range_samples, get_latest_samples) and `combine_events`.
   Run detection / debouncing are the C18 models (Runs/Model.v): util.epochs, util.debounce_epochs.
   Definitions only; proofs in Edges/Proofs*.v.

   Python (pipeline.edges)                                   model
   --------------------------------------------------------  -----------------------------------------
   if min_samples < 1: raise ValueError                      run_edges: m < 1 -> ([], Err)
   prior_samples = np.tile(initial_state, min_samples)       start: st_prior = repeat init m
   PipelineData first chunk: s0 = new.s0 - m, fs = new.fs    start, annotated chunk (c_ann = Some (s0, fs))
   plain first chunk:        s0 = -m, fs = fs argument       start, plain chunk     (c_ann = None)
   samples = concat((prior_samples, new_samples))            joinable (mixed plain/annotated, different fs,
                                                             new.s0 <> prior.s0 + len(prior): ValueError) ; ++
   epochs = debounce_epochs(epochs(samples), min_samples)    debounce_model m (epochs_model w)
   for lb, ub in epochs:                                     step_events (flat_map, in epoch order)
     if detect in ('rising','both') and lb > 0: rising  lb+s0
     if detect in ('falling','both') and ub < len: falling ub+s0
   Events(events, s0, s0 + n_samples, fs)                    block: e_start = s0, e_end = s0 + n
   s0 += n ; prior_samples = samples[..., -min_samples:]     py_slice (Some (-m)) None w
   an exception kills the coroutine                          run_from stops: (blocks so far, Err)  *)
From PV Require Export Common.PySlice Runs.Model.

Inductive kind := Rising | Falling.
Inductive detect := DRising | DFalling | DBoth | DOther.   (* DOther: any other string: nothing is reported *)
Definition ev := (kind * Z)%type.

(* pipeline.Events: .events (name, sample) in row order, .start, .end, .fs
   (fs is an integer-valued rate here; the column ts = sample / fs is checked by the harness) *)
Record events := { evs : list ev; e_start : Z; e_end : Z; e_fs : Z }.

(* one input chunk: c_ann = Some (s0, fs) for PipelineData, None for a plain ndarray *)
Record chunk := { c_ann : option (Z * Z); c_data : list bool }.

Record estate := { st_prior : list bool; st_s0 : Z; st_fs : Z; st_ann : bool }.

Inductive status := Ok | Err.

Definition rising_on (d : detect) : bool := match d with DRising | DBoth => true | _ => false end.
Definition falling_on (d : detect) : bool := match d with DFalling | DBoth => true | _ => false end.

(* the body of the `for lb, ub in epochs` loop for one epoch *)
Definition epoch_events (d : detect) (s0 len : Z) (p : Z * Z) : list ev :=
  (if rising_on d && (fst p >? 0) then [(Rising, fst p + s0)] else []) ++
  (if falling_on d && (snd p <? len) then [(Falling, snd p + s0)] else []).

(* events reported for the joined array w (None: util.epochs would raise) *)
Definition step_events (d : detect) (m s0 : Z) (w : list bool) : option (list ev) :=
  match epochs_model w with
  | None => None
  | Some ep => Some (flat_map (epoch_events d s0 (zlen w)) (debounce_model m ep))
  end.

Definition start (m : Z) (init : bool) (fs_arg : Z) (c : chunk) : estate :=
  match c_ann c with
  | Some (cs0, cfs) =>
    {| st_prior := repeat init (Z.to_nat m); st_s0 := cs0 - m; st_fs := cfs; st_ann := true |}
  | None =>
    {| st_prior := repeat init (Z.to_nat m); st_s0 := - m; st_fs := fs_arg; st_ann := false |}
  end.

(* pipeline.concat((prior_samples, new_samples)) succeeds *)
Definition joinable (st : estate) (c : chunk) : bool :=
  match c_ann c with
  | Some (cs0, cfs) => st_ann st && (cfs =? st_fs st) && (cs0 =? st_s0 st + zlen (st_prior st))
  | None => negb (st_ann st)
  end.

Definition step (d : detect) (m : Z) (st : estate) (c : chunk) : option (events * estate) :=
  if joinable st c then
    let w := st_prior st ++ c_data c in
    let n := zlen (c_data c) in
    match step_events d m (st_s0 st) w with
    | Some e =>
      Some ({| evs := e; e_start := st_s0 st; e_end := st_s0 st + n; e_fs := st_fs st |},
            {| st_prior := py_slice (Some (- m)) None w; st_s0 := st_s0 st + n;
               st_fs := st_fs st; st_ann := st_ann st |})
    | None => None
    end
  else None.

Fixpoint run_from (d : detect) (m : Z) (st : estate) (cs : list chunk) : list events * status :=
  match cs with
  | [] => ([], Ok)
  | c :: t =>
    match step d m st c with
    | None => ([], Err)
    | Some (e, st') => let '(bs, s) := run_from d m st' t in (e :: bs, s)
    end
  end.

(* everything the target receives when the chunks cs are sent to edges(m, target, init, fs_arg, d) *)
Definition run_edges (d : detect) (m : Z) (init : bool) (fs_arg : Z) (cs : list chunk)
  : list events * status :=
  if m <? 1 then ([], Err)
  else match cs with
       | [] => ([], Ok)
       | c :: _ => run_from d m (start m init fs_arg c) cs
       end.

(* ---------- Events ---------- *)
Definition in_range (a b : Z) (e : ev) : bool := (a <=? snd e) && (snd e <? b).

(* Events.get_range_samples(start, end): None = ValueError('Invalid range') *)
Definition get_range_samples (E : events) (a b : Z) : option events :=
  if (a <? e_start E) || (b >? e_end E) then None
  else Some {| evs := filter (in_range a b) (evs E); e_start := a; e_end := b; e_fs := e_fs E |}.

(* Events.get_latest_samples(lb, ub) *)
Definition get_latest_samples (E : events) (lb ub : Z) : option events :=
  get_range_samples E (lb + e_end E) (ub + e_end E).

Inductive combined := COk (E : events) | CEmpty | CAlign | CFs.

(* the checking loop of combine_events: s0 = running end *)
Fixpoint combine_check (fs0 s0 : Z) (l : list events) : option combined :=
  match l with
  | [] => None
  | E :: t =>
    if negb (e_start E =? s0) then Some CAlign
    else if negb (e_fs E =? fs0) then Some CFs
    else combine_check fs0 (e_end E) t
  end.

Definition last_end (E0 : events) (l : list events) : Z := e_end (last l E0).

Definition combine_events (l : list events) : combined :=
  match l with
  | [] => CEmpty                                    (* events[0]: IndexError *)
  | E0 :: t =>
    match combine_check (e_fs E0) (e_end E0) t with
    | Some err => err
    | None => COk {| evs := concat (map evs l); e_start := e_start E0;
                     e_end := last_end E0 t; e_fs := e_fs E0 |}
    end
  end.

(* ---------- checks used by the generated correspondence files ---------- *)
(* literals: an event is (1, sample) for rising, (0, sample) for falling;
   a block is (events, (start, (end, fs))); a chunk is (annotation, data) *)
Definition kind_code (k : kind) : Z := match k with Rising => 1 | Falling => 0 end.
Definition enc_ev (e : ev) : Z * Z := (kind_code (fst e), snd e).
Definition dec_ev (p : Z * Z) : ev := (if fst p =? 1 then Rising else Falling, snd p).
Definition blocklit := (list (Z * Z) * (Z * (Z * Z)))%type.
Definition enc_block (E : events) : blocklit := (map enc_ev (evs E), (e_start E, (e_end E, e_fs E))).
Definition dec_block (b : blocklit) : events :=
  {| evs := map dec_ev (fst b); e_start := fst (snd b); e_end := fst (snd (snd b)); e_fs := snd (snd (snd b)) |}.
Definition eqb_block (a b : blocklit) : bool :=
  eqb_list eqb_pairZ (fst a) (fst b) && (fst (snd a) =? fst (snd b)) &&
  (fst (snd (snd a)) =? fst (snd (snd b))) && (snd (snd (snd a)) =? snd (snd (snd b))).
Definition mk_chunk (p : option (Z * Z) * list bool) : chunk := {| c_ann := fst p; c_data := snd p |}.
Definition detect_of (z : Z) : detect :=
  if z =? 0 then DRising else if z =? 1 then DFalling else if z =? 2 then DBoth else DOther.

Definition check_edges (d m : Z) (init : bool) (fs_arg : Z) (cs : list (option (Z * Z) * list bool))
           (got : list blocklit) (got_ok : bool) : bool :=
  let '(bs, s) := run_edges (detect_of d) m init fs_arg (map mk_chunk cs) in
  eqb_list eqb_block (map enc_block bs) got &&
  Bool.eqb (match s with Ok => true | Err => false end) got_ok.

Definition eqb_optblock (a b : option blocklit) : bool := eqb_option eqb_block a b.
Definition check_range (E : blocklit) (a b : Z) (got : option blocklit) : bool :=
  eqb_optblock (option_map enc_block (get_range_samples (dec_block E) a b)) got.
Definition check_latest (E : blocklit) (lb ub : Z) (got : option blocklit) : bool :=
  eqb_optblock (option_map enc_block (get_latest_samples (dec_block E) lb ub)) got.
(* got: (code, block) with code 0 = ok, 1 = IndexError (empty), 2 = misaligned, 3 = different fs *)
Definition check_combine (l : list blocklit) (code : Z) (got : option blocklit) : bool :=
  match combine_events (map dec_block l), got with
  | COk E, Some g => (code =? 0) && eqb_block (enc_block E) g
  | CEmpty, None => code =? 1
  | CAlign, None => code =? 2
  | CFs, None => code =? 3
  | _, _ => false
  end.
