(* TRANSLATOR TIE for C13.  coq/gen/EdgesGen.v is regenerated from psiaudio/pipeline.py on every run by
   translate/pyedges2coq.py: the coroutine `edges` as gen_edges_setup / gen_edges_start / gen_edges_step (statement by
   statement, in the vocabulary of Edges/TiePrims.v; util.epochs / util.debounce_epochs are the definitions of
   gen/RunsGen.v, tied to Runs/Model.v by Runs/ProofsTie.v), and Events.get_range_samples / get_latest_samples.
   Here the generated definitions are proved EQUAL to the hand-written model of Edges/Model.v the C13 theorems are about:
   the step for every chunk and every state satisfying `wf_tie` (an annotated state carries exactly m >= 1 samples - what
   every reachable state does), for every fuel above the length of the joined array; the queries for all arguments.
   With that the theorems of Edges/Proofs*.v are theorems about what the source says now.
   Stdlib only; everything is closed under the global context. *)
From Coq Require Import ZArith List Bool Lia ZifyBool.
From PV Require Import Runs.Model Runs.Spec Runs.Proofs Runs.NumpyPrims Runs.ProofsTie gen.RunsGen.
From PV Require Import Edges.Model Edges.Spec Edges.ProofsBasic Edges.ProofsMain Edges.TiePrims gen.EdgesGen.
Import ListNotations.
Open Scope Z_scope.

(* ------------------------------------------------------------------ *)
(* states                                                              *)
(* ------------------------------------------------------------------ *)
(* a model state read as the locals (prior_samples, s0, fs) of the suspended coroutine: the carried samples are a
   PipelineData with s0 = the local s0 and fs = the local fs exactly when the input is annotated *)
Definition rep (st : estate) : gen_edges_state :=
  (mk_arr (st_prior st) (if st_ann st then Some (st_s0 st, st_fs st) else None), st_s0 st, st_fs st).

(* the invariant the equality needs: an ANNOTATED state carries exactly m >= 1 samples (then the s0 that
   PipelineData.__getitem__ gives samples[..., -m:] is the local s0 + n) *)
Definition wf_tie (m : Z) (st : estate) : Prop := st_ann st = true -> 1 <= m /\ zlen (st_prior st) = m.
(* what every reachable state satisfies (and a step preserves) *)
Definition wf_full (m : Z) (st : estate) : Prop := 1 <= m /\ zlen (st_prior st) = m.

Lemma wf_full_tie : forall m st, wf_full m st -> wf_tie m st.
Proof. intros m st H _. exact H. Qed.

Lemma rep_inj : forall a b, rep a = rep b -> st_ann a = st_ann b -> a = b.
Proof.
  intros [p1 s1 f1 a1] [p2 s2 f2 a2] H Ha. unfold rep, mk_arr in H. cbn in *. inversion H; subst. reflexivity.
Qed.

(* ------------------------------------------------------------------ *)
(* set-up and first chunk                                              *)
(* ------------------------------------------------------------------ *)
Theorem setup_tie : forall m, gen_edges_setup m = if m <? 1 then None else Some tt.
Proof. reflexivity. Qed.

Theorem start_tie : forall m init fs c, gen_edges_start m init fs c = rep (start m init fs c).
Proof.
  intros m init fs c. unfold gen_edges_start, start, rep. destruct (c_ann c) as [[s f]|]; reflexivity.
Qed.

Lemma zlen_repeat_nat : forall (v : bool) m, 0 <= m -> zlen (repeat v (Z.to_nat m)) = m.
Proof. intros v m H. unfold zlen. rewrite repeat_length. lia. Qed.

Lemma wf_start : forall m init fs c, 1 <= m -> wf_full m (start m init fs c).
Proof.
  intros m init fs c H. split; [exact H|]. unfold start.
  destruct (c_ann c) as [[s f]|]; cbn [st_prior]; apply zlen_repeat_nat; lia.
Qed.

(* ------------------------------------------------------------------ *)
(* the pieces of one step                                              *)
(* ------------------------------------------------------------------ *)
(* pipeline.concat((prior_samples, new_samples)) succeeds exactly when the model's `joinable` holds *)
Lemma concat_tie : forall st c,
  pd_concat (fst (fst (rep st))) c =
  if joinable st c
  then Some (mk_arr (st_prior st ++ c_data c) (if st_ann st then Some (st_s0 st, st_fs st) else None))
  else None.
Proof.
  intros st c. unfold rep, pd_concat, joinable, arr_len, mk_arr. cbn [fst c_ann c_data].
  destruct (st_ann st); destruct (c_ann c) as [[cs0 cfs]|]; cbn [andb negb]; try reflexivity.
  destruct (cfs =? st_fs st); cbn [andb negb]; [|reflexivity].
  destruct (cs0 =? st_s0 st + zlen (st_prior st)); reflexivity.
Qed.

Lemma str_in_rising : forall d, str_in d [DRising; DBoth] = rising_on d.
Proof. intros []; reflexivity. Qed.
Lemma str_in_falling : forall d, str_in d [DFalling; DBoth] = falling_on d.
Proof. intros []; reflexivity. Qed.

(* the body of `for lb, ub in epochs` appends the model's epoch_events *)
Lemma for1_tie : forall d s0 w acc p,
  gen_edges_for1 d s0 w acc p = acc ++ epoch_events d s0 (zlen (c_data w)) p.
Proof.
  intros d s0 w acc [lb ub]. unfold gen_edges_for1, epoch_events, py_append, arr_len. cbn [fst snd].
  rewrite str_in_rising, str_in_falling.
  destruct (rising_on d && (lb >? 0)); destruct (falling_on d && (ub <? zlen (c_data w)));
    rewrite <- ?app_assoc, ?app_nil_r; reflexivity.
Qed.

Lemma fold_for1_tie : forall d s0 w l acc,
  fold_left (gen_edges_for1 d s0 w) l acc = acc ++ flat_map (epoch_events d s0 (zlen (c_data w))) l.
Proof.
  intros d s0 w. induction l as [|p l IH]; intros acc; cbn [fold_left flat_map].
  - rewrite app_nil_r. reflexivity.
  - rewrite IH, for1_tie, <- app_assoc. reflexivity.
Qed.

Lemma runs_length : forall w, (length (runs w) <= length w)%nat.
Proof. intros w. pose proof (runs_aux_length w 0 None) as H. cbv beta iota in H. unfold runs. lia. Qed.

(* util.debounce_epochs(util.epochs(samples), min_samples) over the generated definitions of gen/RunsGen.v *)
Lemma events_tie : forall fuel m w, (length w < fuel)%nat ->
  bind (gen_epochs w) (fun r => gen_debounce_epochs fuel r m) = Some (debounce_model m (runs w)) /\
  epochs_model w = Some (runs w).
Proof.
  intros fuel m w Hf. rewrite gen_epochs_tie, epochs_are_runs. split; [|reflexivity]. cbn [bind].
  apply gen_debounce_epochs_tie. pose proof (runs_length w). lia.
Qed.

(* samples[..., -m:] of the joined array of a well-formed state *)
Lemma from_tie : forall m st c, wf_tie m st ->
  pd_from (- m) (mk_arr (st_prior st ++ c_data c) (if st_ann st then Some (st_s0 st, st_fs st) else None)) =
  mk_arr (py_slice (Some (- m)) None (st_prior st ++ c_data c))
         (if st_ann st then Some (st_s0 st + zlen (c_data c), st_fs st) else None).
Proof.
  intros m st c Hwf. unfold wf_tie in Hwf. unfold pd_from, mk_arr, arr_len. cbn [c_data c_ann]. f_equal.
  destruct (st_ann st); [|reflexivity]. destruct (Hwf eq_refl) as [Hm Hl].
  rewrite zlen_app. pose proof (zlen_nonneg _ (c_data c)).
  destruct (- m >? 0) eqn:E1; [lia|]. destruct (- m <? 0) eqn:E2; [|lia]. do 2 f_equal. lia.
Qed.

(* ------------------------------------------------------------------ *)
(* TIE: generated step = model step                                    *)
(* ------------------------------------------------------------------ *)
Theorem step_tie : forall fuel d m st c, wf_tie m st -> (length (st_prior st ++ c_data c) < fuel)%nat ->
  gen_edges_step fuel m d (rep st) c = option_map (fun r => (fst r, rep (snd r))) (step d m st c).
Proof.
  intros fuel d m st c Hwf Hf. unfold gen_edges_step.
  pose proof (concat_tie st c) as Hc. unfold rep in *. cbn [fst] in Hc. rewrite Hc. clear Hc.
  unfold step. destruct (joinable st c); [|reflexivity]. cbn [bind].
  unfold step_events. set (w := st_prior st ++ c_data c) in *.
  unfold mk_arr at 1. cbn [c_data].
  destruct (events_tie fuel m w Hf) as [H1 H2]. rewrite H2.
  rewrite gen_epochs_tie, epochs_are_runs in *. cbn [bind] in *. rewrite H1. cbn [bind option_map fst snd].
  rewrite fold_for1_tie. cbn [app]. unfold mk_arr at 1. cbn [c_data]. fold w.
  subst w. rewrite (from_tie m st c Hwf). unfold arr_len, mk_events. cbn [st_prior st_s0 st_fs st_ann]. reflexivity.
Qed.

(* a step keeps the full invariant *)
Lemma wf_step : forall d m st c E st', wf_full m st -> step d m st c = Some (E, st') -> wf_full m st'.
Proof.
  intros d m st c E st' [Hm Hl] H. split; [exact Hm|]. unfold step in H.
  destruct (joinable st c); [|discriminate].
  destruct (step_events d m (st_s0 st) (st_prior st ++ c_data c)); [|discriminate].
  inversion H; subst. cbn [st_prior]. pose proof (zlen_nonneg _ (c_data c)).
  rewrite py_tail by (rewrite zlen_app; lia). unfold zlen in *. rewrite skipn_length, app_length in *. lia.
Qed.

(* the hypothesis is needed: an annotated state carrying fewer than m samples (not reachable) *)
Theorem step_tie_refuted : exists fuel d m st c,
  (length (st_prior st ++ c_data c) < fuel)%nat /\ ~ wf_tie m st /\
  gen_edges_step fuel m d (rep st) c <> option_map (fun r => (fst r, rep (snd r))) (step d m st c).
Proof.
  exists 5%nat, DBoth, 2, {| st_prior := [false]; st_s0 := 0; st_fs := 1000; st_ann := true |},
         {| c_ann := Some (1, 1000); c_data := [true] |}.
  split; [cbn; lia|]. split.
  - intros H. destruct (H eq_refl) as [_ Hl]. vm_compute in Hl. discriminate.
  - vm_compute. discriminate.
Qed.

(* the fuel hypothesis is needed as well: the loops of smooth_epochs run out *)
Theorem step_tie_fuel_refuted : exists fuel d m st c,
  wf_full m st /\ (length (st_prior st ++ c_data c) <= fuel + 1)%nat /\
  gen_edges_step fuel m d (rep st) c <> option_map (fun r => (fst r, rep (snd r))) (step d m st c).
Proof.
  exists 1%nat, DBoth, 1, {| st_prior := [false]; st_s0 := -1; st_fs := 1000; st_ann := false |},
         {| c_ann := None; c_data := [true] |}.
  split; [split; [lia|reflexivity]|]. split; [cbn; lia|]. vm_compute. discriminate.
Qed.

(* ------------------------------------------------------------------ *)
(* the whole coroutine: set-up, first chunk, one step per send          *)
(* ------------------------------------------------------------------ *)
(* sends to a started coroutine; an exception kills it *)
Fixpoint source_run_from (fuel : nat) (d : detect) (m : Z) (g : gen_edges_state) (cs : list chunk) : list events * status :=
  match cs with
  | [] => ([], Ok)
  | c :: t =>
    match gen_edges_step fuel m d g c with
    | None => ([], Err)
    | Some (E, g') => let '(bs, s) := source_run_from fuel d m g' t in (E :: bs, s)
    end
  end.

(* edges(m, target, init, fs_arg, d) created, then the chunks sent: everything the target receives *)
Definition source_run_edges (fuel : nat) (d : detect) (m : Z) (init : bool) (fs_arg : Z) (cs : list chunk)
  : list events * status :=
  match gen_edges_setup m with
  | None => ([], Err)
  | Some _ => match cs with
              | [] => ([], Ok)
              | c :: _ => source_run_from fuel d m (gen_edges_start m init fs_arg c) cs
              end
  end.

Lemma stream_length_cons : forall c t, length (stream (c :: t)) = (length (c_data c) + length (stream t))%nat.
Proof. intros. rewrite stream_cons, app_length. reflexivity. Qed.

Theorem run_from_tie : forall fuel d m cs st, wf_full m st -> (Z.to_nat m + length (stream cs) < fuel)%nat ->
  source_run_from fuel d m (rep st) cs = run_from d m st cs.
Proof.
  intros fuel d m. induction cs as [|c t IH]; intros st Hwf Hf; [reflexivity|].
  cbn [source_run_from run_from]. rewrite stream_length_cons in Hf.
  rewrite step_tie; [|apply wf_full_tie; exact Hwf|].
  - destruct (step d m st c) as [[E st']|] eqn:Hs; cbn [option_map fst snd]; [|reflexivity].
    rewrite IH; [reflexivity|exact (wf_step _ _ _ _ _ _ Hwf Hs)|lia].
  - destruct Hwf as [Hm Hl]. rewrite app_length. unfold zlen in Hl. lia.
Qed.

Theorem run_edges_tie : forall fuel d m init fs_arg cs, (Z.to_nat m + length (stream cs) < fuel)%nat ->
  source_run_edges fuel d m init fs_arg cs = run_edges d m init fs_arg cs.
Proof.
  intros fuel d m init fs_arg cs Hf. unfold source_run_edges, run_edges. rewrite setup_tie.
  destruct (m <? 1) eqn:Em; [reflexivity|]. destruct cs as [|c t]; [reflexivity|].
  rewrite start_tie. apply run_from_tie; [apply wf_start; lia|exact Hf].
Qed.

(* ------------------------------------------------------------------ *)
(* Events.get_range_samples / get_latest_samples                        *)
(* ------------------------------------------------------------------ *)
Lemma range_mask : forall a b l,
  np_and (np_ge_s (df_sample l) a) (np_lt_s (df_sample l) b) = map (in_range a b) l.
Proof.
  intros a b l. unfold np_and, np_ge_s, np_lt_s, df_sample, in_range.
  induction l as [|e l IH]; [reflexivity|]. cbn [map combine fst snd]. rewrite IH. f_equal.
  destruct (a <=? snd e) eqn:E1, (snd e >=? a) eqn:E2; try reflexivity; lia.
Qed.

Theorem range_tie : forall E a b, gen_get_range_samples E a b = get_range_samples E a b.
Proof.
  intros E a b. unfold gen_get_range_samples, get_range_samples.
  destruct ((a <? e_start E) || (b >? e_end E)); [reflexivity|].
  cbv zeta. rewrite range_mask, np_select_map. reflexivity.
Qed.

Theorem latest_tie : forall E lb ub, gen_get_latest_samples E lb ub = get_latest_samples E lb ub.
Proof. intros E lb ub. unfold gen_get_latest_samples, get_latest_samples. cbv zeta. apply range_tie. Qed.

(* ------------------------------------------------------------------ *)
(* the C13 theorems, transported to the generated definitions          *)
(* ------------------------------------------------------------------ *)
Definition enough (fuel : nat) (m : Z) (cs : list chunk) : Prop := (Z.to_nat m + length (stream cs) < fuel)%nat.

Theorem source_blocks_tile : forall fuel d m init fs cs bs s, enough fuel m cs ->
  source_run_edges fuel d m init fs cs = (bs, s) ->
  map span bs = firstn (length bs) (spans (first_index cs - m) (map clen cs)) /\
  (length bs <= length cs)%nat /\ (s = Ok -> length bs = length cs).
Proof. intros fuel d m init fs cs bs s Hf H. rewrite run_edges_tie in H by exact Hf. exact (blocks_tile _ _ _ _ _ _ _ H). Qed.

Theorem source_all_chunkings : forall fuel d m init fs_arg cs first, enough fuel m cs ->
  1 <= m -> input_ok first cs -> clean m init (stream cs) = true ->
  exists bs, source_run_edges fuel d m init fs_arg cs = (bs, Ok) /\
    forall kk : nat,
      concat (map evs (firstn kk bs)) =
      filter (wanted d)
        (filter (due_by m (first + zlen (stream (firstn kk cs)))) (transitions init first (stream cs))).
Proof.
  intros fuel d m init fs_arg cs first Hf Hm Hi Hc. rewrite run_edges_tie by exact Hf.
  exact (all_chunkings d m init fs_arg cs first Hm Hi Hc).
Qed.

(* chunk-invariance, stated directly: two chunkings of one clean stream give the same events in the end *)
Theorem source_chunking_independent : forall fuel d m init fs_arg cs1 cs2 first,
  enough fuel m cs1 -> enough fuel m cs2 -> 1 <= m -> input_ok first cs1 -> input_ok first cs2 ->
  stream cs1 = stream cs2 -> clean m init (stream cs1) = true ->
  exists bs1 bs2, source_run_edges fuel d m init fs_arg cs1 = (bs1, Ok) /\
                  source_run_edges fuel d m init fs_arg cs2 = (bs2, Ok) /\
                  concat (map evs bs1) = concat (map evs bs2).
Proof.
  intros fuel d m init fs_arg cs1 cs2 first Hf1 Hf2 Hm Hi1 Hi2 Hs Hc.
  rewrite !run_edges_tie by assumption.
  destruct (all_chunkings_whole d m init fs_arg cs1 first Hm Hi1 Hc) as (bs1 & R1 & E1 & _).
  rewrite Hs in Hc. destruct (all_chunkings_whole d m init fs_arg cs2 first Hm Hi2 Hc) as (bs2 & R2 & E2 & _).
  exists bs1, bs2. rewrite R1, R2, E1, E2, Hs. repeat split; reflexivity.
Qed.

(* one generated step from any well-formed state on a joined array meeting the run-length precondition *)
Theorem source_step_characterisation : forall fuel d m st c, 1 <= m -> zlen (st_prior st) = m ->
  (length (st_prior st ++ c_data c) < fuel)%nat ->
  joinable st c = true -> wclean m (st_prior st ++ c_data c) ->
  exists E st', gen_edges_step fuel m d (rep st) c = Some (E, rep st') /\
    e_start E = st_s0 st /\ e_end E = st_s0 st + zlen (c_data c) /\ st_s0 st' = e_end E /\
    zlen (st_prior st') = m /\ inc (evs E) /\
    forall k a, In (k, a) (evs E) <->
      wanted d (k, a) = true /\
      exists p, a = p + st_s0 st /\ edge_at (st_prior st ++ c_data c) p k /\
                (k = Rising -> p <= zlen (c_data c)) /\ (k = Falling -> m <= p).
Proof.
  intros fuel d m st c Hm Hl Hf Hj Hw.
  destruct (step_characterisation d m st c Hm Hl Hj Hw) as (E & st' & Hs & R).
  exists E, st'. split; [|exact R].
  rewrite step_tie by (try exact Hf; intros _; split; assumption). rewrite Hs. reflexivity.
Qed.

(* where the events of a block emitted by the generated coroutine lie (every input, no precondition) *)
Theorem source_range_query : forall E a b,
  match gen_get_range_samples E a b with
  | Some R => e_start E <= a /\ b <= e_end E /\ e_start R = a /\ e_end R = b /\ e_fs R = e_fs E /\
              evs R = filter (in_range a b) (evs E)
  | None => a < e_start E \/ e_end E < b
  end.
Proof.
  intros E a b. rewrite range_tie. pose proof (range_query E a b) as H.
  destruct (get_range_samples E a b); [|exact H]. destruct H as (H1 & H2 & H3 & H4 & H5 & H6 & _).
  repeat split; assumption.
Qed.

(* non-vacuity *)
Example tie_ex_wf : wf_full 2 (start 2 false 1000 {| c_ann := Some (7, 1000); c_data := [true; true; true] |}) /\
  wf_tie 2 (start 2 false 1000 {| c_ann := Some (7, 1000); c_data := [true; true; true] |}).
Proof. split; [|apply wf_full_tie]; apply wf_start; lia. Qed.

Example tie_ex_run :
  let cs := [plain [false; true]; plain [true; true; false]; plain []; plain [false; false; true; true]] in
  enough 12 2 cs /\ input_ok 0 cs /\ clean 2 false (stream cs) = true /\
  concat (map evs (fst (source_run_edges 12 DBoth 2 false 1000 cs))) = [(Rising, 1); (Falling, 4); (Rising, 7)].
Proof.
  cbn zeta. split; [unfold enough; cbn; lia|]. split; [left; cbn; repeat split|]. split; vm_compute; reflexivity.
Qed.

Example tie_ex_annotated :
  let cs := [{| c_ann := Some (7, 1000); c_data := [true; true; true] |};
             {| c_ann := Some (10, 1000); c_data := [false; false; false] |}] in
  source_run_edges 9 DBoth 2 false 0 cs =
  ([{| evs := [(Rising, 7)]; e_start := 5; e_end := 8; e_fs := 1000 |};
    {| evs := [(Falling, 10)]; e_start := 8; e_end := 11; e_fs := 1000 |}], Ok).
Proof. vm_compute. reflexivity. Qed.

Example tie_ex_range : gen_get_range_samples {| evs := [(Rising, 3); (Falling, 6)]; e_start := 2; e_end := 8; e_fs := 1000 |} 4 8
  = Some {| evs := [(Falling, 6)]; e_start := 4; e_end := 8; e_fs := 1000 |}.
Proof. vm_compute. reflexivity. Qed.
