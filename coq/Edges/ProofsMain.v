(* C13: the all-chunkings theorem.
   Plan:  U = prior ++ (all remaining input).  One step looks at the window w = prior ++ chunk, a prefix
   of U of length m + n.  Under the run-length precondition (wclean) the debounced runs of w are its runs
   of length >= m, so the step reports exactly the rising edges at window positions 1..n and the falling
   edges at window positions m..m+n-1 (window_events).  The next state's U is U without its first n
   samples, so by induction over the chunks every edge of U is reported by exactly one step
   (run_from_char).  Lists are compared through "strictly increasing + same members" (inc_ext). *)
From Coq Require Import ZArith List Bool Lia ZifyBool.
From PV Require Import Runs.Model Runs.Spec Runs.Proofs Edges.Model Edges.Spec Edges.ProofsBasic.
Import ListNotations.
Open Scope Z_scope.

(* ------------------------------------------------------------------ *)
(* bit                                                                  *)
(* ------------------------------------------------------------------ *)
Lemma bit_neg : forall x j, j < 0 -> bit x j = false.
Proof. intros x j H. unfold bit. destruct (j <? 0) eqn:E; [reflexivity|lia]. Qed.

Lemma bit_beyond : forall x j, zlen x <= j -> bit x j = false.
Proof.
  intros x j H. unfold bit. destruct (j <? 0); [reflexivity|].
  apply nth_overflow. unfold zlen in H. lia.
Qed.

Lemma bit_true_range : forall x j, bit x j = true -> 0 <= j < zlen x.
Proof.
  intros x j H. destruct (Z_lt_dec j 0) as [L|L]; [rewrite bit_neg in H by lia; discriminate|].
  destruct (Z_lt_dec j (zlen x)) as [G|G]; [lia|]. rewrite bit_beyond in H by lia. discriminate.
Qed.

Lemma bit_cons : forall b t j, bit (b :: t) j = if j =? 0 then b else bit t (j - 1).
Proof.
  intros b t j. unfold bit.
  destruct (j <? 0) eqn:E1.
  - destruct (j =? 0) eqn:E2; [lia|]. destruct (j - 1 <? 0) eqn:E3; [reflexivity|lia].
  - destruct (j =? 0) eqn:E2.
    + assert (j = 0) by lia. subst j. reflexivity.
    + destruct (j - 1 <? 0) eqn:E3; [lia|].
      replace (Z.to_nat j) with (S (Z.to_nat (j - 1))) by lia. reflexivity.
Qed.

Lemma bit_app : forall a b j, bit (a ++ b) j = if j <? zlen a then bit a j else bit b (j - zlen a).
Proof.
  induction a as [|x a IH]; intros b j.
  - cbn [app]. rewrite zlen_nil. destruct (j <? 0) eqn:E.
    + rewrite !bit_neg by lia. reflexivity.
    + f_equal. lia.
  - cbn [app]. rewrite zlen_cons, !bit_cons. destruct (j =? 0) eqn:E0.
    + pose proof (zlen_nonneg _ a). destruct (j <? 1 + zlen a) eqn:E1; [reflexivity|lia].
    + rewrite IH. destruct (j - 1 <? zlen a) eqn:E1; destruct (j <? 1 + zlen a) eqn:E2; try lia; try reflexivity.
      f_equal. lia.
Qed.

Lemma bit_repeat : forall v k j, 0 <= j < Z.of_nat k -> bit (repeat v k) j = v.
Proof.
  intros v. induction k as [|k IH]; intros j H; [lia|].
  cbn [repeat]. rewrite bit_cons. destruct (j =? 0) eqn:E; [reflexivity|]. apply IH. lia.
Qed.

Lemma zlen_repeat : forall (v : bool) k, zlen (repeat v k) = Z.of_nat k.
Proof. intros. unfold zlen. rewrite repeat_length. reflexivity. Qed.

Lemma bit_skipn : forall k x j, 0 <= j -> bit (skipn k x) j = bit x (j + Z.of_nat k).
Proof.
  induction k as [|k IH]; intros x j H.
  - cbn [skipn]. f_equal. lia.
  - destruct x as [|b t].
    + cbn [skipn]. rewrite !bit_beyond; [reflexivity|rewrite zlen_nil; lia|rewrite zlen_nil; lia].
    + cbn [skipn]. rewrite IH by lia. rewrite (bit_cons b t).
      destruct (j + Z.of_nat (S k) =? 0) eqn:E; [lia|]. f_equal. lia.
Qed.

Lemma zlen_skipn : forall k (x : list bool), (k <= length x)%nat -> zlen (skipn k x) = zlen x - Z.of_nat k.
Proof. intros k x H. unfold zlen. rewrite skipn_length. lia. Qed.

(* the level before position j, with `prev` standing for what came before the list *)
Definition xbit (prev : bool) (x : list bool) (j : Z) : bool := if j <? 0 then prev else bit x j.

Lemma xbit_cons : forall prev b t j, 0 <= j -> xbit prev (b :: t) j = xbit b t (j - 1).
Proof.
  intros prev b t j H. unfold xbit. destruct (j <? 0) eqn:E; [lia|].
  rewrite bit_cons. destruct (j =? 0) eqn:E0; destruct (j - 1 <? 0) eqn:E1; try lia; reflexivity.
Qed.

Lemma bit_prefix_rep : forall init k x p, 0 <= p ->
  bit (repeat init k ++ x) p = xbit init x (p - Z.of_nat k).
Proof.
  intros init k x p H. rewrite bit_app, zlen_repeat. unfold xbit.
  destruct (p <? Z.of_nat k) eqn:E; destruct (p - Z.of_nat k <? 0) eqn:E1; try lia; try reflexivity.
  apply bit_repeat. lia.
Qed.

(* ------------------------------------------------------------------ *)
(* strictly increasing event lists                                      *)
(* ------------------------------------------------------------------ *)
Lemma inc_app : forall l1 l2, inc (l1 ++ l2) <->
  inc l1 /\ inc l2 /\ (forall a b, In a l1 -> In b l2 -> snd a < snd b).
Proof.
  induction l1 as [|x l1 IH]; intros l2.
  - cbn. split; [intros H; repeat split; auto; intros a b []|intros (_ & H & _); exact H].
  - cbn [app inc]. rewrite IH. split.
    + intros (H1 & H2 & H3 & H4). split; [split; [|exact H2]|split; [exact H3|]].
      * intros e He. apply H1. apply in_or_app. left. exact He.
      * intros a b [Ha|Ha] Hb; [subst a; apply H1; apply in_or_app; right; exact Hb|apply H4; assumption].
    + intros ((H1 & H2) & H3 & H4). split; [|split; [exact H2|split; [exact H3|]]].
      * intros e He. apply in_app_or in He. destruct He as [He|He]; [apply H1; exact He|].
        apply H4; [left; reflexivity|exact He].
      * intros a b Ha Hb. apply H4; [right; exact Ha|exact Hb].
Qed.

Lemma inc_filter : forall f l, inc l -> inc (filter f l).
Proof.
  intros f. induction l as [|x l IH]; intros H; [exact I|].
  destruct H as [H1 H2]. cbn [filter]. destruct (f x).
  - cbn [inc]. split; [|apply IH; exact H2]. intros e He. apply filter_In in He. apply H1. apply He.
  - apply IH. exact H2.
Qed.

Lemma inc_ext : forall l1 l2, inc l1 -> inc l2 -> (forall e, In e l1 <-> In e l2) -> l1 = l2.
Proof.
  induction l1 as [|a t1 IH]; intros l2 H1 H2 Hext.
  - destruct l2 as [|b t2]; [reflexivity|]. exfalso. apply (proj2 (Hext b)). left. reflexivity.
  - destruct l2 as [|b t2]; [exfalso; apply (proj1 (Hext a)); left; reflexivity|].
    destruct H1 as [A1 A2]. destruct H2 as [B1 B2].
    assert (a = b) as ->.
    { destruct (proj1 (Hext a) (or_introl eq_refl)) as [E|E]; [congruence|].
      destruct (proj2 (Hext b) (or_introl eq_refl)) as [F|F]; [congruence|].
      specialize (A1 _ F). specialize (B1 _ E). lia. }
    f_equal. apply IH; [exact A2|exact B2|]. intros e. split; intros He.
    + destruct (proj1 (Hext e) (or_intror He)) as [E|E]; [|exact E].
      subst e. specialize (A1 _ He). lia.
    + destruct (proj2 (Hext e) (or_intror He)) as [E|E]; [|exact E].
      subst e. specialize (B1 _ He). lia.
Qed.

(* ------------------------------------------------------------------ *)
(* transitions                                                          *)
(* ------------------------------------------------------------------ *)
Definition is_rising (k : kind) : bool := match k with Rising => true | Falling => false end.

Lemma transitions_In : forall x prev i k a,
  In (k, a) (transitions prev i x) <->
  exists j, 0 <= j < zlen x /\ a = i + j /\ bit x j = is_rising k /\ xbit prev x (j - 1) = negb (is_rising k).
Proof.
  induction x as [|b t IH]; intros prev i k a.
  - cbn [transitions]. split; [intros []|]. intros (j & H & _). rewrite zlen_nil in H. lia.
  - cbn [transitions]. rewrite in_app_iff, IH. rewrite zlen_cons. split.
    + intros [H|(j & Hj & Ha & Hb & Hx)].
      * exists 0. pose proof (zlen_nonneg _ t) as Hn.
        assert (B : bit (b :: t) 0 = b) by (rewrite bit_cons; reflexivity).
        assert (X : xbit prev (b :: t) (0 - 1) = prev) by reflexivity.
        rewrite B, X. clear B X.
        destruct prev, b; cbn in H; try (destruct H as [H|[]]); try (destruct H; fail);
          inversion H; subst; cbn [is_rising negb]; (split; [lia|]); (split; [lia|]); split; reflexivity.
      * exists (j + 1). rewrite bit_cons. destruct (j + 1 =? 0) eqn:E; [lia|].
        replace (j + 1 - 1) with j by lia. rewrite xbit_cons by lia.
        repeat split; try lia; assumption.
    + intros (j & Hj & Ha & Hb & Hx). destruct (Z.eq_dec j 0) as [->|Hn].
      * left. rewrite bit_cons in Hb. cbn [Z.eqb] in Hb. unfold xbit in Hx. cbn in Hx.
        subst b prev a. replace (i + 0) with i by lia. destruct k; cbn; left; reflexivity.
      * right. exists (j - 1). rewrite bit_cons in Hb. destruct (j =? 0) eqn:E; [lia|].
        rewrite xbit_cons in Hx by lia. repeat split; try lia; assumption.
Qed.

Lemma transitions_lb : forall x prev i e, In e (transitions prev i x) -> i <= snd e.
Proof.
  intros x prev i [k a] H. apply transitions_In in H. destruct H as (j & Hj & -> & _). cbn. lia.
Qed.

Lemma transitions_inc : forall x prev i, inc (transitions prev i x).
Proof.
  induction x as [|b t IH]; intros prev i; [exact I|].
  cbn [transitions]. apply inc_app. split; [|split; [apply IH|]].
  - destruct (negb prev && b); [cbn; split; [intros e []|exact I]|].
    destruct (prev && negb b); [cbn; split; [intros e []|exact I]|exact I].
  - intros a c Ha Hc. apply transitions_lb in Hc.
    assert (snd a = i); [|lia].
    destruct (negb prev && b); [destruct Ha as [<-|[]]; reflexivity|].
    destruct (prev && negb b); [destruct Ha as [<-|[]]; reflexivity|destruct Ha].
Qed.

(* ------------------------------------------------------------------ *)
(* every high sample lies in a maximal run                              *)
(* ------------------------------------------------------------------ *)
Lemma run_left : forall x (k : nat) p, Z.of_nat k = p -> bit x p = true ->
  exists s, 0 <= s <= p /\ (forall j, s <= j <= p -> bit x j = true) /\ (s = 0 \/ bit x (s - 1) = false).
Proof.
  intros x. induction k as [|k IH]; intros p Hk Hb.
  - exists 0. split; [lia|]. split; [|left; reflexivity].
    intros j Hj. assert (j = p) by lia. subst j. exact Hb.
  - destruct (bit x (p - 1)) eqn:E.
    + destruct (IH (p - 1)) as (s & H1 & H2 & H3); [lia|exact E|].
      exists s. split; [lia|]. split; [|exact H3].
      intros j Hj. destruct (Z.eq_dec j p) as [->|N]; [exact Hb|apply H2; lia].
    + exists p. split; [lia|]. split; [|right; exact E].
      intros j Hj. assert (j = p) by lia. subst j. exact Hb.
Qed.

Lemma run_right : forall x (k : nat) p, Z.of_nat k = zlen x - 1 - p -> bit x p = true ->
  exists e, p < e <= zlen x /\ (forall j, p <= j < e -> bit x j = true) /\ (e = zlen x \/ bit x e = false).
Proof.
  intros x. induction k as [|k IH]; intros p Hk Hb.
  - exists (zlen x). split; [lia|]. split; [|left; reflexivity].
    intros j Hj. assert (j = p) by lia. subst j. exact Hb.
  - destruct (bit x (p + 1)) eqn:E.
    + destruct (IH (p + 1)) as (e & H1 & H2 & H3); [lia|exact E|].
      exists e. split; [lia|]. split; [|exact H3].
      intros j Hj. destruct (Z.eq_dec j p) as [->|N]; [exact Hb|apply H2; lia].
    + exists (p + 1). split; [lia|]. split; [|right; exact E].
      intros j Hj. assert (j = p) by lia. subst j. exact Hb.
Qed.

Lemma run_exists : forall x p, bit x p = true -> exists s e, is_max_run x s e /\ s <= p < e.
Proof.
  intros x p Hb. pose proof (bit_true_range _ _ Hb) as Hr.
  destruct (run_left x (Z.to_nat p) p) as (s & S1 & S2 & S3); [lia|exact Hb|].
  destruct (run_right x (Z.to_nat (zlen x - 1 - p)) p) as (e & E1 & E2 & E3); [lia|exact Hb|].
  exists s, e. split; [|lia]. unfold is_max_run.
  split; [lia|]. split; [lia|]. split; [|split; assumption].
  intros i Hi. destruct (Z_le_dec i p); [apply S2; lia|apply E2; lia].
Qed.

(* ------------------------------------------------------------------ *)
(* edges of a list; the run-length precondition stated on positions     *)
(* ------------------------------------------------------------------ *)
Definition edge_at (u : list bool) (p : Z) (k : kind) : Prop :=
  1 <= p < zlen u /\ bit u p = is_rising k /\ bit u (p - 1) = negb (is_rising k).

(* after a change at i the level stays for more than m samples *)
Definition wclean (m : Z) (u : list bool) : Prop :=
  forall i j, 1 <= i -> i < j < zlen u -> bit u (i - 1) <> bit u i -> bit u j <> bit u i -> m < j - i.

Lemma ssep_strengthen : forall g l, ssep 0 l ->
  (forall s e s' e', In (s, e) l -> In (s', e') l -> e < s' -> e + g < s') -> ssep g l.
Proof.
  intros g. induction l as [|[s e] t IH]; intros Hs Hg; [exact I|].
  destruct Hs as (H1 & H2 & H3). cbn [ssep]. split; [exact H1|]. split.
  - intros s' e' Hin. apply (Hg s e s' e'); [left; reflexivity|right; exact Hin|].
    specialize (H2 _ _ Hin). lia.
  - apply IH; [exact H3|]. intros s1 e1 s2 e2 I1 I2. apply (Hg s1 e1 s2 e2); right; assumption.
Qed.

Lemma runs_ssep0 : forall w, ssep 0 (runs w).
Proof. intros w. apply separated_ssep; [lia|apply runs_separated]. Qed.

Lemma runs_ssep_clean : forall m w, wclean m w -> ssep m (runs w).
Proof.
  intros m w Hc. apply ssep_strengthen; [apply runs_ssep0|].
  intros s e s' e' I1 I2 Hlt.
  apply runs_are_maximal in I1. apply runs_are_maximal in I2.
  destruct I1 as (A1 & A2 & A3 & A4 & A5). destruct I2 as (B1 & B2 & B3 & B4 & B5).
  assert (He : bit w e = false) by (destruct A5 as [A5|A5]; [lia|exact A5]).
  assert (He1 : bit w (e - 1) = true) by (apply A3; lia).
  assert (Hs' : bit w s' = true) by (apply B3; lia).
  assert (m < s' - e); [|lia].
  apply Hc; [lia|lia|congruence|congruence].
Qed.

Lemma join_id : forall d t s e, (forall s' e', In (s', e') t -> e + d < s') -> ssep d t ->
  join d s e t = (s, e) :: t.
Proof.
  intros d. induction t as [|[s1 e1] t IH]; intros s e H1 H2; [reflexivity|].
  cbn [join]. specialize (H1 s1 e1 (or_introl eq_refl)) as K.
  destruct (s1 - e <=? d) eqn:E; [lia|]. f_equal.
  destruct H2 as (_ & H3 & H4). apply IH; assumption.
Qed.

Definition long (m : Z) (p : Z * Z) : bool := snd p - fst p >=? m.
Definition step_list (d : detect) (m s0 : Z) (w : list bool) : list ev :=
  flat_map (epoch_events d s0 (zlen w)) (filter (long m) (runs w)).

(* under the precondition debouncing only drops the short runs, nothing is merged *)
Lemma step_events_clean : forall d m s0 w, 0 <= m -> wclean m w ->
  step_events d m s0 w = Some (step_list d m s0 w).
Proof.
  intros d m s0 w Hm Hc. unfold step_events, step_list.
  rewrite epochs_are_runs. f_equal. f_equal.
  rewrite debounce_is_spec by (try lia; apply runs_separated).
  unfold debounce_spec. fold (long m).
  pose proof (ssep_filter m (long m) _ (runs_ssep_clean m w Hc)) as Hs.
  destruct (filter (long m) (runs w)) as [|[s e] t]; [reflexivity|].
  destruct Hs as (_ & H2 & H3). apply join_id; assumption.
Qed.

Lemma opt_single_In : forall (c : bool) (k0 k : kind) (v a : Z),
  In (k, a) (if c then [(k0, v)] else []) <-> c = true /\ k = k0 /\ a = v.
Proof.
  intros c k0 k v a. destruct c; cbn [In]; split.
  - intros [H|[]]. inversion H; subst. auto.
  - intros (_ & -> & ->). left. reflexivity.
  - intros [].
  - intros (H & _). discriminate.
Qed.

Lemma epoch_events_In : forall d s0 len s e k a,
  In (k, a) (epoch_events d s0 len (s, e)) <->
  (k = Rising /\ rising_on d = true /\ 0 < s /\ a = s + s0) \/
  (k = Falling /\ falling_on d = true /\ e < len /\ a = e + s0).
Proof.
  intros d s0 len s e k a. unfold epoch_events. cbn [fst snd].
  rewrite in_app_iff, !opt_single_In. split.
  - intros [(H1 & H2 & H3)|(H1 & H2 & H3)]; [left|right];
      apply andb_true_iff in H1; destruct H1 as [H1 H4]; repeat split; try assumption; lia.
  - intros [(H1 & H2 & H3 & H4)|(H1 & H2 & H3 & H4)]; [left|right];
      (split; [apply andb_true_iff; split; [assumption|lia]|split; assumption]).
Qed.

Lemma step_list_In : forall d m s0 w k a,
  In (k, a) (step_list d m s0 w) <->
  exists s e, In (s, e) (runs w) /\ m <= e - s /\ In (k, a) (epoch_events d s0 (zlen w) (s, e)).
Proof.
  intros d m s0 w k a. unfold step_list. rewrite in_flat_map. split.
  - intros ([s e] & H1 & H2). apply filter_In in H1. destruct H1 as [H1 H3].
    exists s, e. unfold long in H3. cbn [fst snd] in H3. split; [exact H1|]. split; [lia|exact H2].
  - intros (s & e & H1 & H2 & H3). exists (s, e). split; [|exact H3].
    apply filter_In. split; [exact H1|]. unfold long. cbn [fst snd]. lia.
Qed.

(* what one step reports: the rising edges at window positions 1 .. len - m and the falling edges
   at window positions m .. len - 1 *)
Lemma window_events : forall d m s0 w k a, 1 <= m -> wclean m w ->
  (In (k, a) (step_list d m s0 w) <->
   wanted d (k, a) = true /\
   exists p, a = p + s0 /\ edge_at w p k /\
             (k = Rising -> p <= zlen w - m) /\ (k = Falling -> m <= p)).
Proof.
  intros d m s0 w k a Hm Hc. rewrite step_list_In. split.
  - intros (s & e & Hin & Hlen & Hev). apply runs_are_maximal in Hin.
    destruct Hin as (A1 & A2 & A3 & A4 & A5).
    apply epoch_events_In in Hev. destruct Hev as [(-> & R & Hs & ->)|(-> & F & He & ->)].
    + split; [exact R|]. exists s. split; [reflexivity|].
      split; [|split; [intros _; lia|discriminate]].
      unfold edge_at. cbn [is_rising negb]. split; [lia|].
      split; [apply A3; lia|destruct A4; [lia|assumption]].
    + split; [exact F|]. exists e. split; [reflexivity|].
      split; [|split; [discriminate|intros _; lia]].
      unfold edge_at. cbn [is_rising negb]. split; [lia|].
      split; [destruct A5; [lia|assumption]|apply A3; lia].
  - intros (Hw & p & -> & (P1 & P2 & P3) & PR & PF). destruct k; cbn [is_rising negb] in *.
    + destruct (run_exists w p P2) as (s & e & Hmr & Hse).
      pose proof Hmr as (A1 & A2 & A3 & A4 & A5).
      assert (s = p).
      { destruct (Z.eq_dec s p); [assumption|]. rewrite (A3 (p - 1)) in P3 by lia. discriminate. }
      subst s. exists p, e. split; [apply runs_are_maximal; exact Hmr|]. split.
      * specialize (PR eq_refl).
        destruct (Z_lt_dec e (zlen w)) as [L|L]; [|lia].
        destruct A5 as [A5|A5]; [lia|].
        assert (m < e - p); [|lia]. apply Hc; lia.
      * apply epoch_events_In. left. repeat split; [exact Hw|lia].
    + destruct (run_exists w (p - 1) P3) as (s & e & Hmr & Hse).
      pose proof Hmr as (A1 & A2 & A3 & A4 & A5).
      assert (e = p).
      { destruct (Z.eq_dec e p); [assumption|]. rewrite (A3 p) in P2 by lia. discriminate. }
      subst e. exists s, p. split; [apply runs_are_maximal; exact Hmr|]. split.
      * specialize (PF eq_refl).
        destruct A4 as [A4|A4]; [lia|].
        destruct (Z.eq_dec s 0) as [Z0|Z0]; [lia|].
        assert (Bs : bit w s = true) by (apply A3; lia).
        assert (m < p - s); [|lia]. apply Hc; lia.
      * apply epoch_events_In. right. repeat split; [exact Hw|lia].
Qed.

Lemma flat_events_inc : forall d s0 len l, ssep 0 l -> inc (flat_map (epoch_events d s0 len) l).
Proof.
  intros d s0 len. induction l as [|[s e] t IH]; intros Hs; [exact I|].
  destruct Hs as (H1 & H2 & H3). cbn [flat_map]. apply inc_app.
  split; [|split; [apply IH; exact H3|]].
  - unfold epoch_events. cbn [fst snd].
    destruct (rising_on d && (s >? 0)); destruct (falling_on d && (e <? len)); cbn [app inc In];
      repeat split; try (intros ? []); auto.
    intros x [<-|[]]. cbn [snd]. lia.
  - intros [k1 a1] [k2 a2] Ha Hb. apply epoch_events_In in Ha. apply in_flat_map in Hb.
    destruct Hb as ([s' e'] & Hin & Hb). apply epoch_events_In in Hb.
    pose proof (H2 _ _ Hin). pose proof (ssep_In_lt _ _ _ _ H3 Hin). cbn [snd].
    destruct Ha as [(_ & _ & _ & ->)|(_ & _ & _ & ->)];
      destruct Hb as [(_ & _ & _ & ->)|(_ & _ & _ & ->)]; lia.
Qed.

Lemma step_list_inc : forall d m s0 w, inc (step_list d m s0 w).
Proof.
  intros. unfold step_list. apply flat_events_inc. apply ssep_filter. apply runs_ssep0.
Qed.
