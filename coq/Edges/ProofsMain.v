(* C13: the all-chunkings theorem.
   Plan:  U = prior ++ (all remaining input).  One step looks at the window w = prior ++ chunk, a prefix
   of U of length m + n.  Under the run-length precondition (wclean) the debounced runs of w are its runs
   of length >= m, so the step reports exactly the rising edges at window positions 1..n and the falling
   edges at window positions m..m+n-1 (window_events).  The next state's U is U without its first n
   samples, so by induction over the chunks every edge of U is reported by exactly one step
   (run_from_char).  Lists are compared through "strictly increasing + same members" (inc_ext). *)
From Coq Require Import ZArith List Bool Lia ZifyBool.
From PV Require Import Runs.Model Runs.Spec Runs.Proofs Edges.Model Edges.Spec Edges.ProofsBasic.
Import ListNotations.
Open Scope Z_scope.

(* ------------------------------------------------------------------ *)
(* bit                                                                  *)
(* ------------------------------------------------------------------ *)
Lemma bit_neg : forall x j, j < 0 -> bit x j = false.
Proof. intros x j H. unfold bit. destruct (j <? 0) eqn:E; [reflexivity|lia]. Qed.

Lemma bit_beyond : forall x j, zlen x <= j -> bit x j = false.
Proof.
  intros x j H. unfold bit. destruct (j <? 0); [reflexivity|].
  apply nth_overflow. unfold zlen in H. lia.
Qed.

Lemma bit_true_range : forall x j, bit x j = true -> 0 <= j < zlen x.
Proof.
  intros x j H. destruct (Z_lt_dec j 0) as [L|L]; [rewrite bit_neg in H by lia; discriminate|].
  destruct (Z_lt_dec j (zlen x)) as [G|G]; [lia|]. rewrite bit_beyond in H by lia. discriminate.
Qed.

Lemma bit_cons : forall b t j, bit (b :: t) j = if j =? 0 then b else bit t (j - 1).
Proof.
  intros b t j. unfold bit.
  destruct (j <? 0) eqn:E1.
  - destruct (j =? 0) eqn:E2; [lia|]. destruct (j - 1 <? 0) eqn:E3; [reflexivity|lia].
  - destruct (j =? 0) eqn:E2.
    + assert (j = 0) by lia. subst j. reflexivity.
    + destruct (j - 1 <? 0) eqn:E3; [lia|].
      replace (Z.to_nat j) with (S (Z.to_nat (j - 1))) by lia. reflexivity.
Qed.

Lemma bit_app : forall a b j, bit (a ++ b) j = if j <? zlen a then bit a j else bit b (j - zlen a).
Proof.
  induction a as [|x a IH]; intros b j.
  - cbn [app]. rewrite zlen_nil. destruct (j <? 0) eqn:E.
    + rewrite !bit_neg by lia. reflexivity.
    + f_equal. lia.
  - cbn [app]. rewrite zlen_cons, !bit_cons. destruct (j =? 0) eqn:E0.
    + pose proof (zlen_nonneg _ a). destruct (j <? 1 + zlen a) eqn:E1; [reflexivity|lia].
    + rewrite IH. destruct (j - 1 <? zlen a) eqn:E1; destruct (j <? 1 + zlen a) eqn:E2; try lia; try reflexivity.
      f_equal. lia.
Qed.

Lemma bit_repeat : forall v k j, 0 <= j < Z.of_nat k -> bit (repeat v k) j = v.
Proof.
  intros v. induction k as [|k IH]; intros j H; [lia|].
  cbn [repeat]. rewrite bit_cons. destruct (j =? 0) eqn:E; [reflexivity|]. apply IH. lia.
Qed.

Lemma zlen_repeat : forall (v : bool) k, zlen (repeat v k) = Z.of_nat k.
Proof. intros. unfold zlen. rewrite repeat_length. reflexivity. Qed.

Lemma bit_skipn : forall k x j, 0 <= j -> bit (skipn k x) j = bit x (j + Z.of_nat k).
Proof.
  induction k as [|k IH]; intros x j H.
  - cbn [skipn]. f_equal. lia.
  - destruct x as [|b t].
    + cbn [skipn]. rewrite !bit_beyond; [reflexivity|rewrite zlen_nil; lia|rewrite zlen_nil; lia].
    + cbn [skipn]. rewrite IH by lia. rewrite (bit_cons b t).
      destruct (j + Z.of_nat (S k) =? 0) eqn:E; [lia|]. f_equal. lia.
Qed.

Lemma zlen_skipn : forall k (x : list bool), (k <= length x)%nat -> zlen (skipn k x) = zlen x - Z.of_nat k.
Proof. intros k x H. unfold zlen. rewrite skipn_length. lia. Qed.

(* the level before position j, with `prev` standing for what came before the list *)
Definition xbit (prev : bool) (x : list bool) (j : Z) : bool := if j <? 0 then prev else bit x j.

Lemma xbit_cons : forall prev b t j, 0 <= j -> xbit prev (b :: t) j = xbit b t (j - 1).
Proof.
  intros prev b t j H. unfold xbit. destruct (j <? 0) eqn:E; [lia|].
  rewrite bit_cons. destruct (j =? 0) eqn:E0; destruct (j - 1 <? 0) eqn:E1; try lia; reflexivity.
Qed.

Lemma bit_prefix_rep : forall init k x p, 0 <= p ->
  bit (repeat init k ++ x) p = xbit init x (p - Z.of_nat k).
Proof.
  intros init k x p H. rewrite bit_app, zlen_repeat. unfold xbit.
  destruct (p <? Z.of_nat k) eqn:E; destruct (p - Z.of_nat k <? 0) eqn:E1; try lia; try reflexivity.
  apply bit_repeat. lia.
Qed.

(* ------------------------------------------------------------------ *)
(* strictly increasing event lists                                      *)
(* ------------------------------------------------------------------ *)
Lemma inc_app : forall l1 l2, inc (l1 ++ l2) <->
  inc l1 /\ inc l2 /\ (forall a b, In a l1 -> In b l2 -> snd a < snd b).
Proof.
  induction l1 as [|x l1 IH]; intros l2.
  - cbn. split; [intros H; repeat split; auto; intros a b []|intros (_ & H & _); exact H].
  - cbn [app inc]. rewrite IH. split.
    + intros (H1 & H2 & H3 & H4). split; [split; [|exact H2]|split; [exact H3|]].
      * intros e He. apply H1. apply in_or_app. left. exact He.
      * intros a b [Ha|Ha] Hb; [subst a; apply H1; apply in_or_app; right; exact Hb|apply H4; assumption].
    + intros ((H1 & H2) & H3 & H4). split; [|split; [exact H2|split; [exact H3|]]].
      * intros e He. apply in_app_or in He. destruct He as [He|He]; [apply H1; exact He|].
        apply H4; [left; reflexivity|exact He].
      * intros a b Ha Hb. apply H4; [right; exact Ha|exact Hb].
Qed.

Lemma inc_filter : forall f l, inc l -> inc (filter f l).
Proof.
  intros f. induction l as [|x l IH]; intros H; [exact I|].
  destruct H as [H1 H2]. cbn [filter]. destruct (f x).
  - cbn [inc]. split; [|apply IH; exact H2]. intros e He. apply filter_In in He. apply H1. apply He.
  - apply IH. exact H2.
Qed.

Lemma inc_ext : forall l1 l2, inc l1 -> inc l2 -> (forall e, In e l1 <-> In e l2) -> l1 = l2.
Proof.
  induction l1 as [|a t1 IH]; intros l2 H1 H2 Hext.
  - destruct l2 as [|b t2]; [reflexivity|]. exfalso. apply (proj2 (Hext b)). left. reflexivity.
  - destruct l2 as [|b t2]; [exfalso; apply (proj1 (Hext a)); left; reflexivity|].
    destruct H1 as [A1 A2]. destruct H2 as [B1 B2].
    assert (a = b) as ->.
    { destruct (proj1 (Hext a) (or_introl eq_refl)) as [E|E]; [congruence|].
      destruct (proj2 (Hext b) (or_introl eq_refl)) as [F|F]; [congruence|].
      specialize (A1 _ F). specialize (B1 _ E). lia. }
    f_equal. apply IH; [exact A2|exact B2|]. intros e. split; intros He.
    + destruct (proj1 (Hext e) (or_intror He)) as [E|E]; [|exact E].
      subst e. specialize (A1 _ He). lia.
    + destruct (proj2 (Hext e) (or_intror He)) as [E|E]; [|exact E].
      subst e. specialize (B1 _ He). lia.
Qed.

(* ------------------------------------------------------------------ *)
(* transitions                                                          *)
(* ------------------------------------------------------------------ *)
Lemma transitions_In : forall x prev i k a,
  In (k, a) (transitions prev i x) <->
  exists j, 0 <= j < zlen x /\ a = i + j /\ bit x j = is_rising k /\ xbit prev x (j - 1) = negb (is_rising k).
Proof.
  induction x as [|b t IH]; intros prev i k a.
  - cbn [transitions]. split; [intros []|]. intros (j & H & _). rewrite zlen_nil in H. lia.
  - cbn [transitions]. rewrite in_app_iff, IH. rewrite zlen_cons. split.
    + intros [H|(j & Hj & Ha & Hb & Hx)].
      * exists 0. pose proof (zlen_nonneg _ t) as Hn.
        assert (B : bit (b :: t) 0 = b) by (rewrite bit_cons; reflexivity).
        assert (X : xbit prev (b :: t) (0 - 1) = prev) by reflexivity.
        rewrite B, X. clear B X.
        destruct prev, b; cbn in H; try (destruct H as [H|[]]); try (destruct H; fail);
          inversion H; subst; cbn [is_rising negb]; (split; [lia|]); (split; [lia|]); split; reflexivity.
      * exists (j + 1). rewrite bit_cons. destruct (j + 1 =? 0) eqn:E; [lia|].
        replace (j + 1 - 1) with j by lia. rewrite xbit_cons by lia.
        repeat split; try lia; assumption.
    + intros (j & Hj & Ha & Hb & Hx). destruct (Z.eq_dec j 0) as [->|Hn].
      * left. rewrite bit_cons in Hb. cbn [Z.eqb] in Hb. unfold xbit in Hx. cbn in Hx.
        subst b prev a. replace (i + 0) with i by lia. destruct k; cbn; left; reflexivity.
      * right. exists (j - 1). rewrite bit_cons in Hb. destruct (j =? 0) eqn:E; [lia|].
        rewrite xbit_cons in Hx by lia. repeat split; try lia; assumption.
Qed.

Lemma transitions_lb : forall x prev i e, In e (transitions prev i x) -> i <= snd e.
Proof.
  intros x prev i [k a] H. apply transitions_In in H. destruct H as (j & Hj & -> & _). cbn. lia.
Qed.

Lemma transitions_inc : forall x prev i, inc (transitions prev i x).
Proof.
  induction x as [|b t IH]; intros prev i; [exact I|].
  cbn [transitions]. apply inc_app. split; [|split; [apply IH|]].
  - destruct (negb prev && b); [cbn; split; [intros e []|exact I]|].
    destruct (prev && negb b); [cbn; split; [intros e []|exact I]|exact I].
  - intros a c Ha Hc. apply transitions_lb in Hc.
    assert (snd a = i); [|lia].
    destruct (negb prev && b); [destruct Ha as [<-|[]]; reflexivity|].
    destruct (prev && negb b); [destruct Ha as [<-|[]]; reflexivity|destruct Ha].
Qed.

(* ------------------------------------------------------------------ *)
(* every high sample lies in a maximal run                              *)
(* ------------------------------------------------------------------ *)
Lemma run_left : forall x (k : nat) p, Z.of_nat k = p -> bit x p = true ->
  exists s, 0 <= s <= p /\ (forall j, s <= j <= p -> bit x j = true) /\ (s = 0 \/ bit x (s - 1) = false).
Proof.
  intros x. induction k as [|k IH]; intros p Hk Hb.
  - exists 0. split; [lia|]. split; [|left; reflexivity].
    intros j Hj. assert (j = p) by lia. subst j. exact Hb.
  - destruct (bit x (p - 1)) eqn:E.
    + destruct (IH (p - 1)) as (s & H1 & H2 & H3); [lia|exact E|].
      exists s. split; [lia|]. split; [|exact H3].
      intros j Hj. destruct (Z.eq_dec j p) as [->|N]; [exact Hb|apply H2; lia].
    + exists p. split; [lia|]. split; [|right; exact E].
      intros j Hj. assert (j = p) by lia. subst j. exact Hb.
Qed.

Lemma run_right : forall x (k : nat) p, Z.of_nat k = zlen x - 1 - p -> bit x p = true ->
  exists e, p < e <= zlen x /\ (forall j, p <= j < e -> bit x j = true) /\ (e = zlen x \/ bit x e = false).
Proof.
  intros x. induction k as [|k IH]; intros p Hk Hb.
  - exists (zlen x). split; [lia|]. split; [|left; reflexivity].
    intros j Hj. assert (j = p) by lia. subst j. exact Hb.
  - destruct (bit x (p + 1)) eqn:E.
    + destruct (IH (p + 1)) as (e & H1 & H2 & H3); [lia|exact E|].
      exists e. split; [lia|]. split; [|exact H3].
      intros j Hj. destruct (Z.eq_dec j p) as [->|N]; [exact Hb|apply H2; lia].
    + exists (p + 1). split; [lia|]. split; [|right; exact E].
      intros j Hj. assert (j = p) by lia. subst j. exact Hb.
Qed.

Lemma run_exists : forall x p, bit x p = true -> exists s e, is_max_run x s e /\ s <= p < e.
Proof.
  intros x p Hb. pose proof (bit_true_range _ _ Hb) as Hr.
  destruct (run_left x (Z.to_nat p) p) as (s & S1 & S2 & S3); [lia|exact Hb|].
  destruct (run_right x (Z.to_nat (zlen x - 1 - p)) p) as (e & E1 & E2 & E3); [lia|exact Hb|].
  exists s, e. split; [|lia]. unfold is_max_run.
  split; [lia|]. split; [lia|]. split; [|split; assumption].
  intros i Hi. destruct (Z_le_dec i p); [apply S2; lia|apply E2; lia].
Qed.

(* ------------------------------------------------------------------ *)
(* edges of a list; the run-length precondition stated on positions     *)
(* ------------------------------------------------------------------ *)
Lemma ssep_strengthen : forall g l, ssep 0 l ->
  (forall s e s' e', In (s, e) l -> In (s', e') l -> e < s' -> e + g < s') -> ssep g l.
Proof.
  intros g. induction l as [|[s e] t IH]; intros Hs Hg; [exact I|].
  destruct Hs as (H1 & H2 & H3). cbn [ssep]. split; [exact H1|]. split.
  - intros s' e' Hin. apply (Hg s e s' e'); [left; reflexivity|right; exact Hin|].
    specialize (H2 _ _ Hin). lia.
  - apply IH; [exact H3|]. intros s1 e1 s2 e2 I1 I2. apply (Hg s1 e1 s2 e2); right; assumption.
Qed.

Lemma runs_ssep0 : forall w, ssep 0 (runs w).
Proof. intros w. apply separated_ssep; [lia|apply runs_separated]. Qed.

Lemma runs_ssep_clean : forall m w, wclean m w -> ssep m (runs w).
Proof.
  intros m w Hc. apply ssep_strengthen; [apply runs_ssep0|].
  intros s e s' e' I1 I2 Hlt.
  apply runs_are_maximal in I1. apply runs_are_maximal in I2.
  destruct I1 as (A1 & A2 & A3 & A4 & A5). destruct I2 as (B1 & B2 & B3 & B4 & B5).
  assert (He : bit w e = false) by (destruct A5 as [A5|A5]; [lia|exact A5]).
  assert (He1 : bit w (e - 1) = true) by (apply A3; lia).
  assert (Hs' : bit w s' = true) by (apply B3; lia).
  assert (m < s' - e); [|lia].
  apply Hc; [lia|lia|congruence|congruence].
Qed.

Lemma join_id : forall d t s e, (forall s' e', In (s', e') t -> e + d < s') -> ssep d t ->
  join d s e t = (s, e) :: t.
Proof.
  intros d. induction t as [|[s1 e1] t IH]; intros s e H1 H2; [reflexivity|].
  cbn [join]. specialize (H1 s1 e1 (or_introl eq_refl)) as K.
  destruct (s1 - e <=? d) eqn:E; [lia|]. f_equal.
  destruct H2 as (_ & H3 & H4). apply IH; assumption.
Qed.

Definition long (m : Z) (p : Z * Z) : bool := snd p - fst p >=? m.
Definition step_list (d : detect) (m s0 : Z) (w : list bool) : list ev :=
  flat_map (epoch_events d s0 (zlen w)) (filter (long m) (runs w)).

(* under the precondition debouncing only drops the short runs, nothing is merged *)
Lemma step_events_clean : forall d m s0 w, 0 <= m -> wclean m w ->
  step_events d m s0 w = Some (step_list d m s0 w).
Proof.
  intros d m s0 w Hm Hc. unfold step_events, step_list.
  rewrite epochs_are_runs. f_equal. f_equal.
  rewrite debounce_is_spec by (try lia; apply runs_separated).
  unfold debounce_spec. fold (long m).
  pose proof (ssep_filter m (long m) _ (runs_ssep_clean m w Hc)) as Hs.
  destruct (filter (long m) (runs w)) as [|[s e] t]; [reflexivity|].
  destruct Hs as (_ & H2 & H3). apply join_id; assumption.
Qed.

Lemma opt_single_In : forall (c : bool) (k0 k : kind) (v a : Z),
  In (k, a) (if c then [(k0, v)] else []) <-> c = true /\ k = k0 /\ a = v.
Proof.
  intros c k0 k v a. destruct c; cbn [In]; split.
  - intros [H|[]]. inversion H; subst. auto.
  - intros (_ & -> & ->). left. reflexivity.
  - intros [].
  - intros (H & _). discriminate.
Qed.

Lemma epoch_events_In : forall d s0 len s e k a,
  In (k, a) (epoch_events d s0 len (s, e)) <->
  (k = Rising /\ rising_on d = true /\ 0 < s /\ a = s + s0) \/
  (k = Falling /\ falling_on d = true /\ e < len /\ a = e + s0).
Proof.
  intros d s0 len s e k a. unfold epoch_events. cbn [fst snd].
  rewrite in_app_iff, !opt_single_In. split.
  - intros [(H1 & H2 & H3)|(H1 & H2 & H3)]; [left|right];
      apply andb_true_iff in H1; destruct H1 as [H1 H4]; repeat split; try assumption; lia.
  - intros [(H1 & H2 & H3 & H4)|(H1 & H2 & H3 & H4)]; [left|right];
      (split; [apply andb_true_iff; split; [assumption|lia]|split; assumption]).
Qed.

Lemma step_list_In : forall d m s0 w k a,
  In (k, a) (step_list d m s0 w) <->
  exists s e, In (s, e) (runs w) /\ m <= e - s /\ In (k, a) (epoch_events d s0 (zlen w) (s, e)).
Proof.
  intros d m s0 w k a. unfold step_list. rewrite in_flat_map. split.
  - intros ([s e] & H1 & H2). apply filter_In in H1. destruct H1 as [H1 H3].
    exists s, e. unfold long in H3. cbn [fst snd] in H3. split; [exact H1|]. split; [lia|exact H2].
  - intros (s & e & H1 & H2 & H3). exists (s, e). split; [|exact H3].
    apply filter_In. split; [exact H1|]. unfold long. cbn [fst snd]. lia.
Qed.

(* what one step reports: the rising edges at window positions 1 .. len - m and the falling edges
   at window positions m .. len - 1 *)
Lemma window_events : forall d m s0 w k a, 1 <= m -> wclean m w ->
  (In (k, a) (step_list d m s0 w) <->
   wanted d (k, a) = true /\
   exists p, a = p + s0 /\ edge_at w p k /\
             (k = Rising -> p <= zlen w - m) /\ (k = Falling -> m <= p)).
Proof.
  intros d m s0 w k a Hm Hc. rewrite step_list_In. split.
  - intros (s & e & Hin & Hlen & Hev). apply runs_are_maximal in Hin.
    destruct Hin as (A1 & A2 & A3 & A4 & A5).
    apply epoch_events_In in Hev. destruct Hev as [(-> & R & Hs & ->)|(-> & F & He & ->)].
    + split; [exact R|]. exists s. split; [reflexivity|].
      split; [|split; [intros _; lia|discriminate]].
      unfold edge_at. cbn [is_rising negb]. split; [lia|].
      split; [apply A3; lia|destruct A4; [lia|assumption]].
    + split; [exact F|]. exists e. split; [reflexivity|].
      split; [|split; [discriminate|intros _; lia]].
      unfold edge_at. cbn [is_rising negb]. split; [lia|].
      split; [destruct A5; [lia|assumption]|apply A3; lia].
  - intros (Hw & p & -> & (P1 & P2 & P3) & PR & PF). destruct k; cbn [is_rising negb] in *.
    + destruct (run_exists w p P2) as (s & e & Hmr & Hse).
      pose proof Hmr as (A1 & A2 & A3 & A4 & A5).
      assert (s = p).
      { destruct (Z.eq_dec s p); [assumption|]. rewrite (A3 (p - 1)) in P3 by lia. discriminate. }
      subst s. exists p, e. split; [apply runs_are_maximal; exact Hmr|]. split.
      * specialize (PR eq_refl).
        destruct (Z_lt_dec e (zlen w)) as [L|L]; [|lia].
        destruct A5 as [A5|A5]; [lia|].
        assert (m < e - p); [|lia]. apply Hc; lia.
      * apply epoch_events_In. left. repeat split; [exact Hw|lia].
    + destruct (run_exists w (p - 1) P3) as (s & e & Hmr & Hse).
      pose proof Hmr as (A1 & A2 & A3 & A4 & A5).
      assert (e = p).
      { destruct (Z.eq_dec e p); [assumption|]. rewrite (A3 p) in P2 by lia. discriminate. }
      subst e. exists s, p. split; [apply runs_are_maximal; exact Hmr|]. split.
      * specialize (PF eq_refl).
        destruct A4 as [A4|A4]; [lia|].
        destruct (Z.eq_dec s 0) as [Z0|Z0]; [lia|].
        assert (Bs : bit w s = true) by (apply A3; lia).
        assert (m < p - s); [|lia]. apply Hc; lia.
      * apply epoch_events_In. right. repeat split; [exact Hw|lia].
Qed.

Lemma flat_events_inc : forall d s0 len l, ssep 0 l -> inc (flat_map (epoch_events d s0 len) l).
Proof.
  intros d s0 len. induction l as [|[s e] t IH]; intros Hs; [exact I|].
  destruct Hs as (H1 & H2 & H3). cbn [flat_map]. apply inc_app.
  split; [|split; [apply IH; exact H3|]].
  - unfold epoch_events. cbn [fst snd].
    destruct (rising_on d && (s >? 0)); destruct (falling_on d && (e <? len)); cbn [app inc].
    + split; [intros x [<-|[]]; cbn [snd]; lia|]. split; [intros x []|exact I].
    + split; [intros x []|exact I].
    + split; [intros x []|exact I].
    + exact I.
  - intros [k1 a1] [k2 a2] Ha Hb. apply epoch_events_In in Ha. apply in_flat_map in Hb.
    destruct Hb as ([s' e'] & Hin & Hb). apply epoch_events_In in Hb.
    pose proof (H2 _ _ Hin). pose proof (ssep_In_lt _ _ _ _ H3 Hin). cbn [snd].
    destruct Ha as [(_ & _ & _ & ->)|(_ & _ & _ & ->)];
      destruct Hb as [(_ & _ & _ & ->)|(_ & _ & _ & ->)]; lia.
Qed.

Lemma step_list_inc : forall d m s0 w, inc (step_list d m s0 w).
Proof.
  intros. unfold step_list. apply flat_events_inc. apply ssep_filter. apply runs_ssep0.
Qed.

(* C13_step_characterisation: with s0 the start of the joined array and n the chunk length, a rising edge
   at absolute sample r is reported by exactly the step with s0 < r <= s0 + n, a falling edge at f by
   exactly the step with s0 + m <= f < s0 + m + n *)
Lemma step_characterisation : forall d m st c, 1 <= m -> zlen (st_prior st) = m ->
  joinable st c = true -> wclean m (st_prior st ++ c_data c) ->
  exists E st', step d m st c = Some (E, st') /\
    e_start E = st_s0 st /\ e_end E = st_s0 st + zlen (c_data c) /\ st_s0 st' = e_end E /\
    zlen (st_prior st') = m /\ inc (evs E) /\
    forall k a, In (k, a) (evs E) <->
      wanted d (k, a) = true /\
      exists p, a = p + st_s0 st /\ edge_at (st_prior st ++ c_data c) p k /\
                (k = Rising -> p <= zlen (c_data c)) /\ (k = Falling -> m <= p).
Proof.
  intros d m st c Hm Hp Hj Hc. unfold step. rewrite Hj.
  rewrite (step_events_clean d m (st_s0 st) _) by (try lia; exact Hc).
  eexists. eexists. split; [reflexivity|]. cbn [evs e_start e_end st_s0 st_prior].
  pose proof (zlen_nonneg _ (c_data c)) as Hn.
  assert (Hw : zlen (st_prior st ++ c_data c) = m + zlen (c_data c)) by (rewrite zlen_app; lia).
  split; [reflexivity|]. split; [reflexivity|]. split; [reflexivity|]. split.
  - unfold py_slice, py_lo, py_hi, adj_bound. destruct (- m <? 0) eqn:E; [|lia].
    rewrite Hw. unfold zlen. rewrite firstn_length, skipn_length. unfold zlen in Hw. lia.
  - split; [apply step_list_inc|]. intros k a. rewrite window_events by assumption.
    rewrite Hw. replace (m + zlen (c_data c) - m) with (zlen (c_data c)) by lia. reflexivity.
Qed.

(* ------------------------------------------------------------------ *)
(* prefixes and suffixes                                                *)
(* ------------------------------------------------------------------ *)
Lemma bit_app_l : forall a b j, j < zlen a -> bit (a ++ b) j = bit a j.
Proof. intros a b j H. rewrite bit_app. destruct (j <? zlen a) eqn:E; [reflexivity|lia]. Qed.

Lemma wclean_prefix : forall m a b, wclean m (a ++ b) -> wclean m a.
Proof.
  intros m a b H i j Hi Hj H1 H2. pose proof (zlen_nonneg _ b) as Hb.
  apply H; [lia|rewrite zlen_app; lia| |]; rewrite !bit_app_l by lia; assumption.
Qed.

Lemma wclean_skipn : forall m k u, (k <= length u)%nat -> wclean m u -> wclean m (skipn k u).
Proof.
  intros m k u Hk H i j Hi Hj H1 H2. rewrite zlen_skipn in Hj by exact Hk.
  rewrite !bit_skipn in H1, H2 by lia.
  replace (i - 1 + Z.of_nat k) with (i + Z.of_nat k - 1) in H1 by lia.
  assert (m < (j + Z.of_nat k) - (i + Z.of_nat k)); [|lia].
  apply H; [lia|lia|exact H1|exact H2].
Qed.

Lemma edge_at_prefix : forall a b p k, edge_at a p k <-> (edge_at (a ++ b) p k /\ p < zlen a).
Proof.
  intros a b p k. unfold edge_at. rewrite zlen_app. pose proof (zlen_nonneg _ b) as Hb. split.
  - intros (H1 & H2 & H3). rewrite !bit_app_l by lia. repeat split; try assumption; lia.
  - intros ((H1 & H2 & H3) & H4). rewrite !bit_app_l in H2, H3 by lia. repeat split; try assumption; lia.
Qed.

Lemma edge_at_skipn : forall k u p kd, (k <= length u)%nat -> 1 <= p ->
  (edge_at (skipn k u) p kd <-> edge_at u (p + Z.of_nat k) kd).
Proof.
  intros k u p kd Hk Hp. unfold edge_at. rewrite zlen_skipn by exact Hk.
  rewrite !bit_skipn by lia. replace (p - 1 + Z.of_nat k) with (p + Z.of_nat k - 1) by lia.
  split; intros (H1 & H2 & H3); repeat split; try assumption; lia.
Qed.

Lemma py_tail : forall m (w : list bool), 1 <= m <= zlen w ->
  py_slice (Some (- m)) None w = skipn (Z.to_nat (zlen w - m)) w.
Proof.
  intros m w H. unfold py_slice, py_lo, py_hi, adj_bound.
  destruct (- m <? 0) eqn:E; [|lia].
  replace (Z.max 0 (- m + zlen w)) with (zlen w - m) by lia.
  apply firstn_all2. rewrite skipn_length. unfold zlen in *. lia.
Qed.

Definition st_annfs (st : estate) : option Z := if st_ann st then Some (st_fs st) else None.

Lemma joinable_ok : forall st c, c_ann c = option_map (fun f => (st_s0 st + zlen (st_prior st), f)) (st_annfs st) ->
  joinable st c = true.
Proof.
  intros st c H. unfold joinable. rewrite H. unfold st_annfs. destruct (st_ann st); cbn; [lia|reflexivity].
Qed.

Lemma stream_cons : forall c t, stream (c :: t) = c_data c ++ stream t.
Proof. reflexivity. Qed.

(* ------------------------------------------------------------------ *)
(* which edges of U (= carried samples ++ all remaining input) get reported *)
(* ------------------------------------------------------------------ *)
Definition reported (d : detect) (m s0 : Z) (U : list bool) (k : kind) (a : Z) : Prop :=
  wanted d (k, a) = true /\
  exists p, a = p + s0 /\ edge_at U p k /\
            (k = Rising -> p <= zlen U - m) /\ (k = Falling -> m <= p).

Lemma split_reported : forall d m s0 w rest n k a,
  1 <= m -> zlen w = m + n -> 0 <= n ->
  (reported d m s0 (w ++ rest) k a <->
   reported d m s0 w k a \/ reported d m (s0 + n) (skipn (Z.to_nat n) (w ++ rest)) k a).
Proof.
  intros d m s0 w rest n k a Hm Hw Hn.
  assert (Hk : (Z.to_nat n <= length (w ++ rest))%nat) by (rewrite app_length; unfold zlen in Hw; lia).
  pose proof (zlen_nonneg _ rest) as Hr.
  assert (HU : zlen (w ++ rest) = m + n + zlen rest) by (rewrite zlen_app; lia).
  assert (HU' : zlen (skipn (Z.to_nat n) (w ++ rest)) = m + zlen rest) by (rewrite zlen_skipn by exact Hk; lia).
  unfold reported. split.
  - intros (Hwd & p & -> & E & PR & PF).
    destruct k.
    + specialize (PR eq_refl). destruct (Z_le_dec p n) as [L|L].
      * left. split; [exact Hwd|]. exists p. split; [reflexivity|]. split; [|split; [intros _; lia|discriminate]].
        apply (edge_at_prefix w rest). split; [exact E|lia].
      * right. split; [exact Hwd|]. exists (p - n). split; [lia|]. split; [|split; [intros _; lia|discriminate]].
        apply edge_at_skipn; [exact Hk|lia|]. replace (p - n + Z.of_nat (Z.to_nat n)) with p by lia. exact E.
    + specialize (PF eq_refl). destruct (Z_lt_dec p (m + n)) as [L|L].
      * left. split; [exact Hwd|]. exists p. split; [reflexivity|]. split; [|split; [discriminate|intros _; lia]].
        apply (edge_at_prefix w rest). split; [exact E|lia].
      * right. split; [exact Hwd|]. exists (p - n). split; [lia|]. split; [|split; [discriminate|intros _; lia]].
        apply edge_at_skipn; [exact Hk|lia|]. replace (p - n + Z.of_nat (Z.to_nat n)) with p by lia. exact E.
  - intros [(Hwd & p & -> & E & PR & PF)|(Hwd & p & -> & E & PR & PF)].
    + split; [exact Hwd|]. exists p. split; [reflexivity|].
      apply (edge_at_prefix w rest) in E. destruct E as [E El]. split; [exact E|].
      split; intros K; [specialize (PR K)|specialize (PF K)]; lia.
    + split; [exact Hwd|]. exists (p + n). split; [lia|].
      assert (P1 : 1 <= p) by (destruct E as [E _]; lia).
      apply edge_at_skipn in E; [|exact Hk|exact P1].
      replace (p + Z.of_nat (Z.to_nat n)) with (p + n) in E by lia. split; [exact E|].
      split; intros K; [specialize (PR K)|specialize (PF K)]; lia.
Qed.

(* everything this step reports precedes everything later steps report *)
Lemma cross_order : forall d m s0 w rest n k1 a1 k2 a2,
  1 <= m -> zlen w = m + n -> 0 <= n -> wclean m (w ++ rest) ->
  reported d m s0 w k1 a1 ->
  reported d m (s0 + n) (skipn (Z.to_nat n) (w ++ rest)) k2 a2 -> a1 < a2.
Proof.
  intros d m s0 w rest n k1 a1 k2 a2 Hm Hw Hn Hc
         (_ & p1 & -> & E1 & PR1 & PF1) (_ & p2 & -> & E2 & PR2 & PF2).
  assert (Hk : (Z.to_nat n <= length (w ++ rest))%nat) by (rewrite app_length; unfold zlen in Hw; lia).
  assert (P2 : 1 <= p2) by (destruct E2 as [E2 _]; lia).
  apply edge_at_skipn in E2; [|exact Hk|exact P2].
  replace (p2 + Z.of_nat (Z.to_nat n)) with (p2 + n) in E2 by lia.
  pose proof E1 as (R1 & _).
  apply (edge_at_prefix w rest) in E1. destruct E1 as [E1 _].
  destruct k1.
  - specialize (PR1 eq_refl). lia.
  - destruct k2.
    + destruct E1 as (A1 & A2 & A3). destruct E2 as (B1 & B2 & B3). cbn [is_rising negb] in *.
      destruct (Z_lt_dec p1 (p2 + n)) as [L|L]; [lia|]. exfalso.
      assert (p2 + n <> p1) by (intros K; rewrite K in B2; congruence).
      assert (m < p1 - (p2 + n)); [|lia].
      apply Hc; [lia|lia|congruence|congruence].
    + specialize (PF2 eq_refl). lia.
Qed.

Lemma run_from_char : forall d m, 1 <= m -> forall cs st,
  zlen (st_prior st) = m ->
  chunks_ok (st_annfs st) (st_s0 st + m) cs ->
  wclean m (st_prior st ++ stream cs) ->
  exists bs, run_from d m st cs = (bs, Ok) /\
    inc (concat (map evs bs)) /\
    (forall k a, In (k, a) (concat (map evs bs)) <->
                 reported d m (st_s0 st) (st_prior st ++ stream cs) k a) /\
    (forall E e, In E bs -> In e (evs E) -> e_start E < snd e < e_end E + m).
Proof.
  intros d m Hm. induction cs as [|c t IH]; intros st Hp Hok Hc.
  - exists []. split; [reflexivity|]. split; [exact I|]. split; [|intros E e []].
    intros k a. cbn [map concat In].
    split; [intros []|].
    intros (_ & p & _ & (P1 & _) & PR & PF). unfold stream in P1, PR. cbn [map concat] in P1, PR.
    rewrite app_nil_r in P1, PR.
    destruct k; [specialize (PR eq_refl)|specialize (PF eq_refl)]; lia.
  - destruct Hok as [Hann Hok]. rewrite stream_cons in *.
    set (w := st_prior st ++ c_data c) in *. set (n := zlen (c_data c)) in *.
    assert (Hw : zlen w = m + n) by (unfold w, n; rewrite zlen_app; lia).
    assert (Hn : 0 <= n) by apply zlen_nonneg.
    assert (HU : st_prior st ++ c_data c ++ stream t = w ++ stream t)
      by (unfold w; rewrite app_assoc; reflexivity).
    rewrite HU in *.
    assert (Hcw : wclean m w) by (eapply wclean_prefix; exact Hc).
    assert (Hj : joinable st c = true) by (apply joinable_ok; rewrite Hp; exact Hann).
    pose (st' := {| st_prior := py_slice (Some (- m)) None w; st_s0 := st_s0 st + n;
                    st_fs := st_fs st; st_ann := st_ann st |}).
    pose (E := {| evs := step_list d m (st_s0 st) w; e_start := st_s0 st;
                  e_end := st_s0 st + n; e_fs := st_fs st |}).
    assert (Hstep : step d m st c = Some (E, st')).
    { unfold step. rewrite Hj. fold w. fold n.
      rewrite (step_events_clean d m (st_s0 st) w) by (try lia; exact Hcw). reflexivity. }
    assert (Hkn : (Z.to_nat n <= length w)%nat) by (unfold zlen in Hw; lia).
    assert (Hpr : st_prior st' = skipn (Z.to_nat n) w).
    { cbn [st' st_prior]. rewrite py_tail by lia. f_equal. lia. }
    assert (HU' : st_prior st' ++ stream t = skipn (Z.to_nat n) (w ++ stream t)).
    { rewrite Hpr, skipn_app. replace (Z.to_nat n - length w)%nat with 0%nat by lia. reflexivity. }
    destruct (IH st') as (bs' & R1 & R2 & R3 & R4).
    + rewrite Hpr, zlen_skipn by exact Hkn. lia.
    + unfold st_annfs in *. cbn [st' st_s0 st_ann st_fs].
      replace (st_s0 st + n + m) with (st_s0 st + m + n) by lia. exact Hok.
    + rewrite HU'. apply wclean_skipn; [rewrite app_length; lia|exact Hc].
    + rewrite HU' in R3. cbn [st' st_s0] in R3.
      assert (M1 : forall k a, In (k, a) (step_list d m (st_s0 st) w) <-> reported d m (st_s0 st) w k a).
      { intros k a. apply window_events; assumption. }
      exists (E :: bs'). split; [cbn [run_from]; rewrite Hstep, R1; reflexivity|].
      cbn [map concat]. cbn [E evs]. split.
      * apply inc_app. split; [apply step_list_inc|]. split; [exact R2|].
        intros [k1 a1] [k2 a2] I1 I2. cbn [snd].
        apply M1 in I1. apply R3 in I2.
        eapply (cross_order d m (st_s0 st) w (stream t) n); eassumption.
      * split; [intros k a; rewrite in_app_iff, M1, R3; symmetry; apply split_reported; assumption|].
        intros E0 [k a] [<-|HE] He; [|apply R4; assumption].
        cbn [E evs e_start e_end snd] in *. apply M1 in He.
        destruct He as (_ & p & -> & (P1 & _) & PR & PF).
        destruct k; [specialize (PR eq_refl)|specialize (PF eq_refl)]; lia.
Qed.

(* ------------------------------------------------------------------ *)
(* the boolean precondition implies the positional one                  *)
(* ------------------------------------------------------------------ *)
Definition wcleanx (m : Z) (prev : bool) (x : list bool) : Prop :=
  forall i j, 0 <= i -> i < j < zlen x -> xbit prev x (i - 1) <> bit x i -> bit x j <> bit x i -> m < j - i.

Lemma clean_aux_spec : forall m x prev cnt, clean_aux m prev cnt x = true ->
  (forall j, 0 <= j < zlen x -> bit x j <> prev -> m < cnt + j) /\ wcleanx m prev x.
Proof.
  intros m. induction x as [|b t IH]; intros prev cnt H.
  - split; [intros j Hj; rewrite zlen_nil in Hj; lia|intros i j Hi Hj; rewrite zlen_nil in Hj; lia].
  - cbn [clean_aux] in H. rewrite zlen_cons. destruct (Bool.eqb b prev) eqn:E.
    + apply eqb_prop in E. subst b. destruct (IH _ _ H) as [I1 I2]. split.
      * intros j Hj Hb. rewrite bit_cons in Hb. destruct (j =? 0) eqn:E0; [congruence|].
        assert (m < cnt + 1 + (j - 1)) by (apply I1; [lia|exact Hb]). lia.
      * intros i j Hi Hj H1 H2. rewrite zlen_cons in Hj. destruct (Z.eq_dec i 0) as [->|Ni].
        -- exfalso. apply H1. reflexivity.
        -- rewrite xbit_cons in H1 by lia. rewrite (bit_cons prev t i) in H1, H2.
           rewrite (bit_cons prev t j) in H2.
           destruct (i =? 0) eqn:Ei; [lia|]. destruct (j =? 0) eqn:Ej; [lia|].
           assert (m < (j - 1) - (i - 1)); [|lia]. apply I2; [lia|lia|exact H1|exact H2].
    + apply andb_true_iff in H. destruct H as [Hcnt H]. destruct (IH _ _ H) as [I1 I2]. split.
      * intros j Hj Hb. lia.
      * intros i j Hi Hj H1 H2. rewrite zlen_cons in Hj. destruct (Z.eq_dec i 0) as [->|Ni].
        -- rewrite (bit_cons b t j), (bit_cons b t 0) in H2. cbn [Z.eqb] in H2.
           destruct (j =? 0) eqn:Ej; [lia|].
           assert (m < 1 + (j - 1)) by (apply I1; [lia|exact H2]). lia.
        -- rewrite xbit_cons in H1 by lia. rewrite (bit_cons b t i) in H1, H2.
           rewrite (bit_cons b t j) in H2.
           destruct (i =? 0) eqn:Ei; [lia|]. destruct (j =? 0) eqn:Ej; [lia|].
           assert (m < (j - 1) - (i - 1)); [|lia]. apply I2; [lia|lia|exact H1|exact H2].
Qed.

Lemma clean_wclean : forall m init x, 0 <= m -> clean m init x = true ->
  wclean m (repeat init (Z.to_nat m) ++ x).
Proof.
  intros m init x Hm H. destruct (clean_aux_spec _ _ _ _ H) as [_ Hx].
  intros i j Hi Hj H1 H2. rewrite zlen_app, zlen_repeat in Hj.
  rewrite !bit_prefix_rep in H1, H2 by lia. rewrite Z2Nat.id in * by lia.
  destruct (Z_lt_dec i m) as [L|L].
  - exfalso. apply H1. unfold xbit. destruct (i - 1 - m <? 0) eqn:E1; [|lia].
    destruct (i - m <? 0) eqn:E2; [reflexivity|lia].
  - assert (m < (j - m) - (i - m)); [|lia].
    assert (X1 : xbit init x (i - m) = bit x (i - m)) by (unfold xbit; destruct (i - m <? 0) eqn:E; [lia|reflexivity]).
    assert (X2 : xbit init x (j - m) = bit x (j - m)) by (unfold xbit; destruct (j - m <? 0) eqn:E; [lia|reflexivity]).
    rewrite X1 in H1, H2. rewrite X2 in H2.
    apply Hx; [lia|lia| |exact H2]. replace (i - m - 1) with (i - 1 - m) by lia. exact H1.
Qed.

Lemma clean_aux_prefix : forall m a b prev cnt, clean_aux m prev cnt (a ++ b) = true -> clean_aux m prev cnt a = true.
Proof.
  intros m. induction a as [|x a IH]; intros b prev cnt H; [reflexivity|].
  cbn [app clean_aux] in *. destruct (Bool.eqb x prev).
  - eapply IH. exact H.
  - apply andb_true_iff in H. destruct H as [H1 H2]. apply andb_true_iff. split; [exact H1|].
    eapply IH. exact H2.
Qed.

(* ------------------------------------------------------------------ *)
(* the whole run                                                        *)
(* ------------------------------------------------------------------ *)
Lemma start_facts : forall m init fs_arg c t first, 0 <= m -> input_ok first (c :: t) ->
  let st := start m init fs_arg c in
  zlen (st_prior st) = m /\ st_prior st = repeat init (Z.to_nat m) /\ st_s0 st = first - m /\
  chunks_ok (st_annfs st) (st_s0 st + m) (c :: t).
Proof.
  intros m init fs_arg c t first Hm Hin. cbn zeta.
  destruct Hin as [[-> Hok]|[fs Hok]]; pose proof Hok as [Ha _]; unfold start; rewrite Ha; cbn [option_map];
    cbn [st_prior st_s0]; (split; [rewrite zlen_repeat; lia|]); (split; [reflexivity|]); (split; [lia|]);
    unfold st_annfs; cbn [st_ann st_fs st_s0].
  - replace (- m + m) with 0 by lia. exact Hok.
  - replace (first - m + m) with first by lia. exact Hok.
Qed.

(* reported edges of U0 = (m copies of the initial state) ++ stream are the due transitions *)
Lemma reported_transitions : forall d m init first x k a, 1 <= m ->
  (reported d m (first - m) (repeat init (Z.to_nat m) ++ x) k a <->
   In (k, a) (filter (wanted d) (filter (due_by m (first + zlen x)) (transitions init first x)))).
Proof.
  intros d m init first x k a Hm.
  rewrite !filter_In, transitions_In. unfold reported, edge_at.
  rewrite zlen_app, zlen_repeat, Z2Nat.id by lia.
  unfold due_by. cbn [fst snd]. split.
  - intros (Hwd & p & -> & (P1 & P2 & P3) & PR & PF).
    rewrite !bit_prefix_rep in P2, P3 by lia. rewrite Z2Nat.id in P2, P3 by lia.
    assert (Hpm : m <= p).
    { destruct (Z_le_dec m p) as [L|L]; [exact L|]. exfalso. unfold xbit in P2, P3.
      destruct (p - m <? 0) eqn:E1; [|lia]. destruct (p - 1 - m <? 0) eqn:E2; [|lia].
      rewrite P2 in P3. destruct (is_rising k); discriminate. }
    split; [|exact Hwd]. split.
    + exists (p - m). split; [lia|]. split; [lia|]. split.
      * unfold xbit in P2. destruct (p - m <? 0) eqn:E; [lia|exact P2].
      * replace (p - m - 1) with (p - 1 - m) by lia. exact P3.
    + destruct k; [specialize (PR eq_refl)|]; lia.
  - intros (((j & Hj & -> & B1 & B2) & Hdue) & Hwd).
    split; [exact Hwd|]. exists (j + m). split; [lia|]. split; [|split].
    + rewrite !bit_prefix_rep by lia. rewrite Z2Nat.id by lia. split; [lia|]. split.
      * replace (j + m - m) with j by lia. unfold xbit. destruct (j <? 0) eqn:E; [lia|exact B1].
      * replace (j + m - 1 - m) with (j - 1) by lia. exact B2.
    + intros ->. lia.
    + intros _. lia.
Qed.

Lemma all_full : forall d m init fs_arg cs first,
  1 <= m -> input_ok first cs -> clean m init (stream cs) = true ->
  exists bs, run_edges d m init fs_arg cs = (bs, Ok) /\
    concat (map evs bs) =
    filter (wanted d) (filter (due_by m (first + zlen (stream cs))) (transitions init first (stream cs))) /\
    (forall E e, In E bs -> In e (evs E) -> e_start E < snd e < e_end E + m).
Proof.
  intros d m init fs_arg cs first Hm Hin Hcl. unfold run_edges.
  destruct (m <? 1) eqn:E; [lia|].
  destruct cs as [|c t].
  - exists []. split; [reflexivity|]. split; [reflexivity|intros E0 e []].
  - destruct (start_facts m init fs_arg c t first ltac:(lia) Hin) as (S1 & S2 & S3 & S4).
    destruct (run_from_char d m Hm (c :: t) (start m init fs_arg c) S1 S4) as (bs & R1 & R2 & R3 & R4).
    + rewrite S2. apply clean_wclean; [lia|exact Hcl].
    + exists bs. split; [exact R1|]. split; [|exact R4]. apply inc_ext.
      * exact R2.
      * apply inc_filter. apply inc_filter. apply transitions_inc.
      * intros [k a]. rewrite R3, S2, S3. apply reported_transitions. exact Hm.
Qed.

(* ------------------------------------------------------------------ *)
(* prefixes of the input: what has been reported after kk chunks        *)
(* ------------------------------------------------------------------ *)
Lemma run_from_firstn : forall d m cs st bs kk, run_from d m st cs = (bs, Ok) ->
  run_from d m st (firstn kk cs) = (firstn kk bs, Ok).
Proof.
  intros d m. induction cs as [|c t IH]; intros st bs kk H.
  - cbn in H. inversion H; subst. destruct kk; reflexivity.
  - destruct kk as [|kk]; [reflexivity|].
    cbn [run_from firstn] in *. destruct (step d m st c) as [[E st']|]; [|discriminate].
    destruct (run_from d m st' t) as [bs' s'] eqn:Hr. inversion H; subst.
    rewrite (IH st' bs' kk Hr). reflexivity.
Qed.

Lemma run_edges_firstn : forall d m init fs cs bs kk, run_edges d m init fs cs = (bs, Ok) ->
  run_edges d m init fs (firstn kk cs) = (firstn kk bs, Ok).
Proof.
  intros d m init fs cs bs kk H. unfold run_edges in *. destruct (m <? 1); [discriminate|].
  destruct cs as [|c t].
  - inversion H; subst. destruct kk; reflexivity.
  - destruct kk as [|kk]; [reflexivity|].
    change (match firstn (S kk) (c :: t) with [] => ([], Ok) | c0 :: _ => run_from d m (start m init fs c0) (firstn (S kk) (c :: t)) end)
      with (run_from d m (start m init fs c) (firstn (S kk) (c :: t))).
    apply run_from_firstn. exact H.
Qed.

Lemma chunks_ok_firstn : forall fs cs pos kk, chunks_ok fs pos cs -> chunks_ok fs pos (firstn kk cs).
Proof.
  intros fs. induction cs as [|c t IH]; intros pos kk H; [destruct kk; exact I|].
  destruct kk as [|kk]; [exact I|]. destruct H as [H1 H2]. cbn [firstn chunks_ok].
  split; [exact H1|apply IH; exact H2].
Qed.

Lemma input_ok_firstn : forall first cs kk, input_ok first cs -> input_ok first (firstn kk cs).
Proof.
  intros first cs kk [[H1 H2]|[fs H]]; [left; split; [exact H1|]|right; exists fs];
    apply chunks_ok_firstn; assumption.
Qed.

Lemma stream_split : forall kk cs, stream cs = stream (firstn kk cs) ++ stream (skipn kk cs).
Proof.
  intros kk cs. unfold stream. rewrite <- concat_app, <- map_app, firstn_skipn. reflexivity.
Qed.

Lemma transitions_app : forall a b prev i,
  transitions prev i (a ++ b) = transitions prev i a ++ transitions (last a prev) (i + zlen a) b.
Proof.
  induction a as [|x a IH]; intros b prev i.
  - cbn [app transitions last]. rewrite zlen_nil. f_equal. lia.
  - cbn [app transitions]. rewrite IH, <- app_assoc. f_equal. rewrite zlen_cons, last_cons.
    replace (i + (1 + zlen a)) with (i + 1 + zlen a) by lia. reflexivity.
Qed.

Lemma filter_none : forall (f : ev -> bool) l, (forall e, In e l -> f e = false) -> filter f l = [].
Proof.
  intros f. induction l as [|x l IH]; intros H; [reflexivity|].
  cbn [filter]. rewrite (H x (or_introl eq_refl)). apply IH. intros e He. apply H. right. exact He.
Qed.

Lemma due_prefix : forall m a b prev i, 1 <= m ->
  filter (due_by m (i + zlen a)) (transitions prev i (a ++ b)) =
  filter (due_by m (i + zlen a)) (transitions prev i a).
Proof.
  intros m a b prev i Hm. rewrite transitions_app, filter_app.
  rewrite (filter_none _ (transitions (last a prev) (i + zlen a) b)); [apply app_nil_r|].
  intros [k p] He. apply transitions_lb in He. cbn [snd] in He. unfold due_by. cbn [fst snd].
  destruct k; lia.
Qed.

(* C13_all_chunkings *)
Lemma all_chunkings : forall d m init fs_arg cs first,
  1 <= m -> input_ok first cs -> clean m init (stream cs) = true ->
  exists bs, run_edges d m init fs_arg cs = (bs, Ok) /\
    forall kk : nat,
      concat (map evs (firstn kk bs)) =
      filter (wanted d)
        (filter (due_by m (first + zlen (stream (firstn kk cs)))) (transitions init first (stream cs))).
Proof.
  intros d m init fs_arg cs first Hm Hin Hcl.
  destruct (all_full d m init fs_arg cs first Hm Hin Hcl) as (bs & R & _).
  exists bs. split; [exact R|]. intros kk.
  destruct (all_full d m init fs_arg (firstn kk cs) first Hm) as (bk & Rk & Ek & _).
  - apply input_ok_firstn. exact Hin.
  - unfold clean in *. rewrite (stream_split kk cs) in Hcl. eapply clean_aux_prefix. exact Hcl.
  - rewrite (run_edges_firstn _ _ _ _ _ _ kk R) in Rk. inversion Rk; subst bk.
    rewrite Ek. f_equal. rewrite (stream_split kk cs). symmetry. apply due_prefix. exact Hm.
Qed.

(* all of it at once, plus where the events of a block lie *)
Lemma all_chunkings_whole : forall d m init fs_arg cs first,
  1 <= m -> input_ok first cs -> clean m init (stream cs) = true ->
  exists bs, run_edges d m init fs_arg cs = (bs, Ok) /\
    concat (map evs bs) =
    filter (wanted d) (filter (due_by m (first + zlen (stream cs))) (transitions init first (stream cs))) /\
    (forall E e, In E bs -> In e (evs E) -> e_start E < snd e < e_end E + m).
Proof. exact all_full. Qed.

(* once the stream has been steady for m samples nothing is pending *)
Lemma transitions_shift : forall x prev i c,
  transitions prev (i + c) x = map (fun e => (fst e, snd e + c)) (transitions prev i x).
Proof.
  induction x as [|b t IH]; intros prev i c; [reflexivity|].
  cbn [transitions]. rewrite map_app. f_equal.
  - destruct (negb prev && b); [reflexivity|]. destruct (prev && negb b); reflexivity.
  - replace (i + c + 1) with (i + 1 + c) by lia. apply IH.
Qed.

Lemma settled_all_due : forall m init first x, 1 <= m -> settled m init x = true ->
  filter (due_by m (first + zlen x)) (transitions init first x) = transitions init first x.
Proof.
  intros m init first x Hm H. apply filter_all. intros e He.
  replace first with (0 + first) in He by lia. rewrite transitions_shift in He.
  apply in_map_iff in He. destruct He as ([k p] & <- & Hin).
  unfold settled in H. rewrite forallb_forall in H. specialize (H _ Hin). cbn [fst snd] in *.
  unfold due_by. cbn [fst snd]. destruct k; lia.
Qed.

Lemma all_transitions_when_settled : forall d m init fs_arg cs first,
  1 <= m -> input_ok first cs -> clean m init (stream cs) = true -> settled m init (stream cs) = true ->
  exists bs, run_edges d m init fs_arg cs = (bs, Ok) /\
    concat (map evs bs) = filter (wanted d) (transitions init first (stream cs)).
Proof.
  intros d m init fs_arg cs first Hm Hin Hcl Hs.
  destruct (all_full d m init fs_arg cs first Hm Hin Hcl) as (bs & R & E & _).
  exists bs. split; [exact R|]. rewrite E, settled_all_due by assumption. reflexivity.
Qed.

(* ------------------------------------------------------------------ *)
(* witnesses                                                            *)
(* ------------------------------------------------------------------ *)
Definition plain (x : list bool) : chunk := {| c_ann := None; c_data := x |}.

(* without the run-length precondition the reported events depend on the chunking:
   1 1 1 0 1 1 1 after a high initial state, debounce 2: nothing as one chunk, a falling and a
   rising event when the boundary falls right after the low sample *)
Lemma unclean_chunking_dependent :
  exists m init x c1 c2,
    clean m init x = false /\ stream c1 = x /\ stream c2 = x /\
    input_ok 0 c1 /\ input_ok 0 c2 /\
    concat (map evs (fst (run_edges DBoth m init 1000 c1))) <>
    concat (map evs (fst (run_edges DBoth m init 1000 c2))).
Proof.
  exists 2, true, [true; true; true; false; true; true; true],
         [plain [true; true; true; false; true; true; true]],
         [plain [true; true; true; false]; plain [true; true; true]].
  split; [reflexivity|]. split; [reflexivity|]. split; [reflexivity|].
  split; [left; cbn; auto|]. split; [left; cbn; auto|].
  vm_compute. discriminate.
Qed.

(* a block can hold an event that lies outside its own span [start, end): the falling edge is
   reported as soon as its sample arrives, while the block spans are delayed by m *)
Lemma event_outside_block :
  exists m init cs bs E,
    clean m init (stream cs) = true /\ input_ok 0 cs /\
    run_edges DBoth m init 1000 cs = (bs, Ok) /\ In E bs /\ ~ contained E.
Proof.
  exists 2, false,
    [plain [false; true; true; true; false; false; false; true]; plain [true; true]; plain [false]].
  eexists. eexists.
  split; [reflexivity|]. split; [left; cbn; auto|].
  split; [vm_compute; reflexivity|].
  split; [right; right; left; reflexivity|].
  intros H. specialize (H (Falling, 10) (or_introl eq_refl)). cbn in H. lia.
Qed.

(* non-vacuity of the hypotheses of all_chunkings *)
Example all_chunkings_ex :
  let cs := [plain [false; true]; plain [true; true; false]; plain []; plain [false; false; true; true]] in
  1 <= 2 /\ input_ok 0 cs /\ clean 2 false (stream cs) = true /\
  concat (map evs (fst (run_edges DBoth 2 false 1000 cs))) = [(Rising, 1); (Falling, 4); (Rising, 7)].
Proof. cbn zeta. split; [lia|]. split; [left; cbn; repeat split|]. split; [vm_compute; reflexivity|vm_compute; reflexivity]. Qed.
