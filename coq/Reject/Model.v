(* Model of psiaudio.pipeline.reject_epochs (a coroutine: one step per batch sent to it).
   Definitions only; proofs in Reject/Proofs.v.

   The accept mask is computed on the plain array; an annotated batch is masked through the
   PipelineData.__getitem__ model of PData/Model.v (`data[mask]` with a NumPy boolean array as the bare
   index), so the pairing of epochs with their metadata goes through the very code path of C11.
   Sample values are integers (the harness uses integer-valued floats, so `<` is exact). *)
From PV Require Export PData.Model.

Inductive mode := MAbs (* 'absolute value' *) | MPtp (* 'amplitude' *).

(* a batch: plain ndarray (shape, data) or annotated array *)
Inductive batch := BPlain (sh : list Z) (d : nest) | BAnn (x : pd).

Definition maxl (l : list Z) : Z := fold_right Z.max (hd 0 l) l.      (* np.max over a non-empty axis *)
Definition minl (l : list Z) : Z := fold_right Z.min (hd 0 l) l.
Definition crit (m : mode) (ep : list Z) : Z :=
  match m with
  | MAbs => maxl (map Z.abs ep)              (* np.max(np.abs(s), axis=-1) *)
  | MPtp => maxl ep - minl ep                (* np.ptp(s, axis=-1) *)
  end.

Definition shape_of (b : batch) : list Z := match b with BPlain sh _ => sh | BAnn x => shape x end.
Definition dat_of (b : batch) : nest := match b with BPlain _ d => d | BAnn x => dat x end.

(* the two input validations; every refusal is a ValueError *)
Definition valid (b : batch) : bool :=
  match b with
  | BAnn x =>
    (* n_channels = 1 if ndim == 1 else shape[-2];  n_epochs = None if ndim < 3 else shape[-3] *)
    match shape x with
    | [_] => false                       (* one channel, but un-epoched *)
    | [c; _] => false                    (* multichannel (c <> 1) or un-epoched (c = 1) *)
    | [_; c; _] => c =? 1
    | _ => false
    end
  | BPlain sh _ =>
    match sh with
    | [_; c; _] => c =? 1
    | _ => false
    end
  end.

(* accept(np.asarray(data), th)[:, 0] *)
Definition accept_mask (m : mode) (th : Z) (d : nest) : list bool :=
  match d with
  | N3 e => map (fun blk => crit m (hd [] blk) <? th) e
  | _ => []
  end.

Inductive fwd := FPlain (sh : list Z) (d : nest) | FAnn (x : pd).
Inductive out :=
| OErr (e : err)
| OStop                                           (* the coroutine has terminated (StopIteration) *)
| OOut (forwarded : option fwd) (status : list bool).

(* data[mask] *)
Definition mask_batch (b : batch) (mask : list bool) : err + fwd :=
  match b with
  | BPlain sh d =>
    match np_getitem sh d [IMask mask true] with
    | NPArr sh' d' => inr (FPlain sh' d')
    | _ => inl EIndex
    end
  | BAnn x =>
    match getitem x {| sole := true; items := [IMask mask true] |} with
    | RArr r => inr (FAnn r)              (* add_metadata('reject_threshold', th) leaves the identifiers alone *)
    | RErr e => inl e
    | RScalar _ => inl ETypeKey
    end
  end.
Definition fwd_len (f : fwd) : Z := match f with FPlain sh _ => hd 0 sh | FAnn x => hd 0 (shape x) end.

(* one batch with the threshold in force *)
Definition step1 (m : mode) (th : Z) (b : batch) : out :=
  if valid b then
    let mask := accept_mask m th (dat_of b) in
    match mask_batch b mask with
    | inl e => OErr e
    | inr f => OOut (if fwd_len f =? 0 then None else Some f) mask
    end
  else OErr EValue.

(* the threshold: a constant, or a callable read once per (valid) batch: its successive return values *)
Inductive thr := TConst (th : Z) | TCall (ths : list Z).
Definition thr_now (t : thr) : Z := match t with TConst th => th | TCall l => hd 0 l end.
Definition thr_next (t : thr) : thr := match t with TConst th => t | TCall l => TCall (tl l) end.

(* the coroutine over a sequence of batches: an exception terminates it *)
Fixpoint run (m : mode) (t : thr) (alive : bool) (bs : list batch) : list out :=
  match bs with
  | [] => []
  | b :: rest =>
    if alive then
      if valid b then step1 m (thr_now t) b ::
                      run m (thr_next t) (match step1 m (thr_now t) b with OErr _ => false | _ => true end) rest
      else OErr EValue :: run m t false rest
    else OStop :: run m t false rest
  end.

(* ---- comparison used by the generated case files ---- *)
Definition eqb_fwd (a b : fwd) : bool :=
  match a, b with
  | FPlain s d, FPlain s' d' => eqb_listZ s s' && eqb_listZ (flat d) (flat d')
  | FAnn x, FAnn y => eqb_pd x y
  | _, _ => false
  end.
Definition eqb_out (a b : out) : bool :=
  match a, b with
  | OErr e, OErr f => eqb_err e f
  | OStop, OStop => true
  | OOut f s, OOut g t => eqb_option eqb_fwd f g && eqb_list Bool.eqb s t
  | _, _ => false
  end.
Definition mk_plain (sh : list Z) (vals : list Z) : batch :=
  match renest sh vals with NPArr _ d => BPlain sh d | _ => BPlain sh (N1 vals) end.
Definition mk_ann (sh : list Z) (vals : list Z) (s0 fsn fsd : Z) (ch md : lab) : batch :=
  match renest sh vals with
  | NPArr _ d => BAnn {| shape := sh; dat := d; s0 := s0; fsn := fsn; fsd := fsd; chan := ch; meta := md |}
  | _ => BPlain sh (N1 vals)
  end.
Definition fwd_plain (sh : list Z) (vals : list Z) : fwd :=
  match renest sh vals with NPArr _ d => FPlain sh d | _ => FPlain sh (N1 vals) end.
Definition fwd_ann (sh : list Z) (vals : list Z) (s0 fsn fsd : Z) (ch md : lab) : fwd :=
  match renest sh vals with
  | NPArr _ d => FAnn {| shape := sh; dat := d; s0 := s0; fsn := fsn; fsd := fsd; chan := ch; meta := md |}
  | _ => FPlain sh (N1 vals)
  end.
Definition check_run (m : mode) (t : thr) (bs : list batch) (got : list out) : bool :=
  eqb_list eqb_out (run m t true bs) got.

(* ================================================================== added by the harness coverage audit *)
(* status_cb = None: only what reaches valid_target is observable *)
Definition out_fwd (o : out) : out := match o with OOut f _ => OOut f [] | o' => o' end.
Definition check_run_fwd (m : mode) (t : thr) (bs : list batch) (got : list out) : bool :=
  eqb_list eqb_out (map out_fwd (run m t true bs)) (map out_fwd got).
