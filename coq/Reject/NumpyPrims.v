(* The small Python / NumPy vocabulary used by psiaudio.pipeline.reject_epochs (and by the two PipelineData
   properties it reads, n_channels and n_epochs), one Gallina definition per primitive.  coq/gen/RejectGen.v
   (regenerated from the source by translate/pyreject2coq.py on every run) is written in this vocabulary only.
   Definitions only; they are MODELLED, not verified: the translator's self-test evaluates the generated definitions
   (hence these primitives) by vm_compute against the real coroutine on every run.  Reject/ProofsTie.v proves the
   generated definitions equal to the hand-written model of Reject/Model.v.

   Values: a batch is the model's [batch] (plain ndarray = shape + nested samples, or annotated array [pd]); the
   double-precision copy of a 3-D batch is [arr3] (epochs x channels x samples, exact on the model's integers); what
   reaches valid_target is the model's [fwd]; a 1-D boolean array is [list bool].  [M A] = err + A: inl e = the code
   raises e (the model's exception classes: EValue = ValueError, EIndex = IndexError, ETypeKey = TypeError / KeyError,
   EUnbound = UnboundLocalError / NameError). *)
From PV Require Export Reject.Model.

Definition arr3 : Type := list (list (list Z)).
Definition arr2 : Type := list (list Z).
Definition arr2b : Type := list (list bool).

(* ------------------------------------------------------------------ exceptions *)
Definition M (A : Type) : Type := (err + A)%type.
Definition ret {A} (a : A) : M A := inr a.
Definition raise {A} (e : err) : M A := inl e.
Definition bind {A B} (x : M A) (f : A -> M B) : M B := match x with inl e => inl e | inr a => f a end.

(* reading a local name that is assigned on some paths only: UnboundLocalError where it was not *)
Definition py_bound {A} (v : option A) : M A := match v with Some a => inr a | None => inl EUnbound end.

(* ------------------------------------------------------------------ Python values of the set-up *)
(* the `mode` argument: a string; Some m = the string the harness passes for the model's mode m, None = any other *)
Definition py_str_eq (s : option mode) (c : mode) : bool :=
  match s, c with
  | Some MAbs, MAbs => true
  | Some MPtp, MPtp => true
  | _, _ => false
  end.

(* the `reject_threshold` argument is the model's [thr]: a number (TConst) or a callable handing out the successive
   numbers of its list (TCall) *)
Definition py_callable (t : thr) : bool := match t with TCall _ => true | TConst _ => false end.

(* the object bound to __th_cb__: `lambda: v` or v itself;  calling it with no argument returns a number and the
   object as it is afterwards.  A lambda around a callable returns the callable (array < function: TypeError); a number
   is not callable (TypeError). *)
Inductive thunk := ThLambda (v : thr) | ThSame (v : thr).
Definition py_call0 (c : thunk) : M (Z * thunk) :=
  match c with
  | ThLambda (TConst v) => ret (v, c)
  | ThSame (TCall l) => ret (hd 0 l, ThSame (TCall (tl l)))
  | ThLambda (TCall _) => raise ETypeKey
  | ThSame (TConst _) => raise ETypeKey
  end.

(* x is None for an optional integer (PipelineData.n_epochs) *)
Definition py_is_none (o : option Z) : bool := match o with None => true | Some _ => false end.

(* ------------------------------------------------------------------ shapes *)
(* t[i] on a tuple of integers: negative i counts from the end, out of range raises IndexError *)
Definition py_item (l : list Z) (i : Z) : M Z :=
  let n := zlen l in
  if (0 <=? i) && (i <? n) then ret (nth (Z.to_nat i) l 0)
  else if (- n <=? i) && (i <? 0) then ret (nth (Z.to_nat (n + i)) l 0)
  else raise EIndex.

Definition np_ndim (b : batch) : Z := zlen (shape_of b).                   (* data.ndim *)
Definition np_shape_at (b : batch) (i : Z) : M Z := py_item (shape_of b) i.   (* data.shape[i] *)
Definition pd_ndim (x : pd) : Z := zlen (shape x).                         (* self.ndim *)
Definition pd_shape_at (x : pd) (i : Z) : M Z := py_item (shape x) i.      (* self.shape[i] *)
Definition py_len (b : batch) : Z := hd 0 (shape_of b).                    (* len(data) *)
Definition py_len_fwd (f : fwd) : Z :=                                     (* len(valid_data) *)
  match f with FPlain sh _ => hd 0 sh | FAnn x => hd 0 (shape x) end.

(* ------------------------------------------------------------------ the criterion, in double precision *)
(* np.asarray(data, dtype=np.double) of a 3-D batch: exact on the model's integer samples *)
Definition np_asarray_double (b : batch) : arr3 := match dat_of b with N3 d => d | _ => [] end.

Definition np_abs (s : arr3) : arr3 := map (map (map Z.abs)) s.            (* np.abs(s) *)
Definition row_max (r : list Z) : Z := match r with [] => 0 | x :: t => fold_left Z.max t x end.
Definition row_min (r : list Z) : Z := match r with [] => 0 | x :: t => fold_left Z.min t x end.
(* np.max(s, axis=-1), np.ptp(s, axis=-1): over the time axis (non-empty: NumPy raises ValueError on an empty one) *)
Definition np_max_last (s : arr3) : arr2 := map (map row_max) s.
Definition np_ptp_last (s : arr3) : arr2 := map (map (fun r => row_max r - row_min r)) s.
Definition np_lt_s (a : arr2) (th : Z) : arr2b := map (map (fun v => v <? th)) a.     (* a < th *)

(* a[:, 0] on a 2-D array: IndexError when the second axis is empty *)
Fixpoint np_col0 {A} (a : list (list A)) : M (list A) :=
  match a with
  | [] => ret []
  | r :: t => match r with
              | [] => raise EIndex
              | x :: _ => bind (np_col0 t) (fun l => ret (x :: l))
              end
  end.

(* ------------------------------------------------------------------ boolean row selection *)
(* l[mask] along the first axis (a copy); a mask of another length raises IndexError *)
Definition np_select {A} (mask : list bool) (l : list A) : M (list A) :=
  if zlen mask =? zlen l then ret (mask_sel mask l) else raise EIndex.

(* data[mask] with a 1-D boolean ndarray on a 3-D batch: the selected epochs, and - for an annotated array
   (PipelineData.__getitem__) - the metadata entries selected by the same mask; s0, fs and the channel labels stay *)
Definition py_getitem_mask (b : batch) (mask : list bool) : M fwd :=
  match b with
  | BPlain sh d =>
    match d with
    | N3 e => bind (np_select mask e) (fun e' => ret (FPlain (zlen e' :: tl sh) (N3 e')))
    | _ => raise EIndex
    end
  | BAnn x =>
    match dat x, meta x with
    | N3 e, LMany ms =>
      bind (np_select mask e) (fun e' =>
      bind (np_select mask ms) (fun ms' =>
      ret (FAnn {| shape := zlen e' :: tl (shape x); dat := N3 e'; s0 := s0 x; fsn := fsn x; fsd := fsd x;
                   chan := chan x; meta := LMany ms' |})))
    | _, _ => raise EIndex
    end
  end.

(* ------------------------------------------------------------------ callbacks and the generator *)
(* status_cb(mask): what the callback received; calling None raises TypeError *)
Definition py_call_cb (cb : bool) (m : list bool) : M (option (list bool)) :=
  if cb then ret (Some m) else raise ETypeKey.
(* what status_cb received (nothing when it is None or was not reached) *)
Definition py_status (s : option (list bool)) : list bool := match s with Some m => m | None => [] end.

(* a started generator driven by send(): an exception escapes to the caller and ends the generator; every later send
   raises StopIteration *)
Fixpoint coroutine_run {S B} (step : S -> B -> M (S * out)) (st : option S) (bs : list B) : list out :=
  match bs with
  | [] => []
  | b :: rest =>
    match st with
    | None => OStop :: coroutine_run step None rest
    | Some s => match step s b with
                | inl e => OErr e :: coroutine_run step None rest
                | inr (s', o) => o :: coroutine_run step (Some s') rest
                end
    end
  end.
