(* TRANSLATOR TIE for C17.  coq/gen/RejectGen.v is regenerated from psiaudio/pipeline.py on every run by
   translate/pyreject2coq.py: the coroutine reject_epochs as a set-up function and a step function (statement by
   statement, in the Python / NumPy vocabulary of Reject/NumpyPrims.v), and the PipelineData properties n_channels and
   n_epochs it reads.  Here the generated definitions are proved EQUAL to the hand-written model of Reject/Model.v
   (with the explicit status-callback flag of Reject/ProofsX.v) the C17 theorems are about - for every mode, every
   threshold (constant or a callable with any sequence of values), with and without a status callback, and every batch
   in the model's domain [dom]: a good batch (Reject/Spec.v), or a batch the model refuses that has the 1..3 dimensions
   an annotated array of PData/Model.v can have.  With that, the theorems of Reject/Proofs.v are theorems about what the
   source says now.  Stdlib only; everything is closed under the global context. *)
From Coq Require Import ZArith List Bool Lia ZifyBool.
From PV Require Import PData.Model PData.Spec PData.Proofs Reject.Model Reject.Spec Reject.Proofs Reject.ProofsX
                       Reject.NumpyPrims gen.RejectGen.
Import ListNotations.
Open Scope Z_scope.

(* ------------------------------------------------------------------ the model's domain *)
(* an annotated array of PData/Model.v has 1..3 dimensions *)
Definition dims13 (b : batch) : Prop :=
  match b with BAnn x => 1 <= zlen (shape x) <= 3 | BPlain _ _ => True end.
Definition dom (b : batch) : Prop := good b \/ (valid b = false /\ dims13 b).

(* what the set-up leaves in the state: the criterion chosen by the mode, the threshold callback *)
Definition acc_of (m : mode) : arr3 -> Z -> arr2b :=
  match m with
  | MAbs => fun s th => np_lt_s (np_max_last (np_abs s)) th
  | MPtp => fun s th => np_lt_s (np_ptp_last s) th
  end.
Definition thunk_of (t : thr) : thunk := match t with TConst _ => ThLambda t | TCall _ => ThSame t end.
Definition st_of (cb : bool) (m : mode) (t : thr) : re_state :=
  {| re_status_cb := cb; re_accept := Some (acc_of m); re_th_cb := thunk_of t |}.

(* the model's one-batch function as a step: an error ends the coroutine, otherwise the threshold source advances *)
Definition model_step (cb : bool) (m : mode) (t : thr) (b : batch) : M (re_state * out) :=
  if valid b then
    match step1_cb cb m (thr_now t) b with
    | OErr e => inl e
    | o => inr (st_of cb m (thr_next t), o)
    end
  else inl EValue.

(* ------------------------------------------------------------------ the primitives *)
Lemma row_max_maxl r : row_max r = maxl r.
Proof.
  destruct r as [|x t]; [reflexivity|]. unfold row_max, maxl. cbn [hd fold_right].
  rewrite fold_symmetric by (intros; lia).
  pose proof (fold_max_ge x t x (or_introl eq_refl)). lia.
Qed.
Lemma row_min_minl r : row_min r = minl r.
Proof.
  destruct r as [|x t]; [reflexivity|]. unfold row_min, minl. cbn [hd fold_right].
  rewrite fold_symmetric by (intros; lia).
  pose proof (fold_min_le x t x (or_introl eq_refl)). lia.
Qed.

(* the mask computed by the source's lambdas is the model's accept mask, on blocks of exactly one channel *)
Lemma accept_tie m th blks : Forall (fun blk : list (list Z) => zlen blk = 1) blks ->
  np_col0 (acc_of m blks th) = ret (accept_mask m th (N3 blks)).
Proof.
  intros H. induction H as [|blk blks Hb _ IH]; [destruct m; reflexivity|].
  destruct blk as [|row [|r2 l]].
  - rewrite zlen_nil in Hb. lia.
  - change (accept_mask m th (N3 ([row] :: blks))) with ((crit m row <? th) :: accept_mask m th (N3 blks)).
    destruct m; unfold acc_of in *; cbn [np_abs np_max_last np_ptp_last np_lt_s map np_col0] in *;
      unfold np_abs, np_max_last, np_ptp_last, np_lt_s in IH; rewrite IH; cbn [bind ret crit];
      rewrite ?row_max_maxl, ?row_min_minl; reflexivity.
  - rewrite !zlen_cons in Hb. pose proof (zlen_nonneg l). lia.
Qed.

Lemma init_tie cb m t : reject_epochs_init t (Some m) cb = ret (st_of cb m t).
Proof. destruct m, t; reflexivity. Qed.

Lemma call_tie t : py_call0 (thunk_of t) = ret (thr_now t, thunk_of (thr_next t)).
Proof. destruct t; reflexivity. Qed.

Lemma good_one_channel b : good b -> Forall (fun blk : list (list Z) => zlen blk = 1) (blocks b).
Proof.
  destruct b as [sh d | x]; cbn [good]; unfold blocks; cbn [dat_of].
  - intros (e & t & blks & _ & _ & -> & _ & Hr). eapply Forall_impl; [|exact Hr]. now intros blk [H _].
  - intros (Hwf & e & t & Hsh & _). unfold wf in Hwf. rewrite Hsh in Hwf.
    destruct (dat x) as [|?|d]; try contradiction. destruct (chan x); try contradiction. destruct (meta x); try contradiction.
    destruct Hwf as (_ & _ & _ & Hr & _). eapply Forall_impl; [|exact Hr]. now intros blk [H _].
Qed.

Lemma good_N3 b : good b -> dat_of b = N3 (blocks b).
Proof.
  destruct b as [sh d | x]; cbn [good]; unfold blocks; cbn [dat_of].
  - now intros (e & t & blks & _ & _ & -> & _).
  - intros (Hwf & e & t & Hsh & _). unfold wf in Hwf. rewrite Hsh in Hwf.
    destruct (dat x) as [|?|d]; try contradiction. reflexivity.
Qed.

(* data[mask]: the row selection of NumpyPrims.v is the model's masking (NumPy's getitem / the C11 model of
   PipelineData.__getitem__) on a good batch, for every mask with one entry per epoch *)
Lemma getitem_tie b mask : good b -> zlen mask = zlen (blocks b) -> py_getitem_mask b mask = mask_batch b mask.
Proof.
  destruct b as [sh d | x]; cbn [good]; unfold blocks; cbn [dat_of].
  - intros (e & t & blks & -> & Ht & -> & He & Hrect) Hm.
    assert (Hok : all_ok [IMask mask true; full; full] [e; 1; t] = true).
    { unfold all_ok. change (sel_ok 1 full) with true. change (sel_ok t full) with true. cbn [sel_ok andb]. lia. }
    unfold mask_batch.
    rewrite (np_getitem_regular [e; 1; t] (N3 blks) [IMask mask true] [IMask mask true; full; full] 0
               [IMask mask true; full; full] (N3 (mask_sel mask blks)) (N3 (mask_sel mask blks))
               eq_refl eq_refl eq_refl ltac:(cbn; lia) Hok (f_equal Some (sel_e_mask mask blks)) eq_refl).
    cbn [Z.to_nat repeat app]. change (out_shape [IMask mask true; full; full] [e; 1; t])
      with [count_true mask; py_slice_len 1 None None 1; py_slice_len t None None 1].
    rewrite !py_slice_len_full by lia.
    unfold py_getitem_mask, np_select. replace (zlen mask =? zlen blks) with true by lia. cbn [bind ret tl].
    rewrite zlen_mask_sel by exact Hm. reflexivity.
  - intros (Hwf & e & t & Hsh & Ht) Hm.
    pose proof Hwf as Hwf'. unfold wf in Hwf'. rewrite Hsh in Hwf'.
    destruct (dat x) as [|?|d] eqn:Hd; try contradiction.
    destruct (chan x) as [|cs] eqn:Hc; try contradiction.
    destruct (meta x) as [|ms] eqn:Hmd; try contradiction.
    destruct Hwf' as (_ & _ & He & _ & _ & Hms).
    unfold mask_batch. rewrite (getitem_mask3 x e 1 t d cs ms mask Hwf Hsh Hd Hc Hmd) by lia.
    unfold py_getitem_mask, np_select. rewrite Hd, Hmd, Hsh, Hc.
    replace (zlen mask =? zlen d) with true by lia. replace (zlen mask =? zlen ms) with true by lia.
    cbn [bind ret tl]. rewrite zlen_mask_sel by exact Hm. reflexivity.
Qed.

(* ------------------------------------------------------------------ the refusals *)
Lemma np_ndim_3 sh d : (np_ndim (BPlain sh d) =? 3) = match sh with [_; _; _] => true | _ => false end.
Proof.
  unfold np_ndim. cbn [shape_of]. destruct sh as [|a [|c [|t [|z l]]]]; try reflexivity.
  rewrite !zlen_cons. pose proof (zlen_nonneg l). lia.
Qed.

(* the properties of an annotated array with 1..3 dimensions *)
Lemma n_channels_13 x : 1 <= zlen (shape x) <= 3 ->
  PipelineData_n_channels x = ret (match shape x with [_] => 1 | [c; _] => c | [_; c; _] => c | _ => 0 end).
Proof.
  unfold PipelineData_n_channels, pd_ndim, pd_shape_at. destruct (shape x) as [|a [|c [|t [|z l]]]]; try reflexivity.
  - rewrite zlen_nil. lia.
  - rewrite !zlen_cons. pose proof (zlen_nonneg l). lia.
Qed.
Lemma n_epochs_13 x : 1 <= zlen (shape x) <= 3 ->
  PipelineData_n_epochs x = ret (match shape x with [e; _; _] => Some e | _ => None end).
Proof.
  unfold PipelineData_n_epochs, pd_ndim, pd_shape_at. destruct (shape x) as [|a [|c [|t [|z l]]]]; try reflexivity.
  rewrite !zlen_cons. pose proof (zlen_nonneg l). lia.
Qed.

Lemma valid_dims13 b : valid b = true -> dims13 b.
Proof.
  destruct b as [sh d | x]; cbn [valid dims13]; [trivial|].
  destruct (shape x) as [|a [|c [|t [|z l]]]]; try discriminate. intros _. rewrite !zlen_cons, zlen_nil. lia.
Qed.

(* the model's step with a callback flag, in terms of the masking *)
Lemma step1_cb_unfold cb m th b : valid b = true ->
  step1_cb cb m th b = match mask_batch b (accept_mask m th (dat_of b)) with
                       | inl e => OErr e
                       | inr f => OOut (if fwd_len f =? 0 then None else Some f)
                                       (if cb then accept_mask m th (dat_of b) else [])
                       end.
Proof. intros H. unfold step1_cb. now rewrite H. Qed.

(* ------------------------------------------------------------------ TIE: one send *)
Theorem step_tie cb m t b : dom b -> reject_epochs_step (st_of cb m t) b = model_step cb m t b.
Proof.
  intros [Hg | [Hv Hd]].
  - (* a good batch *)
    pose proof (good_valid b Hg) as Hv. pose proof (good_one_channel b Hg) as H1. pose proof (good_N3 b Hg) as HN.
    unfold model_step. rewrite Hv, (step1_cb_unfold cb m _ b Hv), HN.
    unfold reject_epochs_step, st_of. cbn [re_status_cb re_accept re_th_cb].
    match goal with |- bind ?c _ = _ => assert (Hchk : c = ret tt) end.
    { pose proof (valid_dims13 b Hv) as Hd. destruct b as [sh d | x]; cbn [valid dims13] in *.
      - destruct sh as [|a [|c [|t0 [|z l]]]]; try discriminate. assert (c = 1) by lia. subst c. reflexivity.
      - rewrite (n_channels_13 x Hd), (n_epochs_13 x Hd).
        destruct (shape x) as [|a [|c [|t0 [|z l]]]]; try discriminate. assert (c = 1) by lia. subst c. reflexivity. }
    rewrite Hchk. cbn [bind ret].
    rewrite call_tie. cbn [bind ret py_bound].
    replace (np_asarray_double b) with (blocks b) by (unfold np_asarray_double; now rewrite HN).
    rewrite (accept_tie m (thr_now t) (blocks b) H1). cbn [bind ret].
    rewrite (getitem_tie b _ Hg) by (cbn [accept_mask]; now rewrite zlen_map).
    destruct (mask_batch b (accept_mask m (thr_now t) (N3 (blocks b)))) as [e | f]; [reflexivity|].
    cbn [bind ret]. change (py_len_fwd f) with (fwd_len f).
    destruct (fwd_len f =? 0); destruct cb; reflexivity.
  - (* a refused batch *)
    unfold model_step. rewrite Hv. unfold reject_epochs_step, st_of. cbn [re_status_cb re_accept re_th_cb].
    destruct b as [sh d | x]; cbn [valid dims13] in *.
    + rewrite np_ndim_3. destruct sh as [|a [|c [|t0 [|z l]]]]; try reflexivity.
      change (np_shape_at (BPlain [a; c; t0] d) 1) with (@ret Z c). cbn [bind ret negb]. now rewrite Hv.
    + rewrite (n_channels_13 x Hd), (n_epochs_13 x Hd).
      destruct (shape x) as [|a [|c [|t0 [|z l]]]]; cbn [bind ret]; try reflexivity.
      * destruct (a =? 1); reflexivity.
      * rewrite Hv. reflexivity.
Qed.

(* ------------------------------------------------------------------ TIE: every sequence of sends *)
Lemma run_cb_dead cb m t bs : run_cb cb m t false bs = map (fun _ => OStop) bs.
Proof. induction bs as [|b bs IH]; [reflexivity|]. cbn [run_cb map]. now rewrite IH. Qed.
Lemma coroutine_dead {S B} (step : S -> B -> M (S * out)) bs : coroutine_run step None bs = map (fun _ => OStop) bs.
Proof. induction bs as [|b bs IH]; [reflexivity|]. cbn [coroutine_run map]. now rewrite IH. Qed.

Lemma step1_cb_not_stop cb m th b : step1_cb cb m th b <> OStop.
Proof.
  unfold step1_cb. destruct (valid b); [|discriminate]. cbn zeta.
  destruct (mask_batch b (accept_mask m th (dat_of b))); discriminate.
Qed.

Theorem coroutine_tie cb m bs : forall t, Forall dom bs ->
  coroutine_run reject_epochs_step (Some (st_of cb m t)) bs = run_cb cb m t true bs.
Proof.
  induction bs as [|b bs IH]; intros t H; [reflexivity|].
  pose proof (Forall_inv H) as Hb. pose proof (Forall_inv_tail H) as Hbs.
  cbn [coroutine_run run_cb]. rewrite (step_tie cb m t b Hb). unfold model_step.
  destruct (valid b).
  - pose proof (step1_cb_not_stop cb m (thr_now t) b) as Hns.
    destruct (step1_cb cb m (thr_now t) b) as [e | | f s]; [| congruence |].
    + now rewrite coroutine_dead, run_cb_dead.
    + now rewrite IH.
  - now rewrite coroutine_dead, run_cb_dead.
Qed.

(* the generated coroutine, created from its arguments and driven over the batches, is the model's run - with a status
   callback (cb = true: [run]) and without (cb = false: [run_fwd]) *)
Theorem run_tie cb m t bs : Forall dom bs -> reject_epochs_run t (Some m) cb bs = ret (run_cb cb m t true bs).
Proof. intros H. unfold reject_epochs_run. rewrite init_tie. cbn [bind ret]. now rewrite coroutine_tie. Qed.

(* one send, stated on the generated definitions alone *)
Theorem step_tie_init cb m t b : dom b ->
  bind (reject_epochs_init t (Some m) cb) (fun st => reject_epochs_step st b) =
  if valid b then
    match step1_cb cb m (thr_now t) b with
    | OErr e => inl e
    | o => bind (reject_epochs_init (thr_next t) (Some m) cb) (fun st' => ret (st', o))
    end
  else inl EValue.
Proof.
  intros H. rewrite !init_tie. cbn [bind ret]. rewrite (step_tie cb m t b H). unfold model_step.
  destruct (valid b); [|reflexivity]. destruct (step1_cb cb m (thr_now t) b); reflexivity.
Qed.

(* ------------------------------------------------------------------ the C17 theorems, about the generated definitions *)
(* one good batch: the state advances to the next threshold, the output is exactly the specification *)
Theorem source_forwards_exactly m t b : good b ->
  bind (reject_epochs_init t (Some m) true) (fun st => reject_epochs_step st b) =
  bind (reject_epochs_init (thr_next t) (Some m) true) (fun st' => ret (st', spec_out m (thr_now t) b)).
Proof.
  intros Hg. rewrite (step_tie_init true m t b (or_introl Hg)), (good_valid b Hg), step1_cb_true.
  rewrite (step1_good m (thr_now t) b Hg). destruct (spec_out_good m (thr_now t) b Hg) as (f & s & -> & _). reflexivity.
Qed.

(* every sequence of good batches: batch k is judged with the k-th threshold, the coroutine never stops *)
Theorem source_sequences m bs t : Forall good bs -> reject_epochs_run t (Some m) true bs = ret (spec_run m t bs).
Proof.
  intros H. rewrite run_tie by (eapply Forall_impl; [|exact H]; intros b Hb; now left).
  now rewrite run_cb_true, run_good.
Qed.

(* without a status callback: the forward-only specification *)
Theorem source_forward_only_sequences m bs t : Forall good bs ->
  reject_epochs_run t (Some m) false bs = ret (map out_fwd (spec_run m t bs)).
Proof.
  intros H. rewrite run_tie by (eapply Forall_impl; [|exact H]; intros b Hb; now left).
  change (run_cb false) with run_fwd. now rewrite run_fwd_good.
Qed.

(* input that is not (epochs x 1 channel x samples) is refused with ValueError, which ends the coroutine *)
Theorem source_refusal_ends_stage cb m t b rest : valid b = false -> dims13 b -> Forall dom rest ->
  reject_epochs_run t (Some m) cb (b :: rest) = ret (OErr EValue :: map (fun _ => OStop) rest).
Proof.
  intros Hv Hd Hr. rewrite run_tie by (constructor; [right; now split | exact Hr]).
  cbn [run_cb]. now rewrite Hv, run_cb_dead.
Qed.

(* a mode string that is neither 'absolute value' nor 'amplitude': no criterion is bound, the first batch that passes
   the shape checks raises UnboundLocalError (the model has no such mode; a fact about the source only) *)
Theorem source_unknown_mode cb t b : valid b = true ->
  bind (reject_epochs_init t None cb) (fun st => reject_epochs_step st b) = inl EUnbound.
Proof.
  intros Hv. assert (Hi : reject_epochs_init t None cb =
                          ret {| re_status_cb := cb; re_accept := None; re_th_cb := thunk_of t |}) by (destruct t; reflexivity).
  rewrite Hi. cbn [bind ret]. unfold reject_epochs_step. cbn [re_status_cb re_accept re_th_cb].
  match goal with |- bind ?c _ = _ => assert (Hchk : c = ret tt) end.
  { pose proof (valid_dims13 b Hv) as Hd. destruct b as [sh d | x]; cbn [valid dims13] in *.
    - destruct sh as [|a [|c [|t0 [|z l]]]]; try discriminate. assert (c = 1) by lia. subst c. reflexivity.
    - rewrite (n_channels_13 x Hd), (n_epochs_13 x Hd).
      destruct (shape x) as [|a [|c [|t0 [|z l]]]]; try discriminate. assert (c = 1) by lia. subst c. reflexivity. }
  rewrite Hchk. cbn [bind ret]. rewrite call_tie. reflexivity.
Qed.

(* ------------------------------------------------------------------ the hypotheses: satisfiable, and needed *)
(* an annotated batch of three epochs at th-1, th, th+1 (th = 10) and a 2-channel batch are in the domain *)
Example dom_ex :
  dom (mk_ann [3; 1; 2] [9; -3; 10; 0; -11; 2] 5 1000 1 (LMany [70]) (LMany [100; 101; 102])) /\
  dom (mk_plain [2; 2; 1] [1; 2; 3; 4]) /\
  reject_epochs_run (TCall [10; 3]) (Some MAbs) true
    [mk_ann [3; 1; 2] [9; -3; 10; 0; -11; 2] 5 1000 1 (LMany [70]) (LMany [100; 101; 102]);
     mk_plain [2; 1; 2] [1; 2; 3; 4]; mk_plain [2; 2; 1] [1; 2; 3; 4]; mk_plain [1; 1; 1] [0]] =
  ret [OOut (Some (fwd_ann [1; 1; 2] [9; -3] 5 1000 1 (LMany [70]) (LMany [100]))) [true; false; false];
       OOut (Some (fwd_plain [1; 1; 2] [1; 2])) [true; false]; OErr EValue; OStop].
Proof.
  split; [|split; [|vm_compute; reflexivity]].
  - left. cbn [good mk_ann renest]. split.
    + unfold wf. cbn. repeat split; try lia; repeat constructor.
    + exists 3, 2. split; [reflexivity | lia].
  - right. split; [reflexivity | exact I].
Qed.

(* [good] is needed: a plain batch whose nesting does not have the single channel its shape announces - the generated
   `[:, 0]` raises IndexError, the model reads the criterion of an empty row *)
Theorem step_tie_good_needed_refuted : exists cb m t b,
  valid b = true /\ reject_epochs_step (st_of cb m t) b <> model_step cb m t b.
Proof. exists true, MAbs, (TConst 10), (BPlain [1; 1; 1] (N3 [[]])). split; [reflexivity | vm_compute; discriminate]. Qed.

(* [dims13] is needed: the model refuses every annotated array that is not 3-D with ValueError, but the source's checks
   let a 4-D annotated array with shape[-2] = 1 through (n_channels = shape[-2], n_epochs = shape[-3]); such an array is
   outside PData/Model.v (1..3 dimensions) *)
Theorem step_tie_dims_needed_refuted : exists cb m t b,
  valid b = false /\ reject_epochs_step (st_of cb m t) b <> model_step cb m t b.
Proof.
  exists true, MAbs, (TConst 10),
    (BAnn {| shape := [2; 2; 1; 3]; dat := N3 [[[0; 0; 0]]]; s0 := 0; fsn := 1000; fsd := 1; chan := LMany [70]; meta := LMany [100; 101] |}).
  split; [reflexivity | vm_compute; discriminate].
Qed.
