(* Proofs for C17 (reject_epochs).  The masking of an annotated batch goes through the C11 theorem
   PData.Proofs.getitem_regular.  Stdlib only. *)
From Coq Require Import ZArith List Bool Lia ZifyBool.
From PV Require Import PData.Model PData.Spec PData.Proofs Reject.Model Reject.Spec.
Import ListNotations.
Open Scope Z_scope.

(* ------------------------------------------------------------------ the criteria *)
Lemma fold_max_ge d l v : v = d \/ In v l -> v <= fold_right Z.max d l.
Proof.
  induction l as [|x l IH]; cbn [fold_right In]; intros H.
  - destruct H as [->|[]]. lia.
  - destruct H as [->|[->|H]].
    + specialize (IH (or_introl eq_refl)). lia.
    + lia.
    + specialize (IH (or_intror H)). lia.
Qed.
Lemma fold_max_in d l : fold_right Z.max d l = d \/ In (fold_right Z.max d l) l.
Proof.
  induction l as [|x l IH]; cbn [fold_right In]; [now left|].
  destruct (Z.max_spec x (fold_right Z.max d l)) as [[_ ->]|[_ ->]]; [|right; now left].
  destruct IH as [IH|IH]; [now left | right; now right].
Qed.
Lemma fold_min_le d l v : v = d \/ In v l -> fold_right Z.min d l <= v.
Proof.
  induction l as [|x l IH]; cbn [fold_right In]; intros H.
  - destruct H as [->|[]]. lia.
  - destruct H as [->|[->|H]].
    + specialize (IH (or_introl eq_refl)). lia.
    + lia.
    + specialize (IH (or_intror H)). lia.
Qed.
Lemma fold_min_in d l : fold_right Z.min d l = d \/ In (fold_right Z.min d l) l.
Proof.
  induction l as [|x l IH]; cbn [fold_right In]; [now left|].
  destruct (Z.min_spec x (fold_right Z.min d l)) as [[_ ->]|[_ ->]]; [right; now left|].
  destruct IH as [IH|IH]; [now left | right; now right].
Qed.

Lemma maxl_ge l v : In v l -> v <= maxl l.
Proof. intros H. apply fold_max_ge. now right. Qed.
Lemma maxl_in l : l <> [] -> In (maxl l) l.
Proof.
  destruct l as [|x l]; [congruence|]. intros _. unfold maxl. cbn [hd].
  destruct (fold_max_in x (x :: l)) as [->|H]; [now left | exact H].
Qed.
Lemma minl_le l v : In v l -> minl l <= v.
Proof. intros H. apply fold_min_le. now right. Qed.
Lemma minl_in l : l <> [] -> In (minl l) l.
Proof.
  destruct l as [|x l]; [congruence|]. intros _. unfold minl. cbn [hd].
  destruct (fold_min_in x (x :: l)) as [->|H]; [now left | exact H].
Qed.

(* peak absolute value under the threshold  <->  every sample is, strictly *)
Theorem crit_abs_spec ep th : ep <> [] ->
  (crit MAbs ep < th <-> forall v, In v ep -> Z.abs v < th).
Proof.
  intros Hne. unfold crit. split.
  - intros H v Hv. pose proof (maxl_ge (map Z.abs ep) (Z.abs v) (in_map _ _ _ Hv)). lia.
  - intros H. assert (Hm : map Z.abs ep <> []) by (destruct ep; [congruence | discriminate]).
    pose proof (maxl_in _ Hm) as Hin. apply in_map_iff in Hin. destruct Hin as (v & <- & Hv). now apply H.
Qed.
(* peak-to-peak amplitude under the threshold  <->  every pair of samples differs by less, strictly *)
Theorem crit_ptp_spec ep th : ep <> [] ->
  (crit MPtp ep < th <-> forall u v, In u ep -> In v ep -> u - v < th).
Proof.
  intros Hne. unfold crit. split.
  - intros H u v Hu Hv. pose proof (maxl_ge _ _ Hu). pose proof (minl_le _ _ Hv). lia.
  - intros H. apply H; [now apply maxl_in | now apply minl_in].
Qed.

(* ------------------------------------------------------------------ masking = filtering *)
Lemma mask_sel_filter {A} (f : A -> bool) l : mask_sel (map f l) l = filter f l.
Proof. induction l as [|a l IH]; [reflexivity|]. cbn [map mask_sel filter]. destruct (f a); now rewrite IH. Qed.
Lemma count_true_filter {A} (f : A -> bool) l : count_true (map f l) = zlen (filter f l).
Proof.
  unfold count_true. induction l as [|a l IH]; [reflexivity|]. cbn [map filter].
  destruct (f a); rewrite ?zlen_cons, IH; reflexivity.
Qed.
Lemma map_id_ext {A} (f : A -> A) l : (forall a, f a = a) -> map f l = l.
Proof. intros H. induction l as [|a l IH]; [reflexivity|]. cbn. now rewrite H, IH. Qed.

Lemma py_slice_len_full n : 0 <= n -> py_slice_len n None None 1 = n.
Proof. intros H. rewrite py_slice_len_1. cbn [py_lo py_hi]. lia. Qed.

Lemma sel_e_mask mask d :
  sel_e (IMask mask true) full full d = N3 (mask_sel mask d).
Proof.
  change (sel_e (IMask mask true) full full d)
    with (N3 (map (fun blk => map (sel_t full) (take_sel [] full blk)) (mask_sel mask d))).
  f_equal.
  apply map_id_ext. intros blk. rewrite take_sel_full. apply map_id_ext. intros row. apply take_sel_full.
Qed.

(* data[mask] on an annotated 3-D batch: epochs and metadata entries are masked alike, everything else is kept *)
Lemma getitem_mask3 x e c t d cs ms mask :
  wf x -> shape x = [e; c; t] -> dat x = N3 d -> chan x = LMany cs -> meta x = LMany ms -> zlen mask = e ->
  getitem x {| sole := true; items := [IMask mask true] |} =
  RArr {| shape := [count_true mask; c; t]; dat := N3 (mask_sel mask d); s0 := s0 x; fsn := fsn x; fsd := fsd x;
          chan := LMany cs; meta := LMany (mask_sel mask ms) |}.
Proof.
  intros Hwf Hsh Hd Hc Hm Hmask.
  assert (Hden : denotes (ndim x) {| sole := true; items := [IMask mask true] |} 0 [IMask mask true; full; full]).
  { unfold ndim. rewrite Hsh. exists [IMask mask true; full; full]. repeat split; try reflexivity; try (cbn; lia). }
  assert (Hval : valid_on (shape x) [IMask mask true; full; full]).
  { rewrite Hsh. unfold valid_on. cbn [all_ok sel_ok full step_of]. replace (zlen mask =? e) with true by lia. reflexivity. }
  destruct (getitem_regular _ _ _ _ Hwf Hden Hval) as (d0 & d' & H0 & Hw & Hg).
  rewrite Hg. f_equal. rewrite Hd in H0. cbn [np_regular] in H0. rewrite sel_e_mask in H0. injection H0 as <-.
  cbn in Hw. injection Hw as <-.
  unfold wf in Hwf. rewrite Hsh, Hd, Hc, Hm in Hwf. destruct Hwf as (Hc0 & Ht0 & _).
  unfold spec_result. rewrite Hsh, Hc, Hm.
  cbn [Z.to_nat repeat app out_shape is_int sel_len full step_of time_item last slice_start slice_step spec_chan
       spec_meta sel_lab take_sel py_lo].
  rewrite !py_slice_len_full by assumption. rewrite py_slice_step_full.
  f_equal; lia.
Qed.

(* ------------------------------------------------------------------ one batch *)
Lemma map_snd_combine {A B} (a : list A) : forall b : list B, length a = length b -> map snd (combine a b) = b.
Proof.
  induction a as [|x a IH]; intros [|y b] H; try discriminate; [reflexivity|].
  cbn. f_equal. apply IH. now injection H.
Qed.
Lemma map_fst_combine {A B} (a : list A) : forall b : list B, length a = length b -> map fst (combine a b) = a.
Proof.
  induction a as [|x a IH]; intros [|y b] H; try discriminate; [reflexivity|].
  cbn. f_equal. apply IH. now injection H.
Qed.
Lemma length_mask_sel {A B} mask : forall (a : list A) (b : list B), length a = length b ->
  length (mask_sel mask a) = length (mask_sel mask b).
Proof.
  induction mask as [|c mask IH]; intros [|x a] [|y b] H; try discriminate; try reflexivity.
  cbn [mask_sel]. injection H as H. destruct c; cbn [length]; rewrite (IH _ _ H); reflexivity.
Qed.

(* the accepted pairs = both lists masked by the accept mask *)
Lemma keep_pairs m th (ms : list Z) (d : list (list (list Z))) : length ms = length d ->
  filter (fun p => accepts m th (snd p)) (combine ms d) =
  combine (mask_sel (map (accepts m th) d) ms) (mask_sel (map (accepts m th) d) d).
Proof.
  intros H. rewrite <- mask_sel_combine, <- mask_sel_filter. f_equal.
  rewrite <- (map_snd_combine ms d H) at 2. now rewrite map_map.
Qed.

Lemma accept_mask_spec m th blks : accept_mask m th (N3 blks) = map (accepts m th) blks.
Proof. reflexivity. Qed.

Lemma count_true_0_nil {A} mask (l : list A) : zlen mask = zlen l -> (count_true mask =? 0) = true -> mask_sel mask l = [].
Proof. intros H H0. apply zlen_0_nil. rewrite zlen_mask_sel by exact H. lia. Qed.

Theorem step1_good m th b : good b -> step1 m th b = spec_out m th b.
Proof.
  destruct b as [sh d | x]; cbn [good].
  - (* plain *)
    intros (e & t & blks & -> & Ht & -> & He & Hrect).
    unfold step1. cbn [valid dat_of]. rewrite Z.eqb_refl, accept_mask_spec.
    set (mask := map (accepts m th) blks).
    assert (Hm : zlen mask = e) by (unfold mask; now rewrite zlen_map).
    assert (Hok : all_ok [IMask mask true; full; full] [e; 1; t] = true).
    { unfold all_ok. change (sel_ok 1 full) with true. change (sel_ok t full) with true.
      cbn [sel_ok andb]. lia. }
    unfold mask_batch.
    rewrite (np_getitem_regular [e; 1; t] (N3 blks) [IMask mask true] [IMask mask true; full; full] 0
               [IMask mask true; full; full] (N3 (mask_sel mask blks)) (N3 (mask_sel mask blks))
               eq_refl eq_refl eq_refl ltac:(cbn; lia) Hok (f_equal Some (sel_e_mask mask blks)) eq_refl).
    cbn [Z.to_nat repeat app]. change (out_shape [IMask mask true; full; full] [e; 1; t])
      with [count_true mask; py_slice_len 1 None None 1; py_slice_len t None None 1].
    rewrite !py_slice_len_full by lia. cbn [fwd_len hd spec_out].
    unfold mask. rewrite count_true_filter, mask_sel_filter.
    destruct (filter (accepts m th) blks) as [|k0 keep] eqn:Ek; [reflexivity|].
    rewrite zlen_cons. pose proof (zlen_nonneg keep). replace (1 + zlen keep =? 0) with false by lia. reflexivity.
  - (* annotated *)
    intros (Hwf & e & t & Hsh & Ht).
    pose proof Hwf as Hwf'. unfold wf in Hwf'. rewrite Hsh in Hwf'.
    destruct (dat x) as [|?|d] eqn:Hd; try contradiction.
    destruct (chan x) as [|cs] eqn:Hc; try contradiction.
    destruct (meta x) as [|ms] eqn:Hmd; try contradiction.
    destruct Hwf' as (_ & Ht0 & He & Hrect & Hl & Hm).
    unfold step1. cbn [valid dat_of]. rewrite Hsh, Z.eqb_refl, Hd, accept_mask_spec.
    set (mask := map (accepts m th) d).
    assert (Hmask : zlen mask = e) by (unfold mask; now rewrite zlen_map).
    unfold mask_batch. rewrite (getitem_mask3 x e 1 t d cs ms mask Hwf Hsh Hd Hc Hmd Hmask).
    cbn [fwd_len shape hd spec_out]. rewrite Hd, Hmd, Hsh.
    assert (Hlen : length ms = length d) by (unfold zlen in *; lia).
    rewrite (keep_pairs m th ms d Hlen). fold mask.
    destruct (count_true mask =? 0) eqn:E0.
    + rewrite (count_true_0_nil mask ms) by (assumption || lia).
      rewrite (count_true_0_nil mask d) by (assumption || lia). reflexivity.
    + pose proof (length_mask_sel mask ms d Hlen) as Hl2.
      rewrite map_snd_combine, map_fst_combine by exact Hl2.
      assert (Hz : zlen (combine (mask_sel mask ms) (mask_sel mask d)) = count_true mask).
      { rewrite zlen_combine by (unfold zlen; lia). apply zlen_mask_sel. lia. }
      destruct (combine (mask_sel mask ms) (mask_sel mask d)) as [|p0 ps] eqn:Ec.
      * rewrite zlen_nil in Hz. lia.
      * rewrite Hz, Hc. reflexivity.
Qed.

(* ------------------------------------------------------------------ consequences *)
Definition blocks (b : batch) : list (list (list Z)) := match dat_of b with N3 d => d | _ => [] end.
Definition metas (b : batch) : list Z := match b with BAnn x => match meta x with LMany ms => ms | _ => [] end | _ => [] end.

Lemma good_valid b : good b -> valid b = true.
Proof.
  destruct b as [sh d | x]; cbn [good valid].
  - intros (e & t & blks & -> & _). reflexivity.
  - intros (_ & e & t & -> & _). reflexivity.
Qed.

Lemma spec_out_good m th b : good b -> exists f s, spec_out m th b = OOut f s /\ s = map (accepts m th) (blocks b).
Proof.
  destruct b as [sh d | x]; cbn [good spec_out].
  - intros (e & t & blks & -> & _ & -> & _). eexists. eexists. split; reflexivity.
  - intros (Hwf & e & t & Hsh & _). unfold wf in Hwf. rewrite Hsh in *.
    unfold blocks. cbn [dat_of].
    destruct (dat x); try contradiction. destruct (chan x); try contradiction. destruct (meta x); try contradiction.
    eexists. eexists. split; reflexivity.
Qed.

(* every sequence of good batches: output k is the one-batch specification under the k-th threshold;
   the coroutine never stops *)
Theorem run_good m bs : forall t, Forall good bs -> run m t true bs = spec_run m t bs.
Proof.
  induction bs as [|b bs IH]; intros t H; [reflexivity|].
  pose proof (Forall_inv H) as Hb. pose proof (Forall_inv_tail H) as Hbs.
  cbn [run spec_run]. rewrite (good_valid _ Hb), (step1_good m (thr_now t) b Hb).
  destruct (spec_out_good m (thr_now t) b Hb) as (f & s & -> & _).
  now rewrite IH.
Qed.

(* multichannel / un-epoched / not 3-D input is refused, and that ends the coroutine *)
Theorem invalid_refused m th b : valid b = false -> step1 m th b = OErr EValue.
Proof. unfold step1. now intros ->. Qed.

Lemma run_dead m t bs : run m t false bs = map (fun _ => OStop) bs.
Proof. induction bs as [|b bs IH]; [reflexivity|]. cbn [run map]. now rewrite IH. Qed.

Theorem run_refused m t b rest : valid b = false ->
  run m t true (b :: rest) = OErr EValue :: map (fun _ => OStop) rest.
Proof. intros H. cbn [run]. rewrite H. now rewrite run_dead. Qed.

Theorem valid_shape b : valid b = true <-> exists e t, shape_of b = [e; 1; t].
Proof.
  destruct b as [sh d | x]; cbn [valid shape_of].
  - destruct sh as [|a [|c [|t [|? ?]]]]; split; try discriminate; try (intros (? & ? & ?); discriminate).
    + intros H. exists a, t. f_equal. f_equal. lia.
    + intros (e & t0 & H). injection H as -> -> ->. reflexivity.
  - destruct (shape x) as [|a [|c [|t [|? ?]]]]; split; try discriminate; try (intros (? & ? & ?); discriminate).
    + intros H. exists a, t. f_equal. f_equal. lia.
    + intros (e & t0 & H). injection H as -> -> ->. reflexivity.
Qed.

(* a pair is forwarded iff it is a pair of the batch whose criterion is STRICTLY below the threshold *)
Theorem forwarded_iff m th (ms : list Z) (d : list (list (list Z))) p :
  In p (filter (fun p => accepts m th (snd p)) (combine ms d)) <->
  In p (combine ms d) /\ crit m (hd [] (snd p)) < th.
Proof. rewrite filter_In. unfold accepts. split; intros [H1 H2]; split; try assumption; lia. Qed.

Theorem equal_rejected m th blk : crit m (hd [] blk) = th -> accepts m th blk = false.
Proof. unfold accepts. lia. Qed.

Lemma filter_none {A} (f : A -> bool) l : (forall a, In a l -> f a = false) -> filter f l = [].
Proof.
  induction l as [|a l IH]; intros H; [reflexivity|]. cbn [filter].
  rewrite (H a (or_introl eq_refl)). apply IH. intros b Hb. apply H. now right.
Qed.

(* nothing under the threshold: nothing is forwarded, the status callback still receives the (all-False) mask *)
Theorem all_rejected_nothing m th b : good b ->
  (forall blk, In blk (blocks b) -> th <= crit m (hd [] blk)) ->
  step1 m th b = OOut None (map (fun _ => false) (blocks b)).
Proof.
  intros Hg Hall. rewrite (step1_good m th b Hg).
  assert (Hacc : forall blk, In blk (blocks b) -> accepts m th blk = false).
  { intros blk Hin. unfold accepts. specialize (Hall _ Hin). lia. }
  destruct b as [sh d | x]; cbn [good spec_out] in *.
  - destruct Hg as (e & t & blks & -> & _ & -> & _). unfold blocks in *. cbn [dat_of] in *.
    rewrite (filter_none _ _ Hacc). f_equal. apply map_ext_in. exact Hacc.
  - destruct Hg as (Hwf & e & t & Hsh & _). unfold wf in Hwf. rewrite Hsh in *. unfold blocks in *. cbn [dat_of] in *.
    destruct (dat x) as [|?|d]; try contradiction. destruct (chan x); try contradiction.
    destruct (meta x) as [|ms]; try contradiction.
    rewrite filter_none.
    + f_equal. apply map_ext_in. exact Hacc.
    + intros [md blk] Hin. cbn [snd]. apply Hacc. eapply in_combine_r. exact Hin.
Qed.
