(* What C17 claims: the stage forwards the accepted (metadata, epoch) pairs of each batch, in order. *)
From PV Require Export PData.Spec Reject.Model.

(* an epoch block (1 channel x samples) is accepted when its criterion is STRICTLY below the threshold *)
Definition accepts (m : mode) (th : Z) (blk : list (list Z)) : bool := crit m (hd [] blk) <? th.

(* input the stage accepts: epochs x 1 channel x samples (at least one sample per epoch) *)
Definition good (b : batch) : Prop :=
  match b with
  | BAnn x => wf x /\ exists e t, shape x = [e; 1; t] /\ 1 <= t
  | BPlain sh d => exists e t blks, sh = [e; 1; t] /\ 1 <= t /\ d = N3 blks /\ zlen blks = e /\ Forall (rect 1 t) blks
  end.

(* what one good batch must produce under the threshold in force *)
Definition spec_out (m : mode) (th : Z) (b : batch) : out :=
  match b with
  | BAnn x =>
    match dat x, meta x, shape x with
    | N3 d, LMany ms, [_; c; t] =>
      let keep := filter (fun p => accepts m th (snd p)) (combine ms d) in      (* (metadata, epoch) pairs, in order *)
      OOut (match keep with
            | [] => None
            | _ => Some (FAnn {| shape := [zlen keep; c; t]; dat := N3 (map snd keep); s0 := s0 x; fsn := fsn x;
                                 fsd := fsd x; chan := chan x; meta := LMany (map fst keep) |})
            end)
           (map (accepts m th) d)
    | _, _, _ => OErr EValue
    end
  | BPlain sh d =>
    match d, sh with
    | N3 blks, [_; c; t] =>
      let keep := filter (accepts m th) blks in
      OOut (match keep with [] => None | _ => Some (FPlain [zlen keep; c; t] (N3 keep)) end) (map (accepts m th) blks)
    | _, _ => OErr EValue
    end
  end.

(* a sequence of good batches: batch k is judged with the k-th value of the threshold *)
Fixpoint spec_run (m : mode) (t : thr) (bs : list batch) : list out :=
  match bs with
  | [] => []
  | b :: rest => spec_out m (thr_now t) b :: spec_run m (thr_next t) rest
  end.
