(* C17, extension: the status callback is an observer only.

   reject_epochs(reject_threshold, mode, status_cb, valid_target) ends its loop body with
       if len(valid_data) != 0: valid_target(valid_data)
       if status_cb is not None: status_cb(mask)
   Reject/Model.v describes the stage with a callback (the second component of OOut is the mask handed to it);
   the coverage audit added [out_fwd], the projection on what reaches valid_target, for runs with status_cb=None.
   Here the presence of the callback is made an explicit flag ([step1_cb] / [run_cb]): with [cb = false] the mask is
   still computed (it selects what is forwarded) but never handed to anybody.  Everything a downstream stage can
   observe - the forwarded arrays with their metadata, the refusals, the termination of the coroutine - is proved
   independent of the flag, for ALL batches (valid or not, well-formed or not), thresholds and modes.
   Stdlib only, no axioms. *)
From Coq Require Import ZArith List Bool Lia ZifyBool.
From PV Require Import PData.Model PData.Spec Reject.Model Reject.Spec Reject.Proofs.
Import ListNotations.
Open Scope Z_scope.

(* one batch; cb: is a status callback installed? *)
Definition step1_cb (cb : bool) (m : mode) (th : Z) (b : batch) : out :=
  if valid b then
    let mask := accept_mask m th (dat_of b) in
    match mask_batch b mask with
    | inl e => OErr e
    | inr f => OOut (if fwd_len f =? 0 then None else Some f) (if cb then mask else [])
    end
  else OErr EValue.

Fixpoint run_cb (cb : bool) (m : mode) (t : thr) (alive : bool) (bs : list batch) : list out :=
  match bs with
  | [] => []
  | b :: rest =>
    if alive then
      if valid b then step1_cb cb m (thr_now t) b ::
                      run_cb cb m (thr_next t) (match step1_cb cb m (thr_now t) b with OErr _ => false | _ => true end) rest
      else OErr EValue :: run_cb cb m t false rest
    else OStop :: run_cb cb m t false rest
  end.

(* the forward-only semantics (status_cb = None) *)
Definition step1_fwd := step1_cb false.
Definition run_fwd := run_cb false.

(* forward-only specification for a good batch: the accepted (metadata, epoch) pairs, nothing else *)
Definition spec_fwd (m : mode) (t : thr) (bs : list batch) : list out := map out_fwd (spec_run m t bs).

(* ------------------------------------------------------------------ with a callback: the existing model *)
Lemma step1_cb_true m th b : step1_cb true m th b = step1 m th b.
Proof. reflexivity. Qed.

Lemma run_cb_true m bs : forall t alive, run_cb true m t alive bs = run m t alive bs.
Proof.
  induction bs as [|b rest IH]; intros t alive; [reflexivity|].
  cbn [run_cb run]. rewrite step1_cb_true. destruct alive; [destruct (valid b)|]; now rewrite ?IH.
Qed.

(* ------------------------------------------------------------------ one batch *)
Lemma step1_cb_fwd cb m th b : out_fwd (step1_cb cb m th b) = step1_fwd m th b.
Proof.
  unfold step1_fwd, step1_cb. destruct (valid b); [|reflexivity].
  cbn zeta. destruct (mask_batch b (accept_mask m th (dat_of b))); reflexivity.
Qed.

(* whether the coroutine survives the batch does not depend on the callback *)
Lemma step1_cb_alive cb m th b :
  (match step1_cb cb m th b with OErr _ => false | _ => true end) =
  (match step1_fwd m th b with OErr _ => false | _ => true end).
Proof.
  unfold step1_fwd, step1_cb. destruct (valid b); [|reflexivity].
  cbn zeta. destruct (mask_batch b (accept_mask m th (dat_of b))); reflexivity.
Qed.

(* ------------------------------------------------------------------ histories *)
Theorem run_cb_fwd cb m bs : forall t alive, map out_fwd (run_cb cb m t alive bs) = run_fwd m t alive bs.
Proof.
  unfold run_fwd. induction bs as [|b rest IH]; intros t alive; [reflexivity|].
  cbn [run_cb]. destruct alive.
  - destruct (valid b).
    + cbn [map]. rewrite step1_cb_fwd, IH, (step1_cb_alive cb). reflexivity.
    + cbn [map out_fwd]. now rewrite IH.
  - cbn [map out_fwd]. now rewrite IH.
Qed.

(* the property: what is forwarded (and refused, and when the stage ends) is the same with and without a status
   callback, it is what the forward-only semantics produces, and the model of Reject/Model.v IS the stage with a
   callback *)
Theorem status_is_observation_only m t alive bs :
  (forall cb1 cb2, map out_fwd (run_cb cb1 m t alive bs) = map out_fwd (run_cb cb2 m t alive bs)) /\
  run_cb true m t alive bs = run m t alive bs /\
  map out_fwd (run m t alive bs) = run_fwd m t alive bs.
Proof.
  split; [|split].
  - intros cb1 cb2. now rewrite !run_cb_fwd.
  - apply run_cb_true.
  - rewrite <- run_cb_true. apply run_cb_fwd.
Qed.

(* without a callback nothing but the forwarded data is produced: the projection is the identity *)
Theorem run_fwd_no_status m bs : forall t alive, map out_fwd (run_fwd m t alive bs) = run_fwd m t alive bs.
Proof. intros t alive. apply (run_cb_fwd false). Qed.

Lemma out_fwd_status o f s : out_fwd o = OOut f s -> s = [].
Proof. destruct o; cbn [out_fwd]; intros H; try discriminate. now injection H as _ <-. Qed.

Theorem run_fwd_status_empty m bs t alive f s : In (OOut f s) (run_fwd m t alive bs) -> s = [].
Proof.
  rewrite <- run_fwd_no_status. intros H. apply in_map_iff in H. destruct H as (o & H & _).
  eapply out_fwd_status; exact H.
Qed.

(* forward-only runs of good batches: exactly the accepted (metadata, epoch) pairs of each batch, judged with the
   threshold in force, for every sequence of batches *)
Theorem run_fwd_good m bs t : Forall good bs -> run_fwd m t true bs = spec_fwd m t bs.
Proof.
  intros H. unfold spec_fwd. rewrite <- (run_good m bs t H).
  symmetry. rewrite <- run_cb_true. apply run_cb_fwd.
Qed.

(* what the check of the coverage audit compares: got agrees with the model up to the status component iff its
   projection is the forward-only run *)
Lemma check_run_fwd_spec m t bs got :
  check_run_fwd m t bs got = eqb_list eqb_out (run_fwd m t true bs) (map out_fwd got).
Proof. unfold check_run_fwd. now rewrite <- run_cb_true, run_cb_fwd. Qed.

(* the hypotheses are satisfiable / the statement is not vacuous: three epochs at th-1, th, th+1; the run with a
   callback shows the mask, the run without shows only the forwarded epoch, and both forward the same array *)
Example status_ex :
  let b := mk_ann [3; 1; 2] [9; -3; 10; 0; -11; 2] 5 1000 1 (LMany [70]) (LMany [100; 101; 102]) in
  let f := fwd_ann [1; 1; 2] [9; -3] 5 1000 1 (LMany [70]) (LMany [100]) in
  good b /\
  run_cb true MAbs (TConst 10) true [b; b] = [OOut (Some f) [true; false; false]; OOut (Some f) [true; false; false]] /\
  run_cb false MAbs (TConst 10) true [b; b] = [OOut (Some f) []; OOut (Some f) []].
Proof.
  cbn zeta. split; [|split; vm_compute; reflexivity].
  cbn [good mk_ann renest]. split.
  - unfold wf. cbn. repeat split; try lia; repeat constructor.
  - exists 3, 2. split; [reflexivity | lia].
Qed.
