(* C06, part 4: the composition.  Along any well-formed combined schedule of queue operations and
   acquisitions, the abstract extractor (Extract/Spec.v, which extract_epochs refines send by send) has
   delivered exactly the kept trials whose epoch window has been acquired, each once, in order, and each
   epoch is the slice of the played stream at the trial's notified start. *)
From Coq Require Import ZArith List Bool Lia ZifyBool.
From PV Require Import Queue.LemmasC04.
From PV Require Import EndToEnd.Model EndToEnd.Spec EndToEnd.ListLemmas EndToEnd.ProofsStream EndToEnd.ProofsLive
     EndToEnd.ProofsBatch.
From PV Require Import Extract.ProofsCapture Extract.ProofsRefine Extract.ProofsSpec Extract.Proofs.
Import ListNotations.
Open Scope Z_scope.

(* ---------- lists ---------- *)
Lemma firstn_splice P c out a : 0 <= a <= c -> a <= zlen P ->
  firstn (Z.to_nat a) (splice P c out) = firstn (Z.to_nat a) P.
Proof.
  intros Ha Hl. apply list_ext_znth. intros s. rewrite !znth_firstn.
  destruct (s <? a) eqn:E; [|reflexivity]. rewrite znth_splice by lia.
  destruct (s <? c) eqn:E1; [|lia]. destruct (s <? zlen P) eqn:E2; [reflexivity|lia].
Qed.

Lemma firstn_trunc (P : list osample) a t : a <= t ->
  firstn (Z.to_nat a) (firstn (Z.to_nat t) P) = firstn (Z.to_nat a) P.
Proof. intros H. rewrite firstn_firstn. f_equal. lia. Qed.

Lemma firstn_plus {A} (l : list A) : forall a m, firstn (a + m) l = firstn a l ++ firstn m (skipn a l).
Proof.
  induction l as [|x l IH]; intros a m.
  - rewrite !firstn_nil, skipn_nil, firstn_nil. reflexivity.
  - destruct a as [|a]; [reflexivity|]. cbn [Nat.add firstn skipn app]. f_equal. apply IH.
Qed.

(* live lists sorted by start: those whose window is complete form a prefix *)
Fixpoint incr (l : list (Z * Z)) : Prop :=
  match l with [] => True | a :: t => Forall (fun b => snd a <= snd b) t /\ incr t end.

Lemma incr_split n T l : incr l ->
  filter (complete n T) l ++ filter (fun kt => negb (complete n T kt)) l = l.
Proof.
  induction l as [|a l IH]; cbn [incr filter]; [reflexivity|]. intros [H1 H2].
  destruct (complete n T a) eqn:E; cbn [negb app]; [f_equal; auto|].
  assert (Hn : filter (complete n T) l = []).
  { apply ProofsSpec.filter_none. intros x Hx. rewrite Forall_forall in H1. specialize (H1 x Hx).
    unfold complete in *. lia. }
  assert (Ha : filter (fun kt => negb (complete n T kt)) l = l).
  { apply ProofsSpec.filter_all. intros x Hx. rewrite Forall_forall in H1. specialize (H1 x Hx).
    unfold complete in *. lia. }
  rewrite Hn, Ha. reflexivity.
Qed.

Lemma disjoint_incr es l : (forall k, 0 <= len_of es k) -> disjoint_live es l -> incr l.
Proof.
  intros Hl. induction l as [|a l IH]; cbn [disjoint_live incr]; [auto|]. intros [H1 H2]. split; [|auto].
  eapply Forall_impl; [|exact H1]. cbn. intros b Hb. specialize (Hl (fst a)). lia.
Qed.

(* cancellations never touch a prefix D they do not mention *)
Lemma net_live_prefix D : forall notes W,
  Forall (fun x => ~ In x D) (removed_of notes) -> valid_notes (D ++ W) notes ->
  valid_notes W notes /\ net_live (D ++ W) notes = D ++ net_live W notes.
Proof.
  induction notes as [|e notes IH]; intros W HR V; [split; [exact Logic.I|reflexivity]|].
  destruct e as [k t|k t|]; cbn [valid_notes net_live removed_of flat_map app] in *.
  - destruct V as [Vn V]. rewrite <- app_assoc in V. destruct (IH _ HR V) as [V' N'].
    split; [split; [|exact V']|].
    + intros Hi. apply Vn. apply in_or_app. right. exact Hi.
    + rewrite <- app_assoc. exact N'.
  - inversion HR as [|? ? Hx HR']; subst. destruct V as [Vi V].
    assert (HiW : In (k, t) W) by (apply in_app_or in Vi; tauto).
    rewrite remove_pair_app_r in V |- * by exact Hx. destruct (IH _ HR' V) as [V' N'].
    split; [split; assumption|exact N'].
  - apply IH; assumption.
Qed.

Lemma NoDup_map_sub {A} (f : A -> Z) (c : A -> bool) a b :
  NoDup (map f (a ++ b)) -> NoDup (map f (filter c a) ++ map f b).
Proof.
  rewrite map_app. induction a as [|x a IH]; cbn [map filter app]; [auto|]. intros N.
  inversion N as [|? ? Hn Hd]; subst. destruct (c x); cbn [map app]; [|auto]. constructor; [|auto].
  intros Hi. apply Hn. apply in_app_or in Hi. apply in_or_app. destruct Hi as [Hi|Hi]; [left|right; exact Hi].
  apply in_map_iff in Hi. destruct Hi as (y & E & Hy). apply filter_In in Hy. rewrite <- E. apply in_map. tauto.
Qed.

Lemma removed_of_dom K notes : Forall (dom_ev K) notes -> Forall (fun kt => 0 <= fst kt < K) (removed_of notes).
Proof.
  induction 1 as [|e l He Hl IH]; [constructor|]. destruct e; cbn [removed_of flat_map app]; auto.
Qed.
Lemma added_of_dom K notes : Forall (dom_ev K) notes -> Forall (fun kt => 0 <= fst kt < K) (added_of notes).
Proof.
  induction 1 as [|e l He Hl IH]; [constructor|]. destruct e; cbn [added_of flat_map app]; auto.
Qed.
Lemma dom_ev_of K notes : Forall (fun kt => 0 <= fst kt < K) (added_of notes) ->
  Forall (fun kt => 0 <= fst kt < K) (removed_of notes) -> Forall (dom_ev K) notes.
Proof.
  induction notes as [|e l IH]; intros HA HR; [constructor|].
  destruct e; cbn [added_of removed_of flat_map app] in *.
  - inversion HA; subst. constructor; [assumption|auto].
  - inversion HR; subst. constructor; [assumption|auto].
  - constructor; [exact Logic.I|auto].
Qed.

(* one send of the abstract extractor, given what its loops compute *)
Lemma spec_feed_compute B k s f W1 skip W3 ev2 :
  drain r_key (f_rems f) (s_wait s) [] = (W1, skip) ->
  sintake (s_stream s ++ f_chunk f) (s_T s + zlen (f_chunk f))
          (lb_start (s_T s) (s_kept s ++ [(s_T s, zlen (f_chunk f))])) (f_reqs f)
          (filter (nready (s_T s + zlen (f_chunk f))) W1) skip = Some (W3, ev2) ->
  stack_ok k (map (s_item (s_stream s ++ f_chunk f)) (filter (ready (s_T s + zlen (f_chunk f))) W1) ++ ev2) = true ->
  spec_feed B k s f =
  ({| s_T := s_T s + zlen (f_chunk f); s_stream := s_stream s ++ f_chunk f; s_wait := W3;
      s_kept := sprune B (s_T s + zlen (f_chunk f)) (s_kept s ++ [(s_T s, zlen (f_chunk f))]);
      s_armed := s_armed s && negb (f_complete f && is_nil W3 && s_armed s) |},
   FOut (map (s_item (s_stream s ++ f_chunk f)) (filter (ready (s_T s + zlen (f_chunk f))) W1) ++ ev2)
        (f_complete f && is_nil W3 && s_armed s)).
Proof.
  intros E1 E2 E3. unfold spec_feed. rewrite E1, sready_char, E2, E3. reflexivity.
Qed.

Section Compose.
  Variables (es : list entry) (B : Z) (k : kind) (X : ecfg).
  Hypothesis HK : x_K X = zlen es.
  Hypothesis Hpre : x_pre X = 0.
  Hypothesis Mn : minlen es = true.
  Hypothesis Hcov : forallb (fun e => e_len e <=? x_n X) es = true.
  Hypothesis Hn0 : 0 <= x_n X.

  Let rq := req_of (x_K X) (x_n X) (x_pre X).
  Let pk := fun kt : Z * Z => pkey (x_K X) (fst kt) (snd kt).
  Let dom := fun kt : Z * Z => 0 <= fst kt < zlen es.
  Let cpl := complete (x_n X).

  (* st: the combined state; s: the state of the abstract extractor after the sends made so far;
     dprev: what it has delivered so far *)
  Record CI (st : cstate) (s : sstate) (dprev : list item) : Prop := {
    ci_sinv : sinv es (s_q st) (s_P st) (s_added st);
    ci_acq : 0 <= s_acq st <= q_samples (s_q st);
    ci_T : s_T s = s_acq st;
    ci_len : s_acq st <= zlen (s_P st);
    ci_S : s_stream s = map (x_val X) (firstn (Z.to_nat (s_acq st)) (s_P st));
    ci_valid : valid_notes (s_live st) (s_notes st);
    ci_net : net_live (s_live st) (s_notes st) = live_of (s_q st);
    ci_nrem : Forall (fun kt => s_acq st < snd kt + len_of es (fst kt) /\ dom kt) (removed_of (s_notes st));
    ci_nadd : Forall (fun kt => s_acq st <= snd kt /\ dom kt) (added_of (s_notes st));
    ci_ldom : Forall (fun kt => dom kt /\ 0 <= snd kt) (s_live st);
    ci_lnd : NoDup (map pk (s_live st));
    ci_lincr : incr (s_live st);
    ci_wait : s_wait s = map rq (filter (fun kt => negb (cpl (s_acq st) kt)) (s_live st));
    ci_deliv : dprev = map (s_item (s_stream s)) (map rq (filter (cpl (s_acq st)) (s_live st)));
    ci_kept : exists a, 0 <= a /\ contig a (s_kept s) (s_T s)
  }.

  (* ---------- a queue operation: the extractor is not involved ---------- *)
  Lemma qstep_CI st s d o st1 : CI st s d -> wf_qop all_rep st o = true -> qstep all_rep st o = Some st1 ->
    CI st1 s d.
  Proof.
    intros [C1 C2 C3 C4 C5 C6 C7 C8 C9 C10 C11 C12 C13 C14 C15] W H.
    unfold wf_qop in W. apply andb_true_iff in W. destruct W as [T W].
    pose proof (sv_clock _ _ _ _ _ _ _ C1) as Hc0.
    destruct o as [m|tm|tm]; cbn [qstep] in H.
    - (* pop *)
      destruct (pop_buffer all_rep (s_q st) m) as [[[q1 out] e1]|] eqn:PB; [|discriminate].
      inversion H; subst st1; clear H.
      pose proof (pop_buffer_sinv _ _ _ _ _ _ _ _ C1 T PB) as I'.
      destruct (pop_buffer_live _ _ _ _ _ _ _ _ C1 Mn T PB) as ((V1 & N1 & R1 & A1) & Hclk).
      constructor; cbn [s_q s_P s_acq s_notes s_live s_added]; auto.
      + lia.
      + rewrite zlen_splice by lia. lia.
      + rewrite firstn_splice by lia. exact C5.
      + apply valid_notes_app. rewrite C7. tauto.
      + rewrite net_live_app, C7. exact N1.
      + rewrite removed_of_app, R1, app_nil_r. exact C8.
      + rewrite added_of_app. apply Forall_app. split; [exact C9|].
        eapply Forall_impl; [|exact A1]. cbn. unfold dom. intros kt [H1 H2]. split; lia.
    - (* pause *)
      destruct tm as [t|].
      + assert (Ht : 0 <= t <= q_samples (s_q st) /\ s_acq st <= t) by lia. destruct Ht as [Ht Ha].
        rewrite (pause_all_rep (s_q st) t) in H by lia. inversion H; subst st1; clear H.
        destruct (pause_live es (s_q st) (s_P st) (s_added st) t C1 Mn) as (V1 & N1 & A1 & R1).
        constructor; cbn [s_q s_P s_acq s_notes s_live s_added truncate]; auto.
        * apply pause_sinv; assumption.
        * cbn [pause_state set_pause q_samples]. lia.
        * rewrite Zlen_firstn. lia.
        * rewrite firstn_trunc by lia. exact C5.
        * apply valid_notes_app. rewrite C7. tauto.
        * rewrite net_live_app, C7. exact N1.
        * rewrite removed_of_app. apply Forall_app. split; [exact C8|].
          eapply Forall_impl; [|exact R1]. cbn. unfold dom. intros kt [H1 H2]. split; lia.
        * rewrite added_of_app, A1, app_nil_r. exact C9.
      + cbn [pause] in H. inversion H; subst st1; clear H.
        constructor; cbn [s_q s_P s_acq s_notes s_live s_added truncate]; rewrite ?app_nil_r; auto.
    - (* resume *)
      inversion H; subst st1; clear H.
      constructor; cbn [s_q s_P s_acq s_notes s_live s_added]; auto.
      + apply resume_sinv; [exact C1|exact T|]. destruct tm; [lia|exact Logic.I].
      + cbn [resume set_pause q_samples]. destruct tm; lia.
  Qed.

  (* ---------- facts about the requests ---------- *)
  Lemma len_cov kt : dom kt -> 1 <= len_of es (fst kt) <= x_n X.
  Proof.
    unfold dom. intros H. split; [apply minlen_len; assumption|].
    apply znth_lt_Some in H. destruct H as [e He]. unfold len_of. rewrite He.
    apply LemmasC04.znth_In in He. rewrite forallb_forall in Hcov. apply Hcov in He. lia.
  Qed.

  Lemma ready_rq T kt : ready T (rq kt) = cpl T kt.
  Proof. unfold ready, cpl, complete, rq, req_of. cbn [r_lo r_n]. rewrite Hpre. f_equal. lia. Qed.
  Lemma nready_rq T kt : nready T (rq kt) = negb (cpl T kt).
  Proof. unfold nready. rewrite ready_rq. reflexivity. Qed.
  Lemma rq_lo kt : r_lo (rq kt) = snd kt.
  Proof. unfold rq, req_of. cbn [r_lo]. rewrite Hpre. lia. Qed.

  Lemma filter_ready_rq T l : filter (ready T) (map rq l) = map rq (filter (cpl T) l).
  Proof. rewrite filter_map_comm. f_equal. apply filter_ext. intros kt. apply ready_rq. Qed.
  Lemma filter_nready_rq T l : filter (nready T) (map rq l) = map rq (filter (fun kt => negb (cpl T kt)) l).
  Proof. rewrite filter_map_comm. f_equal. apply filter_ext. intros kt. apply nready_rq. Qed.

  (* what the stream invariant says about the log as a list of (key, t0) pairs *)
  Lemma sinv_live q P A : sinv es q P A ->
    Forall (fun kt => dom kt /\ 0 <= snd kt) (live_of q) /\ NoDup (map pk (live_of q)) /\ incr (live_of q).
  Proof.
    intros I. pose proof (sv_log _ _ _ _ _ _ _ I) as L.
    assert (D : Forall (fun kt => dom kt /\ 0 <= snd kt) (live_of q)).
    { rewrite live_of_map. apply Forall_map. eapply Forall_impl; [|exact L]. cbn. unfold dom. cbn [pair_of fst snd].
      intros i (_ & _ & H3 & _ & H5). split; assumption. }
    split; [exact D|]. split.
    - pose proof (sinv_NoDup _ _ _ _ Mn I) as ND. clear - ND D HK. unfold pk. rewrite HK.
      induction (live_of q) as [|a g IH]; cbn [map]; [constructor|].
      inversion ND as [|? ? Hn Hd]; subst. inversion D as [|? ? Da Dg]; subst. constructor; [|auto].
      intros Hin. apply in_map_iff in Hin. destruct Hin as (b & E & Hb).
      rewrite Forall_forall in Dg. destruct (Dg b Hb) as [Kb _]. destruct Da as [Ka _].
      apply pkey_inj in E; [|exact Kb|exact Ka]. apply Hn. destruct a, b. cbn [fst snd] in E. destruct E; subst. exact Hb.
    - apply (disjoint_incr es).
      + intros k0. unfold len_of. destruct (znth es k0) as [e|] eqn:E; [|lia].
        apply LemmasC04.znth_In in E. unfold minlen in Mn. rewrite forallb_forall in Mn. apply Mn in E. lia.
      + apply chain_disjoint; [exact (sv_chain _ _ _ _ _ _ _ I)|].
        eapply Forall_impl; [|exact L]. cbn. tauto.
  Qed.

  (* ---------- an acquisition: one send to the extractor ---------- *)
  Lemma astep_CI st s d m : CI st s d -> 0 <= m -> s_acq st + m <= q_samples (s_q st) ->
    s_acq st + m <= zlen (s_P st) ->
    exists s' batch cb, spec_feed B k s (feed_of X st m) = (s', FOut batch cb) /\ CI (astep st m) s' (d ++ batch).
  Proof.
    intros [C1 C2 C3 C4 C5 C6 C7 C8 C9 C10 C11 C12 C13 C14 C15] Hm Hclk Hlen.
    set (acq := s_acq st) in *. set (T1 := acq + m). set (notes := s_notes st) in *. set (Lc := s_live st) in *.
    set (Dp := filter (cpl acq) Lc). set (Wp := filter (fun kt => negb (cpl acq kt)) Lc).
    assert (Hsplit : Dp ++ Wp = Lc) by (apply incr_split; exact C12).
    (* cancelled trials are not among the delivered ones *)
    assert (HremD : Forall (fun x => ~ In x Dp) (removed_of notes)).
    { eapply Forall_impl; [|exact C8]. cbn. intros x [H1 H2] Hin. apply filter_In in Hin. destruct Hin as [_ Hc].
      pose proof (len_cov x H2). unfold cpl, complete in Hc. lia. }
    rewrite <- Hsplit in C6, C7.
    destruct (net_live_prefix Dp notes Wp HremD C6) as [VW NW]. rewrite NW in C7.
    set (Lw := net_live Wp notes) in *.
    assert (DLc : Forall (fun kt => 0 <= fst kt < x_K X) Lc).
    { eapply Forall_impl; [|exact C10]. cbn. unfold dom. rewrite HK. tauto. }
    assert (DWp : Forall (fun kt => 0 <= fst kt < x_K X) Wp) by (apply ProofsSpec.Forall_filter; exact DLc).
    assert (Dnotes : Forall (dom_ev (x_K X)) notes).
    { apply dom_ev_of.
      - eapply Forall_impl; [|exact C9]. cbn. unfold dom. rewrite HK. tauto.
      - eapply Forall_impl; [|exact C8]. cbn. unfold dom. rewrite HK. tauto. }
    assert (NdWp : NoDup (map pk (Wp ++ []))).
    { rewrite app_nil_r. apply (NoDup_map_filter0 pk). exact C11. }
    destruct (two_phase (x_K X) 0 0 notes Wp [] [] DWp (Forall_nil _) Dnotes eq_refl NdWp) as [TP1 TP2].
    { cbn [eff fst]. rewrite app_nil_r. exact VW. }
    cbn [eff fst app] in TP1, TP2. rewrite app_nil_r in TP2. fold Lw in TP2.
    set (Dr := drain (fun kt : Z * Z => pkey (x_K X) (fst kt) (snd kt)) (rems_of (x_K X) notes) Wp []) in *.
    set (W1 := fst Dr) in *. set (skip := snd Dr) in *.
    set (A1 := fst (eff (x_K X) (added_of notes) skip)) in *.
    (* the log now *)
    destruct (sinv_live _ _ _ C1) as (LD & LN & LI).
    rewrite <- C7 in LD, LN, LI.
    assert (NdLw : NoDup (map pk (W1 ++ A1))).
    { rewrite TP2. rewrite map_app in LN. eapply ProofsBatch.NoDup_app_remove_l. exact LN. }
    set (f := feed_of X st m).
    assert (Hchunk : zlen (f_chunk f) = m).
    { unfold f, feed_of. cbn [f_chunk]. rewrite Zlen_map, Zlen_firstn, Zlen_skipn. fold acq. lia. }
    assert (HS1 : s_stream s ++ f_chunk f = map (x_val X) (firstn (Z.to_nat T1) (s_P st))).
    { rewrite C5. unfold f, feed_of. cbn [f_chunk]. fold acq. rewrite <- map_app. f_equal.
      unfold T1. replace (Z.to_nat (acq + m)) with (Z.to_nat acq + Z.to_nat m)%nat by lia.
      symmetry. apply firstn_plus. }
    set (S1 := s_stream s ++ f_chunk f) in *.
    assert (HlenS1 : zlen S1 = T1).
    { rewrite HS1, Zlen_map, Zlen_firstn. unfold T1. lia. }
    destruct C15 as (a & Ha0 & Hcont).
    assert (Hcont1 : contig a (s_kept s ++ [(s_T s, zlen (f_chunk f))]) (s_T s + zlen (f_chunk f))).
    { apply contig_app; [exact Hcont|]. lia. }
    assert (Hlb : lb_start (s_T s) (s_kept s ++ [(s_T s, zlen (f_chunk f))]) <= acq).
    { destruct (s_kept s) as [|[a0 m0] t0] eqn:Ek; cbn [app lb_start]; [lia|].
      cbn [contig] in Hcont. destruct Hcont as (-> & Hm0 & Hc'). apply contig_le in Hc'. lia. }
    (* removal loop *)
    assert (Edrain : drain r_key (f_rems f) (s_wait s) [] = (map rq W1, skip)).
    { rewrite C13. fold Wp.
      rewrite (drain_map (fun kt : Z * Z => pkey (x_K X) (fst kt) (snd kt)) r_key rq (fun x => eq_refl)).
      reflexivity. }
    (* intake loop *)
    set (lb := lb_start (s_T s) (s_kept s ++ [(s_T s, zlen (f_chunk f))])) in *.
    assert (Eintake : sintake S1 (s_T s + zlen (f_chunk f)) lb (f_reqs f) (filter (nready (s_T s + zlen (f_chunk f))) (map rq W1)) skip =
                      Some (filter (nready T1) (map rq W1) ++ filter (nready T1) (map rq A1),
                            map (s_item S1) (filter (ready T1) (map rq A1)))).
    { rewrite C3, Hchunk. fold T1. unfold f, feed_of. cbn [f_reqs]. fold notes.
      apply (sintake_eff (x_K X) (x_n X) (x_pre X)).
      - fold rq A1. rewrite filter_nready_rq, map_map.
        change (map (fun x : Z * Z => r_key (rq x))) with (map pk).
        apply (NoDup_map_sub pk). exact NdLw.
      - fold rq A1. apply Forall_forall. intros kt Hkt. rewrite rq_lo.
        apply eff_sub in Hkt. rewrite Forall_forall in C9. destruct (C9 kt Hkt). lia. }
    set (Xr := filter (ready T1) (map rq (W1 ++ A1))).
    assert (Ebatch : map (s_item S1) (filter (ready T1) (map rq W1)) ++ map (s_item S1) (filter (ready T1) (map rq A1))
                     = map (s_item S1) Xr).
    { unfold Xr. rewrite map_app, filter_app, map_app. reflexivity. }
    assert (Estack : stack_ok k (map (s_item S1) Xr) = true).
    { apply stack_ok_items.
      - unfold Xr. rewrite TP2, filter_ready_rq. apply Forall_forall. intros r Hr.
        apply in_map_iff in Hr. destruct Hr as (kt & <- & Hkt). apply filter_In in Hkt. destruct Hkt as [Hkt Hc].
        rewrite rq_lo. cbn [rq req_of r_n]. rewrite HlenS1.
        apply Forall_app in LD. destruct LD as [_ LD]. rewrite Forall_forall in LD. destruct (LD kt Hkt).
        unfold cpl, complete in Hc. lia.
      - apply (uniform_n_same (x_n X)). apply Forall_forall. intros r Hr. unfold Xr in Hr.
        apply filter_In in Hr. destruct Hr as [Hr _]. apply in_map_iff in Hr. destruct Hr as (kt & <- & _). reflexivity. }
    rewrite <- Ebatch in Estack.
    pose proof (spec_feed_compute B k s f (map rq W1) skip _ _ Edrain Eintake) as SF.
    rewrite C3, Hchunk in SF. fold T1 in SF. specialize (SF Estack).
    eexists _, _, _. split; [exact SF|].
    destruct (sinv_live _ _ _ C1) as (LD' & LN' & LI').
    assert (HDp_all : forall T, acq <= T -> filter (cpl T) Dp = Dp).
    { intros T HT. apply ProofsSpec.filter_all. intros x Hx. apply filter_In in Hx. destruct Hx as [_ Hc].
      unfold cpl, complete in *. lia. }
    assert (HDp_none : forall T, acq <= T -> filter (fun kt => negb (cpl T kt)) Dp = []).
    { intros T HT. apply ProofsSpec.filter_none. intros x Hx. apply filter_In in Hx. destruct Hx as [_ Hc].
      unfold cpl, complete in *. lia. }
    constructor; cbn [astep s_q s_P s_acq s_notes s_live s_added s_T s_stream s_wait s_kept]; fold acq T1; auto.
    - unfold T1. lia.
    - exact Logic.I.
    - constructor.
    - constructor.
    - rewrite <- C7, filter_app, HDp_none by (unfold T1; lia). cbn [app].
      rewrite <- TP2, filter_app, map_app, !filter_nready_rq. reflexivity.
    - fold S1. rewrite Ebatch. unfold Xr. rewrite TP2, filter_ready_rq.
      rewrite <- C7, filter_app, HDp_all by (unfold T1; lia). rewrite !map_app. f_equal.
      rewrite C14. fold Dp. apply map_ext_in. intros r Hr.
      apply in_map_iff in Hr. destruct Hr as (kt & <- & Hkt). symmetry. apply s_item_app.
      + rewrite rq_lo. apply filter_In in Hkt. destruct Hkt as [Hkt _].
        rewrite Forall_forall in C10. destruct (C10 kt Hkt). lia.
      + exact Hn0.
      + rewrite rq_lo. cbn [rq req_of r_n]. rewrite C5, Zlen_map, Zlen_firstn.
        apply filter_In in Hkt. destruct Hkt as [_ Hc]. unfold cpl, complete in Hc. lia.
    - eapply sprune_contig; [|exact Ha0]. rewrite C3, Hchunk in Hcont1. fold T1 in Hcont1. exact Hcont1.
  Qed.

  (* ---------- whole schedules ---------- *)
  Lemma run_steps_CI : forall steps st s d st' fs,
    CI st s d -> wf_steps all_rep st steps = true -> run_steps all_rep X st steps = Some (st', fs) ->
    exists s', CI st' s' (d ++ sdeliv B k s fs) /\
               Forall (fun o => is_err o = false) (map snd (spec_trace B k s fs)) /\
               Forall (fun r => r_n r = x_n X) (all_reqs fs).
  Proof.
    induction steps as [|stp steps IH]; intros st s d st' fs C W H; cbn [run_steps wf_steps] in *.
    - inversion H; subst. exists s. unfold sdeliv. cbn. rewrite app_nil_r. split; [exact C|]. split; constructor.
    - destruct stp as [o|m].
      + apply andb_true_iff in W. destruct W as [W1 W2].
        destruct (qstep all_rep st o) as [st1|] eqn:Q; [|discriminate].
        eapply IH; [|exact W2|exact H]. eapply qstep_CI; eauto.
      + destruct (run_steps all_rep X (astep st m) steps) as [[st2 fs2]|] eqn:R; [|discriminate].
        inversion H; subst st' fs; clear H.
        assert (Hw : 0 <= m /\ s_acq st + m <= q_samples (s_q st) /\ s_acq st + m <= zlen (s_P st) /\
                     wf_steps all_rep (astep st m) steps = true) by lia.
        destruct Hw as (Hm & Hc & Hl & W2).
        destruct (astep_CI st s d m C Hm Hc Hl) as (s1 & batch & cb & SF & C').
        destruct (IH _ _ _ _ _ C' W2 R) as (s' & C'' & E' & N').
        exists s'. rewrite (sdeliv_step B k s _ fs2 s1 batch cb SF), app_assoc.
        split; [exact C''|]. split.
        * cbn [spec_trace]. rewrite SF. cbn [map snd]. constructor; [reflexivity|exact E'].
        * unfold all_reqs. cbn [flat_map]. apply Forall_app. split; [|exact N'].
          unfold feed_of. cbn [f_reqs]. apply Forall_map. apply Forall_forall. intros kt _. reflexivity.
  Qed.

  Lemma CI_init p ch pm : wf_queue p es = true -> CI (cinit (qinit p es ch pm)) sinit [].
  Proof.
    intros Wq. constructor.
    - eapply sinv_init. exact Wq.
    - cbn. lia.
    - reflexivity.
    - cbn. lia.
    - reflexivity.
    - exact Logic.I.
    - reflexivity.
    - constructor.
    - constructor.
    - constructor.
    - constructor.
    - exact Logic.I.
    - reflexivity.
    - reflexivity.
    - exists 0. split; [lia|reflexivity].
  Qed.

  (* the epoch cut out of the acquired stream at a kept trial's start is its waveform followed by silence *)
  Lemma item_content q P A acq kt : sinv es q P A -> In kt (live_of q) -> cpl acq kt = true ->
    0 <= acq <= q_samples q -> acq <= zlen P -> poststim_fits es (x_n X) A (live_of q) = true ->
    s_item (map (x_val X) (firstn (Z.to_nat acq) P)) (rq kt) = epoch_item X es kt.
  Proof.
    intros I Hin Hc Ha Hl PF.
    destruct (sinv_live _ _ _ I) as (LD & _ & _). rewrite Forall_forall in LD. destruct (LD kt Hin) as [Dk T0].
    destruct (len_cov kt Dk) as [L1 L2].
    unfold cpl, complete in Hc.
    unfold s_item, epoch_item. rewrite rq_lo. cbn [rq req_of r_key r_rid r_n]. f_equal.
    destruct kt as [key t0]. cbn [fst snd] in *.
    apply live_In in Hin. destruct Hin as (i & Hi & Ek & Et).
    pose proof (sv_log _ _ _ _ _ _ _ I) as LG. rewrite Forall_forall in LG. destruct (LG i Hi) as (G1 & _).
    apply list_ext_znth. intros j.
    rewrite znth_sl by lia. rewrite !znth_map, znth_firstn. unfold epoch_of, wave.
    rewrite znth_app, Zlen_zrange, znth_zrange, znth_repeat.
    destruct ((0 <=? j) && (j <? x_n X)) eqn:Ej.
    - destruct (t0 + j <? acq) eqn:E1; [|lia].
      destruct (j <? Z.max 0 (len_of es key)) eqn:E2.
      + destruct ((0 <=? j) && (j <? len_of es key)) eqn:E3; [|lia].
        rewrite <- Et, <- Ek. rewrite (sv_wave _ _ _ _ _ _ _ I i j Hi) by (rewrite ?G1, ?Ek, ?Et; lia).
        cbn [option_map]. rewrite Z.add_0_l. reflexivity.
      + destruct ((0 <=? j - Z.max 0 (len_of es key)) && (j - Z.max 0 (len_of es key) <? Z.of_nat (Z.to_nat (x_n X - len_of es key)))) eqn:E3;
          [|lia].
        cbn [option_map].
        destruct (znth_lt_Some P (t0 + j) ltac:(lia)) as [x Hx]. rewrite Hx. cbn [option_map]. f_equal. f_equal.
        destruct (sv_all _ _ _ _ _ _ _ I _ _ Hx) as [H0|(k' & t0' & HA & _ & Hr)]; [exact H0|exfalso].
        unfold poststim_fits in PF. rewrite forallb_forall in PF.
        assert (Hlv : In (key, t0) (live_of q)).
        { rewrite live_of_map. apply in_map_iff. exists i. split; [unfold pair_of; congruence|exact Hi]. }
        specialize (PF _ Hlv). rewrite forallb_forall in PF. specialize (PF _ HA). cbn [fst snd] in PF. lia.
    - destruct (j <? Z.max 0 (len_of es key)) eqn:E2.
      + destruct ((0 <=? j) && (j <? len_of es key)) eqn:E3; [lia|reflexivity].
      + destruct ((0 <=? j - Z.max 0 (len_of es key)) && (j - Z.max 0 (len_of es key) <? Z.of_nat (Z.to_nat (x_n X - len_of es key)))) eqn:E3;
          [lia|reflexivity].
  Qed.
End Compose.

(* ------------------------------------------------------------------ *)
(* the statements of Props/C06.v about the composition                 *)
(* ------------------------------------------------------------------ *)
Lemma cov_n0 p es n : wf_queue p es = true -> minlen es = true ->
  forallb (fun e => e_len e <=? n) es = true -> 0 <= n.
Proof.
  unfold wf_queue, minlen. intros W M C. destruct es as [|e es]; [cbn in W; lia|].
  cbn [forallb] in M, C. lia.
Qed.

Lemma end_to_end_core p es ch pm B k X steps st fs :
  wf_queue p es = true -> minlen es = true -> forallb (fun e => e_len e <=? x_n X) es = true ->
  x_K X = zlen es -> x_pre X = 0 ->
  wf_steps all_rep (cinit (qinit p es ch pm)) steps = true ->
  run_steps all_rep X (cinit (qinit p es ch pm)) steps = Some (st, fs) ->
  exists s', CI es X st s' (delivered (run B k fs)) /\ Forall (fun o => is_err o = false) (run B k fs).
Proof.
  intros Wq Mn Hc HK Hp W H.
  pose proof (cov_n0 _ _ _ Wq Mn Hc) as Hn0.
  destruct (run_steps_CI es B k X HK Hp Mn Hc Hn0 steps _ _ _ _ _ (CI_init es X Mn Hc p ch pm Wq) W H)
    as (s' & C & E & N).
  assert (Er : run B k fs = spec_run B k fs).
  { apply run_refines_spec. eapply Forall_impl; [|exact N]. cbn. intros r Hr. lia. }
  rewrite Er. exists s'. split; [exact C|exact E].
Qed.

Theorem end_to_end_slices : forall p es ch pm B k X steps st fs,
  wf_queue p es = true -> minlen es = true -> forallb (fun e => e_len e <=? x_n X) es = true ->
  x_K X = zlen es -> x_pre X = 0 ->
  wf_steps all_rep (cinit (qinit p es ch pm)) steps = true ->
  run_steps all_rep X (cinit (qinit p es ch pm)) steps = Some (st, fs) ->
  Forall (fun o => is_err o = false) (run B k fs) /\
  delivered (run B k fs) =
    map (s_item (map (x_val X) (firstn (Z.to_nat (s_acq st)) (s_P st))))
        (map (req_of (x_K X) (x_n X) (x_pre X)) (filter (complete (x_n X) (s_acq st)) (s_live st))) /\
  net_live (s_live st) (s_notes st) = live_of (s_q st).
Proof.
  intros p es ch pm B k X steps st fs Wq Mn Hc HK Hp W H.
  destruct (end_to_end_core p es ch pm B k X steps st fs Wq Mn Hc HK Hp W H) as (s' & C & E).
  split; [exact E|]. split; [|exact (ci_net _ _ _ _ _ C)].
  rewrite (ci_deliv _ _ _ _ _ C), (ci_S _ _ _ _ _ C). reflexivity.
Qed.

Theorem end_to_end : forall p es ch pm B k X steps st fs,
  wf_queue p es = true -> minlen es = true -> forallb (fun e => e_len e <=? x_n X) es = true ->
  x_K X = zlen es -> x_pre X = 0 ->
  wf_steps all_rep (cinit (qinit p es ch pm)) steps = true ->
  run_steps all_rep X (cinit (qinit p es ch pm)) steps = Some (st, fs) ->
  s_notes st = [] ->
  poststim_fits es (x_n X) (s_added st) (live_of (s_q st)) = true ->
  Forall (fun o => is_err o = false) (run B k fs) /\
  delivered (run B k fs) = map (epoch_item X es) (filter (complete (x_n X) (s_acq st)) (live_of (s_q st))).
Proof.
  intros p es ch pm B k X steps st fs Wq Mn Hc HK Hp W H Hnotes PF.
  destruct (end_to_end_core p es ch pm B k X steps st fs Wq Mn Hc HK Hp W H) as (s' & C & E).
  split; [exact E|].
  pose proof (ci_net _ _ _ _ _ C) as N. rewrite Hnotes in N. cbn [net_live] in N.
  rewrite (ci_deliv _ _ _ _ _ C), (ci_S _ _ _ _ _ C), N, map_map.
  apply map_ext_in. intros kt Hkt. apply filter_In in Hkt. destruct Hkt as [Hin Hcp].
  pose proof (cov_n0 _ _ _ Wq Mn Hc) as Hn0.
  eapply (item_content es 0 X HK Hp Mn Hc); eauto.
  - exact (ci_sinv _ _ _ _ _ C).
  - exact (ci_acq _ _ _ _ _ C).
  - exact (ci_len _ _ _ _ _ C).
Qed.

Lemma pause_no_added R q tm : added_of (snd (fst (pause R q tm))) = [].
Proof.
  unfold pause. destruct tm as [t|]; [|reflexivity].
  destruct (r_pause_atomic R && (t >? q_samples q)); [reflexivity|].
  destruct (t >? q_samples q); cbn [fst snd]; apply added_of_map_removed.
Qed.

(* the queue side of a combined schedule is the history of its queue operations: same final queue state,
   same played stream, and s_added collects the added notifications *)
Lemma run_steps_play R X : forall steps st st' fs,
  run_steps R X st steps = Some (st', fs) ->
  exists ev, play_hist R (s_q st) (s_P st) (ops_of steps) = Some (s_q st', ev, s_P st') /\
             s_added st' = s_added st ++ added_of ev.
Proof.
  induction steps as [|stp steps IH]; intros st st' fs H; cbn [run_steps ops_of play_hist] in *.
  - inversion H; subst. exists []. split; [reflexivity|]. cbn. rewrite app_nil_r. reflexivity.
  - destruct stp as [o|m].
    + destruct (qstep R st o) as [st1|] eqn:Q; [|discriminate].
      destruct (IH _ _ _ H) as (ev & PH & AD).
      destruct o as [n|tm|tm]; cbn [qstep play_hist] in *.
      * destruct (pop_buffer R (s_q st) n) as [[[q1 out] e1]|]; [|discriminate].
        inversion Q; subst st1; clear Q. cbn [s_q s_P s_added] in *. rewrite PH.
        exists (e1 ++ ev). split; [reflexivity|]. rewrite AD, added_of_app, app_assoc. reflexivity.
      * pose proof (pause_no_added R (s_q st) tm) as Ea.
        destruct (pause R (s_q st) tm) as [[q1 e1] err]. destruct err; [discriminate|]. cbn [fst snd] in Ea.
        inversion Q; subst st1; clear Q. cbn [s_q s_P s_added] in *. rewrite PH.
        exists (e1 ++ ev). split; [reflexivity|]. rewrite AD, added_of_app, Ea. reflexivity.
      * inversion Q; subst st1; clear Q. cbn [s_q s_P s_added] in *. exists ev. split; [exact PH|exact AD].
    + destruct (run_steps R X (astep st m) steps) as [[st2 fs2]|] eqn:RS; [|discriminate].
      inversion H; subst st' fs; clear H. destruct (IH _ _ _ RS) as (ev & PH & AD). exists ev. split; assumption.
Qed.

(* ... and a well-formed schedule is a well-formed, timed history *)
Lemma wf_steps_hist R : forall steps st, wf_steps R st steps = true ->
  wf_hist R (s_q st) (ops_of steps) = true /\ timed_hist R (s_q st) (ops_of steps) = true.
Proof.
  induction steps as [|stp steps IH]; intros st W; cbn [wf_steps ops_of wf_hist timed_hist] in *; [auto|].
  destruct stp as [o|m].
  - apply andb_true_iff in W. destruct W as [W1 W2]. unfold wf_qop in W1. apply andb_true_iff in W1. destruct W1 as [T W1].
    destruct (qstep R st o) as [st1|] eqn:Q; [|discriminate]. destruct (IH _ W2) as [H1 H2].
    destruct o as [n|tm|tm]; cbn [qstep wf_hist timed_hist] in *.
    + destruct (pop_buffer R (s_q st) n) as [[[q1 out] e1]|]; [|discriminate].
      inversion Q; subst st1. cbn [s_q] in *. rewrite H1, H2, T, W1. split; reflexivity.
    + destruct (pause R (s_q st) tm) as [[q1 e1] err]. destruct err; [discriminate|].
      inversion Q; subst st1. cbn [s_q] in *. rewrite H1, H2. split; [|reflexivity].
      destruct tm as [x|]; [|reflexivity]. rewrite andb_true_r. lia.
    + inversion Q; subst st1. cbn [s_q] in *. rewrite H1, H2, T. split; [|reflexivity].
      destruct tm as [x|]; [|reflexivity]. rewrite andb_true_r. lia.
  - apply (IH (astep st m)). lia.
Qed.
