(* C06, part 4: the composition.  Along any well-formed combined schedule of queue operations and
   acquisitions, the abstract extractor (Extract/Spec.v, which extract_epochs refines send by send) has
   delivered exactly the kept trials whose epoch window has been acquired, each once, in order, and each
   epoch is the slice of the played stream at the trial's notified start. *)
From Coq Require Import ZArith List Bool Lia ZifyBool.
From PV Require Import Queue.LemmasC04.
From PV Require Import EndToEnd.Model EndToEnd.Spec EndToEnd.ListLemmas EndToEnd.ProofsStream EndToEnd.ProofsLive
     EndToEnd.ProofsBatch.
From PV Require Import Extract.ProofsCapture Extract.ProofsRefine Extract.ProofsSpec Extract.Proofs.
Import ListNotations.
Open Scope Z_scope.

(* ---------- lists ---------- *)
Lemma firstn_splice P c out a : 0 <= a <= c -> a <= zlen P ->
  firstn (Z.to_nat a) (splice P c out) = firstn (Z.to_nat a) P.
Proof.
  intros Ha Hl. apply list_ext_znth. intros s. rewrite !znth_firstn.
  destruct (s <? a) eqn:E; [|reflexivity]. rewrite znth_splice by lia.
  destruct (s <? c) eqn:E1; [|lia]. destruct (s <? zlen P) eqn:E2; [reflexivity|lia].
Qed.

Lemma firstn_trunc (P : list osample) a t : a <= t ->
  firstn (Z.to_nat a) (firstn (Z.to_nat t) P) = firstn (Z.to_nat a) P.
Proof. intros H. rewrite firstn_firstn. f_equal. lia. Qed.

Lemma firstn_plus {A} (l : list A) : forall a m, firstn (a + m) l = firstn a l ++ firstn m (skipn a l).
Proof.
  induction l as [|x l IH]; intros a m.
  - rewrite !firstn_nil, skipn_nil, firstn_nil. reflexivity.
  - destruct a as [|a]; [reflexivity|]. cbn [Nat.add firstn skipn app]. f_equal. apply IH.
Qed.

(* live lists sorted by start: those whose window is complete form a prefix *)
Fixpoint incr (l : list (Z * Z)) : Prop :=
  match l with [] => True | a :: t => Forall (fun b => snd a <= snd b) t /\ incr t end.

Lemma incr_split n T l : incr l ->
  filter (complete n T) l ++ filter (fun kt => negb (complete n T kt)) l = l.
Proof.
  induction l as [|a l IH]; cbn [incr filter]; [reflexivity|]. intros [H1 H2].
  destruct (complete n T a) eqn:E; cbn [negb app]; [f_equal; auto|].
  assert (Hn : filter (complete n T) l = []).
  { apply ProofsSpec.filter_none. intros x Hx. rewrite Forall_forall in H1. specialize (H1 x Hx).
    unfold complete in *. lia. }
  assert (Ha : filter (fun kt => negb (complete n T kt)) l = l).
  { apply ProofsSpec.filter_all. intros x Hx. rewrite Forall_forall in H1. specialize (H1 x Hx).
    unfold complete in *. lia. }
  rewrite Hn, Ha. reflexivity.
Qed.

Lemma disjoint_incr es l : (forall k, 0 <= len_of es k) -> disjoint_live es l -> incr l.
Proof.
  intros Hl. induction l as [|a l IH]; cbn [disjoint_live incr]; [auto|]. intros [H1 H2]. split; [|auto].
  eapply Forall_impl; [|exact H1]. cbn. intros b Hb. specialize (Hl (fst a)). lia.
Qed.

(* cancellations never touch a prefix D they do not mention *)
Lemma net_live_prefix D : forall notes W,
  Forall (fun x => ~ In x D) (removed_of notes) -> valid_notes (D ++ W) notes ->
  valid_notes W notes /\ net_live (D ++ W) notes = D ++ net_live W notes.
Proof.
  induction notes as [|e notes IH]; intros W HR V; [split; [exact Logic.I|reflexivity]|].
  destruct e as [k t|k t|]; cbn [valid_notes net_live removed_of flat_map app] in *.
  - destruct V as [Vn V]. rewrite <- app_assoc in V. destruct (IH _ HR V) as [V' N'].
    split; [split; [|exact V']|].
    + intros Hi. apply Vn. apply in_or_app. right. exact Hi.
    + rewrite <- app_assoc. exact N'.
  - inversion HR as [|? ? Hx HR']; subst. destruct V as [Vi V].
    assert (HiW : In (k, t) W) by (apply in_app_or in Vi; tauto).
    rewrite remove_pair_app_r in V |- * by exact Hx. destruct (IH _ HR' V) as [V' N'].
    split; [split; assumption|exact N'].
  - apply IH; assumption.
Qed.

Lemma NoDup_map_sub {A} (f : A -> Z) (c : A -> bool) a b :
  NoDup (map f (a ++ b)) -> NoDup (map f (filter c a) ++ map f b).
Proof.
  rewrite map_app. induction a as [|x a IH]; cbn [map filter app]; [auto|]. intros N.
  inversion N as [|? ? Hn Hd]; subst. destruct (c x); cbn [map app]; [|auto]. constructor; [|auto].
  intros Hi. apply Hn. apply in_app_or in Hi. apply in_or_app. destruct Hi as [Hi|Hi]; [left|right; exact Hi].
  apply in_map_iff in Hi. destruct Hi as (y & E & Hy). apply filter_In in Hy. rewrite <- E. apply in_map. tauto.
Qed.

Lemma removed_of_dom K notes : Forall (dom_ev K) notes -> Forall (fun kt => 0 <= fst kt < K) (removed_of notes).
Proof.
  induction 1 as [|e l He Hl IH]; [constructor|]. destruct e; cbn [removed_of flat_map app]; auto.
  constructor; [exact He|exact IH].
Qed.
Lemma added_of_dom K notes : Forall (dom_ev K) notes -> Forall (fun kt => 0 <= fst kt < K) (added_of notes).
Proof.
  induction 1 as [|e l He Hl IH]; [constructor|]. destruct e; cbn [added_of flat_map app]; auto.
  constructor; [exact He|exact IH].
Qed.
Lemma dom_ev_of K notes : Forall (fun kt => 0 <= fst kt < K) (added_of notes) ->
  Forall (fun kt => 0 <= fst kt < K) (removed_of notes) -> Forall (dom_ev K) notes.
Proof.
  induction notes as [|e l IH]; intros HA HR; [constructor|].
  destruct e; cbn [added_of removed_of flat_map app] in *.
  - inversion HA; subst. constructor; [assumption|auto].
  - inversion HR; subst. constructor; [assumption|auto].
  - constructor; [exact Logic.I|auto].
Qed.
