(* C06, part 2: the notifications.  Replaying the added / removed notifications in the order the queue issued
   them gives exactly the queue's log of non-cancelled trials; every notification is valid when it is issued
   (no request is outstanding twice, only outstanding requests are cancelled). *)
From Coq Require Import ZArith List Bool Lia ZifyBool.
From PV Require Import Queue.LemmasC04 EndToEnd.Model EndToEnd.Spec EndToEnd.ListLemmas EndToEnd.ProofsStream.
Import ListNotations.
Open Scope Z_scope.

Definition pair_of (i : info) : Z * Z := (q_key i, i_t0 i).
Definition Rem (x : Z * Z) : event := ERemoved (fst x) (snd x).

Lemma live_of_map q : live_of q = map pair_of (q_generated q).
Proof. reflexivity. Qed.

(* ---------- pairs ---------- *)
Lemma eqb_pairZ_iff x y : eqb_pairZ x y = true <-> x = y.
Proof.
  unfold eqb_pairZ. destruct x as [a b], y as [c d]. cbn. split.
  - intros H. f_equal; lia.
  - intros H. inversion H. lia.
Qed.
Lemma eqb_pairZ_false x y : eqb_pairZ x y = false <-> x <> y.
Proof. rewrite <- eqb_pairZ_iff. destruct (eqb_pairZ x y); split; congruence. Qed.
Lemma eqb_pairZ_sym x y : eqb_pairZ x y = eqb_pairZ y x.
Proof. unfold eqb_pairZ. rewrite (Z.eqb_sym (fst x)), (Z.eqb_sym (snd x)). reflexivity. Qed.

Lemma remove_pair_notin x l : ~ In x l -> remove_pair x l = l.
Proof.
  induction l as [|y l IH]; cbn [remove_pair]; [reflexivity|]. intros H.
  destruct (eqb_pairZ x y) eqn:E; [apply eqb_pairZ_iff in E; subst; exfalso; apply H; left; reflexivity|].
  f_equal. apply IH. intros Hi. apply H. right. exact Hi.
Qed.

Lemma remove_pair_filter x l : NoDup l -> remove_pair x l = filter (fun y => negb (eqb_pairZ x y)) l.
Proof.
  induction 1 as [|y l Hy Hl IH]; cbn [remove_pair filter]; [reflexivity|].
  destruct (eqb_pairZ x y) eqn:E; cbn [negb].
  - apply eqb_pairZ_iff in E. subst y. symmetry. apply LemmasC04.filter_all.
    apply Forall_forall. intros z Hz. destruct (eqb_pairZ x z) eqn:E2; [|reflexivity].
    apply eqb_pairZ_iff in E2. subst z. contradiction.
  - f_equal. exact IH.
Qed.

Lemma remove_pair_app_l x a b : In x a -> remove_pair x (a ++ b) = remove_pair x a ++ b.
Proof.
  induction a as [|y a IH]; cbn [remove_pair app]; [intros []|]. intros H.
  destruct (eqb_pairZ x y) eqn:E; [reflexivity|]. cbn [app]. f_equal. apply IH.
  destruct H as [H|H]; [|exact H]. subst. apply eqb_pairZ_false in E. congruence.
Qed.

Lemma remove_pair_app_r x a b : ~ In x a -> remove_pair x (a ++ b) = a ++ remove_pair x b.
Proof.
  induction a as [|y a IH]; cbn [remove_pair app]; [reflexivity|]. intros H.
  destruct (eqb_pairZ x y) eqn:E; [apply eqb_pairZ_iff in E; subst; exfalso; apply H; left; reflexivity|].
  f_equal. apply IH. intros Hi. apply H. right. exact Hi.
Qed.

Lemma In_remove_pair x y l : In y (remove_pair x l) -> In y l.
Proof.
  induction l as [|z l IH]; cbn [remove_pair]; [auto|]. destruct (eqb_pairZ x z); cbn; intros H; [auto|].
  destruct H; auto.
Qed.

Lemma NoDup_remove_pair x l : NoDup l -> NoDup (remove_pair x l).
Proof. intros H. rewrite remove_pair_filter by exact H. apply NoDup_filter. exact H. Qed.

(* ---------- replaying notifications ---------- *)
Lemma net_live_app a : forall L b, net_live L (a ++ b) = net_live (net_live L a) b.
Proof.
  induction a as [|e a IH]; intros L b; [reflexivity|]. destruct e; cbn [app net_live]; apply IH.
Qed.

Lemma valid_notes_app a : forall L b, valid_notes L (a ++ b) <-> valid_notes L a /\ valid_notes (net_live L a) b.
Proof.
  induction a as [|e a IH]; intros L b; cbn [app valid_notes net_live]; [tauto|].
  destruct e; rewrite ?IH; tauto.
Qed.

Lemma filter_map_comm {A B} (f : A -> B) (p : B -> bool) l : filter p (map f l) = map f (filter (fun x => p (f x)) l).
Proof.
  induction l as [|x l IH]; [reflexivity|]. cbn [map filter]. destruct (p (f x)); cbn [map]; rewrite IH; reflexivity.
Qed.

Lemma NoDup_map_inj {A B} (f : A -> B) l x y : NoDup (map f l) -> In x l -> In y l -> f x = f y -> x = y.
Proof.
  induction l as [|z l IH]; cbn [map]; [intros _ []|]. intros N Hx Hy E. inversion N as [|? ? Hn Hd]; subst.
  destruct Hx as [<-|Hx], Hy as [<-|Hy]; auto.
  - exfalso. apply Hn. rewrite E. apply in_map. exact Hy.
  - exfalso. apply Hn. rewrite <- E. apply in_map. exact Hx.
Qed.

Lemma filter_filter' {A} (p q : A -> bool) l : filter p (filter q l) = filter (fun x => q x && p x) l.
Proof.
  induction l as [|x l IH]; [reflexivity|]. cbn [filter]. destruct (q x); cbn [filter andb]; [destruct (p x)|]; rewrite IH; reflexivity.
Qed.

(* cancelling a set of distinct outstanding requests, in any order *)
Lemma net_live_removes : forall xs L, NoDup L -> NoDup xs -> (forall x, In x xs -> In x L) ->
  valid_notes L (map Rem xs) /\
  net_live L (map Rem xs) = filter (fun y => negb (existsb (eqb_pairZ y) xs)) L.
Proof.
  induction xs as [|x xs IH]; intros L NL NX Hin; cbn [map valid_notes net_live existsb Rem].
  - split; [exact Logic.I|]. symmetry. apply LemmasC04.filter_all. apply Forall_forall. reflexivity.
  - inversion NX as [|? ? Hx NX']; subst.
    rewrite <- !surjective_pairing. fold Rem.
    assert (Hl : In x L) by (apply Hin; left; reflexivity).
    specialize (IH (remove_pair x L) (NoDup_remove_pair x L NL) NX').
    assert (Hsub : forall y, In y xs -> In y (remove_pair x L)).
    { intros y Hy. rewrite remove_pair_filter by exact NL. apply filter_In. split; [apply Hin; right; exact Hy|].
      destruct (eqb_pairZ x y) eqn:E; [|reflexivity]. apply eqb_pairZ_iff in E. subst. contradiction. }
    destruct (IH Hsub) as [V N]. split; [split; assumption|].
    rewrite N, remove_pair_filter by exact NL. rewrite filter_filter'.
    apply filter_ext. intros y. rewrite (eqb_pairZ_sym x y). destruct (eqb_pairZ y x); reflexivity.
Qed.

(* ---------- the log is strictly increasing when every waveform has a sample ---------- *)
Lemma chain_NoDup g : chain g -> Forall (fun i => 1 <= i_dur i) g -> NoDup (map pair_of g).
Proof.
  induction g as [|a g IH]; cbn [chain map]; [constructor|]. intros [C1 C2] F.
  inversion F as [|? ? Fa Fg]; subst. constructor; [|auto].
  intros Hin. apply in_map_iff in Hin. destruct Hin as (b & E & Hb).
  rewrite Forall_forall in C1. specialize (C1 b Hb). unfold iend in C1.
  unfold pair_of in E. inversion E. lia.
Qed.

Lemma minlen_len es k : minlen es = true -> 0 <= k < zlen es -> 1 <= len_of es k.
Proof.
  unfold minlen. rewrite forallb_forall. intros M Hk. apply znth_lt_Some in Hk. destruct Hk as [e He].
  unfold len_of. rewrite He. apply LemmasC04.znth_In in He. apply M in He. lia.
Qed.

Lemma sinv_dur1 es c d g src P A : minlen es = true -> sinv' es c d g src P A -> Forall (fun i => 1 <= i_dur i) g.
Proof.
  intros M I. eapply Forall_impl; [|exact (sv_log _ _ _ _ _ _ _ I)]. cbn.
  intros i (H1 & _ & _ & _ & H5). rewrite H1. apply minlen_len; assumption.
Qed.

Lemma sinv_NoDup es q P A : minlen es = true -> sinv es q P A -> NoDup (live_of q).
Proof.
  intros M I. rewrite live_of_map. apply chain_NoDup; [exact (sv_chain _ _ _ _ _ _ _ I)|].
  eapply sinv_dur1; eauto.
Qed.

(* ---------- what one queue operation notifies ---------- *)
(* c: a lower bound of the start of every trial added; L, L': the log before and after *)
Definition notes_ok (K c : Z) (L : list (Z * Z)) (ev : list event) (L' : list (Z * Z)) : Prop :=
  valid_notes L ev /\ net_live L ev = L' /\ removed_of ev = [] /\
  Forall (fun kt => c <= snd kt /\ 0 <= fst kt < K) (added_of ev).

Lemma notes_ok_nil K c L : notes_ok K c L [] L.
Proof. repeat split; constructor. Qed.

Lemma notes_ok_app K c c1 L e1 L1 e2 L2 : notes_ok K c L e1 L1 -> notes_ok K c1 L1 e2 L2 -> c <= c1 ->
  notes_ok K c L (e1 ++ e2) L2.
Proof.
  intros (V1 & N1 & R1 & A1) (V2 & N2 & R2 & A2) Hc. repeat split.
  - apply valid_notes_app. rewrite N1. tauto.
  - rewrite net_live_app, N1. exact N2.
  - rewrite removed_of_app, R1, R2. reflexivity.
  - rewrite added_of_app. apply Forall_app. split; [exact A1|].
    eapply Forall_impl; [|exact A2]. cbn. intros; lia.
Qed.

Lemma pop_step_live es q P A n : sinv es q P A -> minlen es = true -> 0 < n ->
  match pop_step all_rep q n with
  | PBok q1 out ev => notes_ok (zlen es) (q_samples q) (live_of q) ev (live_of q1)
  | _ => True
  end.
Proof.
  unfold sinv. intros I M Hn. unfold pop_step.
  destruct (q_paused q); [apply notes_ok_nil|].
  destruct (q_source q) as [[[key pos] len]|] eqn:SRC.
  { destruct (kind_of q key); [destruct (n >? len - pos)|]; apply notes_ok_nil. }
  destruct (q_delay q >? 0); [apply notes_ok_nil|].
  destruct (next_trial all_rep q) as [q' e| |] eqn:NT; [|exact Logic.I|exact Logic.I].
  apply next_trial_src in NT.
  destruct NT as (key & en & e0 & Z0 & En & D' & G' & EV & S' & SM & PA').
  subst e. unfold notes_ok. cbn [valid_notes net_live removed_of added_of flat_map app].
  rewrite !live_of_map, G', map_app. cbn [map pair_of q_key i_t0].
  repeat split; auto.
  - (* no logged trial starts at the clock: each has a sample and ends by now *)
    intros Hin. apply in_map_iff in Hin. destruct Hin as (b & E & Hb).
    pose proof (sinv_dur1 _ _ _ _ _ _ _ M I) as D1.
    pose proof (sv_src _ _ _ _ _ _ _ I) as Hs. cbn in Hs.
    rewrite Forall_forall in D1, Hs. specialize (D1 b Hb). specialize (Hs b Hb). unfold iend in Hs.
    unfold pair_of in E. inversion E. lia.
  - constructor; [cbn; split; [lia|]|constructor].
    destruct (sv_shape _ _ _ _ _ _ _ I key e0 Z0) as (e00 & H00 & _). eapply znth_Some_lt. exact H00.
Qed.

Lemma pop_loop_live es : forall fuel q n P A q' out ev,
  sinv es q P A -> minlen es = true -> (0 < n -> q_paused q = true -> in_progress q = false) ->
  pop_loop fuel all_rep q n = Some (q', out, ev) ->
  notes_ok (zlen es) (q_samples q) (live_of q) ev (live_of q') /\ q_samples q <= q_samples q'.
Proof.
  induction fuel as [|f IH]; intros q n P A q' out ev I M Hp H; cbn [pop_loop] in H.
  - destruct (n <=? 0); [|discriminate]. inversion H; subst. split; [apply notes_ok_nil|lia].
  - destruct (n <=? 0) eqn:En. { inversion H; subst. split; [apply notes_ok_nil|lia]. }
    assert (Hn : 0 < n) by lia.
    pose proof (pop_step_sinv es q P A n I Hn (Hp Hn)) as PS.
    pose proof (pop_step_live es q P A n I M Hn) as PL.
    destruct (pop_step all_rep q n) as [q1 o1 e1| |].
    + destruct PS as (I1 & SM & PA & IP).
      destruct (pop_loop f all_rep (add_samples q1 (zlen o1) false) (n - zlen o1)) as [[[q2 o2] e2]|] eqn:R;
        [|discriminate].
      inversion H; subst q' out ev.
      assert (I1' : sinv es (add_samples q1 (zlen o1) false) (splice P (q_samples q) o1) (A ++ added_of e1)).
      { unfold sinv. cbn [add_samples q_samples q_data q_generated q_source]. rewrite SM. exact I1. }
      specialize (IH _ _ _ _ _ _ _ I1' M (fun _ (E : q_paused (add_samples q1 (zlen o1) false) = true) =>
                                             IP (eq_trans (eq_sym PA) E)) R).
      destruct IH as [IH1 IH2]. cbn [add_samples q_samples] in IH1, IH2. pose proof (Zlen_nonneg o1).
      split; [|lia]. eapply notes_ok_app; [exact PL|exact IH1|]. lia.
    + inversion H; subst q' out ev. split; [repeat split; try constructor|]. cbn [add_samples q_samples]. lia.
    + discriminate.
Qed.

Lemma pop_buffer_live es q n P A q' out ev :
  sinv es q P A -> minlen es = true -> timed_op q (Pop n) = true -> pop_buffer all_rep q n = Some (q', out, ev) ->
  notes_ok (zlen es) (q_samples q) (live_of q) ev (live_of q') /\ q_samples q <= q_samples q'.
Proof.
  intros I M T H. eapply pop_loop_live; [exact I|exact M| |exact H].
  intros Hn Hpa. cbn [timed_op] in T. rewrite Hpa in T. destruct (in_progress q); [|reflexivity]. lia.
Qed.

(* pause(t): exactly the logged trials that end after t are cancelled, each once *)
Lemma pause_live es q P A t : sinv es q P A -> minlen es = true ->
  let ev := map (fun i => ERemoved (q_key i) (i_t0 i)) (filter (fun i => ends_after i t) (rev (q_generated q))) in
  valid_notes (live_of q) ev /\ net_live (live_of q) ev = live_of (pause_state q t) /\ added_of ev = [] /\
  Forall (fun kt => t < snd kt + len_of es (fst kt) /\ 0 <= fst kt < zlen es) (removed_of ev).
Proof.
  intros I M ev.
  pose proof (sinv_NoDup _ _ _ _ M I) as ND. rewrite live_of_map in ND.
  set (g := q_generated q) in *. set (c := fun i => ends_after i t).
  set (xs := map pair_of (filter c (rev g))).
  assert (Eev : ev = map Rem xs).
  { unfold ev, xs. rewrite map_map. reflexivity. }
  assert (NX : NoDup xs).
  { unfold xs. rewrite filter_rev', map_rev. apply NoDup_rev.
    assert (E : map pair_of (filter c g) = filter (fun y => existsb (eqb_pairZ y) (map pair_of (filter c g))) (map pair_of g)).
    { rewrite filter_map_comm. f_equal. apply filter_ext_in. intros i Hi.
      destruct (c i) eqn:Ec.
      - symmetry. apply existsb_exists. exists (pair_of i). split; [|apply eqb_pairZ_iff; reflexivity].
        apply in_map. apply filter_In. tauto.
      - symmetry. destruct (existsb _ _) eqn:Ex; [|reflexivity]. apply existsb_exists in Ex.
        destruct Ex as (y & Hy & Ey). apply eqb_pairZ_iff in Ey. apply in_map_iff in Hy.
        destruct Hy as (i' & E' & Hi'). apply filter_In in Hi'. destruct Hi' as [Hi' Hc'].
        assert (i' = i) by (eapply NoDup_map_inj; eauto; congruence). subst i'.
        change (c i = true) in Hc'. congruence. }
    rewrite E. apply NoDup_filter. exact ND. }
  assert (Hsub : forall x, In x xs -> In x (map pair_of g)).
  { intros x Hx. unfold xs in Hx. apply in_map_iff in Hx. destruct Hx as (i & <- & Hi).
    apply filter_In in Hi. apply in_map. apply in_rev. tauto. }
  destruct (net_live_removes xs (map pair_of g) ND NX Hsub) as [V N].
  rewrite live_of_map. fold g. rewrite Eev. split; [exact V|]. split; [|split].
  - rewrite N. rewrite live_of_map. cbn [pause_state set_pause q_generated]. fold g.
    rewrite filter_map_comm. f_equal. apply filter_ext_in. intros i Hi. fold (c i). f_equal.
    destruct (c i) eqn:Ec.
    + apply existsb_exists. exists (pair_of i). split; [|apply eqb_pairZ_iff; reflexivity].
      unfold xs. apply in_map. apply filter_In. split; [apply -> in_rev; exact Hi|exact Ec].
    + destruct (existsb _ _) eqn:Ex; [|reflexivity]. apply existsb_exists in Ex.
      destruct Ex as (y & Hy & Ey). apply eqb_pairZ_iff in Ey. unfold xs in Hy. apply in_map_iff in Hy.
      destruct Hy as (i' & E' & Hi'). apply filter_In in Hi'. destruct Hi' as [Hi' Hc']. apply in_rev in Hi'.
      assert (i' = i) by (apply (NoDup_map_inj pair_of g i' i ND Hi' Hi); congruence). subst i'.
      change (c i = true) in Hc'. congruence.
  - clear. induction xs as [|x xs IH]; [reflexivity|]. cbn. exact IH.
  - assert (Er : removed_of (map Rem xs) = xs).
    { clear. induction xs as [|x xs IH]; [reflexivity|]. cbn. destruct x. cbn. f_equal. exact IH. }
    rewrite Er. unfold xs. apply Forall_forall. intros x Hx. apply in_map_iff in Hx. destruct Hx as (i & <- & Hi).
    apply filter_In in Hi. destruct Hi as [Hi Hc]. apply in_rev in Hi.
    pose proof (sv_log _ _ _ _ _ _ _ I) as L. rewrite Forall_forall in L. destruct (L i Hi) as (L1 & _ & _ & _ & L5).
    unfold c, ends_after in Hc. cbn [pair_of fst snd]. lia.
Qed.

(* ---------- histories ---------- *)
Lemma play_hist_live es : forall ops q P A q' ev P',
  sinv es q P A -> minlen es = true -> wf_hist all_rep q ops = true -> timed_hist all_rep q ops = true ->
  play_hist all_rep q P ops = Some (q', ev, P') ->
  valid_notes (live_of q) ev /\ net_live (live_of q) ev = live_of q'.
Proof.
  induction ops as [|op ops IH]; intros q P A q' ev P' I M W T H; cbn [play_hist wf_hist timed_hist] in *.
  - inversion H; subst. split; [exact Logic.I|reflexivity].
  - destruct op as [n|tm|tm].
    + destruct (pop_buffer all_rep q n) as [[[q1 o1] e1]|] eqn:PB; [|discriminate].
      destruct (play_hist all_rep q1 _ ops) as [[[q2 e2] P2]|] eqn:RH; [|discriminate].
      inversion H; subst q' ev P'.
      apply andb_true_iff in W. destruct W as [W1 W2]. apply andb_true_iff in T. destruct T as [T1 T2].
      destruct (pop_buffer_live _ _ _ _ _ _ _ _ I M T1 PB) as ((V1 & N1 & _) & _).
      destruct (IH _ _ _ _ _ _ (pop_buffer_sinv _ _ _ _ _ _ _ _ I T1 PB) M W2 T2 RH) as [V2 N2].
      split; [apply valid_notes_app; rewrite N1; tauto|]. rewrite net_live_app, N1. exact N2.
    + destruct tm as [t|].
      * apply andb_true_iff in W. destruct W as [W1 W2].
        assert (Ht : 0 <= t <= q_samples q) by lia.
        rewrite (pause_all_rep q t) in H, W2, T by lia.
        destruct (play_hist all_rep (pause_state q t) _ ops) as [[[q2 e2] P2]|] eqn:RH; [|discriminate].
        inversion H; subst q' ev P'.
        destruct (pause_live es q P A t I M) as (V1 & N1 & _).
        destruct (IH _ _ _ _ _ _ (pause_sinv _ _ _ _ _ I Ht) M W2 T RH) as [V2 N2].
        split; [apply valid_notes_app; rewrite N1; tauto|]. rewrite net_live_app, N1. exact N2.
      * cbn [pause] in H, W, T.
        destruct (play_hist all_rep _ _ ops) as [[[q2 e2] P2]|] eqn:RH; [|discriminate].
        inversion H; subst q' ev P'. cbn [app].
        exact (IH (fst (fst (pause all_rep q None))) P A _ _ _ I M W T RH).
    + apply andb_true_iff in W. destruct W as [W1 W2]. apply andb_true_iff in T. destruct T as [T1 T2].
      assert (I' : sinv es (resume q tm) P A).
      { apply resume_sinv; [exact I|exact T1|]. destruct tm; [lia|exact Logic.I]. }
      apply (IH _ _ _ _ _ _ I' M W2 T2 H).
Qed.

(* (t0, key) -> one integer, injective for keys below K *)
Lemma pkey_inj K k t k' t' : 0 <= k < K -> 0 <= k' < K -> pkey K k t = pkey K k' t' -> k = k' /\ t = t'.
Proof.
  unfold pkey. intros Hk Hk' E.
  assert (t = t').
  { destruct (Z_lt_dec t t'); [nia|]. destruct (Z_lt_dec t' t); [nia|]. lia. }
  subst. lia.
Qed.

Theorem requests_are_live : forall p es ch pm ops q ev P,
  wf_queue p es = true -> minlen es = true -> wf_hist all_rep (qinit p es ch pm) ops = true ->
  timed_hist all_rep (qinit p es ch pm) ops = true ->
  play_hist all_rep (qinit p es ch pm) [] ops = Some (q, ev, P) ->
  valid_notes [] ev /\ net_live [] ev = live_of q /\ NoDup (live_of q) /\
  NoDup (map (fun kt => pkey (zlen es) (fst kt) (snd kt)) (live_of q)).
Proof.
  intros p es ch pm ops q ev P W M WH TH H.
  pose proof (sinv_init p es ch pm W) as I0.
  destruct (play_hist_live es ops _ _ _ _ _ _ I0 M WH TH H) as [V N].
  pose proof (play_hist_sinv es ops _ _ _ _ _ _ I0 WH TH H) as I.
  pose proof (sinv_NoDup _ _ _ _ M I) as ND.
  split; [exact V|]. split; [exact N|]. split; [exact ND|].
  (* distinct pairs with valid keys have distinct integer keys *)
  pose proof (sv_log _ _ _ _ _ _ _ I) as L. rewrite Forall_forall in L.
  rewrite live_of_map in *. clear - ND L.
  induction (q_generated q) as [|a g IH]; cbn [map]; [constructor|].
  inversion ND as [|? ? Hn Hd]; subst. constructor.
  - intros Hin. apply in_map_iff in Hin. destruct Hin as (y & E & Hy).
    apply in_map_iff in Hy. destruct Hy as (b & <- & Hb).
    destruct (L a (or_introl eq_refl)) as (_ & _ & _ & _ & Ka). destruct (L b (or_intror Hb)) as (_ & _ & _ & _ & Kb).
    cbn [pair_of fst snd] in E. apply pkey_inj in E; [|assumption|assumption].
    apply Hn. apply in_map_iff. exists b. split; [|exact Hb]. unfold pair_of. destruct E as [-> ->]. reflexivity.
  - apply IH; [exact Hd|]. intros i Hi. apply L. right. exact Hi.
Qed.

(* without timed pauses a kept trial is not recoverable: an un-timed pause() while a waveform is being
   generated, followed by paused generation, puts silence into the middle of the waveform and the trial is
   never notified as removed *)
Theorem untimed_pause_refuted : exists p es ops q ev P k t0 j,
  wf_queue p es = true /\ minlen es = true /\ wf_hist all_rep (qinit p es [] []) ops = true /\
  play_hist all_rep (qinit p es [] []) [] ops = Some (q, ev, P) /\
  In (k, t0) (live_of q) /\ removed_of ev = [] /\ 0 <= j < len_of es k /\ t0 + j < q_samples q /\
  znth P (t0 + j) = Some OZero.
Proof.
  exists PFifo, [mk_entry 1 4 KArray [0] true], [Pop 2; Pause None; Pop 2; Resume None; Pop 10].
  eexists _, _, _, 0, 0, 2.
  split; [reflexivity|]. split; [reflexivity|]. split; [reflexivity|].
  split; [vm_compute; reflexivity|].
  split; [vm_compute; left; reflexivity|]. split; [reflexivity|]. split; [vm_compute; split; congruence|].
  split; [vm_compute; reflexivity|]. vm_compute. reflexivity.
Qed.
